"""C11 -- ordered maps and sets behave as insertion-ordered sequences under any history.

M: TLC checks SmallMap.tla (NoDup, IndexOK, IndexWhenBig, LookupAgrees) on small universes with
   colliding hashes -- the same run is the generator.
G: one implementation test per TRANSITION of that state graph (hist + VIEW + ACTION_CONSTRAINT):
   each is a whole operation history with expected return value and contents after every step,
   replayed on SmallMap (hashed and natural APIs), SmallSet and OrderedMap, every abstract key
   standing for a block of real keys so the real 16-entry threshold is crossed where the model
   crosses its own.
V: long random histories on the real SmallMap (real threshold) validated by Trace_SmallMap.tla.
"""
import json
import os
import time

import common as C

PROP = "C11"

# (cfg, hash classes, Threshold, block size)  block*Threshold <= 16 < block*(Threshold+1)
CONFIGS_QUICK = [("Gen_SmallMap_T1.cfg", [7, 7, 9, 9], 1, 9)]
CONFIGS_THOROUGH = [
    ("Gen_SmallMap_T1.cfg", [7, 7, 9, 9], 1, 9),
    ("Gen_SmallMap_T2.cfg", [5, 5, 5, 5], 2, 6),
    ("Gen_SmallMap_T1C.cfg", [1, 2, 3, 4], 1, 12),
]


def gen_cases(cfg, hashes, block, wd, limit=None):
    r = C.run_tlc("Gen_SmallMap", cfg, workers=1, timeout=1500)
    if r.violation:
        raise C.ToolError("model invariant violated in %s: %s" % (cfg, r.violation))
    edges = C.tlc_prints(r.out, "EDGE")
    cases = []
    counts = {}
    for i, e in enumerate(edges):
        steps = json.loads(e)
        counts[steps[-1]["op"]] = counts.get(steps[-1]["op"], 0) + 1
        cases.append({"id": "%s#%d" % (cfg[:-4], i), "hash": hashes, "block": block, "nkeys": 4, "steps": steps})
    need = ["insert", "insert_unique", "shift_remove", "shift_remove_index", "pop", "reverse", "sort_keys",
            "retain", "clear", "reserve", "maybe_drop_index", "entry_or_insert"]
    missing = [a for a in need if not counts.get(a)]
    if missing or len(edges) + 1 != r.transitions:
        raise C.ToolError("vacuous/incomplete generation in %s: missing %s, %d edges for %d transitions"
                          % (cfg, missing, len(edges), r.transitions))
    r.coverage = {k: (0, v) for k, v in counts.items()}
    return r, cases


def replay_cases(cases, wd, tag):
    cp = os.path.join(wd, "cases_%s.ndjson" % tag)
    op = os.path.join(wd, "out_%s.ndjson" % tag)
    C.ndjson_write(cp, cases)
    rc, _, err = C.run_vh(["replay", "c11", cp, op], check=False, timeout=3000)
    outs = C.ndjson_read(op) if os.path.exists(op) else []
    return rc, outs, err


def classify(out):
    what = out.get("what", "")
    kind = "panic" if "panic" in what else "mismatch"
    return {"engine": "G", "target": out.get("target"), "kind": kind}


def run(tier):
    t0 = time.time()
    wd = C.workdir("c11")
    C.build_harness()
    verdict = C.Verdict(PROP)
    configs = CONFIGS_THOROUGH if tier == "thorough" else CONFIGS_QUICK
    states = transitions = 0
    n_cases = nontrivial = 0
    presence = 0
    samples = []
    cov = {}
    for cfg, hashes, thr, block in configs:
        r, cases = gen_cases(cfg, hashes, block, wd)
        states += r.distinct
        transitions += r.transitions
        for k, v in r.coverage.items():
            cov[k] = cov.get(k, 0) + v[1]
        # plain replay (block 1: the no-index path) for a third of the cases, block replay for all
        runs = [("blk", cases)]
        if tier == "thorough":
            runs.append(("plain", [dict(c, block=1) for c in cases]))
        for tag, cs in runs:
            rc, outs, err = replay_cases(cs, wd, cfg[:-4] + "_" + tag)
            byid = {o["id"]: o for o in outs}
            if rc != 0 and len(outs) < len(cs):
                # the harness process died (abort in code under test): the first case without output
                missing = [c for c in cs if c["id"] not in byid]
                verdict.disagree({"engine": "G", "target": "process", "kind": "abort"},
                                 {"case": missing[0], "stderr": err[-2000:]})
            for c in cs:
                o = byid.get(c["id"])
                if o is None:
                    continue
                n_cases += 1
                if any(s["on"] for s in c["steps"]) and len(c["steps"]) >= 2:
                    nontrivial += 1
                if not o["ok"]:
                    verdict.disagree(classify(o), {"case": c, "observed": o})
                else:
                    presence += o.get("presence_mismatch", 0)
        if cases:
            samples.append(cases[len(cases) // 2])
    # V
    nrun, nev = (3, 1500) if tier == "quick" else (12, 4000)
    tp = os.path.join(wd, "trace.ndjson")
    C.run_vh(["record", "c11", tp, "--seed", str(C.seed()), "--n", str(nev), "--runs", str(nrun)])
    events = C.ndjson_read(tp)
    accepted, at, detail, tr = C.validate_trace("Trace_SmallMap", "Trace_SmallMap.cfg", tp)
    if not accepted:
        bad = events[at - 1] if 0 < at <= len(events) else None
        kind = "panic" if bad and bad.get("a") == "panic" else ("trace_rejected" if at else "invariant")
        verdict.disagree({"engine": "V", "target": "SmallMap", "kind": kind},
                         {"rejected_at": at, "event": bad, "prefix_tail": events[max(0, at - 6):at], "tlc": detail})
    crossings = sum(1 for a, b in zip(events, events[1:]) if "keys" in a and "keys" in b
                    and (len(a["keys"]) <= 16) != (len(b["keys"]) <= 16))
    samples.append({"trace_events": events[1:4]})
    rc = verdict.finish()
    C.write_evidence(PROP, tier, "model_checking", {
        "states": states, "transitions": transitions,
        "traces_validated_against_impl": n_cases + nrun,
        "samples": samples[:3],
        "evaluations": n_cases + len(events),
        "distinct_nontrivial": nontrivial,
        "rule": "G: every transition of the TLC state graph of SmallMap.tla (4 keys, colliding hash classes, "
                "Threshold 1/2) is one operation history, replayed on SmallMap (hashed+natural APIs), SmallSet, "
                "OrderedMap with blocks of real keys; non-trivial = history during which the model's index exists. "
                "V: %d random histories x %d ops on the real SmallMap (threshold 16, 20 keys, 3 hash classes), "
                "validated by Trace_SmallMap.tla" % (nrun, nev),
        "exhaustive": True,
        "model_action_counts": cov,
        "trace_events": len(events), "trace_accepted": accepted, "threshold_crossings_in_traces": crossings,
        "index_presence_mismatches_info": presence,
    }, time.time() - t0, len(verdict.violations),
        assumptions=["TLC/SANY", "harness comparison code in harness/src/engines/c11.rs",
                     "index *policy* (when an index exists) is not judged; only that lookups and contents agree"])
    return rc


def replay(path):
    d = json.load(open(path))
    case = d["case"].get("case")
    if case is None:
        print(json.dumps(d, indent=1))
        return 0
    wd = C.workdir("c11_replay")
    rc, outs, err = replay_cases([case], wd, "replay")
    print(json.dumps(outs, indent=1))
    if outs and not outs[0]["ok"]:
        print("VIOLATION property=%s replay=%s" % (PROP, path))
        return 1
    return 0

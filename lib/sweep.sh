#!/bin/bash
# sweep.sh SEEDS...: run every quick check under each seed; one summary line per run (development aid,
# meant for `vp run`: builds the harness in the snapshot first)
cd "$(dirname "$0")/.."
./check setup > /dev/null 2>&1 || { echo "setup failed"; exit 2; }
mkdir -p work/sweep
for s in "$@"; do
  for i in 01 02 03 04 05 06 07 08 09 10 11 12 13 14 15 16 17 18 19 20; do
    t0=$(date +%s)
    VERIF_SEED=$s ./check C$i --tier quick > work/sweep/C${i}_s$s.log 2>&1
    rc=$?
    echo "seed=$s C$i rc=$rc $(( $(date +%s) - t0 ))s viol=$(grep -c '^VIOLATION' work/sweep/C${i}_s$s.log) kf=$(grep -c '^KNOWN-FINDING' work/sweep/C${i}_s$s.log)"
    if [ $rc -ne 0 ]; then tail -5 work/sweep/C${i}_s$s.log | cut -c1-300; fi
  done
done

"""C01 -- evaluation agrees with the reference semantics on the Python-shared core.

Reference semantics = Sem.tla (a definitional interpreter in TLA+; TLC is the evaluator).
V: a type-aware generator (harness) produces programs (module level and wrapped in a def), the
   real evaluator runs them; every record (AST, transcript, outcome) is judged by Trace_Sem.tla:
   transcript, failure kind and failure line must equal Sem's.
G: TLC-enumerated small programs (ProgGen.tla) replayed on the real evaluator (when present).
X: ExprGen.tla: every operation form (operators, slicing shapes, builtins, methods, % and .format
   argument shapes) x every pair of operand shapes from a catalogue of 20 values, written as
   variables or literals, at module level or inside a def; TLC computes each case with Sem.tla,
   the harness replays it.
"""
import json
import os
import time

import common as C
import semlib as S

PROP = "C01"


def classify(row, sem):
    if sem is None:
        return {"engine": "V", "kind": "unexplained"}
    if row["err"]["kind"] == "panic":
        return {"engine": "V", "kind": "panic"}
    if sem["err"]["kind"] != row["err"]["kind"]:
        return {"engine": "V", "kind": "outcome", "sem": sem["err"]["kind"] or "ok", "real": row["err"]["kind"] or "ok"}
    if json.dumps(sem["out"], sort_keys=True) != json.dumps(row["out"], sort_keys=True):
        return {"engine": "V", "kind": "transcript", "outcome": row["err"]["kind"] or "ok"}
    return {"engine": "V", "kind": "failure_line", "outcome": row["err"]["kind"]}


def run(tier):
    t0 = time.time()
    wd = C.workdir("c01")
    C.build_harness()
    verdict = C.Verdict(PROP)
    n, stmts = (1600, 10) if tier == "quick" else (24000, 14)
    tp, meta = S.record("c01", C.seed(), n, stmts, wd)
    rows = C.ndjson_read(tp)
    stats, bad, states = S.judge_rows(rows, wd, "c01", chunks=8 if tier == "quick" else 32)
    byid = {r["id"]: r for r in rows}
    if bad:
        ex = S.explain([byid[b] for b in bad[:40]], wd)
        for b in bad[:40]:
            row = byid[b]
            verdict.disagree(classify(row, ex.get(b)), {"program": S.slim(row), "sem": ex.get(b)})
    # G: TLC-enumerated small programs (ProgGen.tla): every template alone, and sequences of templates
    g_cases = []
    g_states = 0
    for cfg in (["ProgGen_1.cfg", "ProgGen_2s.cfg"] if tier == "quick" else ["ProgGen_1.cfg", "ProgGen_2.cfg", "ProgGen_3s.cfg"]):
        g = C.run_tlc("ProgGen", cfg, workers=8 if tier == "quick" else 14, timeout=6000, coverage=False, tlc_seed=C.seed())
        got = [json.loads(x) for x in C.tlc_prints(g.out, "CASE")]
        if len(got) * 2 != g.distinct:
            raise C.ToolError("ProgGen %s: %d cases for %d states" % (cfg, len(got), g.distinct))
        g_states += g.distinct
        g_cases += got
    gp, go = os.path.join(wd, "g_cases.ndjson"), os.path.join(wd, "g_out.ndjson")
    C.ndjson_write(gp, [{"id": "g%d" % i, "ast": c["ast"]} for i, c in enumerate(g_cases)])
    C.run_vh(["replay", "sem", gp, go], timeout=3000)
    gouts = {o["id"]: o for o in C.ndjson_read(go)}
    g_skipped = 0
    for i, c in enumerate(g_cases):
        o = gouts["g%d" % i]
        if c["kind"] == "spec_domain":
            g_skipped += 1
            continue
        if o["err"]["kind"] == "panic":
            verdict.disagree({"engine": "G", "kind": "panic"}, {"program": S.slim(o), "templates": c["ix"], "wrapped": c["wrap"]})
        elif o["err"]["kind"] != c["kind"]:
            verdict.disagree({"engine": "G", "kind": "outcome", "sem": c["kind"] or "ok", "real": o["err"]["kind"] or "ok"},
                             {"program": S.slim(o), "templates": c["ix"], "wrapped": c["wrap"], "sem": {"out": c["out"], "kind": c["kind"]}})
        elif json.dumps(o["out"], sort_keys=True) != json.dumps(c["out"], sort_keys=True):
            verdict.disagree({"engine": "G", "kind": "transcript", "outcome": c["kind"] or "ok"},
                             {"program": S.slim(o), "templates": c["ix"], "wrapped": c["wrap"], "sem": {"out": c["out"], "kind": c["kind"]}})
    # X: every operation form x operand shapes (ExprGen.tla), operands written as variables (the
    # literal / mixed spellings are C02's share in the quick tier; thorough runs all of them here too)
    xs = S.exprgen("ExprGen_c01q.cfg" if tier == "quick" else "ExprGen_t.cfg", wd, "c01", verdict, workers=8 if tier == "quick" else 14)
    judged = stats["n"] - stats["skipped"]
    failing = sum(v for k, v in meta["kinds"].items() if k)
    other = meta["kinds"].get("other", 0)
    if judged < n // 2:
        raise C.ToolError("too many programs outside Sem's domain: %s" % stats)
    rc = verdict.finish()
    sample = rows[len(rows) // 3]
    C.write_evidence(PROP, tier, "model_checking", {
        "states": states + g_states + xs["states"], "transitions": states + g_states + xs["states"],
        "traces_validated_against_impl": judged + len(g_cases) - g_skipped + xs["cases"] - xs["skipped"],
        "exprgen": {k: xs[k] for k in ("sessions", "cases", "skipped", "bad", "forms", "kinds")},
        "tlc_generated_programs": len(g_cases), "tlc_generated_failing": sum(1 for c in g_cases if c["kind"]),
        "samples": [{"src": sample["src"], "out": sample["out"][:5], "err": sample["err"]}],
        "evaluations": n, "distinct_nontrivial": len({r["src"] for r in rows if len(r["out"]) >= 1}),
        "rule": "seeded type-aware generator (harness/src/engines/sem/gen.rs): %d programs of 3..%d top-level statement "
                "groups, half wrapped in def main(); each judged by TLC running Sem.tla on the AST; non-trivial = distinct "
                "source with >= 1 emitted value" % (n, stmts + 3),
        "programs": n, "judged": judged, "skipped_outside_sem_domain": stats["skipped"],
        "statically_rejected_by_impl": meta["static_rejected"],
        "failing_programs": failing, "outcome_kinds": meta["kinds"], "error_kind_other": other,
        "disagreements": len(bad),
        "sem_layer": "1 + 2, Python-shared part (ints, bools, None, strings, lists, tuples, dicts, slicing, comprehensions, closures, "
                     "def/lambda with defaults/*args/**kwargs, if/for/break/continue/return, the shared builtins, every string / list / dict "
                     "method, % and .format, f-strings, int(text, base), chr/ord, bit operators)",
    }, time.time() - t0, len(verdict.violations),
        assumptions=["TLC evaluates Sem.tla faithfully", "harness printer/encoder/error-kind table",
                     "programs on which Sem reports spec_domain are not judged"])
    return rc


def replay(path):
    d = json.load(open(path))
    prog = d["case"]["program"]
    print(prog["src"])
    wd = C.workdir("c01_replay")
    # re-run the source through the harness via its AST is not stored; re-judge the stored record is
    # meaningless after a code change, so re-run the real evaluator on the source text:
    rc, out, err = C.run_vh(["runsrc", "sem", "-"], stdin=prog["src"], check=False)
    print(out)
    try:
        now = json.loads(out.strip().splitlines()[-1])
    except Exception:
        return 2
    sem = d["case"].get("sem")
    same = sem and json.dumps(now["out"], sort_keys=True) == json.dumps(sem["out"], sort_keys=True) \
        and now["err"]["kind"] == sem["err"]["kind"] and (not sem["err"]["kind"] or now["err"]["line"] == sem["err"]["line"])
    if not same:
        print("VIOLATION property=%s replay=%s" % (PROP, path))
        return 1
    return 0

"""C12 -- a container cannot be mutated while iterated and is released when iteration ends.

M: IterLock.tla -- protocol machine (lock counts per container) driven by the event list that
   Sem.tla produces for every generated case; invariants NonNegative, LocksBalanced (all locks
   released whenever control is back at the host, by any exit), MutableAgain, Intact.
G: the same TLC run prints every case of the product kind x construct x mutation x access path x
   exit x nesting as a session of 5 chunks with Sem's expected transcript/outcome per chunk; the
   harness evaluates the chunks on ONE real module/evaluator and python compares.
V: during the replay the iter_start/iter_stop hook events of each chunk are counted: the balance
   must be zero at the end of every chunk (the implementation's own lock counter).
"""
import json
import os
import time

import common as C

PROP = "C12"


def norm(x):
    return json.dumps(x, sort_keys=True)


def run(tier):
    t0 = time.time()
    wd = C.workdir("c12")
    C.build_harness()
    verdict = C.Verdict(PROP)
    cfg = "IterLock_q.cfg" if tier == "quick" else "IterLock_t.cfg"
    r = C.run_tlc("IterLock", cfg, workers=4 if tier == "quick" else 8, timeout=3000, coverage=False)
    if r.violation:
        raise C.ToolError("IterLock model violates its own invariant: %s" % r.violation)
    raw = C.tlc_prints(r.out, "CASE")
    cases = []
    for i, x in enumerate(raw):
        d = json.loads(x)
        d["id"] = "c12#%d" % i
        cases.append(d)
    if len(cases) < 500:
        raise C.ToolError("too few cases generated: %d" % len(cases))
    seen = {}
    for c in cases:
        k = (c["class"]["cons"], c["class"]["exit"])
        seen[k] = seen.get(k, 0) + 1
    for need in [("for", "attempt"), ("for", "error"), ("for", "break"), ("for", "return"), ("for", "exhaust"),
                 ("compr", "attempt"), ("dictcompr", "error"), ("sortedkey", "attempt"), ("selfextend", "attempt")]:
        if not seen.get(need):
            raise C.ToolError("vacuous generation: no case for %s" % (need,))
    cp = os.path.join(wd, "cases.ndjson")
    op = os.path.join(wd, "out.ndjson")
    C.ndjson_write(cp, [{"id": c["id"], "chunks": c["chunks"]} for c in cases])
    rc, _, err = C.run_vh(["replay", "sess", cp, op], check=False, timeout=3000)
    outs = {o["id"]: o for o in (C.ndjson_read(op) if os.path.exists(op) else [])}
    nontrivial = 0
    under_lock = 0
    for c in cases:
        o = outs.get(c["id"])
        cl = c["class"]
        base = {"cons": cl["cons"], "exit": cl["exit"], "kind": cl["kind"]}
        if o is None:
            verdict.disagree(dict(base, what="abort"), {"case": c, "stderr": err[-1500:]})
            break
        if o["status"] != "ok":
            verdict.disagree(dict(base, what="panic"), {"case": c, "observed": o})
            continue
        if c["exp"][1]["kind"] == "iter_mutation":
            under_lock += 1
        nontrivial += 1
        for j, (e, g) in enumerate(zip(c["exp"], o["res"])):
            stage = ["setup", "iterate", "probe", "after", "probe_after"][j]
            if e["kind"] != g["kind"]:
                verdict.disagree(dict(base, what="outcome", stage=stage, sem=e["kind"] or "ok", real=g["kind"] or "ok"),
                                 {"class": cl, "chunk": j + 1, "src": [x["src"] for x in o["res"]], "expected": e, "observed": g})
                break
            if norm(e["out"]) != norm(g["out"]):
                verdict.disagree(dict(base, what="transcript", stage=stage),
                                 {"class": cl, "chunk": j + 1, "src": [x["src"] for x in o["res"]], "expected": e, "observed": g})
                break
            if g["locks"] != 0:
                verdict.disagree(dict(base, what="lock_leak", stage=stage),
                                 {"class": cl, "chunk": j + 1, "src": [x["src"] for x in o["res"]], "locks": g["locks"]})
            if g["stack"] != 0:
                verdict.disagree(dict(base, what="stack_not_empty", stage=stage),
                                 {"class": cl, "chunk": j + 1, "src": [x["src"] for x in o["res"]], "stack": g["stack"]})
                break
    rc = verdict.finish()
    s = cases[len(cases) // 2]
    C.write_evidence(PROP, tier, "model_checking", {
        "states": r.distinct, "transitions": r.transitions,
        "traces_validated_against_impl": len(outs),
        "samples": [{"class": s["class"], "src": [x["src"] for x in outs[s["id"]]["res"]] if s["id"] in outs else None,
                     "expected": s["exp"]}],
        "evaluations": len(cases), "distinct_nontrivial": nontrivial,
        "rule": "all valid tuples (container kind, iterating construct, mutating op, access path, exit, nesting<=%s, direct) "
                "enumerated by TLC from IterLock.tla; each a 5-chunk session on one module; expected per-chunk transcript "
                "and outcome computed by Sem.tla" % ("2" if tier == "quick" else "3"),
        "exhaustive": True, "cases_by_construct_exit": {"%s/%s" % k: v for k, v in sorted(seen.items())},
        "cases_with_mutation_under_lock": under_lock,
        "known_finding_cases": {k: v[0] for k, v in verdict.known.items()},
    }, time.time() - t0, len(verdict.violations),
        assumptions=["Sem.tla is the reference for what each chunk yields", "harness printer/encoder/error-kind table",
                     "container kinds: list, dict, set"])
    return rc


def replay(path):
    d = json.load(open(path))
    print(json.dumps(d["class"]), "\n")
    for i, s in enumerate(d["case"].get("src", [])):
        print("--- chunk %d\n%s" % (i + 1, s))
    print(json.dumps({k: d["case"].get(k) for k in ("expected", "observed", "locks", "stack")}, indent=1))
    return 0

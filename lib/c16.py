"""C16 -- runtime type checks accept exactly the values a type denotes, on every check path.

G (+M): spec/TypeMatch.tla defines `Matches(ty, v)` from docs/types.md.  spec/Gen_TypeMatch.tla makes
   TLC enumerate type expressions (all of depth <= 2 over the constructor/argument sets of the tier;
   thorough adds larger sets and a seeded depth-3 sample) x a catalogue of ~150 values; one TLC state per
   (type, value) pair, one transition = one implementation test, each printed with the specification's
   answer and a family tag.  The invariant `Lemmas` (laws of the meaning) is checked at every pair.
   This module only *spells* types and values in the implementation's concrete syntax (Render, probed:
   fixed tuples are `(int, str)`, only `tuple[T, ...]` is subscripted, a tuple on the left of `|` in
   expression position must be wrapped in eval_type()), cuts the table into chunks, runs
   harness/src/bin/vh_c16.rs on them in parallel and compares character by character.
   The harness asks the real code 40 ways per pair (see vh_c16.rs): isinstance (type in place / via
   alias), eval_type(T).matches, parameter / return annotation, annotated assignment (in a def, at top
   level), TypeCompiled::new(..).matches and .to_frozen(..).matches from Rust -- in the defining module,
   and after freezing it, from a module that load()s aliases, functions and values (frozen values and
   values freshly built from the frozen record/enum types).
"""
import concurrent.futures
import json
import os
import re
import time

import common as C

PROP = "C16"
BIN = "vh_c16"
# one harness process per chunk; evaluating one more top-level statement costs time proportional to the
# number of names already in the module, so small modules are cheaper overall (measured: 16 -> 0.13 s/type,
# 100 -> 0.23 s/type)
TYPES_PER_CHUNK = 16

# ----------------------------------------------------------------------------- concrete syntax

SIMPLE = {"any": "typing.Any", "never": "typing.Never", "none": "None", "bool": "bool", "int": "int",
          "float": "float", "str": "str", "anylist": "list", "anydict": "dict", "anytuple": "tuple",
          "anyset": "set", "callable": "typing.Callable", "iterable": "typing.Iterable"}


def render_ty(t, ctx):
    """ctx: 'ann' (annotation position: the restricted type-expression grammar) or 'expr' (an ordinary
    expression: second argument of isinstance, right-hand side of an alias)."""
    k, a = t["k"], t["a"]
    r = lambda x: render_ty(x, ctx)
    if k in SIMPLE:
        return SIMPLE[k]
    if k in ("rec", "enum"):
        return t["n"]
    if k == "list":
        return "list[%s]" % r(a[0])
    if k == "set":
        return "set[%s]" % r(a[0])
    if k == "dict":
        return "dict[%s, %s]" % (r(a[0]), r(a[1]))
    if k == "tupleof":
        return "tuple[%s, ...]" % r(a[0])
    if k == "tuple":
        if len(a) == 0:
            return "()"
        if len(a) == 1:
            return "(%s,)" % r(a[0])
        return "(%s)" % ", ".join(r(x) for x in a)
    if k == "union":
        parts = []
        for m in a:
            s = r(m)
            if m["k"] == "union":
                s = "(%s)" % s
            elif m["k"] == "tuple" and ctx == "expr":
                # a tuple *value* has no `|`: `(int, str) | None` is an error in expression position
                s = "eval_type(%s)" % s
            parts.append(s)
        return " | ".join(parts)
    raise C.ToolError("cannot render type %r" % (t,))


INTS = {"0": "0", "1": "1", "2": "2", "-1": "-1", "big31": "(1 << 31)", "big63": "(1 << 63)",
        "big70": "(1 << 70)", "negbig": "(-(1 << 65))"}
FLOATS = {"0.0": "0.0", "1.0": "1.0", "1.5": "1.5", "nan": 'float("nan")', "inf": 'float("inf")'}
FNS = {"def": "fn0", "lambda": "(lambda x: x)", "builtin": "len", "method": '"".join', "partial": "partial(fn0)"}


def render_val(v):
    t, n, e = v["t"], v["n"], v["e"]
    r = render_val
    if t == "none":
        return "None"
    if t == "bool":
        return n
    if t == "int":
        return INTS[n]
    if t == "float":
        return FLOATS[n]
    if t == "str":
        return json.dumps(n)
    if t == "list":
        return "[%s]" % ", ".join(r(x) for x in e)
    if t == "tuple":
        return "()" if not e else "(%s,)" % ", ".join(r(x) for x in e)
    if t == "set":
        return "set([%s])" % ", ".join(r(x) for x in e)
    if t == "dict":
        return "{%s}" % ", ".join("%s: %s" % (r(e[i]), r(e[i + 1])) for i in range(0, len(e), 2))
    if t == "fn":
        return FNS[n]
    if t == "range":
        return "range(%s)" % n
    if t == "rec":
        return "%s(a=%s)" % (n, r(e[0]))
    if t == "enumval":
        return "%s(%s)" % (n, r(e[0]))
    if t == "struct":
        return "struct(a=%s)" % r(e[0])
    if t in ("rectype", "enumtype", "tyfn"):
        return n
    raise C.ToolError("cannot render value %r" % (v,))


SHARED = ["R1", "R2", "E1", "E2", "RF1", "RF2", "EF1", "EF2"]
# R1/R2 (E1/E2): two distinct declarations of equal shape (equal values).
# RF1/RF2 (EF1/EF2): declarations made by one record()/enum() call site executed twice.
# R1/E1 and R2/E2 are declared by two files of the same base name in different directories, at the same
# places of identical text (harness: DEFS_SRC in pkg_a/defs.star and pkg_b/defs.star): all that tells the
# declarations apart is the full path of the file.
PRELUDE_A = '''load("pkg_a/defs.star", _R1 = "RX", _E1 = "EX")
load("pkg_b/defs.star", _R2 = "RX", _E2 = "EX")
R1 = _R1
R2 = _R2
E1 = _E1
E2 = _E2
def _mkrec(t): return record(a=t)
RF1 = _mkrec(int)
RF2 = _mkrec(str)
def _mkenum(x): return enum(x, "z")
EF1 = _mkenum("a")
EF2 = _mkenum("b")
def fn0(): pass
'''
PRELUDE_B = '''def fn0(): pass
'''

# shapes that select each specialised matcher of type_compiled/alloc.rs, typing/tuple.rs (vacuity guard):
REQUIRED_TYPES = [
    "list[typing.Any]", "list[str]", "list[int]", "list[float]", "list[int | str]", "list[R1]", "list", "list[list[int]]",
    "None | int", "int | None", "None | str", "None | list", "None | bool", "None | list[int]", "None | typing.Any",
    "int | str", "int | str | None", "typing.Any | int | str", "R1 | None", "list[int] | None",
    "()", "(int,)", "(int, str)", "(int, str, None)", "(typing.Any, int)", "(int | str,)", "(list[int], int)",
    "tuple[int, ...]", "tuple[typing.Any, ...]", "tuple[int | str, ...]", "tuple",
    "dict[str, int]", "dict[str, typing.Any]", "dict[typing.Any, int]", "dict[typing.Any, typing.Any]", "dict[int, str]",
    "dict[str, list[int]]", "dict", "set[int]", "set[str]", "set[typing.Any]", "set", "set[int | str]",
    "typing.Callable", "typing.Iterable", "typing.Never", "typing.Any", "None", "bool", "int", "float", "str",
    "R1", "R2", "E1", "E2",
    "list[int] | list[str]", "dict[str, int] | dict[int, str]", "set[int] | set[str]", "(int,) | (str,)", "R1 | R2",
]


def shape_str(sh):
    return sh["k"] + ("[" + ",".join(sh["args"]) + "]" if sh["args"] else "")


# ----------------------------------------------------------------------------- generation (TLC)

def generate(tier, wd):
    cfg = "Gen_TypeMatch_%s.cfg" % tier
    r = C.run_tlc("Gen_TypeMatch", cfg, workers=4 if tier == "quick" else 8, timeout=1500, tlc_seed=C.seed(),
                  env={"VERIF_SEED": str(C.seed())}, coverage=False, xmx="8g")
    if r.violation:
        raise C.ToolError("a law of the specification (Lemmas) is violated: %s" % r.violation)
    vals = C.tlc_prints(r.out, "VALS")
    types = C.tlc_prints(r.out, "TYPES")
    if len(vals) != 1 or len(types) != 1:
        raise C.ToolError("generator did not print its tables")
    vals = json.loads(vals[0])
    types = json.loads(types[0])
    nt, nv = len(types), len(vals)
    exp = [[None] * nv for _ in range(nt)]
    fam = [[None] * nv for _ in range(nt)]
    n = 0
    deep = 0
    pat = re.compile(r'^<<"P", (\d+), (\d+), (TRUE|FALSE), "(\w+)", (TRUE|FALSE)>>$')
    for line in r.out.splitlines():
        if not line.startswith('<<"P"'):
            continue
        m = pat.match(line)
        if not m:
            raise C.ToolError("unparsable generator line: %s" % line[:200])
        ti, vi = int(m.group(1)) - 1, int(m.group(2)) - 1
        if exp[ti][vi] is None:
            n += 1
        exp[ti][vi] = m.group(3) == "TRUE"
        fam[ti][vi] = m.group(4)
        deep += m.group(5) == "TRUE"
    if n != nt * nv or r.distinct != nt * (nv + 1):
        raise C.ToolError("incomplete generation: %d pairs for %d types x %d values (%d states)"
                          % (n, nt, nv, r.distinct))
    if deep * 20 < n:
        raise C.ToolError("vacuous generation: only %d of %d pairs need to look inside the value" % (deep, n))
    r.deep = deep
    return r, types, vals, exp, fam


def vacuity(types, vals, exp, tier):
    by_ann = {}
    for i, t in enumerate(types):
        by_ann.setdefault(render_ty(t["ty"], "ann"), i)
    missing = [s for s in REQUIRED_TYPES if s not in by_ann]
    if missing:
        raise C.ToolError("vacuous generation: required type shapes not generated: %s" % missing)
    onesided = []
    for s in REQUIRED_TYPES:
        row = exp[by_ann[s]]
        if s not in ("typing.Any", "None | typing.Any", "typing.Any | int | str") and not any(x is False for x in row):
            onesided.append(s + " never rejects")
        if s not in ("typing.Never",) and not any(row):
            onesided.append(s + " never accepts")
    if onesided:
        raise C.ToolError("vacuous generation: %s" % onesided)
    kinds = {}
    for t in types:
        kinds[t["ty"]["k"]] = kinds.get(t["ty"]["k"], 0) + 1
    need = ["any", "never", "none", "bool", "int", "float", "str", "list", "dict", "set", "tuple", "tupleof",
            "union", "callable", "iterable", "rec", "enum", "anylist", "anydict", "anytuple", "anyset"]
    miss = [k for k in need if not kinds.get(k)]
    vk = {}
    for v in vals:
        vk[v["t"]] = vk.get(v["t"], 0) + 1
    needv = ["none", "bool", "int", "float", "str", "list", "tuple", "dict", "set", "fn", "range", "rec", "enumval",
             "struct", "rectype", "enumtype", "tyfn"]
    miss += [k for k in needv if not vk.get(k)]
    depths = {}
    for t in types:
        depths[t["depth"]] = depths.get(t["depth"], 0) + 1
    if miss or not depths.get(2) or (tier == "thorough" and not depths.get(3)):
        raise C.ToolError("vacuous generation: missing kinds %s, depths %s" % (miss, depths))
    return kinds, vk, depths


# ----------------------------------------------------------------------------- replay (harness)

def make_chunk(types, idxs, vals_src, top=True):
    return {"prelude_a": PRELUDE_A, "prelude_b": PRELUDE_B, "shared_names": SHARED, "vals": vals_src, "top": top,
            "types": [{"id": i, "ann": render_ty(types[i]["ty"], "ann"), "expr": render_ty(types[i]["ty"], "expr")}
                      for i in idxs]}


def run_chunk(wd, tag, chunk, timeout):
    cp = os.path.join(wd, "chunk_%s.json" % tag)
    op = os.path.join(wd, "out_%s.ndjson" % tag)
    json.dump(chunk, open(cp, "w"))
    if os.path.exists(op):
        os.remove(op)
    rc, _, err = C.run_vh(["replay", cp, op], check=False, timeout=timeout, bin=BIN)
    outs = C.ndjson_read(op) if os.path.exists(op) else []
    return rc, outs, err


GOT = {"T": True, "F": False, "E": "error", "P": "panic", "-": "unavailable"}


class Tally:
    """Feeds common.Verdict, keeping at most a few cases per class (a broken matcher disagrees 10^5 times)."""

    def __init__(self, verdict):
        self.v = verdict
        self.per_class = {}
        self.total = 0
        self.by_family = {}

    def add(self, cls, case):
        self.total += 1
        fk = "%s/expected=%s/got=%s" % (cls.get("family"), cls.get("expected"), cls.get("got"))
        self.by_family[fk] = self.by_family.get(fk, 0) + 1
        key = json.dumps(cls, sort_keys=True)
        n = self.per_class.get(key, 0)
        self.per_class[key] = n + 1
        if n < 2 or C.match_finding(PROP, cls, self.v.findings) is not None:
            self.v.disagree(cls, case)


def compare(types, vals, vals_src, exp, fam, outs, tally, stats):
    for o in outs:
        i = o["id"]
        t = types[i]
        ann = render_ty(t["ty"], "ann")
        shape = shape_str(t["shape"])
        for path, msg in sorted(o["setup"].items()):
            tally.add({"path": path, "ty_shape": shape, "expected": None, "got": "setup_error", "family": "plain"},
                      {"ty": t["ty"], "type_src": ann, "path": path, "message": msg})
        expected = "".join("T" if x else "F" for x in exp[i])
        stats["types_replayed"] += 1
        for path, s in o["obs"].items():
            stats["paths"][path] = stats["paths"].get(path, 0) + len(s)
            if s == expected:
                continue
            if len(s) != len(expected):
                tally.add({"path": path, "ty_shape": shape, "expected": None, "got": "truncated", "family": "plain"},
                          {"ty": t["ty"], "type_src": ann, "path": path, "observed": s})
                continue
            errs = {(e[0], e[1]): e[2] for e in o["errs"]}
            for vi, (a, b) in enumerate(zip(expected, s)):
                if a != b:
                    tally.add({"path": path, "ty_shape": shape, "expected": a == "T", "got": GOT[b],
                               "family": fam[i][vi]},
                              {"ty": t["ty"], "val": vals[vi], "type_src": ann,
                               "type_src_expr": render_ty(t["ty"], "expr"), "value_src": vals_src[vi],
                               "path": path, "expected": a == "T", "got": GOT[b],
                               "message": errs.get((path, vi))})


def replay_all(types, vals, exp, fam, idxs, wd, tally, stats, nchunks, top=True, timeout=1500):
    vals_src = [render_val(v) for v in vals]
    C.build_harness(BIN)
    chunks = [idxs[k::nchunks] for k in range(nchunks)]
    chunks = [c for c in chunks if c]
    results = {}
    with concurrent.futures.ThreadPoolExecutor(max_workers=min(16, len(chunks))) as ex:
        futs = {ex.submit(run_chunk, wd, str(k), make_chunk(types, c, vals_src, top), timeout): k
                for k, c in enumerate(chunks)}
        for f in concurrent.futures.as_completed(futs):
            results[futs[f]] = f.result()
    for k, c in enumerate(chunks):
        rc, outs, err = results[k]
        got = {o["id"] for o in outs}
        if rc != 0 or len(got) != len(c):
            # the harness process died / refused: an observation about the code under test unless it is
            # plainly our own set-up (exit 2 with a message)
            kind = "hang" if rc == -9 else "abort"
            tally.add({"path": "process", "ty_shape": "*", "expected": None, "got": kind, "family": "plain"},
                      {"chunk_types": [render_ty(types[i]["ty"], "ann") for i in c][:50], "rc": rc,
                       "stderr": err[-2000:]})
        compare(types, vals, vals_src, exp, fam, outs, tally, stats)
    return vals_src


def run(tier):
    t0 = time.time()
    wd = C.workdir("c16")
    C.build_harness(BIN)
    r, types, vals, exp, fam = generate(tier, wd)
    kinds, vkinds, depths = vacuity(types, vals, exp, tier)
    C.log("[C16] TLC: %d types x %d values = %d pairs in %.1fs" % (len(types), len(vals), len(types) * len(vals), r.wall))
    verdict = C.Verdict(PROP)
    tally = Tally(verdict)
    stats = {"types_replayed": 0, "paths": {}}
    t1 = time.time()
    vals_src = replay_all(types, vals, exp, fam, list(range(len(types))), wd, tally, stats,
                          nchunks=(len(types) + TYPES_PER_CHUNK - 1) // TYPES_PER_CHUNK)
    C.log("[C16] harness: %d observations on %d paths in %.1fs" % (sum(stats["paths"].values()), len(stats["paths"]),
                                                                  time.time() - t1))
    if stats["types_replayed"] != len(types) and not verdict.violations:
        raise C.ToolError("only %d of %d types were replayed" % (stats["types_replayed"], len(types)))
    if len(stats["paths"]) < 30 and not verdict.violations:
        raise C.ToolError("vacuous replay: only %d check paths observed" % len(stats["paths"]))
    npairs = len(types) * len(vals)
    nontrivial = r.deep
    n_true = sum(1 for row in exp for x in row if x)
    samples = []
    for i in (len(types) // 3, len(types) // 2, len(types) - 7):
        for vi in (len(vals) // 5, len(vals) // 2):
            samples.append({"type": render_ty(types[i]["ty"], "ann"), "value": vals_src[vi], "expected": exp[i][vi]})
    rc = verdict.finish()
    C.write_evidence(PROP, tier, "model_checking", {
        "states": r.distinct, "transitions": r.transitions,
        "traces_validated_against_impl": stats["types_replayed"] * len(vals),
        "samples": samples[:4],
        "evaluations": sum(stats["paths"].values()),
        "distinct_nontrivial": nontrivial,
        "rule": "TLC enumerates type expressions (tier %s: depth<=2 exhaustive over the argument sets of "
                "Gen_TypeMatch.tla%s) x the value catalogue; expected = TypeMatch!Matches; every pair is asked on "
                "every check path of vh_c16 in the defining module and through a frozen, loaded module; "
                "non-trivial (TypeMatch!Deep) = the type has parameters and the value is of an outer kind the type admits, so "
                "the answer depends on the elements" %
                (tier, ", plus a seeded depth-3 sample" if tier == "thorough" else ""),
        "exhaustive": True,
        "types": len(types), "values": len(vals), "pairs": npairs, "pairs_expected_true": n_true,
        "type_depths": {str(k): v for k, v in sorted(depths.items())},
        "type_kinds": kinds, "value_kinds": vkinds,
        "observations_per_path": stats["paths"],
        "disagreements_total": tally.total,
        "disagreement_classes": len(tally.per_class),
        "disagreements_by_family": tally.by_family,
        "spelling_observations": [
            "docs/types.md writes tuple[int, bool, str]; the code accepts only (int, bool, str) and tuple[T, ...]",
            "in expression position `(int, str) | None` is an error (tuple has no `|`); spelled eval_type((int, str)) | None",
        ],
    }, time.time() - t0, len(verdict.violations), assumptions=[
        "TLC/SANY, the Json module; the Render functions of lib/c16.py (abstract type/value -> concrete syntax) and "
        "the observation code of harness/src/bin/vh_c16.rs",
        "documented or clearly implied: bool is not int, int is not float; `float`, `list`, `dict`, `tuple`, `set` used "
        "bare denote the values produced by the respective functions; empty containers match every parameter",
        "docs silent, all paths agree, adopted: str is not typing.Iterable (strings are not iterable in Starlark); "
        "record types, enum types, builtin functions, bound methods and partial() values are typing.Callable; an enum "
        "type is typing.Iterable (the docs iterate over it), a record type is not; range is typing.Iterable",
        "a check 'rejects' when the call fails with the message `does not match the type annotation`; any other "
        "error is reported as a disagreement, never as a rejection",
        "`type` as a type and typing.Callable[[..], R] / typing.Iterable[T] parameters are not documented and not covered",
    ])
    return rc


def replay(path):
    d = json.load(open(path))
    case = d["case"]
    if "ty" not in case:
        print(json.dumps(d, indent=1))
        return 0
    wd = C.workdir("c16_replay")
    ty = case["ty"]
    vals = [case["val"]] if "val" in case else []
    vals_src = [render_val(v) for v in vals] or ["None"]
    chunk = {"prelude_a": PRELUDE_A, "prelude_b": PRELUDE_B, "shared_names": SHARED, "vals": vals_src, "top": True,
             "types": [{"id": 0, "ann": render_ty(ty, "ann"), "expr": render_ty(ty, "expr")}]}
    rc, outs, err = run_chunk(wd, "replay", chunk, 300)
    print("type   :", render_ty(ty, "ann"))
    print("value  :", vals_src[0])
    print("spec   :", case.get("expected"))
    if not outs:
        print("harness died rc=%s\n%s" % (rc, err[-2000:]))
        print("VIOLATION property=%s replay=%s" % (PROP, path))
        return 1
    o = outs[0]
    bad = False
    for p, m in sorted(o["setup"].items()):
        print("  %-26s setup error: %s" % (p, m))
        bad = True
    want = {True: "T", False: "F"}.get(case.get("expected"))
    for p, s in sorted(o["obs"].items()):
        mark = ""
        if want is not None and s[:1] != want:
            mark = "   <-- disagrees"
            bad = True
        print("  %-26s %s%s" % (p, GOT.get(s[:1], s), mark))
    for e in o["errs"]:
        print("  note:", e)
    if bad:
        print("VIOLATION property=%s replay=%s" % (PROP, path))
        return 1
    return 0

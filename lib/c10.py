"""C10 -- integer arithmetic is exact at every magnitude.

Oracle: spec/BigInt.tla (sign + base-2^15 limbs; schoolbook algorithms; nothing transcribed from
the implementation).
M: MC_BigInt.tla -- the oracle checked against TLC's native arithmetic (small range, limb
   boundaries) and against ring laws / the division identity / shift, bitwise and digit
   identities on the boundary grid.
G: Gen_BigInt.tla -- TLC enumerates operator x operand x operand (boundary grid exhaustively,
   pseudo-random operands up to 256 bits produced inside TLC from VERIF_SEED) and prints the
   expected observation; harness/src/bin/vh_c10.rs evaluates every case in the real interpreter
   as literals (foldable) and at run time (parameters of a def), plus host conversions
   (heap.alloc / UnpackValue) -- this module only compares strings.
V: Trace_BigInt.tla -- `//` and `%` results recorded from the interpreter on the harness's own
   random operands are accepted iff a = q*b + r with the floor sign rule.
"""
import json
import os
import time
from concurrent.futures import ThreadPoolExecutor

import common as C

PROP = "C10"
BIN = "vh_c10"
JOPTS = {}

BIN_OPS = ["+", "-", "*", "//", "%", "&", "|", "^", "==", "<", ">="]
SHIFT_OPS = ["<<", ">>"]
UNARY_OPS = ["neg", "inv", "abs", "str", "intstr", "fmt_d", "fmt_x", "fmt_X", "fmt_o", "float_rt", "rust"]
PARSE_OPS = ["parse", "parseU", "parseS", "parse0"]
HUGE_OPS = ["shlshr", "shl2shr", "shlhuge", "shrhuge"]
PART_OPS = {"arith": ["+", "-", "*"], "divmod": ["//", "%"], "bits": ["&", "|", "^"], "cmp": ["==", "<", ">="],
            "shift": SHIFT_OPS, "unary": UNARY_OPS, "parse": PARSE_OPS, "huge": HUGE_OPS}
MAGS = ["small", "2^31", "2^32", "2^53", "2^63", "2^64", "big"]


def plan(tier, seed):
    """[(part, src, seed, n, slice, nslices, ext)] -- one TLC process each."""
    jobs = []
    ext = 0 if tier == "quick" else 1
    # the boundary grid, exhaustive pairs (quick: the grid of the property statement, 47 values;
    # thorough: 77 values)
    split = (("arith", 2), ("divmod", 2), ("bits", 2), ("cmp", 1), ("parse", 1)) if tier == "quick" else \
            (("arith", 3), ("divmod", 4), ("bits", 3), ("cmp", 2), ("parse", 2))
    for part, k in split:
        for s in range(k):
            jobs.append((part, "grid", seed, 8, s, k, ext))
    if tier == "quick":
        # int(s, base) for every base but only every second grid value (slice 0 of 2); thorough does all
        jobs = [j for j in jobs if j[0] != "parse"] + [("parse", "grid", seed, 8, 0, 2, ext)]
    for part in ("shift", "unary", "huge"):
        jobs.append((part, "grid", seed, 8, 0, 1, ext))
    # pseudo-random operands (TLC's own generators, seeded)
    if tier == "quick":
        for part in ("arith", "divmod", "bits"):
            jobs.append((part, "rand", seed, 14, 0, 1, ext))
    else:
        for r in range(4):
            sd = seed * 1000 + r
            for part in ("arith", "divmod", "bits", "cmp"):
                jobs.append((part, "rand", sd, 30, 0, 1, ext))
            jobs.append(("shift", "rand", sd, 30, 0, 1, ext))
            jobs.append(("unary", "rand", sd, 30, 0, 1, ext))
            jobs.append(("parse", "rand", sd, 10, 0, 1, ext))
        for r in range(2):
            sd = seed * 1000 + 100 + r
            for part in ("arith", "divmod", "bits", "cmp"):
                jobs.append((part, "mixed", sd, 16, 0, 1, ext))
    return jobs


class _R:
    pass


def gen_job(job, wd):
    """Development aid: with VERIF_GEN_CACHE=<dir> TLC's output is stored there and reused (the generated cases do
    not depend on the tree under test) -- used to try several mutant builds in a row."""
    part, src, sd, n, sl, nsl, ext = job
    cache = os.environ.get("VERIF_GEN_CACHE")
    cp = os.path.join(cache, "c10_%s_%s_%d_%d_%d_%d_%d.json" % job) if cache else None
    if cp and os.path.exists(cp):
        d = json.load(open(cp))
        r = _R()
        r.distinct, r.states = d["distinct"], d["states"]
        return r, d["cases"]
    r, cases = gen_job_tlc(job, wd)
    if cp:
        os.makedirs(cache, exist_ok=True)
        json.dump({"distinct": r.distinct, "states": r.states, "cases": cases}, open(cp, "w"))
    return r, cases


def gen_job_tlc(job, wd):
    part, src, sd, n, sl, nsl, ext = job
    tag = "%s_%s_%d_%d" % (part, src, sd, sl)
    pp = os.path.join(wd, "params_%s.ndjson" % tag)
    C.ndjson_write(pp, [{"seed": sd, "n": n, "slice": sl, "nslices": nsl, "ext": ext}])
    t = time.time()
    r = C.run_tlc("Gen_BigInt", "Gen_BigInt.cfg", name="c10_" + tag, workers=1, coverage=False, timeout=3000,
                  xmx="3g", env={"C10_PART": part, "C10_SRC": src, "C10_PARAMS": pp,
                                 "JAVA_TOOL_OPTIONS": "-XX:ParallelGCThreads=2"})
    rows = [json.loads(x) for x in C.tlc_prints(r.out, "CASE")]
    if not rows or 2 * len(rows) != r.states:
        raise C.ToolError("generator %s: %d cases printed for %d states" % (tag, len(rows), r.states))
    C.log("[C10] TLC %s: %d cases in %.0fs" % (tag, len(rows), time.time() - t))
    cases = []
    for i, row in enumerate(rows):
        op, a, b, exp, mag, fit = row
        cases.append({"id": "%s#%d" % (tag, i), "op": op, "a": a, "b": b, "exp": exp, "mag": mag, "fit": fit,
                      "src": src})
    return r, cases


def run_harness(cases, wd, tag):
    cp = os.path.join(wd, "cases_%s.ndjson" % tag)
    op = os.path.join(wd, "out_%s.ndjson" % tag)
    C.ndjson_write(cp, [{k: c[k] for k in ("id", "op", "a", "b")} for c in cases])
    rc, _, err = C.run_vh(["replay", cp, op], check=False, timeout=3000, bin=BIN)
    outs = C.ndjson_read(op) if os.path.exists(op) else []
    return rc, outs, err


def judge_value(c, o):
    """o: {"v", "ty", "i32"} observed for one mode. Returns None or a reason."""
    exp, op, fit = c["exp"], c["op"], c["fit"]
    v = o.get("v", "")
    if v.startswith("panic"):
        return "panic"
    if exp == "huge":
        return None if v.startswith("error:") else "a value for an unrepresentable result"
    if op in ("shlshr", "shl2shr") and v == "error:overflow":
        return None  # a clean refusal of a very large shift is admitted; a wrong value is not
    if exp.startswith("error:"):
        return None if v == exp else "expected %s" % exp
    if v != exp:
        return "wrong value"
    if fit != "-":
        if o.get("ty") != "int":
            return "result type %s" % o.get("ty")
        if o.get("i32") != (fit == "1"):
            return "representation: unpack_i32 is %s for a value that %s i32" % (
                "Some" if o.get("i32") else "None", "fits" if fit == "1" else "does not fit")
    return None


def judge_rust(c, out):
    """Host conversions. Returns [(mode, reason)]."""
    a, flags = c["a"], c["exp"]
    fl = {"i32": flags[0] == "1", "u32": flags[1] == "1", "i64": flags[2] == "1", "u64": flags[3] == "1"}
    fl["isize"], fl["usize"] = fl["i64"], fl["u64"]
    bad = []
    for src, mode in (("rust", "rust"), ("lit", "literal")):
        o = out.get(src) or {}
        if "panic" in o or "error" in o:
            bad.append((mode, "failed: %s" % (o.get("panic") or o.get("error"))))
            continue
        if o.get("str") != a or o.get("ty") != "int":
            bad.append((mode, "str/type of the allocated value"))
        if o.get("big") != "ok:" + a:
            bad.append((mode, "BigInt::unpack_value"))
        for t, fits in fl.items():
            got = o.get(t)
            if fits and got != "ok:" + a:
                bad.append((mode, "%s::unpack_value gives %s for a value that fits" % (t, got)))
            if not fits and got not in ("none", "err"):
                bad.append((mode, "%s::unpack_value gives %s for a value that does not fit" % (t, got)))
        want = ("ok:" + a) if fl["i32"] else "none"
        if o.get("unpack_i32") != want:
            bad.append((mode, "Value::unpack_i32 gives %s" % o.get("unpack_i32")))
        if src == "lit" and not (o.get("eq_host") and o.get("hash_host")):
            bad.append((mode, "literal and host-allocated value differ (eq=%s hash=%s)" % (o.get("eq_host"), o.get("hash_host"))))
    al = out.get("alloc") or {}
    for t, fits in fl.items():
        if fits and al.get(t) != a:
            bad.append(("rust", "heap.alloc(%s) prints %s" % (t, al.get(t))))
        if not fits and t in al:
            bad.append(("rust", "host conversion to %s succeeded for a value the specification says does not fit" % t))
    return bad


def judge(c, out):
    """-> list of (class, reason)"""
    res = []
    if c["op"] == "rust":
        for mode, why in judge_rust(c, out):
            res.append(({"op": "rust", "mode": mode, "magnitude": c["mag"]}, why))
        return res
    for key, mode in (("lit", "literal"), ("rt", "runtime")):
        why = judge_value(c, out.get(key) or {})
        if why:
            res.append(({"op": c["op"], "mode": mode, "magnitude": c["mag"]}, why))
    return res


def nontrivial(c):
    return c["mag"] != "small" or c["fit"] == "0" or c["exp"].startswith("error:")


def run(tier):
    t0 = time.time()
    wd = C.workdir("c10")
    C.build_harness(BIN)
    verdict = C.Verdict(PROP)
    seed = C.seed()
    jobs = plan(tier, seed)
    # M (the oracle's self-check) runs beside the generators
    pool = ThreadPoolExecutor(max_workers=13)
    mfut = pool.submit(lambda: C.run_tlc("MC_BigInt", "MC_BigInt_%s.cfg" % tier, name="c10_mc", workers=4,
                                         timeout=3000, xmx="4g", coverage=False, require_ok=False))
    futs = [pool.submit(gen_job, j, wd) for j in jobs]
    # V: record while TLC generates
    nev = 100 if tier == "quick" else 600
    tp = os.path.join(wd, "trace.ndjson")
    rc, _, err = C.run_vh(["record", tp, "--seed", str(seed), "--n", str(nev)], check=False, timeout=1200, bin=BIN)
    events = C.ndjson_read(tp) if os.path.exists(tp) else []
    vfut = pool.submit(C.validate_trace, "Trace_BigInt", "Trace_BigInt.cfg", tp, "c10_trace", 3000)

    states = transitions = 0
    cases = []
    for f in futs:
        r, cs = f.result()
        states += r.distinct
        transitions += r.states
        cases.extend(cs)
    # vacuity guards
    per_op = {}
    per_mag = {}
    for c in cases:
        per_op[c["op"]] = per_op.get(c["op"], 0) + 1
        per_mag[c["mag"]] = per_mag.get(c["mag"], 0) + 1
    missing = [o for o in BIN_OPS + SHIFT_OPS + UNARY_OPS + PARSE_OPS + HUGE_OPS if not per_op.get(o)]
    missing += [m for m in MAGS if not per_mag.get(m)]
    n_div0 = sum(1 for c in cases if c["exp"] == "error:div0")
    n_neg = sum(1 for c in cases if c["exp"] == "error:negshift")
    n_big = sum(1 for c in cases if c["fit"] == "0")
    n_small = sum(1 for c in cases if c["fit"] == "1")
    n_rand = sum(1 for c in cases if c["src"] != "grid")
    if missing or not (n_div0 and n_neg and n_big and n_small and n_rand):
        raise C.ToolError("vacuous generation: missing %s div0=%d negshift=%d big=%d small=%d rand=%d"
                          % (missing, n_div0, n_neg, n_big, n_small, n_rand))

    C.log("[C10] %d cases generated by %d TLC processes at %.0fs" % (len(cases), len(jobs), time.time() - t0))
    # G: replay in the real interpreter, in a few processes
    nproc = 6
    chunks = [cases[i::nproc] for i in range(nproc)]
    rfuts = [pool.submit(run_harness, ch, wd, "p%d" % i) for i, ch in enumerate(chunks)]
    n_eval = 0
    byid = {}
    for ch, f in zip(chunks, rfuts):
        rc, outs, err = f.result()
        for o in outs:
            byid[o["id"]] = o
        if rc != 0 and len(outs) < len(ch):
            first = next(c for c in ch if c["id"] not in byid)
            if rc == 2 and "vh_c10:" in err:
                raise C.ToolError("harness: %s" % err[-500:])
            verdict.disagree({"op": first["op"], "mode": "process", "magnitude": first["mag"]},
                             {"case": first, "why": "harness process died (rc=%s)" % rc, "stderr": err[-1500:]})
    seen = set()
    nt = 0
    for c in cases:
        o = byid.get(c["id"])
        if o is None:
            continue
        n_eval += 1
        key = (c["op"], c["a"], c["b"])
        if key not in seen:
            seen.add(key)
            if nontrivial(c):
                nt += 1
        for cls, why in judge(c, o):
            verdict.disagree(cls, {"case": c, "observed": o, "why": why})

    C.log("[C10] %d cases replayed at %.0fs" % (n_eval, time.time() - t0))
    # V
    accepted, at, detail, tr = vfut.result()
    if not events:
        raise C.ToolError("no trace recorded: %s" % err[-500:])
    if not accepted:
        bad = events[at - 1] if 0 < at <= len(events) else None
        verdict.disagree({"op": "divmod-relation", "mode": "runtime", "magnitude": "big"},
                         {"trace_event": bad, "rejected_at": at, "tlc": detail})
    C.log("[C10] trace validated at %.0fs" % (time.time() - t0))
    # M
    mr = mfut.result()
    if mr.violation or not mr.ok:
        raise C.ToolError("BigInt.tla failed its own laws: %s" % (mr.violation or mr.out[-800:]))
    pool.shutdown()

    rcode = verdict.finish()
    mid = cases[len(cases) // 2]
    samples = [dict(mid, observed=byid.get(mid["id"])),
               next(c for c in cases if c["exp"] == "error:div0"),
               next(c for c in cases if c["src"] != "grid" and c["mag"] == "big"),
               {"trace_event": {k: events[0].get(k) for k in ("a", "xs", "ys", "qs", "rs")}}]
    C.write_evidence(PROP, tier, "model_checking", {
        "states": states + mr.distinct, "transitions": transitions + mr.states,
        "traces_validated_against_impl": n_eval + (len(events) if accepted else max(at - 1, 0)),
        "samples": samples,
        "evaluations": 2 * n_eval + len(events),
        "distinct_nontrivial": nt,
        "rule": "G: TLC (Gen_BigInt.tla) enumerates operator x operands over the boundary grid "
                "{0,+-1,+-2, +-(2^k+{-1,0,1}) for k in 31,32,53,63,64 (thorough: also 15,30,62,127,128), +-10^k for k in "
                "9,10,18,19,20,30} "
                "(all pairs) and over pseudo-random operands up to 256 bits generated inside TLC from the seed; every case "
                "is evaluated twice by the real interpreter (literals in source; run-time parameters of a def) and the "
                "decimal string / error kind / inline-representation flag compared with BigInt.tla's; "
                "non-trivial = distinct (op, a, b) with an operand or the result outside the inline i32 range, or an "
                "expected error. V: random divisions recorded from the interpreter, accepted by Trace_BigInt.tla iff "
                "a = q*b + r with the floor sign rule. M: MC_BigInt.tla (native agreement, ring laws, division identity).",
        "exhaustive": False,
        "cases_per_op": per_op, "cases_per_magnitude": per_mag,
        "expected_div0": n_div0, "expected_negshift": n_neg, "results_outside_i32": n_big, "results_inside_i32": n_small,
        "random_operand_cases": n_rand, "tlc_generator_processes": len(jobs),
        "model_self_check_instances": mr.distinct,
        "trace_events": len(events), "trace_accepted": accepted,
        "known_finding_cases": sum(v[0] for v in verdict.known.values()),
    }, time.time() - t0, len(verdict.violations),
        assumptions=["TLC/SANY and the Json/IOUtils community modules",
                     "harness observation code in harness/src/bin/vh_c10.rs; num-bigint's decimal parser/printer is "
                     "used only to hand operands to the interpreter and to print trace digits",
                     "error KIND is recognised from the message (contains 'by zero' / 'negative'+'shift' / 'overflow')",
                     "a shift by more than 4096 bits may be refused cleanly instead of computed",
                     "float(int) is required to be the nearest double, ties to even (float() documentation)"])
    return rcode


def replay(path):
    d = json.load(open(path))
    case = (d.get("case") or {}).get("case")
    if case is None:
        print(json.dumps(d, indent=1))
        return 0
    wd = C.workdir("c10_replay")
    rc, outs, err = run_harness([case], wd, "replay")
    print(json.dumps({"case": case, "observed": outs}, indent=1))
    if not outs:
        print("harness died: rc=%s %s" % (rc, err[-500:]))
        print("VIOLATION property=%s replay=%s" % (PROP, path))
        return 1
    bad = judge(case, outs[0])
    for cls, why in bad:
        print("disagreement:", json.dumps(cls), why)
    if bad:
        print("VIOLATION property=%s replay=%s" % (PROP, path))
        return 1
    print("case agrees with the specification now")
    return 0

"""C13 -- frozen values stay alive as long as anything that can reach them is alive.

M: TLC checks HeapRefs.tla (NoDangling, PointersCovered) over all action / drop / release orders
   within small bounds; each `Bug` variant of the model (one forgotten add_reference) must violate
   NoDangling -- the invariant is not vacuous.
G: Gen_HeapRefs.tla generates histories (one test per TRANSITION of a small state graph, plus
   seeded simulations of a larger one); each step lists the values the specification says are still
   reachable, each value with its expected content (computed by TLC).  harness/src/bin/vh_c13.rs
   replays them on the real Module / FrozenModule / OwnedFrozen / Globals API in child processes
   with poisoned arenas and compares the content of every reachable value after every step.
V: the same runs log heap_free events and the real FrozenHeapRef::refs() graph; Trace_HeapRefs.tla
   rejects a release of an arena the specification says is reachable, and a missing keep-alive edge.
"""
import concurrent.futures as cf
import json
import os
import re
import time

import common as C

PROP = "C13"
BIN = "vh_c13"

BUGS = ["load_no_ref", "freeze_no_forward", "add_to_heap_no_ref", "import_no_ref",
        "globals_build_no_ref", "from_globals_no_ref", "eval_no_globals_ref", "rehome_no_ref"]
M_ACTIONS = ["NewModule", "EvalLoad", "ImportPublic", "Freeze", "GetOwned", "AddToHeap",
             "GlobalsFromModule", "GlobalsFromHandle", "Rehome", "UseGlobal", "ModuleFromGlobals",
             "DropOpen", "DropFrozen", "DropHandle", "Free"]
G_OPS = ["new_module", "eval_load", "import_public", "freeze", "get_owned", "add_to_heap",
         "globals_from_module", "globals_from_handle", "rehome", "use_global", "module_from_globals",
         "drop_open", "drop_frozen", "drop_handle"]
VIA_PATH = {"load": "load", "reexport": "reexport", "container": "container", "closure": "closure",
            "owned": "owned", "add_to_heap": "add_to_heap", "globals": "globals", "import": "import", "rehome": "rehome",
            "own": "own"}


# ------------------------------------------------------------------------------------------ M

_COVLINE = re.compile(r"^<\w+ line \d+, col \d+ to line \d+, col \d+ of module HeapRefs \((\d+) \d+ (\d+) \d+\)>: (\d+):(\d+)")


def action_coverage(out):
    """TLC names a sub-action of Next by the definition its disjunct sits in and the disjunct's
    position; the action operators applied on those source lines give the per-action counts."""
    src = open(os.path.join(C.SPEC, "HeapRefs.tla")).read().split("\n")
    cov = {}
    for line in out.splitlines():
        m = _COVLINE.match(line)
        if not m:
            continue
        text = " ".join(src[int(m.group(1)) - 1:int(m.group(2))])
        for a in M_ACTIONS:
            if re.search(r"\b%s\(" % a, text):
                d, t = cov.get(a, (0, 0))
                cov[a] = (d + int(m.group(3)), t + int(m.group(4)))
    return cov


def model_check(cfg, workers):
    r = C.run_tlc("HeapRefs", cfg, name="c13_" + cfg[:-4], workers=workers, timeout=2400, xmx="12g")
    r.coverage = action_coverage(r.out)
    r.out = ""
    C.require_coverage(r, M_ACTIONS, cfg)
    return r


def bug_variant(bug):
    cfg = "MC_HeapRefs_bug_%s.cfg" % bug
    r = C.run_tlc("HeapRefs", cfg, name="c13_bug_" + bug, workers=2, timeout=900, xmx="2g",
                  coverage=False, require_ok=False)
    if not (r.violation and "NoDangling" in r.violation):
        C.log(r.out[-3000:])
        raise C.ToolError("model variant Bug=%s does not violate NoDangling: the invariant would be vacuous" % bug)
    return r


# ------------------------------------------------------------------------------------------ G

def gen_bfs(cfg):
    r = C.run_tlc("Gen_HeapRefs", cfg, name="c13_" + cfg[:-4], workers=1, timeout=2400, xmx="8g", coverage=False)
    edges = C.tlc_prints(r.out, "EDGE")
    if len(edges) + 1 != r.transitions:
        raise C.ToolError("incomplete generation in %s: %d edges for %d transitions" % (cfg, len(edges), r.transitions))
    r.out = ""
    return r, [{"id": "%s#%d" % (cfg[4:-4], i), "steps": json.loads(e)} for i, e in enumerate(edges)]


def gen_sim(cfg, num, depth, tlc_seed, tag):
    r = C.run_tlc("Gen_HeapRefs", cfg, name="c13_%s_%s" % (cfg[:-4], tag), workers=1, timeout=2400, xmx="4g",
                  simulate=num, depth=depth, tlc_seed=tlc_seed, coverage=False)
    m = re.search(r"The number of states generated: (\d+)", r.out)
    r.states = r.transitions = int(m.group(1)) if m else 0
    cases, seen = [], set()
    for c in C.tlc_prints(r.out, "CASE"):
        if c in seen:
            continue
        seen.add(c)
        cases.append({"id": "sim_%s#%d" % (tag, len(cases)), "steps": json.loads(c)})
    r.out = ""
    if not cases:
        raise C.ToolError("simulation %s printed no behaviour" % tag)
    return r, cases


def holder_name(h):
    return ("h" if h[0] == "handle" else "g" if h[0] == "glob" else "m") + str(h[1])


def drops_before(case, upto):
    out = []
    for s in case["steps"][:upto + 1]:
        if s["op"] == "drop_handle":
            out.append("h%d" % s["h"])
        elif s["op"] in ("drop_open", "drop_frozen"):
            out.append("m%d" % s["k"])
    return out


def nontrivial(case):
    """A holder is dropped while a value of another alive holder still points into its arena."""
    prev = []
    for s in case["steps"]:
        k = None
        if s["op"] == "drop_frozen":
            k = s["k"]
        elif s["op"] == "drop_handle":
            k = next((h[2] for h in prev if h[0] == "handle" and h[1] == s["h"]), None)
        if k is not None:
            for h in s["live"]:
                holds_itself = h[0] in ("frozen", "glob") and h[1] == k
                if not holds_itself and any(k in sym[3] for sym in h[3]):
                    return True
        prev = s["live"]
    return False


def crash_path(case, si):
    """Which kind of value was exposed by the step during which the process died."""
    s = case["steps"][si]
    k = s["k"] if s["op"] in ("drop_frozen", "drop_open") else None
    cand = []
    for h in s["live"]:
        for sym in h[3]:
            if sym[2] != "own" and (k is None or k in sym[3]):
                cand.append(sym[2])
    for v in cand:
        return VIA_PATH.get(v, v)
    return s["op"]


def run_slice(wd, tag, cases, seed, verdict, stats):
    """Run one slice of cases in child processes; a dead child is an observation for the case
    named in its progress file, and the slice continues after that case."""
    byid = {c["id"]: c for c in cases}
    rest = list(cases)
    outs, traces = [], []
    part = 0
    while rest and part < 60:
        part += 1
        cp = os.path.join(wd, "cases_%s_%d.ndjson" % (tag, part))
        op = os.path.join(wd, "out_%s_%d.ndjson" % (tag, part))
        tp = os.path.join(wd, "trace_%s_%d.ndjson" % (tag, part))
        pp = os.path.join(wd, "progress_%s_%d.txt" % (tag, part))
        C.ndjson_write(cp, rest)
        rc, _, err = C.run_vh(["run", cp, op, tp, pp, "--seed", str(seed)], check=False,
                              timeout=60 + 2 * len(rest), bin=BIN)
        got = []
        if os.path.exists(op):
            for line in open(op):
                try:
                    got.append(json.loads(line))
                except ValueError:
                    break
        outs += got
        traces.append(tp)
        os.remove(cp)
        prog = open(pp).read().split() if os.path.exists(pp) else []
        if rc == 0 and prog[:1] == ["done"]:
            rest = []
            break
        if rc == 2 and not prog:
            raise C.ToolError("vh_c13 failed to start: %s" % err[-500:])
        # the child died (signal / abort / hang): attribute to the case in the progress file
        cid = prog[0] if prog else rest[0]["id"]
        si = int(prog[1]) if len(prog) > 1 and prog[1].isdigit() else len(byid[cid]["steps"]) - 1
        case = byid[cid]
        stats["crashes"] += 1
        verdict.disagree({"kind": "crash", "path": crash_path(case, si), "drop_order": drops_before(case, si)},
                         {"case": case, "step": si, "exit": rc, "stderr": err[-1500:],
                          "note": "the harness child process died while running this step (or the checks after it)"})
        done_ids = {o["id"] for o in got}
        idx = next(i for i, c in enumerate(rest) if c["id"] == cid)
        rest = [c for c in rest[idx + 1:] if c["id"] not in done_ids]
    if rest:
        stats["unrun"] += len(rest)
    return outs, traces


def classify(case, o):
    what = o.get("what", "")
    sym = o.get("sym") or [0, 0, "", []]
    via = sym[2] if isinstance(sym, list) and len(sym) > 2 else ""
    kind = "crash" if what.startswith("panic") or "thread died" in what or "thread is gone" in what \
        else "content_mismatch"
    if o.get("phase") == "step":
        path = VIA_PATH.get((case["steps"][o["step"]].get("new") or {}).get("via", ""), case["steps"][o["step"]]["op"])
    else:
        path = VIA_PATH.get(via, via or "unknown")
    return {"kind": kind, "path": path, "drop_order": drops_before(case, o.get("step", 0))}


# ------------------------------------------------------------------------------------------ V

def split_trace(paths, wd, max_events):
    """Concatenate per-child traces into files of at most max_events events, cut at `reset`s;
    a torn last line / unfinished case (child died) is kept only up to its last whole event."""
    files, cur, n = [], [], 0
    for p in paths:
        if not os.path.exists(p):
            continue
        block = []
        for line in open(p):
            try:
                e = json.loads(line)
            except ValueError:
                break
            if e.get("a") == "reset" and block:
                if cur and len(cur) + len(block) > max_events:
                    files.append(cur)
                    cur = []
                cur += block
                block = []
            block.append(e)
        if cur and len(cur) + len(block) > max_events:
            files.append(cur)
            cur = []
        cur += block
    if cur:
        files.append(cur)
    out = []
    for i, evs in enumerate(files):
        fp = os.path.join(wd, "vtrace_%d.ndjson" % i)
        C.ndjson_write(fp, evs)
        out.append((fp, evs))
    return out


def validate(fp, evs, idx):
    tr = C.run_tlc("Trace_HeapRefs", "Trace_HeapRefs.cfg", name="c13_vtrace_%d" % idx, workers=1, dfs=True,
                   env={"TRACE": fp}, timeout=1800, coverage=False, require_ok=False, xmx="3g")
    if tr.ok:
        return None, tr
    m = re.search(r'<<"REJECTED", (\d+), (\d+)', tr.out)
    b = re.search(r'<<"BAD", (\d+), "(\w+)"', tr.out)
    if m:
        at = int(m.group(1))
        return {"at": at, "phase": int(m.group(2)), "verdict": b.group(2) if b else "not_a_behaviour",
                "event": evs[at - 1] if 0 < at <= len(evs) else None}, tr
    if tr.violation:
        return {"at": 0, "phase": 0, "verdict": "invariant", "event": None, "tlc": tr.violation}, tr
    C.log(tr.out[-3000:])
    raise C.ToolError("trace validation of %s did not complete" % fp)


def case_of_event(evs, at):
    cid = None
    for e in evs[:at]:
        if e.get("a") == "reset":
            cid = e.get("id")
    return cid


# ------------------------------------------------------------------------------------------ run

def run(tier):
    t0 = time.time()
    wd = C.workdir("c13")
    C.build_harness(BIN)
    verdict = C.Verdict(PROP)
    thorough = tier == "thorough"
    seed = C.seed()
    nproc = 14 if thorough else 8
    sim_jobs = [(i, 300 if thorough else 80) for i in range(8 if thorough else 4)]
    # (the state graph of bfs_t contains that of bfs_q: features only add actions)
    bfs_cfgs = ["Gen_HeapRefs_bfs_t.cfg"] if thorough else ["Gen_HeapRefs_bfs_q.cfg"]
    m_cfgs = ["MC_HeapRefs_quick.cfg"] + (["MC_HeapRefs_full.cfg"] if thorough else [])

    states = transitions = 0
    mcov = {}
    cases = []
    with cf.ThreadPoolExecutor(max_workers=16) as ex:
        fm = [ex.submit(model_check, c, 8 if "full" in c else 4) for c in m_cfgs]
        fb = [ex.submit(bug_variant, b) for b in BUGS]
        fg = [ex.submit(gen_bfs, c) for c in bfs_cfgs]
        fs = [ex.submit(gen_sim, "Gen_HeapRefs_sim.cfg", n, 26, seed * 1000 + i, "s%d_%d" % (seed, i))
              for i, n in sim_jobs]
        for f in fg + fs:
            r, cs = f.result()
            states += r.distinct or r.states
            transitions += r.transitions
            cases += cs
        mres = [f.result() for f in fm]
        bres = [f.result() for f in fb]
    for r in mres:
        if r.violation:
            raise C.ToolError("model invariant violated (specification bug): %s" % r.violation)
        states += r.distinct
        transitions += r.transitions
        for a in M_ACTIONS:
            mcov[a] = mcov.get(a, 0) + r.coverage.get(a, (0, 0))[1]
    t_gen = time.time() - t0

    opcount, viacount = {}, {}
    for c in cases:
        for s in c["steps"]:
            opcount[s["op"]] = opcount.get(s["op"], 0) + 1
            v = (s.get("new") or {}).get("via", "")
            if v:
                viacount[v] = viacount.get(v, 0) + 1
    missing = [o for o in G_OPS if not opcount.get(o)] + [v for v in VIA_PATH if not viacount.get(v)]
    if missing:
        raise C.ToolError("vacuous generation: never generated %s" % missing)
    nontriv = sum(1 for c in cases if nontrivial(c))
    if nontriv == 0:
        raise C.ToolError("vacuous generation: no history drops a holder another value still points into")

    # G: replay in child processes
    stats = {"crashes": 0, "unrun": 0}
    byid = {c["id"]: c for c in cases}
    slices = [cases[i::nproc] for i in range(nproc)]
    outs, tpaths = [], []
    with cf.ThreadPoolExecutor(max_workers=nproc) as ex:
        futs = [ex.submit(run_slice, wd, "p%d" % i, sl, seed, verdict, stats) for i, sl in enumerate(slices) if sl]
        for f in futs:
            o, t = f.result()
            outs += o
            tpaths += t
    nchecks = 0
    n_ok = 0
    for o in outs:
        nchecks += o.get("nchecks", 0)
        if o.get("ok"):
            n_ok += 1
            continue
        case = byid[o["id"]]
        if str(o.get("what", "")).startswith("harness:"):
            raise C.ToolError("harness could not execute a generated case: %s (%s)" % (o["what"], o["id"]))
        verdict.disagree(classify(case, o), {"case": case, "observed": o})
    t_replay = time.time() - t0 - t_gen

    # V: validate what the real heaps did against the specification
    vfiles = split_trace(tpaths, wd, 8000 if thorough else 4000)
    n_events = sum(len(e) for _, e in vfiles)
    n_freed = sum(len(e.get("freed", [])) for _, evs in vfiles for e in evs)
    n_edges = sum(len(e.get("edges", [])) for _, evs in vfiles for e in evs)
    rejected = 0
    edge_observations = 0
    with cf.ThreadPoolExecutor(max_workers=nproc) as ex:
        futs = [ex.submit(validate, fp, evs, i) for i, (fp, evs) in enumerate(vfiles)]
        for (fp, evs), f in zip(vfiles, futs):
            bad, tr = f.result()
            states += tr.distinct
            transitions += tr.transitions
            if bad is None:
                continue
            rejected += 1
            cid = case_of_event(evs, bad["at"])
            case = byid.get(cid)
            kind = {"freed_while_reachable": "freed_while_reachable",
                    "released_twice_or_never_created": "freed_while_reachable",
                    "missing_keepalive_edge": "missing_keepalive_edge"}.get(bad["verdict"], "trace_rejected")
            ev = bad["event"] or {}
            path = ev.get("a", "unknown")
            if kind == "missing_keepalive_edge":
                # The property is about memory staying alive, not about HOW it is kept alive: an arena that is
                # reachable in the specification but has no refs edge in the implementation is a violation only
                # if it is released too early or its contents go bad (both judged above).  A missing edge alone
                # is recorded as an observation.
                edge_observations += 1
                continue
            verdict.disagree({"kind": kind, "path": path,
                              "drop_order": drops_before(case, len(case["steps"])) if case else []},
                             {"case": case, "rejected": bad})
    if (n_freed == 0 or n_edges == 0) and not verdict.violations and not verdict.known:
        raise C.ToolError("vacuous trace: %d releases, %d edges recorded" % (n_freed, n_edges))

    rc = verdict.finish()
    sample = next((c for c in cases if c["id"].startswith("sim") and nontrivial(c)), cases[0])
    C.write_evidence(PROP, tier, "model_checking", {
        "states": states, "transitions": transitions,
        "keepalive_edge_observations_not_judged": edge_observations,
        "traces_validated_against_impl": len(outs) + len(vfiles),
        "samples": [{"id": sample["id"],
                     "steps": [{k: s[k] for k in ("op", "k", "f", "i", "h", "how", "c")} for s in sample["steps"]],
                     "first_value": sample["steps"][0]["new"]}],
        "evaluations": nchecks,
        "distinct_nontrivial": nontriv,
        "rule": "M: HeapRefs.tla NoDangling/PointersCovered over all action, drop and release orders (%s); every Bug "
                "variant (%d forgotten add_reference sites) violates NoDangling. G: one history per transition of "
                "the small state graph (%s) + %d seeded simulated behaviours of the large one (5 arenas, 3 handles, "
                "6 wrapper kinds), replayed on the real API with poisoned arenas; content of every reachable value "
                "compared with TLC's tree after every step; non-trivial = a holder is dropped while another alive "
                "holder's value points into its arena. V: heap_free events and the real refs() graph of the same "
                "runs validated by Trace_HeapRefs.tla." % (", ".join(m_cfgs), len(BUGS), ", ".join(bfs_cfgs),
                                                           sum(n for _, n in sim_jobs)),
        "exhaustive": True,
        "model_action_counts": mcov,
        "bug_variants_violating_NoDangling": {b: bool(r.violation) for b, r in zip(BUGS, bres)},
        "generated_op_counts": opcount, "generated_path_counts": viacount,
        "cases_replayed": len(outs), "cases_ok": n_ok, "cases_unrun_after_crashes": stats["unrun"],
        "child_crashes": stats["crashes"],
        "trace_events": n_events, "trace_files": len(vfiles), "trace_files_rejected": rejected,
        "arena_releases_observed": n_freed, "real_edges_observed": n_edges,
        "wall_gen_s": round(t_gen, 1), "wall_replay_s": round(t_replay, 1),
    }, time.time() - t0, len(verdict.violations),
        assumptions=["TLC/SANY and the Json/IOUtils community modules",
                     "harness/src/bin/vh_c13.rs renders TLC's trees to Starlark literals and decodes real values back "
                     "(same conventions as Gen_HeapRefs.tla: pad strings, wrapper templates)",
                     "arena poisoning hook (cfg starlark_verif) makes a dangling frozen pointer visible; a dangling "
                     "pointer whose memory is never reused or read is not observable",
                     "refs of *unfrozen* heaps are not observable through the public API: V checks edges of frozen "
                     "arenas only"])
    return rc


def replay(path):
    d = json.load(open(path))
    case = (d.get("case") or {}).get("case")
    if not case:
        print(json.dumps(d, indent=1)[:4000])
        return 0
    wd = C.workdir("c13_replay")
    C.build_harness(BIN)
    v = C.Verdict(PROP)
    stats = {"crashes": 0, "unrun": 0}
    outs, tpaths = run_slice(wd, "replay", [case], d.get("seed", C.seed()), v, stats)
    print(json.dumps(outs, indent=1)[:6000])
    bad = stats["crashes"] > 0 or any(not o.get("ok") for o in outs)
    for i, (fp, evs) in enumerate(split_trace(tpaths, wd, 100000)):
        r, _ = validate(fp, evs, i)
        if r is not None:
            print("trace rejected:", json.dumps(r)[:2000])
            bad = True
    if stats["crashes"]:
        print("the harness child process died while running the case (%d time(s))" % stats["crashes"])
    if bad:
        print("VIOLATION property=%s replay=%s" % (PROP, path))
        return 1
    print("case passes")
    return 0

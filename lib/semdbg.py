#!/usr/bin/env python3
"""semdbg.py <trace.ndjson> <id|index>: show source, the real outcome and what Sem computes."""
import json, os, sys
sys.path.insert(0, os.path.dirname(os.path.abspath(__file__)))
import common as C

def explain(rows, cfg="Explain_Sem.cfg", module="Trace_Sem"):
    wd = os.path.join(C.WORK, "semdbg"); os.makedirs(wd, exist_ok=True)
    p = os.path.join(wd, "one.ndjson")
    C.ndjson_write(p, rows)
    r = C.run_tlc(module, cfg, name="explain", workers=1, dfs=True, env={"TRACE": p}, coverage=False, require_ok=False)
    res = [json.loads(x) for x in C.tlc_prints(r.out, "SEM")]
    if not res:
        print(r.out[-3000:])
    return res

def enc(v):
    t = v.get("t")
    if t == "int": return str(v["v"]) if "big" not in v else v["big"]
    if t == "str": return '"' + "".join(chr(c) for c in v["s"]) + '"'
    if t == "bool": return str(v["b"])
    if t == "none": return "None"
    if t in ("list", "tuple"): return ("[%s]" if t == "list" else "(%s)") % ", ".join(enc(x) for x in v["v"])
    if t == "dict": return "{%s}" % ", ".join("%s: %s" % (enc(a), enc(b)) for a, b in zip(v["k"], v["v"]))
    return json.dumps(v)

if __name__ == "__main__":
    rows = C.ndjson_read(sys.argv[1])
    key = sys.argv[2]
    row = rows[int(key)] if key.isdigit() else [r for r in rows if r["id"] == key][0]
    print(row["src"])
    print("REAL out:", [enc(x) for x in row["out"]]); print("REAL err:", row["err"], row["msg"])
    for s in explain([row]):
        print("SEM  out:", [enc(x) for x in s["out"]]); print("SEM  err:", s["err"])

#!/bin/bash
# thorough.sh IDS...: run the thorough tier of the given checks (development aid for `vp run`)
cd "$(dirname "$0")/.."
./check setup > /dev/null 2>&1 || { echo "setup failed"; exit 2; }
mkdir -p work/thorough
for i in "$@"; do
  t0=$(date +%s)
  ./check $i --tier thorough > work/thorough/$i.log 2>&1
  rc=$?
  echo "$i thorough rc=$rc $(( $(date +%s) - t0 ))s viol=$(grep -c '^VIOLATION' work/thorough/$i.log) kf=$(grep -c '^KNOWN-FINDING' work/thorough/$i.log)"
  if [ $rc -ne 0 ]; then tail -8 work/thorough/$i.log | cut -c1-300; fi
done

"""C15 -- call-depth, tick and cancellation limits end evaluation with an error, exactly.

M: Limits.tla (push/pop/tick/check/cancel/end-of-evaluation): TLC exhaustively for small Period /
   Budget / Cap; Apalache discharges the inductive invariant IndInv for Period in 1..1000,
   Budget in 1..100000, Cap in 1..100 (the implementation's Period is 1000).
G: Gen_Limits.tla: loop / comprehension / nested-loop programs with tick totals around the check
   points, budgets and cancellation points at k*1000 + {-1,0,1}; recursion shapes (direct,
   mutual, through a lambda, under sorted(key=), inside a comprehension) at depths around each
   cap.  Sem.tla computes how far the program gets, Limits' rule where it stops; the harness runs
   the program on the real evaluator with the same limits, twice, and then a probe evaluation.
"""
import json
import os
import re
import subprocess
import time

import common as C

PROP = "C15"


def apalache(wd):
    """Inductive invariant of Limits.tla: Init => IndInv, IndInv /\\ Next => IndInv'."""
    res = []
    for name, args in (("base", ["--init=Init", "--length=0"]), ("step", ["--init=IndInv", "--length=1"])):
        out = os.path.join(wd, "apa_" + name)
        cmd = ["timeout", "900", "apalache-mc", "check", "--cinit=ConstInit", "--inv=IndInv", "--out-dir=" + out] + args + \
              [os.path.join(C.SPEC, "Limits.tla")]
        p = subprocess.run(cmd, cwd=wd, stdout=subprocess.PIPE, stderr=subprocess.STDOUT, text=True)
        ok = "EXITCODE: OK" in p.stdout and "NoError" in p.stdout or ("EXITCODE: OK" in p.stdout and "no error" in p.stdout)
        if not ok:
            C.log(p.stdout[-2000:])
            raise C.ToolError("Apalache did not prove Limits!IndInv (%s)" % name)
        res.append(name)
    return res


def run(tier):
    t0 = time.time()
    wd = C.workdir("c15")
    C.build_harness()
    verdict = C.Verdict(PROP)
    # M
    m1 = C.run_tlc("Limits", "MC_Limits.cfg", workers=2, timeout=600)
    m2 = C.run_tlc("Limits", "MC_Limits2.cfg", workers=2, timeout=600)
    for m in (m1, m2):
        if m.violation:
            raise C.ToolError("Limits model violates its invariant: %s" % m.violation)
        C.require_coverage(m, ["Push", "Tick", "Cancel", "EndEval"], "Limits")
    proved = apalache(wd)
    # G
    g = C.run_tlc("Gen_Limits", "Gen_Limits_q.cfg" if tier == "quick" else "Gen_Limits_t.cfg",
                  workers=12, timeout=5000, coverage=False)
    cases = []
    for i, x in enumerate(C.tlc_prints(g.out, "CASE")):
        d = json.loads(x)
        d["id"] = "c15#%d" % i
        cases.append(d)
    if len(cases) < 100 or len(cases) * 2 != g.distinct:
        raise C.ToolError("case generation incomplete: %d cases for %d states" % (len(cases), g.distinct))
    cp, op = os.path.join(wd, "cases.ndjson"), os.path.join(wd, "out.ndjson")
    C.ndjson_write(cp, cases)
    rc, _, err = C.run_vh(["replay", "lim", cp, op], check=False, timeout=3000)
    outs = {o["id"]: o for o in (C.ndjson_read(op) if os.path.exists(op) else [])}
    kinds = {}
    nontrivial = 0
    for c in cases:
        cl, e = c["class"], c["exp"]
        o = outs.get(c["id"])
        limit = "depth" if cl["t"] not in ("loop", "compr", "nested") else ("cancel" if cl["cancel"] else "ticks" if cl["budget"] else "none")
        base = {"template": cl["t"], "limit": limit}
        if o is None:
            verdict.disagree(dict(base, what="abort"), {"case": cl, "stderr": err[-1500:]})
            break
        kinds[e["kind"] or "ok"] = kinds.get(e["kind"] or "ok", 0) + 1
        if e["kind"]:
            nontrivial += 1
        a, b = o["runs"][0], o["runs"][1]
        m = a["main"]
        info = {"case": cl, "src": o["src"], "expected": {k: e[k] for k in ("kind", "total", "probe")}, "observed": m, "probe": a["probe"]}
        if m["kind"] == "panic":
            verdict.disagree(dict(base, what="panic"), info)
        elif m["kind"] != e["kind"]:
            verdict.disagree(dict(base, what="outcome", sem=e["kind"] or "ok", real=m["kind"] or "ok"), info)
        elif json.dumps(m["out"], sort_keys=True) != json.dumps(e["out"], sort_keys=True):
            verdict.disagree(dict(base, what="transcript", outcome=e["kind"] or "ok"), info)
        elif m["total"] != e["total"]:
            verdict.disagree(dict(base, what="tick_count", outcome=e["kind"] or "ok"), info)
        elif m["stack"] != 0:
            verdict.disagree(dict(base, what="stack_not_empty", outcome=e["kind"] or "ok"), info)
        elif a["probe"]["kind"] != e["probe"]:
            verdict.disagree(dict(base, what="not_reusable", outcome=e["kind"] or "ok", probe=a["probe"]["kind"] or "ok"), info)
        elif (a["probe2"]["kind"], a["probe2"]["total"]) != (e["probe2"]["kind"], e["probe2"]["total"]):
            verdict.disagree(dict(base, what="long_probe_after", outcome=e["kind"] or "ok", sem=e["probe2"]["kind"] or "ok", real=a["probe2"]["kind"] or "ok"),
                             dict(info, probe2_expected=e["probe2"], probe2_observed={k: a["probe2"].get(k) for k in ("kind", "total", "msg")}))
        elif (b["main"]["total"], b["main"]["kind"]) != (m["total"], m["kind"]):
            verdict.disagree(dict(base, what="not_repeatable"), dict(info, second=b["main"]))
    for need in ("ok", "ticks", "cancelled", "depth"):
        if not kinds.get(need):
            raise C.ToolError("vacuous generation: no case expecting %s" % need)
    rc = verdict.finish()
    s = cases[len(cases) // 2]
    C.write_evidence(PROP, tier, "model_checking", {
        "states": m1.distinct + m2.distinct + g.distinct, "transitions": m1.transitions + m2.transitions + g.transitions,
        "traces_validated_against_impl": len(outs),
        "samples": [{"class": s["class"], "src": outs[s["id"]]["src"] if s["id"] in outs else None, "expected": {k: s["exp"][k] for k in ("kind", "total", "probe")}}],
        "evaluations": len(cases) * 2, "distinct_nontrivial": nontrivial,
        "rule": "TLC enumerates (template, size, cap, budget, cancellation point) from Gen_Limits.tla; non-trivial = a limit is expected to fire",
        "exhaustive": True, "expected_outcomes": kinds,
        "limits_model": {"tlc_states": m1.distinct + m2.distinct, "apalache_inductive_invariant": proved,
                         "apalache_constants": "Period in 1..1000, Budget in 1..100000, Cap in 1..100"},
    }, time.time() - t0, len(verdict.violations),
        assumptions=["tick accounting: +1 per executed call instruction of a def or native function, +1 per completed loop "
                     "iteration; generated programs avoid calls the compiler may elide (len, methods, inlinable defs)",
                     "cancellation flag raised at tick p is emulated by a callback that answers true from its ceil(p/1000)-th invocation on"])
    return rc


def replay(path):
    d = json.load(open(path))
    print(d["case"].get("src"))
    print(json.dumps({k: d["case"].get(k) for k in ("case", "expected", "observed", "probe")}, indent=1))
    return 0

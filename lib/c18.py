"""C18 -- profilers, statement hooks and the debugger observe without interfering.

M: Dap.tla -- the statement stream of each small program (Sem.tla) composed with the adapter's
   stop rule; TLC explores every subset of marker lines as breakpoints and every command sequence
   (continue / step into / over / out, bounded), checking StopsExactlyOnce and NoSpuriousStops.
G: every complete behaviour of that model is driven against the real DapAdapter (second thread, as
   the repository's own tests do): the sequence of stops (line), the scalar variables shown at
   each stop, the transcript and the outcome must be the model's.  The implementation's known
   deviation (the hook also fires for the PossibleGc pseudo-statement of every module-level
   statement) is a named constant of the model (GcTwice): a run that differs from the property's
   model but equals the deviation model is classified as that known finding; anything else is a
   violation.
V: a corpus of Sem programs is run without instrumentation, with a no-op statement hook and under
   every ProfileMode; every run is judged by Trace_Sem.tla (transcript, outcome, line = Sem's).
"""
import json
import os
import time

import common as C
import semlib as S

PROP = "C18"


def cp2s(v):
    return "".join(chr(c) for c in v)


def load_model(cfg, workers=4):
    r = C.run_tlc("Dap", cfg, workers=workers, timeout=3000, coverage=False)
    if r.violation:
        raise C.ToolError("Dap model violates its invariant (%s): %s" % (cfg, r.violation))
    progs = json.loads(C.tlc_prints(r.out, "PROGS")[0])
    cases = [json.loads(x) for x in C.tlc_prints(r.out, "CASE")]
    return r, progs, cases


def key(prog, bps, cmds, reqs=()):
    # two-file sessions are identified by their whole request history, not only by the set in force
    rk = tuple((q["f"], tuple(sorted(q["ls"]))) for q in reqs) if prog == 5 else ()
    return (prog, tuple(sorted(bps)), tuple(cmds), rk)


def run(tier):
    t0 = time.time()
    wd = C.workdir("c18")
    C.build_harness()
    verdict = C.Verdict(PROP)
    ideal_r, progs, ideal = load_model("Dap_q.cfg" if tier == "quick" else "Dap_t.cfg", 4 if tier == "quick" else 12)
    dev_r, _, dev = load_model("Dap_qg.cfg" if tier == "quick" else "Dap_tg.cfg", 4 if tier == "quick" else 12)
    if len(ideal) < 300:
        raise C.ToolError("too few behaviours: %d" % len(ideal))
    ideal_by = {key(c["prog"], c["bps"], c["cmds"], c["reqs"]): c for c in ideal}
    dev_by = {key(c["prog"], c["bps"], c["cmds"], c["reqs"]): c for c in dev}
    rows = [{"progs": [p["ast"] for p in progs], "libs": [p["lib"] for p in progs]}]
    drive = {}
    for c in ideal + dev:
        k = key(c["prog"], c["bps"], c["cmds"], c["reqs"])
        drive[k] = c
    if not any(c["prog"] == 5 and len(c["reqs"]) >= 2 and c["stops"] for c in ideal):
        raise C.ToolError("vacuous: no two-file session with several requests and a stop")
    for i, (k, c) in enumerate(sorted(drive.items(), key=lambda kv: json.dumps(kv[0]))):
        rows.append({"id": "c18#%d" % i, "prog": c["prog"], "bps": c["bps"], "cmds": c["cmds"], "reqs": c["reqs"] if c["prog"] == 5 else []})
    cp, op = os.path.join(wd, "cases.ndjson"), os.path.join(wd, "out.ndjson")
    C.ndjson_write(cp, rows)
    rc, _, err = C.run_vh(["replay", "dap", cp, op], check=False, timeout=3000)
    outs = C.ndjson_read(op) if os.path.exists(op) else []
    if not outs:
        raise C.ToolError("dap replay produced nothing: %s" % err[-500:])
    srcs = outs[0]["srcs"]
    # the printer's line numbers must be the ones the model assumed (markers are emit statements)
    for pi, p in enumerate(progs):
        lines = srcs[pi].splitlines()
        for c in ideal:
            if c["prog"] == pi + 1:
                for b in c["bps"]:
                    if b > 100:
                        if "emit(" not in outs[0]["libs"][pi].splitlines()[b - 101]:
                            raise C.ToolError("line numbering of Dap.tla and the printer disagree (lib of prog %d line %d)" % (pi + 1, b))
                        continue
                    if "emit(" not in lines[b - 1]:
                        raise C.ToolError("line numbering of Dap.tla and the printer disagree (prog %d line %d)" % (pi + 1, b))
    by = {o["id"]: o for o in outs[1:]}
    with_steps = 0
    stops_total = 0
    for row in rows[1:]:
        o = by.get(row["id"])
        base = {"prog": row["prog"]}
        if o is None:
            verdict.disagree(dict(base, what="abort"), {"case": row, "stderr": err[-1000:]})
            break
        r = o["res"]
        case = {"src": srcs[row["prog"] - 1], "bps": row["bps"], "cmds": row["cmds"], "observed": r}
        if row["prog"] == 5:
            case["lib_src"] = outs[0]["libs"][4]
            case["requests"] = row["reqs"]
            base["requests"] = len(row["reqs"])
            base["last_request_empty"] = not row["reqs"][-1]["ls"]
        if r["status"] != "ok":
            verdict.disagree(dict(base, what=r["status"]), case)
            continue
        sem = progs[row["prog"] - 1]
        res = r["result"]
        if res["kind"] != sem["err"]["kind"] or json.dumps(res["out"], sort_keys=True) != json.dumps(sem["out"], sort_keys=True) \
                or (sem["err"]["kind"] and sem["err"]["line"] and res["line"] != sem["err"]["line"]):
            verdict.disagree(dict(base, what="program_behaviour_changed", after_evaluate=any(c.startswith("eval_") for c in row["cmds"])),
                             dict(case, sem={"out": sem["out"], "err": sem["err"]}))
            continue
        if not sem["err"]["kind"] and sorted(res.get("names", [])) != sorted(n for n in sem["names"] if n not in ("emit",)):
            verdict.disagree(dict(base, what="module_variables_changed", after_evaluate=any(c.startswith("eval_") for c in row["cmds"])),
                             dict(case, expected_names=sorted(sem["names"]), observed_names=sorted(res.get("names", []))))
            continue
        got = [s["line"] for s in r["stops"]]
        stops_total += len(got)
        if any(not e["as_expected"] for e in r.get("evals", [])):
            verdict.disagree(dict(base, what="evaluate_answer"), dict(case, evals=r["evals"]))
            continue
        # the commands issued at the stops, in order: evaluate requests are served while paused, then
        # one resuming command per stop (continue once the list is exhausted)
        issued = []
        qi = 0
        for _ in range(len(got)):
            while qi < len(row["cmds"]) and row["cmds"][qi].startswith("eval_"):
                issued.append(row["cmds"][qi])
                qi += 1
            issued.append(row["cmds"][qi] if qi < len(row["cmds"]) else "continue")
            qi += 1
        if any(c != "continue" for c in issued):
            with_steps += 1
        k = key(row["prog"], row["bps"], issued, row["reqs"])
        m = ideal_by.get(k)
        if m is not None and [s["line"] for s in m["stops"]] == got:
            # stops agree with the property's model: now the variables shown at each stop
            for si, (ms, rs) in enumerate(zip(m["stops"], r["stops"])):
                exp = {v["n"]: cp2s(v["v"]) for v in ms["vs"]}
                obs = {v["n"].lstrip("."): v["v"] for v in rs["vars"]}
                if rs["frames"] > 1 and exp != obs:
                    differing = sorted(n for n in set(exp) | set(obs) if exp.get(n) != obs.get(n))
                    for name in differing:      # one disagreement per variable, so each is classified on its own
                        verdict.disagree(dict(base, what="variables_at_stop", vars=name),
                                         dict(case, stop=si + 1, line=ms["line"], expected=exp, shown=obs))
                    break
            continue
        d = dev_by.get(k)
        if d is not None and [s["line"] for s in d["stops"]] == got:
            verdict.disagree(dict(base, what="double_stop", level="module"),
                             dict(case, ideal=[s["line"] for s in m["stops"]] if m else None, observed_stops=got))
            continue
        verdict.disagree(dict(base, what="stops"),
                         dict(case, ideal=[s["line"] for s in m["stops"]] if m else None,
                              with_deviation=[s["line"] for s in d["stops"]] if d else None, observed_stops=got))
    # V: instrumentation configurations
    ninst = 25 if tier == "quick" else 300
    ip = os.path.join(wd, "inst.ndjson")
    C.run_vh(["record", "inst", ip, "--seed", str(C.seed()), "--n", str(ninst)])
    irows = C.ndjson_read(ip)
    st, bad, states = S.judge_rows(irows, wd, "c18i", chunks=8)
    iby = {r["id"]: r for r in irows}
    if bad:
        ex = S.explain([iby[b] for b in bad[:30]], wd)
        for b in bad[:30]:
            mode = b.rsplit("-", 1)[1]
            verdict.disagree({"what": "instrumentation_changes_behaviour", "mode": mode},
                             {"program": S.slim(iby[b]), "sem": ex.get(b)})
    rc = verdict.finish()
    sample = rows[len(rows) // 2]
    C.write_evidence(PROP, tier, "model_checking", {
        "states": ideal_r.distinct + dev_r.distinct, "transitions": ideal_r.transitions + dev_r.transitions,
        "traces_validated_against_impl": len(by) + st["n"] - st["skipped"],
        "samples": [{"src": srcs[sample["prog"] - 1], "bps": sample["bps"], "cmds": sample["cmds"],
                     "observed_stops": [s["line"] for s in by[sample["id"]]["res"].get("stops", [])] if sample["id"] in by else None}],
        "evaluations": len(by) + len(irows), "distinct_nontrivial": sum(1 for o in by.values() if o["res"].get("stops")),
        "rule": "every complete behaviour of Dap.tla (3 programs x all subsets of marker lines x all command sequences with <= %s "
                "step commands), with and without the modelled deviation; plus %d programs x 14 instrumentation configurations judged "
                "by Trace_Sem; non-trivial = behaviour with at least one stop" % ("1" if tier == "quick" else "2", ninst),
        "exhaustive": True, "behaviours": len(by), "behaviours_with_step_commands": with_steps, "stops_observed": stops_total,
        "instrumented_runs": len(irows), "instrumented_runs_skipped": st["skipped"],
        "known_finding_cases": {k: v[0] for k, v in verdict.known.items()},
    }, time.time() - t0, len(verdict.violations),
        assumptions=["Sem.tla's stmt events are the statement stream (one event per executed statement, compound statements once)",
                     "marker programs avoid statements the optimiser may remove and closures (captured variables are not shown by the adapter)",
                     "variables are compared for int/string/bool/None locals inside functions"])
    return rc


def replay(path):
    d = json.load(open(path))
    c = d["case"]
    print(c.get("src") or c.get("program", {}).get("src"))
    print(json.dumps({k: c.get(k) for k in ("bps", "cmds", "ideal", "with_deviation", "observed_stops", "expected", "shown", "sem")}, indent=1)[:3000])
    return 0

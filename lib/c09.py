"""C09 -- equality, hashing and ordering are coherent.

spec/NumTower.tla   numbers as exact values (ints; dyadic floats m*2^e; NaN, +-inf, -0.0); Eq / Lt /
                    HashClass defined mathematically (int vs float by exact value).
spec/Coherence.tla  the same relations over all values (strings, bools, None, tuples, lists) and the
                    universe: 77 abstract values, each with several construction paths.
M: MC_Coherence.tla -- TLC checks that the SPECIFICATION's relations are an equivalence, a strict
   total order per orderable kind that agrees with equality, and that HashClass is exactly the
   quotient by Eq, over all pairs and triples of the universe.
G: Gen_Coherence.tla -- TLC prints, for every ordered pair of abstract values, the expected
   a == b, a != b, a < b, a <= b, a > b, {a: 1}.get(b), b in {a: 1}, len after d[b] = 2, {a: 1, b: 2}, [a].index(b)
   and Value::compare; for every ordered triple of distinct numbers of a cluster the expected
   relations and the expected stable sort; longer seeded sort lists.
   harness/src/bin/vh_c09.rs evaluates every construction path (fresh, and frozen + loaded) and
   observes every ordered pair of PATHS through Starlark defs and through Value::equals /
   compare / get_hashed; this module compares strings.  Transitivity is checked on the
   implementation's own answers for the triples TLC selected.
"""
import json
import os
import time
from concurrent.futures import ThreadPoolExecutor

import common as C

PROP = "C09"
BIN = "vh_c09"

# observation columns of a harness row, after [mode, ra, rb]
OBS = ["o_eq", "o_ne", "o_lt", "o_le", "o_gt", "o_get", "o_in", "o_len", "o_idx", "o_lin", "o_teq", "o_tget", "o_dup",
       "rust_eq", "rust_cmp", "rust_hash"]
# observation -> (relation it tests, field of the PAIR row that is the expectation)
REL = {"o_eq": ("eq", "eq"), "o_ne": ("eq", "ne"), "o_lt": ("lt", "lt"), "o_le": ("lt", "le"), "o_gt": ("lt", "gt"),
       "o_get": ("hash", "get"), "o_in": ("hash", "in"), "o_len": ("hash", "len"), "o_idx": ("eq", "idx"),
       "o_lin": ("eq", "eq"), "o_teq": ("eq", "eq"), "o_tget": ("hash", "get"), "o_dup": ("hash", "dup"),
       "rust_eq": ("eq", "eq"), "rust_cmp": ("lt", "cmp")}
TYPE_OF = {"int": "int", "bigint": "int", "float": "float", "str": "string", "bool": "bool", "none": "NoneType",
           "tuple": "tuple", "list": "list", "struct": "struct", "dict": "dict", "set": "set", "range": "range", "rec": "record", "ev": "enum"}


class _R:
    pass


def generate(tier, wd):
    """Development aid: with VERIF_GEN_CACHE=<dir> TLC's output is stored there and reused (the generated cases do
    not depend on the tree under test) -- used to try several mutant builds in a row."""
    cache = os.environ.get("VERIF_GEN_CACHE")
    cp = os.path.join(cache, "c09_%s_%d.json" % (tier, C.seed())) if cache else None
    if cp and os.path.exists(cp):
        d = json.load(open(cp))
        r = _R()
        r.distinct, r.states = d["distinct"], d["states"]
        return (r, {int(k): v for k, v in d["vals"].items()},
                {tuple(int(x) for x in k.split(",")): v for k, v in d["pairs"].items()}, d["triples"], d["sorts"])
    res = generate_tlc(tier, wd)
    if cp:
        r, vals, pairs, triples, sorts = res
        os.makedirs(cache, exist_ok=True)
        json.dump({"distinct": r.distinct, "states": r.states, "vals": vals,
                   "pairs": {"%d,%d" % k: v for k, v in pairs.items()}, "triples": triples, "sorts": sorts}, open(cp, "w"))
    return res


def generate_tlc(tier, wd):
    pp = os.path.join(wd, "params.ndjson")
    nsort, sortlen = (12, 40) if tier == "quick" else (60, 64)
    C.ndjson_write(pp, [{"seed": C.seed(), "nsort": nsort, "sortlen": sortlen}])
    r = C.run_tlc("Gen_Coherence", "Gen_Coherence.cfg", name="c09_gen", workers=1, coverage=False, timeout=3000,
                  xmx="4g", env={"C09_PARAMS": pp})
    vals = {}
    for s in C.tlc_prints(r.out, "VAL"):
        i, rc, hashable, cluster, reps = json.loads(s)
        vals[i] = {"i": i, "rc": rc, "hashable": hashable, "cluster": cluster, "reps": reps}
    pairs = {}
    for s in C.tlc_prints(r.out, "PAIR"):
        i, j, eq, lt, get, in_, ln, idx, zone, ne, le, gt, cmp_, dup = json.loads(s)
        pairs[(i, j)] = {"eq": eq, "lt": lt, "get": get, "in": in_, "len": ln, "idx": idx, "zone": zone,
                         "ne": ne, "le": le, "gt": gt, "cmp": cmp_, "dup": dup}
    triples = [json.loads(s) for s in C.tlc_prints(r.out, "TRIPLE")]
    sorts = [json.loads(s) for s in C.tlc_prints(r.out, "SORT")]
    n = len(vals)
    if not vals or len(pairs) != n * n or not triples or len(sorts) != nsort \
            or 2 * (n + len(pairs) + len(triples) + len(sorts)) != r.states:
        raise C.ToolError("incomplete generation: %d values, %d pairs, %d triples, %d sorts, %d states"
                          % (n, len(pairs), len(triples), len(sorts), r.states))
    return r, vals, pairs, triples, sorts


def run_harness(vals, sort_lists, wd, modes, tag="u"):
    up = os.path.join(wd, "universe_%s.json" % tag)
    op = os.path.join(wd, "out_%s.ndjson" % tag)
    json.dump({"vals": [{"i": v["i"], "reps": v["reps"]} for v in vals], "sorts": sort_lists}, open(up, "w"))
    rc, _, err = C.run_vh(["replay", up, op, "--modes", ",".join(modes)], check=False, timeout=3000, bin=BIN)
    rows = C.ndjson_read(op) if os.path.exists(op) else []
    return rc, rows, err


def cls_pair(rel, obs, va, vb, zone):
    return {"rel": rel, "obs": obs, "reps": sorted([va["rc"], vb["rc"]]), "zone": zone}


def judge_pairs(rows, reps, vals, pairs, verdict, stats):
    """rows: harness pair rows; reps: list of (val index, path, src) by rep number."""
    seen_nt = set()
    for row in rows:
        mode, ra, rb = row[0], row[1], row[2]
        ia, ib = reps[ra][0], reps[rb][0]
        va, vb = vals[ia], vals[ib]
        e = pairs[(ia, ib)]
        stats["pair_rows"] += 1
        if ra != rb and (e["eq"] == "True" or e["zone"] == "lossy" or (va["cluster"] and va["cluster"] == vb["cluster"])
                         or va["rc"] != vb["rc"]):
            seen_nt.add((ra, rb))
        for k, name in enumerate(OBS):
            got = row[3 + k]
            if name == "rust_hash":
                if e["eq"] == "True" and e["get"] != "unhashable":
                    want, rel = "same", "hash"
                elif e["get"] == "unhashable":
                    want, rel = "unhashable", "hash"
                else:
                    continue            # unequal values may or may not collide
            else:
                rel, field = REL[name]
                want = e[field]
                if want == "any":       # not specified (the order of two structs)
                    continue
            stats["observations"] += 1
            if got != want:
                verdict.disagree(cls_pair(rel, name, va, vb, e["zone"]),
                                 {"a": {"val": ia, "path": reps[ra][1], "src": reps[ra][2]},
                                  "b": {"val": ib, "path": reps[rb][1], "src": reps[rb][2]},
                                  "copies": mode, "observation": name, "expected": want, "observed": got,
                                  "expected_pair": e})
    return len(seen_nt)


def judge_triples(triples, first, obs, vals, verdict, stats):
    """transitivity of the IMPLEMENTATION's answers on the triples TLC selected (first paths, fresh)."""
    for t in triples:
        i, j, k, eqs, cmps, srt, zone = t
        ri, rj, rk = first[i], first[j], first[k]
        o_ij, o_jk, o_ik = obs.get((ri, rj)), obs.get((rj, rk)), obs.get((ri, rk))
        if not (o_ij and o_jk and o_ik):
            continue
        stats["triples"] += 1
        rcs = [vals[i]["rc"], vals[j]["rc"], vals[k]["rc"]]
        ex = {"values": [i, j, k], "sources": [vals[x]["reps"][0][1] for x in (i, j, k)],
              "observed": {"eq": [o_ij["eq"], o_jk["eq"], o_ik["eq"]], "lt": [o_ij["lt"], o_jk["lt"], o_ik["lt"]]},
              "specification": {"eq": eqs, "cmp": cmps}}
        if o_ij["eq"] == "True" and o_jk["eq"] == "True" and o_ik["eq"] != "True":
            verdict.disagree({"rel": "transitivity", "obs": "eq", "reps": rcs, "zone": zone}, ex)
        if o_ij["lt"] == "True" and o_jk["lt"] == "True" and o_ik["lt"] != "True":
            verdict.disagree({"rel": "transitivity", "obs": "lt", "reps": rcs, "zone": zone}, ex)
        if o_ij["eq"] == "True" and o_jk["lt"] == "True" and o_ik["lt"] != "True":
            verdict.disagree({"rel": "transitivity", "obs": "eq-lt", "reps": rcs, "zone": zone}, ex)
        if o_ij["lt"] == "True" and o_jk["eq"] == "True" and o_ik["lt"] != "True":
            verdict.disagree({"rel": "transitivity", "obs": "lt-eq", "reps": rcs, "zone": zone}, ex)


def evaluate(vals, pairs, triples, sorts, wd, modes, verdict, stats, tag="u"):
    vlist = [vals[i] for i in sorted(vals)]
    sort_lists = [[t[0], t[1], t[2]] for t in triples] + [s[0] for s in sorts]
    sort_expect = [(t[5], t[6]) for t in triples] + [(s[1], s[2]) for s in sorts]
    rc, rows, err = run_harness(vlist, sort_lists, wd, modes, tag)
    if rc == 2 and "vh_c09:" in err:
        raise C.ToolError("harness: %s" % err[-800:])
    reps = []
    for v in vlist:
        for p, src in v["reps"]:
            reps.append((v["i"], p, src))
    first = {}
    for n, (i, p, src) in enumerate(reps):
        first.setdefault(i, n)
    pair_rows = []
    sort_rows = {}
    n_rep_ok = 0
    for row in rows:
        if isinstance(row, list):
            pair_rows.append(row)
        elif row.get("k") == "rep":
            v = vals[row["val"]]
            if not row["ok"]:
                verdict.disagree({"rel": "construct", "obs": row["path"], "reps": [v["rc"]], "zone": "exact"},
                                 {"val": row["val"], "path": row["path"], "src": row["src"], "error": row.get("msg")})
            elif row["ty"] != TYPE_OF[v["rc"]]:
                verdict.disagree({"rel": "construct", "obs": row["path"], "reps": [v["rc"]], "zone": "exact"},
                                 {"val": row["val"], "path": row["path"], "src": row["src"],
                                  "observed_type": row["ty"], "expected_type": TYPE_OF[v["rc"]]})
            else:
                n_rep_ok += 1
        elif row.get("k") == "sort":
            sort_rows[row["n"]] = row["res"]
        elif row.get("k") == "frozen_error":
            verdict.disagree({"rel": "construct", "obs": "freeze", "reps": ["module"], "zone": "exact"}, row)
    stats["reps"] = len(reps)
    stats["reps_constructed"] = n_rep_ok
    if rc != 0 and rc != 2:
        verdict.disagree({"rel": "process", "obs": "abort", "reps": [], "zone": "exact"},
                         {"why": "harness died rc=%s after %d rows" % (rc, len(rows)), "stderr": err[-1500:]})
    nt = judge_pairs(pair_rows, reps, vals, pairs, verdict, stats)
    obs = {}
    for row in pair_rows:
        if row[0] == "ff":
            obs[(row[1], row[2])] = {"eq": row[3], "lt": row[5]}
    judge_triples(triples, first, obs, vals, verdict, stats)
    for n, (want, zone) in enumerate(sort_expect):
        got = sort_rows.get(n)
        if got is None:
            continue
        stats["sorts"] += 1
        if got != want:
            idx = sort_lists[n]
            how = "panic" if isinstance(got, str) and got.startswith("panic") else "sorted"
            verdict.disagree({"rel": "sorted", "obs": how, "reps": sorted(set(vals[i]["rc"] for i in idx)),
                              "zone": zone},
                             {"list_values": idx, "sources": [vals[i]["reps"][0][1] for i in idx],
                              "expected_positions": want, "observed": got})
    return nt, pair_rows


def run(tier):
    t0 = time.time()
    wd = C.workdir("c09")
    C.build_harness(BIN)
    verdict = C.Verdict(PROP)
    pool = ThreadPoolExecutor(max_workers=2)
    mfut = pool.submit(lambda: C.run_tlc("MC_Coherence", "MC_Coherence_%s.cfg" % tier, name="c09_mc", workers=6,
                                         timeout=3000, xmx="4g", coverage=False, require_ok=False))
    r, vals, pairs, triples, sorts = generate(tier, wd)
    C.log("[C09] generated %d values, %d pairs, %d triples, %d sort lists at %.0fs"
          % (len(vals), len(pairs), len(triples), len(sorts), time.time() - t0))
    # vacuity guards: the interesting classes of pairs exist
    def count(pred):
        return sum(1 for (i, j), e in pairs.items() if pred(vals[i], vals[j], e))
    g = {
        "eq_int_float": count(lambda a, b, e: e["eq"] == "True" and a["rc"] == "int" and b["rc"] == "float"),
        "eq_bigint_float": count(lambda a, b, e: e["eq"] == "True" and a["rc"] == "bigint" and b["rc"] == "float"),
        "lossy": count(lambda a, b, e: e["zone"] == "lossy"),
        "type_error": count(lambda a, b, e: e["lt"] == "type"),
        "unhashable": count(lambda a, b, e: e["get"] == "unhashable"),
        "eq_str": count(lambda a, b, e: e["eq"] == "True" and a["rc"] == "str" and a["i"] == b["i"]),
        "eq_tuple": count(lambda a, b, e: e["eq"] == "True" and a["rc"] == "tuple" and a["i"] != b["i"]),
        "lossy_triples": sum(1 for t in triples if t[6] == "lossy"),
        "lossy_sorts": sum(1 for s in sorts if s[2] == "lossy"),
    }
    if not all(g.values()):
        raise C.ToolError("vacuous generation: %s" % g)
    modes = ["ff", "fz"] if tier == "quick" else ["ff", "fz", "zf", "zz"]
    stats = {"pair_rows": 0, "observations": 0, "triples": 0, "sorts": 0}
    nt, pair_rows = evaluate(vals, pairs, triples, sorts, wd, modes, verdict, stats)
    C.log("[C09] %d pair rows, %d observations compared at %.0fs" % (stats["pair_rows"], stats["observations"], time.time() - t0))
    if stats["pair_rows"] < len(modes) * (stats["reps_constructed"] ** 2) * 0.9 or not stats["triples"] or not stats["sorts"]:
        if not verdict.violations:
            raise C.ToolError("harness produced too few rows: %s" % stats)
    mr = mfut.result()
    pool.shutdown()
    if mr.violation or not mr.ok:
        raise C.ToolError("the specification's own relations are not coherent: %s" % (mr.violation or mr.out[-800:]))
    rcode = verdict.finish()
    some = [v for v in vals.values() if v["rc"] == "bigint"][0]
    samples = [{"value": some},
               {"pair": [12, 37], "expected": pairs.get((12, 37))},
               {"triple": triples[len(triples) // 2]},
               {"sort": sorts[0]},
               {"harness_row": dict(zip(["copies", "path_a", "path_b"] + OBS, pair_rows[len(pair_rows) // 3]))
                if pair_rows else None}]
    C.write_evidence(PROP, tier, "model_checking", {
        "states": r.distinct + mr.distinct, "transitions": r.states + mr.states,
        "traces_validated_against_impl": stats["pair_rows"] + stats["triples"] + stats["sorts"],
        "samples": samples,
        "evaluations": stats["observations"] + 4 * stats["triples"] + stats["sorts"],
        "distinct_nontrivial": nt,
        "rule": "G: TLC (Gen_Coherence.tla) prints the expected relations for every ordered pair of the 77 abstract "
                "values (ints around 0, +-2^31, 2^40, +-2^53, +-2^63, 2^64, 2^100; floats incl. integral ones at the same "
                "points, 0.5, 1.5, -0.0, NaN, +-inf; strings; bools; None; tuples; lists) and each value's construction "
                "paths (literal, parse, arithmetic, shift, hex, int(float), float(int), concat/slice/format/join, "
                "tuple()/list()/comprehension); the harness observes every ordered pair of PATHS, fresh and frozen+loaded "
                "(%s), through 13 Starlark observations and Value::equals/compare/get_hashed; transitivity is checked on "
                "the implementation's answers for every ordered triple of distinct numbers of a cluster; sorted() of those "
                "triples and of seeded longer lists must equal TLC's stable sort. non-trivial = ordered pair of DIFFERENT "
                "paths whose values are equal, or in the lossy int/float zone, or numbers of one cluster, or of different "
                "representation classes. M: MC_Coherence.tla checks the specification's relations over all pairs and "
                "triples of the universe." % ",".join(modes),
        "exhaustive": True,
        "abstract_values": len(vals), "construction_paths": stats["reps"], "paths_constructed": stats["reps_constructed"],
        "pair_rows": stats["pair_rows"], "observations_compared": stats["observations"],
        "triples_checked": stats["triples"], "sorts_checked": stats["sorts"],
        "generation_classes": g, "model_law_instances": mr.distinct,
        "known_finding_cases": sum(v[0] for v in verdict.known.values()),
    }, time.time() - t0, len(verdict.violations),
        assumptions=["TLC/SANY and the Json/IOUtils community modules",
                     "harness observation code in harness/src/bin/vh_c09.rs",
                     "error KIND is recognised from the message ('not hashable', 'not found in', 'not supported')",
                     "NaN == NaN and NaN greater than +inf (the language definition's total order on floats)",
                     "float literals and float(int) of values exact in binary64 denote exactly those values"])
    return rcode


def replay(path):
    d = json.load(open(path))
    case = d.get("case") or {}
    cls = d.get("class") or {}
    wd = C.workdir("c09_replay")
    if "a" in case and "b" in case:
        vals = {1: {"i": 1, "rc": cls["reps"][0], "hashable": "", "cluster": "", "reps": [[case["a"]["path"], case["a"]["src"]]]},
                2: {"i": 2, "rc": cls["reps"][-1], "hashable": "", "cluster": "", "reps": [[case["b"]["path"], case["b"]["src"]]]}}
        rc, rows, err = run_harness([vals[1], vals[2]], [], wd, [case.get("copies", "ff")], "replay")
        name = case["observation"]
        k = OBS.index(name)
        for row in rows:
            if isinstance(row, list) and row[1] == 0 and row[2] == 1:
                got = row[3 + k]
                print("a = %s   b = %s   %s: expected %s observed %s" % (case["a"]["src"], case["b"]["src"], name,
                                                                       case["expected"], got))
                if got != case["expected"]:
                    print("VIOLATION property=%s replay=%s" % (PROP, path))
                    return 1
                print("case agrees with the specification now")
                return 0
        print("could not re-run: rc=%s %s" % (rc, err[-500:]))
        print("VIOLATION property=%s replay=%s" % (PROP, path))
        return 1
    if "sources" in case:
        # a triple or a sort list: re-evaluate the sources
        srcs = case["sources"]
        vals = [{"i": n + 1, "reps": [["lit", s]]} for n, s in enumerate(srcs)]
        if "expected_positions" in case:
            rc, rows, err = run_harness(vals, [list(range(1, len(srcs) + 1))], wd, ["ff"], "replay")
            got = [r["res"] for r in rows if isinstance(r, dict) and r.get("k") == "sort"]
            print("sorted(%s): expected positions %s observed %s" % (srcs, case["expected_positions"], got))
            # positions refer to the original list, in which equal abstract values may repeat
            bad = not got or got[0] != case["expected_positions"]
        else:
            rc, rows, err = run_harness(vals, [], wd, ["ff"], "replay")
            o = {(r[1], r[2]): (r[3], r[5]) for r in rows if isinstance(r, list)}
            eq = [o[(0, 1)][0], o[(1, 2)][0], o[(0, 2)][0]]
            lt = [o[(0, 1)][1], o[(1, 2)][1], o[(0, 2)][1]]
            print("a, b, c = %s\n a==b %s  b==c %s  a==c %s\n a<b %s  b<c %s  a<c %s" % (srcs, *eq, *lt))
            bad = (eq[0] == "True" and eq[1] == "True" and eq[2] != "True") or \
                  (lt[0] == "True" and lt[1] == "True" and lt[2] != "True") or \
                  (eq[0] == "True" and lt[1] == "True" and lt[2] != "True") or \
                  (lt[0] == "True" and eq[1] == "True" and lt[2] != "True")
        if bad:
            print("VIOLATION property=%s replay=%s" % (PROP, path))
            return 1
        print("case agrees with the specification now")
        return 0
    print(json.dumps(d, indent=1))
    return 0

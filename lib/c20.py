"""C20 -- frozen modules are safe to share: concurrent use equals sequential use.

M: TLC explores every interleaving of ChunkAlloc.tla (arena chunks with atomic reference counts,
   parts owned by heaps or per-thread caches, heaps finished on one thread and dropped on another;
   each counter operation is begin / atomic step / end) and of LazyInit.tla (racing first uses of a
   once-cell); the Bug variants of both must violate their invariants (not vacuous).
V: harness/src/bin/vh_c20.rs runs seeded multi-threaded workloads on the real code in child
   processes (2..16 threads; build / freeze / load shared frozen modules / call / hash / compare /
   send modules to other threads to be used and dropped there; barriers, yields; poisoned arenas).
   Every thread's transcript and every receiver observation must equal the result of the same
   workload run alone (the sequential reference, computed first in the same process).  The
   chunk_* / cache_* hook events of the concurrent phase are validated by Trace_ChunkAlloc.tla for
   linearizability against the reference-count protocol (ChunkRc.tla, shared with the model).
   First-use races: fresh child processes in which N threads use the lazily built globals, method
   tables, type machinery for the first time behind a barrier.
"""
import concurrent.futures as cf
import json
import os
import re
import time

import common as C

PROP = "C20"
BIN = "vh_c20"

CA_BUGS = ["cache_after_drop", "free_at_2", "clone_no_inc"]
CA_ACTIONS = ["StartHeap", "Bump", "AllocSlow", "Finish", "DropHeap", "Split", "SplitStep", "SplitEnd", "Release",
              "Decide", "DecB", "DecS", "DecF", "DecE", "NextPart", "Fin"]


# ------------------------------------------------------------------------------------------ M

_COVLINE = re.compile(r"^<(\w+) line \d+, col \d+ to line \d+, col \d+ of module (\w+)(?: \((\d+) \d+ (\d+) \d+\))?>: (\d+):(\d+)")


def action_coverage(out, module, actions):
    """Per-action counts: TLC names a sub-action by the definition its disjunct sits in (+ the
    disjunct's position); the action operators applied on those source lines get the counts."""
    src = open(os.path.join(C.SPEC, module + ".tla")).read().split("\n")
    cov = {}
    for line in out.splitlines():
        m = _COVLINE.match(line)
        if not m or m.group(2) != module:
            continue
        names = {m.group(1)}
        if m.group(3):
            text = " ".join(src[int(m.group(3)) - 1:int(m.group(4))])
            names |= {a for a in actions if re.search(r"\b%s\(" % a, text)}
        for a in names & set(actions):
            d, t = cov.get(a, (0, 0))
            cov[a] = (d + int(m.group(5)), t + int(m.group(6)))
    return cov


def mc_chunkalloc(cfg, workers):
    r = C.run_tlc("ChunkAlloc", cfg, name="c20_" + cfg[:-4], workers=workers, timeout=2400, xmx="12g")
    r.coverage = action_coverage(r.out, "ChunkAlloc", CA_ACTIONS)
    r.out = ""
    return r


def mc_bug(module, cfg, inv):
    r = C.run_tlc(module, cfg, name="c20_" + cfg[:-4], workers=2, timeout=1200, xmx="4g", coverage=False,
                  require_ok=False)
    if not (r.violation and inv in r.violation):
        C.log(r.out[-3000:])
        raise C.ToolError("model variant %s does not violate %s: the invariant would be vacuous" % (cfg, inv))
    return r


def mc_lazy():
    return C.run_tlc("LazyInit", "MC_LazyInit.cfg", name="c20_MC_LazyInit", workers=2, timeout=600, xmx="2g",
                     coverage=False)


# ------------------------------------------------------------------------------------------ V

def run_work(wd, idx, seed, threads, rounds, trace):
    op = os.path.join(wd, "out_%d.json" % idx)
    tp = os.path.join(wd, "trace_%d.ndjson" % idx)
    args = ["work", op, tp, "--seed", str(seed), "--threads", str(threads), "--rounds", str(rounds),
            "--trace", "1" if trace else "0"]
    t0 = time.time()
    rc, _, err = C.run_vh(args, check=False, timeout=600, bin=BIN)
    res = {"workload": {"mode": "work", "seed": seed, "threads": threads, "rounds": rounds, "trace": trace},
           "rc": rc, "stderr": err[-1500:], "out": None, "trace": tp if trace else None, "wall": time.time() - t0}
    if rc == 0 and os.path.exists(op):
        res["out"] = json.load(open(op))
    elif rc == 2 and "usage" in err:
        raise C.ToolError("vh_c20 usage error: %s" % err[-300:])
    return res


def run_firstuse(wd, idx, seed, threads):
    op = os.path.join(wd, "first_%d.json" % idx)
    rc, _, err = C.run_vh(["firstuse", op, "--threads", str(threads), "--seed", str(seed)], check=False,
                          timeout=300, bin=BIN)
    res = {"workload": {"mode": "firstuse", "seed": seed, "threads": threads}, "rc": rc, "stderr": err[-1500:],
           "out": None}
    if rc == 0 and os.path.exists(op):
        res["out"] = json.load(open(op))
    return res


def validate(path, idx):
    evs = C.ndjson_read(path)
    tr = C.run_tlc("Trace_ChunkAlloc", "Trace_ChunkAlloc.cfg", name="c20_vtrace_%d" % idx, workers=1, dfs=True,
                   env={"TRACE": path}, timeout=1800, coverage=False, require_ok=False, xmx="4g")
    if tr.ok:
        return None, tr, evs
    m = re.search(r'<<"REJECTED", (\d+)', tr.out)
    if m:
        at = int(m.group(1))
        return {"at": at, "event": evs[at - 1] if 0 < at <= len(evs) else None,
                "before": evs[max(0, at - 8):at - 1]}, tr, evs
    if tr.violation:
        return {"at": 0, "event": None, "tlc": tr.violation}, tr, evs
    C.log(tr.out[-3000:])
    raise C.ToolError("trace validation of %s did not complete" % path)


def workload_plan(tier, seed):
    """(threads, rounds, trace) per child process; seeds derive from VERIF_SEED."""
    if tier == "thorough":
        traced = [(2, 60), (2, 120), (3, 60), (3, 100), (4, 50), (4, 80), (6, 40), (8, 30), (8, 40), (12, 24),
                  (16, 16), (16, 24)] * 2
        stress = [(16, 300), (12, 400), (8, 600), (4, 800), (2, 1000), (16, 500), (10, 500), (6, 700)] * 2
    else:
        traced = [(2, 60), (3, 50), (4, 40), (8, 24), (16, 16)]
        stress = [(16, 120), (8, 200), (4, 300), (2, 400)]
    plan = [(t, r, True) for t, r in traced] + [(t, r, False) for t, r in stress]
    return [(seed * 7919 + i * 104729 + 13, t, r, tr) for i, (t, r, tr) in enumerate(plan)]


def run(tier):
    t0 = time.time()
    wd = C.workdir("c20")
    C.build_harness(BIN)
    verdict = C.Verdict(PROP)
    thorough = tier == "thorough"
    seed = C.seed()
    m_cfgs = ["MC_ChunkAlloc_q.cfg"] + (["MC_ChunkAlloc_s3.cfg", "MC_ChunkAlloc_t3.cfg", "MC_ChunkAlloc_h3.cfg"] if thorough else [])
    plan = workload_plan(tier, seed)
    first_plan = [(seed * 31 + i, t) for i, t in enumerate([1, 2, 4, 8, 16, 16] + ([3, 6, 12, 16, 16, 16] if thorough else []))]

    states = transitions = 0
    with cf.ThreadPoolExecutor(max_workers=24) as ex:
        fm = [ex.submit(mc_chunkalloc, c, 6 if thorough else 4) for c in m_cfgs]
        fb = [ex.submit(mc_bug, "ChunkAlloc", "MC_ChunkAlloc_bug_%s.cfg" % b, "Inv") for b in CA_BUGS]
        fl = ex.submit(mc_lazy)
        flr = ex.submit(mc_bug, "LazyInit", "MC_LazyInit_racy.cfg", "Inv")
        # V: children run a few at a time (each is itself multi-threaded)
        with cf.ThreadPoolExecutor(max_workers=3) as exw:
            fw = [exw.submit(run_work, wd, i, s, t, r, tr) for i, (s, t, r, tr) in enumerate(plan)]
            ff = [exw.submit(run_firstuse, wd, i, s, t) for i, (s, t) in enumerate(first_plan)]
            works = [f.result() for f in fw]
            firsts = [f.result() for f in ff]
        mres = [f.result() for f in fm]
        bres = [f.result() for f in fb]
        lazy = fl.result()
        lazy_racy = flr.result()
    mcov = {}
    for r in mres + [lazy]:
        if r.violation:
            raise C.ToolError("model invariant violated (specification bug): %s" % r.violation)
        states += r.distinct
        transitions += r.transitions
    for r in mres:
        for a in CA_ACTIONS:
            mcov[a] = mcov.get(a, 0) + r.coverage.get(a, (0, 0))[1]
    missing = [a for a in CA_ACTIONS if not mcov.get(a)]
    if missing:
        raise C.ToolError("vacuous model run: ChunkAlloc actions never taken: %s" % missing)

    # results of the workloads
    nops = nsent = nrecv = nev = 0
    for w in works:
        o = w["out"]
        if o is None:
            verdict.disagree({"kind": "crash", "workload": w["workload"]["mode"], "threads": w["workload"]["threads"]},
                             {"workload": w["workload"], "exit": w["rc"], "stderr": w["stderr"],
                              "note": "the child process running the workload died / timed out"})
            continue
        nops += o["ops"]
        nsent += o["sent"]
        nrecv += o["received"]
        if not o["ok"]:
            what = o["mismatches"][0].get("what", "") if o["mismatches"] else ""
            verdict.disagree({"kind": "crash" if what == "panic" else "result_differs", "workload": "work",
                              "threads": w["workload"]["threads"]},
                             {"workload": w["workload"], "mismatches": o["mismatches"]})
    digests = {}
    for w in firsts:
        o = w["out"]
        if o is None:
            verdict.disagree({"kind": "crash", "workload": "firstuse", "threads": w["workload"]["threads"]},
                             {"workload": w["workload"], "exit": w["rc"], "stderr": w["stderr"]})
            continue
        digests.setdefault(o["digest"], []).append(w["workload"])
        if not o["ok"]:
            verdict.disagree({"kind": "result_differs", "workload": "firstuse", "threads": w["workload"]["threads"]},
                             {"workload": w["workload"], "mismatches": o["mismatches"], "sample": o.get("sample")})
    if len(digests) > 1:
        verdict.disagree({"kind": "result_differs", "workload": "firstuse", "threads": 0},
                         {"note": "first-use transcripts differ between processes", "digests": digests})
    clean = lambda: not verdict.violations and not verdict.known      # vacuity is judged on clean runs only
    if (nsent == 0 or nrecv == 0) and clean():
        raise C.ToolError("vacuous workloads: no module was sent to another thread")

    # traces
    traced = [w for w in works if w["trace"] and w["out"] is not None and os.path.exists(w["trace"])]
    overlaps = 0
    kinds = {}
    rejected = 0
    with cf.ThreadPoolExecutor(max_workers=8) as ex:
        futs = [ex.submit(validate, w["trace"], i) for i, w in enumerate(traced)]
        for w, f in zip(traced, futs):
            bad, tr, evs = f.result()
            states += tr.distinct
            transitions += tr.transitions
            nev += len(evs)
            for e in evs:
                kinds[e["a"]] = kinds.get(e["a"], 0) + 1
            m = re.search(r"the maximum (\d+)", tr.out)
            if m and int(m.group(1)) > 1:
                overlaps += 1
            if bad is not None:
                rejected += 1
                kind = "invariant" if bad["at"] == 0 else "trace_rejected"
                verdict.disagree({"kind": kind, "workload": "work", "threads": w["workload"]["threads"],
                                  "event": (bad.get("event") or {}).get("a", "")},
                                 {"workload": w["workload"], "rejected": bad})
    need = ["alloc", "incb", "ince", "decb", "dece", "free", "store", "fetch"]
    if traced and clean() and [k for k in need if not kinds.get(k)]:
        raise C.ToolError("vacuous traces: event kinds never recorded: %s" % [k for k in need if not kinds.get(k)])
    if not traced and clean():
        raise C.ToolError("no trace was recorded")

    rc = verdict.finish()
    sample = next((w for w in works if w["out"]), None)
    C.write_evidence(PROP, tier, "model_checking", {
        "states": states, "transitions": transitions,
        "traces_validated_against_impl": len(traced) + len(works) + len(firsts),
        "samples": [{"workload": sample["workload"], "first_transcript_line": sample["out"]["sample"]}] if sample else [],
        "evaluations": nops + nev,
        "distinct_nontrivial": nrecv,
        "rule": "M: ChunkAlloc.tla (%s): all interleavings, refcount operations as begin/step/end; LazyInit.tla with 4 "
                "threads; every Bug variant violates Inv. V: %d child processes with seeded workloads (2..16 threads), "
                "each thread's transcript and each receiver observation compared with the same workload run alone; "
                "non-trivial = modules used and dropped on a thread other than the one that built them; %d traces of "
                "chunk/cache events validated by Trace_ChunkAlloc.tla; %d fresh processes racing first uses, "
                "transcripts equal across threads and processes." % (", ".join(m_cfgs), len(works), len(traced), len(firsts)),
        "exhaustive": True,
        "model_action_counts": mcov,
        "bug_variants_violating_Inv": {b: bool(r.violation) for b, r in zip(CA_BUGS, bres)},
        "lazyinit_racy_variant_violates": bool(lazy_racy.violation),
        "workload_ops": nops, "modules_sent": nsent, "modules_received_elsewhere": nrecv,
        "trace_events": nev, "trace_event_kinds": kinds, "traces": len(traced), "traces_rejected": rejected,
        "traces_with_overlapping_windows": overlaps,
        "firstuse_processes": len(firsts), "firstuse_distinct_digests": len(digests),
        "workloads": [w["workload"] for w in works][:40],
    }, time.time() - t0, len(verdict.violations),
        assumptions=["TLC/SANY and the Json/IOUtils community modules",
                     "the OS scheduler is not enumerated (the model is): the stress part can miss a race, it cannot "
                     "raise a false alarm",
                     "hook events take a global lock, which narrows (does not remove) the race windows of the recorded "
                     "runs; the untraced stress runs have the hooks idle",
                     "the sequential reference is computed by the same harness code on one thread",
                     "arena poisoning (cfg starlark_verif) makes a use-after-free visible as a wrong value or a crash"])
    return rc


def replay(path):
    d = json.load(open(path))
    wl = (d.get("case") or {}).get("workload")
    if not wl:
        print(json.dumps(d, indent=1)[:4000])
        return 0
    wd = C.workdir("c20_replay")
    C.build_harness(BIN)
    bad = False
    for attempt in range(5):     # a schedule-dependent failure may need a few tries
        if wl["mode"] == "firstuse":
            w = run_firstuse(wd, attempt, wl["seed"], wl["threads"])
        else:
            w = run_work(wd, attempt, wl["seed"], wl["threads"], wl["rounds"], wl.get("trace", True))
        print(json.dumps({k: w[k] for k in ("workload", "rc", "out")}, indent=1)[:3000])
        if w["out"] is None or not w["out"]["ok"]:
            bad = True
            break
        if w.get("trace") and os.path.exists(w["trace"]):
            r, _, _ = validate(w["trace"], attempt)
            if r is not None:
                print("trace rejected:", json.dumps(r)[:2000])
                bad = True
                break
    if bad:
        print("VIOLATION property=%s replay=%s" % (PROP, path))
        return 1
    print("workload passes (5 attempts)")
    return 0

"""Shared driver plumbing: harness build, TLC runner, evidence, known findings, replay files.

Exit codes (set by ./check): 0 held (possibly with KNOWN-FINDING lines); 1 VIOLATION printed;
2 tool error (build failure, TLC crash/timeout, vacuous coverage) -- never conflated with a verdict.
"""
import fcntl
import json
import os
import re
import shutil
import subprocess
import sys
import time

VERIF = os.path.dirname(os.path.dirname(os.path.abspath(__file__)))
REPO = os.environ.get("VERIF_REPO", "/repo")
SPEC = os.path.join(VERIF, "spec")
WORK = os.path.join(VERIF, "work")
HARNESS = os.path.join(VERIF, "harness")
BIN_DIR = os.path.join(HARNESS, "target", "debug")
VH = os.path.join(BIN_DIR, "vh")
TLA_CP = "/opt/veriftools/tla/tla2tools.jar:/opt/veriftools/tla/CommunityModules-deps.jar"


class ToolError(Exception):
    pass


def log(*a):
    print(*a, file=sys.stderr, flush=True)


def seed():
    try:
        return int(os.environ.get("VERIF_SEED", "1"))
    except ValueError:
        return 1


def workdir(name):
    d = os.path.join(WORK, name)
    shutil.rmtree(d, ignore_errors=True)
    os.makedirs(d, exist_ok=True)
    return d


_built = set()


def build_harness(bin="vh"):
    """cargo build one harness binary against /repo's current working tree (path deps), under a lock.
    Each engine family is its own [[bin]] so that checks build (and break) independently."""
    if os.environ.get("VERIF_BIN_DIR"):
        # development aid: use prebuilt binaries (e.g. built against a scratch worktree of /repo)
        return os.path.join(os.environ["VERIF_BIN_DIR"], bin)
    if bin in _built:
        return os.path.join(BIN_DIR, bin)
    os.makedirs(WORK, exist_ok=True)
    lock = open(os.path.join(WORK, ".build.lock"), "w")
    fcntl.flock(lock, fcntl.LOCK_EX)
    try:
        env = dict(os.environ)
        env["CARGO_NET_OFFLINE"] = "true"
        t0 = time.time()
        p = subprocess.run(
            ["cargo", "build", "--offline", "--quiet", "--bin", bin],
            cwd=HARNESS, env=env, stdout=subprocess.PIPE, stderr=subprocess.STDOUT, text=True,
        )
        if p.returncode != 0:
            log(p.stdout[-6000:])
            raise ToolError("harness build failed (%s)" % bin)
        log("[build] %s built in %.1fs" % (bin, time.time() - t0))
    finally:
        fcntl.flock(lock, fcntl.LOCK_UN)
        lock.close()
    _built.add(bin)
    return os.path.join(BIN_DIR, bin)


# SIGILL, SIGABRT, SIGBUS, SIGFPE, SIGSEGV: what a process gets from its own code (a kill from outside,
# e.g. the OOM killer's SIGKILL or a timeout, stays a tool error)
FATAL_SIGNALS = (4, 6, 7, 8, 11)


class HarnessCrashed(ToolError):
    def __init__(self, cmd, rc, stderr):
        ToolError.__init__(self, "%s died with signal %d" % (" ".join(cmd[:3]), -rc))
        self.cmd, self.rc, self.stderr = cmd, rc, stderr


def run_vh(args, stdin=None, timeout=3600, env=None, check=True, bin="vh"):
    """Run a harness binary. Returns (returncode, stdout, stderr)."""
    vh = build_harness(bin)
    e = dict(os.environ)
    e.setdefault("RUST_BACKTRACE", "0")
    e.setdefault("RUST_MIN_STACK", str(64 * 1024 * 1024))
    if env:
        e.update(env)
    try:
        p = subprocess.run([vh] + list(args), input=stdin, stdout=subprocess.PIPE,
                           stderr=subprocess.PIPE, text=True, timeout=timeout, env=e)
    except subprocess.TimeoutExpired:
        if check:
            raise ToolError("vh %s timed out after %ss" % (" ".join(args[:2]), timeout))
        return (-9, "", "timeout")
    if check and p.returncode != 0:
        log(p.stderr[-4000:])
        if -p.returncode in FATAL_SIGNALS:
            raise HarnessCrashed([vh] + list(args), p.returncode, p.stderr)
        raise ToolError("vh %s exited %d" % (" ".join(args[:2]), p.returncode))
    return (p.returncode, p.stdout, p.stderr)


class TlcResult:
    def __init__(self):
        self.out = ""
        self.states = 0          # states generated
        self.distinct = 0
        self.transitions = 0     # = states generated (one per explored transition incl. init)
        self.diameter = 0
        self.ok = False
        self.violation = None    # text of invariant violation, if any
        self.coverage = {}       # action name -> (distinct, total)
        self.printed = []        # PrintT payload lines
        self.wall = 0.0


_COV = re.compile(r"^<(\w+) line \d+, col \d+ to line \d+, col \d+ of module (\w+)>: (\d+):(\d+)")


def run_tlc(module, cfg, name=None, workers=8, extra=(), env=None, timeout=1800, xmx="8g",
            simulate=None, depth=None, tlc_seed=None, coverage=True, dfs=False, xss="1g",
            require_ok=True):
    """Run TLC on spec/<module>.tla with spec/cfg/<cfg>. Returns TlcResult.

    simulate: int N -> `-simulate num=N`; dfs: StateDeque queue (trace validation).
    """
    name = name or cfg.replace(".cfg", "")
    meta = workdir("tlc_" + name)
    jopts = ["-XX:+UseParallelGC", "-Xss" + xss, "-Xmx" + xmx]
    if dfs:
        jopts.append("-Dtlc2.tool.queue.IStateQueue=StateDeque")
    cmd = ["timeout", str(timeout), "java"] + jopts + ["-cp", TLA_CP, "tlc2.TLC",
           "-workers", str(workers), "-metadir", meta, "-cleanup", "-noGenerateSpecTE",
           "-config", os.path.join(SPEC, "cfg", cfg)]
    if coverage and not simulate:
        cmd += ["-coverage", "1"]
    if simulate:
        cmd += ["-simulate", "num=%d" % simulate]
        if depth:
            cmd += ["-depth", str(depth)]
    elif depth:
        pass
    if tlc_seed is not None:
        cmd += ["-seed", str(tlc_seed)]
    cmd += list(extra)
    cmd += [os.path.join(SPEC, module + ".tla")]
    e = dict(os.environ)
    e.pop("JAVA_TOOL_OPTIONS", None)
    if env:
        e.update(env)
    t0 = time.time()
    p = subprocess.run(cmd, cwd=SPEC, stdout=subprocess.PIPE, stderr=subprocess.STDOUT, text=True, env=e)
    r = TlcResult()
    r.wall = time.time() - t0
    r.out = p.stdout
    shutil.rmtree(meta, ignore_errors=True)
    for line in p.stdout.splitlines():
        m = re.match(r"^(\d+) states generated, (\d+) distinct states found", line)
        if m:
            r.states = int(m.group(1))
            r.distinct = int(m.group(2))
            r.transitions = r.states
        m = re.match(r"^The depth of the complete state graph search is (\d+)", line)
        if m:
            r.diameter = int(m.group(1))
        m = _COV.match(line)
        if m:
            r.coverage[m.group(1)] = (int(m.group(3)), int(m.group(4)))
        if line.startswith("Error: Invariant") or line.startswith("Error: Action property") \
                or "is violated" in line and line.startswith("Error:"):
            r.violation = line
    r.ok = (p.returncode == 0) and ("Model checking completed. No error has been found." in p.stdout
                                    or (simulate and "Error" not in p.stdout))
    if p.returncode == 124:
        raise ToolError("TLC %s timed out after %ss" % (name, timeout))
    if require_ok and not r.ok:
        log(p.stdout[-5000:])
        raise ToolError("TLC %s failed (rc=%d)" % (name, p.returncode))
    return r


def tlc_prints(out, tag):
    """Extract payloads of PrintT(<<tag, json-string>>) lines: `<<"TAG", "....">>`."""
    res = []
    pre = '<<"%s", "' % tag
    for line in out.splitlines():
        if line.startswith(pre) and line.endswith('">>'):
            s = line[len(pre):-3]
            # TLC prints the TLA+ string with \" and \\ escapes
            s = s.replace('\\"', '"').replace("\\\\", "\\")
            res.append(s)
    return res


def validate_trace(module, cfg, trace_path, name=None, timeout=1200, xmx="4g", env=None):
    """V: run a Trace_* spec over a recorded ndjson trace (IOEnv.TRACE).
    Returns (accepted, rejected_at, detail, TlcResult). rejected_at is the 1-based index of the
    first event the specification could not match (0 when an invariant failed instead)."""
    e = {"TRACE": trace_path}
    if env:
        e.update(env)
    tr = run_tlc(module, cfg, name=name, workers=1, dfs=True, env=e, timeout=timeout, coverage=False,
                 require_ok=False, xmx=xmx)
    if tr.ok:
        return True, 0, None, tr
    m = re.search(r'<<"REJECTED", (\d+)', tr.out)
    if m:
        return False, int(m.group(1)), "no action of the specification matches this event", tr
    if tr.violation:
        return False, 0, tr.violation, tr
    log(tr.out[-4000:])
    raise ToolError("trace validation of %s did not complete" % trace_path)


def require_coverage(r, actions, what):
    """Vacuity guard: each named action must have fired at least once."""
    missing = [a for a in actions if r.coverage.get(a, (0, 0))[1] == 0]
    if missing:
        raise ToolError("vacuous model run (%s): actions never taken: %s" % (what, missing))


# --------------------------------------------------------------------------- findings

def load_findings():
    p = os.path.join(VERIF, "known_findings.json")
    if not os.path.exists(p):
        return []
    return json.load(open(p)).get("findings", [])


def match_finding(prop, cls, findings=None):
    """cls: dict of classification fields computed by the spec side for a disagreement.
    A `known` finding matches when every key of its `match` equals (or, for a list, contains)
    the class's value. `fixed` entries never match."""
    for f in (findings if findings is not None else load_findings()):
        if f.get("property") != prop or f.get("status") != "known":
            continue
        ok = True
        for k, v in f.get("match", {}).items():
            cv = cls.get(k)
            if isinstance(v, list):
                if cv not in v:
                    ok = False
            elif cv != v:
                ok = False
        if ok:
            return f
    return None


class Verdict:
    """Collects disagreements; classifies into known findings and violations."""

    def __init__(self, prop):
        self.prop = prop
        # replay files of earlier runs of this property are stale
        shutil.rmtree(os.path.join(VERIF, "replays", prop), ignore_errors=True)
        self.violations = []      # (cls, case)
        self.known = {}           # finding id -> [count, finding, example]
        self.findings = load_findings()

    def disagree(self, cls, case):
        f = match_finding(self.prop, cls, self.findings)
        if f is not None:
            e = self.known.setdefault(f["id"], [0, f, case])
            e[0] += 1
        else:
            self.violations.append((cls, case))

    def finish(self):
        """Print KNOWN-FINDING / VIOLATION lines; write replay files; return exit code."""
        for fid, (n, f, ex) in sorted(self.known.items()):
            print("KNOWN-FINDING: property=%s %s [%s] (%d cases)" % (self.prop, f["what"], fid, n), flush=True)
        if not self.violations:
            return 0
        d = os.path.join(VERIF, "replays", self.prop)
        os.makedirs(d, exist_ok=True)
        seen = set()
        k = 0
        for cls, case in self.violations:
            key = json.dumps(cls, sort_keys=True)
            if key in seen:
                continue
            seen.add(key)
            k += 1
            if k > 10:
                break
            path = os.path.join(d, "%s_%d_%d.json" % (self.prop, seed(), k))
            json.dump({"property": self.prop, "class": cls, "case": case, "seed": seed()},
                      open(path, "w"), indent=1)
            print("VIOLATION property=%s replay=%s" % (self.prop, path), flush=True)
        return 1


def write_evidence(prop, tier, level, coverage, wall, violations, assumptions=()):
    if os.environ.get("VERIF_BIN_DIR"):
        # development run against a scratch build (a mutant): never touch the real evidence
        d = os.path.join(WORK, "scratch_evidence")
        os.makedirs(d, exist_ok=True)
        json.dump({"property_id": prop, "tier": tier, "coverage": coverage, "violations": violations},
                  open(os.path.join(d, prop + ".json"), "w"), indent=1)
        return
    os.makedirs(os.path.join(VERIF, "evidence"), exist_ok=True)
    ev = {
        "property_id": prop,
        "tier": tier,
        "seed": seed(),
        "level": level,
        "coverage": coverage,
        "assumptions": list(assumptions),
        "wall_s": round(wall, 2),
        "violations": violations,
    }
    p = os.path.join(VERIF, "evidence", prop + ".json")
    tmp = p + ".tmp"
    json.dump(ev, open(tmp, "w"), indent=1)
    os.replace(tmp, p)


def ndjson_write(path, rows):
    with open(path, "w") as f:
        for r in rows:
            f.write(json.dumps(r, separators=(",", ":")))
            f.write("\n")


def ndjson_read(path, tolerate_truncated_tail=False):
    """`tolerate_truncated_tail`: the writer may have died in the middle of its last line (a child
    process that the code under test aborted); that line is dropped, every other line must parse."""
    lines = [l for l in open(path) if l.strip()]
    out = []
    for i, l in enumerate(lines):
        try:
            out.append(json.loads(l))
        except ValueError:
            # a last line without its newline: the writer died in the middle of it
            if (tolerate_truncated_tail or not l.endswith("\n")) and i == len(lines) - 1:
                break
            raise
    return out


def sany_all():
    """Parse every spec module with SANY (8 at a time); returns the list of failures."""
    import concurrent.futures

    def one(f):
        p = subprocess.run(["java", "-cp", TLA_CP, "tla2sany.SANY", f], cwd=SPEC,
                           stdout=subprocess.PIPE, stderr=subprocess.STDOUT, text=True)
        if p.returncode != 0 or "Semantic errors" in p.stdout or "Fatal errors" in p.stdout \
                or "Could not parse" in p.stdout or "*** Errors" in p.stdout:
            return (f, p.stdout[-1500:])
        return None

    files = [f for f in sorted(os.listdir(SPEC)) if f.endswith(".tla")]
    with concurrent.futures.ThreadPoolExecutor(max_workers=8) as ex:
        return [r for r in ex.map(one, files) if r]

"""C06 -- the parser builds the tree the grammar prescribes, and printing it round-trips.

Oracle: spec/Grammar.tla, the reference grammar of the Starlark specification written as a
stratified recursive recogniser (one operator per precedence level) with the static rules of the
language definition (targets, parameter/argument order, break/continue/return placement,
non-associative comparisons). TLC evaluates it; Python only renders token sequences to text and
compares strings.

M: every tree the specification accepts satisfies its own round trips (Parse(Print t) = t,
   Parse(Unparse t) = t with Unparse driven by the precedence TABLE, Print a fixed point) -- an
   invariant of the same TLC run (a violation is a specification bug = tool error).
G: one TLC run (spec/Gen_Grammar.tla) generates
   (i)   every ordered pair (outer context with a hole) x (inner operator expression), bare and
         parenthesised;
   (ii)  every token sequence of length <= N over the token alphabet;
   (iii) statement forms / suites / nesting / placement of break, continue, return; every
         parameter list and argument list up to length 3 (4).
   with verdict accept/reject/unshared, Print(ast) and the form. harness/src/bin/vh_c06.rs parses
   the rendered text with the real parser and prints the REAL AST in the same fully parenthesised
   normal form; then the real-side round trip: Display(parse x) parses to the same normal form
   and Display is a fixed point.
Round trip additionally on the full dialect: the repository's own .star/.bzl files and a list of
extension templates (types, f-strings, `...`, `/`, load).
"""
import json
import os
import random
import time

import common as C

PROP = "C06"
BIN = "vh_c06"


def unescape_tla(s):
    out = []
    i = 0
    while i < len(s):
        ch = s[i]
        if ch == "\\" and i + 1 < len(s):
            n = s[i + 1]
            out.append({"n": "\n", "t": "\t", "r": "\r", "f": "\f"}.get(n, n))
            i += 2
        else:
            out.append(ch)
            i += 1
    return "".join(out)


def prints(out, tag):
    pre = '<<"%s", "' % tag
    res = []
    for line in out.splitlines():
        if line.startswith(pre) and line.endswith('">>'):
            res.append(json.loads(unescape_tla(line[len(pre):-3])))
    return res


def render(toks, width=2):
    """Token sequence -> source text. NEWLINE ends a line, INDENT/DEDENT change the indentation
    of the following lines. Returns None when the sequence cannot be laid out faithfully."""
    lines = []
    cur = []
    depth = 0
    line_depth = 0
    for t in toks:
        if t == "NEWLINE":
            lines.append((" " * (width * line_depth) + " ".join(cur)) if cur else "")
            cur = []
        elif t == "INDENT":
            if cur:
                return None
            depth += 1
        elif t == "DEDENT":
            if cur:
                return None
            depth -= 1
            if depth < 0:
                return None
        else:
            if not cur:
                line_depth = depth
            cur.append(t)
    text = "\n".join(lines) + ("\n" if lines else "")
    if cur:
        text += " " * (width * line_depth) + " ".join(cur)
    return text


EXT_TEMPLATES = [
    'x: int = 1\n', 'def f(a: int, b: str = "s", *c: int, **d: str) -> list[int]:\n  return [a]\n',
    'def f(a, /, b, *, c): pass\n', 'def f(*, a: typing.Any = 1): pass\n',
    'x = f"a{b}c{d!r}"\n', "y = f'{a}'\n", 'z = f"""{a} {{}} {b!s}"""\n', 'x = f"{a.b(c)[d]}"\n',
    'load("m.star", "a", b = "c")\n', 'load("m.star", "a",)\n',
    't: typing.Callable[[int], str] = None\n', 'u: dict[str, int] = {}\n', 'v: tuple[int, ...] = ()\n',
    'x = 1.5\n', 'x = 1e10\n', 'x = 1e400\n', 'x = .5\n', 'x = 0x1f + 0o17 + 0b11\n', 'x = 12345678901234567890\n',
    'x = b"ab\\x00\\xff"\n', "x = rb'a\\n'\n", 'x = "a\\n\\t\\r\\x00\\"\\\\"\n', "x = 'it''s'\n" if False else "x = 'its'\n",
    'x = r"a\\b"\n', 'x = """a\nb"""\n', 'x = 1 .real\n', 'x = (1).real\n', 'x = 1.0.real\n', 'x = -1 .a\n',
    'x = (-a).b\n', 'x = (-a)(b)\n', 'x = (-a)[b]\n', 'x = (-a)[b:c]\n', 'x = -a.b\n', 'x = (+a).b\n', 'x = (~a).b\n',
    'x = (not a).b\n', 'x = (a + b).c\n', 'x = (lambda: a)(b)\n', 'x = (a if b else c).d\n', 'x = (a, b)[0]\n',
    'x = [a][0]\n', 'x = {a: b}[a]\n', 'x = "s".join(a)\n', 'x = a[b, c]\n', 'x = a[(b, c)]\n',
    'def f():\n  pass\n\n\ndef g():\n  return f\n', 'if a:\n  b\nelif c:\n  d\nelif e:\n  f\n',
    'for a, (b, c) in d:\n  if a: continue\n  else: break\n', 'x = [a for a in b for c in d if e if f]\n',
    'x = {a: b for a, b in c}\n', 'x = [(a, b) for a in c]\n', 'x = [a for a in (b, c)]\n',
    'x = [lambda: a for a in b]\n', 'x = [a if b else c for a in d]\n', 'x = lambda a, b=1, *c, **d: (a, b)\n',
    'x = lambda *, a: a\n', 'x = not a in b\n', 'x = a not in b\n', 'x = a if not b else c\n', 'x = - - a\n', 'x = a - -b\n',
    'x = a--b\n', 'x = ~-+a\n', 'a.b = c\n', 'a[b] = c\n', 'a.b[c].d += e\n', '(a, b), c = d\n', '[a, [b, c]] = d\n',
    'x = ...\n', 'def f(a: ...): pass\n', 'x = a[...]\n',
]


def tlc_generate(tier):
    cfg = "Gen_Grammar_T.cfg" if tier == "thorough" else "Gen_Grammar_Q.cfg"
    # development aid (mutation runs): the generated cases do not depend on the tree under test
    cache = os.environ.get("VERIF_C06_TLC_CACHE")
    if cache and os.path.exists(cache + "." + tier):
        r = C.TlcResult()
        r.out = open(cache + "." + tier).read()
        import re
        m = re.search(r"(\d+) states generated, (\d+) distinct states found", r.out)
        r.states, r.distinct = int(m.group(1)), int(m.group(2))
        r.transitions = r.states
        r.ok = True
        return r, prints(r.out, "ALPHA")[0], prints(r.out, "C")
    r = C.run_tlc("Gen_Grammar", cfg, workers=16 if tier == "thorough" else 8,
                  timeout=3000 if tier == "thorough" else 900, xmx="12g", coverage=False, require_ok=False)
    if r.violation or not r.ok:
        C.log(r.out[-4000:])
        raise C.ToolError("Gen_Grammar: model check failed (M: the specification's own round trip, or an evaluation "
                          "error): %s" % (r.violation,))
    if cache:
        open(cache + "." + tier, "w").write(r.out)
    alpha = prints(r.out, "ALPHA")
    cases = prints(r.out, "C")
    if len(alpha) != 1:
        raise C.ToolError("Gen_Grammar did not print its alphabet")
    return r, alpha[0], cases


def harness_cases(rows, wd, tag, dialect="c06"):
    cp = os.path.join(wd, "cases_%s.ndjson" % tag)
    op = os.path.join(wd, "out_%s.ndjson" % tag)
    C.ndjson_write(cp, rows)
    rc, _, err = C.run_vh(["cases", cp, op, "--dialect", dialect], check=False, timeout=1800, bin=BIN)
    outs = C.ndjson_read(op) if os.path.exists(op) else []
    return rc, {o["id"]: o for o in outs}, err


def judge(verdict, cls_base, exp_v, exp_nf, obs, case):
    """Compare one observation with the specification's expectation. Returns True if agreed."""
    def dis(kind):
        cls = dict(cls_base)
        cls["kind"] = kind
        verdict.disagree(cls, dict(case, observed=obs))
        return False
    st = obs.get("st")
    if st == "panic":
        return dis("panic")
    if exp_v == "reject":
        return True if st == "reject" else dis("accept_mismatch")
    if st != "ok":
        return dis("accept_mismatch")
    if obs.get("nf") != exp_nf:
        return dis("tree_mismatch")
    rt = obs.get("rt")
    if rt == "ok":
        return True
    return dis({"roundtrip_reject": "roundtrip", "roundtrip": "roundtrip", "fixed_point": "fixed_point",
                "panic": "panic"}.get(rt, "roundtrip"))


def run(tier):
    t0 = time.time()
    wd = C.workdir("c06")
    C.build_harness(BIN)
    verdict = C.Verdict(PROP)
    rng = random.Random(C.seed())

    r, alpha, cases = tlc_generate(tier)
    C.log("[C06] TLC generated %d printed cases, %d states in %.0fs" % (len(cases), r.distinct, r.wall))
    alphabet = sorted(alpha["a"])
    maxlen = alpha["n"]

    by_gen = {}
    for c in cases:
        by_gen.setdefault(c["g"], []).append(c)
    # ---- vacuity guards
    need = {"pair": 2 * len(alpha["outers"]) * len(alpha["inners"]), "param": 500, "arg": 100, "stmt": 3000, "seq": 300}
    for g, n in need.items():
        if len(by_gen.get(g, [])) < n:
            raise C.ToolError("vacuous generation: %d %s cases (< %d)" % (len(by_gen.get(g, [])), g, n))
    seen_outers = {c["o"] for c in by_gen["pair"]}
    if seen_outers != set(alpha["outers"]) or {c["i"] for c in by_gen["pair"]} != set(alpha["inners"]):
        raise C.ToolError("pair generator did not cover every outer/inner")
    vcount = {}
    for c in cases:
        vcount[c["v"]] = vcount.get(c["v"], 0) + 1
    if not all(vcount.get(v) for v in ("accept", "reject", "unshared")):
        raise C.ToolError("vacuous generation: verdict classes %s" % vcount)

    # ---- directed cases (pair / param / arg / stmt): render, replay, compare
    rows = []
    meta = {}
    skipped_unshared = unrenderable = 0
    for n, c in enumerate(c for c in cases if c["g"] != "seq"):
        if c["v"] == "unshared":
            skipped_unshared += 1
            continue
        width = rng.choice([1, 2, 4, 8])
        src = render(c["t"], width)
        if src is None:
            unrenderable += 1
            continue
        cid = "%s#%d" % (c["g"], n)
        rows.append({"id": cid, "src": src})
        meta[cid] = (c, src)
    if unrenderable:
        raise C.ToolError("%d generated cases cannot be rendered to text" % unrenderable)
    rc, outs, err = harness_cases(rows, wd, "directed")
    if rc != 0 and len(outs) < len(rows):
        missing = [x for x in rows if x["id"] not in outs]
        verdict.disagree({"kind": "panic", "form": "process_abort", "ops": [], "gen": "directed"},
                         {"case": missing[0], "stderr": err[-1500:]})
    n_replayed = nontrivial = 0
    agree = {}
    samples = []
    for cid, (c, src) in meta.items():
        o = outs.get(cid)
        if o is None:
            continue
        n_replayed += 1
        nf = " ".join(c["nf"])
        cls = {"form": c["form"], "ops": [c["o"], c["i"]], "gen": c["g"]}
        ok = judge(verdict, cls, c["v"], nf, o, {"gen": c["g"], "tokens": c["t"], "src": src, "paren": c["par"],
                                                 "expect": {"verdict": c["v"], "nf": nf, "form": c["form"]}})
        agree[c["g"]] = agree.get(c["g"], 0) + (1 if ok else 0)
        if c["v"] == "accept" and "(" in c["nf"]:
            nontrivial += 1
        if len(samples) < 2 and c["g"] == "pair" and c["v"] == "accept" and c["o"] == "not" and c["i"] == "in":
            samples.append({"tokens": c["t"], "src": src, "expect_nf": nf, "observed": o})

    C.log("[C06] directed replay done at %.0fs" % (time.time() - t0))
    # ---- indentation shapes: grammatical lines (`def a():` / `pass`) at every indentation width; the
    # character-level rules (Lex.tla: a dedent must return to an open level) and the grammar decide
    # accept / reject; printing an accepted module must round-trip like any other
    gs = C.run_tlc("Gen_Lex", "Gen_Lex_gshape.cfg", name="c06_gshape", workers=8, timeout=3000, coverage=False)
    shapes = [c for c in prints(gs.out, "L") if c["m"] == "gshape"]
    if len(shapes) < 1000:
        raise C.ToolError("vacuous: %d indentation shapes" % len(shapes))
    SYMS = {"KIF": "if", "KELSE": "else", "KPASS": "pass", "KDEF": "def"}
    srows = [{"id": "shape#%d" % i, "src": "".join(SYMS.get(x, x) for x in c["s"])} for i, c in enumerate(shapes)]
    rc, souts, err = harness_cases(srows, wd, "shapes")
    if rc != 0 and len(souts) < len(srows):
        missing = [x for x in srows if x["id"] not in souts]
        verdict.disagree({"kind": "panic", "form": "process_abort", "ops": [], "gen": "shape"}, {"case": missing[0], "stderr": err[-1500:]})
    shape_stats = {"accept": 0, "reject": 0, "disagree": 0}
    for i, c in enumerate(shapes):
        o = souts.get("shape#%d" % i)
        if o is None:
            continue
        shape_stats[c["p"]] += 1
        st = o.get("st")
        got = "panic" if st == "panic" else "accept" if st == "ok" else "reject"
        if got != c["p"]:
            shape_stats["disagree"] += 1
            verdict.disagree({"kind": "panic" if got == "panic" else "accept_mismatch", "form": "indentation_shape", "ops": [], "gen": "shape",
                              "expected": c["p"], "lex": c["st"], "why": c["why"]},
                             {"gen": "shape", "src": srows[i]["src"], "expect": {"verdict": c["p"], "lex": c["st"], "why": c["why"]}, "observed": o})
        elif got == "accept" and o.get("rt") not in (None, "ok"):
            shape_stats["disagree"] += 1
            verdict.disagree({"kind": "roundtrip", "form": "indentation_shape", "ops": [], "gen": "shape"},
                             {"gen": "shape", "src": srows[i]["src"], "observed": o})
    n_replayed += len(souts)
    if not (shape_stats["accept"] and shape_stats["reject"]):
        raise C.ToolError("vacuous indentation shapes: %s" % shape_stats)
    C.log("[C06] %d indentation shapes (%s) at %.0fs" % (len(shapes), shape_stats, time.time() - t0))
    # ---- (ii): the whole sequence space, enumerated independently by the harness
    ap = os.path.join(wd, "alphabet.json")
    json.dump(alphabet, open(ap, "w"))
    ep = os.path.join(wd, "enum.ndjson")
    rc, _, err = C.run_vh(["enum", ap, str(maxlen), ep, "--threads", "8"], check=False, timeout=3000, bin=BIN)
    if rc != 0:
        verdict.disagree({"kind": "panic", "form": "process_abort", "ops": [], "gen": "seq"}, {"stderr": err[-1500:]})
        real = []
    else:
        real = C.ndjson_read(ep)
    summary = real[-1] if real and real[-1].get("summary") else {"total": 0, "accepted": 0}
    space = sum(len(alphabet) ** j for j in range(maxlen + 1))
    if rc == 0 and summary["total"] != space:
        raise C.ToolError("harness enumerated %d sequences, expected %d" % (summary["total"], space))
    n_directed_distinct = len([c for c in cases if c["g"] != "seq"])
    if r.distinct != 1 + 64 + space + n_directed_distinct:
        raise C.ToolError("TLC explored %d states; expected 1 root + 64 buckets + %d sequences + %d directed cases"
                          % (r.distinct, space, n_directed_distinct))
    spec_acc = {}
    spec_unshared = set()
    for c in by_gen["seq"]:
        key = tuple(c["t"])
        if c["v"] == "accept":
            spec_acc[key] = c
        else:
            spec_unshared.add(key)
    real_acc = {}
    for o in real:
        if o.get("summary"):
            continue
        key = tuple(alphabet[j] for j in o["t"])
        real_acc[key] = o
    seq_disagree = 0
    for key, c in spec_acc.items():
        o = real_acc.get(key, {"st": "reject"})
        nf = " ".join(c["nf"])
        if not judge(verdict, {"form": c["form"], "ops": [], "gen": "seq"}, "accept", nf, o,
                     {"gen": "seq", "tokens": list(key), "src": " ".join(key) + "\n",
                      "expect": {"verdict": "accept", "nf": nf, "form": c["form"]}}):
            seq_disagree += 1
        if "(" in c["nf"]:
            nontrivial += 1
    for key, o in real_acc.items():
        if key in spec_acc or key in spec_unshared:
            continue
        seq_disagree += 1
        judge(verdict, {"form": "reject", "ops": [], "gen": "seq"}, "reject", "", o,
              {"gen": "seq", "tokens": list(key), "src": " ".join(key) + "\n", "expect": {"verdict": "reject"}})
    if spec_acc:
        k = sorted(spec_acc)[len(spec_acc) // 2]
        samples.append({"tokens": list(k), "expect_nf": " ".join(spec_acc[k]["nf"]), "observed": real_acc.get(k)})

    C.log("[C06] sequence space done at %.0fs" % (time.time() - t0))
    # ---- round trip on the full dialect: repository corpus + extension templates
    ext_rows = [{"id": "ext#%d" % i, "src": s} for i, s in enumerate(EXT_TEMPLATES)]
    corpus = []
    for root, dirs, files in os.walk(C.REPO):
        dirs[:] = [d for d in dirs if d not in ("target", ".git", "node_modules")]
        for f in sorted(files):
            if f.endswith((".star", ".bzl", ".bxl")):
                corpus.append(os.path.join(root, f))
    corpus.sort()
    if tier == "quick":
        corpus = corpus[:80]
    for p in corpus:
        try:
            ext_rows.append({"id": "file:" + os.path.relpath(p, C.REPO), "src": open(p, encoding="utf-8").read()})
        except (OSError, UnicodeDecodeError):
            pass
    rc, outs, err = harness_cases(ext_rows, wd, "ext", dialect="full")
    if rc != 0 and len(outs) < len(ext_rows):
        missing = [x for x in ext_rows if x["id"] not in outs]
        verdict.disagree({"kind": "panic", "form": "process_abort", "ops": [], "gen": "ext"},
                         {"case": {"id": missing[0]["id"]}, "stderr": err[-1500:]})
    ext_ok = ext_rejected = 0
    for row in ext_rows:
        o = outs.get(row["id"])
        if o is None:
            continue
        if o["st"] == "reject":
            ext_rejected += 1          # not parseable in this dialect: outside the quantifier
            continue
        if o["st"] == "panic" or o.get("rt") != "ok":
            kind = "panic" if o["st"] == "panic" or o.get("rt") == "panic" else \
                ("fixed_point" if o.get("rt") == "fixed_point" else "roundtrip")
            verdict.disagree({"kind": kind, "form": "full_dialect", "ops": [], "gen": "ext"},
                             {"gen": "ext", "id": row["id"], "src": row["src"][:4000], "observed": o})
        else:
            ext_ok += 1
    if ext_ok < len(EXT_TEMPLATES) // 2:
        raise C.ToolError("extension round-trip corpus mostly unparseable (%d ok)" % ext_ok)

    summ = {}
    for cls, _case in verdict.violations:
        k = (cls.get("kind"), cls.get("form"), cls.get("gen"))
        summ[k] = summ.get(k, 0) + 1
    for k, n in sorted(summ.items(), key=lambda x: -x[1])[:40]:
        C.log("[C06] unexplained disagreement class %s: %d" % (k, n))
    rcode = verdict.finish()
    C.write_evidence(PROP, tier, "model_checking", {
        "states": r.distinct, "transitions": r.transitions,
        "traces_validated_against_impl": n_replayed + summary["total"] + ext_ok,
        "samples": samples[:3],
        "evaluations": n_replayed + summary["total"] + ext_ok,
        "distinct_nontrivial": nontrivial,
        "rule": "every case is a token sequence judged by Grammar!ParseFile (accept + Print(ast) / reject / unshared); "
                "the harness parses the rendered text and prints the real AST in the same normal form, then checks "
                "Display(parse x) reparses to the same normal form and is a fixed point. non-trivial = accepted "
                "case whose tree contains at least one parenthesised (grouping) node",
        "exhaustive": True,
        "generators": {g: len(v) for g, v in by_gen.items()},
        "spec_verdicts_directed_and_accepted_seq": vcount,
        "sequence_space": {"alphabet": len(alphabet), "max_len": maxlen, "size": space,
                           "accepted_by_spec": len(spec_acc), "accepted_by_parser": summary["accepted"],
                           "unshared_skipped": len(spec_unshared), "disagreements": seq_disagree},
        "directed_replayed": n_replayed, "directed_agree": agree, "unshared_skipped": skipped_unshared,
        "full_dialect_roundtrip": {"ok": ext_ok, "not_parseable": ext_rejected, "files": len(corpus),
                                   "templates": len(EXT_TEMPLATES)},
        "operator_pairs": {"outers": len(alpha["outers"]), "inners": len(alpha["inners"])},
        "M_roundtrip_checked_on_every_accepted_tree": True,
    }, time.time() - t0, len(verdict.violations),
        assumptions=["TLC/SANY", "lib/c06.py render() (token sequence -> text) and string comparison",
                     "harness AST printer harness/src/bin/vh_c06.rs (walks the real AST; Index2(a,b,c) printed as "
                     "a[(b,c)], nested Statements flattened, list targets = tuple targets, f-strings desugared)",
                     "dialect for G: def+lambda+keyword-only `*`+top-level if/for, no types, no `/`, no f-strings",
                     "comprehension-if with a lambda condition and `a[b,c:d]` are outside the grammar shared with "
                     "Python and are not judged"])
    return rcode


def replay(path):
    d = json.load(open(path))
    case = d["case"]
    wd = C.workdir("c06_replay")
    if case.get("gen") == "ext":
        rc, outs, err = harness_cases([{"id": "r", "src": case["src"]}], wd, "replay", dialect="full")
        o = outs.get("r")
        print(json.dumps(o, indent=1))
        if o is None or o["st"] == "panic" or (o["st"] == "ok" and o.get("rt") != "ok"):
            print("VIOLATION property=%s replay=%s" % (PROP, path))
            return 1
        return 0
    if "src" not in case:
        print(json.dumps(d, indent=1))
        return 0
    rc, outs, err = harness_cases([{"id": "r", "src": case["src"]}], wd, "replay")
    o = outs.get("r", {"st": "panic", "err": err[-500:]})
    exp = case["expect"]
    print("source  :", repr(case["src"]))
    print("expected:", json.dumps(exp))
    print("observed:", json.dumps(o))
    v = C.Verdict(PROP)
    ok = judge(v, dict(d["class"]), exp["verdict"], exp.get("nf", ""), o, case)
    if not ok and v.violations:
        print("VIOLATION property=%s replay=%s" % (PROP, path))
        return 1
    return 0

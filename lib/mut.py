#!/usr/bin/env python3
"""mut.py <CHECK-ID> <patch> [bin]: apply a patch to the scratch worktree /tmp/wt_main, rebuild the scratch
harness copy /tmp/h_main, run the check against it (VERIF_BIN_DIR), then revert. Development aid only."""
import os, subprocess, sys
WT, H = os.environ.get("MUT_WT", "/tmp/wt_main"), os.environ.get("MUT_H", "/tmp/h_main")
# the checks are run from a snapshot of /verif (a git worktree of some commit) when VERIF_SNAP is set,
# so that /verif itself can be edited meanwhile
SNAP = os.environ.get("VERIF_SNAP", "/verif")
cid, patch = sys.argv[1], os.path.abspath(sys.argv[2])
bins = sys.argv[3:] or ["vh"]
subprocess.run(["rsync", "-a", "--exclude", "target", "--exclude", "Cargo.toml", SNAP + "/harness/", H + "/"], check=True)
subprocess.run(["git", "-C", WT, "checkout", "--", "."], check=True)
r = subprocess.run(["git", "-C", WT, "apply", patch])
if r.returncode != 0:
    sys.exit("patch does not apply")
try:
    for b in bins:
        r = subprocess.run(["cargo", "build", "--offline", "--quiet", "--bin", b], cwd=H)
        if r.returncode != 0:
            sys.exit("mutant does not compile")
    env = dict(os.environ, VERIF_BIN_DIR=H + "/target/debug")
    r = subprocess.run(["./check", cid, "--tier", os.environ.get("TIER", "quick")], cwd=SNAP, env=env)
    print("check exit code:", r.returncode)
finally:
    subprocess.run(["git", "-C", WT, "checkout", "--", "."], check=True)

"""C14 -- evaluation is deterministic across runs, processes and memory layouts.

V: a seeded corpus (Sem-subset programs, successful and failing, each extended with constructs
   whose output order could depend on hashing: struct fields, dir(), dict/set iteration, hash(),
   JSON, did-you-mean suggestions, call stacks of nested failures, plus lint and type-checker
   output) is observed in several fresh processes that differ in ASLR (setarch -R), pre-allocation
   noise, environment size, the thread running the evaluation and warm-up evaluations.  The
   concatenated records are validated by Determinism.tla: the observation is a function of the
   program.  The base configuration's transcripts of the Sem part are additionally what C01 judges.
"""
import json
import os
import subprocess
import time

import common as C

PROP = "C14"


def configs(tier):
    base = [("base", [], {}, []),
            ("noaslr", [], {}, ["setarch", "-R"]),
            ("noise", ["--noise", "3000"], {}, []),
            ("thread_warm", ["--thread", "1", "--warm", "1"], {}, []),
            ("bigenv", ["--noise", "17"], {"VERIF_PAD": "x" * 100000}, [])]
    if tier == "thorough":
        base += [("noaslr_noise_thread", ["--noise", "50000", "--thread", "1"], {"VERIF_PAD": "y" * 7777}, ["setarch", "-R"]),
                 ("warm_noise", ["--warm", "1", "--noise", "911"], {}, []),
                 ("base2", [], {}, [])]
    return base


def observe(vh, wd, label, extra, env, prefix, n, full=False, only=None):
    p = os.path.join(wd, "obs_%s%s.ndjson" % (label, "_full" if full else ""))
    e = dict(os.environ, RUST_MIN_STACK=str(64 << 20))
    e.update(env)
    cmd = prefix + [vh, "record", "det", p, "--seed", str(C.seed()), "--n", str(n), "--cfg", label] + extra + (["--full", "1"] if full else [])
    r = subprocess.run(cmd, stdout=subprocess.PIPE, stderr=subprocess.PIPE, text=True, env=e, timeout=3000)
    if r.returncode != 0:
        return None, r
    return p, r


def run(tier):
    t0 = time.time()
    wd = C.workdir("c14")
    vh = C.build_harness()
    verdict = C.Verdict(PROP)
    n = 120 if tier == "quick" else 2000
    rows = []
    cfgs = configs(tier)
    for label, extra, env, prefix in cfgs:
        p, r = observe(vh, wd, label, extra, env, prefix, n)
        if p is None:
            if label == "noaslr" and "setarch" in (r.stderr or ""):
                raise C.ToolError("setarch unavailable: %s" % r.stderr[-300:])
            verdict.disagree({"what": "crash", "cfg": label}, {"cfg": label, "rc": r.returncode, "stderr": r.stderr[-1500:]})
            continue
        rows += C.ndjson_read(p)
    tp = os.path.join(wd, "all.ndjson")
    C.ndjson_write(tp, rows)
    tr = C.run_tlc("Determinism", "Determinism.cfg", workers=1, dfs=True, env={"TRACE": tp}, coverage=False, require_ok=False, xmx="4g")
    stats = C.tlc_prints(tr.out, "STATS")
    if not stats:
        C.log(tr.out[-3000:])
        raise C.ToolError("Determinism.tla did not finish")
    bad = [json.loads(x) for x in C.tlc_prints(tr.out, "BAD")]
    if bad:
        # fetch the full observations of the offending programs from the two configurations
        progs = sorted({b["id"] for b in bad})[:5]
        full = {}
        for label, extra, env, prefix in cfgs:
            if label == "base" or any(b["cfg"] == label for b in bad):
                p, r = observe(vh, wd, label, extra, env, prefix, n, full=True)
                if p:
                    for row in C.ndjson_read(p):
                        if row["prog"] in progs:
                            full.setdefault(row["prog"], {})[label] = row
        for b in bad[:20]:
            f = full.get(b["id"], {})
            diff = None
            if "base" in f and b["cfg"] in f:
                for k in ("out", "err", "lint", "typecheck"):
                    if f["base"]["obs"].get(k) != f[b["cfg"]]["obs"].get(k):
                        diff = k
                        break
            verdict.disagree({"what": "observation_differs", "part": diff or "?", "cfg": b["cfg"]},
                             {"prog": b["id"], "cfg": b["cfg"], "src": f.get("base", {}).get("src"),
                              "base": f.get("base", {}).get("obs", {}).get(diff) if diff else None,
                              "other": f.get(b["cfg"], {}).get("obs", {}).get(diff) if diff else None})
    rc = verdict.finish()
    digests = {}
    for r in rows:
        digests.setdefault(r["prog"], set()).add(r["digest"])
    C.write_evidence(PROP, tier, "model_checking", {
        "states": tr.distinct, "transitions": tr.transitions,
        "traces_validated_against_impl": len(rows),
        "samples": [rows[0], rows[len(rows) // 2]],
        "evaluations": len(rows), "distinct_nontrivial": len(digests),
        "rule": "%d seeded programs x %d process configurations (%s); an observation = transcript + full error text + lint + "
                "type-checker output, compared by digest; non-trivial = distinct programs" % (n, len(cfgs), ", ".join(c[0] for c in cfgs)),
        "programs": len(digests), "configurations": [c[0] for c in cfgs],
        "programs_with_more_than_one_observation": sum(1 for d in digests.values() if len(d) > 1),
    }, time.time() - t0, len(verdict.violations),
        assumptions=["std HashMap seeds differ per process (RandomState)", "the Interface of the type checker is queried by name "
                     "(its Debug form iterates a HashMap and is not an output of the checker)"])
    return rc


def replay(path):
    d = json.load(open(path))
    print(json.dumps(d["case"], indent=1)[:4000])
    return 0

"""Shared machinery for the Sem-based checks: record programs on the real evaluator, have TLC
judge every record with Trace_Sem.tla (in parallel chunks), explain disagreements."""
import concurrent.futures
import json
import os

import common as C


def record(tag, seed, n, stmts, wd, extra=()):
    tp = os.path.join(wd, "prog_%s.ndjson" % tag)
    rc, out, err = C.run_vh(["record", "sem", tp, "--seed", str(seed), "--n", str(n), "--stmts", str(stmts)] + list(extra))
    meta = json.loads(out.strip().splitlines()[-1])
    return tp, meta


def judge_file(tp, name, module="Trace_Sem", cfg="Trace_Sem.cfg", timeout=1500):
    r = C.run_tlc(module, cfg, name=name, workers=1, dfs=True, env={"TRACE": tp}, coverage=False,
                  require_ok=False, timeout=timeout, xmx="3g")
    stats = C.tlc_prints(r.out, "STATS")
    if not stats:
        C.log(r.out[-3000:])
        raise C.ToolError("Trace_Sem did not finish on %s" % tp)
    st = json.loads(stats[-1])
    bad = [json.loads(x)["id"] for x in C.tlc_prints(r.out, "BAD")]
    return st, bad, r


def judge_rows(rows, wd, tag, chunks=8, module="Trace_Sem", cfg="Trace_Sem.cfg"):
    """Split rows into chunks, run one TLC per chunk in parallel. Returns (stats, bad_ids, states)."""
    if not rows:
        return {"n": 0, "skipped": 0, "bad": 0}, [], 0
    chunks = max(1, min(chunks, (len(rows) + 49) // 50))
    per = (len(rows) + chunks - 1) // chunks
    paths = []
    for i in range(chunks):
        part = rows[i * per:(i + 1) * per]
        if not part:
            continue
        p = os.path.join(wd, "chunk_%s_%d.ndjson" % (tag, i))
        C.ndjson_write(p, part)
        paths.append(p)
    tot = {"n": 0, "skipped": 0, "bad": 0}
    bad = []
    states = 0
    with concurrent.futures.ThreadPoolExecutor(max_workers=8) as ex:
        futs = [ex.submit(judge_file, p, "%s_%d" % (tag, i), module, cfg) for i, p in enumerate(paths)]
        for f in futs:
            st, b, r = f.result()
            for k in tot:
                tot[k] += st[k]
            bad += b
            states += r.distinct
    return tot, bad, states


def explain(rows, wd, module="Trace_Sem", cfg="Explain_Sem.cfg"):
    p = os.path.join(wd, "explain.ndjson")
    C.ndjson_write(p, rows)
    r = C.run_tlc(module, cfg, name="explain", workers=1, dfs=True, env={"TRACE": p}, coverage=False, require_ok=False)
    return {json.loads(x)["id"]: json.loads(x) for x in C.tlc_prints(r.out, "SEM")}


def slim(row):
    return {k: row[k] for k in ("id", "src", "out", "err", "msg") if k in row}

"""Shared machinery for the Sem-based checks: record programs on the real evaluator, have TLC
judge every record with Trace_Sem.tla (in parallel chunks), explain disagreements."""
import concurrent.futures
import json
import os

import common as C


def record(tag, seed, n, stmts, wd, extra=()):
    tp = os.path.join(wd, "prog_%s.ndjson" % tag)
    rc, out, err = C.run_vh(["record", "sem", tp, "--seed", str(seed), "--n", str(n), "--stmts", str(stmts)] + list(extra))
    meta = json.loads(out.strip().splitlines()[-1])
    return tp, meta


def judge_file(tp, name, module="Trace_Sem", cfg="Trace_Sem.cfg", timeout=6000):
    r = C.run_tlc(module, cfg, name=name, workers=1, dfs=True, env={"TRACE": tp}, coverage=False,
                  require_ok=False, timeout=timeout, xmx="3g")
    stats = C.tlc_prints(r.out, "STATS")
    if not stats:
        C.log(r.out[-3000:])
        raise C.ToolError("Trace_Sem did not finish on %s" % tp)
    st = json.loads(stats[-1])
    bad = [json.loads(x)["id"] for x in C.tlc_prints(r.out, "BAD")]
    return st, bad, r


def judge_rows(rows, wd, tag, chunks=8, module="Trace_Sem", cfg="Trace_Sem.cfg"):
    """Split rows into chunks, run one TLC per chunk in parallel. Returns (stats, bad_ids, states)."""
    if not rows:
        return {"n": 0, "skipped": 0, "bad": 0}, [], 0
    chunks = max(1, min(chunks, (len(rows) + 49) // 50))
    per = (len(rows) + chunks - 1) // chunks
    paths = []
    for i in range(chunks):
        part = rows[i * per:(i + 1) * per]
        if not part:
            continue
        p = os.path.join(wd, "chunk_%s_%d.ndjson" % (tag, i))
        C.ndjson_write(p, part)
        paths.append(p)
    tot = {"n": 0, "skipped": 0, "bad": 0}
    bad = []
    states = 0
    with concurrent.futures.ThreadPoolExecutor(max_workers=8) as ex:
        futs = [ex.submit(judge_file, p, "%s_%d" % (tag, i), module, cfg) for i, p in enumerate(paths)]
        for f in futs:
            st, b, r = f.result()
            for k in tot:
                tot[k] += st[k]
            bad += b
            states += r.distinct
    return tot, bad, states


def explain(rows, wd, module="Trace_Sem", cfg="Explain_Sem.cfg"):
    p = os.path.join(wd, "explain.ndjson")
    C.ndjson_write(p, rows)
    r = C.run_tlc(module, cfg, name="explain", workers=1, dfs=True, env={"TRACE": p}, coverage=False, require_ok=False)
    return {json.loads(x)["id"]: json.loads(x) for x in C.tlc_prints(r.out, "SEM")}


def slim(row):
    return {k: row[k] for k in ("id", "src", "out", "err", "msg") if k in row}


def exprgen(cfg, wd, tag, verdict, workers=8, timeout=3000, compare_messages=False):
    """G: ExprGen.tla enumerates (operation form x operand shapes x literal/variable x context); TLC
    computes every case's transcript and outcome kind with Sem.tla; the sessions are replayed on the
    real evaluator and compared chunk by chunk.  Returns a statistics dict."""
    g = C.run_tlc("ExprGen", cfg, name="exprgen_" + tag, workers=workers, timeout=timeout, coverage=False, tlc_seed=C.seed())
    sessions = [json.loads(x) for x in C.tlc_prints(g.out, "CASE")]
    if len(sessions) * 2 != g.distinct or not sessions:
        raise C.ToolError("ExprGen %s: %d sessions for %d states" % (cfg, len(sessions), g.distinct))
    sp, so = os.path.join(wd, "expr_%s.ndjson" % tag), os.path.join(wd, "expr_%s_out.ndjson" % tag)
    C.ndjson_write(sp, [{"id": "e%d" % i, "chunks": c["chunks"]} for i, c in enumerate(sessions)])
    C.run_vh(["replay", "sess", sp, so], timeout=timeout)
    outs = {o["id"]: o for o in C.ndjson_read(so)}
    st = {"sessions": len(sessions), "cases": 0, "skipped": 0, "bad": 0, "states": g.distinct, "kinds": {}, "forms": set(), "sample": None}
    for i, c in enumerate(sessions):
        o = outs.get("e%d" % i)
        st["forms"].add((c["ar"], c["f"]))
        if o is None or o["status"] != "ok":
            verdict.disagree({"engine": "X", "kind": "panic", "arity": c["ar"], "form": c["f"]},
                             {"form": [c["ar"], c["f"]], "operand": c["a"], "what": (o or {}).get("what")})
            st["bad"] += 1
            continue
        if o["res"][0]["kind"]:
            raise C.ToolError("ExprGen prelude failed on the real evaluator: %s" % o["res"][0])
        for j in range(1, len(c["res"])):
            exp, got = c["res"][j], o["res"][j]
            st["cases"] += 1
            if exp["kind"] == "spec_domain":
                st["skipped"] += 1
                continue
            st["kinds"][exp["kind"]] = st["kinds"].get(exp["kind"], 0) + 1
            if st["sample"] is None and not exp["kind"] and j > 40:
                st["sample"] = {"src": got["src"], "out": got["out"], "kind": got["kind"]}
            if got["kind"] == exp["kind"] and json.dumps(got["out"], sort_keys=True) == json.dumps(exp["out"], sort_keys=True):
                continue
            st["bad"] += 1
            b, md, ctx = c["tags"][j - 1]
            what = "panic" if got["kind"] == "panic" else "outcome" if got["kind"] != exp["kind"] else "transcript"
            verdict.disagree({"engine": "X", "kind": what, "arity": c["ar"], "form": c["f"], "written": md, "ctx": ctx,
                              "sem": exp["kind"] or "ok", "real": got["kind"] or "ok"},
                             {"program": {"src": got["src"], "out": got["out"], "err": {"kind": got["kind"], "line": got.get("line", 0)}, "msg": got.get("msg", "")},
                              "sem": {"out": exp["out"], "err": {"kind": exp["kind"], "line": 0}}, "form": [c["ar"], c["f"]], "operands": [c["a"], b]})
    st["message_groups"] = 0
    st["message_differences"] = 0
    if compare_messages:
        # the same case written with literals / variables / mixed must fail with the same message text
        for i, c in enumerate(sessions):
            o = outs.get("e%d" % i)
            if o is None or o["status"] != "ok":
                continue
            groups = {}
            for j in range(1, len(c["res"])):
                b, md, ctx = c["tags"][j - 1]
                if c["res"][j]["kind"] != "spec_domain":
                    groups.setdefault((b, ctx), {})[md] = (o["res"][j]["kind"], o["res"][j].get("msg", ""), o["res"][j]["src"])
            for (b, ctx), g in groups.items():
                if len(g) < 2:
                    continue
                st["message_groups"] += 1
                if len({(k, m) for k, m, _ in g.values()}) > 1:
                    st["message_differences"] += 1
                    verdict.disagree({"engine": "X", "kind": "message", "arity": c["ar"], "form": c["f"], "ctx": ctx},
                                     {"form": [c["ar"], c["f"]], "operands": [c["a"], b],
                                      "spellings": {md: {"src": v[2], "kind": v[0], "msg": v[1]} for md, v in g.items()}})
    st["forms"] = len(st["forms"])
    if st["cases"] - st["skipped"] < st["cases"] // 2:
        raise C.ToolError("ExprGen: too many cases outside Sem's domain: %s" % st)
    return st

#!/bin/sh
while ! grep -q "=== done" /verif/work/mutants.log 2>/dev/null; do sleep 20; done
sed -i 's/=== done/=== batch-end/' /verif/work/mutants.log
exec /verif/lib/run_mutants.sh "$@"

"""C17 -- the static type checker is sound where it commits and silent on well-typed code.

M: TLC checks every module generated from spec/TypeSys.tla against the declarative typing judgement
   (ModuleWT) -- the generator is type-directed, the judgement syntax-directed; both read the same
   signature table (the language-defined typing of each operator/builtin/method).
G: TLC prints each module as an AST with, per module-level binding, the type the specification
   gives it, plus an ill-typed mutant.  This driver renders the AST to source (deterministically),
   the harness (vh_c17) typechecks it twice in one process and once more in a fresh process
   (identical diagnostics / Interface / approximations / TypeMap), expects NO error on the
   well-typed ones, evaluates them (run-time type checks on; and once more with the compile-time
   checker enabled) and encodes the values of the exported bindings.
V: the (binding, checker's rendered type parsed into the spec's type syntax, spec type, value)
   observations are judged by TLC (spec/Trace_TypeSys.tla, Matches): a value outside the type the
   checker committed to is an unsound commitment.
No-crash part: every .star/.bzl file of /repo, the code blocks of the typing golden files, the
   generated modules and their ill-typed mutants: terminates without panic/abort/hang, same
   diagnostics twice and across processes.  An ill-typed module the checker accepts is NOT flagged.
"""
import glob
import json
import os
import re
import subprocess
import threading
import time

import common as C

PROP = "C17"
BIN = "vh_c17"

# --------------------------------------------------------------------------- rendering


def render_type(t):
    k = t["t"]
    a = t["a"]
    if k in ("int", "str", "bool"):
        return k
    if k == "none":
        return "None"
    if k == "list":
        return "list[%s]" % render_type(a[0])
    if k == "dict":
        return "dict[%s, %s]" % (render_type(a[0]), render_type(a[1]))
    if k == "tuple":
        return "(%s%s)" % (", ".join(render_type(x) for x in a), "," if len(a) == 1 else "")
    if k == "opt":
        return "None | %s" % render_type(a[0])
    raise C.ToolError("cannot render type %r" % (t,))


ATOMIC = {"var", "int", "str", "bool", "none", "call", "meth", "index", "slice", "list", "dict", "tuple",
          "lcomp", "lcomp2", "dcomp", "fcall", "fcallkw"}


class R:
    """Renders one expression to text, recording for every node its [start, end) offsets."""

    def __init__(self, defs):
        self.defs = defs          # name -> def record (for keyword calls)
        self.buf = []
        self.pos = 0
        self.spans = []           # (start, end, rule, kind)

    def w(self, s):
        self.buf.append(s)
        self.pos += len(s)

    def sub(self, e, paren_compound=True):
        if paren_compound and (e["k"] not in ATOMIC or (e["k"] == "int" and e["n"] < 0)):
            self.w("(")
            self.expr(e)
            self.w(")")
        else:
            self.expr(e)

    def seq(self, es, sep=", "):
        for i, x in enumerate(es):
            if i:
                self.w(sep)
            self.sub(x, paren_compound=False)

    def expr(self, e):
        st = self.pos
        k, s, a = e["k"], e["s"], e["a"]
        if k == "var":
            self.w(s)
        elif k == "int":
            self.w(str(e["n"]))
        elif k == "str":
            self.w(json.dumps(s))
        elif k == "bool":
            self.w("True" if e["n"] else "False")
        elif k == "none":
            self.w("None")
        elif k == "bin":
            self.sub(a[0])
            self.w(" %s " % s)
            self.sub(a[1])
        elif k == "un":
            self.w("not " if s == "not" else s)
            self.sub(a[0])
        elif k == "if":
            self.sub(a[1])
            self.w(" if ")
            self.sub(a[0])
            self.w(" else ")
            self.sub(a[2])
        elif k in ("call", "fcall"):
            # (a hash is an arbitrary 32-bit number: as a repetition count it would ask for gigabytes;
            # it is reduced, which leaves its static type and the rule exercised unchanged)
            small = k == "call" and s == "hash"
            self.w(("(" if small else "") + s + "(")
            self.seq(a)
            self.w(")" + (" % 3)" if small else ""))
        elif k == "fcallkw":
            ps = self.defs[s]["ps"]
            self.w(s + "(")
            for i, x in enumerate(a):
                if i:
                    self.w(", ")
                self.w(ps[i]["name"] + " = ")
                self.sub(x, paren_compound=False)
            self.w(")")
        elif k == "meth":
            self.sub(a[0])
            self.w("." + s + "(")
            self.seq(a[1:])
            self.w(")")
        elif k == "index":
            self.sub(a[0])
            self.w("[")
            self.sub(a[1], paren_compound=False)
            self.w("]")
        elif k == "slice":
            self.sub(a[0])
            self.w("[")
            if s == "lo:hi":
                self.sub(a[1], False)
                self.w(":")
                self.sub(a[2], False)
            elif s == "lo:":
                self.sub(a[1], False)
                self.w(":")
            elif s == ":hi":
                self.w(":")
                self.sub(a[1], False)
            elif s == "::st":
                self.w("::")
                self.sub(a[1], False)
            else:
                raise C.ToolError("slice form " + s)
            self.w("]")
        elif k == "list":
            self.w("[")
            self.seq(a)
            self.w("]")
        elif k == "tuple":
            self.w("(")
            self.seq(a)
            self.w(",)" if len(a) == 1 else ")")
        elif k == "dict":
            self.w("{")
            for i in range(0, len(a), 2):
                if i:
                    self.w(", ")
                self.sub(a[i], False)
                self.w(": ")
                self.sub(a[i + 1], False)
            self.w("}")
        elif k == "lcomp":
            self.w("[")
            self.sub(a[0], False)
            self.w(" for %s in " % s)
            self.sub(a[1])
            if e["n"] == 1:
                self.w(" if ")
                self.sub(a[2])
            self.w("]")
        elif k == "lcomp2":
            self.w("[")
            self.sub(a[0], False)
            self.w(" for %s in " % s.replace(",", ", "))
            self.sub(a[1])
            self.w("]")
        elif k == "dcomp":
            self.w("{")
            self.sub(a[0], False)
            self.w(": ")
            self.sub(a[1], False)
            self.w(" for %s in " % s)
            self.sub(a[2])
            self.w("}")
        else:
            raise C.ToolError("cannot render expression kind %r" % k)
        self.spans.append((st, self.pos, e["r"], k))


class Renderer:
    """module AST (from TLC) -> chunks of source (one top-level statement each) + span table."""

    def __init__(self, m):
        self.m = m
        self.defs = {d["name"]: d for d in m["defs"]}
        self.chunks = []
        self.line = 1
        self.spans = {}           # line -> [(c0, c1, rule, kind)]  1-based columns, end exclusive
        self.chunk_of = []        # per chunk: ("global"|"def"|"bind", name)
        self.def_lines = {}       # def name -> (first line, last line)
        self.last_assigned = {}   # local name -> rule of the expression last assigned to it (current def)
        self.local_rules = {}     # (line of the assignment's def, local name) is not needed: line -> {local: rule so far}

    def expr_line(self, prefix, e, root_rule_span=None):
        r = R(self.defs)
        r.w(prefix)
        r.expr(e)
        ent = self.spans.setdefault(self.line, [])
        for (s0, s1, rule, kind) in r.spans:
            ent.append((s0 + 1, s1 + 1, rule, kind))
        if root_rule_span is not None:
            # the checker reports a wrong `return e` at the statement: give it the rule of e's root
            ent.append((root_rule_span + 1, r.pos + 1, e["r"], "stmt"))
        return "".join(r.buf)

    def stmts(self, sts, ind, out):
        pad = "    " * ind
        for st in sts:
            k = st["k"]
            if k == "return":
                e = st["e"][0]
                out.append(self.expr_line(pad + "return ", e, root_rule_span=len(pad)))
                if e["k"] == "var" and e["n"] == 0 and e["s"] in self.last_assigned:
                    # a wrong `return v` is attributed to the rule that produced v
                    self.spans[self.line] = [(a, b, self.last_assigned[e["s"]], kd) for (a, b, r, kd) in self.spans[self.line]]
                self.line += 1
            elif k == "assign":
                out.append(self.expr_line(pad + st["s"] + " = ", st["e"][0]))
                self.last_assigned[st["s"]] = st["e"][0]["r"]
                self.line += 1
                self.local_rules[self.line] = dict(self.last_assigned)
            elif k == "aug":
                out.append(self.expr_line(pad + st["s"] + " " + st["o"] + " ", st["e"][0]))
                self.spans[self.line].append((len(pad) + 1, len(out[-1]) + 1, "aug:" + st["o"], "stmt"))
                self.line += 1
            elif k == "unpack":
                out.append(self.expr_line(pad + st["s"].replace(",", ", ") + " = ", st["e"][0]))
                self.line += 1
            elif k == "pass":
                out.append(pad + "pass")
                self.line += 1
            elif k == "if":
                out.append(self.expr_line(pad + "if ", st["e"][0]) + ":")
                self.line += 1
                self.stmts(st["b"], ind + 1, out)
                if st["c"]:
                    out.append(pad + "else:")
                    self.line += 1
                    self.stmts(st["c"], ind + 1, out)
            elif k in ("for", "for2"):
                out.append(self.expr_line(pad + "for %s in " % st["s"].replace(",", ", "), st["e"][0]) + ":")
                self.line += 1
                self.stmts(st["b"], ind + 1, out)
            else:
                raise C.ToolError("cannot render statement kind %r" % k)

    def render(self):
        m = self.m
        for g in m["globals"]:
            self.chunks.append(self.expr_line(g["name"] + " = ", g["e"]))
            self.chunk_of.append(("global", g["name"]))
            self.line += 1
        for d in m["defs"]:
            ann = d["ann"]
            ps = []
            for i, p in enumerate(d["ps"]):
                x = p["name"]
                if ann in ("all", "params", "default"):
                    x += ": " + render_type(p["ty"])
                if ann == "default" and i == len(d["ps"]) - 1:
                    x += " = 2"
                ps.append(x)
            hdr = "def %s(%s)" % (d["name"], ", ".join(ps))
            if ann in ("all", "default"):
                hdr += " -> " + render_type(d["ret"])
            out = [hdr + ":"]
            self.last_assigned = {}
            first = self.line
            self.line += 1
            self.stmts(d["body"], 1, out)
            self.def_lines[d["name"]] = (first, self.line - 1)
            self.chunks.append("\n".join(out))
            self.chunk_of.append(("def", d["name"]))
        for b in m["binds"]:
            self.chunks.append(self.expr_line(b["name"] + " = ", b["e"]))
            self.chunk_of.append(("bind", b["name"]))
            self.line += 1
        return self

    def src(self):
        return "\n".join(self.chunks) + "\n"

    def def_rules_at(self, span):
        """The rules used anywhere in the def (or module-level line) that contains the span."""
        mt = re.match(r"^[^:]+:(\d+):", span or "")
        if not mt:
            return set()
        line = int(mt.group(1))
        lo, hi = line, line
        for n, (a, b) in self.def_lines.items():
            if a <= line <= b:
                lo, hi = a, b
        return {e[2] for ln in range(lo, hi + 1) for e in self.spans.get(ln, [])}

    def receiver_rule(self, span):
        """For an error reported at an attribute name (`recv.attr`): the rule that produced the receiver
        (through a local variable, the rule of the expression last assigned to it)."""
        mt = re.match(r"^[^:]+:(\d+):(\d+)-(?:(\d+):)?(\d+)$", span or "")
        if not mt:
            return None
        line, c0 = int(mt.group(1)), int(mt.group(2))
        ents = [e for e in self.spans.get(line, []) if e[1] in (c0 - 1, c0 - 2) and e[3] != "stmt"]
        if not ents:
            return None
        ents.sort(key=lambda e: e[0])
        rule = ents[0][2]
        if rule == "var":
            src = self.src().splitlines()[line - 1]
            name = src[ents[0][0] - 1:ents[0][1] - 1]
            known = [v for ln, v in sorted(self.local_rules.items()) if ln <= line]
            if known and name in known[-1]:
                return known[-1][name]
        return rule

    def rule_at(self, span):
        """span: 'm.star:L:C-C' or 'm.star:L:C-L2:C2' -> (rule, def name or None)"""
        mt = re.match(r"^[^:]+:(\d+):(\d+)-(?:(\d+):)?(\d+)$", span or "")
        if not mt:
            return "unknown", None
        line, c0 = int(mt.group(1)), int(mt.group(2))
        c1 = int(mt.group(4)) if mt.group(3) is None else 10 ** 6
        dname = None
        for n, (a, b) in self.def_lines.items():
            if a <= line <= b:
                dname = n
        ents = self.spans.get(line, [])
        exact = [e for e in ents if e[0] == c0 and e[1] == c1]
        if exact:
            # prefer the expression node over the statement alias when both match
            exact.sort(key=lambda e: e[3] == "stmt")
            return exact[0][2], dname
        enc = [e for e in ents if e[0] <= c0 and c1 <= e[1]]
        if enc:
            enc.sort(key=lambda e: e[1] - e[0])
            return enc[0][2], dname
        return "unknown", dname


# --------------------------------------------------------------------------- checker type syntax


class TyParseError(Exception):
    pass


def T(t, a=()):
    return {"t": t, "a": list(a)}


def parse_checker_type(s):
    """The checker's rendering of a Ty -> the specification's type syntax (or TyParseError)."""
    p = _TP(s)
    t = p.union()
    p.ws()
    if p.i != len(s):
        raise TyParseError("trailing %r" % s[p.i:])
    return t


class _TP:
    def __init__(self, s):
        self.s = s
        self.i = 0

    def ws(self):
        while self.i < len(self.s) and self.s[self.i] == " ":
            self.i += 1

    def eat(self, tok):
        self.ws()
        if self.s.startswith(tok, self.i):
            self.i += len(tok)
            return True
        return False

    def need(self, tok):
        if not self.eat(tok):
            raise TyParseError("expected %r at %d in %r" % (tok, self.i, self.s))

    def union(self):
        alts = [self.item()]
        while self.eat("|"):
            alts.append(self.item())
        return alts[0] if len(alts) == 1 else T("union", alts)

    def word(self):
        self.ws()
        m = re.compile(r"[A-Za-z_][A-Za-z_0-9.]*").match(self.s, self.i)
        if not m:
            raise TyParseError("expected a name at %d in %r" % (self.i, self.s))
        self.i = m.end()
        return m.group(0)

    def item(self):
        self.ws()
        if self.eat("("):
            xs = []
            if not self.eat(")"):
                while True:
                    xs.append(self.union())
                    if self.eat(","):
                        if self.eat(")"):
                            break
                        continue
                    self.need(")")
                    break
            return T("tuple", xs)
        w = self.word()
        if w == "def":
            self.need("(")
            depth = 1
            while depth and self.i < len(self.s):       # parameters are not judged: skip them
                c = self.s[self.i]
                depth += c in "([{"
                depth -= c in ")]}"
                self.i += 1
            if depth:
                raise TyParseError("unbalanced def type")
            self.need("->")
            return T("fn", [self.union()])
        if w == "typing.Any":
            return T("any")
        if w == "typing.Never":
            return T("never")
        if w == "None":
            return T("none")
        if w in ("int", "str", "bool", "float"):
            return T(w)
        if w == "list":
            if self.eat("["):
                e = self.union()
                self.need("]")
                return T("list", [e])
            return T("list", [T("any")])
        if w == "dict":
            if self.eat("["):
                k = self.union()
                self.need(",")
                v = self.union()
                self.need("]")
                return T("dict", [k, v])
            return T("dict", [T("any"), T("any")])
        if w == "tuple":
            if self.eat("["):
                e = self.union()
                self.need(",")
                self.need("...")
                self.need("]")
                return T("tupleof", [e])
            return T("tupleof", [T("any")])
        raise TyParseError("unknown type name %r" % w)


def has_any(t):
    return t["t"] == "any" or any(has_any(x) for x in t["a"])


# --------------------------------------------------------------------------- generation (TLC)

TIERS = {
    # stride over the ~39k pairwise items, number of pseudo-random modules, their depth
    "quick": dict(stride=16, nrand=120, depth=3),
    "thorough": dict(stride=1, nrand=2500, depth=4),
}


def generate(tier, wd):
    p = TIERS[tier]
    seed = C.seed()
    env = {"C17_STRIDE": str(p["stride"]), "C17_OFFSET": str(seed % p["stride"]), "C17_SEED": str(seed),
           "C17_NRAND": str(p["nrand"]), "C17_DEPTH": str(p["depth"])}
    r = C.run_tlc("Gen_TypeSys", "Gen_TypeSys.cfg", name="c17_gen", workers=1, env=env, timeout=1500,
                  coverage=False, require_ok=False, xmx="10g")
    if "NOTWT" in r.out or r.violation:
        C.log(r.out[-3000:])
        raise C.ToolError("specification error: a generated module is not well typed per ModuleWT "
                          "(generator and typing judgement of TypeSys.tla disagree)")
    if not r.ok:
        C.log(r.out[-3000:])
        raise C.ToolError("TLC generation failed")
    mods = [json.loads(x) for x in C.tlc_prints(r.out, "MOD")]
    muts = [json.loads(x) for x in C.tlc_prints(r.out, "MUT")]
    stats = [json.loads(x) for x in C.tlc_prints(r.out, "STATS")]
    if not mods or len(mods) != len(muts) or len(mods) != r.distinct or not stats:
        raise C.ToolError("vacuous/incomplete generation: %d modules, %d mutants, %d states"
                          % (len(mods), len(muts), r.distinct))
    r.out = ""
    return r, mods, muts, stats[0]


def module_case(m):
    rd = Renderer(m).render()
    exports = []
    for n in [g["name"] for g in m["globals"]] + [d["name"] for d in m["defs"]] + [b["name"] for b in m["binds"]]:
        if n not in exports:
            exports.append(n)
    cid = "%s%s-%d" % ("mut-" if m["mut"] else "", m["tag"], m["id"])
    case = {"id": cid, "src": rd.src(), "chunks": rd.chunks, "exports": exports, "eval": not m["mut"]}
    return case, rd


def rules_of(m):
    out = set()

    def ex(e):
        out.add(e["r"])
        for x in e["a"]:
            ex(x)

    def sts(ss):
        for s in ss:
            out.add("stmt:" + s["k"])
            for e in s["e"]:
                ex(e)
            sts(s["b"])
            sts(s["c"])

    for d in m["defs"]:
        sts(d["body"])
    for b in m["binds"]:
        ex(b["e"])
    return out


# --------------------------------------------------------------------------- corpus (no-crash part)

def corpus_cases():
    cases = []
    files = []
    for pat in ("starlark/testcases/**/*", "starlark_syntax/testcases/**/*", "starlark/*.star", "**/*.bzl", "**/*.sky"):
        for f in glob.glob(os.path.join(C.REPO, pat), recursive=True):
            if os.path.isfile(f) and f.rsplit(".", 1)[-1] in ("star", "bzl", "sky", "bxl") and "/target/" not in f:
                files.append(f)
    for f in sorted(set(files)):
        try:
            src = open(f, encoding="utf-8").read()
        except (UnicodeDecodeError, OSError):
            continue
        cases.append({"id": "file:" + os.path.relpath(f, C.REPO), "src": src, "exports": [], "eval": False})
    # the programs of the typing golden tests (between "Code:" and the first result section)
    for f in sorted(glob.glob(os.path.join(C.REPO, "starlark/src/typing/tests/golden/*.golden"))):
        lines = open(f, encoding="utf-8").read().split("\n")
        try:
            i = lines.index("Code:")
        except ValueError:
            continue
        code = []
        for ln in lines[i + 1:]:
            if ln in ("Error:", "No errors.", "Approximations:", "Types:", "Compiler typechecker (eval):"):
                break
            code.append(ln)
        src = "\n".join(code).strip("\n") + "\n"
        cases.append({"id": "golden:" + os.path.basename(f), "src": src, "exports": [], "eval": False})
    return cases


# --------------------------------------------------------------------------- harness runs

def _run_shard(mode, cases, wd, tag, results, timeout_per_case=20):
    """Run one harness process over `cases`, restarting after the case that kills it.
    A death / hang of the process is an observation attached to the case it was running."""
    cp = os.path.join(wd, "cases_%s_%s.ndjson" % (mode, tag))
    op = os.path.join(wd, "out_%s_%s.ndjson" % (mode, tag))
    C.ndjson_write(cp, cases)
    if os.path.exists(op):
        os.remove(op)
    open(op, "w").close()
    start = 0
    crashes = 0
    while start < len(cases):
        rc, _, err = C.run_vh([mode, cp, op, "--from", str(start)], check=False, bin=BIN,
                              timeout=max(120, timeout_per_case * (len(cases) - start)))
        n = sum(1 for _ in open(op))
        if n >= len(cases):
            break
        # the process stopped while running case n
        kind = "hang" if rc == -9 else "abort"
        with open(op, "a") as f:
            f.write(json.dumps({"id": cases[n]["id"], "crash": kind, "rc": rc, "stderr": err[-1500:]}) + "\n")
        crashes += 1
        start = n + 1
        if crashes > 25:
            raise C.ToolError("harness keeps dying (%d times) -- see %s" % (crashes, op))
    outs = C.ndjson_read(op)
    if len(outs) != len(cases) or any(o["id"] != c["id"] for o, c in zip(outs, cases)):
        raise C.ToolError("harness output does not line up with the cases (%s)" % op)
    results[tag] = outs


def run_harness(mode, cases, wd, shards=8):
    C.build_harness(BIN)
    shards = max(1, min(shards, len(cases) // 20 + 1))
    parts = [cases[i::shards] for i in range(shards)]
    results = {}
    errs = []

    def work(i):
        try:
            _run_shard(mode, parts[i], wd, str(i), results)
        except Exception as e:     # noqa: BLE001
            errs.append(e)

    ths = [threading.Thread(target=work, args=(i,)) for i in range(shards)]
    for t in ths:
        t.start()
    for t in ths:
        t.join()
    if errs:
        raise errs[0]
    byid = {}
    for i in range(shards):
        for o in results[str(i)]:
            byid[o["id"]] = o
    return byid


# --------------------------------------------------------------------------- judging

RUNTIME_TYPE_PAT = re.compile(r"does not match the type annotation|Type of parameter|Operation `.*` not supported"
                              r"|has no attribute|not supported on type|Expected type|Incorrect parameter type"
                              r"|Missing (named-only )?parameter|Found .* extra (positional|named)|is not callable"
                              r"|Type of parameters mismatch|unhashable", re.I)


def cause_of(rd, span, msg, line_text):
    """What a false error goes back to, where the message and the flagged place tell:
    `on_type` / `receiver_rule`: an attribute refused on a receiver of that checker type, produced by that rule;
    `never_element`: a tuple display, indexed, with an element that cannot produce a value (`{}[k]`, `[].pop()`)."""
    out = {}
    if "float" in msg:
        # the generated modules have no float anywhere: a checker message that names `float` can only
        # come from the rule that types a product with an int operand as a number
        out["mentions_float"] = True
        out["def_has_int_times_seq"] = bool(rd.def_rules_at(span) & {"int*str", "int*list", "str*int", "list*int"})
    m = re.search(r"attribute `[^`]*` is not available on the type `([^`]*)`", msg)
    if m:
        out["on_type"] = m.group(1)
        out["receiver_rule"] = rd.receiver_rule(span)
    if "Expected type" in msg and re.search(r"\{\}\[|\[\]\.pop\(|\[\]\[|\{\}\.pop\(", line_text or ""):
        out["never_element"] = True
    return out


def got_of(msg):
    m = re.search(r"but got `([^`]*)`", msg)
    return m.group(1) if m else ""


def err_rule(msg):
    """A coarse, stable name for what a checker message is about (used when no span maps)."""
    m = re.search(r"Binary operator `([^`]*)`", msg)
    if m:
        return "binop " + m.group(1)
    m = re.search(r"attribute `([^`]*)`", msg)
    if m:
        return "attr " + m.group(1)
    if "Expected type" in msg:
        return "expected-type"
    if "[] operator" in msg:
        return "index"
    return msg.split("`")[0].strip()[:40]


class Judge:
    def __init__(self, verdict):
        self.v = verdict
        self.n = {"modules_checked": 0, "mutants_checked": 0, "corpus_checked": 0, "corpus_unparseable": 0,
                  "false_error": 0, "nondeterministic": 0, "crash": 0, "mutants_ill_typed_per_spec": 0,
                  "mutants_rejected_by_checker": 0, "mutants_accepted_by_checker": 0,
                  "eval_chunk_failures": 0, "eval_runtime_type_errors": 0, "modules_with_approximations": 0,
                  "records": 0, "records_distinct": 0, "commit_any_skipped": 0, "commit_unparsed_skipped": 0,
                  "commit_judged": 0, "local_judged": 0, "ret_judged": 0, "corpus_with_errors": 0,
                  "corpus_error_count": 0, "modules_not_committed": 0}
        self.unparsed = {}
        self.eval_fail_kinds = {}
        self.records = []         # trace records
        self.rec_index = {}       # key -> index in records
        self.rec_origin = []      # per record: (case id, binding, kind, rendered type, repr)
        self.samples = []

    # -- determinism / totality, for every case
    def totality(self, case, o, o2, family):
        cls = None
        if "crash" in o:
            cls = {"kind": o["crash"], "family": family, "where": "typecheck"}
        elif "panic" in o and o.get("where") == "typecheck":
            cls = {"kind": "panic", "family": family, "where": "typecheck"}
        if cls:
            self.n["crash"] += 1
            self.v.disagree(cls, {"case": slim(case), "observed": o})
            return False
        if "parse_error" in o:
            return False
        if not o.get("same_twice", True):
            self.n["nondeterministic"] += 1
            self.v.disagree({"kind": "nondeterministic", "family": family, "across": "same-process"},
                            {"case": slim(case), "first": o.get("diag"), "second": o.get("diag2")})
            return True
        if o2 is not None:
            if "crash" in o2 or "panic" in o2:
                self.n["crash"] += 1
                self.v.disagree({"kind": o2.get("crash", "panic"), "family": family, "where": "typecheck-child"},
                                {"case": slim(case), "observed": o2})
            elif o2.get("diag") != o.get("diag"):
                self.n["nondeterministic"] += 1
                self.v.disagree({"kind": "nondeterministic", "family": family, "across": "processes"},
                                {"case": slim(case), "first": o.get("diag"), "second": o2.get("diag")})
        return True

    def add_record(self, kind, cty, sty, v, origin):
        key = json.dumps([kind != "local", cty, sty, v], sort_keys=True)
        self.n["records"] += 1
        if key in self.rec_index:
            return
        self.rec_index[key] = len(self.records)
        self.records.append({"kind": kind, "cty": cty, "sty": sty, "v": v})
        self.rec_origin.append(origin)

    def commit(self, kind, case, name, rendered, sty, val):
        """One commitment of the checker: binding `name` has type `rendered`; its value is `val`."""
        try:
            cty = parse_checker_type(rendered)
        except TyParseError:
            self.n["commit_unparsed_skipped"] += 1
            self.unparsed[rendered] = self.unparsed.get(rendered, 0) + 1
            cty = None
        if cty is not None and cty["t"] == "any":
            self.n["commit_any_skipped"] += 1
            cty = None
        if cty is None:
            if sty is None:
                return
            cty = T("any")
        else:
            self.n[{"iface": "commit_judged", "local": "local_judged", "ret": "ret_judged"}[kind]] += 1
        self.add_record(kind, cty, sty if sty is not None else T("any"), val["v"],
                        {"case": case["id"], "binding": name, "kind": kind, "checker_type": rendered,
                         "value": val.get("repr")})

    # -- a module that is well typed by construction
    def well_typed(self, case, rd, m, o):
        self.n["modules_checked"] += 1
        tc = o["tc"]
        for e in tc["errors"]:
            rule, dname = rd.rule_at(e["span"])
            if rule == "unknown":
                rule = err_rule(e["msg"])
            self.n["false_error"] += 1
            self.v.disagree(dict({"kind": "false_error", "mode": "lint", "rule": rule, "got": got_of(e["msg"]), "msg": e["msg"]},
                                 **cause_of(rd, e["span"], e["msg"], line_of(case["src"], e["span"]))),
                            {"case": slim(case), "error": e, "in_def": dname,
                             "line": line_of(case["src"], e["span"])})
        if tc["approx"]:
            self.n["modules_with_approximations"] += 1
        # evaluation
        ev = o.get("eval", {})
        evs = o.get("eval_static", {})
        # a panic while EVALUATING the module is the evaluator's (C07); here it counts only when the
        # evaluation with the compile-time checker panics and the plain one does not
        if "panic" in ev:
            self.n["eval_panics_not_the_checkers"] = self.n.get("eval_panics_not_the_checkers", 0) + 1
        elif "panic" in evs:
            self.n["crash"] += 1
            self.v.disagree({"kind": "panic", "family": "generated", "where": "eval_static"},
                            {"case": slim(case), "panic": evs["panic"]})
        plain_failed = {f["chunk"] for f in ev.get("fails", [])}
        for f in ev.get("fails", []):
            self.n["eval_chunk_failures"] += 1
            what, name = rd.chunk_of[f["chunk"]]
            msg = re.sub(r"^\S+ ", "", f["err"])
            kind = re.sub(r"[`'\"].*", "", msg)[:50].strip()
            self.eval_fail_kinds[kind] = self.eval_fail_kinds.get(kind, 0) + 1
            if RUNTIME_TYPE_PAT.search(msg):
                # a module that is well typed per the specification raised a TYPE error at run time:
                # the specification's rule and the evaluator disagree
                self.n["eval_runtime_type_errors"] += 1
                self.v.disagree({"kind": "runtime_type_error", "what": kind},
                                {"case": slim(case), "chunk": case["chunks"][f["chunk"]], "error": f["err"]})
        for f in evs.get("fails", []):
            if f["chunk"] in plain_failed:
                continue
            # fails only with the compile-time checker enabled: that checker reported an error
            msg = re.sub(r"^\S+ ", "", f["err"])
            what, name = rd.chunk_of[f["chunk"]]
            rule = err_rule(msg)
            cause = {}
            if what == "def":
                # map the span (relative to the chunk) back through the def's first line
                mt = re.match(r"^([^:]+):(\d+):(.*)$", f["err"].split(" ")[0])
                if mt:
                    first = rd.def_lines[name][0]
                    gspan = "%s:%d:%s" % (mt.group(1), int(mt.group(2)) + first - 1, mt.group(3))
                    r2, _ = rd.rule_at(gspan)
                    if r2 != "unknown":
                        rule = r2
                    cause = cause_of(rd, gspan, msg, line_of(case["src"], gspan))
            self.n["false_error"] += 1
            self.v.disagree(dict({"kind": "false_error", "mode": "compiler", "rule": rule, "got": got_of(msg), "msg": msg}, **cause),
                            {"case": slim(case), "chunk": case["chunks"][f["chunk"]], "error": f["err"]})
        if tc["approx"] or tc["errors"]:
            # the checker did not accept the module (or flagged an approximation): nothing is committed
            self.n["modules_not_committed"] += 1
            return
        # commitments
        vals = {x["name"]: x for x in ev.get("values", [])}
        iface = dict((n, t) for n, t in tc["iface"])
        sty = {}
        for g in m["globals"]:
            sty[g["name"]] = g["ty"]
        for d in m["defs"]:
            sty[d["name"]] = {"t": "fn", "a": [d["ret"]]}
        for b in m["binds"]:
            sty[b["name"]] = b["ty"]
        for name, val in vals.items():
            self.commit("iface", case, name, iface.get(name, "typing.Any"), sty.get(name), val)
        # results of the generated calls against the DECLARED return type (as the checker renders it)
        # and against the type the checker inferred for the local the def returns
        locals_ = typemap_locals(tc["typemap"])
        for b in m["binds"]:
            if b["kind"] != "call" or b["name"] not in vals:
                continue
            fn = b["e"]["s"]
            ft = iface.get(fn, "")
            mt = re.match(r"^def\(.*\) -> (.*)$", ft)
            if mt:
                self.commit("ret", case, b["name"] + "<-" + fn, mt.group(1), None, vals[b["name"]])
            d = [d for d in m["defs"] if d["name"] == fn][0]
            last = d["body"][-1]
            if last["k"] == "return" and last["e"][0]["k"] == "var" and last["e"][0]["n"] == 0:
                lname = last["e"][0]["s"]
                a, z = rd.def_lines[fn]
                tys = [t for (n, ln, t) in locals_ if n == lname and a <= ln <= z]
                if len(tys) == 1:
                    self.commit("local", case, fn + "." + lname, tys[0], None, vals[b["name"]])


def typemap_locals(text):
    out = []
    for ln in text.split("\n"):
        m = re.match(r"^(\w+) \([^:]+:(\d+):\d+-[\d:]+\) = (.*)$", ln)
        if m:
            out.append((m.group(1), int(m.group(2)), m.group(3)))
    return out


def line_of(src, span):
    m = re.match(r"^[^:]+:(\d+):", span or "")
    if not m:
        return None
    ls = src.split("\n")
    i = int(m.group(1)) - 1
    return ls[i] if 0 <= i < len(ls) else None


def slim(case):
    c = {"id": case["id"], "src": case["src"], "exports": case.get("exports", []), "eval": case.get("eval", False)}
    if "chunks" in case:
        c["chunks"] = case["chunks"]
    return c


# --------------------------------------------------------------------------- V: Matches, by TLC

def validate_records(judge, wd):
    recs = judge.records
    judge.n["records_distinct"] = len(recs)
    if not recs:
        raise C.ToolError("vacuous: no (binding, type, value) observation was recorded")
    tp = os.path.join(wd, "commitments.ndjson")
    C.ndjson_write(tp, recs)
    tr = C.run_tlc("Trace_TypeSys", "Trace_TypeSys.cfg", name="c17_trace", workers=1, dfs=True,
                   env={"TRACE": tp}, timeout=1500, coverage=False, require_ok=False, xmx="8g")
    if not tr.ok or "REJECTED" in tr.out or tr.distinct != len(recs) + 1:
        C.log(tr.out[-3000:])
        raise C.ToolError("trace validation did not complete (%d states for %d records)" % (tr.distinct, len(recs)))
    bad_c = [int(x) for x in re.findall(r'^<<"BADC", (\d+)>>', tr.out, re.M)]
    bad_s = [int(x) for x in re.findall(r'^<<"BADS", (\d+)>>', tr.out, re.M)]
    unk = [int(x) for x in re.findall(r'^<<"UNK", (\d+)>>', tr.out, re.M)]
    for i in bad_c:
        org = judge.rec_origin[i - 1]
        kind = {"iface": "unsound_commit", "ret": "unsound_return_type", "local": "unsound_local_type"}[org["kind"]]
        judge.v.disagree({"kind": kind, "checker_type": generalise(org["checker_type"])},
                         {"record": recs[i - 1], "origin": org})
    for i in bad_s:
        org = judge.rec_origin[i - 1]
        judge.v.disagree({"kind": "spec_value_mismatch", "spec_type": recs[i - 1]["sty"]["t"]},
                         {"record": recs[i - 1], "origin": org})
    tr.out = ""
    return tr, len(bad_c), len(bad_s), len(unk)


def generalise(rendered):
    return re.sub(r"def\(.*\) -> ", "def(..) -> ", rendered)


# --------------------------------------------------------------------------- run / replay

def judge_all(judge, gen_cases, corpus, outs, outs2):
    """gen_cases: [(case, renderer, module)], corpus: [case]"""
    for case, rd, m in gen_cases:
        o = outs[case["id"]]
        family = "mutant" if m["mut"] else "generated"
        if "parse_error" in o:
            raise C.ToolError("a generated module does not parse: %s\n%s" % (o["parse_error"], case["src"]))
        if not judge.totality(case, o, outs2.get(case["id"]), family):
            continue
        if m["mut"]:
            judge.n["mutants_checked"] += 1
            judge.n["mutants_ill_typed_per_spec"] += 1 if m["ill"] else 0
            judge.n["mutants_rejected_by_checker" if o["tc"]["errors"] else "mutants_accepted_by_checker"] += 1
        else:
            judge.cur_module = m
            judge.well_typed(case, rd, m, o)
    for case in corpus:
        o = outs[case["id"]]
        if "parse_error" in o:
            judge.n["corpus_unparseable"] += 1
            continue
        if judge.totality(case, o, outs2.get(case["id"]), "corpus"):
            judge.n["corpus_checked"] += 1
            if o["tc"]["errors"]:
                judge.n["corpus_with_errors"] += 1
                judge.n["corpus_error_count"] += len(o["tc"]["errors"])


def run(tier):
    t0 = time.time()
    wd = C.workdir("c17")
    C.build_harness(BIN)
    verdict = C.Verdict(PROP)
    judge = Judge(verdict)
    for f in glob.glob(os.path.join(C.VERIF, "replays", PROP, "%s_%d_*.json" % (PROP, C.seed()))):
        os.remove(f)
    r, mods, muts, stats = generate(tier, wd)
    C.log("[c17] TLC generated %d modules (+%d mutants) in %.0fs: %s" % (len(mods), len(muts), r.wall, stats))
    gen_cases = []
    covered = set()
    tags = {}
    for m in mods:
        case, rd = module_case(m)
        gen_cases.append((case, rd, m))
        covered |= rules_of(m)
        for d in m["defs"]:
            tags[d["tag"]] = tags.get(d["tag"], 0) + 1
    for m in muts:
        case, rd = module_case(m)
        gen_cases.append((case, rd, m))
    corpus = corpus_cases()
    allcases = [c for c, _, _ in gen_cases] + corpus
    ids = set()
    for c in allcases:
        if c["id"] in ids:
            raise C.ToolError("duplicate case id " + c["id"])
        ids.add(c["id"])
    t1 = time.time()
    outs = run_harness("check", allcases, wd)
    outs2 = run_harness("tc", allcases, wd)          # a fresh process per shard: third typecheck
    C.log("[c17] harness: %d cases x (2 + 1 typechecks, evaluation of %d) in %.0fs"
          % (len(allcases), len(mods), time.time() - t1))
    # attach the module AST to whatever is reported about it (replay needs it)
    by_case = {c["id"]: (c, m) for c, _, m in gen_cases}
    orig = verdict.disagree

    def disagree(cls, payload):
        cid = None
        if isinstance(payload.get("case"), dict):
            cid = payload["case"].get("id")
        elif isinstance(payload.get("origin"), dict):
            cid = payload["origin"].get("case")
        if cid in by_case:
            payload = dict(payload, case=slim(by_case[cid][0]), module=by_case[cid][1])
        orig(cls, payload)

    verdict.disagree = disagree
    judge_all(judge, gen_cases, corpus, outs, outs2)
    tr, nbc, nbs, nunk = validate_records(judge, wd)
    # ---- vacuity guards
    n = judge.n
    spec_rules = stats["rules"]
    sig_rules = {x for x in covered if not x.startswith("stmt:") and x not in ("var", "lit")}
    need_stmt = {"stmt:return", "stmt:assign", "stmt:if", "stmt:for", "stmt:for2", "stmt:aug", "stmt:unpack", "stmt:pass"}
    missing = need_stmt - covered
    for t in ("g1", "g2", "comp", "loop", "two-locals", "if-assign", "unpack", "aug", "rand", "helper", "opt-return"):
        if not tags.get(t):
            missing.add("tag:" + t)
    for fam in ("lcomp", "lcomp-if", "dcomp", "lcomp-unpack", "call:generated", "call:all", "call:none", "callkw:all"):
        if fam not in covered:
            missing.add(fam)
    if missing:
        raise C.ToolError("vacuous generation: never produced %s" % sorted(missing))
    # every rule of the signature table must occur (rules: signature rules + the special formers)
    if len(sig_rules) < spec_rules:
        raise C.ToolError("vacuous generation: %d of the %d signature rules occur in the generated modules"
                          % (len(sig_rules), spec_rules))
    if n["modules_checked"] < 0.98 * len(mods) or n["corpus_checked"] < 100 or n["mutants_checked"] < 0.98 * len(muts):
        raise C.ToolError("too few cases reached the checker: %s" % n)
    if n["commit_judged"] < len(mods) or n["ret_judged"] < len(mods) or n["local_judged"] < len(mods) // 2:
        raise C.ToolError("vacuous soundness part: %s" % n)
    if n["mutants_rejected_by_checker"] == 0 or n["mutants_ill_typed_per_spec"] < 0.9 * len(muts):
        raise C.ToolError("vacuous mutants: %s" % n)
    if n["eval_chunk_failures"] > 0.05 * sum(len(c["chunks"]) for c, _, m in gen_cases if not m["mut"]):
        raise C.ToolError("too many generated statements fail at run time (%d): the generator's run-time "
                          "safety has regressed: %s" % (n["eval_chunk_failures"], judge.eval_fail_kinds))
    summary = {}
    for cls, _ in verdict.violations:
        k = json.dumps({a: b for a, b in cls.items() if a != "msg"}, sort_keys=True)
        summary[k] = summary.get(k, 0) + 1
    for k, c in sorted(summary.items(), key=lambda kv: -kv[1])[:40]:
        C.log("[c17] disagreement x%d: %s" % (c, k))
    rc = verdict.finish()
    samples = []
    if gen_cases:
        c0 = gen_cases[len(mods) // 2][0]
        samples.append({"id": c0["id"], "src": c0["src"][:1800]})
    if judge.records:
        k = len(judge.records) // 2
        samples.append({"commitment": judge.rec_origin[k], "record": judge.records[k]})
    C.write_evidence(PROP, tier, "model_checking", {
        "states": r.distinct + tr.distinct, "transitions": r.transitions + tr.transitions,
        "traces_validated_against_impl": n["modules_checked"] + n["mutants_checked"] + n["corpus_checked"] + len(judge.records),
        "samples": samples,
        "evaluations": 3 * (n["modules_checked"] + n["mutants_checked"] + n["corpus_checked"]) + 2 * n["modules_checked"],
        "distinct_nontrivial": n["commit_judged"] + n["ret_judged"] + n["local_judged"],
        "rule": "G/M: TLC enumerates modules well typed by construction from TypeSys.tla (every signature instance "
                "on canonical leaves, every comprehension/statement template, every context[producer] pair with "
                "stride %d, %d pseudo-random modules of depth %d; 8 generated defs + 8 helper defs + calls + "
                "module-level bindings each) and checks each against the declarative judgement ModuleWT. "
                "Each is typechecked 2+1 times (two processes), must have no error, is evaluated (plain and with "
                "the compile-time checker); V: every (binding, checker type, spec type, value) is judged by "
                "Matches in Trace_TypeSys.tla. non-trivial = commitments with a definite checker type actually "
                "judged. No-crash part: repo .star/.bzl files, typing golden programs, ill-typed mutants."
                % (TIERS[tier]["stride"], TIERS[tier]["nrand"], TIERS[tier]["depth"]),
        "exhaustive": tier == "thorough",
        "generator_stats": stats,
        "def_templates": tags,
        "signature_rules_covered": len(sig_rules),
        "counts": n,
        "trace_records_bad_checker_type": nbc, "trace_records_bad_spec_type": nbs, "trace_records_unjudgeable": nunk,
        "unparsed_checker_types": dict(sorted(judge.unparsed.items(), key=lambda kv: -kv[1])[:20]),
        "eval_failure_kinds": judge.eval_fail_kinds,
        "tlc_generation_wall_s": round(r.wall, 1), "tlc_trace_wall_s": round(tr.wall, 1),
    }, time.time() - t0, len(verdict.violations),
        assumptions=["TLC/SANY and the Json/IOUtils community modules",
                     "the AST-to-source renderer and the parser of the checker's rendered types in lib/c17.py",
                     "the value encoder in harness/src/bin/vh_c17.rs",
                     "TypeSys.tla's signature table is the language-defined typing (checked against the evaluator: "
                     "a run-time type error or a value outside the spec type is reported, not ignored)",
                     "commitments of kind `local` (TypeMap type of the local a def returns) go beyond the exported "
                     "Interface named in the property; they are classed separately"])
    return rc


def replay(path):
    d = json.load(open(path))
    payload = d["case"]
    case = payload.get("case")
    if not isinstance(case, dict) or "src" not in case:
        print(json.dumps(d, indent=1)[:4000])
        return 0
    m = payload.get("module")
    wd = C.workdir("c17_replay")
    verdict = C.Verdict(PROP)
    judge = Judge(verdict)
    print("--- source\n" + case["src"])
    diags = []
    for i in range(3):      # several fresh processes: hash seeds differ between processes
        outs = run_harness("check", [case], wd, shards=1)
        outs2 = run_harness("tc", [case], wd, shards=1)
        diags.append(outs[case["id"]].get("diag"))
        if i == 0:
            o = outs[case["id"]]
            print("--- harness\n" + json.dumps({k: v for k, v in o.items() if k not in ("diag", "diag2")}, indent=1)[:6000])
            if m is not None and not m["mut"]:
                rd = Renderer(m).render()
                if judge.totality(case, o, outs2.get(case["id"]), "generated") and "parse_error" not in o:
                    judge.well_typed(case, rd, m, o)
                    if judge.records:
                        validate_records(judge, wd)
            else:
                judge.totality(case, o, outs2.get(case["id"]), d["class"].get("family", "corpus"))
        else:
            judge2 = Judge(verdict)
            judge2.totality(case, outs[case["id"]], outs2.get(case["id"]), d["class"].get("family", "corpus"))
    if len(set(diags)) > 1:
        verdict.disagree({"kind": "nondeterministic", "across": "processes"}, {"case": case})
    want = d.get("class", {})
    same = [c for c, _ in verdict.violations if all(c.get(k) == v for k, v in want.items())]
    for c, _ in verdict.violations:
        print("observed:", json.dumps(c))
    for fid, (cnt, f, _) in verdict.known.items():
        print("observed (known finding %s): %d" % (fid, cnt))
    if same or verdict.violations:
        print("VIOLATION property=%s replay=%s" % (PROP, path))
        return 1
    print("no disagreement reproduced")
    return 0

"""C08 -- arguments bind to parameters exactly as the call rules say, on every call path.

Oracle: spec/ArgBind.tla, `Bind(sig, call)`, written from the Python/Starlark call rules.
M: on every enumerated pair TLC checks Conservation and Shape (no argument lost or duplicated,
   result shaped like the signature) and that rendering a well-formed parameter sequence gives a
   parameter list the token-level rules accept.
G: TLC (spec/Gen_ArgBind.tla) enumerates signatures x call shapes slice by slice -- exhaustive
   families in BFS mode, larger random cases in -simulate mode, and parameter-list / argument-list
   token sequences for the static rules -- and prints the expected outcome of each.  Every slice
   is piped straight into its own `vh_c08` process, which issues each call through every path
   (direct, opaque callee, struct field, native function with the same ParametersSpec (collect and
   parser APIs), host eval_function, module-level statement, frozen module, load() from another
   module, frozen importer, can_fill_with_args) and compares what the callee received.
Only whether the call is well formed and the bound values are compared; never which error.
"""
import concurrent.futures
import json
import os
import re
import subprocess
import time

import common as C

PROP = "C08"
BIN = "vh_c08"

CLASSES = ["ok", "extra_pos", "extra_named", "repeated", "missing"]
FEATURES = ["named", "star", "starstar", "default_used", "args_overflow", "kwargs_collected",
            "posonly_name_to_kwargs"]
PATHS_ALL = ["direct", "var", "struct", "native", "native_parser", "top", "top_opaque",
             "frozen_direct", "frozen_var", "frozen_struct", "frozen_native", "frozen_native_parser",
             "load", "load_struct", "load_top", "load_frozen"]
# only for signatures of one parameter: a callee of the shape `return type(x) == "int"`, whose calls are
# rewritten into a type test at the call site (before freezing, after freezing, from a loading module)
PATHS_ONE = ["typeis", "frozen_typeis", "load_typeis"]
PATHS_HOST = ["host", "host_native", "frozen_host", "can_fill", "can_fill_native"]

# (family cfg, number of slices, simulate behaviours per slice or None)
FAMILIES = {
    "quick": [("small", 9, None), ("wide2", 5, None), ("sim", 2, 10000), ("hostdup", 2, None)],
    "thorough": [("small4", 42, None), ("extra2", 21, None), ("wide3", 21, None), ("simbig", 14, 17000), ("hostdup4", 8, None)],
}


def _cfg_for(fam, part, nparts, wd):
    src = open(os.path.join(C.SPEC, "cfg", "Gen_ArgBind_%s.cfg" % fam)).read()
    src = re.sub(r"NParts = \d+", "NParts = %d" % nparts, src)
    src = re.sub(r"\bPart = \d+", "Part = %d" % part, src)
    p = os.path.join(wd, "Gen_ArgBind_%s_%d.cfg" % (fam, part))
    open(p, "w").write(src)
    return p


def _job(fam, part, nparts, sim, wd, vh, extra_vh=()):
    """One slice: TLC | vh_c08. Returns a dict with TLC's counters and the harness summary."""
    name = "%s_%d" % (fam, part)
    cfg = _cfg_for(fam, part, nparts, wd)
    meta = os.path.join(wd, "meta_" + name)
    out = os.path.join(wd, "out_%s.json" % name)
    log = os.path.join(wd, "tlc_%s.log" % name)
    cmd = ["timeout", "3000", "java", "-XX:+UseParallelGC", "-XX:ParallelGCThreads=2", "-XX:CICompilerCount=2",
           "-Xss1g", "-Xmx3g", "-cp", C.TLA_CP, "tlc2.TLC",
           "-workers", "1", "-metadir", meta, "-cleanup", "-noGenerateSpecTE", "-config", cfg]
    if sim:
        cmd += ["-simulate", "num=%d" % sim, "-depth", "60", "-seed", str(C.seed() * 1000 + part)]
    cmd += [os.path.join(C.SPEC, "Gen_ArgBind.tla")]
    env = dict(os.environ)
    env.pop("JAVA_TOOL_OPTIONS", None)
    henv = dict(os.environ)
    henv.setdefault("RUST_BACKTRACE", "0")
    henv.setdefault("RUST_MIN_STACK", str(64 * 1024 * 1024))
    t0 = time.time()
    tlc = subprocess.Popen(cmd, cwd=C.SPEC, stdout=subprocess.PIPE, stderr=subprocess.STDOUT, env=env)
    hp = subprocess.Popen([vh, "run", "-", out, "--log", log] + list(extra_vh), stdin=tlc.stdout,
                          stdout=subprocess.PIPE, stderr=subprocess.PIPE, env=henv)
    tlc.stdout.close()
    try:
        _, herr = hp.communicate(timeout=3300)
        hrc = hp.returncode
    except subprocess.TimeoutExpired:
        hp.kill()
        tlc.kill()
        herr, hrc = b"timeout", -9
    trc = tlc.wait()
    subprocess.run(["rm", "-rf", meta])
    res = {"name": name, "fam": fam, "part": part, "nparts": nparts, "sim": sim, "wall": time.time() - t0,
           "tlc_rc": trc, "vh_rc": hrc, "vh_err": herr.decode(errors="replace")[-2000:],
           "generated": 0, "distinct": 0, "tlc_ok": False, "tlc_tail": "", "summary": None}
    text = open(log).read() if os.path.exists(log) else ""
    res["tlc_tail"] = text[-3000:]
    m = re.search(r"^(\d+) states generated, (\d+) distinct states found", text, re.M)
    if m:
        res["generated"], res["distinct"] = int(m.group(1)), int(m.group(2))
    m = re.search(r"The number of states generated: (\d+)", text)
    if m:
        res["generated"] = int(m.group(1))
        m2 = re.findall(r"(\d+) traces generated", text)
        res["distinct"] = int(m2[-1]) if m2 else 0
    if sim:
        res["tlc_ok"] = trc == 0 and "Error" not in text and res["distinct"] > 0
    else:
        res["tlc_ok"] = trc == 0 and "Model checking completed. No error has been found." in text
    if os.path.exists(out):
        res["summary"] = json.load(open(out))
        os.remove(out)
    return res


def _classify(d):
    """Class of a disagreement: the path, what the specification says, what the code did."""
    return {"path": d["path"], "expected": d["expected"], "got": d["got"],
            "spec_class": d["case"].get("err") or "ok" if "case" in d and isinstance(d["case"], dict) else "?"}


def _static(verdict, wd):
    """Static rules: parameter lists and argument lists as token sequences."""
    rows = []
    states = 0
    for kind in ("sigtok", "calltok"):
        r = C.run_tlc("Gen_ArgBind", "Gen_ArgBind_%s.cfg" % kind, workers=1, timeout=900, coverage=False, xmx="2g")
        toks = [json.loads(x) for x in C.tlc_prints(r.out, "TOK")]
        if len(toks) != r.distinct or not toks:
            raise C.ToolError("static %s: %d token cases for %d states" % (kind, len(toks), r.distinct))
        states += r.distinct
        for t in toks:
            t["kind"] = kind
        rows += toks
    n_ok = sum(1 for r in rows if r["ok"] == 1)
    if n_ok == 0 or n_ok == len(rows):
        raise C.ToolError("static token cases are vacuous (%d accepted of %d)" % (n_ok, len(rows)))
    ip, op = os.path.join(wd, "toks.ndjson"), os.path.join(wd, "toks_out.json")
    C.ndjson_write(ip, rows)
    C.run_vh(["static", ip, op], bin=BIN, timeout=900)
    outs = json.load(open(op))
    if len(outs) != len(rows):
        raise C.ToolError("static: %d answers for %d cases" % (len(outs), len(rows)))
    for o in outs:
        exp = "ok" if o["expected"] == 1 else "error"
        if o["got"] != exp:
            verdict.disagree({"path": "static_" + o["kind"], "expected": exp, "got": o["got"], "spec_class": exp},
                             {"static": o})
    return states, len(rows), n_ok, outs[len(outs) // 3]


def run(tier):
    t0 = time.time()
    wd = C.workdir("c08")
    vh = C.build_harness(BIN)
    verdict = C.Verdict(PROP)
    fams = FAMILIES["thorough" if tier == "thorough" else "quick"]
    only = os.environ.get("VERIF_C08_FAMILIES")   # development aid (mutant runs): subset of the tier's families
    if only:
        fams = [f for f in fams if f[0] in only.split(",")]
    jobs = []
    for fam, nparts, sim in fams:
        for part in range(nparts):
            jobs.append((fam, part, nparts, sim))
    # one TLC + one harness process per job; TLC mostly waits on the pipe, so one job per core
    workers = max(2, min(16, os.cpu_count() or 4))
    results = []
    with concurrent.futures.ThreadPoolExecutor(max_workers=workers) as ex:
        futs = [ex.submit(_job, fam, part, nparts, sim, wd, vh) for fam, part, nparts, sim in jobs]
        for f in concurrent.futures.as_completed(futs):
            results.append(f.result())
    results.sort(key=lambda r: (r["fam"], r["part"]))

    states = transitions = cases = evals = nontrivial = sigs = host_only = 0
    by_class, features, by_path, per_family = {}, {}, {}, {}
    samples = []
    for r in results:
        s = r["summary"]
        if not r["tlc_ok"]:
            if "is violated" in r["tlc_tail"]:
                raise C.ToolError("specification property (Conservation/Shape/RenderOK) violated in %s:\n%s"
                                  % (r["name"], r["tlc_tail"][-1500:]))
            if r["vh_rc"] == 0 or r["tlc_rc"] not in (0, 141, -13):
                C.log(r["tlc_tail"][-2000:])
                raise C.ToolError("TLC failed on slice %s (rc=%s)" % (r["name"], r["tlc_rc"]))
        if r["vh_rc"] != 0 or s is None:
            # the harness process died or hung while executing calls: that is an observation
            if r["vh_rc"] == 2:
                C.log(r["vh_err"])
                raise C.ToolError("vh_c08 failed on slice %s" % r["name"])
            got = "hang" if r["vh_rc"] == -9 else "abort"
            verdict.disagree({"path": "process", "expected": "?", "got": got, "spec_class": "?"},
                             {"job": {k: r[k] for k in ("fam", "part", "nparts", "sim")}, "stderr": r["vh_err"]})
            continue
        want = r["distinct"]
        if s["cases"] != want:
            raise C.ToolError("slice %s: harness saw %d cases, TLC generated %d" % (r["name"], s["cases"], want))
        states += r["distinct"]
        transitions += r["generated"]
        cases += s["cases"]
        host_only += s.get("host_only", 0)
        evals += s["evaluations"]
        nontrivial += s["nontrivial"]
        sigs += s["signatures"]
        pf = per_family.setdefault(r["fam"], {"cases": 0, "slices": 0, "wall_max_s": 0.0, "classes": {}})
        pf["cases"] += s["cases"]
        pf["slices"] += 1
        pf["wall_max_s"] = round(max(pf["wall_max_s"], r["wall"]), 1)
        for k, v in s["by_class"].items():
            by_class[k] = by_class.get(k, 0) + v
            pf["classes"][k] = pf["classes"].get(k, 0) + v
        for k, v in s["features"].items():
            features[k] = features.get(k, 0) + v
        for k, v in s["by_path"].items():
            e = by_path.setdefault(k, {"expected_ok": 0, "expected_error": 0})
            e["expected_ok"] += v["expected_ok"]
            e["expected_error"] += v["expected_error"]
        if s["chunk_errors"]:
            C.log("setup failures in %s: %s" % (r["name"], s["chunk_errors"][:2]))
        counts = s["disagreement_counts"]
        shown = {}
        for d in s["disagreements"]:
            key = "%s|%s|%s" % (d["path"], d["expected"], d["got"])
            shown[key] = shown.get(key, 0) + 1
            verdict.disagree(_classify(d), {"case": d["case"], "observed": d["observed"], "source": d.get("source"),
                                            "path": d["path"], "total_in_slice": counts.get(key)})
        if len(samples) < 2 and s["samples"]:
            samples.append(s["samples"][0])

    # vacuity guards: every outcome class, every mechanism, every path, in both directions
    for fam, pf in per_family.items():
        # (every host-only call is ill-formed: its first broken rule is one of these three)
        missing = [c for c in (("extra_pos", "extra_named", "repeated") if fam.startswith("hostdup") else CLASSES) if not pf["classes"].get(c)]
        if missing:
            raise C.ToolError("vacuous generation in family %s: classes never produced: %s" % (fam, missing))
    missing = [f for f in FEATURES if not features.get(f)]
    if missing and not verdict.violations:
        raise C.ToolError("vacuous generation: mechanisms never exercised by a well-formed call: %s" % missing)
    if not verdict.violations:
        for p in PATHS_ALL + PATHS_HOST + PATHS_ONE:
            e = by_path.get(p)
            if not e or not e["expected_ok"] or not e["expected_error"]:
                raise C.ToolError("path %s was not exercised in both directions: %s" % (p, e))
        for p in PATHS_ALL:
            if by_path[p]["expected_ok"] + by_path[p]["expected_error"] != cases - host_only:
                raise C.ToolError("path %s ran %d of %d cases" % (p, by_path[p]["expected_ok"] + by_path[p]["expected_error"], cases - host_only))
        if not host_only or by_path.get("host_lambda", {}).get("expected_error") != host_only:
            raise C.ToolError("host-only calls (a name repeated among the named arguments): %d generated, %s run"
                              % (host_only, by_path.get("host_lambda")))

    st_states, st_cases, st_ok, st_sample = _static(verdict, wd)
    states += st_states
    transitions += st_states
    samples.append(st_sample)

    rc = verdict.finish()
    C.write_evidence(PROP, tier, "model_checking", {
        "states": states, "transitions": transitions,
        "traces_validated_against_impl": cases + st_cases,
        "samples": samples[:3],
        "evaluations": evals + st_cases,
        "distinct_nontrivial": nontrivial,
        "rule": "G: every (signature, call) pair TLC enumerates from Gen_ArgBind.tla is issued through every call "
                "path and the callee's parameters are compared with Bind(sig, call) of ArgBind.tla (ok/error and "
                "bound values; never which error). Non-trivial = expected error, or well-formed call using a "
                "keyword, *seq, **map, a default, *args overflow or **kwargs collection. Exhaustive families: "
                + ", ".join("%s (%d cases)" % (f, pf["cases"]) for f, pf in sorted(per_family.items())
                            if not f.startswith("sim"))
                + "; random larger cases by TLC -simulate: "
                + ", ".join("%s (%d)" % (f, pf["cases"]) for f, pf in sorted(per_family.items()) if f.startswith("sim"))
                + "; static rules: all parameter-list and argument-list token sequences of length <= 4.",
        "exhaustive": True,
        "signature_slices": sigs,
        "cases_by_spec_class": by_class,
        "wellformed_cases_by_mechanism": features,
        "evaluations_by_path": by_path,
        "families": per_family,
        "static_token_cases": st_cases, "static_token_cases_accepted_by_spec": st_ok,
        "slices": len(results),
    }, time.time() - t0, len(verdict.violations),
        assumptions=["TLC/SANY and the Json module", "harness rendering and comparison code in harness/src/bin/vh_c08.rs",
                     "bounds: see spec/cfg/Gen_ArgBind_*.cfg; the full space of the property statement (5 parameters x "
                     "4+3+3+3 arguments with all name overlaps, 1.3e9 pairs) is covered exhaustively only up to the "
                     "MaxTotal budgets of the cfgs, beyond that by random simulation",
                     "argument values are small distinct ints; *seq is a list or tuple literal, **map a dict literal"])
    return rc


def replay(path):
    d = json.load(open(path))
    case = d["case"]
    wd = C.workdir("c08_replay")
    if "static" in case:
        o = case["static"]
        ip, op = os.path.join(wd, "toks.ndjson"), os.path.join(wd, "toks_out.json")
        C.ndjson_write(ip, [{"kind": o["kind"], "toks": o["toks"], "ok": o["expected"]}])
        C.run_vh(["static", ip, op], bin=BIN)
        out = json.load(open(op))[0]
        print(json.dumps(out, indent=1))
        if out["got"] != ("ok" if out["expected"] == 1 else "error"):
            print("VIOLATION property=%s replay=%s" % (PROP, path))
            return 1
        return 0
    if "job" in case:
        j = case["job"]
        r = _job(j["fam"], j["part"], j["nparts"], j["sim"], wd, C.build_harness(BIN))
        print(json.dumps({k: r[k] for k in ("name", "tlc_rc", "vh_rc", "vh_err")}, indent=1))
        if r["vh_rc"] != 0:
            print("VIOLATION property=%s replay=%s" % (PROP, path))
            return 1
        return 0
    ip, op = os.path.join(wd, "case.ndjson"), os.path.join(wd, "out.json")
    C.ndjson_write(ip, [case["case"]])
    C.run_vh(["run", ip, op, "--verbose", "1"], bin=BIN)
    out = json.load(open(op))
    print(case.get("source"))
    print("expected:", "ok " + json.dumps(case["case"]["vals"]) if case["case"]["ok"] == 1 else "error (%s)" % case["case"]["err"])
    for p, o in sorted(out["observations"][0]["obs"].items()):
        print("  %-22s %s" % (p, json.dumps(o)))
    bad = [x for x in out["disagreements"]]
    for x in bad:
        print("DISAGREES path=%s expected=%s got=%s" % (x["path"], x["expected"], x["got"]))
    if bad:
        print("VIOLATION property=%s replay=%s" % (PROP, path))
        return 1
    return 0

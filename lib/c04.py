"""C04 -- freezing preserves every value and makes it permanently immutable.

M: Gen_Freeze.tla / Sem.tla (RunFrozen, FreezeAll): invariants FreezePreserves (probes read through
   load() after freezing equal the probes emitted before) and FrozenImmutable (every mutation
   attempt yields `immutable`, probes unchanged, non-mutating operations work) on every case.
   HeapCopy.tla (shared with C03) is the algorithm freezing uses.
G: TLC enumerates exported structure (nested, aliased, cyclic, dict-of-containers, tuple holding
   mutables, function with captured list and default dict) x path to a reachable container x
   mutating operation (methods, item assignment, +=, setdefault/update, ...) x one or two importing
   modules; the harness evaluates module A, freezes it, load()s it into fresh modules and runs the
   chunks; per-chunk transcript and outcome must equal Sem's; the value read through the host API
   (FrozenModule::get_owned) must equal the probe too.
"""
import json
import os
import time

import common as C

PROP = "C04"


def norm(x):
    return json.dumps(x, sort_keys=True)


def run(tier):
    t0 = time.time()
    wd = C.workdir("c04")
    C.build_harness()
    verdict = C.Verdict(PROP)
    g = C.run_tlc("Gen_Freeze", "Gen_Freeze.cfg", workers=8, timeout=3000, coverage=False)
    if g.violation:
        raise C.ToolError("Gen_Freeze violates its own invariant: %s" % g.violation)
    cases = []
    for i, x in enumerate(C.tlc_prints(g.out, "CASE")):
        d = json.loads(x)
        d["id"] = "c04#%d" % i
        cases.append(d)
    if len(cases) < 300 or len(cases) * 2 != g.distinct:
        raise C.ToolError("generation incomplete: %d cases, %d states" % (len(cases), g.distinct))
    if tier == "quick":
        # every case with one importer, a third of those with two
        cases = [c for i, c in enumerate(cases) if not c["class"]["two"] or i % 3 == 0]
    cp, op = os.path.join(wd, "cases.ndjson"), os.path.join(wd, "out.ndjson")
    C.ndjson_write(cp, [{k: c[k] for k in ("id", "a", "mid", "loaded_mid", "loaded", "mods")} for c in cases])
    rc, _, err = C.run_vh(["replay", "frz", cp, op], check=False, timeout=3000)
    outs = {o["id"]: o for o in (C.ndjson_read(op) if os.path.exists(op) else [])}
    attempts = 0
    stages = ["probe_loaded", "mutate", "probe_after", "read_ops", "call_closure", "probe_final"]
    for c in cases:
        cl = c["class"]
        base = {"struct": cl["s"], "kind": cl["kind"], "mut": cl["mut"]}
        o = outs.get(c["id"])
        if o is None:
            verdict.disagree(dict(base, what="abort"), {"class": cl, "stderr": err[-1500:]})
            break
        if o["status"] != "ok":
            verdict.disagree(dict(base, what=o["status"]), {"class": cl, "what": o.get("what")})
            continue
        r, e = o["res"], c["exp"]
        if norm(r["a"]["out"]) != norm(e["a"]["out"]) or r["a"]["kind"] != e["a"]["err"]["kind"]:
            verdict.disagree(dict(base, what="before_freeze"), {"class": cl, "src": r["a"]["src"], "expected": e["a"], "observed": r["a"]})
            continue
        if norm(r["host_x"]) != norm(e["a"]["out"][0]):
            verdict.disagree(dict(base, what="host_api_value_differs"), {"class": cl, "src": r["a"]["src"], "expected": e["a"]["out"][0], "observed": r["host_x"]})
            continue
        for mi, (em, rm) in enumerate(zip(e["mods"], r["mods"])):
            stop = False
            for ci, (ec, rch) in enumerate(zip(em, rm)):
                if ci == 1:
                    attempts += 1
                if ec["err"]["kind"] != rch["kind"] or norm(ec["out"]) != norm(rch["out"]):
                    what = "mutation_not_rejected" if (ci == 1 and rch["kind"] != "immutable") else \
                           "value_changed" if ci in (2, 5) else "outcome"
                    verdict.disagree(dict(base, what=what, stage=stages[ci], importer=mi + 1, sem=ec["err"]["kind"] or "ok", real=rch["kind"] or "ok"),
                                     {"class": cl, "a_src": r["a"]["src"], "chunks": [x["src"] for x in rm], "chunk": ci + 1,
                                      "expected": ec, "observed": {k: rch[k] for k in ("out", "kind", "msg")}})
                    stop = True
                    break
            if stop:
                break
    rc = verdict.finish()
    s = cases[len(cases) // 2]
    C.write_evidence(PROP, tier, "model_checking", {
        "states": g.distinct, "transitions": g.transitions,
        "traces_validated_against_impl": len(outs),
        "samples": [{"class": s["class"], "a": outs[s["id"]]["res"]["a"]["src"] if s["id"] in outs and outs[s["id"]]["status"] == "ok" else None,
                     "importer": [x["src"] for x in outs[s["id"]]["res"]["mods"][0]] if s["id"] in outs and outs[s["id"]]["status"] == "ok" else None}],
        "evaluations": len(cases), "distinct_nontrivial": attempts,
        "rule": "TLC enumerates structure x path x mutating operation x {1,2 importers}; non-trivial = mutation attempts on a frozen container",
        "exhaustive": tier == "thorough", "mutation_attempts": attempts,
        "structures": sorted({c["class"]["s"] for c in cases}), "operations": sorted({c["class"]["mut"] for c in cases}),
    }, time.time() - t0, len(verdict.violations),
        assumptions=["Sem.tla (RunFrozen) is the reference", "structs, records, enums, ranges, sets are Sem layer 2 and not in the catalogue yet",
                     "which error is reported when an operation is wrong for two reasons is not compared (remove() targets a present element)"])
    return rc


def replay(path):
    d = json.load(open(path))
    c = d["case"]
    print(c.get("a_src") or c.get("src"))
    for i, s in enumerate(c.get("chunks", [])):
        print("--- importer chunk %d\n%s" % (i + 1, s))
    print(json.dumps({k: c.get(k) for k in ("expected", "observed")}, indent=1)[:3000])
    return 0

#!/bin/sh
# run_mutants.sh "<ID>:<patch> ..."  -- sequentially, log to work/mutants.log
for x in "$@"; do
  id=${x%%:*}; p=${x#*:}
  echo "=== $id $p $(date +%T)" >> /verif/work/mutants.log
  python3 /verif/lib/mut.py $id /verif/mutants/$p.patch 2>&1 | grep -E "VIOLATION|KNOWN-FINDING|check exit code|does not|TOOL ERROR" | head -8 >> /verif/work/mutants.log
done
echo "=== done $(date +%T)" >> /verif/work/mutants.log

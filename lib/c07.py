"""C07 -- evaluation is total and recoverable: a value or a located error, never a crash.

V (Trace_Session.tla):
 (i) random sessions -- several chunks on ONE module + evaluator, failures injected at a high rate at
     any point of nested calls/loops/comprehensions -- accepted iff every chunk's transcript, failure
     kind and line equal Sem.RunSession's (Sem continues after a failure with an empty call stack
     and released locks = "as on a fresh evaluator"), the real call stack is empty after every
     chunk and the iteration-lock events are balanced;
 (ii) every global function and every method of every catalogue value x 0/1/2(/3, keyword) arguments
     from a 37-value catalogue (extreme ints, floats, unicode, nested and self-containing
     containers, functions): the specification's NativeCall admits only "value" or "located error",
     empty call stack and an unchanged probe evaluation afterwards.  Panics are caught; aborts and
     hangs kill the child process and are attributed through a progress file.
"""
import json
import os
import time

import common as C
import semlib as S

PROP = "C07"


def classify_session(row, sem):
    leaked = False
    for i, g in enumerate(row["res"]):
        e = sem["res"][i] if sem and i < len(sem["res"]) else None
        if g["kind"] == "panic":
            return {"what": "panic", "engine": "session"}
        if e is None:
            return {"what": "unexplained", "engine": "session"}
        same = e["err"]["kind"] == g["kind"] and json.dumps(e["out"], sort_keys=True) == json.dumps(g["out"], sort_keys=True) \
            and (not g["kind"] or e["err"]["line"] == g["line"])
        if not same:
            if leaked and g["kind"] == "iter_mutation":
                return {"what": "outcome", "engine": "session", "sem": e["err"]["kind"] or "ok", "real": "iter_mutation", "after_lock_leak": True}
            return {"what": "outcome", "engine": "session", "sem": e["err"]["kind"] or "ok", "real": g["kind"] or "ok", "after_lock_leak": leaked}
        if not g.get("host_ok", True):
            return {"what": "host_api_panic", "engine": "session"}
        if g["stack"] != 0:
            return {"what": "stack_not_empty", "engine": "session", "chunk_failed": bool(g["kind"])}
        if g["locks"] != 0:
            if g["kind"]:
                leaked = True
                continue      # look for a worse problem first; report the leak if nothing else
            return {"what": "lock_leak", "engine": "session", "chunk_failed": False}
    if leaked:
        return {"what": "lock_leak", "engine": "session", "chunk_failed": True}
    return {"what": "unexplained", "engine": "session"}


def run(tier):
    t0 = time.time()
    wd = C.workdir("c07")
    C.build_harness()
    verdict = C.Verdict(PROP)
    # (i) sessions
    nsess = 300 if tier == "quick" else 4000
    sp = os.path.join(wd, "sessions.ndjson")
    _, out, _ = C.run_vh(["record", "sess", sp, "--seed", str(C.seed()), "--n", str(nsess), "--chunks", "5", "--stmts", "4"])
    sessions = C.ndjson_read(sp)
    st, bad, states = S.judge_rows(sessions, wd, "c07s", chunks=8 if tier == "quick" else 32, module="Trace_Session", cfg="Trace_Session.cfg")
    by = {r["id"]: r for r in sessions}
    failing_chunks = sum(1 for r in sessions for x in r["res"] if x["kind"])
    recovered = sum(1 for r in sessions for i, x in enumerate(r["res"]) if i > 0 and r["res"][i - 1]["kind"] and not x["kind"])
    if bad:
        ex = S.explain([by[b] for b in bad[:80]], wd, module="Trace_Session", cfg="Explain_Session.cfg")
        for b in bad[:80]:
            row = by[b]
            verdict.disagree(classify_session(row, ex.get(b)),
                             {"session": {"id": b, "chunks": [x.get("src") for x in row["res"]],
                                          "observed": [{k: x.get(k) for k in ("kind", "line", "msg", "stack", "locks", "out", "host_ok", "host_panic")} for x in row["res"]]},
                              "sem": ex.get(b)})
    # (ii) builtin x argument catalogue
    pairs, triples = (3, 800) if tier == "quick" else (100, 20000)
    npth, pp = os.path.join(wd, "ncalls.ndjson"), os.path.join(wd, "progress")
    calls = []
    skip = 0
    crashes = 0
    while True:
        if os.path.exists(npth):
            os.remove(npth)
        rc, _, err = C.run_vh(["record", "natcat", npth, "--seed", str(C.seed()), "--pairs", str(pairs), "--triples", str(triples),
                               "--progress", pp, "--skip", str(skip)], check=False, timeout=3000)
        calls += C.ndjson_read(npth, tolerate_truncated_tail=(rc != 0)) if os.path.exists(npth) else []
        if rc == 0:
            break
        # the child died (abort / stack overflow / watchdog): the call in the progress file is the culprit;
        # record it and carry on with the next call in a fresh process
        crashes += 1
        prog = open(pp).read().strip() if os.path.exists(pp) else "0\t?"
        idx, _, src = prog.partition("\t")
        verdict.disagree({"what": "hang" if rc == 97 else "abort", "engine": "ncall", "target": src.split("(")[0].split(".")[-1]},
                         {"call": src, "rc": rc, "stderr": err[-1000:]})
        skip = int(idx) if idx.isdigit() else skip + 1
        if crashes >= 25:
            break
    if len(calls) < 2000 and crashes == 0:
        raise C.ToolError("catalogue run produced only %d calls" % len(calls))
    st2, bad2, states2 = S.judge_rows(calls, wd, "c07n", chunks=8, module="Trace_Session", cfg="Trace_Session.cfg")
    byc = {r["id"]: r for r in calls}
    for b in bad2[:200]:
        r = byc[b]
        what = "panic" if r["res"] == "panic" else "error_without_span" if (r["res"] == "error" and not r["span_ok"]) \
            else "stack_not_empty" if r["stack"] != 0 else "not_reusable"
        cls = {"what": what, "engine": "ncall", "target": r.get("target")}
        if what == "panic":
            # which assertion: the text of the panic message (without its location)
            cls["panic"] = (r.get("msg") or "").split("\n", 1)[-1][:60]
            cls["operands"] = "sequence x int" if r.get("target") == "op:*" and not any(x in r.get("src", "") for x in ("c_s", "c_es", "c_uni", "c_fmt")) else "other"
        verdict.disagree(cls, {"call": r})
    rc = verdict.finish()
    targets = len({c.get("target") for c in calls})
    C.write_evidence(PROP, tier, "model_checking", {
        "states": states + states2, "transitions": states + states2,
        "traces_validated_against_impl": st["n"] - st["skipped"] + st2["n"],
        "samples": [{"session": [x.get("src") for x in sessions[0]["res"]], "observed": [x["kind"] or "ok" for x in sessions[0]["res"]]},
                    {"ncall": calls[len(calls) // 2]}],
        "evaluations": len(sessions) * 5 + len(calls),
        "distinct_nontrivial": failing_chunks + sum(1 for c in calls if c["res"] != "value"),
        "rule": "(i) seeded random sessions of 5 chunks with failures injected at rate 4%% per expression choice; non-trivial = failing "
                "chunks; (ii) all targets x 0 and 1 argument, %d%% of the 2-argument pairs, %d sampled 3-argument/keyword calls over a "
                "37-value catalogue; non-trivial = calls that did not return a value" % (pairs, triples),
        "sessions": len(sessions), "sessions_skipped": st["skipped"], "failing_chunks": failing_chunks,
        "chunks_succeeding_right_after_a_failure": recovered,
        "native_calls": len(calls), "native_targets": targets,
        "native_outcomes": {k: sum(1 for c in calls if c["res"] == k) for k in ("value", "error", "panic")},
    }, time.time() - t0, len(verdict.violations),
        assumptions=["Sem.tla is the reference for sessions", "a panic is caught with catch_unwind and then a fresh evaluator is used",
                     "huge allocations are avoided by construction of the catalogue (no huge ranges/repeat counts as container sizes)"])
    return rc


def replay(path):
    d = json.load(open(path))
    c = d["case"]
    if "call" in c:
        src = c["call"]["src"] if isinstance(c["call"], dict) else c["call"]
        cat = "\n".join(s for _, s in CATALOGUE) if False else None
        print("call:", src)
        print(json.dumps(c["call"], indent=1))
        return 0
    for i, s in enumerate(c["session"]["chunks"]):
        print("--- chunk %d\n%s" % (i + 1, s))
    print(json.dumps(c["session"]["observed"], indent=1)[:3000])
    return 0

#!/usr/bin/env python3
"""Print the markdown table of independent seeded changes (seeded/<id>/meta.json) for DESIGN.md 0.6."""
import json, os, re
root = os.path.join(os.path.dirname(os.path.dirname(os.path.abspath(__file__))), "seeded")
import sys, io
_buf = io.StringIO()
_out = sys.stdout
sys.stdout = _buf
print("| seed | site of the change | needs, to manifest | first run | now caught by |")
print("|---|---|---|---|---|")
for d in sorted(os.listdir(root)):
    mp = os.path.join(root, d, "meta.json")
    if not os.path.exists(mp):
        continue
    m = json.load(open(mp))
    patch = open(os.path.join(root, d, "patch.diff")).read()
    files = sorted(set(re.findall(r"^\+\+\+ b/(\S+)", patch, re.M)))
    needs = m.get("needs") or json.load(open(os.path.join(root, "needs.json"))).get(d, "")
    hist = m.get("history", [])
    first = hist[0] if hist else {"caught_by": m.get("caught_by")}
    fc = ", ".join(first.get("caught_by") or []) or "missed"
    now = ", ".join(m.get("caught_by") or []) or "**missed**"
    print("| %s%s | %s | %s | %s | %s |" % (d, "" if m.get("confirmed") else (" (not kept: an existing test fails with it)" if m.get("rejected") else " (not re-confirmed)"), ", ".join("`%s`" % f.split("/")[-1] for f in files), needs, fc, now))

sys.stdout = _out
table = _buf.getvalue().strip()
if "--update" in sys.argv:
    dp = os.path.join(os.path.dirname(root), "DESIGN.md")
    s = open(dp).read()
    a, b = s.index("<!-- SEEDTABLE-BEGIN -->"), s.index("<!-- SEEDTABLE-END -->")
    open(dp, "w").write(s[:a] + "<!-- SEEDTABLE-BEGIN -->\n" + table + "\n" + s[b:])
else:
    print(table)

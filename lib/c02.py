"""C02 -- compile-time optimisation never changes what a program does.

Sem.tla has no optimiser: its transcript / failure is what EVERY configuration must produce.
For each generated program P (generator biased to what the optimiser looks at: constant
conditions, foldable operations that fail in taken / untaken / uncalled code, small inlinable
functions with constant / possibly-unassigned arguments, module variables assigned once vs twice,
short-circuits around failing operands, discarded expression statements with effects, type()/len()
of constants) the harness runs
  plain   P
  opaque  Opaque(P): constants fetched from a list bound by a prelude, callees and method receivers
          routed through a one-element list (the specification-defined rewrite; TLC judges Opaque(P)
          against Sem(Opaque(P)) and python checks Sem(P) = Sem(Opaque(P)), so a rewrite that does not
          preserve meaning is caught on the specification side and never blamed on the code)
  frozen  P's functions defined in module A, frozen, and main() called through load() from module B
          (where inlining and the re-optimisation at freeze act)
Every record is judged by Trace_Sem.tla; the three error messages must be identical text.
"""
import collections
import json
import os
import time

import common as C
import semlib as S

PROP = "C02"


def run(tier):
    t0 = time.time()
    wd = C.workdir("c02")
    C.build_harness()
    verdict = C.Verdict(PROP)
    # many short programs: a program stops at its first failure, and the optimiser-aimed families fail on purpose
    n, stmts = (900, 4) if tier == "quick" else (14000, 5)
    tp = os.path.join(wd, "opt.ndjson")
    _, out, _ = C.run_vh(["record", "opt", tp, "--seed", str(C.seed()), "--n", str(n), "--stmts", str(stmts)])
    meta = json.loads(out.strip().splitlines()[-1])
    rows = C.ndjson_read(tp)
    stats, bad, states = S.judge_rows(rows, wd, "c02", chunks=8 if tier == "quick" else 32)
    by = {r["id"]: r for r in rows}
    groups = collections.defaultdict(dict)
    for r in rows:
        p, v = r["id"].rsplit("-", 1)
        groups[p][v] = r
    # Sem(P) vs Sem(Opaque(P)) for the programs involved in a disagreement, and a sample of the rest
    need = {b.rsplit("-", 1)[0] for b in bad}
    sample_ps = list(groups)[: 60 if tier == "quick" else 400]
    to_explain = []
    for p in set(sample_ps) | need:
        for v in ("plain", "opaque"):
            if v in groups[p]:
                to_explain.append(groups[p][v])
    ex = S.explain(to_explain, wd) if to_explain else {}
    rewrite_bad = 0
    for p in set(sample_ps) | need:
        a, b = ex.get(p + "-plain"), ex.get(p + "-opaque")
        if a and b and (json.dumps(a["out"], sort_keys=True) != json.dumps(b["out"], sort_keys=True) or a["err"] != b["err"]):
            rewrite_bad += 1
    if rewrite_bad:
        raise C.ToolError("the opacifying rewrite is not semantics-preserving on %d programs (specification-side defect)" % rewrite_bad)
    for b in bad[:60]:
        row = by[b]
        variant = b.rsplit("-", 1)[1]
        sem = ex.get(b) or ex.get(b.rsplit("-", 1)[0] + "-plain")
        kind = "panic" if row["err"]["kind"] == "panic" else "outcome" if (sem and sem["err"]["kind"] != row["err"]["kind"]) else "transcript_or_line"
        verdict.disagree({"variant": variant, "what": kind, "sem": (sem or {}).get("err", {}).get("kind", "?") or "ok", "real": row["err"]["kind"] or "ok"},
                         {"program": S.slim(row), "sem": sem})
    msgdiff = 0
    for p, g in groups.items():
        msgs = {v: (r["err"]["kind"], r["msg"]) for v, r in g.items()}
        if len(set(msgs.values())) > 1 and not any((p + "-" + v) in bad for v in g):
            msgdiff += 1
            verdict.disagree({"variant": "/".join(sorted(g)), "what": "message"},
                             {"program": S.slim(g["plain"]), "messages": {v: m[1] for v, m in msgs.items()}})
    # X: ExprGen.tla -- every operation form x operand shapes, each case spelt with literals (what the
    # optimiser folds / specialises / executes speculatively), with variables, and mixed; each judged
    # by Sem.tla, and the spellings of one case must fail with the same message
    xs = S.exprgen("ExprGen_c02q.cfg" if tier == "quick" else "ExprGen_c02t.cfg", wd, "c02", verdict,
                   workers=8 if tier == "quick" else 14, compare_messages=True)
    judged = stats["n"] - stats["skipped"]
    if judged < len(rows) // 2 or meta["frozen_variants"] < n // 10:
        raise C.ToolError("vacuous: judged %d of %d records, %d frozen variants" % (judged, len(rows), meta["frozen_variants"]))
    rc = verdict.finish()
    g0 = groups[sample_ps[0]]
    C.write_evidence(PROP, tier, "model_checking", {
        "states": states + xs["states"], "transitions": states + xs["states"],
        "traces_validated_against_impl": judged + xs["cases"] - xs["skipped"],
        "exprgen": {k: xs[k] for k in ("sessions", "cases", "skipped", "bad", "forms", "kinds", "message_groups", "message_differences")},
        "samples": [{v: {"src": r["src"], "err": r["err"]} for v, r in g0.items() if v != "frozen"}],
        "evaluations": len(rows),
        "distinct_nontrivial": sum(1 for p, g in groups.items() if len(g) >= 2 and g["plain"]["out"]),
        "rule": "%d programs from the optimiser-biased generator x {plain, opaque, frozen-and-loaded}; each record judged by TLC "
                "against Sem.tla; error messages compared across variants; non-trivial = program with >= 2 variants and >= 1 emitted value" % n,
        "programs": len(groups), "variants": {v: sum(1 for g in groups.values() if v in g) for v in ("plain", "opaque", "frozen")},
        "failing_programs": sum(1 for g in groups.values() if g["plain"]["err"]["kind"]),
        "rewrite_checked_on": len(set(sample_ps) | need), "message_differences": msgdiff,
        "skipped_outside_sem_domain": stats["skipped"],
        "sem_layer": "1 + 2 (f-strings, % and .format, every string method, sets, struct, getattr, bit operators; records, enums and "
                     "type annotations are not yet in Sem: that part of the full dialect is not covered)",
    }, time.time() - t0, len(verdict.violations),
        assumptions=["Sem.tla is the reference", "Opaque(P) is defined in harness/src/engines/sem/mod.rs::opacify and checked per run to "
                     "preserve Sem's meaning", "error messages are compared as text between variants, never against a constant"])
    return rc


def replay(path):
    d = json.load(open(path))
    c = d["case"]
    print(c["program"]["src"])
    print(json.dumps({k: c.get(k) for k in ("sem", "messages")}, indent=1)[:3000])
    print("observed:", json.dumps(c["program"].get("err")), c["program"].get("msg"))
    return 0

#!/usr/bin/env python3
"""Regenerates MANIFEST.json from the table below (single source of truth for the interface)."""
import json
import os

HERE = os.path.dirname(os.path.dirname(os.path.abspath(__file__)))

CHECKS = {}
for f in sorted(os.listdir(os.path.join(HERE, "lib", "checks"))):
    if f.endswith(".json"):
        CHECKS[f[:-5]] = json.load(open(os.path.join(HERE, "lib", "checks", f)))

# reasons for properties not (yet) claimed: lib/not_applicable.json {"Cxx": "reason"}
NOT_YET = json.load(open(os.path.join(HERE, "lib", "not_applicable.json")))


def main():
    props = [json.loads(l) for l in open(os.path.join(HERE, "properties.jsonl"))]
    checks = []
    na = []
    for p in props:
        pid = p["id"]
        if pid in CHECKS:
            c = CHECKS[pid]
            checks.append({
                "property_id": pid,
                "quick_cmd": "./check %s --tier quick" % pid,
                "thorough_cmd": "./check %s --tier thorough" % pid,
                "evidence_file": "/verif/evidence/%s.json" % pid,
                "replay_cmd_template": "./check %s --replay {path}" % pid,
                "engine": "vh+tlc",
                "level_claimed": {"category": c.get("category", "model_checking"), "text": c["text"],
                                  "design_ref": "DESIGN.md section " + c["design_ref"]},
                "level_note": c["note"],
                "technique": c["technique"],
            })
        else:
            na.append({"property_id": pid, "reason": NOT_YET.get(pid, "check not built yet in this round (planned: see DESIGN.md section 5); not claimed")})
    m = {
        "version": 1,
        "setup_cmd": "./check setup",
        "hooks": {
            "guard": "starlark_verif",
            "enable": "harness/.cargo/config.toml sets rustflags --cfg starlark_verif; the harness has path dependencies on /repo, so every check rebuilds /repo's working tree with hooks on",
            "baseline_off_cmd": "cd /repo && cargo nextest run --workspace --no-fail-fast --tool-config-file pb:/w/lib/nextest.toml --profile pb --test-threads 8 --offline",
            "source_commits": json.load(open(os.path.join(HERE, "lib", "hook_commits.json"))),
            "add_only": True,
        },
        "engines": [
            {"name": "vh", "path": "/verif/harness", "serves_properties": sorted(CHECKS),
             "kind_free_text": "Rust harness: replays TLC-generated cases on the real crates and records traces for TLC"},
            {"name": "tlc", "path": "/verif/spec", "serves_properties": sorted(CHECKS),
             "kind_free_text": "TLA+ specification library; TLC model checking, case generation and trace validation"},
        ],
        "checks": checks,
        "not_applicable": na,
        "notes": "Driver: ./check <ID> --tier quick|thorough [--replay P]; exit 0 held / 1 VIOLATION / 2 tool error. "
                 "Known findings: known_findings.json.",
    }
    json.dump(m, open(os.path.join(HERE, "MANIFEST.json"), "w"), indent=1)


if __name__ == "__main__":
    main()

#!/usr/bin/env python3
"""seed_confirm.py <ID> [check ids...]: confirm a seeded change produced by an independent sub-agent
(/tmp/seed_<ID>_out: patch.diff, demo/, notes.md; worktree /tmp/seed_<ID>) and run our checks against it.
Writes /verif/seeded/<ID>/{patch.diff, demo/, notes.md, meta.json}."""
import json, os, shutil, subprocess, sys, time
pid = sys.argv[1]
checks = sys.argv[2:] or [pid]
tag = os.environ.get("SEED_TAG", pid)
wt, out = "/tmp/seed_%s" % tag, "/tmp/seed_%s_out" % tag
dst = "/verif/seeded/%s" % tag
os.makedirs(dst, exist_ok=True)
shutil.copy(os.path.join(out, "patch.diff"), os.path.join(dst, "patch.diff"))
if os.path.exists(os.path.join(out, "notes.md")):
    shutil.copy(os.path.join(out, "notes.md"), os.path.join(dst, "notes.md"))
if os.path.isdir(os.path.join(out, "demo")):
    shutil.rmtree(os.path.join(dst, "demo"), ignore_errors=True)
    shutil.copytree(os.path.join(out, "demo"), os.path.join(dst, "demo"))
readme = open(os.path.join(out, "demo", "README.txt")).read() if os.path.exists(os.path.join(out, "demo", "README.txt")) else ""
import re
_m = re.search(r"(cargo test [^\n()]*--offline)", readme)
democmd = os.environ.get("DEMO_CMD") or (_m.group(1).strip() if _m else None)
meta = {"property": pid, "demo_cmd": democmd, "ran": []}
RECHECK = os.environ.get("SEED_RECHECK") and os.path.exists(os.path.join(dst, "meta.json"))
if RECHECK:
    # the change was confirmed before: keep that record, only run the (newer) checks against it again
    meta = json.load(open(os.path.join(dst, "meta.json")))
    meta.setdefault("history", []).append({"when": meta.get("when"), "checks": meta.get("checks"), "caught_by": meta.get("caught_by")})
def sh(cmd, cwd, timeout=3600):
    p = subprocess.run(cmd, shell=True, cwd=cwd, stdout=subprocess.PIPE, stderr=subprocess.STDOUT, text=True, timeout=timeout)
    return p.returncode, p.stdout
if not RECHECK:
    # make sure the patch is applied in the agent's worktree
    rc, d = sh("git diff --stat -- . ':!*/tests/seed_*'", wt)
    applied = "file" in d or "changed" in d
    if not applied:
        rc, o = sh("git apply %s" % os.path.join(dst, "patch.diff"), wt)
    crate = os.environ.get("SEED_CRATE", "starlark")
    if democmd:
        rc1, o1 = sh(democmd, wt)
        meta["demo_with_change"] = {"rc": rc1, "tail": o1[-600:]}
    rc2, o2 = (0, os.environ["LIB_RESULT"]) if os.environ.get("LIB_RESULT") else sh("cargo test -p %s --lib --offline 2>&1 | grep -E 'test result|FAILED|failed' | head -5" % crate, wt)
    meta["lib_tests_with_change"] = o2.strip()
    rcr, orr = sh("git apply -R %s" % os.path.join(dst, "patch.diff"), wt)
    if democmd:
        rc3, o3 = sh(democmd, wt)
        meta["demo_without_change"] = {"rc": rc3, "tail": o3[-300:]}
    sh("git apply %s" % os.path.join(dst, "patch.diff"), wt)
    meta["confirmed"] = bool(democmd) and meta["demo_with_change"]["rc"] != 0 and meta["demo_without_change"]["rc"] == 0 and "ok." in meta["lib_tests_with_change"] and "FAILED" not in meta["lib_tests_with_change"]
# our checks against it
res = {}
for c in checks:
    bins = os.environ.get("SEED_BINS", "vh").split()
    p = subprocess.run(["python3", os.path.join(os.environ.get("VERIF_SNAP", "/verif"), "lib/mut.py"), c, os.path.join(dst, "patch.diff")] + bins, stdout=subprocess.PIPE, stderr=subprocess.STDOUT, text=True)
    lines = [l for l in p.stdout.splitlines() if l.startswith(("VIOLATION", "KNOWN-FINDING", "check exit code", "TOOL ERROR")) or "does not" in l]
    res[c] = {"exit": next((l for l in lines if l.startswith("check exit code")), "?"), "violations": sum(1 for l in lines if l.startswith("VIOLATION")),
              "first": [l for l in lines if l.startswith("VIOLATION")][:2], "other": [l for l in lines if not l.startswith("VIOLATION")][:6]}
try:
    meta.setdefault("needs", json.load(open("/verif/seeded/needs.json")).get(tag, ""))
except Exception:
    pass
meta["checks"] = res
meta["caught_by"] = [c for c, r in res.items() if r["violations"] > 0]
meta["when"] = time.strftime("%Y-%m-%d %H:%M")
json.dump(meta, open(os.path.join(dst, "meta.json"), "w"), indent=1)
print(json.dumps(meta, indent=1))

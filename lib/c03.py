"""C03 -- garbage collection is invisible and never loses or corrupts a live value.

M: HeapCopy.tla -- the two-space copying algorithm of docs/gc.md step by step, every object graph
   with N objects / F fields / R roots: isomorphism on the reachable graph, copied at most once,
   nothing dangling into the dropped space.  GcSched.tla -- the schedule space.
G: programs building cyclic / aliased / shared structures, closures, host-set variables and
   extra_value; Sem.tla gives THE transcript (collection does not exist in Sem); the harness runs
   each program under never / default / every k-th / every TLC-chosen subset of its safepoints,
   collections forced through the hook, the old arena poisoned before release.  Every run must
   produce Sem's transcript and outcome.  A crash of the child process is an observation.
"""
import json
import os
import time

import common as C
import semlib as S

PROP = "C03"


def run(tier):
    t0 = time.time()
    wd = C.workdir("c03")
    C.build_harness()
    verdict = C.Verdict(PROP)
    # M
    hc = [C.run_tlc("HeapCopy", "MC_HeapCopy_q.cfg", workers=6, timeout=1500)]
    if tier == "thorough":
        hc.append(C.run_tlc("HeapCopy", "MC_HeapCopy_t1.cfg", workers=12, timeout=3000, xmx="16g"))
        hc.append(C.run_tlc("HeapCopy", "MC_HeapCopy_t2.cfg", workers=12, timeout=3000, xmx="16g"))
    for m in hc:
        if m.violation:
            raise C.ToolError("HeapCopy violates its invariant: %s" % m.violation)
        C.require_coverage(m, ["StartRoot", "TraceField", "Fill", "DropFrom"], "HeapCopy")
    # programs + Sem's transcript
    nprog, stmts = (40, 8) if tier == "quick" else (400, 12)
    tp = os.path.join(wd, "progs.ndjson")
    _, out, _ = C.run_vh(["record", "gcprog", tp, "--seed", str(C.seed()), "--n", str(nprog), "--stmts", str(stmts)])
    rows = C.ndjson_read(tp)
    # the run without any collection is judged by TLC against Sem (Trace_Sem); Sem's result is then
    # the expectation for every other schedule of the same program
    stats, bad, states = S.judge_rows(rows, wd, "c03", chunks=8)
    byid = {r["id"]: r for r in rows}
    if bad:
        ex = S.explain([byid[b] for b in bad[:10]], wd)
        for b in bad[:10]:
            verdict.disagree({"what": "no_gc_run_differs_from_sem", "sched": "never"}, {"program": S.slim(byid[b]), "sem": ex.get(b)})
    sem = S.explain([r for r in rows if r["id"] not in bad], wd)
    good = [r for r in rows if r["id"] in sem and sem[r["id"]]["err"]["kind"] != "spec_domain"]
    if len(good) < nprog // 2:
        raise C.ToolError("too few programs inside Sem's domain: %d of %d" % (len(good), nprog))
    maxn = max(r["safepoints"] for r in good)
    sch = C.run_tlc("GcSched", "GcSched.cfg", workers=1, env={"MAXN": str(max(maxn, 1))}, tlc_seed=C.seed(), coverage=False)
    scheds = {}
    for x in C.tlc_prints(sch.out, "SCHED"):
        d = json.loads(x)
        scheds.setdefault(d["n"], []).append(d["at"])
    cases = []
    for r in good:
        n = r["safepoints"]
        names = ["never", "default", "every:1", "every:2", "every:3", "every:5"]
        names += ["at:" + ",".join(map(str, a)) for a in scheds.get(n, []) if a]
        for s in names:
            cases.append({"id": r["id"], "sched": s, "src": r["src"]})
    cp, op, pp = os.path.join(wd, "cases.ndjson"), os.path.join(wd, "out.ndjson"), os.path.join(wd, "progress")
    outs = []
    todo = cases
    crashes = 0
    while todo:
        C.ndjson_write(cp, todo)
        if os.path.exists(op):
            os.remove(op)
        rc, _, err = C.run_vh(["replay", "gc", cp, op, "--progress", pp], check=False, timeout=3000)
        got = C.ndjson_read(op) if os.path.exists(op) else []
        outs += got
        if rc == 0:
            break
        # the child died (signal/abort): the case in the progress file is the culprit
        culprit = todo[len(got)] if len(got) < len(todo) else None
        crashes += 1
        if culprit is not None:
            verdict.disagree({"what": "crash", "sched": culprit["sched"].split(":")[0]},
                             {"program": {"id": culprit["id"], "src": culprit["src"]}, "sched": culprit["sched"], "rc": rc, "stderr": err[-800:]})
        todo = todo[len(got) + 1:]
        if crashes > 20:
            break
    collections = 0
    nontrivial = set()
    for o in outs:
        e = sem[o["id"]]
        collections += o["collections"] if o["sched"] != "default" else len(o["gcs"])
        if o["collections"] or o["gcs"]:
            nontrivial.add((o["id"], o["sched"]))
        cls = {"sched": o["sched"].split(":")[0]}
        case = {"program": {"id": o["id"], "src": byid[o["id"]]["src"]}, "sched": o["sched"], "sem": e, "observed": {k: o[k] for k in ("out", "err", "msg")}}
        if o["err"]["kind"] == "panic":
            verdict.disagree(dict(cls, what="panic"), case)
        elif o["err"]["kind"] != e["err"]["kind"] or (e["err"]["kind"] and o["err"]["line"] != e["err"]["line"]):
            verdict.disagree(dict(cls, what="outcome", sem=e["err"]["kind"] or "ok", real=o["err"]["kind"] or "ok"), case)
        elif json.dumps(o["out"], sort_keys=True) != json.dumps(e["out"], sort_keys=True):
            verdict.disagree(dict(cls, what="transcript"), case)
        else:
            # a collection never makes the heap larger than it was
            for before, after in o["gcs"]:
                if after > before:
                    verdict.disagree(dict(cls, what="heap_grew_in_gc"), dict(case, gc=[before, after]))
                    break
    if collections < 50:
        raise C.ToolError("vacuous: only %d collections happened" % collections)
    rc = verdict.finish()
    s = good[0]
    C.write_evidence(PROP, tier, "model_checking", {
        "states": sum(m.distinct for m in hc) + sch.distinct, "transitions": sum(m.transitions for m in hc) + sch.transitions,
        "traces_validated_against_impl": len(outs),
        "samples": [{"src": s["src"], "schedules": [c["sched"] for c in cases if c["id"] == s["id"]][:12], "sem": sem[s["id"]]["err"]}],
        "evaluations": len(outs), "distinct_nontrivial": len(nontrivial),
        "rule": "programs from the GC-flavoured generator (cycles, aliasing, shared sub-structures, closures, host-set variable and "
                "extra_value, garbage, top-level if) x schedules {never, default, every 1/2/3/5, all subsets of safepoints when <= 5 "
                "else TLC-random subsets}; non-trivial = run in which at least one collection happened",
        "programs": len(good), "schedules_per_program_avg": round(len(cases) / max(1, len(good)), 1),
        "forced_collections": collections, "child_crashes": crashes,
        "heapcopy_model": [{"cfg": i, "states": m.distinct} for i, m in enumerate(hc)],
    }, time.time() - t0, len(verdict.violations),
        assumptions=["Sem.tla is the reference transcript", "collections can only happen at the safepoints the evaluator offers "
                     "(possible_gc); the hook forces/suppresses them there", "released arenas are overwritten with 0xA5 so a missed "
                     "root shows up as a wrong value, an error or a crash"])
    return rc


def replay(path):
    d = json.load(open(path))
    c = d["case"]
    print(c["program"]["src"])
    wd = C.workdir("c03_replay")
    cp, op = os.path.join(wd, "c.ndjson"), os.path.join(wd, "o.ndjson")
    C.ndjson_write(cp, [{"id": c["program"]["id"], "sched": c["sched"], "src": c["program"]["src"]}])
    rc, _, err = C.run_vh(["replay", "gc", cp, op], check=False)
    got = C.ndjson_read(op) if os.path.exists(op) else []
    print("sched", c["sched"], "rc", rc, json.dumps(got)[:2000])
    sem = c.get("sem")
    if rc != 0 or not got or (sem and (json.dumps(got[0]["out"], sort_keys=True) != json.dumps(sem["out"], sort_keys=True)
                                        or got[0]["err"]["kind"] != sem["err"]["kind"])):
        print("VIOLATION property=%s replay=%s" % (PROP, path))
        return 1
    return 0

"""C05 -- parsing is total: any input yields an AST or a located error, never a crash.

Oracle (spec/Lex.tla, spec/Grammar.tla, spec/Spans.tla, evaluated by TLC):
G  every string of length <= 3 (quick) / <= 4 (thorough) over a 28-symbol character-class alphabet
   (blank, tab, LF, CR, #, brackets, quotes, backslash, a f r b 0 1 . , : = + -, one 2-byte and one
   4-byte character): Lex.tla predicts lexical verdict, token kinds with byte spans, and -- through
   Grammar!ParseFile on the token kinds -- whether the file parses. The harness runs the real lexer
   and AstModule::parse under four dialects. Compared: tokens (kinds, byte spans of non-layout
   tokens), accept/reject under the Standard dialect; a lexical error of the specification must at
   least be a rejection. Inputs the language rules leave open (tab outside strings, lone CR,
   undefined escapes, f-prefix) are judged only for totality.
G  directed: base modules x the byte-level mutation catalogue printed by the specification, at every
   byte position (sampled down to a budget); nesting templates at depth 200; a seeded soup of random
   bytes / token soup up to 4 KiB. Oracle for these: no panic/abort/hang + V.
V  every parse result is dumped as records (span tree with kind, begin, end, parent and the text of
   identifier/literal leaves; span of every syntax error; acceptance and tree class under the dialect
   chain Standard <= C06 <= Extended <= AllOptionsInternal) and Trace_Spans.tla judges
   Spans!WellFormed (in bounds, on char boundaries, child inside parent, leaves cover their text,
   DialectMonotone) on every record.
Batches run in a child process (parser on a thread with an 8 MiB stack): an abort is an observation.
"""
import json
import os
import re
import subprocess
import time

import common as C
import c06 as C06

PROP = "C05"
BIN = "vh_c05"
SYM = {"U2": "\u00a7", "U4": "\U0001d11e", "KIF": "if", "KELSE": "else", "KPASS": "pass", "KDEF": "def"}
LAYOUT = ("NEWLINE", "INDENT", "DEDENT")
# lexical errors that the lexer itself must report (for the others -- unbalanced closing bracket,
# number immediately followed by a letter -- delivering tokens and letting the parser reject is fine)
STRICT_LEX_ERRORS = ("dedent", "unterminated_string", "stray_backslash", "illegal_character", "leading_zero")
C06_FORMS = ("bare_tuple_stmt", "index_bare_tuple3", "for_in_bare_tuple")

BASES = [
    "def f(a, b=1, *c, **d):\n    if a:\n        return [x for x in b if x]\n    elif b:\n        pass\n    else:\n"
    "        for i, j in d.items():\n            a += i\n    return {a: b, 'k': (c, d)}\n\nx = f(1, b=2, *[3], **{})\n",
    "x = \"a\\n\\\"b\" + 'c' + r\"d\\e\" + b'f' + \"\"\"g\nh\"\"\"\ny = (1 +\n     2) * [\n  3,\n][0]\nz = x \\\n  + y  # comment\n",
    "load('m.star', 'a', b = 'c')\n# leading comment\n\nif a:\n  b = lambda x, *y: x if y else -x\n\n\n  c = not b in a\n",
    "s = f\"{a} and {b!r} {{}}\"\nt: int = 1\ndef g(p: str, /, q, *, r: list[int] = []) -> None: ...\n",
    "a = [\n    1,\n    2,\n]\nb = {\n    'k': a[1:2],\n    'j': a[::2],\n}\nc = a.b(c)[d].e\n",
    "x = '\u00e9\U0001d11e' + \"\u00a7\"\n\u00e9 = 1\n",
    "for x in y:\r\n    if x: continue\r\n    break\r\n",
    # string / bytes corner cases: escapes next to the closing quotes, continuation inside strings
    'x = f"\\x\u00e9"\n', 'x = "\\x\u00e9"\n', 'x = b"\\x\u00e9"\n', 'x = f"\\u12\U0001d11e{a}"\n',
    'x = """\\\n"""\n',
    "x = '''\\\n'''\n",
    'x = """a\\\n"""\n',
    'x = """\\"""""\n',
    "x = '''\r\n'''\n",
    'x = b"""\\\n"""\n',
    'x = "\\\n"\n',
    "x = '\\\r\n'\n",
    'x = r"""\\\\"""\n',
    'x = """\\\\"""\n',
    'x = """\r"""\n',
    'x = "\\x41\\u00e9\\U0001d11e\\101\\0"\n',
    'x = b"\\xff\\377"\n',
    'x = f"""{a}\\\n"""\n',
    'x = f\'{a!r}\' \'b\' "c"\n',
]


def text_of(syms):
    return "".join(SYM.get(c, c) for c in syms)


def normalise(toks):
    out = []
    for t in toks:
        if t[0] == "NEWLINE" and (not out or out[-1][0] == "NEWLINE"):
            continue
        out.append(t)
    return out


def run_child(args, timeout):
    """Run vh_c05 as a child process. Returns (rc, stderr, hang)."""
    vh = C.build_harness(BIN)
    e = dict(os.environ)
    e.setdefault("RUST_BACKTRACE", "0")
    e.setdefault("RUST_MIN_STACK", str(64 * 1024 * 1024))
    try:
        p = subprocess.run([vh] + args, stdout=subprocess.PIPE, stderr=subprocess.PIPE, text=True, timeout=timeout, env=e)
        return p.returncode, p.stderr, False
    except subprocess.TimeoutExpired:
        return -9, "timeout", True


def read_rows(path):
    rows = []
    if os.path.exists(path):
        for l in open(path):
            l = l.strip()
            if not l:
                continue
            try:
                rows.append(json.loads(l))
            except ValueError:
                pass       # a line cut by an abort
    return rows


def child_batch(verdict, args, outp, gen, timeout):
    """Run one batch; an abort or hang of the child is a disagreement attributed to the input in <out>.cur"""
    rc, err, hang = run_child(args, timeout)
    rows = read_rows(outp)
    if rc not in (0,):
        if rc == 2:
            raise C.ToolError("vh_c05 %s failed: %s" % (args[0], err[-800:]))
        cur = None
        if os.path.exists(outp + ".cur"):
            try:
                cur = json.load(open(outp + ".cur"))
            except ValueError:
                cur = None
        verdict.disagree({"kind": "hang" if hang else "panic", "gen": gen, "how": "process_abort"},
                         {"gen": gen, "input": cur, "rc": rc, "stderr": err[-600:]})
    return rows


def collect(verdict, rows, recs, counters):
    """panics are disagreements; span/mono records are queued for TLC"""
    for r in rows:
        counters["inputs"] += 1
        if r.get("panic"):
            verdict.disagree({"kind": "panic", "gen": r.get("gen"), "how": "panic"},
                             {"gen": r.get("gen"), "id": r.get("id"), "src": r.get("src"), "panic": r["panic"],
                              "mutation": r.get("mutation")})
        if any(r.get("acc", [])):
            counters["parsed"] += 1
        for rec in r.get("recs", []):
            counters["rec_" + rec["t"]] = counters.get("rec_" + rec["t"], 0) + 1
            if rec["t"] == "mono" and any(rec["acc"]) and not all(rec["acc"]):
                counters["mono_nontrivial"] = counters.get("mono_nontrivial", 0) + 1
            key = json.dumps({k: v for k, v in rec.items() if k != "id"}, sort_keys=True)
            if key in recs:
                continue
            rec["gen"] = r.get("gen")
            if "src" in r and len(r["src"]) <= 400:
                rec["src"] = r["src"]
            recs[key] = rec


def judge_records(verdict, recs, wd, srcs):
    """V: TLC judges every distinct record with Spans!WellFormed; returns (n_distinct, states)."""
    distinct = list(recs.values())
    tp = os.path.join(wd, "spans_trace.ndjson")
    C.ndjson_write(tp, [{k: v for k, v in r.items() if k not in ("gen", "src")} for r in distinct])
    tr = C.run_tlc("Trace_Spans", "Trace_Spans.cfg", workers=1, dfs=True, env={"TRACE": tp}, timeout=2400,
                   coverage=False, require_ok=False, xmx="8g")
    if not tr.ok:
        C.log(tr.out[-3000:])
        raise C.ToolError("Trace_Spans did not consume all %d records" % len(distinct))
    for b in C06.prints(tr.out, "BADREC"):
        bad = distinct[b["at"] - 1]
        why = b["why"]
        src = bad.get("src") or srcs.get(str(bad.get("id")))
        offending = first_bad_node(bad, why) if bad["t"] == "tree" else None
        verdict.disagree({"kind": why, "gen": bad.get("gen"), "node": (offending or {}).get("k", bad["t"]),
                          "ctx": bad.get("err", {}).get("ctx", "")},
                         {"gen": bad.get("gen"), "id": bad.get("id"), "src": src, "record": trim(bad), "node": offending})
    return len(distinct), tr.distinct


def trim(rec):
    r = dict(rec)
    if "nodes" in r and len(r["nodes"]) > 40:
        r["nodes"] = r["nodes"][:40]
    return r


def first_bad_node(rec, why):
    """locate (for the replay file only) a node that breaks the clause TLC named"""
    nb = set(rec["nb"])
    for j, nd in enumerate(rec["nodes"]):
        if why == "span_out_of_bounds" and not (0 <= nd["b"] <= nd["e"] <= rec["len"]):
            return nd
        if why == "not_char_boundary" and (nd["b"] in nb or nd["e"] in nb):
            return nd
        if why == "span_not_nested" and nd["p"] != 0:
            p = rec["nodes"][nd["p"] - 1]
            if not (p["b"] <= nd["b"] and nd["e"] <= p["e"]):
                return dict(nd, parent=p)
        if why == "span_text" and nd.get("chk") == "ident" and nd.get("text") != nd.get("name"):
            return nd
    for nd in rec["nodes"]:
        if why == "span_text" and nd.get("chk") not in ("", "ident", None):
            return nd
    return None


def tlc_lexspace(tier):
    cfg = "Gen_Lex_4.cfg" if tier == "thorough" else "Gen_Lex_3.cfg"
    cache = os.environ.get("VERIF_C05_TLC_CACHE")
    if cache and os.path.exists(cache + "." + tier):
        r = C.TlcResult()
        r.out = open(cache + "." + tier).read()
        m = re.search(r"(\d+) states generated, (\d+) distinct states found", r.out)
        r.states, r.distinct = int(m.group(1)), int(m.group(2))
        r.transitions = r.states
        return r
    r = C.run_tlc("Gen_Lex", cfg, workers=16 if tier == "thorough" else 8, timeout=3000, xmx="12g", coverage=False)
    if cache:
        open(cache + "." + tier, "w").write(r.out)
    return r


def run(tier):
    t0 = time.time()
    wd = C.workdir("c05")
    C.build_harness(BIN)
    verdict = C.Verdict(PROP)
    recs = {}
    counters = {"inputs": 0, "parsed": 0}
    srcs = {}

    # ---------------- G: the whole small-scope string space
    r = tlc_lexspace(tier)
    cases = C06.prints(r.out, "L")
    muts = C06.prints(r.out, "MUT")
    n = 4 if tier == "thorough" else 3
    ni = 6
    ml, mw = (5, 5) if tier == "thorough" else (4, 4)
    # shapes: sequences of k <= ml lines, each (mw + 1) widths; every line but the last ends in LF, the last may not
    shapes = 1 + sum((mw + 1) ** k + (mw + 1) ** k for k in range(1, ml + 1)) - 0
    gl, gw = (5, 4) if tier == "thorough" else (4, 4)
    gshapes = sum((2 * (gw + 1)) ** k for k in range(gl + 1))
    space = sum(28 ** j for j in range(n + 1)) + sum(6 ** j for j in range(ni + 1)) + shapes + gshapes
    if len(cases) != space or r.distinct != space + 1 or len(muts) != 1:
        raise C.ToolError("Gen_Lex: %d cases / %d states for a space of %d" % (len(cases), r.distinct, space))
    C.log("[C05] TLC lexed %d strings in %.0fs" % (len(cases), r.wall))
    stats = {"ok": 0, "err": 0, "unspec": 0, "accept": 0}
    rows = []
    for i, c in enumerate(cases):
        src = text_of(c["s"])
        rows.append({"id": i, "src": src, "gen": "lexspace"})
    cp = os.path.join(wd, "lex_cases.ndjson")
    op = os.path.join(wd, "lex_out.ndjson")
    C.ndjson_write(cp, rows)
    outs = child_batch(verdict, ["run", cp, op, "--lex", "1"], op, "lexspace", 3000)
    if len(outs) < len(rows) and not verdict.violations and not verdict.known:
        raise C.ToolError("vh_c05 produced %d of %d rows" % (len(outs), len(rows)))
    byid = {o["id"]: o for o in outs}
    lex_compared = lex_mismatch = deferred = 0
    samples = []
    for i, c in enumerate(cases):
        o = byid.get(i)
        if o is None:
            continue
        src = rows[i]["src"]
        o["src"] = src
        srcs[str(i)] = src
        real = o.get("lex", {})
        def mis(what, sub):
            verdict.disagree({"kind": what, "gen": "lexspace", "how": sub},
                             {"gen": "lexspace", "src": src, "symbols": c["s"],
                              "expect": {"lex": c["st"], "tokens": c["toks"], "parse": c["p"]},
                              "observed": {"lex": real, "accepted_standard": o["acc"][0]}})
        if real.get("st") == "panic":
            mis("panic", "lexer_panic")
        if c["un"]:
            stats["unspec"] += 1
            continue
        stats[c["st"]] += 1
        lex_compared += 1
        if c["st"] == "err":
            if o["acc"][0]:
                lex_mismatch += 1
                mis("lex_mismatch", "accepted_despite_lexical_error")
            elif c["why"] in STRICT_LEX_ERRORS and real.get("st") == "ok":
                lex_mismatch += 1
                mis("lex_mismatch", "lexer_missed_" + c["why"])
            continue
        exp = normalise(c["toks"])
        got = normalise(real.get("toks", []))
        same = real.get("st") == "ok" and len(exp) == len(got) and all(
            e[0] == g[0] and (e[0] in LAYOUT or (e[1] == g[1] and e[2] == g[2])) for e, g in zip(exp, got))
        if not same:
            lex_mismatch += 1
            mis("lex_mismatch", "tokens")
        elif c.get("form") in C06_FORMS:
            deferred += 1          # acceptance of these forms is C06's business (listed findings there)
        elif o["acc"][0] != (c["p"] == "accept"):
            lex_mismatch += 1
            mis("lex_mismatch", "parse_verdict")
        if c["p"] == "accept":
            stats["accept"] += 1
            if len(samples) < 2 and len(c["toks"]) >= 4:
                samples.append({"src": src, "expect_tokens": c["toks"], "observed": real})
    if not (stats["ok"] and stats["err"] and stats["unspec"] and stats["accept"]):
        raise C.ToolError("vacuous lexical space: %s" % stats)
    collect(verdict, outs, recs, counters)
    C.log("[C05] lexical space compared at %.0fs: %s, %d mismatches" % (time.time() - t0, stats, lex_mismatch))

    # ---------------- G directed: mutations of valid modules, chosen from the specification's catalogue
    cat = [{"op": m["op"], "arg": text_of([m["arg"]]) if m["arg"] in SYM else m["arg"]} for m in muts[0]]
    bases = [{"id": "base#%d" % i, "src": s} for i, s in enumerate(BASES + C06.EXT_TEMPLATES)]
    bp = os.path.join(wd, "bases.ndjson")
    catp = os.path.join(wd, "catalogue.json")
    C.ndjson_write(bp, bases)
    json.dump(cat, open(catp, "w"))
    mp = os.path.join(wd, "mut_out.ndjson")
    budget = 120000 if tier == "thorough" else 8000
    mrows = child_batch(verdict, ["mutate", bp, catp, mp, "--seed", str(C.seed()), "--budget", str(budget)], mp, "mutate", 3000)
    if len(mrows) < budget // 4:
        if not verdict.violations:
            raise C.ToolError("mutation generator produced only %d inputs" % len(mrows))
    for x in mrows:
        srcs[str(x["id"])] = x.get("src")
    collect(verdict, mrows, recs, counters)
    ops_seen = {x["mutation"]["op"] for x in mrows if "mutation" in x}
    if not {"delete", "duplicate", "swap", "truncate", "insert", "indent_shift"} <= ops_seen and not verdict.violations:
        raise C.ToolError("mutation operators not all exercised: %s" % ops_seen)
    # the bases themselves
    bo = os.path.join(wd, "bases_out.ndjson")
    brows = child_batch(verdict, ["run", bp, bo, "--mark", "1"], bo, "base", 600)
    for x, b in zip(brows, bases):
        x["src"] = b["src"]
        x["gen"] = "base"
    collect(verdict, brows, recs, counters)
    C.log("[C05] %d mutated inputs done at %.0fs" % (len(mrows), time.time() - t0))

    # ---------------- nesting depth 200
    np_ = os.path.join(wd, "nest_out.ndjson")
    nrows = child_batch(verdict, ["nest", np_, "--depth", "200", "--stack-mb", "8"], np_, "nest", 600)
    for x in nrows:
        srcs[str(x["id"])] = x.get("src")
    collect(verdict, nrows, recs, counters)
    nest_small_stack = None
    if tier == "thorough":
        # information only: does depth 200 fit a 2 MiB thread stack?
        np2 = os.path.join(wd, "nest2_out.ndjson")
        rc2, _, _ = run_child(["nest", np2, "--depth", "200", "--stack-mb", "2"], 600)
        nest_small_stack = (rc2 == 0)

    # ---------------- bounded seeded soup (oracle: no panic + WellFormed only)
    sp = os.path.join(wd, "soup_out.ndjson")
    nsoup = 30000 if tier == "thorough" else 3000
    srows = child_batch(verdict, ["soup", sp, "--seed", str(C.seed()), "--n", str(nsoup), "--max", "4096"], sp, "soup", 3000)
    for x in srows:
        srcs[str(x["id"])] = x.get("src")
    collect(verdict, srows, recs, counters)
    soup_bytes = sum(len(x.get("src", "").encode("utf-8")) for x in srows)
    C.log("[C05] nest + soup (%d inputs, %d bytes) done at %.0fs" % (len(srows), soup_bytes, time.time() - t0))

    # ---------------- V: Spans!WellFormed on every record, judged by TLC
    n_recs, vstates = judge_records(verdict, recs, wd, srcs)
    kinds = {t: counters.get("rec_" + t, 0) for t in ("tree", "err", "mono")}
    if not (kinds.get("tree") and kinds.get("err") and kinds.get("mono")):
        raise C.ToolError("vacuous span validation: %s" % kinds)
    mono_nontrivial = counters.get("mono_nontrivial", 0)

    summ = {}
    for cls, _case in verdict.violations:
        k = (cls.get("kind"), cls.get("gen"), cls.get("how") or cls.get("node"))
        summ[k] = summ.get(k, 0) + 1
    for k, v in sorted(summ.items(), key=lambda x: -x[1])[:30]:
        C.log("[C05] unexplained disagreement class %s: %d" % (k, v))
    rc = verdict.finish()
    C.write_evidence(PROP, tier, "model_checking", {
        "states": r.distinct + vstates, "transitions": r.transitions + vstates,
        "traces_validated_against_impl": counters["inputs"] + n_recs,
        "samples": samples[:2] + [{"mutation_catalogue_size": len(cat)}],
        "evaluations": counters["inputs"],
        "distinct_nontrivial": stats["accept"] + counters["parsed"],
        "rule": "G: every string over the 28-symbol alphabet up to length %d (and over {blank, LF, a, #, (, )} up to length 6) lexed by Lex.tla and parsed by Grammar.tla "
                "in TLC, compared with the real lexer (token kinds, byte spans) and AstModule::parse (Standard dialect); "
                "directed mutations / nesting 200 / soup judged for totality. V: every distinct span-tree / error-span / "
                "dialect-chain record judged by Spans!WellFormed in TLC. non-trivial = inputs that parse under at least "
                "one dialect (a span tree exists) + accepted small-scope strings" % n,
        "exhaustive": True,
        "lexical_space": dict(stats, size=space, compared=lex_compared, mismatches=lex_mismatch,
                              parse_verdict_deferred_to_C06=deferred),
        "inputs": counters, "mutated_inputs": len(mrows), "mutation_ops": sorted(ops_seen),
        "nest_depth": 200, "nest_templates": len(nrows), "nest_stack_mib": 8,
        "nest_depth_200_fits_2MiB_stack": nest_small_stack,
        "soup": {"inputs": len(srows), "bytes": soup_bytes, "max_len": 4096, "oracle": "no panic/abort + Spans!WellFormed"},
        "records_judged_by_tlc": {"total": sum(kinds.values()), "distinct": n_recs, "by_type": kinds},
        "dialect_chain": ["Standard", "C06", "Extended", "AllOptionsInternal"],
        "dialect_monotone_nontrivial_records": mono_nontrivial,
    }, time.time() - t0, len(verdict.violations),
        assumptions=["TLC/SANY", "harness AST walker (harness/src/bin/vh_c06.rs) chooses each node's parent; "
                     "lib/c05.py token normalisation (repeated NEWLINE dropped, layout-token spans not compared)",
                     "tabs outside strings, lone CR, undefined escapes and f-prefixed strings are not judged at the "
                     "token level (only totality and spans)",
                     "64 KiB random inputs are not claimed: soup is bounded at 4 KiB and has no oracle beyond "
                     "no-panic + WellFormed"])
    return rc


def replay(path):
    d = json.load(open(path))
    case = d["case"]
    src = case.get("src")
    if src is None and case.get("input"):
        src = case["input"].get("src")
    if src is None:
        print(json.dumps(d, indent=1)[:4000])
        return 0
    wd = C.workdir("c05_replay")
    cp = os.path.join(wd, "case.ndjson")
    op = os.path.join(wd, "out.ndjson")
    C.ndjson_write(cp, [{"id": "r", "src": src, "gen": d["class"].get("gen", "replay")}])
    v = C.Verdict(PROP)
    rows = child_batch(v, ["run", cp, op, "--lex", "1", "--mark", "1"], op, d["class"].get("gen", "replay"), 300)
    recs = {}
    collect(v, rows, recs, {"inputs": 0, "parsed": 0})
    for r in rows:
        print(json.dumps({k: x for k, x in r.items() if k != "recs"})[:3000])
    if d["class"].get("kind") == "lex_mismatch" and rows:
        exp = case["expect"]
        real = rows[0].get("lex", {})
        got = normalise(real.get("toks", []))
        want = normalise(exp["tokens"])
        print("expected tokens:", want, "parse:", exp["parse"])
        print("observed tokens:", got, "accepted(Standard):", rows[0]["acc"][0])
        bad = (exp["lex"] == "err" and rows[0]["acc"][0]) or (exp["lex"] == "ok" and (
            real.get("st") != "ok" or [t[0] for t in got] != [t[0] for t in want] or
            any(w[0] not in LAYOUT and (w[1] != g[1] or w[2] != g[2]) for w, g in zip(want, got)) or
            rows[0]["acc"][0] != (exp["parse"] == "accept")))
        if bad:
            v.disagree(dict(d["class"]), case)
    judge_records(v, recs, wd, {"r": src})
    if v.violations:
        print("VIOLATION property=%s replay=%s" % (PROP, path))
        return 1
    return 0

#!/usr/bin/env python3
"""semloop.py <seed> <n> [stmts]: record n programs, validate with Trace_Sem, explain the bad ones."""
import json, os, sys, collections
sys.path.insert(0, os.path.dirname(os.path.abspath(__file__)))
import common as C, semdbg
seed, n = sys.argv[1], sys.argv[2]
stmts = sys.argv[3] if len(sys.argv) > 3 else "8"
tp = os.path.join(C.WORK, "loop_%s.ndjson" % seed)
rc, out, err = C.run_vh(["record", "sem", tp, "--seed", seed, "--n", n, "--stmts", stmts])
print(out.strip())
r = C.run_tlc("Trace_Sem", "Trace_Sem.cfg", name="loop" + seed, workers=1, dfs=True, env={"TRACE": tp}, coverage=False, require_ok=False)
bad = [json.loads(x)["id"] for x in C.tlc_prints(r.out, "BAD")]
stats = C.tlc_prints(r.out, "STATS")
print("STATS", stats[-1:] , "wall", round(r.wall, 1))
if not stats:
    print(r.out[-3000:])
rows = {x["id"]: x for x in C.ndjson_read(tp)}
for b in bad[:int(os.environ.get("SHOW", "4"))]:
    row = rows[b]
    print("=" * 70, b); print(row["src"])
    print("REAL out:", [semdbg.enc(x) for x in row["out"]]); print("REAL err:", row["err"], row["msg"])
    for s in semdbg.explain([row]):
        print("SEM  out:", [semdbg.enc(x) for x in s["out"]]); print("SEM  err:", s["err"])
print("bad ids:", bad)

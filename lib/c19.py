"""C19 -- IDE answers are well-formed and name resolution matches what the program does.

M: TLC checks Positions.tla (byte <-> (line, UTF-16 column), validity of positions/ranges) on every
   document over 8 code-point classes up to a small length, and LspDocs.tla (open/change/close/
   request; every answer computed from the latest text, every range valid in it) under the
   specification policy and under a repaired-implementation policy; under the implementation's
   own `last_valid_parse` policy TLC must find the counterexample (that is finding C19-stale-parse
   reproduced at the model level).
G: Gen_LspScope.tla grows documents from skeletons with name slots (nested def/lambda/
   comprehension rebinding the same two names, use before assignment, closures, parameters
   shadowing globals, load symbols; pads with non-ASCII/astral code points inside string literals
   before identifiers on the same line; CRLF) and prints, for every identifier occurrence, its LSP
   range (Positions) and LspScope!Resolve.  harness/src/bin/vh_c19.rs sends didOpen and
   definition/hover/completion requests to the real server over an in-memory connection, runs the
   same document with the real evaluator (every binding has a distinct value, every tagged use
   reports the value it read) and resolves every AST/error span through the codemap.  This module
   only compares: definition target = a binding occurrence TLC named; every returned range valid
   under TLC's line lengths; the binding the running program read is one TLC named; codemap
   (line, column) = TLC's place table at the span's byte offsets.
V: Gen_LspDocs.tla enumerates every transition of the document-store machine over five concrete
   texts (one history each, including valid/long -> broken/short -> request); the recorded
   sessions are validated by Trace_LspDocs.tla.
"""
import concurrent.futures
import json
import os
import re
import time

import common as C

PROP = "C19"

LOADED = [120, 120, 32, 61, 32, 34, 108, 100, 95, 120, 120, 34, 10]   # xx = "ld_xx"\n  (Gen_LspScope!LoadedText)
LOADED_R = [0, 0, 0, 2]
LOADED_LENS = [12, 0]

GEN_CFG = """CONSTANTS
  Mode = "%s"
  PerSk = %d
  PerDeco = %d
  SkSet = {%s}
  WithTable = %s
INIT Init
NEXT Next
INVARIANT PrintDoc
CHECK_DEADLOCK FALSE
"""

_PAT = {}


def prints(out, tag):
    """PrintT(<<tag, json>>) payloads; TLC wraps long tuples over several lines."""
    pat = _PAT.setdefault(tag, re.compile(r'<<\s*"%s",\s*"((?:[^"\\]|\\.)*)"\s*>>' % tag))
    return [m.group(1).replace('\\"', '"').replace("\\\\", "\\") for m in pat.finditer(out)]


# --------------------------------------------------------------------------------------- generation

def plan(tier):
    """(mode, skeletons, PerSk, PerDeco, WithTable) jobs; each is one TLC process."""
    jobs = []
    if tier == "quick":
        per = {"ascii": (10, 2), "bmp": (4, 2), "all": (8, 3)}
        groups = [(1, 2, 5), (3, 4)]
    else:
        per = {"ascii": (120, 3), "bmp": (40, 3), "all": (80, 5)}
        groups = [(1,), (2,), (3,), (4,), (5,)]
    for mode, (ps, pd) in per.items():
        for g in groups:
            jobs.append((mode, g, ps, pd, mode != "ascii"))
    return jobs


def gen_job(wd, job, seed):
    mode, sks, ps, pd, table = job
    name = "c19_gen_%s_%s" % (mode, "".join(map(str, sks)))
    cfg = os.path.join(wd, name + ".cfg")
    with open(cfg, "w") as f:
        f.write(GEN_CFG % (mode, ps, pd, ", ".join(map(str, sks)), "TRUE" if table else "FALSE"))
    r = C.run_tlc("Gen_LspScope", cfg, name=name, workers=1, coverage=False, tlc_seed=seed * 97 + sks[0], xmx="3g",
                  timeout=2400)
    docs = [json.loads(x) for x in prints(r.out, "DOC")]
    if len(docs) != r.distinct or not docs:
        raise C.ToolError("generator %s printed %d documents for %d states" % (name, len(docs), r.distinct))
    for i, d in enumerate(docs):
        d["id"] = "%s/sk%d/%d" % (mode, d["sk"], i)
        d["mode"] = mode
    return r, docs


def generate(tier, wd):
    jobs = plan(tier)
    docs = []
    states = trans = 0
    with concurrent.futures.ThreadPoolExecutor(max_workers=12) as ex:
        for r, ds in ex.map(lambda j: gen_job(wd, j, C.seed()), jobs):
            docs += ds
            states += r.distinct
            trans += r.states
    return docs, states, trans


def model_runs(tier):
    """M: the specification's own laws. Returns (states, transitions, coverage dict)."""
    names = [("MC_Positions", "MC_Positions_q.cfg" if tier == "quick" else "MC_Positions.cfg", True),
             ("MC_LspDocs", "MC_LspDocs_latest.cfg", True),
             ("MC_LspDocs", "MC_LspDocs_drop_on_fail.cfg", True),
             ("MC_LspDocs", "MC_LspDocs_stale.cfg", False)]

    def one(x):
        mod, cfg, must_hold = x
        return x, C.run_tlc(mod, cfg, workers=2, require_ok=False, xmx="3g")
    states = trans = 0
    cov = {}
    with concurrent.futures.ThreadPoolExecutor(max_workers=4) as ex:
        for (mod, cfg, must_hold), r in ex.map(one, names):
            if must_hold:
                if not r.ok:
                    C.log(r.out[-3000:])
                    raise C.ToolError("model %s/%s does not satisfy its invariants: %s" % (mod, cfg, r.violation))
                states += r.distinct
                trans += r.transitions
                if mod == "MC_LspDocs":
                    C.require_coverage(r, ["Open", "Change", "Close", "Request"], cfg)
                    for k, v in r.coverage.items():
                        cov["%s.%s" % (cfg[3:-4], k)] = v[1]
                else:
                    cov["Positions.documents"] = r.distinct
            else:
                # the implementation's policy must be refuted by the model checker, by the expected
                # scenario (a Change to an unparseable text followed by a Request)
                if r.ok or not r.violation or "AnswerOK" not in r.violation:
                    raise C.ToolError("MC_LspDocs_stale: expected a counterexample to AnswerOK, got ok=%s %s"
                                      % (r.ok, r.violation))
                if not re.search(r"<Change\(.*\n(?:.*\n)*?.*<Request\(", r.out):
                    raise C.ToolError("MC_LspDocs_stale: counterexample is not Change;Request")
                cov["LspDocs_stale.counterexample_found"] = 1
    return states, trans, cov


# --------------------------------------------------------------------------------------- G: documents

def build_case(d):
    occs = d["occs"]
    lens = d["lens"]
    reqs = []
    nhover = 0
    for i, o in enumerate(occs, 1):
        l, c = o["r"][0], o["r"][1]
        if o["bind"] or o["role"] == "mark":
            reqs.append({"k": "def", "l": l, "c": c, "why": "bind", "occ": i})
            continue
        reqs.append({"k": "def", "l": l, "c": c, "why": "use", "occ": i})
        if len(o["n"]) >= 2:
            reqs.append({"k": "def", "l": l, "c": c + 1, "why": "use", "occ": i})
        if o["nb"]:
            reqs.append({"k": "def", "l": o["by"][0], "c": o["by"][1], "why": "probe", "occ": i})
        if o["tagged"] and nhover < 6:
            nhover += 1
            reqs.append({"k": "hover", "l": l, "c": c, "why": "hover", "occ": i})
            reqs.append({"k": "compl", "l": l, "c": c, "why": "compl", "occ": i})
    for l in range(min(len(lens), 8)):
        reqs.append({"k": "def", "l": l, "c": lens[l], "why": "other", "occ": 0})
        reqs.append({"k": "compl", "l": l, "c": lens[l], "why": "other", "occ": 0})
    reqs.append({"k": "def", "l": 0, "c": 0, "why": "other", "occ": 0})
    reqs.append({"k": "hover", "l": len(lens) - 1, "c": 0, "why": "other", "occ": 0})
    has_load = any(o["role"] == "load" for o in occs)
    return {"id": d["id"], "text": d["text"], "loaded": LOADED if has_load else None, "reqs": reqs,
            "run": True, "spans": bool(d.get("table")), "lsp": True}


def valid_range(lens, r):
    sl, sc, el, ec = r
    return sl < len(lens) and el < len(lens) and sc <= lens[sl] and ec <= lens[el] and (sl, sc) <= (el, ec)


def cmp_range(got, occ):
    if got == occ["r"]:
        return "ok"
    if occ["ab"] and got == occ["cp"]:
        return "cp"
    return "bad"


WORST = {"ok": 0, "cp": 1, "bad": 2}


def judge_def(d, i, resp, uri):
    """Compare one definition answer with LspScope!Resolve (as printed by TLC). -> (status, why)"""
    occ = d["occs"][i - 1]
    links = resp["result"]
    if not isinstance(links, list):
        return "bad", "shape"
    targets = occ["targets"]
    if not targets:
        return ("ok", "") if not links else ("bad", "link_for_unbound_name")
    if len(links) != 1:
        return "bad", "no_link" if not links else "several_links"
    ln = links[0]

    def r4(x):
        return [x["start"]["line"], x["start"]["character"], x["end"]["line"], x["end"]["character"]]
    try:
        tsel, trng, osel = r4(ln["targetSelectionRange"]), r4(ln["targetRange"]), r4(ln["originSelectionRange"])
        turi = ln["targetUri"]
    except (KeyError, TypeError):
        return "bad", "shape"
    st = cmp_range(osel, occ)
    why = "origin" if st != "ok" else ""
    if turi == uri:
        best = "bad"
        for t in targets:
            s = max(cmp_range(tsel, d["occs"][t - 1]), cmp_range(trng, d["occs"][t - 1]), key=WORST.get)
            best = min(best, s, key=WORST.get)
        if best != "ok":
            why = (why + "+target") if why else "target"
    elif turi.endswith("/m.star") and any(d["occs"][t - 1]["role"] == "load" for t in targets):
        best = "ok" if tsel == LOADED_R and trng == LOADED_R else "bad"
        if best != "ok":
            why = "loaded_target"
    else:
        best, why = "bad", "target_uri"
    return max(st, best, key=WORST.get), why


def line_classes(d):
    text = d["text"]
    return {"crlf": 13 in text, "astral": any(c >= 65536 for c in text), "nonascii": any(c >= 128 for c in text)}


class Stats:
    def __init__(self):
        self.n = {}
        self.samples = []

    def add(self, k, v=1):
        self.n[k] = self.n.get(k, 0) + v


def judge_doc(d, case, out, verdict, st):
    """All comparisons for one document. `verdict.disagree` for everything the spec does not admit."""
    uri = out.get("uri", "")
    lens = d["lens"]
    occs = d["occs"]
    lc = line_classes(d)
    base = {"engine": "G", "mode": d["mode"], "sk": d["sk"]}
    marks = [o for o in occs if o["role"] == "mark"]

    def dis(cls, extra):
        c = dict(base)
        c.update(cls)
        verdict.disagree(c, {"doc": {k: d[k] for k in ("id", "sk", "slots", "deco", "mode")},
                             "text": "".join(map(chr, d["text"])), "tlc": d, "case": case, "detail": extra})

    def check_ranges(ranges, what):
        for r in ranges:
            if r["uri"] == uri:
                ok = valid_range(lens, r["r"])
            elif r["uri"].endswith("/m.star"):
                ok = valid_range(LOADED_LENS, r["r"])
            else:
                ok = False
            st.add("ranges_checked")
            if not ok:
                dis({"kind": "invalid_range", "where": what, "nonascii_doc": lc["nonascii"]},
                    {"range": r, "lens": lens})

    # --- diagnostics published on open
    dg = out["diag"]
    if dg["obs"] != "ok":
        dis({"kind": dg["obs"], "where": "didOpen"}, dg)
        return
    check_ranges(dg["ranges"], "diagnostic")
    by_r = {tuple(o["r"]): o for o in occs}
    by_cp = {tuple(o["cp"]): o for o in occs if o["ab"]}
    for r in dg["ranges"]:
        st.add("diagnostics")
        t = tuple(r["r"])
        if t in by_r:
            st.add("diagnostics_on_occurrences")
        elif t in by_cp:
            dis({"kind": "utf16_column", "astral_before": True, "where": "diagnostic"},
                {"range": r, "occ": by_cp[t]})

    # --- requests
    resps = out["resps"]
    probes = {}
    for rq, rs in zip(case["reqs"], resps):
        if rq["why"] == "probe" and rs["obs"] == "ok":
            probes[rq["occ"]] = judge_def(d, rq["occ"], rs, uri)[0]
    for rq, rs in zip(case["reqs"], resps):
        st.add("requests")
        if rs["obs"] != "ok":
            kind = rs["obs"] if rs["obs"] != "error" else "error_response"
            dis({"kind": kind, "where": rq["k"]}, {"req": rq, "resp": rs})
            if rs["obs"] in ("hang", "dropped"):
                return
            continue
        if rq["why"] == "probe":
            continue
        check_ranges(rs["ranges"], rq["k"])
        if rq["k"] != "def" or rq["why"] != "use":
            continue
        if marks:
            # the latest text has no parse: nothing to resolve; only well-formedness is required
            st.add("requests_on_unparseable")
            continue
        occ = occs[rq["occ"] - 1]
        st.add("definitions")
        st.add("role_" + occ["role"])
        status, why = judge_def(d, rq["occ"], rs, uri)
        if occ["binders"] >= 2:
            st.add("definitions_shadowed")
        if occ["targets"]:
            for t in occ["targets"]:
                st.add("target_" + occs[t - 1]["role"])
            if min(occ["targets"]) > rq["occ"] and occ["depth"] < occ["nsc"]:
                st.add("use_before_assignment_local")
            if 1 < occ["depth"] < occ["nsc"]:
                st.add("closure_reads")
            if occ["depth"] > 1:
                st.add("skips_inner_scopes")
        if status == "ok":
            continue
        if status == "cp":
            dis({"kind": "utf16_column", "astral_before": True, "where": "definition:" + why},
                {"req": rq, "resp": rs["result"], "occ": occ})
        elif occ["nb"] and probes.get(rq["occ"]) in ("ok", "cp"):
            dis({"kind": "request_column", "nonascii_before": True, "astral_before": occ["ab"], "explained": "byte_offset"},
                {"req": rq, "resp": rs["result"], "occ": occ, "probe_at_byte_column": probes.get(rq["occ"])})
        else:
            dis({"kind": "wrong_definition", "why": why, "role": occ["role"], "nonascii_before": occ["nb"]},
                {"req": rq, "resp": rs["result"], "occ": occ,
                 "expected_targets": [occs[t - 1] for t in occ["targets"]]})

    # --- the running program
    run = out.get("run")
    sp = out.get("spans")
    if marks:
        for err in [x.get("err") for x in (run, sp) if x]:
            st.add("parse_errors")
            if not err or not err.get("span") or not err["msg"].startswith("Parse error"):
                dis({"kind": "parse_error_expected"}, {"err": err})
            else:
                check_err_span(err, marks[0], dis, st, "parse_error")
        return
    if run:
        judge_run(d, run, dis, st)
    if sp and d.get("table"):
        judge_spans(d, sp, dis, st)


def judge_run(d, run, dis, st):
    occs = d["occs"]
    if run["obs"] == "panic":
        dis({"kind": "panic", "where": "eval"}, run)
        return
    st.add("programs_run")
    loads = {o["n"]: i for i, o in enumerate(occs, 1) if o["role"] == "load"}
    for tag, val in run["transcript"]:
        m = re.match(r"(\d+)", tag)
        i = int(m.group(1)) if m else 0
        if not (1 <= i <= len(occs)) or not occs[i - 1]["tagged"]:
            dis({"kind": "resolve_vs_program", "why": "unknown_tag"}, {"tag": tag, "val": val})
            continue
        occ = occs[i - 1]
        mb = re.match(r"b(\d+)", val)
        if mb:
            j = int(mb.group(1))
        elif val.startswith("ld_"):
            j = loads.get(val[3:], 0)
        else:
            j = 0
        st.add("uses_executed")
        if j not in occ["targets"]:
            dis({"kind": "resolve_vs_program", "why": "other_binding"},
                {"use": i, "occ": occ, "program_read": val, "binding_occurrence": j, "spec_targets": occ["targets"]})
        else:
            if occ["depth"] > 1 or len(occ["targets"]) > 1:
                st.add("uses_executed_nontrivial")
    err = run.get("err")
    if run["obs"] == "ok":
        st.add("programs_completed")
        return
    msg = err["msg"]
    sp = err.get("span")
    if "referenced before assignment" not in msg or not sp:
        dis({"kind": "unexpected_eval_error"}, err)
        return
    st.add("unbound_errors")
    # the error names a use: the codemap's (line, code-point column) must be that occurrence
    hit = [(i, o) for i, o in enumerate(occs, 1) if o["off"] == [sp["b"], sp["e"]] and not o["bind"]]
    if not hit:
        dis({"kind": "error_span", "why": "not_an_occurrence"}, err)
        return
    i, occ = hit[0]
    local = "Local variable" in msg
    is_local = 0 < occ["depth"] < occ["nsc"]
    if local != is_local or ("`%s`" % occ["n"]) not in msg:
        dis({"kind": "resolve_vs_program", "why": "unbound_kind"}, {"err": err, "occ": occ})
    check_err_span(err, occ, dis, st, "eval_error")


def check_err_span(err, occ, dis, st, what):
    """An error that refers to the text of occurrence `occ`: its FileSpan must cover exactly those bytes,
    resolve (codemap convention: code-point columns) to TLC's line/column, and as an lsp Range be
    TLC's UTF-16 range."""
    sp = err["span"]
    st.add("error_spans")
    if [sp["b"], sp["e"]] != occ["off"]:
        dis({"kind": "error_span", "why": "covers_other_text", "what": what}, {"err": err, "occ": occ})
        return
    if sp["r"] != occ["cp"] or sp["fr"] != occ["cp"] or sp["text"] != occ["n"]:
        dis({"kind": "error_span", "why": "line_column", "what": what, "nonascii_before": occ["nb"]},
            {"err": err, "occ": occ})
    lsp = sp["lsp"]
    got = [lsp["start"]["line"], lsp["start"]["character"], lsp["end"]["line"], lsp["end"]["character"]]
    s = cmp_range(got, occ)
    if s == "cp":
        dis({"kind": "utf16_column", "astral_before": True, "where": "error_span_as_lsp_range"}, {"err": err, "occ": occ})
    elif s == "bad":
        dis({"kind": "error_span", "why": "lsp_range", "what": what, "nonascii_before": occ["nb"]}, {"err": err, "occ": occ})


def judge_spans(d, sp, dis, st):
    """codemap.resolve_span at byte offsets b,e = TLC's place table (line, code-point column);
    converted to an lsp Range it must be (line, UTF-16 column)."""
    if sp["parse"] != "ok":
        dis({"kind": "parse_" + sp["parse"]}, sp)
        return
    tab = {row[0]: row for row in d["table"]}
    for s in sp["spans"]:
        st.add("spans")
        rb, re_ = tab.get(s["b"]), tab.get(s["e"])
        if rb is None or re_ is None:
            dis({"kind": "span", "why": "not_a_char_boundary"}, s)
            continue
        if s["r"] != [rb[1], rb[2], re_[1], re_[2]]:
            dis({"kind": "span", "why": "line_column"}, {"span": s, "expected": [rb[1], rb[2], re_[1], re_[2]]})
            continue
        lsp = s["lsp"]
        got = [lsp["start"]["line"], lsp["start"]["character"], lsp["end"]["line"], lsp["end"]["character"]]
        exp = [rb[1], rb[3], re_[1], re_[3]]
        if got != exp:
            astral = rb[2] != rb[3] or re_[2] != re_[3]
            if astral and got == s["r"]:
                dis({"kind": "utf16_column", "astral_before": True, "where": "span_as_lsp_range"},
                    {"span": s, "expected": exp})
            else:
                dis({"kind": "span", "why": "lsp_range"}, {"span": s, "expected": exp})


def run_docs(docs, wd, verdict, st, tag="docs"):
    cases = [build_case(d) for d in docs]
    cp = os.path.join(wd, "cases_%s.ndjson" % tag)
    op = os.path.join(wd, "out_%s.ndjson" % tag)
    C.ndjson_write(cp, cases)
    rc, _, err = C.run_vh(["docs", cp, op], check=False, timeout=1500, bin="vh_c19")
    outs = C.ndjson_read(op) if os.path.exists(op) else []
    byid = {o["id"]: o for o in outs}
    if rc != 0 and len(outs) < len(cases):
        if rc == 2 and not outs:
            C.log(err[-3000:])
            raise C.ToolError("vh_c19 docs failed")
        missing = [c for c in cases if c["id"] not in byid]
        verdict.disagree({"engine": "G", "kind": "abort", "where": "process"},
                         {"case": missing[0], "stderr": err[-2000:], "rc": rc})
    for d, c in zip(docs, cases):
        o = byid.get(d["id"])
        if o is None:
            continue
        st.add("documents")
        judge_doc(d, c, o, verdict, st)
    return cases


# --------------------------------------------------------------------------------------- V: histories

def gen_histories(tier):
    cfgs = ["Gen_LspDocs_q.cfg"] if tier == "quick" else ["Gen_LspDocs_q.cfg", "Gen_LspDocs_t.cfg"]
    states = trans = 0
    cases = []
    for cfg in cfgs:
        r = C.run_tlc("Gen_LspDocs", cfg, workers=1, coverage=False, timeout=2400)
        hs = prints(r.out, "HIST")
        tx = prints(r.out, "TEXTS")
        if not tx or len(hs) + 1 != r.transitions:
            raise C.ToolError("history generator %s: %d histories for %d transitions" % (cfg, len(hs), r.transitions))
        texts = {str(i + 1): x for i, x in enumerate(json.loads(tx[0]))}
        for x in hs:
            cases.append({"id": len(cases), "texts": texts, "steps": json.loads(x)})
        states += r.distinct
        trans += r.transitions
    return states, trans, cases


def run_histories(gen, wd, verdict, st):
    states, trans, cases = gen
    for a in ("open", "change", "close", "req"):
        n = sum(1 for c in cases if c["steps"][-1]["a"] == a)
        st.add("hist_last_" + a, n)
        if not n:
            raise C.ToolError("vacuous history generation: no history ends in %s" % a)
    stale = [c for c in cases if c["steps"][-1]["a"] == "req" and len(c["steps"]) >= 3
             and c["steps"][-2]["a"] == "change" and c["steps"][-2]["t"] in (2, 4)]
    st.add("hist_request_after_broken_change", len(stale))
    if not stale:
        raise C.ToolError("vacuous history generation: no request after a change to unparseable text")
    validate_histories(cases, wd, verdict, st, "hist")
    return states, trans, cases


def validate_histories(cases, wd, verdict, st, tag):
    hp = os.path.join(wd, "%s_cases.ndjson" % tag)
    tp = os.path.join(wd, "%s_trace.ndjson" % tag)
    C.ndjson_write(hp, cases)
    rc, _, err = C.run_vh(["hist", hp, tp], check=False, timeout=1500, bin="vh_c19")
    events = C.ndjson_read(tp) if os.path.exists(tp) else []
    if rc != 0:
        if rc == 2 and not events:
            C.log(err[-3000:])
            raise C.ToolError("vh_c19 hist failed")
        verdict.disagree({"engine": "V", "kind": "abort", "where": "process"}, {"stderr": err[-2000:], "rc": rc})
        return events
    st.add("trace_events", len(events))
    accepted, at, detail, tr = C.validate_trace("Trace_LspDocs", "Trace_LspDocs.cfg", tp, name="c19_trace_" + tag)
    # which history an event belongs to
    hist_of = []
    cur = None
    for e in events:
        if e["a"] == "reset":
            cur = e["h"]
        hist_of.append(cur)
    byid = {c["id"]: c for c in cases}
    if not accepted:
        bad = events[at - 1] if 0 < at <= len(events) else None
        verdict.disagree({"engine": "V", "kind": "trace_rejected"},
                         {"rejected_at": at, "event": bad, "tlc": detail,
                          "history": byid.get(hist_of[at - 1]) if bad else None})
    for x in prints(tr.out, "BAD"):
        b = json.loads(x)
        ev = b["ev"]
        kind = b["kind"]
        cls = {"engine": "V", "kind": kind, "latest_text_parses": b["parses"]}
        if kind == "req_range" and not b["parses"]:
            cls = {"engine": "V", "kind": "stale_parse_range"}
        elif kind == "def_target" and b["parses"] and b.get("nb") and ev.get("tg") == []:
            cls = {"engine": "V", "kind": "request_column", "nonascii_before": True}
        st.add("trace_bad_" + cls["kind"])
        verdict.disagree(cls, {"history": byid.get(hist_of[b["at"] - 1]), "bad": b})
    st.add("traces_validated", len(cases))
    return events


# --------------------------------------------------------------------------------------- driver

NEED = ["target_param", "target_assign", "target_comp", "target_for", "target_load", "target_def",
        "role_builtin", "use_before_assignment_local", "closure_reads", "skips_inner_scopes",
        "uses_executed", "uses_executed_nontrivial", "programs_completed", "unbound_errors", "spans", "diagnostics",
        "parse_errors", "error_spans", "definitions_shadowed"]


def run(tier):
    t0 = time.time()
    wd = C.workdir("c19")
    C.build_harness("vh_c19")
    verdict = C.Verdict(PROP)
    st = Stats()
    with concurrent.futures.ThreadPoolExecutor(max_workers=3) as ex:
        fh = ex.submit(gen_histories, tier)
        # C19_SKIP_M=1 (development aid for mutant runs: the model runs do not depend on /repo)
        fm = ex.submit((lambda t: (0, 0, {})) if os.environ.get("C19_SKIP_M") else model_runs, tier)
        fg = ex.submit(generate, tier, wd)
        docs, gstates, gtrans = fg.result()
        C.log("[C19] %d documents generated at %.0fs" % (len(docs), time.time() - t0))
        mstates, mtrans, mcov = fm.result()
        hgen = fh.result()
        C.log("[C19] models checked, %d histories generated at %.0fs" % (len(hgen[2]), time.time() - t0))
    for d in docs:
        for k, v in line_classes(d).items():
            if v:
                st.add("docs_" + k)
        st.add("docs_mode_" + d["mode"])
    cases = run_docs(docs, wd, verdict, st)
    C.log("[C19] documents replayed at %.0fs" % (time.time() - t0))
    hstates, htrans, hcases = run_histories(hgen, wd, verdict, st)
    C.log("[C19] histories validated at %.0fs" % (time.time() - t0))
    missing = [k for k in NEED + ["docs_crlf", "docs_astral", "docs_nonascii", "docs_mode_ascii"] if not st.n.get(k)]
    if missing:
        raise C.ToolError("vacuous run: never exercised %s" % missing)
    nontrivial = st.n.get("definitions_shadowed", 0)
    samples = []
    if docs:
        d = docs[len(docs) // 2]
        samples.append({"document": "".join(map(chr, d["text"])), "deco": d["deco"],
                        "uses": [{"occ": i, "name": o["n"], "range": o["r"], "resolves_to": o["targets"]}
                                 for i, o in enumerate(d["occs"], 1) if o["tagged"]][:8]})
    if hcases:
        samples.append({"history": hcases[len(hcases) // 2]["steps"]})
    rc = verdict.finish()
    C.write_evidence(PROP, tier, "model_checking", {
        "states": mstates + gstates + hstates,
        "transitions": mtrans + gtrans + htrans,
        "traces_validated_against_impl": st.n.get("documents", 0) + st.n.get("traces_validated", 0),
        "samples": samples,
        "evaluations": st.n.get("requests", 0) + st.n.get("uses_executed", 0) + st.n.get("spans", 0) + st.n.get("trace_events", 0),
        "distinct_nontrivial": nontrivial,
        "rule": "G: documents = skeleton x random name-slot assignment x decoration (TLC RandomSubset, seeded); for "
                "every use occurrence definition@start and @start+1 must return a binding occurrence named by "
                "LspScope!Resolve with the Positions range; every returned range valid under Positions line lengths; "
                "values read by the running program must identify a binding Resolve names; codemap line/column of "
                "every AST/error span = Positions table. non-trivial = definition requests at uses whose name is "
                "bound in two or more of the enclosing scopes (a shadowing decision). V: one history per transition of "
                "LspDocs over 5 concrete texts, validated by Trace_LspDocs.",
        "exhaustive": False,
        "model_action_counts": mcov,
        "counts": st.n,
        "known_finding_cases": {k: v[0] for k, v in verdict.known.items()},
    }, time.time() - t0, len(verdict.violations),
        assumptions=["TLC/SANY", "harness JSON-RPC client and range extraction in harness/src/bin/vh_c19.rs",
                     "the LspContext given to the server parses with Dialect::AllOptionsInternal and lints, like starlark_lsp's own test context",
                     "lone \\r as a line terminator is not generated (LF and CRLF only)",
                     "textDocument/documentSymbol is not implemented by the server (no handler, not advertised): not requested"])
    return rc


def replay(path):
    rp = json.load(open(path))
    case = rp["case"]
    wd = C.workdir("c19_replay")
    C.build_harness("vh_c19")
    verdict = C.Verdict(PROP)
    st = Stats()
    if "tlc" in case:
        d = case["tlc"]
        print("".join(map(chr, d["text"])))
        run_docs([d], wd, verdict, st, "replay")
    elif case.get("history"):
        h = case["history"]
        print(json.dumps(h["steps"]))
        validate_histories([h], wd, verdict, st, "replay")
    else:
        print(json.dumps(rp, indent=1)[:4000])
        return 0
    for cls, c in verdict.violations:
        print(json.dumps({"class": cls, "detail": c.get("detail", c.get("bad"))}, indent=1)[:3000])
    for fid, (n, f, ex) in verdict.known.items():
        print("KNOWN-FINDING: property=%s %s [%s] (%d cases)" % (PROP, f["what"], fid, n))
    if verdict.violations:
        print("VIOLATION property=%s replay=%s" % (PROP, path))
        return 1
    return 0

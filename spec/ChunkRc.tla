---------------------------- MODULE ChunkRc ----------------------------
(* The reference-count protocol of arena chunks (values/layout/heap/allocator/alloc/chunk.rs),
   shared by ChunkAlloc.tla (M: all interleavings) and Trace_ChunkAlloc.tla (V: recorded events).

   A chunk is allocated with count 1 (ChunkData::alloc_ref_count_1).  `Clone for Chunk` is
   fetch_add(1), `Drop for Chunk` is fetch_sub(1) and, when the previous value was FreeAt (= 1),
   dealloc.  The state is lock-free, so each operation of a thread is three steps: Begin (the
   thread is about to touch the counter; hook event chunk_inc_begin / chunk_dec_begin), the atomic
   Step itself (no event: it happens somewhere between the two events), and End (chunk_inc_end
   carrying the previous value / chunk_dec_end), with Free (chunk_free) between Step and End of
   the decrement that saw FreeAt.  `err` records the first unsafe thing that happened. *)
EXTENDS Integers, FiniteSets

CONSTANTS Threads, Chunks,
          FreeAt          \* the previous value at which Drop releases the memory (1)

VARIABLES live,           \* chunks currently allocated
          freed,          \* chunks released and not re-allocated since
          rc,             \* [Chunks -> Int]   the counter (meaningful while live)
          pend,           \* [Threads -> operation in progress]
          err             \* "" or the first violation

rcvars == <<live, freed, rc, pend, err>>

Idle == [op |-> "none", c |-> 0, done |-> FALSE, prev |-> 0, fr |-> FALSE]

RcInit == /\ live = {} /\ freed = {}
          /\ rc = [c \in Chunks |-> 0]
          /\ pend = [t \in Threads |-> Idle]
          /\ err = ""

Flag(cond, what) == err' = IF err # "" \/ cond THEN err ELSE what

\* malloc hands out a chunk (possibly at the address of a released one: a new incarnation)
Alloc(c) == /\ c \notin live
            /\ live' = live \cup {c}
            /\ freed' = freed \ {c}
            /\ rc' = [rc EXCEPT ![c] = 1]
            /\ UNCHANGED <<pend, err>>

IncBegin(t, c) == /\ pend[t].op = "none"
                  /\ pend' = [pend EXCEPT ![t] = [Idle EXCEPT !.op = "inc", !.c = c]]
                  /\ Flag(c \in live, "clone_of_released_chunk")
                  /\ UNCHANGED <<live, freed, rc>>

IncStep(t) == LET c == pend[t].c IN
              /\ pend[t].op = "inc" /\ ~pend[t].done
              /\ rc' = [rc EXCEPT ![c] = @ + 1]
              /\ pend' = [pend EXCEPT ![t].done = TRUE, ![t].prev = rc[c]]
              /\ Flag(c \in live /\ rc[c] >= 1, "increment_of_released_chunk")
              /\ UNCHANGED <<live, freed>>

IncEnd(t) == /\ pend[t].op = "inc" /\ pend[t].done
             /\ pend' = [pend EXCEPT ![t] = Idle]
             /\ UNCHANGED <<live, freed, rc, err>>

DecBegin(t, c) == /\ pend[t].op = "none"
                  /\ pend' = [pend EXCEPT ![t] = [Idle EXCEPT !.op = "dec", !.c = c]]
                  /\ Flag(c \in live, "drop_of_released_chunk")
                  /\ UNCHANGED <<live, freed, rc>>

DecStep(t) == LET c == pend[t].c IN
              /\ pend[t].op = "dec" /\ ~pend[t].done
              /\ rc' = [rc EXCEPT ![c] = @ - 1]
              /\ pend' = [pend EXCEPT ![t].done = TRUE, ![t].prev = rc[c]]
              /\ Flag(c \in live /\ rc[c] >= 1, "decrement_of_released_chunk")
              /\ UNCHANGED <<live, freed>>

MustFree(t) == pend[t].op = "dec" /\ pend[t].done /\ pend[t].prev = FreeAt

FreeStep(t) == LET c == pend[t].c IN
               /\ MustFree(t) /\ ~pend[t].fr
               /\ live' = live \ {c}
               /\ freed' = freed \cup {c}
               /\ pend' = [pend EXCEPT ![t].fr = TRUE]
               /\ Flag(c \in live, "double_free")
               /\ UNCHANGED rc

DecEnd(t) == /\ pend[t].op = "dec" /\ pend[t].done
             /\ MustFree(t) => pend[t].fr
             /\ pend' = [pend EXCEPT ![t] = Idle]
             /\ UNCHANGED <<live, freed, rc, err>>

\* properties of the layer itself
RcNonNegative == \A c \in live : rc[c] >= 0
NoError == err = ""
\* a released chunk is only referred to by decrements that are past their atomic step (End still due)
NoOpOnReleased == \A t \in Threads : pend[t].op # "none" /\ pend[t].c \notin live => pend[t].op = "dec" /\ pend[t].done
=======================================================================

------------------------- MODULE Gen_SmallMap -------------------------
(* G: one implementation test per TRANSITION of SmallMap's bounded state graph.
   `hist` is hidden from the fingerprint by VIEW GView; every transition TLC generates prints
   the complete operation history reaching it, each step with its expected return value and the
   expected contents afterwards. *)
EXTENDS SmallMap, Json

VARIABLE hist

Obs == [op |-> last.op, k |-> last.k, v |-> last.v, i |-> last.i,
        some |-> last.ret.some, ret |-> last.ret.v, s |-> last.s,
        keys |-> [j \in 1..Len(entries) |-> entries[j].k],
        vals |-> [j \in 1..Len(entries) |-> entries[j].v],
        on |-> on]

GInit == Init /\ hist = <<>>
GNext == Next /\ hist' = Append(hist, Obs')
GView == <<entries, on, idx>>
PrintEdge == PrintT(<<"EDGE", ToJson(hist')>>)
GSpec == GInit /\ [][GNext]_<<vars, hist>>
HashA == <<7, 7, 9, 9>>      \* two colliding classes
HashB == <<5, 5, 5, 5>>      \* total collision
HashC == <<1, 2, 3, 4>>      \* no collision
Inv == NoDup /\ IndexOK /\ IndexWhenBig /\ LookupAgrees /\ TypeOK
=======================================================================

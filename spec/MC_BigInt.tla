----------------------------- MODULE MC_BigInt -----------------------------
(* M for C10: the oracle checks itself before it judges anything.
   (1) agreement with TLC's native arithmetic on every pair of a small range and of a set of
       natives around the limb boundaries 2^15, 2^16, 2^30;
   (2) ring laws, the division identity  a = q*b + r /\ (r = 0 \/ sign r = sign b) /\ |r| < |b|,
       shift / bitwise identities and digit round trips on the boundary grid (values far outside
       native range), where (1) cannot reach.
   Run as a model: Init enumerates the first member, one Next step chooses the others (so the
   workers share the instances), the laws are invariants of the completed states (cph = 1), and
   TLC's state count is the number of instances checked.                                     *)
EXTENDS BigInt

CONSTANT Ext,           \* TRUE: the extended grid (k = 15, 30, 62, 127, 128 as well)
         TStep          \* every TStep-th grid element serves as the third member of a triple

VARIABLES ckind, ci, cj, ck, cph      \* NB: names distinct from every bound name in BigInt (TLC stops
vars == <<ckind, ci, cj, ck, cph>>    \* caching constant definitions when a state variable shares a parameter name)

Small == (-40)..40
Edge  == {-1073741824, -1073741823, -65537, -65536, -65535, -32769, -32768, -32767, -255, -3, -2, -1, 0,
          1, 2, 3, 255, 32767, 32768, 32769, 65535, 65536, 65537, 1073741823, 1073741824, 46340, -46340}
Nat1  == Small \cup {x \in Edge : x > -46341 /\ x < 46341}      \* products stay native

(* native references *)
NCeilNeg(p, d) == IF p % d = 0 THEN -(p \div d) ELSE -((p \div d) + 1)     \* floor(-p / d), p, d > 0
NFloorDiv(a, b) == IF b > 0 THEN (IF a >= 0 THEN a \div b ELSE NCeilNeg(-a, b))
                   ELSE (IF a <= 0 THEN (-a) \div (-b) ELSE NCeilNeg(a, -b))
NMod(a, b) == a - NFloorDiv(a, b) * b
M20 == 1048576                                          \* 2^20: natives here have |x| < 2^17
NU(a) == IF a < 0 THEN a + M20 ELSE a
NS(u) == IF u >= M20 \div 2 THEN u - M20 ELSE u
NBit(op, a, b) == NS(BitOp(op, NU(a), NU(b), 20))      \* BitOp on naturals is the bit-by-bit definition

(* the grid: the same one the generator uses (kept here literally: it must not depend on it) *)
PK == IF Ext THEN <<15, 30, 31, 32, 53, 62, 63, 64, 127, 128>> ELSE <<31, 32, 53, 63, 64>>
GridPos == {Zero, One, FromInt(2)}
             \cup {Add(Pow2(PK[n]), FromInt(d)) : n \in 1..Len(PK), d \in {-1, 0, 1}}
             \cup {Pow10(e) : e \in {9, 10, 18, 19, 20, 30}}
GridSet == GridPos \cup {Neg(x) : x \in GridPos}
GridSeq == LET RECURSIVE S(_)
               S(s) == IF s = {} THEN <<>> ELSE LET x == CHOOSE y \in s : TRUE IN <<x>> \o S(s \ {x})
           IN S(GridSet)
N == Len(GridSeq)
Shifts == {0, 1, 14, 15, 16, 29, 30, 31, 32, 33, 45, 63, 64, 65, 100}

NativeOK(a, b) ==
    LET x == FromInt(a)
        y == FromInt(b)
    IN /\ ToInt(x) = a
       /\ ToInt(Add(x, y)) = a + b
       /\ ToInt(Sub(x, y)) = a - b
       /\ ToInt(Mul(x, y)) = a * b
       /\ Cmp(x, y) = (IF a < b THEN -1 ELSE IF a > b THEN 1 ELSE 0)
       /\ b # 0 => /\ ToInt(FloorDiv(x, y)) = NFloorDiv(a, b)
                   /\ ToInt(Mod(x, y)) = NMod(a, b)
       /\ ToInt(And(x, y)) = NBit("and", a, b)
       /\ ToInt(Or(x, y)) = NBit("or", a, b)
       /\ ToInt(Xor(x, y)) = NBit("xor", a, b)
       /\ ToInt(Not(x)) = -a - 1
       /\ ToInt(Neg(x)) = -a /\ ToInt(Abs(x)) = (IF a < 0 THEN -a ELSE a)
       /\ ToDecimalString(x) = ToString(a)
       /\ FromDecimalDigits(a < 0, ToDigits(x, 10)) = x
       /\ \A s \in {0, 1, 3, 14, 15, 16, 17} :
             /\ ToInt(Shr(x, s)) = NFloorDiv(a, NatPow2(s))
             /\ (a < 8192 /\ a > -8192) => ToInt(Shl(x, s)) = a * NatPow2(s)

(* native products only where they cannot overflow: |a|,|b| <= 46340 *)
NativePair(a, b) == IF (a < 46341 /\ a > -46341 /\ b < 46341 /\ b > -46341) THEN NativeOK(a, b)
                    ELSE LET x == FromInt(a)
                             y == FromInt(b)
                         IN /\ ToInt(x) = a
                            /\ Cmp(x, y) = (IF a < b THEN -1 ELSE IF a > b THEN 1 ELSE 0)
                            /\ b # 0 => /\ ToInt(FloorDiv(x, y)) = NFloorDiv(a, b)
                                        /\ ToInt(Mod(x, y)) = NMod(a, b)
                            /\ ToDecimalString(x) = ToString(a)

LawsPair(x, y) ==
    /\ Add(x, y) = Add(y, x)
    /\ Mul(x, y) = Mul(y, x)
    /\ Sub(Add(x, y), y) = x
    /\ Add(x, Neg(x)) = Zero
    /\ Cmp(x, y) = -Cmp(y, x)
    /\ (Cmp(x, y) = 0) <=> (x = y)
    /\ Cmp(x, y) = Sign(Sub(x, y))
    /\ ~IsZero(y) =>
         LET d == DivModFloor(x, y)
         IN /\ Add(Mul(d.q, y), d.r) = x
            /\ (IsZero(d.r) \/ Sign(d.r) = Sign(y))
            /\ MagCmp(d.r.mag, y.mag) < 0
            /\ FloorDiv(Mul(x, y), y) = x /\ IsZero(Mod(Mul(x, y), y))
    /\ Not(And(x, y)) = Or(Not(x), Not(y))                       \* De Morgan
    /\ Add(And(x, y), Or(x, y)) = Add(x, y)
    /\ Xor(x, y) = Sub(Or(x, y), And(x, y))
    /\ Xor(Xor(x, y), y) = x
    /\ Not(x) = Sub(Neg(x), One) /\ Not(Not(x)) = x
    /\ And(x, MinusOne) = x /\ Or(x, Zero) = x /\ Xor(x, MinusOne) = Not(x)

LawsTriple(x, y, z) ==
    /\ Add(Add(x, y), z) = Add(x, Add(y, z))
    /\ Mul(Mul(x, y), z) = Mul(x, Mul(y, z))
    /\ Mul(x, Add(y, z)) = Add(Mul(x, y), Mul(x, z))
    /\ (Le(x, y) /\ Le(y, z)) => Le(x, z)
    /\ Le(x, y) => Le(Add(x, z), Add(y, z))

LawsUnary(x) ==
    /\ \A s \in Shifts :
          /\ Shl(x, s) = Mul(x, Pow2(s))
          /\ Shr(x, s) = FloorDiv(x, Pow2(s))
          /\ Shr(Shl(x, s), s) = x
    /\ \A base \in 2..36 : FromDigits(x.neg, ToDigits(x, base), base) = x
    /\ BitLen(x) = Len(ToDigits(x, 2)) - (IF IsZero(x) THEN 1 ELSE 0)
    /\ MagCmp(x.mag, Pow2(BitLen(x)).mag) < 0
    /\ IsZero(x) \/ MagCmp(x.mag, Pow2(BitLen(x) - 1).mag) >= 0
    /\ FitsI32(x) <=> (BitLen(x) <= 31 \/ x = I32Min)
    /\ FitsI64(x) <=> (BitLen(x) <= 63 \/ x = Neg(Pow2(63)))
    /\ FitsU64(x) <=> (~x.neg /\ BitLen(x) <= 64)
    /\ FitsU32(x) <=> (~x.neg /\ BitLen(x) <= 32)

TripleThird == {n \in 1..N : n % TStep = 0}
Init == /\ cph = 0 /\ cj = 0 /\ ck = 0
        /\ \/ ckind = "native" /\ ci \in Nat1
           \/ ckind = "edge" /\ ci \in Edge
           \/ ckind \in {"pair", "unary", "triple"} /\ ci \in 1..N
Next == /\ cph = 0 /\ cph' = 1 /\ UNCHANGED <<ckind, ci>>
        /\ \/ ckind = "native" /\ cj' \in Nat1 /\ ck' = 0
           \/ ckind = "edge" /\ cj' \in Edge /\ ck' = 0
           \/ ckind = "pair" /\ cj' \in 1..N /\ ck' = 0
           \/ ckind = "unary" /\ cj' = 0 /\ ck' = 0
           \/ ckind = "triple" /\ cj' \in 1..N /\ ck' \in TripleThird

Inv == cph = 1 =>
       CASE ckind = "native" -> NativeOK(ci, cj)
         [] ckind = "edge"   -> NativePair(ci, cj)
         [] ckind = "pair"   -> LawsPair(GridSeq[ci], GridSeq[cj])
         [] ckind = "unary"  -> LawsUnary(GridSeq[ci])
         [] ckind = "triple" -> LawsTriple(GridSeq[ci], GridSeq[cj], GridSeq[ck])
=============================================================================

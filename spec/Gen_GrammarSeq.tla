--------------------------- MODULE Gen_GrammarSeq ---------------------------
(* G(ii): every token sequence of length <= MaxLen over the token alphabet, as the tree of a
   growing sequence (so TLC's workers share it).  For each sequence (one logical line, so a
   NEWLINE is appended) the specification decides reject / unshared / accept and, when it
   accepts, prints the sequence with Print(ast) and its form; rejected sequences are the
   complement (TLC's state count is the size of the enumerated space, the driver checks it
   against the harness' own enumeration of the same alphabet).  M: every accepted tree must
   satisfy the specification's own round trips (RoundTripOK). *)
EXTENDS Grammar, Json

CONSTANTS MaxLen, Alphabet
VARIABLE toks

AlphaFull == <<"a","b","1","\"s\"","+","-","*","**","not","in","or","and","<","|","if","else",
               "lambda","for","=","+=",",",":",".","(",")","[","]","{","}",";","pass","~">>
AlphaCore == <<"a","b","1","+","-","*","not","in","or","<","if","else",
               "lambda","for","=",",",":",".","(",")","[","]",";","**">>
SetOf(s) == {s[j] : j \in 1..Len(s)}
AlphaFullSet == SetOf(AlphaFull)
AlphaCoreSet == SetOf(AlphaCore)

Init == toks = <<>>
Next == Len(toks) < MaxLen /\ \E t \in Alphabet : toks' = Append(toks, t)

Judge ==
  LET r == ParseFile(Append(toks, "NEWLINE"))
      v == Verdict(r) IN
  CASE v = "reject"   -> TRUE
    [] v = "unshared" -> PrintT(<<"U", ToJson(toks)>>)
    [] OTHER          -> (/\ PrintT(<<"A", ToJson([t |-> toks, nf |-> PrintAst(r.a), form |-> Form(r.a)])>>)
                          /\ RoundTripOK(r.a))
=============================================================================

---------------------------- MODULE Gen_BigInt ----------------------------
(* G for C10: TLC enumerates  operator x operand x operand  and prints, for each, the operands as
   decimal strings and the EXPECTED observation computed by BigInt.tla:
        <<"CASE", "[op, a, b, expected, magnitude]">>
   expected is a decimal string, "True"/"False", a formatted string, "error:div0",
   "error:negshift", or "huge" (result too large to be worth materialising: the implementation
   must fail cleanly or be exact -- judged by the companion case).

   Which slice is generated is chosen through the environment (one TLC process per slice, all
   single-worker because the output is parsed):
     C10_PART   arith | divmod | bits | cmp | shift | unary | parse | huge
     C10_SRC    grid  (boundary grid x boundary grid)
                rand  (pseudo-random operands up to 256 bits, from the seed in C10_PARAMS)
                mixed (grid x random)
     C10_PARAMS path of a one-line ndjson file {"seed": S, "n": N}
   The operands of `rand` are produced HERE (two small congruential generators over limbs);
   no value in a case comes from outside TLC.                                                 *)
EXTENDS BigInt, Json, IOUtils

VARIABLES gop, ga, gb          \* NB: distinct from every bound name in BigInt (see MC_BigInt)

Part   == IF "C10_PART" \in DOMAIN IOEnv THEN IOEnv.C10_PART ELSE "arith"
Src    == IF "C10_SRC" \in DOMAIN IOEnv THEN IOEnv.C10_SRC ELSE "grid"
Params == IF "C10_PARAMS" \in DOMAIN IOEnv THEN ndJsonDeserialize(IOEnv.C10_PARAMS)[1]
          ELSE [seed |-> 1, n |-> 8]

--------------------------------------------------------------------------------
(* the boundary grid *)
PK == <<15, 30, 31, 32, 53, 62, 63, 64, 127, 128>>
PE == <<9, 10, 18, 19, 20, 30>>
GridPos == <<Zero, One, FromInt(2)>>
             \o [n \in 1..(3 * Len(PK)) |-> Add(Pow2(PK[((n - 1) \div 3) + 1]), FromInt(((n - 1) % 3) - 1))]
             \o [n \in 1..Len(PE) |-> Pow10(PE[n])]
GridSeq == GridPos \o [n \in 1..(Len(GridPos) - 1) |-> Neg(GridPos[n + 1])]

(* shift counts: small, the limb and word boundaries, a few large; negative; absurd *)
ShiftNat == <<0, 1, 2, 14, 15, 16, 29, 30, 31, 32, 33, 47, 62, 63, 64, 65, 100, 127, 128, 1000>>
ShiftSeq == [n \in 1..Len(ShiftNat) |-> FromInt(ShiftNat[n])]
              \o <<FromInt(-1), FromInt(-31), Neg(Pow2(31)), Neg(Pow2(64))>>
              \o <<Pow2(31), Add(Pow2(31), One), Pow2(64), Pow10(30)>>

--------------------------------------------------------------------------------
(* pseudo-random operands: x1' = 75 (x1 + 1) mod 65537 - 1 (period 2^16),
                           x2' = 171 x2 mod 30269          (period 30268); limb = (x1 + 3 x2) mod 2^15 *)
RStep(st) == [x1 |-> ((75 * (st.x1 + 1)) % 65537) - 1, x2 |-> (171 * st.x2) % 30269]
RVal(st)  == (st.x1 + 3 * st.x2) % B
RInit(seed, salt) == RStep(RStep([x1 |-> (seed * 7919 + salt * 104729 + 12345) % 65536,
                                  x2 |-> 1 + ((seed * 31 + salt * 17 + 5) % 30268)]))

RECURSIVE RLimbs(_, _)
RLimbs(st, cnt) == IF cnt = 0 THEN [v |-> <<>>, st |-> st]
                   ELSE LET rest == RLimbs(RStep(st), cnt - 1)
                        IN [v |-> <<RVal(st)>> \o rest.v, st |-> rest.st]

(* one operand: mostly uniform limbs with a random length of 1..18 limbs (the 18th limb keeps one
   bit: at most 256 bits); one in four is 2^e + d with e in 0..256, d in -2..2 *)
ROne(st) ==
    LET s1 == RStep(st)
        s2 == RStep(s1)
        s3 == RStep(s2)
        neg == RVal(s1) % 2 = 1
        shape == (RVal(s1) \div 2) % 4
        nl == 1 + (RVal(s2) % 18)
    IN IF shape = 0
       THEN [v |-> LET p == Add(Pow2(RVal(s2) % 257), FromInt((RVal(s3) % 5) - 2))
                   IN IF neg THEN Neg(p) ELSE p,
             st |-> s3]
       ELSE LET l == RLimbs(s3, nl)
                m == IF nl = 18 THEN [n \in 1..18 |-> IF n = 18 THEN l.v[n] % 2 ELSE l.v[n]] ELSE l.v
            IN [v |-> Mk(neg, m), st |-> l.st]

RECURSIVE RSeqAt(_, _)
RSeqAt(st, cnt) == IF cnt = 0 THEN <<>> ELSE LET o == ROne(st) IN <<o.v>> \o RSeqAt(o.st, cnt - 1)
RandA == RSeqAt(RInit(Params.seed, 1), Params.n)
RandB == RSeqAt(RInit(Params.seed, 2), Params.n)
RandShift == [n \in 1..12 |-> FromInt(RVal(RInit(Params.seed, 100 + n)) % 300)]

ASeq == IF Src = "rand" THEN RandA ELSE GridSeq
BSeq == IF Src = "grid" THEN GridSeq ELSE RandB
SSeq == IF Src = "grid" THEN ShiftSeq ELSE ShiftSeq \o RandShift
AStr == [n \in 1..Len(ASeq) |-> ToDecimalString(ASeq[n])]
BStr == [n \in 1..Len(BSeq) |-> ToDecimalString(BSeq[n])]
SStr == [n \in 1..Len(SSeq) |-> ToDecimalString(SSeq[n])]

--------------------------------------------------------------------------------
(* operators *)
BinOps   == {"+", "-", "*", "//", "%", "&", "|", "^", "==", "<", ">="}
ShiftOps == {"<<", ">>"}
UnaryOps == {"neg", "inv", "abs", "str", "intstr", "fmt_d", "fmt_x", "fmt_X", "fmt_o", "float_rt", "rust"}
ParseOps == {"parse", "parseU", "parseS", "parse0"}
HugeOps  == {"shlshr", "shlhuge", "shrhuge"}

PartOps == CASE Part = "arith"  -> {"+", "-", "*"}
             [] Part = "divmod" -> {"//", "%"}
             [] Part = "bits"   -> {"&", "|", "^"}
             [] Part = "cmp"    -> {"==", "<", ">="}
             [] Part = "shift"  -> ShiftOps
             [] Part = "unary"  -> UnaryOps
             [] Part = "parse"  -> ParseOps
             [] Part = "huge"   -> HugeOps

HugeA == <<One, MinusOne, FromInt(3), Pow2(31), Neg(Add(Pow2(64), One))>>
HugeK == <<4095, 65536, 99999, 100000>>

BRange(op) == CASE op \in BinOps   -> 1..Len(BSeq)
                [] op \in ShiftOps -> 1..Len(SSeq)
                [] op \in UnaryOps -> {0}
                [] op = "parse0"   -> {2, 8, 10, 16}
                [] op \in ParseOps -> 2..36
                [] op = "shlshr"   -> 1..Len(HugeK)
                [] op \in HugeOps  -> {1, 2, 3}
ARange(op) == IF op \in HugeOps THEN 1..Len(HugeA) ELSE 1..Len(ASeq)

Bool(p) == IF p THEN "True" ELSE "False"
Dec(x)  == ToDecimalString(x)

(* nearest IEEE-754 double of an integer, as an integer (ties to even); |x| < 2^1023 here *)
F64Round(x) ==
    LET bl == BitLen(x)
    IN IF bl <= 53 THEN x
       ELSE LET sh   == bl - 53
                qq   == MagShr(x.mag, sh)
                rem  == MagSub(x.mag, MagShiftLimbs(MagMulLimb(qq, NatPow2(sh % LBITS)), sh \div LBITS))
                half == Pow2(sh - 1).mag
                c    == MagCmp(rem, half)
                up   == c > 0 \/ (c = 0 /\ qq[1] % 2 = 1)
                q2   == IF up THEN MagAdd(qq, <<1>>) ELSE qq
            IN Shl(Mk(x.neg, q2), sh)

MaxShl == 4096      \* << by more than this is not materialised in the ordinary slices

EvalBin(op, x, y) ==
    CASE op = "+"  -> Dec(Add(x, y))
      [] op = "-"  -> Dec(Sub(x, y))
      [] op = "*"  -> Dec(Mul(x, y))
      [] op = "//" -> (IF IsZero(y) THEN "error:div0" ELSE Dec(FloorDiv(x, y)))
      [] op = "%"  -> (IF IsZero(y) THEN "error:div0" ELSE Dec(Mod(x, y)))
      [] op = "&"  -> Dec(And(x, y))
      [] op = "|"  -> Dec(Or(x, y))
      [] op = "^"  -> Dec(Xor(x, y))
      [] op = "==" -> Bool(x = y)
      [] op = "<"  -> Bool(Cmp(x, y) < 0)
      [] op = ">=" -> Bool(Cmp(x, y) >= 0)
      [] op = "<<" -> (IF y.neg THEN "error:negshift"
                       ELSE IF IsZero(x) THEN "0"
                       ELSE IF Cmp(y, FromInt(MaxShl)) > 0 THEN "huge"
                       ELSE Dec(Shl(x, ToInt(y))))
      [] op = ">>" -> (IF y.neg THEN "error:negshift"
                       ELSE IF Cmp(y, FromInt(BitLen(x) + 1)) > 0 THEN (IF x.neg THEN "-1" ELSE "0")
                       ELSE Dec(Shr(x, ToInt(y))))

Flag(p) == IF p THEN "1" ELSE "0"
EvalUnary(op, x) ==
    CASE op = "neg"    -> Dec(Neg(x))
      [] op = "inv"    -> Dec(Not(x))
      [] op = "abs"    -> Dec(Abs(x))
      [] op = "str"    -> Dec(x)
      [] op = "intstr" -> Dec(x)
      [] op = "fmt_d"  -> Dec(x)
      [] op = "fmt_x"  -> ToBaseString(x, 16, FALSE)
      [] op = "fmt_X"  -> ToBaseString(x, 16, TRUE)
      [] op = "fmt_o"  -> ToBaseString(x, 8, FALSE)
      [] op = "float_rt" -> Dec(F64Round(x))
      [] op = "rust"   -> Flag(FitsI32(x)) \o Flag(FitsU32(x)) \o Flag(FitsI64(x)) \o Flag(FitsU64(x))

Prefix(base) == CASE base = 2 -> "0b" [] base = 8 -> "0o" [] base = 16 -> "0x" [] OTHER -> ""
SignStr(x) == IF x.neg THEN "-" ELSE ""
(* the INPUT string of a parse case; the expected result is the number it was rendered from *)
ParseInput(op, x, base) ==
    CASE op = "parse"  -> ToBaseString(x, base, FALSE)
      [] op = "parseU" -> ToBaseString(x, base, TRUE)
      [] op = "parseS" -> ((IF x.neg THEN "-" ELSE "+") \o MagString(x, base, FALSE))
      [] op = "parse0" -> (SignStr(x) \o Prefix(base) \o MagString(x, base, FALSE))

(* magnitude class of a case: the largest operand *)
MagRank(x) == LET bl == BitLen(x)
              IN IF FitsI32(x) THEN 0 ELSE IF bl <= 32 THEN 1 ELSE IF bl = 33 THEN 2
                 ELSE IF bl <= 54 THEN 3 ELSE IF bl <= 64 THEN 4 ELSE IF bl = 65 THEN 5 ELSE 6
MagName == <<"small", "2^31", "2^32", "2^53", "2^63", "2^64", "big">>
MagOf2(x, y) == MagName[(IF MagRank(x) > MagRank(y) THEN MagRank(x) ELSE MagRank(y)) + 1]

CaseOf(op, ia, ib) ==
    IF op \in BinOps THEN <<op, AStr[ia], BStr[ib], EvalBin(op, ASeq[ia], BSeq[ib]), MagOf2(ASeq[ia], BSeq[ib])>>
    ELSE IF op \in ShiftOps THEN <<op, AStr[ia], SStr[ib], EvalBin(op, ASeq[ia], SSeq[ib]), MagOf2(ASeq[ia], Zero)>>
    ELSE IF op \in UnaryOps THEN <<op, AStr[ia], "", EvalUnary(op, ASeq[ia]), MagOf2(ASeq[ia], Zero)>>
    ELSE IF op \in ParseOps THEN <<op, ParseInput(op, ASeq[ia], ib), ToString(IF op = "parse0" THEN 0 ELSE ib),
                                   AStr[ia], MagOf2(ASeq[ia], Zero)>>
    ELSE IF op = "shlshr"            \* (a << k) >> (k - 20): exact, or a clean failure of the shift
         THEN <<op, Dec(HugeA[ia]), ToString(HugeK[ib]), Dec(Shr(Shl(HugeA[ia], HugeK[ib]), HugeK[ib] - 20)), "big">>
    ELSE IF op = "shlhuge"           \* a << 2^31.., a # 0: cannot exist; must fail cleanly
         THEN <<op, Dec(HugeA[ia]), Dec(<<Pow2(31), Pow2(64), Pow10(30)>>[ib]), "huge", "big">>
    ELSE <<op, Dec(HugeA[ia]), Dec(<<Pow2(31), Pow2(64), Pow10(30)>>[ib]),      \* shrhuge: a >> 2^31..
           IF HugeA[ia].neg THEN "-1" ELSE "0", "big">>

Init == gop \in PartOps /\ ga \in ARange(gop) /\ gb \in BRange(gop)
Next == UNCHANGED <<gop, ga, gb>>
Emit == PrintT(<<"CASE", ToJson(CaseOf(gop, ga, gb))>>)
=============================================================================

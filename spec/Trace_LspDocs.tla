---------------------------- MODULE Trace_LspDocs ----------------------------
(* V for C19: a session recorded from the real server (harness `vh_c19 hist`) is replayed against
   LspDocs under the SPECIFICATION policy ("latest").  Notifications sent by the client are the
   LspDocs actions of that name; what the server sent back is checked against the property:
     * publishDiagnostics carries the version just sent and only ranges valid in the latest text;
     * every range of every response is valid in the latest text of the document (Positions);
     * when the latest text parses, a definition answer at a use is exactly LspScope!Resolve of
       that latest text.
   A response that breaks the property does not stop the replay: it is printed as a BAD record
   (with the classification: which clause, whether the latest text parses) and the driver turns
   each into a disagreement.  Structural mismatches (an event no LspDocs action explains) reject
   the trace. *)
EXTENDS LspTexts, Json, IOUtils, TLC

VARIABLES docs, srv, ans, l

NoRanges(t) == {}
TValid(t, r) == ValidRange(TextInfo[t].lens, Rng(r[1], r[2], r[3], r[4]))

M == INSTANCE LspDocs WITH Uris <- {1, 2}, Texts <- 1..NHTexts, Parses <- HParses, RangesOf <- NoRanges,
                           Valid <- TValid, NoText <- 0, MaxVersion <- 1000, Policy <- "latest"

Rec == ndJsonDeserialize(IOEnv.TRACE)
Ev == Rec[l]
IsEv(a) == l <= Len(Rec) /\ Rec[l].a = a /\ l' = l + 1

Bad(kind, u) ==
    PrintT(<<"BAD", ToJson([at |-> l, kind |-> kind, u |-> u, t |-> docs[u].text, v |-> docs[u].version,
                             parses |-> IF docs[u].open THEN HParses(docs[u].text) ELSE FALSE,
                             nb |-> IF Ev.a = "req" /\ Ev.q > 0 THEN TextInfo[Ev.t].occs[Ev.q].nb ELSE FALSE,
                             ev |-> Ev])>>)
Check(cond, kind, u) == cond \/ Bad(kind, u)

RangesValid(u) == \A i \in 1..Len(Ev.rs) : TValid(docs[u].text, Ev.rs[i])

(* the expected definition answer at query point q of text t *)
TargetRanges(t, q) == {TextInfo[t].occs[j].r : j \in TextInfo[t].occs[q].targets}
DefOK(t, q, tg) ==
    IF q = 0 \/ TextInfo[t].occs[q].bind THEN TRUE        \* not a use: only validity is required
    ELSE IF TargetRanges(t, q) = {} THEN Len(tg) = 0
    ELSE Len(tg) = 1 /\ tg[1] \in TargetRanges(t, q)

TInit == M!Init /\ l = 1

Reset == IsEv("reset") /\ docs' = [u \in {1, 2} |-> M!Closed] /\ srv' = [u \in {1, 2} |-> M!NoSrv] /\ ans' = M!NoAns

TNext ==
    \/ Reset
    \/ IsEv("open") /\ M!Open(Ev.u, Ev.t) /\ docs'[Ev.u].version = Ev.v
    \/ IsEv("change") /\ M!Change(Ev.u, Ev.t) /\ docs'[Ev.u].version = Ev.v
    \/ IsEv("close") /\ M!Close(Ev.u)
    \/ /\ IsEv("diag") /\ UNCHANGED <<docs, srv, ans>>
       /\ Check(Ev.obs = "ok", "diag_" \o Ev.obs, Ev.u)
       /\ IF docs[Ev.u].open
          THEN /\ Check(Ev.obs # "ok" \/ Ev.v = docs[Ev.u].version, "diag_version", Ev.u)
               /\ Check(RangesValid(Ev.u), "diag_range", Ev.u)
          ELSE Check(Len(Ev.rs) = 0, "diag_after_close", Ev.u)
    \/ /\ IsEv("req") /\ docs[Ev.u].open /\ docs[Ev.u].text = Ev.t /\ UNCHANGED <<docs, srv, ans>>
       /\ Check(Ev.obs = "ok", "req_" \o Ev.obs, Ev.u)
       /\ Check(RangesValid(Ev.u), "req_range", Ev.u)
       /\ Check(~(HParses(Ev.t) /\ Ev.k = "def" /\ Ev.obs = "ok") \/ DefOK(Ev.t, Ev.q, Ev.tg), "def_target", Ev.u)
    \/ /\ IsEv("dead") /\ UNCHANGED <<docs, srv, ans>> /\ Bad("dead", Ev.u)

TSpec == TInit /\ [][TNext]_<<docs, srv, ans, l>>

Accepted ==
    LET d == TLCGet("stats").diameter IN
    IF d - 1 = Len(Rec) THEN TRUE
    ELSE /\ PrintT(<<"REJECTED", d, ToJson(Rec[d])>>)
         /\ FALSE
=============================================================================

------------------------------- MODULE LspDocs -------------------------------
(* The document store of a language server (mirrors starlark_lsp/src/server.rs: did_open,
   did_change, did_close, validate, the request handlers).

   Client side: docs[u] = [open, version, text].  Server side: what the server keeps per document
   to answer requests from, srv[u] = [has, version, text] (the implementation's
   `last_valid_parse`).  The PROPERTY (C19): every answer is computed from the latest text of the
   document and every range in it is a valid range of that latest text; diagnostics are published
   for the latest version.

   `Policy` selects how the server maintains srv when a new text arrives:
     "latest"        -- the specification: the answer is a function of docs[u] itself; a text that
                        does not parse has no ranges to offer;
     "drop_on_fail"  -- keep a parse only while it is the parse of the latest text;
     "last_valid"    -- keep the parse of the last text that parsed (what server.rs does).
   AnswerOK is an invariant under the first two and is violated under the third (TLC finds
   Open(valid, long) ; Change(broken, short) ; Request) -- cfg/MC_LspDocs_stale.cfg expects that
   counterexample. *)
EXTENDS Naturals, Sequences, FiniteSets

CONSTANTS Uris,            \* document identifiers
          Texts,           \* text identifiers
          Parses(_),       \* text -> BOOLEAN
          RangesOf(_),     \* text -> the ranges a correct analysis of that text can return
          Valid(_, _),     \* (text, range) -> BOOLEAN: the range denotes valid positions of the text
          NoText,          \* a value of the same kind as the elements of Texts, not in Texts
          MaxVersion,
          Policy

VARIABLES docs, srv, ans

vars == <<docs, srv, ans>>

ASSUME NoText \notin Texts
Closed == [open |-> FALSE, version |-> 0, text |-> NoText]
NoSrv  == [has |-> FALSE, version |-> 0, text |-> NoText]
NoAns  == [some |-> FALSE, u |-> CHOOSE u \in Uris : TRUE, version |-> 0, rs |-> {}, diag |-> FALSE]

Init == /\ docs = [u \in Uris |-> Closed]
        /\ srv = [u \in Uris |-> NoSrv]
        /\ ans = NoAns

(* server.rs::validate *)
Validate(u, v, t) ==
    srv' = [srv EXCEPT ![u] =
              IF Parses(t) THEN [has |-> TRUE, version |-> v, text |-> t]
              ELSE IF Policy = "last_valid" THEN @ ELSE NoSrv]

(* publishDiagnostics always carries the version just received *)
Diag(u, v) == ans' = [some |-> TRUE, u |-> u, version |-> v, rs |-> {}, diag |-> TRUE]

Open(u, t) == /\ ~docs[u].open
              /\ docs' = [docs EXCEPT ![u] = [open |-> TRUE, version |-> 1, text |-> t]]
              /\ Validate(u, 1, t)
              /\ Diag(u, 1)

Change(u, t) == /\ docs[u].open
                /\ docs[u].version < MaxVersion
                /\ docs' = [docs EXCEPT ![u] = [open |-> TRUE, version |-> docs[u].version + 1, text |-> t]]
                /\ Validate(u, docs[u].version + 1, t)
                /\ Diag(u, docs[u].version + 1)

Close(u) == /\ docs[u].open
            /\ docs' = [docs EXCEPT ![u] = Closed]
            /\ srv' = [srv EXCEPT ![u] = NoSrv]
            /\ ans' = NoAns

(* the basis the server answers from *)
Basis(u) == IF Policy = "latest"
            THEN (IF Parses(docs[u].text) THEN [has |-> TRUE, version |-> docs[u].version, text |-> docs[u].text] ELSE NoSrv)
            ELSE srv[u]

Request(u) == /\ docs[u].open
              /\ LET b == Basis(u) IN
                 IF b.has
                 THEN \E rs \in SUBSET RangesOf(b.text) :
                         ans' = [some |-> TRUE, u |-> u, version |-> b.version, rs |-> rs, diag |-> FALSE]
                 ELSE ans' = [some |-> TRUE, u |-> u, version |-> docs[u].version, rs |-> {}, diag |-> FALSE]
              /\ UNCHANGED <<docs, srv>>

Next == \E u \in Uris : \/ \E t \in Texts : Open(u, t) \/ Change(u, t)
                        \/ Close(u)
                        \/ Request(u)

Spec == Init /\ [][Next]_vars

(* the property *)
AnswerOK == ans.some => /\ docs[ans.u].open
                        /\ ans.version = docs[ans.u].version
                        /\ \A r \in ans.rs : Valid(docs[ans.u].text, r)

TypeOK == /\ \A u \in Uris : docs[u].open => docs[u].text \in Texts /\ docs[u].version \in 1..MaxVersion
          /\ \A u \in Uris : srv[u].has => docs[u].open /\ Parses(srv[u].text)
=============================================================================

---------------------------- MODULE MC_Positions ----------------------------
(* M for Positions.tla: every document over the eight code-point classes up to MaxLen is an
   initial state; the laws below are invariants.  (Pure functions: no transitions.) *)
EXTENDS Positions, FiniteSets, TLC

CONSTANT MaxLen

Alpha == {97, 49, 32, LF, CR, 233, 8364, 119070}   \* a 1 ' ' \n \r  e-acute  euro  G-clef(astral)

VARIABLE doc

Init == doc \in UNION {[1..n -> Alpha] : n \in 0..MaxLen}
Next == UNCHANGED doc

Tab  == Table(doc)
Lens == LineLens16(doc)
Places == 0..Len(doc)
InsideCrLf(k) == k >= 1 /\ k < Len(doc) /\ doc[k] = CR /\ doc[k + 1] = LF

RECURSIVE SumLen(_, _)
SumLen(d, k) == IF k = 0 THEN 0 ELSE SumLen(d, k - 1) + Utf8Len(d[k])

Shape == /\ Len(Tab) = Len(doc) + 1
         /\ Tab[Len(Tab)].b = SumLen(doc, Len(doc))
         /\ Len(Lens) = Tab[Len(Tab)].l + 1
         /\ \A k \in Places : k > 0 => Tab[k + 1].b > Tab[k].b

(* every place that is not between \r and \n is a valid Position, and converting back is exact *)
RoundTrip == \A k \in Places : ~InsideCrLf(k) =>
                LET p == OffsetToPos(Tab, Tab[k + 1].b) IN
                /\ ValidPos(Lens, p)
                /\ HasPlace(Tab, p)
                /\ PosToOffset(Tab, p) = Tab[k + 1].b

(* the end of each line is the largest valid character on it *)
LineEnds == \A k \in Places :
               (k = Len(doc) \/ (k < Len(doc) /\ InEol(doc, k + 1) /\ ~InsideCrLf(k))) =>
                    Tab[k + 1].w = Lens[Tab[k + 1].l + 1]

(* no Position names the middle of a surrogate pair; UTF-16 and code-point columns differ exactly
   after an astral code point on the same line, bytes and code points after a non-ASCII one *)
Surrogates == \A k \in 1..Len(doc) :
                 /\ IsAstral(doc[k]) => ~HasPlace(Tab, Pos(Tab[k + 1].l, Tab[k + 1].w - 1))
                 /\ AstralBefore(Tab, k) = (\E j \in 1..k : IsAstral(doc[j]) /\ (\A m \in j..k : ~EndsLine(doc, m)))
                 /\ NonAsciiBefore(Tab, k) = (\E j \in 1..k : ~IsAscii(doc[j]) /\ (\A m \in j..k : ~EndsLine(doc, m)))

(* a range is valid iff it denotes two places in order *)
Ranges == \A a \in Places : \A e \in Places :
             (~InsideCrLf(a) /\ ~InsideCrLf(e)) =>
                 (ValidRange(Lens, ToLspRange(Tab, a, e)) <=> a <= e)

Beyond == /\ ~ValidPos(Lens, Pos(Len(Lens), 0))
          /\ \A l \in 0..(Len(Lens) - 1) : ~ValidPos(Lens, Pos(l, Lens[l + 1] + 1))

Inv == Shape /\ RoundTrip /\ LineEnds /\ Surrogates /\ Ranges /\ Beyond
=============================================================================

------------------------------ MODULE Grammar ------------------------------
(* The reference grammar of the Starlark language specification (the part shared with Python),
   written as a STRATIFIED recursive recogniser / AST builder over token sequences: one operator
   per precedence level

     Test -> OrTest -> AndTest -> NotTest -> Comparison -> BitOr -> BitXor -> BitAnd -> Shift
          -> Arith -> Term -> Unary -> Primary -> Atom

   It is written from the grammar of the language specification, not from parser_rd.rs (which is
   a Pratt parser driven by a binding-power table).  Tokens are strings: identifiers are single
   lower-case letters, "0" "1" "2" integer literals, "\"s\"" "\"t\"" string literals, operators
   and keywords are their own spelling, NEWLINE / INDENT / DEDENT are the layout tokens.

   Every parse operator takes the token sequence T and a position i and returns
   [ok, a, i]: success flag, AST (a tagged record, tag field k) and the position after the
   construct.  Statement-level operators return a SEQUENCE of statement ASTs in field a.

   Static rules of the language definition that make a file invalid are part of acceptance:
   assignment-target restrictions, parameter order / duplicate names, argument order / repeated
   names, break/continue outside a loop, return outside a def, comparisons do not chain.

   Choices where the written grammar is looser than Python (so the source is not in the shared
   grammar) yield a node tagged "unshared"; generators drop such cases instead of judging them:
     * a lambda as the condition of a comprehension `if`   (Python >= 3.9 rejects)
     * an unparenthesised tuple as the lower bound of a slice `a[b, c:d]`  (Python reads a tuple
       containing a slice)
   Modelled extension (accepted by Python and by every Starlark implementation, although the
   written LambdaExpr production has no trailing comma): `lambda a,: b`. *)
EXTENDS Naturals, Sequences, FiniteSets, TLC

Idents == {"a","b","c","d","e","f","g","h","j","k","m","n","p","q","r","s","t","u","v","w","x","y","z"}
Ints   == {"0","1","2"}
Strs   == {"\"s\"", "\"t\""}
AtomToks == Idents \cup Ints \cup Strs
IsId(t) == t \in Idents

CompOps == {"==","!=","<",">","<=",">=","in"}
AugOps  == {"+=","-=","*=","/=","//=","%=","&=","|=","^=","<<=",">>="}
\* FIRST(Test)
StartsTest(t) == t \in AtomToks \cup {"(","[","{","+","-","~","not","lambda"}

Nil     == [k |-> "none"]
Fail    == [ok |-> FALSE, a |-> Nil, i |-> 0]
Ok(a,i) == [ok |-> TRUE, a |-> a, i |-> i]
FailL   == [ok |-> FALSE, xs |-> <<>>, i |-> 0, trail |-> FALSE]
OkL(xs,i,tr) == [ok |-> TRUE, xs |-> xs, i |-> i, trail |-> tr]
FailS   == [ok |-> FALSE, a |-> <<>>, i |-> 0]
OkS(a,i) == [ok |-> TRUE, a |-> a, i |-> i]

Tok(T,i) == IF i >= 1 /\ i <= Len(T) THEN T[i] ELSE "EOF"

Leaf(t) == [k |-> (IF t \in Idents THEN "id" ELSE IF t \in Ints THEN "int" ELSE "str"), v |-> t]
Bin(op,l,r) == [k |-> "bin", op |-> op, l |-> l, r |-> r]
Tuple(xs,bare) == [k |-> "tuple", xs |-> xs, bare |-> bare]

RECURSIVE Test(_,_), OrTest(_,_), OrLoop(_,_,_), AndTest(_,_), AndLoop(_,_,_), NotTest(_,_),
          Comparison(_,_), CompLoop(_,_,_,_), BitOr(_,_), BitOrLoop(_,_,_), BitXor(_,_), BitXorLoop(_,_,_),
          BitAnd(_,_), BitAndLoop(_,_,_), Shift(_,_), ShiftLoop(_,_,_,_), Arith(_,_), ArithLoop(_,_,_,_),
          Term(_,_), TermLoop(_,_,_,_), Unary(_,_), Primary(_,_), Suffix(_,_,_), Atom(_,_),
          TestSeq(_,_,_), Expression(_,_,_), ArgSeq(_,_,_), Arg(_,_), Subscript(_,_,_),
          ListOrComp(_,_), DictOrComp(_,_), EntrySeq(_,_,_), Clauses(_,_,_), LoopVars(_,_),
          PrimSeq(_,_,_), LambdaE(_,_), ParamSeq(_,_,_,_), Param(_,_),
          IsTarget(_), AsTarget(_)

(* ---------------------------------------------------------------- targets *)
IsTarget(e) ==
  CASE e.k \in {"id","dot","index"} -> TRUE
    [] e.k \in {"tuple","list"}     -> (\A j \in 1..Len(e.xs) : IsTarget(e.xs[j]))
    [] OTHER                        -> FALSE
\* a list pattern and a tuple pattern are the same target
AsTarget(e) ==
  CASE e.k \in {"tuple","list"} -> (Tuple([j \in 1..Len(e.xs) |-> AsTarget(e.xs[j])], FALSE))
    [] OTHER -> e
IsAugTarget(e) == e.k \in {"id","dot","index"}

(* ---------------------------------------------------------------- Test: lambda, conditional *)
Test(T,i) ==
  IF Tok(T,i) = "lambda" THEN LambdaE(T,i)
  ELSE LET a == OrTest(T,i) IN
       IF ~a.ok THEN Fail
       ELSE IF Tok(T,a.i) # "if" THEN a
       ELSE LET c == OrTest(T, a.i + 1) IN
            IF ~c.ok THEN Fail
            ELSE IF Tok(T,c.i) # "else" THEN Fail
            ELSE LET e == Test(T, c.i + 1) IN
                 IF ~e.ok THEN Fail
                 ELSE Ok([k |-> "if", c |-> c.a, t |-> a.a, e |-> e.a], e.i)

(* Left-associative levels are written  Level == Sub {op Sub}  as a loop that carries the tree
   built so far (l, Nil at the start) and the pending operator. *)
Comb(op,l,r) == IF l.k = "none" THEN r ELSE Bin(op,l,r)
(* ---------------------------------------------------------------- or *)
OrTest(T,i) == OrLoop(T, Nil, i)
OrLoop(T,l,i) ==
  LET r == AndTest(T,i) IN
  IF ~r.ok THEN Fail
  ELSE IF Tok(T,r.i) = "or" THEN OrLoop(T, Comb("or",l,r.a), r.i+1) ELSE Ok(Comb("or",l,r.a), r.i)

(* ---------------------------------------------------------------- and *)
AndTest(T,i) == AndLoop(T, Nil, i)
AndLoop(T,l,i) ==
  LET r == NotTest(T,i) IN
  IF ~r.ok THEN Fail
  ELSE IF Tok(T,r.i) = "and" THEN AndLoop(T, Comb("and",l,r.a), r.i+1) ELSE Ok(Comb("and",l,r.a), r.i)

(* ---------------------------------------------------------------- not *)
NotTest(T,i) ==
  IF Tok(T,i) = "not"
  THEN LET x == NotTest(T,i+1) IN IF ~x.ok THEN Fail ELSE Ok([k |-> "not", x |-> x.a], x.i)
  ELSE Comparison(T,i)

(* ---------------------------------------------------------------- comparison: NON-associative *)
CompOpAt(T,i) ==
  IF Tok(T,i) \in CompOps THEN [op |-> Tok(T,i), n |-> 1]
  ELSE IF Tok(T,i) = "not" /\ Tok(T,i+1) = "in" THEN [op |-> "not in", n |-> 2]
  ELSE [op |-> "", n |-> 0]
\* BitOr [compop BitOr]; a further comparison operator after the second operand is an error
\* (a < b < c is not a Starlark expression): CompLoop is entered at most twice
Comparison(T,i) == CompLoop(T, Nil, "", i)
CompLoop(T,l,op,i) ==
  LET r == BitOr(T,i) IN
  IF ~r.ok THEN Fail
  ELSE LET nx == CompOpAt(T, r.i) IN
       IF l.k = "none"
       THEN (IF nx.n = 0 THEN r ELSE CompLoop(T, r.a, nx.op, r.i + nx.n))
       ELSE (IF nx.n > 0 THEN Fail ELSE Ok(Bin(op,l,r.a), r.i))

(* ---------------------------------------------------------------- | *)
BitOr(T,i) == BitOrLoop(T, Nil, i)
BitOrLoop(T,l,i) ==
  LET r == BitXor(T,i) IN
  IF ~r.ok THEN Fail
  ELSE IF Tok(T,r.i) = "|" THEN BitOrLoop(T, Comb("|",l,r.a), r.i+1) ELSE Ok(Comb("|",l,r.a), r.i)
(* ---------------------------------------------------------------- ^ *)
BitXor(T,i) == BitXorLoop(T, Nil, i)
BitXorLoop(T,l,i) ==
  LET r == BitAnd(T,i) IN
  IF ~r.ok THEN Fail
  ELSE IF Tok(T,r.i) = "^" THEN BitXorLoop(T, Comb("^",l,r.a), r.i+1) ELSE Ok(Comb("^",l,r.a), r.i)
(* ---------------------------------------------------------------- & *)
BitAnd(T,i) == BitAndLoop(T, Nil, i)
BitAndLoop(T,l,i) ==
  LET r == Shift(T,i) IN
  IF ~r.ok THEN Fail
  ELSE IF Tok(T,r.i) = "&" THEN BitAndLoop(T, Comb("&",l,r.a), r.i+1) ELSE Ok(Comb("&",l,r.a), r.i)
(* ---------------------------------------------------------------- << >> *)
Shift(T,i) == ShiftLoop(T, Nil, "", i)
ShiftLoop(T,l,op,i) ==
  LET r == Arith(T,i) IN
  IF ~r.ok THEN Fail
  ELSE IF Tok(T,r.i) \in {"<<",">>"} THEN ShiftLoop(T, Comb(op,l,r.a), T[r.i], r.i+1) ELSE Ok(Comb(op,l,r.a), r.i)
(* ---------------------------------------------------------------- + - *)
Arith(T,i) == ArithLoop(T, Nil, "", i)
ArithLoop(T,l,op,i) ==
  LET r == Term(T,i) IN
  IF ~r.ok THEN Fail
  ELSE IF Tok(T,r.i) \in {"+","-"} THEN ArithLoop(T, Comb(op,l,r.a), T[r.i], r.i+1) ELSE Ok(Comb(op,l,r.a), r.i)
(* ---------------------------------------------------------------- * / // % *)
Term(T,i) == TermLoop(T, Nil, "", i)
TermLoop(T,l,op,i) ==
  LET r == Unary(T,i) IN
  IF ~r.ok THEN Fail
  ELSE IF Tok(T,r.i) \in {"*","/","//","%"} THEN TermLoop(T, Comb(op,l,r.a), T[r.i], r.i+1) ELSE Ok(Comb(op,l,r.a), r.i)
(* ---------------------------------------------------------------- unary + - ~ *)
Unary(T,i) ==
  IF Tok(T,i) \in {"+","-","~"}
  THEN LET x == Unary(T,i+1) IN IF ~x.ok THEN Fail ELSE Ok([k |-> "un", op |-> T[i], x |-> x.a], x.i)
  ELSE Primary(T,i)

(* ---------------------------------------------------------------- primary: atom {suffix} *)
Primary(T,i) == LET a == Atom(T,i) IN IF ~a.ok THEN Fail ELSE Suffix(T, a.a, a.i)

\* argument order of the language definition: positional, named, *args, **kwargs; one of each
\* of the last two; names distinct
ArgStage(a) == CASE a.k = "pos" -> 1 [] a.k = "named" -> 2 [] a.k = "star" -> 3 [] OTHER -> 4
ArgsOk(xs) ==
  /\ \A p \in 1..Len(xs) : \A q \in 1..Len(xs) : p < q =>
        /\ ArgStage(xs[p]) <= ArgStage(xs[q])
        /\ ~(xs[p].k = "star" /\ xs[q].k = "star")
        /\ ~(xs[p].k = "starstar" /\ xs[q].k = "starstar")
        /\ ~(xs[p].k = "named" /\ xs[q].k = "named" /\ xs[p].name = xs[q].name)

Suffix(T,x,i) ==
  CASE Tok(T,i) = "." ->
         (IF IsId(Tok(T,i+1)) THEN Suffix(T, [k |-> "dot", x |-> x, name |-> T[i+1]], i+2) ELSE Fail)
    [] Tok(T,i) = "(" ->
         (LET as == ArgSeq(T, <<>>, i+1) IN
          IF ~as.ok THEN Fail
          ELSE IF ~ArgsOk(as.xs) THEN Fail
          ELSE Suffix(T, [k |-> "call", f |-> x, args |-> as.xs], as.i))
    [] Tok(T,i) = "[" ->
         (LET s == Subscript(T, x, i+1) IN IF ~s.ok THEN Fail ELSE Suffix(T, s.a, s.i))
    [] OTHER -> Ok(x,i)

\* Arguments [','] ')'  -- position i is just after '(' or after a ','
ArgSeq(T,xs,i) ==
  IF Tok(T,i) = ")" THEN OkL(xs, i+1, FALSE)
  ELSE LET a == Arg(T,i) IN
       IF ~a.ok THEN FailL
       ELSE IF Tok(T,a.i) = "," THEN ArgSeq(T, Append(xs,a.a), a.i+1)
       ELSE IF Tok(T,a.i) = ")" THEN OkL(Append(xs,a.a), a.i+1, FALSE)
       ELSE FailL
Arg(T,i) ==
  CASE Tok(T,i) = "*"  -> (LET e == Test(T,i+1) IN IF ~e.ok THEN Fail
                           ELSE Ok([k |-> "star", name |-> "", x |-> e.a], e.i))
    [] Tok(T,i) = "**" -> (LET e == Test(T,i+1) IN IF ~e.ok THEN Fail
                           ELSE Ok([k |-> "starstar", name |-> "", x |-> e.a], e.i))
    [] IsId(Tok(T,i)) /\ Tok(T,i+1) = "=" ->
                          (LET e == Test(T,i+2) IN IF ~e.ok THEN Fail
                           ELSE Ok([k |-> "named", name |-> T[i], x |-> e.a], e.i))
    [] OTHER           -> (LET e == Test(T,i) IN IF ~e.ok THEN Fail
                           ELSE Ok([k |-> "pos", name |-> "", x |-> e.a], e.i))

\* SliceSuffix = '[' [Expression] ':' [Test] [':' [Test]] ']' | '[' Expression ']'   (i after '[')
Slice(x,lo,hi,st) == [k |-> "slice", x |-> x, lo |-> lo, hi |-> hi, st |-> st]
Subscript(T,x,i) ==
  LET lo == IF Tok(T,i) = ":" THEN Ok(Nil,i) ELSE Expression(T,i,FALSE) IN
  IF ~lo.ok THEN Fail
  ELSE IF Tok(T,lo.i) = "]"
       THEN (IF lo.a.k = "none" THEN Fail ELSE Ok([k |-> "index", x |-> x, ix |-> lo.a], lo.i+1))
  ELSE IF Tok(T,lo.i) # ":" THEN Fail
  ELSE LET lo2 == IF lo.a.k = "tuple" /\ lo.a.bare THEN [k |-> "unshared", x |-> lo.a] ELSE lo.a
           hi  == IF Tok(T,lo.i+1) \in {":","]"} THEN Ok(Nil, lo.i+1) ELSE Test(T, lo.i+1) IN
       IF ~hi.ok THEN Fail
       ELSE IF Tok(T,hi.i) = "]" THEN Ok(Slice(x, lo2, hi.a, Nil), hi.i+1)
       ELSE IF Tok(T,hi.i) # ":" THEN Fail
       ELSE LET st == IF Tok(T,hi.i+1) = "]" THEN Ok(Nil, hi.i+1) ELSE Test(T, hi.i+1) IN
            IF ~st.ok THEN Fail
            ELSE IF Tok(T,st.i) # "]" THEN Fail
            ELSE Ok(Slice(x, lo2, hi.a, st.a), st.i+1)

(* ---------------------------------------------------------------- atoms *)
Atom(T,i) ==
  CASE Tok(T,i) \in AtomToks -> Ok(Leaf(T[i]), i+1)
    [] Tok(T,i) = "(" ->
         (IF Tok(T,i+1) = ")" THEN Ok(Tuple(<<>>, FALSE), i+2)
          ELSE LET e == Expression(T, i+1, TRUE) IN
               IF ~e.ok THEN Fail
               ELSE IF Tok(T,e.i) # ")" THEN Fail
               ELSE Ok(e.a, e.i+1))
    [] Tok(T,i) = "[" -> ListOrComp(T,i)
    [] Tok(T,i) = "{" -> DictOrComp(T,i)
    [] OTHER -> Fail

\* {',' Test} [','] after a first element; position i is after the last parsed element
TestSeq(T,xs,i) ==
  IF Tok(T,i) # "," THEN OkL(xs, i, FALSE)
  ELSE IF ~StartsTest(Tok(T,i+1)) THEN OkL(xs, i+1, TRUE)
  ELSE LET e == Test(T,i+1) IN IF ~e.ok THEN FailL ELSE TestSeq(T, Append(xs,e.a), e.i)

\* Expression = Test {',' Test}; a trailing comma only inside parentheses (trailOk)
Expression(T,i,trailOk) ==
  LET f == Test(T,i) IN
  IF ~f.ok THEN Fail
  ELSE LET s == TestSeq(T, <<f.a>>, f.i) IN
       IF ~s.ok THEN Fail
       ELSE IF Len(s.xs) = 1 /\ ~s.trail THEN Ok(f.a, s.i)
       ELSE IF s.trail /\ ~trailOk THEN Fail
       ELSE Ok(Tuple(s.xs, ~trailOk), s.i)

ListOrComp(T,i) ==
  IF Tok(T,i+1) = "]" THEN Ok([k |-> "list", xs |-> <<>>], i+2)
  ELSE LET f == Test(T,i+1) IN
       IF ~f.ok THEN Fail
       ELSE IF Tok(T,f.i) = "for"
            THEN (LET c == Clauses(T, <<>>, f.i) IN
                  IF ~c.ok THEN Fail
                  ELSE IF Tok(T,c.i) # "]" THEN Fail
                  ELSE Ok([k |-> "lcomp", e |-> f.a, cl |-> c.xs], c.i+1))
            ELSE (LET s == TestSeq(T, <<f.a>>, f.i) IN
                  IF ~s.ok THEN Fail
                  ELSE IF Tok(T,s.i) # "]" THEN Fail
                  ELSE Ok([k |-> "list", xs |-> s.xs], s.i+1))

Entry(T,i) ==
  LET kk == Test(T,i) IN
  IF ~kk.ok THEN Fail
  ELSE IF Tok(T,kk.i) # ":" THEN Fail
  ELSE LET v == Test(T,kk.i+1) IN
       IF ~v.ok THEN Fail ELSE Ok([key |-> kk.a, val |-> v.a], v.i)
\* {',' Entry} [','] : position after an entry
EntrySeq(T,xs,i) ==
  IF Tok(T,i) # "," THEN OkL(xs, i, FALSE)
  ELSE IF Tok(T,i+1) = "}" THEN OkL(xs, i+1, TRUE)
  ELSE LET e == Entry(T,i+1) IN IF ~e.ok THEN FailL ELSE EntrySeq(T, Append(xs,e.a), e.i)
DictOrComp(T,i) ==
  IF Tok(T,i+1) = "}" THEN Ok([k |-> "dict", xs |-> <<>>], i+2)
  ELSE LET f == Entry(T,i+1) IN
       IF ~f.ok THEN Fail
       ELSE IF Tok(T,f.i) = "for"
            THEN (LET c == Clauses(T, <<>>, f.i) IN
                  IF ~c.ok THEN Fail
                  ELSE IF Tok(T,c.i) # "}" THEN Fail
                  ELSE Ok([k |-> "dcomp", key |-> f.a.key, val |-> f.a.val, cl |-> c.xs], c.i+1))
            ELSE (LET s == EntrySeq(T, <<f.a>>, f.i) IN
                  IF ~s.ok THEN Fail
                  ELSE IF Tok(T,s.i) # "}" THEN Fail
                  ELSE Ok([k |-> "dict", xs |-> s.xs], s.i+1))

\* CompClause = 'for' LoopVariables 'in' OrTest | 'if' OrTest.  The operands are OrTests: a
\* conditional expression there would make `[a for b in c if d else e]` ambiguous (Python's
\* or_test / Starlark's "Test without conditional").
Clauses(T,cs,i) ==
  CASE Tok(T,i) = "for" ->
         (LET v == LoopVars(T,i+1) IN
          IF ~v.ok THEN FailL
          ELSE IF Tok(T,v.i) # "in" THEN FailL
          ELSE LET o == OrTest(T, v.i+1) IN
               IF ~o.ok THEN FailL
               ELSE Clauses(T, Append(cs, [k |-> "for", var |-> v.a, x |-> o.a]), o.i))
    [] Tok(T,i) = "if" ->
         (IF Tok(T,i+1) = "lambda"
          THEN (LET c == LambdaE(T,i+1) IN IF ~c.ok THEN FailL
                ELSE Clauses(T, Append(cs, [k |-> "cif", var |-> Nil, x |-> [k |-> "unshared", x |-> c.a]]), c.i))
          ELSE (LET c == OrTest(T,i+1) IN IF ~c.ok THEN FailL
                ELSE Clauses(T, Append(cs, [k |-> "cif", var |-> Nil, x |-> c.a]), c.i)))
    [] OTHER -> OkL(cs, i, FALSE)

\* LoopVariables = PrimaryExpr {',' PrimaryExpr}, each an assignment target
PrimSeq(T,xs,i) ==
  IF Tok(T,i) # "," THEN OkL(xs, i, FALSE)
  ELSE LET e == Primary(T,i+1) IN IF ~e.ok THEN FailL ELSE PrimSeq(T, Append(xs,e.a), e.i)
LoopVars(T,i) ==
  LET f == Primary(T,i) IN
  IF ~f.ok THEN Fail
  ELSE LET s == PrimSeq(T, <<f.a>>, f.i) IN
       IF ~s.ok THEN Fail
       ELSE LET e == IF Len(s.xs) = 1 THEN f.a ELSE Tuple(s.xs, TRUE) IN
            IF ~IsTarget(e) THEN Fail ELSE Ok(AsTarget(e), s.i)

(* ---------------------------------------------------------------- lambda, parameters *)
\* Parameter = id | id '=' Test | '*' | '*' id | '**' id
Param(T,i) ==
  CASE Tok(T,i) = "*"  -> (IF IsId(Tok(T,i+1)) THEN Ok([k |-> "args", name |-> T[i+1], d |-> Nil], i+2)
                           ELSE Ok([k |-> "star", name |-> "", d |-> Nil], i+1))
    [] Tok(T,i) = "**" -> (IF IsId(Tok(T,i+1)) THEN Ok([k |-> "kwargs", name |-> T[i+1], d |-> Nil], i+2)
                           ELSE Fail)
    [] IsId(Tok(T,i))  -> (IF Tok(T,i+1) = "="
                           THEN (LET e == Test(T,i+2) IN IF ~e.ok THEN Fail
                                 ELSE Ok([k |-> "p", name |-> T[i], d |-> e.a], e.i))
                           ELSE Ok([k |-> "p", name |-> T[i], d |-> Nil], i+1))
    [] OTHER -> Fail
\* [Parameters [',']] close   -- position after '(' / 'lambda' / ','
ParamSeq(T,xs,i,close) ==
  IF Tok(T,i) = close THEN OkL(xs, i+1, FALSE)
  ELSE LET p == Param(T,i) IN
       IF ~p.ok THEN FailL
       ELSE IF Tok(T,p.i) = "," THEN ParamSeq(T, Append(xs,p.a), p.i+1, close)
       ELSE IF Tok(T,p.i) = close THEN OkL(Append(xs,p.a), p.i+1, FALSE)
       ELSE FailL
\* order rules of the language definition
ParamsOk(ps) ==
  LET n == Len(ps)
      Starry(j) == ps[j].k \in {"star","args"} IN
  /\ \A p \in 1..n : \A q \in 1..n : p < q =>
        /\ ~(ps[p].name # "" /\ ps[p].name = ps[q].name)            \* distinct names
        /\ ~(Starry(p) /\ Starry(q))                                 \* one * / *args
        /\ ps[p].k # "kwargs"                                        \* **kwargs is last
        \* before * / *args: no required parameter after an optional one
        /\ ~(ps[p].k = "p" /\ ps[q].k = "p" /\ ps[p].d.k # "none" /\ ps[q].d.k = "none"
             /\ ~(\E s \in 1..q : Starry(s)))
  /\ \A p \in 1..n : ps[p].k = "star" => (p < n /\ ps[p+1].k = "p") \* bare * needs a keyword-only parameter
LambdaE(T,i) ==
  LET ps == ParamSeq(T, <<>>, i+1, ":") IN
  IF ~ps.ok THEN Fail
  ELSE IF ~ParamsOk(ps.xs) THEN Fail
  ELSE LET b == Test(T, ps.i) IN
       IF ~b.ok THEN Fail ELSE Ok([k |-> "lambda", ps |-> ps.xs, body |-> b.a], b.i)

(* ================================================================ statements *)
RECURSIVE Stmt(_,_,_,_), Suite(_,_,_,_), Block(_,_,_,_,_), SimpleStmt(_,_,_,_), SmallSeq(_,_,_,_,_),
          IfStmt(_,_,_,_), FileSeq(_,_,_)

Small(T,i,inDef,inFor) ==
  CASE Tok(T,i) = "return" ->
         (IF ~inDef THEN Fail
          ELSE IF Tok(T,i+1) \in {"NEWLINE",";"} THEN Ok([k |-> "return", x |-> Nil], i+1)
          ELSE LET e == Expression(T,i+1,FALSE) IN
               IF ~e.ok THEN Fail ELSE Ok([k |-> "return", x |-> e.a], e.i))
    [] Tok(T,i) \in {"break","continue"} -> (IF ~inFor THEN Fail ELSE Ok([k |-> T[i]], i+1))
    [] Tok(T,i) = "pass" -> Ok([k |-> "pass"], i+1)
    [] OTHER ->
         (LET l == Expression(T,i,FALSE) IN
          IF ~l.ok THEN Fail
          ELSE IF Tok(T,l.i) = "="
               THEN (LET r == Expression(T,l.i+1,FALSE) IN
                     IF ~r.ok THEN Fail
                     ELSE IF ~IsTarget(l.a) THEN Fail
                     ELSE Ok([k |-> "assign", lhs |-> AsTarget(l.a), rhs |-> r.a], r.i))
          ELSE IF Tok(T,l.i) \in AugOps
               THEN (LET r == Expression(T,l.i+1,FALSE) IN
                     IF ~r.ok THEN Fail
                     ELSE IF ~IsAugTarget(l.a) THEN Fail
                     ELSE Ok([k |-> "aug", op |-> T[l.i], lhs |-> l.a, rhs |-> r.a], r.i))
          ELSE Ok([k |-> "expr", x |-> l.a], l.i))

\* SimpleStmt = SmallStmt {';' SmallStmt} [';'] NEWLINE
SmallSeq(T,acc,i,inDef,inFor) ==
  LET s == Small(T,i,inDef,inFor) IN
  IF ~s.ok THEN FailS
  ELSE IF Tok(T,s.i) = ";"
       THEN (IF Tok(T,s.i+1) = "NEWLINE" THEN OkS(Append(acc,s.a), s.i+2)
             ELSE SmallSeq(T, Append(acc,s.a), s.i+1, inDef, inFor))
  ELSE IF Tok(T,s.i) = "NEWLINE" THEN OkS(Append(acc,s.a), s.i+1)
  ELSE FailS
SimpleStmt(T,i,inDef,inFor) == SmallSeq(T, <<>>, i, inDef, inFor)

\* Suite = NEWLINE INDENT {Statement}+ DEDENT | SimpleStmt
Block(T,acc,i,inDef,inFor) ==
  LET s == Stmt(T,i,inDef,inFor) IN
  IF ~s.ok THEN FailS
  ELSE IF Tok(T,s.i) = "DEDENT" THEN OkS(acc \o s.a, s.i+1)
  ELSE Block(T, acc \o s.a, s.i, inDef, inFor)
Suite(T,i,inDef,inFor) ==
  IF Tok(T,i) = "NEWLINE"
  THEN (IF Tok(T,i+1) = "INDENT" THEN Block(T, <<>>, i+2, inDef, inFor) ELSE FailS)
  ELSE SimpleStmt(T,i,inDef,inFor)

\* IfStmt = 'if' Test ':' Suite {'elif' Test ':' Suite} ['else' ':' Suite]; elif = else { if }
IfStmt(T,i,inDef,inFor) ==
  LET c == Test(T,i+1) IN
  IF ~c.ok THEN FailS
  ELSE IF Tok(T,c.i) # ":" THEN FailS
  ELSE LET th == Suite(T,c.i+1,inDef,inFor) IN
       IF ~th.ok THEN FailS
       ELSE CASE Tok(T,th.i) = "elif" ->
                   (LET e == IfStmt(T,th.i,inDef,inFor) IN
                    IF ~e.ok THEN FailS
                    ELSE OkS(<<[k |-> "if", c |-> c.a, th |-> th.a, el |-> e.a]>>, e.i))
              [] Tok(T,th.i) = "else" ->
                   (IF Tok(T,th.i+1) # ":" THEN FailS
                    ELSE LET e == Suite(T,th.i+2,inDef,inFor) IN
                         IF ~e.ok THEN FailS
                         ELSE OkS(<<[k |-> "if", c |-> c.a, th |-> th.a, el |-> e.a]>>, e.i))
              [] OTHER -> OkS(<<[k |-> "if", c |-> c.a, th |-> th.a, el |-> <<>>]>>, th.i)

ForStmt(T,i,inDef) ==
  LET v == LoopVars(T,i+1) IN
  IF ~v.ok THEN FailS
  ELSE IF Tok(T,v.i) # "in" THEN FailS
  ELSE LET o == Expression(T,v.i+1,FALSE) IN
       IF ~o.ok THEN FailS
       ELSE IF Tok(T,o.i) # ":" THEN FailS
       ELSE LET b == Suite(T,o.i+1,inDef,TRUE) IN
            IF ~b.ok THEN FailS
            ELSE OkS(<<[k |-> "for", var |-> v.a, x |-> o.a, body |-> b.a]>>, b.i)

DefStmt(T,i) ==
  IF ~IsId(Tok(T,i+1)) THEN FailS
  ELSE IF Tok(T,i+2) # "(" THEN FailS
  ELSE LET ps == ParamSeq(T, <<>>, i+3, ")") IN
       IF ~ps.ok THEN FailS
       ELSE IF ~ParamsOk(ps.xs) THEN FailS
       ELSE IF Tok(T,ps.i) # ":" THEN FailS
       ELSE LET b == Suite(T,ps.i+1,TRUE,FALSE) IN
            IF ~b.ok THEN FailS
            ELSE OkS(<<[k |-> "def", name |-> T[i+1], ps |-> ps.xs, body |-> b.a]>>, b.i)

Stmt(T,i,inDef,inFor) ==
  CASE Tok(T,i) = "def" -> DefStmt(T,i)
    [] Tok(T,i) = "if"  -> IfStmt(T,i,inDef,inFor)
    [] Tok(T,i) = "for" -> ForStmt(T,i,inDef)
    [] OTHER            -> SimpleStmt(T,i,inDef,inFor)

\* File = {Statement | NEWLINE} EOF
FileSeq(T,acc,i) ==
  IF i > Len(T) THEN OkS(acc,i)
  ELSE IF T[i] = "NEWLINE" THEN FileSeq(T,acc,i+1)
  ELSE LET s == Stmt(T,i,FALSE,FALSE) IN IF ~s.ok THEN FailS ELSE FileSeq(T, acc \o s.a, s.i)
ParseFile(T) == FileSeq(T, <<>>, 1)

(* ================================================================ Print: fully parenthesised *)
RECURSIVE PE(_), PEs(_), PArgs(_), PParams(_), PEntries(_), PClauses(_), PS(_), PSs(_)
OpToks(op) == IF op = "not in" THEN <<"not","in">> ELSE <<op>>
PE(e) ==
  CASE e.k \in {"id","int","str"} -> <<e.v>>
    [] e.k = "none"  -> <<>>
    [] e.k = "unshared" -> <<"UNSHARED">>
    [] e.k = "tuple" -> (<<"(">> \o PEs(e.xs) \o (IF Len(e.xs) = 1 THEN <<",">> ELSE <<>>) \o <<")">>)
    [] e.k = "list"  -> (<<"[">> \o PEs(e.xs) \o <<"]">>)
    [] e.k = "dict"  -> (<<"{">> \o PEntries(e.xs) \o <<"}">>)
    [] e.k = "un"    -> (<<"(", e.op>> \o PE(e.x) \o <<")">>)
    [] e.k = "not"   -> (<<"(", "not">> \o PE(e.x) \o <<")">>)
    [] e.k = "bin"   -> (<<"(">> \o PE(e.l) \o OpToks(e.op) \o PE(e.r) \o <<")">>)
    [] e.k = "if"    -> (<<"(">> \o PE(e.t) \o <<"if">> \o PE(e.c) \o <<"else">> \o PE(e.e) \o <<")">>)
    [] e.k = "lambda" -> (<<"(", "lambda">> \o PParams(e.ps) \o <<":">> \o PE(e.body) \o <<")">>)
    [] e.k = "dot"   -> (PE(e.x) \o <<".", e.name>>)
    [] e.k = "call"  -> (PE(e.f) \o <<"(">> \o PArgs(e.args) \o <<")">>)
    [] e.k = "index" -> (PE(e.x) \o <<"[">> \o PE(e.ix) \o <<"]">>)
    [] e.k = "slice" -> (PE(e.x) \o <<"[">> \o PE(e.lo) \o <<":">> \o PE(e.hi)
                         \o (IF e.st.k = "none" THEN <<>> ELSE <<":">> \o PE(e.st)) \o <<"]">>)
    [] e.k = "lcomp" -> (<<"[">> \o PE(e.e) \o PClauses(e.cl) \o <<"]">>)
    [] e.k = "dcomp" -> (<<"{">> \o PE(e.key) \o <<":">> \o PE(e.val) \o PClauses(e.cl) \o <<"}">>)
PEs(xs) == IF xs = <<>> THEN <<>>
           ELSE PE(Head(xs)) \o (IF Len(xs) > 1 THEN <<",">> \o PEs(Tail(xs)) ELSE <<>>)
PArg(a) == CASE a.k = "pos" -> PE(a.x) [] a.k = "named" -> (<<a.name, "=">> \o PE(a.x))
             [] a.k = "star" -> (<<"*">> \o PE(a.x)) [] OTHER -> (<<"**">> \o PE(a.x))
PArgs(xs) == IF xs = <<>> THEN <<>>
             ELSE PArg(Head(xs)) \o (IF Len(xs) > 1 THEN <<",">> \o PArgs(Tail(xs)) ELSE <<>>)
PParam(p) == CASE p.k = "p" -> (<<p.name>> \o (IF p.d.k = "none" THEN <<>> ELSE <<"=">> \o PE(p.d)))
               [] p.k = "star" -> <<"*">> [] p.k = "args" -> <<"*", p.name>> [] OTHER -> <<"**", p.name>>
PParams(xs) == IF xs = <<>> THEN <<>>
               ELSE PParam(Head(xs)) \o (IF Len(xs) > 1 THEN <<",">> \o PParams(Tail(xs)) ELSE <<>>)
PEntries(xs) == IF xs = <<>> THEN <<>>
                ELSE PE(Head(xs).key) \o <<":">> \o PE(Head(xs).val)
                     \o (IF Len(xs) > 1 THEN <<",">> \o PEntries(Tail(xs)) ELSE <<>>)
PClauses(cs) == IF cs = <<>> THEN <<>>
                ELSE (IF Head(cs).k = "for" THEN <<"for">> \o PE(Head(cs).var) \o <<"in">> \o PE(Head(cs).x)
                      ELSE <<"if">> \o PE(Head(cs).x)) \o PClauses(Tail(cs))
PBlock(ss) == <<"NEWLINE","INDENT">> \o PSs(ss) \o <<"DEDENT">>
PS(s) ==
  CASE s.k = "expr"   -> (PE(s.x) \o <<"NEWLINE">>)
    [] s.k = "assign" -> (PE(s.lhs) \o <<"=">> \o PE(s.rhs) \o <<"NEWLINE">>)
    [] s.k = "aug"    -> (PE(s.lhs) \o <<s.op>> \o PE(s.rhs) \o <<"NEWLINE">>)
    [] s.k = "return" -> (<<"return">> \o PE(s.x) \o <<"NEWLINE">>)
    [] s.k \in {"break","continue","pass"} -> <<s.k, "NEWLINE">>
    [] s.k = "if"     -> (<<"if">> \o PE(s.c) \o <<":">> \o PBlock(s.th)
                          \o (IF s.el = <<>> THEN <<>> ELSE <<"else", ":">> \o PBlock(s.el)))
    [] s.k = "for"    -> (<<"for">> \o PE(s.var) \o <<"in">> \o PE(s.x) \o <<":">> \o PBlock(s.body))
    [] s.k = "def"    -> (<<"def", s.name, "(">> \o PParams(s.ps) \o <<")", ":">> \o PBlock(s.body))
PSs(ss) == IF ss = <<>> THEN <<>> ELSE PS(Head(ss)) \o PSs(Tail(ss))
PrintAst(ss) == PSs(ss)

(* ================================================================ Unparse: minimal parentheses,
   from the precedence TABLE of the language definition (a second, independent statement of the
   same relation; M checks that the stratified grammar and the table agree). *)
Lv(e) ==
  CASE e.k \in {"lambda","if"} -> 0
    [] e.k = "not" -> 3
    [] e.k = "un"  -> 11
    [] e.k = "bin" -> (CASE e.op = "or" -> 1 [] e.op = "and" -> 2
                         [] e.op \in CompOps \cup {"not in"} -> 4
                         [] e.op = "|" -> 5 [] e.op = "^" -> 6 [] e.op = "&" -> 7
                         [] e.op \in {"<<",">>"} -> 8 [] e.op \in {"+","-"} -> 9 [] OTHER -> 10)
    [] OTHER -> 12
RECURSIVE UE(_,_), UEs(_), UArgs(_), UParams(_), UEntries(_), UClauses(_), US(_), USs(_)
UE(e,min) ==
  LET raw ==
    CASE e.k \in {"id","int","str"} -> <<e.v>>
      [] e.k = "none"  -> <<>>
      [] e.k = "unshared" -> <<"UNSHARED">>
      [] e.k = "tuple" -> (<<"(">> \o UEs(e.xs) \o (IF Len(e.xs) = 1 THEN <<",">> ELSE <<>>) \o <<")">>)
      [] e.k = "list"  -> (<<"[">> \o UEs(e.xs) \o <<"]">>)
      [] e.k = "dict"  -> (<<"{">> \o UEntries(e.xs) \o <<"}">>)
      [] e.k = "un"    -> (<<e.op>> \o UE(e.x,11))
      [] e.k = "not"   -> (<<"not">> \o UE(e.x,3))
      [] e.k = "bin"   -> (IF Lv(e) = 4 THEN UE(e.l,5) \o OpToks(e.op) \o UE(e.r,5)
                           ELSE UE(e.l,Lv(e)) \o OpToks(e.op) \o UE(e.r,Lv(e)+1))
      [] e.k = "if"    -> (UE(e.t,1) \o <<"if">> \o UE(e.c,1) \o <<"else">> \o UE(e.e,0))
      [] e.k = "lambda" -> (<<"lambda">> \o UParams(e.ps) \o <<":">> \o UE(e.body,0))
      [] e.k = "dot"   -> (UE(e.x,12) \o <<".", e.name>>)
      [] e.k = "call"  -> (UE(e.f,12) \o <<"(">> \o UArgs(e.args) \o <<")">>)
      [] e.k = "index" -> (UE(e.x,12) \o <<"[">> \o UE(e.ix,0) \o <<"]">>)
      [] e.k = "slice" -> (UE(e.x,12) \o <<"[">> \o UE(e.lo,0) \o <<":">> \o UE(e.hi,0)
                           \o (IF e.st.k = "none" THEN <<>> ELSE <<":">> \o UE(e.st,0)) \o <<"]">>)
      [] e.k = "lcomp" -> (<<"[">> \o UE(e.e,0) \o UClauses(e.cl) \o <<"]">>)
      [] e.k = "dcomp" -> (<<"{">> \o UE(e.key,0) \o <<":">> \o UE(e.val,0) \o UClauses(e.cl) \o <<"}">>)
  IN IF Lv(e) < min THEN <<"(">> \o raw \o <<")">> ELSE raw
UEs(xs) == IF xs = <<>> THEN <<>>
           ELSE UE(Head(xs),0) \o (IF Len(xs) > 1 THEN <<",">> \o UEs(Tail(xs)) ELSE <<>>)
UArg(a) == CASE a.k = "pos" -> UE(a.x,0) [] a.k = "named" -> (<<a.name, "=">> \o UE(a.x,0))
             [] a.k = "star" -> (<<"*">> \o UE(a.x,0)) [] OTHER -> (<<"**">> \o UE(a.x,0))
UArgs(xs) == IF xs = <<>> THEN <<>>
             ELSE UArg(Head(xs)) \o (IF Len(xs) > 1 THEN <<",">> \o UArgs(Tail(xs)) ELSE <<>>)
UParam(p) == CASE p.k = "p" -> (<<p.name>> \o (IF p.d.k = "none" THEN <<>> ELSE <<"=">> \o UE(p.d,0)))
               [] p.k = "star" -> <<"*">> [] p.k = "args" -> <<"*", p.name>> [] OTHER -> <<"**", p.name>>
UParams(xs) == IF xs = <<>> THEN <<>>
               ELSE UParam(Head(xs)) \o (IF Len(xs) > 1 THEN <<",">> \o UParams(Tail(xs)) ELSE <<>>)
UEntries(xs) == IF xs = <<>> THEN <<>>
                ELSE UE(Head(xs).key,0) \o <<":">> \o UE(Head(xs).val,0)
                     \o (IF Len(xs) > 1 THEN <<",">> \o UEntries(Tail(xs)) ELSE <<>>)
UClauses(cs) == IF cs = <<>> THEN <<>>
                ELSE (IF Head(cs).k = "for" THEN <<"for">> \o UE(Head(cs).var,12) \o <<"in">> \o UE(Head(cs).x,1)
                      ELSE <<"if">> \o UE(Head(cs).x,1)) \o UClauses(Tail(cs))
UBlock(ss) == <<"NEWLINE","INDENT">> \o USs(ss) \o <<"DEDENT">>
US(s) ==
  CASE s.k = "expr"   -> (UE(s.x,0) \o <<"NEWLINE">>)
    [] s.k = "assign" -> (UE(s.lhs,0) \o <<"=">> \o UE(s.rhs,0) \o <<"NEWLINE">>)
    [] s.k = "aug"    -> (UE(s.lhs,0) \o <<s.op>> \o UE(s.rhs,0) \o <<"NEWLINE">>)
    [] s.k = "return" -> (<<"return">> \o UE(s.x,0) \o <<"NEWLINE">>)
    [] s.k \in {"break","continue","pass"} -> <<s.k, "NEWLINE">>
    [] s.k = "if"     -> (<<"if">> \o UE(s.c,0) \o <<":">> \o UBlock(s.th)
                          \o (IF s.el = <<>> THEN <<>> ELSE <<"else", ":">> \o UBlock(s.el)))
    [] s.k = "for"    -> (<<"for">> \o UE(s.var,12) \o <<"in">> \o UE(s.x,0) \o <<":">> \o UBlock(s.body))
    [] s.k = "def"    -> (<<"def", s.name, "(">> \o UParams(s.ps) \o <<")", ":">> \o UBlock(s.body))
USs(ss) == IF ss = <<>> THEN <<>> ELSE US(Head(ss)) \o USs(Tail(ss))
Unparse(ss) == USs(ss)

(* M: the specification's own round trips, for a tree t produced by ParseFile *)
RoundTripOK(ss) ==
  LET p  == PrintAst(ss)
      r1 == ParseFile(p)
      u  == Unparse(ss)
      r2 == ParseFile(u) IN
  /\ r1.ok /\ PrintAst(r1.a) = p          \* Parse(Print(t)) = t  and Print is a fixed point
  /\ r2.ok /\ PrintAst(r2.a) = p          \* Parse(Unparse(t)) = t

(* ================================================================ classification (features) *)
RECURSIVE FeatE(_), FeatEs(_), FeatS(_), FeatSs(_)
Kids(e) ==
  CASE e.k \in {"tuple","list"} -> e.xs
    [] e.k = "dict"  -> ([j \in 1..Len(e.xs) |-> e.xs[j].key] \o [j \in 1..Len(e.xs) |-> e.xs[j].val])
    [] e.k \in {"un","not","unshared"} -> <<e.x>>
    [] e.k = "bin"   -> <<e.l, e.r>>
    [] e.k = "if"    -> <<e.c, e.t, e.e>>
    [] e.k = "lambda" -> (<<e.body>> \o [j \in 1..Len(e.ps) |-> e.ps[j].d])
    [] e.k = "dot"   -> <<e.x>>
    [] e.k = "call"  -> (<<e.f>> \o [j \in 1..Len(e.args) |-> e.args[j].x])
    [] e.k = "index" -> <<e.x, e.ix>>
    [] e.k = "slice" -> <<e.x, e.lo, e.hi, e.st>>
    [] e.k = "lcomp" -> (<<e.e>> \o [j \in 1..Len(e.cl) |-> e.cl[j].x] \o [j \in 1..Len(e.cl) |-> e.cl[j].var])
    [] e.k = "dcomp" -> (<<e.key, e.val>> \o [j \in 1..Len(e.cl) |-> e.cl[j].x] \o [j \in 1..Len(e.cl) |-> e.cl[j].var])
    [] OTHER -> <<>>
FeatE(e) ==
  (IF e.k = "index" /\ e.ix.k = "tuple" /\ e.ix.bare /\ Len(e.ix.xs) >= 3 THEN {"index_bare_tuple3"} ELSE {})
  \cup (IF e.k = "unshared" THEN {"unshared"} ELSE {})
  \cup FeatEs(Kids(e))
FeatEs(xs) == IF xs = <<>> THEN {} ELSE FeatE(Head(xs)) \cup FeatEs(Tail(xs))
FeatS(s) ==
  CASE s.k = "expr"   -> ((IF s.x.k = "tuple" /\ s.x.bare THEN {"bare_tuple_stmt"} ELSE {}) \cup FeatE(s.x))
    [] s.k \in {"assign","aug"} -> (FeatE(s.lhs) \cup FeatE(s.rhs))
    [] s.k = "return" -> FeatE(s.x)
    [] s.k = "if"     -> (FeatE(s.c) \cup FeatSs(s.th) \cup FeatSs(s.el))
    [] s.k = "for"    -> ((IF s.x.k = "tuple" /\ s.x.bare THEN {"for_in_bare_tuple"} ELSE {})
                          \cup FeatE(s.var) \cup FeatE(s.x) \cup FeatSs(s.body))
    [] s.k = "def"    -> (FeatEs([j \in 1..Len(s.ps) |-> s.ps[j].d]) \cup FeatSs(s.body))
    [] OTHER -> {}
FeatSs(ss) == IF ss = <<>> THEN {} ELSE FeatS(Head(ss)) \cup FeatSs(Tail(ss))
\* the statement / expression form used to identify a disagreement
Form(ss) ==
  LET f == FeatSs(ss) IN
  CASE "bare_tuple_stmt" \in f   -> "bare_tuple_stmt"
    [] "index_bare_tuple3" \in f -> "index_bare_tuple3"
    [] "for_in_bare_tuple" \in f -> "for_in_bare_tuple"
    [] ss = <<>>                 -> "empty"
    [] OTHER                     -> ss[1].k

\* the verdict the generators print: "reject" | "unshared" | "accept"
Verdict(r) == IF ~r.ok THEN "reject" ELSE IF "unshared" \in FeatSs(r.a) THEN "unshared" ELSE "accept"
=============================================================================

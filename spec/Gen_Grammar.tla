----------------------------- MODULE Gen_Grammar -----------------------------
(* C06 generators, all judged by Grammar!ParseFile in ONE TLC run (st.g names the generator):

   seq    G(ii)  every token sequence of length <= MaxLen over Alphabet (one logical line; the
                 tree of a growing sequence so the workers share it).  Only accepted / unshared
                 sequences are printed; the rejected ones are the complement of the enumerated
                 space, whose size TLC reports and the harness re-enumerates.
   pair   G(i)   every ordered PAIR (outer context with a hole, inner operator expression), the
                 inner one bare and parenthesised: the n x n precedence / associativity relation.
   stmt   G(iii) statement forms, suites inline / indented, nesting, break/continue/return
                 placement, assignment targets.
   param / arg   every parameter list (def and lambda) and argument list of length <= 3 (4 in
                 the thorough tier) over the parameter / argument kinds: the order rules.

   M: every accepted tree must satisfy the specification's own round trips (RoundTripOK):
   Parse(Print(t)) = t, Parse(Unparse(t)) = t, Print a fixed point. *)
EXTENDS Grammar, Json

CONSTANTS MaxLen, Alphabet, Tier
VARIABLE st

SetOf(s) == {s[j] : j \in 1..Len(s)}
AlphaFull == <<"a","b","1","\"s\"","+","-","*","**","not","in","or","and","<","|","if","else",
               "lambda","for","=","+=",",",":",".","(",")","[","]","{","}",";","pass","~">>
AlphaCore == <<"a","b","1","+","-","*","not","in","or","<","if","else",
               "lambda","for","=",",",":",".","(",")","[","]",";","**">>
AlphaFullSet == SetOf(AlphaFull)
AlphaCoreSet == SetOf(AlphaCore)

(* ---------------------------------------------------------------- pairs *)
BinOps == {"or","and","==","!=","<",">","<=",">=","in","|","^","&","<<",">>","+","-","*","/","//","%"}
O(n,pre,post) == [n |-> n, pre |-> pre, post |-> post]
Outers ==
     {O(op \o "_L", <<>>, <<op, "z">>) : op \in BinOps}
  \cup {O(op \o "_R", <<"z", op>>, <<>>) : op \in BinOps}
  \cup {O("notin_L", <<>>, <<"not","in","z">>), O("notin_R", <<"z","not","in">>, <<>>)}
  \cup {O("neg", <<"-">>, <<>>), O("pos", <<"+">>, <<>>), O("inv", <<"~">>, <<>>), O("not", <<"not">>, <<>>)}
  \cup {O("if_then", <<>>, <<"if","y","else","z">>), O("if_cond", <<"x","if">>, <<"else","z">>),
        O("if_else", <<"x","if","y","else">>, <<>>)}
  \cup {O("lambda_body", <<"lambda",":">>, <<>>), O("lambda_default", <<"lambda","p","=">>, <<":","z">>)}
  \cup {O("comp_elem", <<"[">>, <<"for","v","in","w","]">>), O("comp_over", <<"[","v","for","v","in">>, <<"]">>),
        O("comp_over_if", <<"[","v","for","v","in">>, <<"if","c","]">>),
        O("comp_if", <<"[","v","for","v","in","w","if">>, <<"]">>),
        O("comp_if_if", <<"[","v","for","v","in","w","if">>, <<"if","c","]">>),
        O("dcomp_key", <<"{">>, <<":","u","for","v","in","w","}">>),
        O("dcomp_val", <<"{","u",":">>, <<"for","v","in","w","}">>)}
  \cup {O("arg", <<"f","(">>, <<")">>), O("arg2", <<"f","(","y",",">>, <<")">>), O("arg_then", <<"f","(">>, <<",","y",")">>),
        O("named", <<"f","(","k","=">>, <<")">>), O("star", <<"f","(","*">>, <<")">>),
        O("starstar", <<"f","(","**">>, <<")">>)}
  \cup {O("callee", <<>>, <<"(","y",")">>), O("dot_recv", <<>>, <<".","n">>), O("index_recv", <<>>, <<"[","y","]">>)}
  \cup {O("index", <<"y","[">>, <<"]">>), O("slice_lo", <<"y","[">>, <<":","]">>), O("slice_hi", <<"y","[",":">>, <<"]">>),
        O("slice_step", <<"y","[",":",":">>, <<"]">>), O("slice_mid", <<"y","[","x",":">>, <<":","z","]">>)}
  \cup {O("list_elem", <<"[">>, <<",","z","]">>), O("dict_key", <<"{">>, <<":","z","}">>),
        O("dict_val", <<"{","z",":">>, <<"}">>), O("tuple_elem", <<"(">>, <<",","z",")">>), O("paren", <<"(">>, <<")">>)}
  \cup {O("stmt", <<>>, <<>>), O("assign_rhs", <<"t","=">>, <<>>), O("assign_rhs_tuple", <<"t","=">>, <<",","z">>),
        O("assign_rhs_tuple2", <<"t","=","z",",">>, <<>>), O("aug_rhs", <<"t","+=">>, <<>>),
        O("assign_lhs", <<>>, <<"=","z">>), O("aug_lhs", <<>>, <<"-=","z">>),
        O("return", <<"def","g","(",")",":","return">>, <<>>),
        O("if_stmt_cond", <<"if">>, <<":","pass">>), O("for_over", <<"for","v","in">>, <<":","pass">>),
        O("for_var", <<"for">>, <<"in","w",":","pass">>),
        O("def_default", <<"def","g","(","p","=">>, <<")",":","pass">>)}
I(n,toks) == [n |-> n, toks |-> toks]
Inners ==
     {I(op, <<"a", op, "b">>) : op \in BinOps}
  \cup {I("notin", <<"a","not","in","b">>), I("neg", <<"-","a">>), I("pos", <<"+","a">>), I("inv", <<"~","a">>),
        I("not", <<"not","a">>), I("if", <<"a","if","b","else","c">>), I("lambda", <<"lambda",":","a">>),
        I("lambda1", <<"lambda","a",":","b">>), I("call", <<"a","(","b",")">>), I("index", <<"a","[","b","]">>),
        I("slice", <<"a","[","b",":","c","]">>), I("dot", <<"a",".","b">>), I("tuple", <<"a",",","b">>),
        I("tuple1", <<"a",",">>), I("tuple3", <<"a",",","b",",","c">>), I("list", <<"[","a","]">>), I("lcomp", <<"[","a","for","a","in","b","]">>),
        I("dict", <<"{","a",":","b","}">>), I("atom", <<"a">>), I("int", <<"1">>), I("str", <<"\"s\"">>),
        I("ptuple", <<"(","a",",","b",")">>), I("empty", <<"(",")">>), I("named", <<"a","=","b">>),
        I("star", <<"*","a">>), I("negneg", <<"-","-","a">>), I("notnot", <<"not","not","a">>)}
PairCases(d_) ==
  {[g |-> "pair", o |-> o.n, i |-> n.n, par |-> par,
    toks |-> o.pre \o (IF par THEN <<"(">> \o n.toks \o <<")">> ELSE n.toks) \o o.post \o <<"NEWLINE">>]
   : o \in Outers, n \in Inners, par \in BOOLEAN}

(* ---------------------------------------------------------------- parameter / argument lists *)
ParamKinds == {<<"a">>, <<"b">>, <<"a","=","1">>, <<"b","=","1">>, <<"*">>, <<"*","c">>, <<"**","d">>, <<"**","a">>}
ArgKinds   == {<<"a">>, <<"k","=","a">>, <<"j","=","b">>, <<"*","c">>, <<"**","d">>}
RECURSIVE Join(_,_)
Join(xs,sep) == IF xs = <<>> THEN <<>> ELSE Head(xs) \o (IF Len(xs) > 1 THEN sep \o Join(Tail(xs),sep) ELSE <<>>)
Lists(S,n) == UNION {[1..m -> S] : m \in 0..n}
ParamCases(n) ==
  {[g |-> "param", o |-> ctx, i |-> "", par |-> tr,
    toks |-> (IF ctx = "def" THEN <<"def","f","(">> ELSE <<"x","=","lambda">>)
             \o Join(ps, <<",">>) \o (IF tr /\ ps # <<>> THEN <<",">> ELSE <<>>)
             \o (IF ctx = "def" THEN <<")",":","pass","NEWLINE">> ELSE <<":","z","NEWLINE">>)]
   : ps \in Lists(ParamKinds,n), ctx \in {"def","lambda"}, tr \in BOOLEAN}
ArgCases(n) ==
  {[g |-> "arg", o |-> "call", i |-> "", par |-> tr,
    toks |-> <<"f","(">> \o Join(as, <<",">>) \o (IF tr /\ as # <<>> THEN <<",">> ELSE <<>>) \o <<")","NEWLINE">>]
   : as \in Lists(ArgKinds,n), tr \in BOOLEAN}

(* ---------------------------------------------------------------- statement forms and shapes *)
NL == <<"NEWLINE">>
S(n,toks) == [n |-> n, toks |-> toks]
Simple ==
  {S("pass", <<"pass">>), S("expr", <<"a">>), S("call", <<"f","(","a",")">>), S("assign", <<"a","=","b">>),
   S("assign_tuple", <<"a",",","b","=","c">>), S("assign_ptuple", <<"(","a",",","b",")","=","c">>),
   S("assign_list", <<"[","a",",","b","]","=","c">>), S("assign_nested", <<"a",",","(","b",",","c",")","=","d">>),
   S("assign_index", <<"a","[","0","]","=","b">>), S("assign_dot", <<"a",".","b","=","c">>),
   S("assign_slice", <<"a","[","0",":","1","]","=","b">>), S("assign_call", <<"f","(",")","=","b">>),
   S("assign_lit", <<"1","=","b">>), S("assign_binop", <<"a","+","b","=","c">>), S("assign_chain", <<"a","=","b","=","c">>),
   S("assign_empty", <<"(",")","=","a">>), S("assign_trail_l", <<"a",",","=","b">>), S("assign_trail_r", <<"a","=","b",",">>),
   S("assign_rhs_tuple", <<"a","=","b",",","c">>), S("assign_tuple_bad", <<"a",",","1","=","c">>),
   S("aug", <<"a","+=","b">>), S("aug_index", <<"a","[","0","]","|=","b">>), S("aug_dot", <<"a",".","b","<<=","c">>),
   S("aug_tuple", <<"a",",","b","+=","c">>), S("aug_ptuple", <<"(","a",",","b",")","+=","c">>),
   S("aug_list", <<"[","a","]","+=","c">>), S("aug_paren", <<"(","a",")","+=","c">>), S("aug_call", <<"f","(",")","+=","c">>),
   S("aug_chain", <<"a","+=","b","+=","c">>), S("aug_rhs_tuple", <<"a","//=","b",",","c">>),
   S("bare_tuple", <<"a",",","b">>), S("bare_tuple_if", <<"a","if","b","else","c",",","d">>),
   S("bare_tuple_trail", <<"a",",">>), S("ptuple", <<"(","a",",","b",")">>),
   S("break", <<"break">>), S("continue", <<"continue">>), S("return", <<"return">>), S("return_x", <<"return","a">>),
   S("return_tuple", <<"return","a",",","b">>), S("return_trail", <<"return","a",",">>),
   S("semi", <<"a",";","b">>), S("semi_trail", <<"a",";">>), S("semi_semi", <<"a",";",";","b">>), S("semi_only", <<";">>),
   S("semi_pass_break", <<"pass",";","break">>), S("semi3", <<"a","=","b",";","pass",";","c">>)}
SimpleCore == {s \in Simple : s.n \in {"pass","assign","break","continue","return_x","bare_tuple","semi","aug"}}
Heads ==
  {S("if", <<"if","a",":">>), S("for", <<"for","v","in","w",":">>), S("for_tuple", <<"for","u",",","v","in","w",":">>),
   S("for_ptuple", <<"for","(","u",",","v",")","in","w",":">>), S("for_in_tuple", <<"for","v","in","a",",","b",":">>),
   S("for_in_if", <<"for","v","in","a","if","b","else","c",":">>), S("for_trail", <<"for","v",",","in","w",":">>),
   S("for_call", <<"for","f","(",")","in","w",":">>), S("for_index", <<"for","a","[","0","]",",","b",".","c","in","w",":">>),
   S("for_binop", <<"for","a","|","b","in","w",":">>), S("for_in_lambda", <<"for","v","in","lambda",":","a",":">>),
   S("def", <<"def","g","(",")",":">>), S("def_params", <<"def","g","(","p",",","q","=","1",",","*","r",",","**","s",")",":">>),
   S("if_nocolon", <<"if","a">>), S("def_noparen", <<"def","g",":">>), S("else_only", <<"else",":">>),
   S("elif_only", <<"elif","a",":">>), S("if_tuple", <<"if","a",",","b",":">>), S("if_lambda", <<"if","lambda",":","a",":">>)}
HeadsCore == {h \in Heads : h.n \in {"if","for","def"}}
Blk(body) == <<"NEWLINE","INDENT">> \o body \o <<"DEDENT">>
\* depth-1 compound statements: head + inline suite / indented suite of one or two simple statements
Comp1(d_) ==
     {S(h.n \o ":" \o s.n, h.toks \o s.toks \o NL) : h \in Heads, s \in Simple}
  \cup {S(h.n \o ":[" \o s.n \o "]", h.toks \o Blk(s.toks \o NL)) : h \in HeadsCore, s \in Simple}
  \cup {S(h.n \o ":[" \o s.n \o "," \o s2.n \o "]", h.toks \o Blk(s.toks \o NL \o s2.toks \o NL))
        : h \in HeadsCore, s \in SimpleCore, s2 \in SimpleCore}
  \cup {S(h.n \o ":noindent", h.toks \o NL \o <<"pass">> \o NL) : h \in HeadsCore}
  \cup {S(h.n \o ":empty", h.toks \o NL) : h \in HeadsCore}
IfHead == <<"if","a",":">>
ElifHead == <<"elif","b",":">>
ElseHead == <<"else",":">>
SuitesCore(d_) == {S("i:" \o s.n, s.toks \o NL) : s \in SimpleCore} \cup {S("b:" \o s.n, Blk(s.toks \o NL)) : s \in SimpleCore}
IfChains(d_) ==
     {S("if/else " \o x.n \o "/" \o y.n, IfHead \o x.toks \o ElseHead \o y.toks) : x \in SuitesCore(0), y \in SuitesCore(0)}
  \cup {S("if/elif " \o x.n \o "/" \o y.n, IfHead \o x.toks \o ElifHead \o y.toks) : x \in SuitesCore(0), y \in SuitesCore(0)}
  \cup {S("if/elif/else " \o x.n, IfHead \o x.toks \o ElifHead \o x.toks \o ElseHead \o x.toks) : x \in SuitesCore(0)}
  \cup {S("if/elif/elif/else " \o x.n, IfHead \o x.toks \o ElifHead \o x.toks \o <<"elif","c",":">> \o x.toks \o ElseHead \o x.toks) : x \in SuitesCore(0)}
  \cup {S("if/else/else " \o x.n, IfHead \o x.toks \o ElseHead \o x.toks \o ElseHead \o x.toks) : x \in SuitesCore(0)}
  \cup {S("if/else/elif " \o x.n, IfHead \o x.toks \o ElseHead \o x.toks \o ElifHead \o x.toks) : x \in SuitesCore(0)}
  \cup {S("for/else " \o x.n, <<"for","v","in","w",":">> \o x.toks \o ElseHead \o x.toks) : x \in SuitesCore(0)}
\* depth-2: a core head around a depth-1 compound (indented), optionally followed by a simple statement
Comp1Core(d_) ==
     {S(h.n \o ":" \o s.n, h.toks \o s.toks \o NL) : h \in HeadsCore, s \in SimpleCore}
  \cup {S(h.n \o ":[" \o s.n \o "]", h.toks \o Blk(s.toks \o NL)) : h \in HeadsCore, s \in SimpleCore}
Comp2(d_) ==
     {S(h.n \o ":[" \o c.n \o "]", h.toks \o Blk(c.toks)) : h \in HeadsCore, c \in Comp1Core(0) \cup IfChains(0)}
  \cup {S(h.n \o ":[" \o c.n \o "," \o s.n \o "]", h.toks \o Blk(c.toks \o s.toks \o NL))
        : h \in HeadsCore, c \in Comp1Core(0), s \in SimpleCore}
\* depth-3 for break/continue/return placement through def / for / if
Comp3(d_) ==
  {S(h.n \o ":[" \o h2.n \o ":[" \o h3.n \o ":" \o s.n \o "]]", h.toks \o Blk(h2.toks \o Blk(h3.toks \o s.toks \o NL)))
   : h \in HeadsCore, h2 \in HeadsCore, h3 \in HeadsCore, s \in {x \in SimpleCore : x.n \in {"break","continue","return_x","pass"}}}
TopStmts(d_) == {S(s.n, s.toks \o NL) : s \in Simple} \cup Comp1(0) \cup IfChains(0) \cup Comp2(0) \cup Comp3(0)
\* files: one statement; or two (a shape followed / preceded by a plain statement); blank lines
StmtCasesOf(Tops) ==
     {[g |-> "stmt", o |-> s.n, i |-> "", par |-> FALSE, toks |-> s.toks] : s \in Tops}
  \cup {[g |-> "stmt", o |-> s.n, i |-> "then_a", par |-> FALSE, toks |-> s.toks \o <<"a","NEWLINE">>] : s \in Tops}
  \cup {[g |-> "stmt", o |-> s.n, i |-> "blank_before_after", par |-> FALSE,
         toks |-> NL \o NL \o s.toks \o NL \o <<"a","NEWLINE">> \o NL] : s \in Tops}
  \cup {[g |-> "stmt", o |-> s.n, i |-> "stray_indent", par |-> FALSE,
         toks |-> <<"a","NEWLINE","INDENT">> \o s.toks \o <<"DEDENT">>] : s \in {x \in Tops : \E y \in Simple : x.n = y.n}}
\* quick tier: all variants for the simple statements, the depth-1 compounds and the placement
\* shapes; the if/elif/else chains (also nested one level) bare
Bare(Tops) == {[g |-> "stmt", o |-> s.n, i |-> "", par |-> FALSE, toks |-> s.toks] : s \in Tops}
StmtCasesQ(d_) == StmtCasesOf({S(s.n, s.toks \o NL) : s \in Simple} \cup Comp1(0) \cup Comp3(0))
                  \cup Bare(IfChains(0)
                           \cup {S(h.n \o ":[" \o c.n \o "]", h.toks \o Blk(c.toks)) : h \in HeadsCore, c \in IfChains(0)})
StmtCasesT(d_) == StmtCasesOf(TopStmts(0))

CasesQ(d_) == PairCases(0) \cup ParamCases(3) \cup ArgCases(3) \cup StmtCasesQ(0)
CasesT(d_) == PairCases(0) \cup ParamCases(4) \cup ArgCases(4) \cup StmtCasesT(0)

(* ---------------------------------------------------------------- the run *)
AllCases == IF Tier = "thorough" THEN CasesT(0) ELSE IF Tier = "quick" THEN CasesQ(0) ELSE PairCases(0)
\* TLC generates initial states (and the successors of one state) on a single worker; the cases
\* are therefore reached through NBuckets intermediate states so that all workers parse.
NBuckets == 64
Mk(g,o) == [g |-> g, o |-> o, i |-> "", par |-> FALSE, toks |-> <<>>]
BucketOf(c) == (Len(c.toks) + 7 * Len(c.o) + 3 * Len(c.i)) % NBuckets
Init == st = Mk("root", "")
Next == \/ /\ st.g = "root"
           /\ \/ st' = Mk("seq", "")
              \/ \E b \in 0..(NBuckets-1) : st' = [Mk("bucket", "") EXCEPT !.toks = <<ToString(b)>>]
        \/ /\ st.g = "bucket"
           /\ \E c \in AllCases : /\ ToString(BucketOf(c)) = st.toks[1]
                                   /\ st' = c
        \/ /\ st.g = "seq" /\ Len(st.toks) < MaxLen
           /\ \E t \in Alphabet : st' = [st EXCEPT !.toks = Append(@, t)]

Judge ==
  IF st.g = "root" THEN PrintT(<<"ALPHA", ToJson([a |-> Alphabet, n |-> MaxLen, outers |-> {o.n : o \in Outers},
                                                    inners |-> {x.n : x \in Inners}])>>)
  ELSE IF st.g = "bucket" THEN TRUE ELSE
  LET T == IF st.g = "seq" THEN Append(st.toks, "NEWLINE") ELSE st.toks
      r == ParseFile(T)
      v == Verdict(r) IN
  CASE v = "reject"   -> (IF st.g = "seq" THEN TRUE
                          ELSE PrintT(<<"C", ToJson([g |-> st.g, o |-> st.o, i |-> st.i, par |-> st.par, t |-> st.toks,
                                                      v |-> v, nf |-> <<>>, form |-> "reject"])>>))
    [] v = "unshared" -> PrintT(<<"C", ToJson([g |-> st.g, o |-> st.o, i |-> st.i, par |-> st.par, t |-> st.toks,
                                                v |-> v, nf |-> <<>>, form |-> "unshared"])>>)
    [] OTHER          -> (/\ PrintT(<<"C", ToJson([g |-> st.g, o |-> st.o, i |-> st.i, par |-> st.par, t |-> st.toks,
                                                    v |-> v, nf |-> PrintAst(r.a), form |-> Form(r.a)])>>)
                          /\ RoundTripOK(r.a))
=============================================================================

--------------------------- MODULE ChunkAlloc ---------------------------
(* C20 (M) -- the arena chunk allocator shared by heaps that may die on different threads:
   values/layout/heap/allocator/alloc/{allocator,chunk,chunk_part,per_thread}.rs.

   A chunk is a malloc'ed block with an atomic reference count.  A *part* [c, lo, hi) is a slice
   of a chunk owning one reference.  A heap being built on thread t bump-allocates in its current
   part; alloc_slow / finish split the current part at the fill pointer (ChunkPart::split_at_offset:
   a Clone of the chunk unless the split is at either end) and give the remainder to
   thread_local_release: dropped if it is the whole chunk, too small, or (by a separate, racy read
   of the counter) the only reference; otherwise stored in the releasing thread's cache (bounded;
   the smallest part is evicted, i.e. dropped).  The next part comes from that cache or from
   malloc.  A finished (frozen) heap can be sent to another thread; dropping it releases its
   parts *on the dropping thread*.  Every counter operation is three steps (ChunkRc.tla), so TLC
   explores the races; each thread carries a stack of micro-operations `todo`.

   Invariants: parts of heaps, caches and in-flight operations are pairwise disjoint; no part
   refers to a released chunk; no double free / operation on a released chunk; the counter equals
   the number of parts (plus clones whose new part is not materialised yet). *)
EXTENDS Integers, Sequences, FiniteSets, TLC

CONSTANTS Threads, Chunks, Heaps,
          Size,        \* units per chunk
          MinUsable,   \* parts shorter than this are not cached
          CacheCap,    \* parts per thread cache (4 in the code)
          Bug          \* "none" | "cache_after_drop" | "free_at_2" | "clone_no_inc"

VARIABLES live, freed, rc, pend, err,          \* ChunkRc
          hst,      \* [Heaps -> "none" | "building" | "finishing" | "finished" | "dropped"]
          hown,     \* [Heaps -> thread building it]
          hparts,   \* [Heaps -> set of filled parts]
          hcur,     \* [Heaps -> current part or NoPart]
          hfill,    \* [Heaps -> fill pointer inside the current part]
          cache,    \* [Threads -> set of parts]
          todo      \* [Threads -> Seq(micro-op)]

rcvars == <<live, freed, rc, pend, err>>
avars == <<hst, hown, hparts, hcur, hfill, cache, todo>>
vars == <<rcvars, avars>>

FreeAtC == IF Bug = "free_at_2" THEN 2 ELSE 1
Rc == INSTANCE ChunkRc WITH FreeAt <- FreeAtC

NoPart == [c |-> 0, lo |-> 0, hi |-> 0]
PLen(p) == p.hi - p.lo
IsFull(p) == p.lo = 0 /\ p.hi = Size

Init == /\ Rc!RcInit
        /\ hst = [h \in Heaps |-> "none"]
        /\ hown = [h \in Heaps |-> CHOOSE t \in Threads : TRUE]
        /\ hparts = [h \in Heaps |-> {}]
        /\ hcur = [h \in Heaps |-> NoPart]
        /\ hfill = [h \in Heaps |-> 0]
        /\ cache = [t \in Threads |-> {}]
        /\ todo = [t \in Threads |-> <<>>]

Push(t, ops) == todo' = [todo EXCEPT ![t] = ops \o Tail(@)]       \* replace the head micro-op
Start(t, ops) == todo' = [todo EXCEPT ![t] = ops]

(* ---- macro actions: a thread with nothing in progress starts an API-level operation ---- *)
IdleT(t) == todo[t] = <<>> /\ pend[t].op = "none"

StartHeap(t, h) ==
    /\ IdleT(t) /\ hst[h] = "none"
    /\ hst' = [hst EXCEPT ![h] = "building"]
    /\ hown' = [hown EXCEPT ![h] = t]
    /\ UNCHANGED <<rcvars, hparts, hcur, hfill, cache, todo>>

Bump(t, h) ==
    /\ IdleT(t) /\ hst[h] = "building" /\ hown[h] = t
    /\ hcur[h] # NoPart /\ hfill[h] < hcur[h].hi
    /\ hfill' = [hfill EXCEPT ![h] = @ + 1]
    /\ UNCHANGED <<rcvars, hst, hown, hparts, hcur, cache, todo>>

\* ChunkAllocator::alloc_slow: split, release the remainder, take the next part
AllocSlow(t, h) ==
    /\ IdleT(t) /\ hst[h] = "building" /\ hown[h] = t
    /\ Start(t, <<[op |-> "split", h |-> h, p |-> NoPart, v |-> 0], [op |-> "next", h |-> h, p |-> NoPart, v |-> 0]>>)
    /\ UNCHANGED <<rcvars, hst, hown, hparts, hcur, hfill, cache>>

\* ArenaAllocator::finish (FrozenHeap::into_ref): split, release the remainder
Finish(t, h) ==
    /\ IdleT(t) /\ hst[h] = "building" /\ hown[h] = t
    /\ hst' = [hst EXCEPT ![h] = "finishing"]
    /\ Start(t, <<[op |-> "split", h |-> h, p |-> NoPart, v |-> 0], [op |-> "fin", h |-> h, p |-> NoPart, v |-> 0]>>)
    /\ UNCHANGED <<rcvars, hown, hparts, hcur, hfill, cache>>

\* Drop for ChunkAllocator on ANY thread: chain.clear_with(thread_local_release)
RECURSIVE Releases(_)
Releases(S) == IF S = {} THEN <<>>
               ELSE LET p == CHOOSE x \in S : \A y \in S : x.c < y.c \/ (x.c = y.c /\ x.lo <= y.lo)
                    IN <<[op |-> "release", h |-> 0, p |-> p, v |-> 0]>> \o Releases(S \ {p})

DropHeap(t, h) ==
    /\ IdleT(t) /\ hst[h] = "finished"
    /\ hst' = [hst EXCEPT ![h] = "dropped"]
    /\ hparts' = [hparts EXCEPT ![h] = {}]
    /\ Start(t, Releases(hparts[h]))
    /\ UNCHANGED <<rcvars, hown, hcur, hfill, cache>>

(* ---- micro-operations ---------------------------------------------------------------- *)
Op(t) == Head(todo[t])
HasOp(t, names) == todo[t] # <<>> /\ Head(todo[t]).op \in names
M(op, h, p, v) == [op |-> op, h |-> h, p |-> p, v |-> v]

\* split_at_offset(current part, fill): no Clone when the split is at an end
Split(t) ==
    LET o == Op(t)  h == o.h  p == hcur[h]  at == hfill[h] IN
    /\ HasOp(t, {"split"})
    /\ IF p = NoPart THEN
           /\ Push(t, <<>>) /\ UNCHANGED <<rcvars, hst, hown, hparts, hcur, hfill, cache>>
       ELSE IF at = p.lo THEN                       \* nothing allocated in it: the whole part goes back
           /\ hcur' = [hcur EXCEPT ![h] = NoPart]
           /\ Push(t, <<M("release", 0, p, 0)>>)
           /\ UNCHANGED <<rcvars, hst, hown, hparts, hfill, cache>>
       ELSE IF at = p.hi THEN                       \* full: it stays in the chain
           /\ hcur' = [hcur EXCEPT ![h] = NoPart]
           /\ hparts' = [hparts EXCEPT ![h] = @ \cup {p}]
           /\ Push(t, <<>>)
           /\ UNCHANGED <<rcvars, hst, hown, hfill, cache>>
       ELSE IF Bug = "clone_no_inc" THEN            \* (variant) two parts, one reference
           /\ hcur' = [hcur EXCEPT ![h] = NoPart]
           /\ hparts' = [hparts EXCEPT ![h] = @ \cup {[p EXCEPT !.hi = at]}]
           /\ Push(t, <<M("release", 0, [p EXCEPT !.lo = at], 0)>>)
           /\ UNCHANGED <<rcvars, hst, hown, hfill, cache>>
       ELSE                                         \* Clone: begin / step / end
           /\ Rc!IncBegin(t, p.c)
           /\ Push(t, <<M("split_step", h, NoPart, 0)>>)
           /\ UNCHANGED <<hst, hown, hparts, hcur, hfill, cache>>

SplitStep(t) ==
    /\ HasOp(t, {"split_step"})
    /\ Rc!IncStep(t)
    /\ Push(t, <<M("split_end", Op(t).h, NoPart, 0)>>)
    /\ UNCHANGED <<hst, hown, hparts, hcur, hfill, cache>>

SplitEnd(t) ==
    LET h == Op(t).h  p == hcur[h]  at == hfill[h] IN
    /\ HasOp(t, {"split_end"})
    /\ Rc!IncEnd(t)
    /\ hcur' = [hcur EXCEPT ![h] = NoPart]
    /\ hparts' = [hparts EXCEPT ![h] = @ \cup {[p EXCEPT !.hi = at]}]
    /\ Push(t, <<M("release", 0, [p EXCEPT !.lo = at], 0)>>)
    /\ UNCHANGED <<hst, hown, hfill, cache>>

\* thread_local_release: the counter is read (Relaxed) in a step of its own
Release(t) ==
    LET p == Op(t).p IN
    /\ HasOp(t, {"release"})
    /\ IF IsFull(p) \/ PLen(p) < MinUsable
       THEN Push(t, <<M("dec", 0, p, 0)>>)
       ELSE Push(t, <<M("decide", 0, p, rc[p.c])>>)
    /\ UNCHANGED <<rcvars, hst, hown, hparts, hcur, hfill, cache>>

Smallest(S) == CHOOSE x \in S : \A y \in S :
                  PLen(x) < PLen(y) \/ (PLen(x) = PLen(y) /\ (x.c < y.c \/ (x.c = y.c /\ x.lo <= y.lo)))

Decide(t) ==
    LET p == Op(t).p  v == Op(t).v IN
    /\ HasOp(t, {"decide"})
    /\ IF v = 1 THEN
           IF Bug = "cache_after_drop"              \* (variant) drop it AND keep it in the cache
           THEN /\ cache' = [cache EXCEPT ![t] = @ \cup {p}]
                /\ Push(t, <<M("dec_keep", 0, p, 0)>>)
           ELSE /\ Push(t, <<M("dec", 0, p, 0)>>) /\ UNCHANGED cache
       ELSE LET all == cache[t] \cup {p} IN         \* PerThreadChunkCache::store keeps the largest
            IF Cardinality(all) <= CacheCap
            THEN /\ cache' = [cache EXCEPT ![t] = all] /\ Push(t, <<>>)
            ELSE /\ cache' = [cache EXCEPT ![t] = all \ {Smallest(all)}]
                 /\ Push(t, <<M("dec", 0, Smallest(all), 0)>>)
    /\ UNCHANGED <<rcvars, hst, hown, hparts, hcur, hfill>>

\* Drop for Chunk: begin / step (/ free) / end; the part stops existing at the step
DecB(t) ==
    /\ HasOp(t, {"dec", "dec_keep"})
    /\ Rc!DecBegin(t, Op(t).p.c)
    /\ Push(t, <<M("dec_step", 0, Op(t).p, 0)>>)
    /\ UNCHANGED <<hst, hown, hparts, hcur, hfill, cache>>

DecS(t) ==
    /\ HasOp(t, {"dec_step"})
    /\ Rc!DecStep(t)
    /\ Push(t, <<M("dec_end", 0, NoPart, 0)>>)
    /\ UNCHANGED <<hst, hown, hparts, hcur, hfill, cache>>

DecF(t) ==
    /\ HasOp(t, {"dec_end"})
    /\ Rc!FreeStep(t)
    /\ UNCHANGED avars

DecE(t) ==
    /\ HasOp(t, {"dec_end"})
    /\ Rc!DecEnd(t)
    /\ Push(t, <<>>)
    /\ UNCHANGED <<hst, hown, hparts, hcur, hfill, cache>>

\* thread_local_alloc_at_least: a cached part that is large enough, else malloc
NextPart(t) ==
    LET h == Op(t).h IN
    /\ HasOp(t, {"next"})
    /\ \/ \E p \in cache[t] :
            /\ cache' = [cache EXCEPT ![t] = @ \ {p}]
            /\ hcur' = [hcur EXCEPT ![h] = p]
            /\ hfill' = [hfill EXCEPT ![h] = p.lo]
            /\ UNCHANGED rcvars
       \/ \E c \in Chunks \ (live \cup freed) :
            /\ \A c2 \in Chunks \ (live \cup freed) : c <= c2
            /\ Rc!Alloc(c)
            /\ hcur' = [hcur EXCEPT ![h] = [c |-> c, lo |-> 0, hi |-> Size]]
            /\ hfill' = [hfill EXCEPT ![h] = 0]
            /\ UNCHANGED cache
       \/ /\ cache[t] = {} /\ Chunks \ (live \cup freed) = {}       \* out of model chunks: heap stalls
          /\ UNCHANGED <<rcvars, hcur, hfill, cache>>
    /\ Push(t, <<>>)
    /\ UNCHANGED <<hst, hown, hparts>>

\* finish() has returned: the heap can be shared / sent to another thread
Fin(t) ==
    /\ HasOp(t, {"fin"})
    /\ hst' = [hst EXCEPT ![Op(t).h] = "finished"]
    /\ Push(t, <<>>)
    /\ UNCHANGED <<rcvars, hown, hparts, hcur, hfill, cache>>

\* (one disjunct per line: the driver reads per-action coverage by source position)
Next == \E t \in Threads :
    \/ Split(t)
    \/ SplitStep(t)
    \/ SplitEnd(t)
    \/ Release(t)
    \/ Decide(t)
    \/ DecB(t)
    \/ DecS(t)
    \/ DecF(t)
    \/ DecE(t)
    \/ NextPart(t)
    \/ Fin(t)
    \/ \E h \in Heaps : StartHeap(t, h)
    \/ \E h \in Heaps : Bump(t, h)
    \/ \E h \in Heaps : AllocSlow(t, h)
    \/ \E h \in Heaps : Finish(t, h)
    \/ \E h \in Heaps : DropHeap(t, h)
Spec == Init /\ [][Next]_vars

(* ---- properties ------------------------------------------------------------------------ *)
InFlight(t) == {todo[t][i].p : i \in {j \in 1..Len(todo[t]) : todo[t][j].op \in {"release", "decide", "dec", "dec_keep", "dec_step"}}}
\* a part being cloned is still the heap's current part; after the decrement step it is gone
AllParts == UNION {hparts[h] : h \in Heaps} \cup {hcur[h] : h \in {x \in Heaps : hcur[x] # NoPart}}
            \cup UNION {cache[t] : t \in Threads} \cup UNION {InFlight(t) : t \in Threads}

Overlap(p, q) == p.c = q.c /\ p.lo < q.hi /\ q.lo < p.hi
Disjoint == \A p \in AllParts, q \in AllParts : p = q \/ ~Overlap(p, q)
\* (a set cannot hold the same part twice: owners must also be distinct)
Owners(p) == Cardinality({h \in Heaps : p \in hparts[h] \/ hcur[h] = p}) + Cardinality({t \in Threads : p \in cache[t]})
             + Cardinality({t \in Threads : p \in InFlight(t)})
SingleOwner == \A p \in AllParts : Owners(p) = 1

NoPartOfReleasedChunk == \A p \in AllParts : p.c \in live

ClonesInFlight(c) == Cardinality({t \in Threads : pend[t].op = "inc" /\ pend[t].done /\ pend[t].c = c})
RcExact == \A c \in live : rc[c] = Cardinality({p \in AllParts : p.c = c}) + ClonesInFlight(c)

NoError == err = ""
Inv == Disjoint /\ SingleOwner /\ NoPartOfReleasedChunk /\ RcExact /\ NoError /\ Rc!RcNonNegative /\ Rc!NoOpOnReleased

=======================================================================

----------------------------- MODULE MC_LspDocs -----------------------------
(* M for LspDocs.tla on abstract texts: a text is its number of lines and whether it parses; a
   range is a line number.  Policy comes from the cfg: "latest" and "drop_on_fail" satisfy
   AnswerOK; "last_valid" (the implementation's policy) does not. *)
EXTENDS LspDocs, TLC

MCTexts == {"long_ok", "short_ok", "long_bad", "short_bad"}
NLines(t) == CASE t = "long_ok" -> 3 [] t = "short_ok" -> 1 [] t = "long_bad" -> 3 [] t = "short_bad" -> 1
MCParses(t) == t \in {"long_ok", "short_ok"}
MCRangesOf(t) == 0..(NLines(t) - 1)
MCValid(t, r) == r < NLines(t)
=============================================================================

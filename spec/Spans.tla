------------------------------- MODULE Spans -------------------------------
(* Well-formedness of what a parse returns about positions (C05).

   A span-tree record (one per parsed input, dumped by the harness from the real AST):
     [len   : size of the file in bytes,
      nb    : the byte offsets 0 < o < len that are NOT on a character boundary,
      nodes : sequence of [k, b, e, p, chk, name, text, head, last, n]]
   p is the index of the parent node in `nodes` (0 for a root; parents precede children).
   chk names what the covered text must be:
     "ident"  the covered text is exactly the identifier the node stores (text = name);
     "int" "float" "string" "bytes"  the covered text is one literal of that kind: head = its
              first code points (at most 8), last = its last code point, n = its length in
              code points;
     ""       nothing beyond the span rules.
   An error record: [len, nb, err = [b, e, mlen]] (err.none = TRUE when the error has no span,
   which the property does not allow for syntax errors; mlen = length of the message). *)
EXTENDS Naturals, Sequences, FiniteSets

SetOf(s) == {s[j] : j \in 1..Len(s)}
InFile(r,b,e)  == 0 <= b /\ b <= e /\ e <= r.len
OnBoundary(r,o) == o \notin SetOf(r.nb)

AlNum(c)   == (c >= 48 /\ c <= 57) \/ (c >= 65 /\ c <= 90) \/ (c >= 97 /\ c <= 122)
FloatCh(c) == (c >= 48 /\ c <= 57) \/ c \in {46, 43, 45, 69, 101}
Quote(c)   == c \in {34, 39}
Prefix(c)  == c \in {114, 98, 102, 82, 66, 70}          \* r b f R B F
\* the literal starts with at most two prefix letters, then the quote it also ends with
QuotedLit(nd) ==
  /\ nd.n >= 2 /\ Quote(nd.last)
  /\ \E q \in 1..Len(nd.head) : /\ nd.head[q] = nd.last
                                /\ q <= 3
                                /\ \A j \in 1..(q-1) : Prefix(nd.head[j])
TextOK(nd) ==
  CASE nd.chk = "ident"  -> nd.text = nd.name
    [] nd.chk = "int"    -> (nd.n >= 1 /\ \A j \in 1..Len(nd.head) : AlNum(nd.head[j])) /\ AlNum(nd.last)
    [] nd.chk = "float"  -> (nd.n >= 1 /\ \A j \in 1..Len(nd.head) : FloatCh(nd.head[j])) /\ FloatCh(nd.last)
    [] nd.chk \in {"string","bytes"} -> QuotedLit(nd)
    [] OTHER -> TRUE

SpanInBounds(r)  == \A j \in 1..Len(r.nodes) : InFile(r, r.nodes[j].b, r.nodes[j].e)
CharBoundary(r)  == \A j \in 1..Len(r.nodes) : OnBoundary(r, r.nodes[j].b) /\ OnBoundary(r, r.nodes[j].e)
Nested(r)        == \A j \in 1..Len(r.nodes) :
                       LET nd == r.nodes[j] IN
                       nd.p = 0 \/ (nd.p < j /\ r.nodes[nd.p].b <= nd.b /\ nd.e <= r.nodes[nd.p].e)
CoversText(r)    == \A j \in 1..Len(r.nodes) : TextOK(r.nodes[j])
TreeWellFormed(r) == SpanInBounds(r) /\ CharBoundary(r) /\ Nested(r) /\ CoversText(r)

ErrWellFormed(r) == /\ ~r.err.none
                    /\ r.err.mlen > 0                          \* the error carries a message
                    /\ InFile(r, r.err.b, r.err.e)
                    /\ OnBoundary(r, r.err.b) /\ OnBoundary(r, r.err.e)

\* which clause fails first (for the classification of a disagreement)
Why(r) ==
  IF r.t = "err"
  THEN (IF r.err.none \/ r.err.mlen = 0 THEN "error_without_span"
        ELSE IF ~InFile(r, r.err.b, r.err.e) THEN "span_out_of_bounds" ELSE "not_char_boundary")
  ELSE (IF ~SpanInBounds(r) THEN "span_out_of_bounds"
        ELSE IF ~CharBoundary(r) THEN "not_char_boundary"
        ELSE IF ~Nested(r) THEN "span_not_nested" ELSE "span_text")

(* Dialect monotonicity: the harness parses one text under a chain of dialects, each enabling
   a superset of the features of the previous one; acc[i] tells whether dialect i accepted and
   nfc[i] the equivalence class of its tree (equal normal form <=> equal class).  Enabling more
   features never turns an accepted file into a rejected one, nor changes its tree. *)
DialectMonotone(r) ==
  \A i \in 1..Len(r.acc) : \A j \in 1..Len(r.acc) :
     (i < j /\ r.acc[i]) => (r.acc[j] /\ r.nfc[j] = r.nfc[i])

WellFormed(r) ==
  CASE r.t = "tree" -> TreeWellFormed(r)
    [] r.t = "err"  -> ErrWellFormed(r)
    [] r.t = "mono" -> DialectMonotone(r)
    [] OTHER -> FALSE
=============================================================================

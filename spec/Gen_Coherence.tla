--------------------------- MODULE Gen_Coherence ---------------------------
(* G for C09.  TLC prints
     <<"VAL",    [index, representation class, hashable, cluster, [[path, source], ...]]>>   per abstract value
     <<"PAIR",   [i, j, eq, lt, get, in, len, index, zone, ne, le, gt, cmp, dup]>>   per ordered pair
     <<"TRIPLE", [i, j, k, [eq_ij, eq_jk, eq_ik], [c_ij, c_jk, c_ik], sorted, zone]>> per ordered triple of
                                                                    distinct numbers of one cluster
     <<"SORT",   [[indices], [expected positions], zone]>>          longer lists (pseudo-random, seeded)
   The expected observations of a pair (a, b) -- whatever construction paths produced a and b:
     eq     a == b                                  "True" | "False"
     lt     a < b                                   "True" | "False" | "type"  (not ordered: an error)
     get    {a: 1}.get(b)                           "1" | "None" | "unhashable"
     in     b in {a: 1}                             "True" | "False" | "unhashable"
     len    d = {a: 1}; d[b] = 2; len(d)            "1" | "2" | "unhashable"
     dup    len({a: 1, b: 2})                       "dup" (equal keys in a dict display: an error) | "2" | "unhashable"
     index  [a].index(b)                            "0" | "notfound"
   sorted: the positions (1-based, into the input list) in the order a STABLE sort by Cmp3 puts them. *)
EXTENDS Coherence, FiniteSets, Json, IOUtils

VARIABLES gkind, g1, g2, g3        \* NB: names bound nowhere in the extended modules

Params == IF "C09_PARAMS" \in DOMAIN IOEnv THEN ndJsonDeserialize(IOEnv.C09_PARAMS)[1]
          ELSE [seed |-> 1, nsort |-> 6, sortlen |-> 12]

B2S(pp) == IF pp THEN "True" ELSE "False"
LtS(cc) == IF cc = 2 THEN "type" ELSE IF cc = 3 THEN "any" ELSE B2S(cc < 0)

PairRow(ia, ib) ==
    LET eq  == EqM[ia][ib]
        hh  == HOK[ia] /\ HOK[ib]
    IN <<ia, ib, B2S(eq), LtS(CmpM[ia][ib]),
         IF ~hh THEN "unhashable" ELSE IF eq THEN "1" ELSE "None",
         IF ~hh THEN "unhashable" ELSE B2S(eq),
         IF ~hh THEN "unhashable" ELSE IF eq THEN "1" ELSE "2",
         IF eq THEN "0" ELSE "notfound",
         Zone(U[ia].v, U[ib].v),
         B2S(~eq),                                                          \* a != b
         IF CmpM[ia][ib] = 2 THEN "type" ELSE IF CmpM[ia][ib] = 3 THEN "any" ELSE B2S(CmpM[ia][ib] <= 0),       \* a <= b
         IF CmpM[ia][ib] = 2 THEN "type" ELSE IF CmpM[ia][ib] = 3 THEN "any" ELSE B2S(CmpM[ia][ib] = 1),        \* a > b
         IF CmpM[ia][ib] = 2 THEN "type" ELSE IF CmpM[ia][ib] = 3 THEN "any" ELSE ToString(CmpM[ia][ib]),       \* Value::compare
         IF ~hh THEN "unhashable" ELSE IF eq THEN "dup" ELSE "2">>          \* {a: 1, b: 2}: equal keys in a display are an error

(* stable insertion sort of positions 1..n of the index list `idx` by CmpM *)
RECURSIVE InsertPos(_, _, _, _)
InsertPos(sorted, idx, pos, at) ==      \* insert `pos` after every element that is <= it
    IF at > Len(sorted) THEN Append(sorted, pos)
    ELSE IF CmpM[idx[sorted[at]]][idx[pos]] = 1      \* sorted[at] > new: goes before it
         THEN SubSeq(sorted, 1, at - 1) \o <<pos>> \o SubSeq(sorted, at, Len(sorted))
         ELSE InsertPos(sorted, idx, pos, at + 1)
RECURSIVE StableSort(_, _)
StableSort(idx, upto) == IF upto = 0 THEN <<>> ELSE InsertPos(StableSort(idx, upto - 1), idx, upto, 1)

ListZone(idx) == IF \E aa \in 1..Len(idx), bb \in 1..Len(idx) : Zone(U[idx[aa]].v, U[idx[bb]].v) = "lossy"
                 THEN "lossy" ELSE "exact"

TripleRow(ia, ib, ic) ==
    <<ia, ib, ic,
      <<B2S(EqM[ia][ib]), B2S(EqM[ib][ic]), B2S(EqM[ia][ic])>>,
      <<CmpM[ia][ib], CmpM[ib][ic], CmpM[ia][ic]>>,
      StableSort(<<ia, ib, ic>>, 3),
      ListZone(<<ia, ib, ic>>)>>

(* longer sort lists: pseudo-random members of one cluster (two small congruential generators) *)
Clusters == {CL[ix] : ix \in 1..NNum}
RECURSIVE SetToSeq(_)
SetToSeq(ss) == IF ss = {} THEN <<>> ELSE LET xx == CHOOSE yy \in ss : TRUE IN <<xx>> \o SetToSeq(ss \ {xx})
ClusterSeq == SetToSeq({cl \in Clusters : Cardinality({ix \in 1..NNum : CL[ix] = cl}) >= 4})
Members(cl) == SetToSeq({ix \in 1..NNum : CL[ix] = cl})
RStep(st) == [x1 |-> ((75 * (st.x1 + 1)) % 65537) - 1, x2 |-> (171 * st.x2) % 30269]
RVal(st)  == (st.x1 + 3 * st.x2) % 32768
RInit(seed, salt) == RStep(RStep([x1 |-> (seed * 7919 + salt * 104729 + 12345) % 65536,
                                  x2 |-> 1 + ((seed * 31 + salt * 17 + 5) % 30268)]))
RECURSIVE Draw(_, _, _)
Draw(st, mem, cnt) == IF cnt = 0 THEN <<>> ELSE <<mem[1 + (RVal(st) % Len(mem))]>> \o Draw(RStep(st), mem, cnt - 1)
SortList(nn) == LET st  == RInit(Params.seed, nn)
                    mem == Members(ClusterSeq[1 + (nn % Len(ClusterSeq))])       \* every cluster in turn
                IN Draw(RStep(st), mem, Params.sortlen)
SortRow(nn) == LET idx == SortList(nn) IN <<idx, StableSort(idx, Len(idx)), ListZone(idx)>>

ValRow(ia) == <<ia, RC[ia], B2S(HOK[ia]), IF ia <= NNum THEN CL[ia] ELSE "", [rx \in 1..Len(U[ia].reps) |-> <<U[ia].reps[rx].p, U[ia].reps[rx].src>>] \o <<>>>>

Init == \/ gkind = "val" /\ g1 \in 1..NU /\ g2 = 0 /\ g3 = 0
        \/ gkind = "pair" /\ g1 \in 1..NU /\ g2 \in 1..NU /\ g3 = 0
        \/ gkind = "triple" /\ g1 \in 1..NNum /\ g2 \in 1..NNum /\ g3 \in 1..NNum
                            /\ g1 # g2 /\ g2 # g3 /\ g1 # g3 /\ CL[g1] = CL[g2] /\ CL[g2] = CL[g3]
        \/ gkind = "sort" /\ g1 \in 1..Params.nsort /\ g2 = 0 /\ g3 = 0
Next == UNCHANGED <<gkind, g1, g2, g3>>
Emit == CASE gkind = "val"    -> PrintT(<<"VAL", ToJson(ValRow(g1))>>)
          [] gkind = "pair"   -> PrintT(<<"PAIR", ToJson(PairRow(g1, g2))>>)
          [] gkind = "triple" -> PrintT(<<"TRIPLE", ToJson(TripleRow(g1, g2, g3))>>)
          [] gkind = "sort"   -> PrintT(<<"SORT", ToJson(SortRow(g1))>>)
=============================================================================

--------------------------- MODULE Gen_TypeMatch ---------------------------
(* G for C16: TLC enumerates type expressions x a value catalogue and prints, for every pair,
   what TypeMatch!Matches says.  One state per (type, value) pair; one TLC transition = one
   implementation test.  The type table and the value catalogue are printed once (ASSUME).

   Tier "quick"   : every type of depth <= 2 over the constructor/argument sets below.
   Tier "thorough": larger argument sets at depth <= 2, plus NSample pseudo-random depth-3 types
                    (own hash of Seed and the sample index: replayable, independent of TLC's RNG).

   The same run is M: the invariant Lemmas states laws the meaning must satisfy at every pair
   (Any is top, Never is bottom, union is disjunction, wrapping a value in a 1-list / 1-tuple
   commutes with wrapping the type, covariance of list in its parameter under union).         *)
EXTENDS TypeMatch, SequencesExt, Json, TLC, IOUtils

CONSTANTS Tier, NSample

Seed == IF "VERIF_SEED" \in DOMAIN IOEnv THEN atoi(IOEnv.VERIF_SEED) % 1000 ELSE 1

\* ------------------------------------------------------------------ value catalogue
I0 == VInt("0")   I1 == VInt("1")   I2 == VInt("2")   IM == VInt("-1")
B31 == VInt("big31")   B63 == VInt("big63")   B70 == VInt("big70")   NegB == VInt("negbig")
F0 == VFloat("0.0")   F1 == VFloat("1.0")   F15 == VFloat("1.5")   FN == VFloat("nan")
S0 == VStr("")   Sa == VStr("a")   Sb == VStr("b")
Tr == VBool("True")   Fa == VBool("False")
r1 == VRec("R1", <<I1>>)     r2 == VRec("R2", <<I1>>)      \* two declarations, equal shape
e1 == VEnumVal("E1", "a")    e2 == VEnumVal("E2", "a")     \* two declarations, equal values
e1b == VEnumVal("E1", "b")
\* declarations made by ONE record()/enum() call site executed twice with different arguments
rf1 == VRec("RF1", <<I1>>)   rf2 == VRec("RF2", <<Sa>>)
ef1 == VEnumVal("EF1", "a")  ef2 == VEnumVal("EF2", "b")
L(e) == VList(e)   T(e) == VTuple(e)   D(e) == VDict(e)   St(e) == VSet(e)

Vals == <<
  VNone, Tr, Fa,
  I0, I1, IM, B31, B63, B70, NegB,
  F0, F1, F15, FN,
  S0, Sa,
  \* lists: empty, homogeneous, heterogeneous, bool among ints, float among ints, big ints, nesting <= 3
  L(<<>>), L(<<I1>>), L(<<I1, I2>>), L(<<I1, B70>>), L(<<B31>>), L(<<Sa>>), L(<<Sa, Sb>>),
  L(<<I1, Sa>>), L(<<Sa, I1>>), L(<<I1, Tr>>), L(<<Tr>>), L(<<I1, F1>>), L(<<VNone>>), L(<<I1, VNone>>),
  L(<<VNone, L(<<>>)>>),
  L(<<L(<<I1>>)>>), L(<<L(<<>>)>>), L(<<L(<<I1>>), L(<<Sa>>)>>), L(<<L(<<I1>>), I1>>),
  L(<<L(<<L(<<I1>>)>>)>>), L(<<L(<<L(<<I1, Sa>>)>>)>>),
  L(<<T(<<I1, Sa>>)>>), L(<<T(<<I1, Sa>>), T(<<I1, I2>>)>>), L(<<T(<<>>)>>), L(<<T(<<I1>>)>>),
  L(<<D(<<Sa, I1>>)>>), L(<<D(<<Sa, I1>>), D(<<I1, Sa>>)>>), L(<<St(<<I1>>)>>),
  L(<<r1>>), L(<<r1, r2>>), L(<<e1>>), L(<<e1, e2>>), L(<<VFn("def")>>), L(<<L(<<r2>>)>>),
  \* tuples: arity 0..4, order, bool among ints, nesting
  T(<<>>), T(<<I1>>), T(<<Sa>>), T(<<Tr>>), T(<<VNone>>), T(<<B63>>),
  T(<<I1, Sa>>), T(<<Sa, I1>>), T(<<I1, I2>>), T(<<I1, Tr>>), T(<<B70, Sa>>), T(<<VNone, I1>>),
  T(<<I1, VNone>>), T(<<Sa, Sa>>), T(<<VNone, VNone>>),
  T(<<I1, I2, I0>>), T(<<I1, Sa, VNone>>), T(<<I1, Sa, Tr>>), T(<<Sa, I1, VNone>>), T(<<VNone, I1, Sa>>),
  T(<<I1, Sa, I1>>), T(<<I1, I2, I0, I1>>), T(<<I1, Sa, VNone, VNone>>),
  T(<<L(<<I1>>)>>), T(<<L(<<Sa>>)>>), T(<<T(<<I1>>)>>), T(<<T(<<I1, Sa>>), T(<<Sa>>)>>), T(<<L(<<I1>>), I1>>),
  T(<<I1, L(<<I1>>)>>), T(<<L(<<T(<<I1>>)>>)>>), T(<<L(<<T(<<Sa>>)>>)>>), T(<<D(<<Sa, I1>>), VNone>>),
  T(<<r1, r2>>), T(<<r1>>), T(<<e2>>),
  \* dicts: key/value heterogeneity, position of the offending entry, nesting
  D(<<>>), D(<<Sa, I1>>), D(<<Sa, Sb>>), D(<<I1, Sa>>), D(<<I1, I2>>), D(<<Sa, I1, Sb, Sa>>), D(<<Sa, I1, Sb, I2>>),
  D(<<Sa, I1, I1, I2>>), D(<<I1, I2, Sa, I1>>), D(<<Sa, L(<<I1>>)>>), D(<<Sa, L(<<I1, Sa>>)>>),
  D(<<Sa, D(<<Sb, I1>>)>>), D(<<Sa, D(<<Sb, Sa>>)>>), D(<<T(<<I1, Sa>>), I1>>), D(<<Sa, B70>>), D(<<B31, Sa>>),
  D(<<Sa, Tr>>), D(<<Tr, Sa>>), D(<<Sa, VNone>>), D(<<VNone, VNone>>), D(<<Sa, L(<<T(<<I1, Sa>>)>>)>>),
  D(<<Sa, L(<<T(<<I1, I2>>)>>)>>), D(<<Sa, r1>>), D(<<Sa, r1, Sb, r2>>), D(<<Sa, T(<<>>)>>),
  \* sets
  St(<<>>), St(<<I1>>), St(<<Sa>>), St(<<I1, Sa>>), St(<<I1, I2>>), St(<<I1, B70>>), St(<<T(<<I1>>)>>),
  St(<<T(<<I1>>), T(<<Sa>>)>>), St(<<I1, Tr>>), St(<<VNone>>), St(<<I1, VNone>>),
  \* functions, ranges, structs, records, enums, types as values
  VFn("def"), VFn("lambda"), VFn("builtin"), VFn("method"), VFn("partial"),
  VRange("0"), VRange("3"), VStruct(<<I1>>),
  r1, r2, e1, e2, e1b,
  VRecType("R1"), VRecType("R2"), VEnumType("E1"), VEnumType("E2"), VTyFn("int"), VTyFn("list"),
  \* the one-call-site family
  rf1, rf2, ef1, ef2, L(<<rf1, rf2>>), T(<<ef2>>)
>>
NV == Len(Vals)

\* ------------------------------------------------------------------ type expressions
Atoms == {TAny, TNever, TNone, TBool, TInt, TFloat, TStr, TAnyList, TAnyDict, TAnyTuple, TAnySet,
          TCallable, TIterable, TRec("R1"), TRec("R2"), TEnum("E1"), TEnum("E2")}
FAtoms == {TRec("RF1"), TRec("RF2"), TEnum("EF1"), TEnum("EF2")}

\* argument sets for the 2- and 3-ary constructors (kept small: the product is what grows)
S2 == IF Tier = "quick" THEN {TAny, TNone, TInt, TStr, TBool, TAnyList, TRec("R1")}
      ELSE {TAny, TNever, TNone, TInt, TStr, TBool, TFloat, TAnyList, TAnyTuple, TCallable, TRec("R1"), TEnum("E1")}
S3 == IF Tier = "quick" THEN {TAny, TNone, TInt, TStr} ELSE {TAny, TNone, TInt, TStr, TBool, TAnyList}

Unary(X)  == {TList(x) : x \in X} \cup {TSet(x) : x \in X} \cup {TTupleOf(x) : x \in X}
             \cup {TTuple(<<x>>) : x \in X}
Binary(X, Y) == {TDict(x, y) : x \in X, y \in Y} \cup {TTuple(<<x, y>>) : x \in X, y \in Y}
                \cup {TUnion(<<x, y>>) : x \in X, y \in Y}
Ternary(X, Y, Z) == {TTuple(<<x, y, z>>) : x \in X, y \in Y, z \in Z}
                    \cup {TUnion(<<x, y, z>>) : x \in X, y \in Y, z \in Z}

D0 == Atoms \cup FAtoms
D1 == Unary(Atoms) \cup {TTuple(<<>>)} \cup Binary(S2, S2) \cup Ternary(S3, S3, S3)
      \cup {TList(x) : x \in FAtoms} \cup {TTuple(<<x>>) : x \in FAtoms}
      \cup {TUnion(<<x, TNone>>) : x \in FAtoms}

\* the depth-1 types that the 2- and 3-ary constructors take as arguments at depth 2: one or two of
\* every shape that selects a different matcher
D1s == {TList(TInt), TList(TStr), TList(TAny), TList(TRec("R1")), TList(TEnum("E1")), TList(TNone),
        TSet(TInt), TSet(TStr), TTupleOf(TInt), TTupleOf(TAny), TTuple(<<>>), TTuple(<<TInt>>),
        TTuple(<<TInt, TStr>>), TTuple(<<TInt, TStr, TNone>>), TTuple(<<TAny, TInt>>),
        TDict(TStr, TInt), TDict(TStr, TAny), TDict(TAny, TInt), TDict(TInt, TStr),
        TUnion(<<TInt, TStr>>), TUnion(<<TNone, TInt>>), TUnion(<<TInt, TNone>>), TUnion(<<TNone, TAnyList>>),
        TUnion(<<TInt, TStr, TNone>>), TUnion(<<TAny, TInt>>)}
Y2 == IF Tier = "quick" THEN {TInt, TNone, TAny, TStr} ELSE {TInt, TNone, TAny, TStr, TBool, TAnyList, TRec("R1")}

\* unions whose members share a constructor (in both tiers; the quick argument sets would not reach them)
Merge2 == {TUnion(<<TList(TInt), TList(TStr)>>), TUnion(<<TList(TInt), TNone, TList(TBool)>>),
           TUnion(<<TDict(TStr, TInt), TDict(TInt, TStr)>>), TUnion(<<TDict(TStr, TInt), TAnyList, TDict(TStr, TStr)>>),
           TUnion(<<TSet(TInt), TSet(TStr)>>), TUnion(<<TTupleOf(TInt), TTupleOf(TStr)>>),
           TUnion(<<TTuple(<<TInt>>), TTuple(<<TStr>>)>>), TUnion(<<TTuple(<<TInt, TStr>>), TTuple(<<TStr, TInt>>)>>),
           TUnion(<<TUnion(<<TList(TInt), TNone>>), TList(TStr)>>),
           TList(TUnion(<<TList(TInt), TList(TStr)>>)), TUnion(<<TList(TList(TInt)), TList(TList(TStr))>>),
           TUnion(<<TRec("R1"), TRec("R2")>>), TUnion(<<TEnum("E1"), TEnum("E2")>>)}

\* quick: list[..] and (..,) over every depth-1 type, set[..] and tuple[.., ...] over the D1s selection
Unary2 == IF Tier = "quick"
          THEN {TList(x) : x \in D1} \cup {TTuple(<<x>>) : x \in D1}
               \cup {TSet(x) : x \in D1s} \cup {TTupleOf(x) : x \in D1s}
          ELSE Unary(D1)
D2 == Unary2 \cup Binary(D1s, Y2) \cup Binary(Y2, D1s)
      \cup Ternary(D1s, {TInt}, {TNone}) \cup Ternary({TInt}, D1s, {TNone}) \cup Ternary({TNone}, {TInt}, D1s)
      \cup (IF Tier = "quick" THEN {} ELSE Binary(D1s, D1s))
      \cup Merge2


Base == SetToSeq(D0 \cup D1 \cup D2)
NB0  == Len(Base)

\* ---- depth-3 sample (thorough).  H is a small integer hash; every product stays below 2^31.
H(i, j)  == LET h1 == (Seed * 7919 + i * 104729 + j * 611953) % 1000003
                h2 == (h1 * 2039 + 17) % 1000003
            IN  h2
D1q  == SetToSeq(D1)
D2q  == SetToSeq(D2)
A1q  == SetToSeq(Atoms)
PickA(i, j) == A1q[(H(i, j) % Len(A1q)) + 1]
Pick1(i, j) == D1q[(H(i, j) % Len(D1q)) + 1]
Pick2(i, j) == D2q[(H(i, j) % Len(D2q)) + 1]
Sample3(i) ==
  LET c == H(i, 0) % 12   x == Pick2(i, 1)   y == Pick1(i, 2)   z == PickA(i, 3) IN
  CASE c = 0  -> TList(x)
    [] c = 1  -> TSet(x)
    [] c = 2  -> TTupleOf(x)
    [] c = 3  -> TTuple(<<x>>)
    [] c = 4  -> TDict(z, x)
    [] c = 5  -> TDict(y, x)
    [] c = 6  -> TTuple(<<x, y>>)
    [] c = 7  -> TTuple(<<z, x>>)
    [] c = 8  -> TUnion(<<x, y>>)
    [] c = 9  -> TUnion(<<z, x>>)
    [] c = 10 -> TTuple(<<z, x, y>>)
    [] c = 11 -> TUnion(<<x, z, y>>)
Sampled == [i \in 1..NSample |-> Sample3(i)]

TypeSeq == Base \o Sampled
NT == Len(TypeSeq)

\* ------------------------------------------------------------------ classification
\* family "same_site": the type mentions a declaration made by a call site that also made the
\* declaration of a value inside v (RF1/RF2, EF1/EF2) -- reported separately, see known_findings.
Sib(n) == CASE n = "RF1" -> "RF2" [] n = "RF2" -> "RF1" [] n = "EF1" -> "EF2" [] n = "EF2" -> "EF1" [] OTHER -> ""
\* family "union_merge": the pair is one where reading the type as typing/ty.rs normalises it
\* (TypeMatch!Widen: list[A] | list[B] as list[A | B], dicts likewise) changes the answer.
WidenSeq == [i \in 1..NT |-> Widen(TypeSeq[i])]
Family(i, v) == LET ty == TypeSeq[i] IN
                 IF \E n \in {"RF1", "RF2", "EF1", "EF2"} : TyMentions(ty, {n}) /\ ValMentions(v, {Sib(n)})
                 THEN "same_site"
                 ELSE IF Matches(WidenSeq[i], v) # Matches(ty, v) THEN "union_merge" ELSE "plain"

\* ------------------------------------------------------------------ the state machine
VARIABLES ti, vi
vars == <<ti, vi>>
Init == ti \in 1..NT /\ vi = 0
Next == vi < NV /\ vi' = vi + 1 /\ ti' = ti
Spec == Init /\ [][Next]_vars

PrintPair == PrintT(<<"P", ti, vi', Matches(TypeSeq[ti], Vals[vi']), Family(ti, Vals[vi']),
                      Deep(TypeSeq[ti], Vals[vi'])>>)

\* laws of the meaning (M), checked at every pair reached
Lemmas ==
  vi = 0 \/ (ti % 4 # vi % 4) \/          \* a quarter of the pairs: every type, every value
  LET ty == TypeSeq[ti]  v == Vals[vi]  m == Matches(ty, v) IN
    /\ Matches(TAny, v) /\ ~Matches(TNever, v)
    /\ Matches(TUnion(<<ty, TNone>>), v) = (m \/ v.t = "none")
    /\ Matches(TUnion(<<TNever, ty>>), v) = m
    /\ Matches(TList(ty), VList(<<v>>)) = m
    /\ Matches(TList(ty), VList(<<>>))
    /\ Matches(TTuple(<<ty>>), VTuple(<<v>>)) = m
    /\ Matches(TTupleOf(ty), VTuple(<<v, v>>)) = m
    /\ Matches(TTuple(<<ty, ty>>), VTuple(<<v, v>>)) = m
    /\ ~Matches(TTuple(<<ty, ty>>), VTuple(<<v>>))
    /\ Matches(TDict(TStr, ty), VDict(<<VStr("k"), v>>)) = m
    /\ (m => Matches(TList(TUnion(<<ty, TStr>>)), VList(<<v, VStr("s")>>)))
    /\ (ty.k = "union" => (m = \E i \in 1..Len(ty.a) : Matches(ty.a[i], v)))

ASSUME PrintT(<<"VALS", ToJson(Vals)>>)
ASSUME PrintT(<<"TYPES", ToJson([i \in 1..NT |-> [ty |-> TypeSeq[i], depth |-> TyDepth(TypeSeq[i]),
                                                  shape |-> Shape(TypeSeq[i])]])>>)
=============================================================================

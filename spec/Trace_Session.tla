--------------------------- MODULE Trace_Session ---------------------------
(* V for C07 (and C12's error exit): evaluation is total and recoverable.

   Two kinds of recorded events:
   "session": several chunks evaluated on ONE module + evaluator, any subset failing.  Accepted iff
       for every chunk the transcript / failure kind / failure line equal Sem.RunSession's (which
       continues after a failure with an empty call stack and all iteration locks released -- so
       "the same result as on a fresh evaluator" is what Sem computes), the real call stack is
       empty after every chunk, and the implementation's iteration-lock events are balanced.
   "ncall": one call of a builtin or method with catalogue arguments.  The specification's action
       NativeCall has a nondeterministic result in {value, error} and a deterministic effect on
       the evaluator: the only admissible observations are "value" or "error with a span inside
       the file", the call stack is empty afterwards and the probe evaluation gives its usual
       result. *)
EXTENDS Sem, Json, IOUtils

VARIABLES l, skipped, bad
Rec == ndJsonDeserialize(IOEnv.TRACE)

ChunkOk(e, g) ==       \* e: Sem's [out, err]; g: observed
    /\ OutEq(e.out, g.out)
    /\ e.err.kind = g.kind
    /\ (e.err.kind # "" => e.err.line = g.line)
    /\ g.stack = 0
    /\ g.locks = 0
    /\ g.host_ok            \* the embedder can still read every name of the module

JudgeSession(r) ==
    LET s == RunSessionS(r.chunks, r.static, 50) IN
    IF ~SessionInDomain(s.res) THEN "skip"
    ELSE IF Len(s.res) = Len(r.res) /\ \A i \in 1..Len(s.res) : ChunkOk(s.res[i], r.res[i])
         THEN "ok" ELSE "bad"

(* NativeCall: result \in {"value", "error"}; afterwards depth = 0, locks = 0, probe unchanged *)
JudgeNative(r) ==
    IF /\ r.res \in {"value", "error"}
       /\ (r.res = "error" => r.span_ok)
       /\ r.stack = 0
       /\ r.probe_ok
    THEN "ok" ELSE "bad"

Judge(r) == IF r.a = "session" THEN JudgeSession(r) ELSE JudgeNative(r)

TInit == l = 1 /\ skipped = 0 /\ bad = 0
TNext == /\ l <= Len(Rec)
         /\ LET j == Judge(Rec[l]) IN
            /\ skipped' = IF j = "skip" THEN skipped + 1 ELSE skipped
            /\ bad' = IF j = "bad" THEN bad + 1 ELSE bad
            /\ (j = "bad" => PrintT(<<"BAD", ToJson([id |-> Rec[l].id])>>))
         /\ l' = l + 1
TSpec == TInit /\ [][TNext]_<<l, skipped, bad>>
Accepted == TLCGet("stats").diameter - 1 = Len(Rec)
Final == (l = Len(Rec) + 1) => PrintT(<<"STATS", ToJson([n |-> Len(Rec), skipped |-> skipped, bad |-> bad])>>)

Explain == \A i \in 1..Len(Rec) :
    (Rec[i].a = "session") =>
        LET s == RunSessionS(Rec[i].chunks, Rec[i].static, 50) IN
        PrintT(<<"SEM", ToJson([id |-> Rec[i].id, res |-> s.res])>>)
=============================================================================

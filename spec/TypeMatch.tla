----------------------------- MODULE TypeMatch -----------------------------
(* C16 -- what it MEANS for a value to have a type.

   Written from docs/types.md ("What does a type mean?", "Record types", "Enum types"), not
   from values/typing/type_compiled/*.rs:

     typing.Any        matches any value               typing.Never   has no values
     None              the value None
     int bool str      "the values produced by the respective functions"  (so: float, and the
                       bare container functions list dict tuple set, by the same sentence)
     list[T]           a list of T                     dict[K, V]     K keys and V values
     (T1, .., Tn)      a tuple of arity n with components T1..Tn  (docs spell it tuple[T1,..,Tn])
     tuple[T, ...]     a tuple of unknown arity, all components T
     T | U             a value that is either a T or a U
     typing.Callable   something that can be called as a function
     typing.Iterable   something that can be iterated on
     R = record(..)    the values created with R(..)   E = enum(..)   the values created with E(..)

   A type expression is the tagged record  [k |-> kind, n |-> name, a |-> <<argument types>>];
   a value is the tagged record            [t |-> tag,  n |-> name, e |-> <<element values>>].
   Every record has the same three fields so that TLC never compares values of different shape.
   Integers are names ("1", "big31" for 2^31, ..), never TLC numbers: only *which kind of thing*
   a value is matters to a type, and TLC integers overflow at 2^31.
   A dict value carries its entries flattened: e = <<k1, v1, k2, v2, ..>>.                     *)
EXTENDS Naturals, Sequences

\* ------------------------------------------------------------------ type expressions
Ty(k, n, a)  == [k |-> k, n |-> n, a |-> a]
TAny         == Ty("any", "", <<>>)
TNever       == Ty("never", "", <<>>)
TNone        == Ty("none", "", <<>>)
TBool        == Ty("bool", "", <<>>)
TInt         == Ty("int", "", <<>>)
TFloat       == Ty("float", "", <<>>)
TStr         == Ty("str", "", <<>>)
TAnyList     == Ty("anylist", "", <<>>)          \* the bare function `list` used as a type
TAnyDict     == Ty("anydict", "", <<>>)
TAnyTuple    == Ty("anytuple", "", <<>>)
TAnySet      == Ty("anyset", "", <<>>)
TCallable    == Ty("callable", "", <<>>)
TIterable    == Ty("iterable", "", <<>>)
TRec(n)      == Ty("rec", n, <<>>)               \* n names the record() declaration
TEnum(n)     == Ty("enum", n, <<>>)              \* n names the enum() declaration
TList(x)     == Ty("list", "", <<x>>)
TSet(x)      == Ty("set", "", <<x>>)
TDict(x, y)  == Ty("dict", "", <<x, y>>)
TTuple(xs)   == Ty("tuple", "", xs)              \* fixed arity Len(xs) >= 0
TTupleOf(x)  == Ty("tupleof", "", <<x>>)         \* tuple[T, ...]
TUnion(xs)   == Ty("union", "", xs)              \* Len(xs) >= 2

\* ------------------------------------------------------------------ values
Val(t, n, e) == [t |-> t, n |-> n, e |-> e]
VNone        == Val("none", "", <<>>)
VBool(n)     == Val("bool", n, <<>>)             \* "True" "False"
VInt(n)      == Val("int", n, <<>>)              \* "0" "1" "2" "-1" "big31" "big63" "big70" "negbig"
VFloat(n)    == Val("float", n, <<>>)            \* "0.0" "1.0" "1.5" "nan" "inf"
VStr(n)      == Val("str", n, <<>>)
VList(e)     == Val("list", "", e)
VTuple(e)    == Val("tuple", "", e)
VSet(e)      == Val("set", "", e)
VDict(e)     == Val("dict", "", e)               \* e = <<k1, v1, k2, v2, ...>>
VFn(n)       == Val("fn", n, <<>>)               \* "def" "lambda" "builtin" "method" "partial"
VRange(n)    == Val("range", n, <<>>)
VRec(n, e)   == Val("rec", n, e)                 \* instance created with the record type named n
VEnumVal(n, s) == Val("enumval", n, <<VStr(s)>>) \* value created with the enum type named n
VStruct(e)   == Val("struct", "", e)
VRecType(n)  == Val("rectype", n, <<>>)          \* the record type itself, as a value
VEnumType(n) == Val("enumtype", n, <<>>)         \* the enum type itself, as a value
VTyFn(n)     == Val("tyfn", n, <<>>)             \* the function `int`, `str`, .. as a value

\* ------------------------------------------------------------------ the meaning
\* "something that can be called as a function": functions of every kind, and the things the
\* document says are called to create values -- `MyRecord(host=..)`, `MyEnum("option2")`, `int`.
IsCallableV(v) == v.t \in {"fn", "rectype", "enumtype", "tyfn"}

\* "something that can be iterated on": the language's iterable values (strings are not iterable
\* in Starlark), and enum types ("iteration over enums [x.value for x in MyEnum]").
IsIterableV(v) == v.t \in {"list", "tuple", "dict", "set", "range", "enumtype"}

RECURSIVE Matches(_, _)
Matches(ty, v) ==
  CASE ty.k = "any"      -> TRUE
    [] ty.k = "never"    -> FALSE
    [] ty.k = "none"     -> (v.t = "none")
    [] ty.k = "bool"     -> (v.t = "bool")                       \* bool is not int
    [] ty.k = "int"      -> (v.t = "int")                        \* small and big alike
    [] ty.k = "float"    -> (v.t = "float")                      \* int is not float
    [] ty.k = "str"      -> (v.t = "str")
    [] ty.k = "anylist"  -> (v.t = "list")
    [] ty.k = "anydict"  -> (v.t = "dict")
    [] ty.k = "anytuple" -> (v.t = "tuple")
    [] ty.k = "anyset"   -> (v.t = "set")
    [] ty.k = "list"     -> (v.t = "list"  /\ \A i \in 1..Len(v.e) : Matches(ty.a[1], v.e[i]))
    [] ty.k = "set"      -> (v.t = "set"   /\ \A i \in 1..Len(v.e) : Matches(ty.a[1], v.e[i]))
    [] ty.k = "tupleof"  -> (v.t = "tuple" /\ \A i \in 1..Len(v.e) : Matches(ty.a[1], v.e[i]))
    [] ty.k = "dict"     -> (v.t = "dict"  /\ \A i \in 1..(Len(v.e) \div 2) :
                                 Matches(ty.a[1], v.e[2*i - 1]) /\ Matches(ty.a[2], v.e[2*i]))
    [] ty.k = "tuple"    -> (v.t = "tuple" /\ Len(v.e) = Len(ty.a)
                                 /\ \A i \in 1..Len(ty.a) : Matches(ty.a[i], v.e[i]))
    [] ty.k = "union"    -> (\E i \in 1..Len(ty.a) : Matches(ty.a[i], v))
    [] ty.k = "callable" -> IsCallableV(v)
    [] ty.k = "iterable" -> IsIterableV(v)
    [] ty.k = "rec"      -> (v.t = "rec" /\ v.n = ty.n)          \* by declaration, not by shape
    [] ty.k = "enum"     -> (v.t = "enumval" /\ v.n = ty.n)

\* ------------------------------------------------------------------ helpers for generators
RECURSIVE TyDepth(_)
TyDepth(ty) == IF Len(ty.a) = 0 THEN 0
               ELSE (LET S == {TyDepth(ty.a[i]) : i \in 1..Len(ty.a)}
                     IN  1 + (CHOOSE m \in S : \A x \in S : x <= m))

\* the outermost constructor(s): "list", "union(none,list)", ... used to classify disagreements
Shape(ty) == IF ty.k \in {"union", "tuple", "dict", "list", "set", "tupleof"}
             THEN [k |-> ty.k, args |-> [i \in 1..Len(ty.a) |-> ty.a[i].k]]
             ELSE [k |-> ty.k, args |-> <<>>]

\* the decision needs to look inside the value: the type has parameters and the value is of the
\* outer kind(s) the type admits
RECURSIVE Erase(_)
Erase(ty) == CASE ty.k = "list" -> TAnyList
               [] ty.k = "set" -> TAnySet
               [] ty.k = "dict" -> TAnyDict
               [] ty.k \in {"tuple", "tupleof"} -> TAnyTuple
               [] ty.k = "union" -> TUnion([i \in 1..Len(ty.a) |-> Erase(ty.a[i])])
               [] OTHER -> ty
Deep(ty, v) == Len(ty.a) > 0 /\ Matches(Erase(ty), v)

\* ---- an explanatory reading, used ONLY to classify disagreements (never as the expected answer).
\* typing/ty.rs::Ty::unions normalises a union by merging its list members into one list of the union
\* of their parameters, and its dict members likewise: list[A] | list[B] becomes list[A | B].  Widen
\* computes that normal form; a pair with Matches(Widen(ty), v) # Matches(ty, v) is one that this
\* widening, and nothing else, explains.
IsListTy(t)  == t.k \in {"list", "anylist"}
IsDictTy(t)  == t.k \in {"dict", "anydict"}
IsOtherTy(t) == ~IsListTy(t) /\ ~IsDictTy(t)
ListParam(t) == IF t.k = "list" THEN t.a[1] ELSE TAny
DictKey(t)   == IF t.k = "dict" THEN t.a[1] ELSE TAny
DictVal(t)   == IF t.k = "dict" THEN t.a[2] ELSE TAny
MkUnion(xs)  == IF Len(xs) = 1 THEN xs[1] ELSE TUnion(xs)
RECURSIVE FlatMembers(_)
FlatMembers(xs) == IF Len(xs) = 0 THEN <<>>
                   ELSE (IF Head(xs).k = "union" THEN Head(xs).a ELSE <<Head(xs)>>) \o FlatMembers(Tail(xs))
RECURSIVE Widen(_)
Widen(ty) ==
  IF ty.k # "union" THEN [ty EXCEPT !.a = [i \in 1..Len(ty.a) |-> Widen(ty.a[i])]]
  ELSE LET ms == FlatMembers([i \in 1..Len(ty.a) |-> Widen(ty.a[i])])
           ls == SelectSeq(ms, IsListTy)
           ds == SelectSeq(ms, IsDictTy)
           l  == IF Len(ls) <= 1 THEN ls
                 ELSE <<TList(Widen(TUnion([i \in 1..Len(ls) |-> ListParam(ls[i])])))>>
           d  == IF Len(ds) <= 1 THEN ds
                 ELSE <<TDict(Widen(TUnion([i \in 1..Len(ds) |-> DictKey(ds[i])])),
                              Widen(TUnion([i \in 1..Len(ds) |-> DictVal(ds[i])])))>>
       IN  MkUnion(SelectSeq(ms, IsOtherTy) \o l \o d)

RECURSIVE TyMentions(_, _)
TyMentions(ty, names) == (ty.k \in {"rec", "enum"} /\ ty.n \in names)
                         \/ \E i \in 1..Len(ty.a) : TyMentions(ty.a[i], names)
RECURSIVE ValMentions(_, _)
ValMentions(v, names) == (v.t \in {"rec", "enumval"} /\ v.n \in names)
                         \/ \E i \in 1..Len(v.e) : ValMentions(v.e[i], names)
=============================================================================

------------------------------ MODULE HeapCopy ------------------------------
(* The two-space copying collector of docs/gc.md, used both by garbage collection and by
   freezing: reserve a slot in the new space with a black hole, turn the old object into a
   forward pointer, trace the grabbed fields (depth first), fill the black hole, adjust the roots,
   drop the old space.  One action per step of the algorithm; TLC explores every object graph
   with N objects of F pointer fields (cycles and sharing included) and every choice of roots.

   Properties (C03/C04): after DropFrom no pointer into the old space survives; the copy is an
   isomorphism on the reachable graph (cycles and sharing preserved); every object is copied at
   most once; nothing unreachable is copied; no black hole remains. *)
EXTENDS Naturals, Sequences, FiniteSets, TLC

CONSTANTS N, F, R      \* objects 1..N, fields per object, number of roots
NIL == 0
Obj == 1..N

VARIABLES graph,      \* [Obj -> [1..F -> Obj \cup {NIL}]]   the old space (immutable payloads)
          roots,      \* [1..R -> Obj]
          fwd,        \* [Obj -> Nat]   0 = not forwarded, else address in the new space
          to,         \* sequence of [hole: BOOLEAN, fields: [1..F -> Nat]]
          stack,      \* frames [o, a, i, acc]
          ri,         \* next root to process
          newRoots,   \* sequence of new-space addresses
          phase       \* "collect" | "dropped"

vars == <<graph, roots, fwd, to, stack, ri, newRoots, phase>>

Init == /\ graph \in [Obj -> [1..F -> Obj \cup {NIL}]]
        /\ roots \in [1..R -> Obj]
        /\ fwd = [o \in Obj |-> 0]
        /\ to = <<>> /\ stack = <<>> /\ ri = 1 /\ newRoots = <<>> /\ phase = "collect"

Hole == [hole |-> TRUE, fields |-> [i \in 1..F |-> NIL]]

(* step 1: allocate a black hole, forward the old object, grab its payload *)
Reserve(o) == /\ to' = Append(to, Hole)
              /\ fwd' = [fwd EXCEPT ![o] = Len(to) + 1]
              /\ stack' = Append(stack, [o |-> o, a |-> Len(to) + 1, i |-> 1, acc |-> <<>>])

StartRoot == /\ phase = "collect" /\ stack = <<>> /\ ri <= R
             /\ LET r == roots[ri] IN
                IF fwd[r] # 0
                THEN /\ newRoots' = Append(newRoots, fwd[r]) /\ ri' = ri + 1
                     /\ UNCHANGED <<graph, roots, fwd, to, stack, phase>>
                ELSE /\ Reserve(r) /\ UNCHANGED <<graph, roots, ri, newRoots, phase>>

Top == stack[Len(stack)]
SetTop(f) == stack' = [stack EXCEPT ![Len(stack)] = f]

(* step 2: walk the pointers of the current value *)
TraceField == /\ phase = "collect" /\ stack # <<>> /\ Top.i <= F
              /\ LET p == graph[Top.o][Top.i] IN
                 IF p = NIL
                 THEN /\ SetTop([Top EXCEPT !.i = @ + 1, !.acc = Append(@, NIL)])
                      /\ UNCHANGED <<graph, roots, fwd, to, ri, newRoots, phase>>
                 ELSE IF fwd[p] # 0
                 THEN /\ SetTop([Top EXCEPT !.i = @ + 1, !.acc = Append(@, fwd[p])])
                      /\ UNCHANGED <<graph, roots, fwd, to, ri, newRoots, phase>>
                 ELSE /\ Reserve(p) /\ UNCHANGED <<graph, roots, ri, newRoots, phase>>

(* step 3: write the translated payload over the black hole.  When the frame below is waiting for
   this object, its pending field is resolved by the next TraceField (the object is forwarded now) *)
Fill == /\ phase = "collect" /\ stack # <<>> /\ Top.i > F
        /\ to' = [to EXCEPT ![Top.a] = [hole |-> FALSE, fields |-> [i \in 1..F |-> Top.acc[i]]]]
        /\ stack' = SubSeq(stack, 1, Len(stack) - 1)
        /\ UNCHANGED <<graph, roots, fwd, ri, newRoots, phase>>

(* step 4: all roots adjusted: throw the old space away *)
DropFrom == /\ phase = "collect" /\ stack = <<>> /\ ri > R
            /\ phase' = "dropped"
            /\ UNCHANGED <<graph, roots, fwd, to, stack, ri, newRoots>>

Next == StartRoot \/ TraceField \/ Fill \/ DropFrom
Spec == Init /\ [][Next]_vars

(* ------------------------------------------------------------------ properties *)
RECURSIVE ReachFrom(_, _)
ReachFrom(S, fuel) ==
    IF fuel = 0 THEN S
    ELSE LET S2 == S \cup ({graph[o][i] : o \in S, i \in 1..F} \ {NIL}) IN
         IF S2 = S THEN S ELSE ReachFrom(S2, fuel - 1)
Reachable == ReachFrom({roots[i] : i \in 1..R}, N)

CopiedAtMostOnce == \A o1, o2 \in Obj : (fwd[o1] # 0 /\ fwd[o1] = fwd[o2]) => o1 = o2
ForwardInRange == \A o \in Obj : fwd[o] <= Len(to)
OnlyReachableCopied == \A o \in Obj : fwd[o] # 0 => o \in Reachable

Done == phase = "dropped"
AllReachableCopied == Done => \A o \in Reachable : fwd[o] # 0
NoGarbageCopied == Done => Len(to) = Cardinality(Reachable)
NoHoleLeft == Done => \A a \in 1..Len(to) : ~to[a].hole
Isomorphic == Done => \A o \in Reachable : \A i \in 1..F :
                  to[fwd[o]].fields[i] = (IF graph[o][i] = NIL THEN NIL ELSE fwd[graph[o][i]])
RootsAdjusted == Done => (Len(newRoots) = R /\ \A i \in 1..R : newRoots[i] = fwd[roots[i]])
(* every pointer stored in the new space designates a new-space object: nothing dangles into the
   dropped space *)
NoDanglingIntoFrom == Done => \A a \in 1..Len(to) : \A i \in 1..F : to[a].fields[i] <= Len(to)

Inv == CopiedAtMostOnce /\ ForwardInRange /\ OnlyReachableCopied /\ AllReachableCopied /\ NoGarbageCopied
       /\ NoHoleLeft /\ Isomorphic /\ RootsAdjusted /\ NoDanglingIntoFrom
Terminates == <>(phase = "dropped")
=============================================================================

------------------------------ MODULE ExprGen ------------------------------
(* G for C01 / C02: every operation form x every pair of operand shapes, exhaustively.

   The random generator (gen.rs) meets an interaction such as `"<%s>" % (x,)` with x a tuple
   only by luck.  This module enumerates them: a catalogue of operand VALUES (ints of each
   sign, strings incl. templates, tuples of length 0 / 1 / 2 and nested, lists, dicts, None,
   bools) and a list of operation FORMS with one or two holes (every binary operator, indexing
   and slicing shapes, the builtins, the string / list / dict methods, % and .format in their
   argument shapes).  A case is  form x (value for Xh) x (value for Yh) x how each hole is written:
        "var"  a name whose value the compiler cannot know (module global / function parameter)
        "lit"  the literal itself (constant folding, speculative execution, specialisation)
   x where the expression is evaluated (module level / inside a def).  TLC evaluates every case
   with Sem.tla; one session per (form, Xh): a prelude chunk binding the catalogue, then one chunk
   per case (a chunk that fails does not disturb the next one -- Sem's session semantics).
   Each printed session is one implementation test: the harness replays the chunks on the real
   evaluator and every chunk's transcript and outcome kind must be Sem's. *)
EXTENDS Sem, Ast, Json

CONSTANTS Modes,     \* subset of {"vv", "ll", "vl", "lv"}: how (Xh, Yh) are written
          Ctxs,      \* subset of {"mod", "def"}
          YCat, ZCat \* catalogue indices that the second / third hole of the three-hole forms range over

S(cp) == AStr(cp)
Cat == <<
  [n |-> "vi",  e |-> AInt(3)],
  [n |-> "vz",  e |-> AInt(0)],
  [n |-> "vn",  e |-> AInt(-2)],
  [n |-> "vs",  e |-> S(<<97, 98>>)],                                   \* "ab"
  [n |-> "ve",  e |-> S(<<>>)],
  [n |-> "vc",  e |-> S(<<97, 44, 98, 32, 65>>)],                       \* "a,b A"
  [n |-> "vp",  e |-> S(<<60, 37, 115, 62>>)],                          \* "<%s>"
  [n |-> "vf",  e |-> S(<<60, 123, 125, 62>>)],                         \* "<{}>"
  [n |-> "vt",  e |-> ATuple(<<AInt(1), AInt(2)>>)],
  [n |-> "vt1", e |-> ATuple(<<AInt(7)>>)],
  [n |-> "vt0", e |-> ATuple(<<>>)],
  [n |-> "vtt", e |-> ATuple(<<ATuple(<<AInt(1), AInt(2)>>)>>)],
  [n |-> "vl",  e |-> AList(<<AInt(2), AInt(1)>>)],
  [n |-> "vl0", e |-> AList(<<>>)],
  [n |-> "vls", e |-> AList(<<S(<<98>>), S(<<97>>)>>)],
  [n |-> "vd",  e |-> ADict(<<S(<<97>>), S(<<98>>)>>, <<AInt(1), AInt(2)>>)],
  [n |-> "vd0", e |-> ADict(<<>>, <<>>)],
  [n |-> "vr",  e |-> ACall(AVar("range"), <<AInt(3)>>)],
  [n |-> "vq",  e |-> ACall(AVar("set"), <<AList(<<AInt(2), S(<<97>>)>>)>>)],
  [n |-> "vN",  e |-> ANone],
  [n |-> "vT",  e |-> ABool(TRUE)],
  [n |-> "vF",  e |-> ABool(FALSE)] >>
NC == Len(Cat)

Call(f, args) == ACall(AVar(f), args)
Sl(e, lo, hi, st) == [k |-> "slice", e |-> e, lo |-> lo, hi |-> hi, st |-> st, line |-> 0]
Un(k, e) == [k |-> k, e |-> e, line |-> 0]
Lg(k, l, r) == [k |-> k, l |-> l, r |-> r, line |-> 0]
IfE(c, t, f) == [k |-> "if", c |-> c, t |-> t, f |-> f, line |-> 0]
MC(o, name, args) == AMCall(o, name, args)
MCN(o, name, named) == [k |-> "mcall", obj |-> o, name |-> name, args |-> <<>>, named |-> named, line |-> 0]
BinOps == <<"+", "-", "*", "//", "%", "&", "|", "^", "<<", ">>", "<", "<=", "==", "!=", "in", "notin">>

(* the forms with two holes *)
NB2 == Len(BinOps) + 32
Form2(f, Xh, Yh) ==
    IF f <= Len(BinOps) THEN ABin(BinOps[f], Xh, Yh)
    ELSE LET g == f - Len(BinOps) IN
    CASE g = 1  -> Lg("and", Xh, Yh)
      [] g = 2  -> Lg("or", Xh, Yh)
      [] g = 3  -> AIndex(Xh, Yh)
      [] g = 4  -> Sl(Xh, Yh, ABSENT, ABSENT)
      [] g = 5  -> Sl(Xh, ABSENT, Yh, ABSENT)
      [] g = 6  -> Sl(Xh, ABSENT, ABSENT, Yh)
      [] g = 7  -> Sl(Xh, Yh, ABSENT, AInt(-1))
      [] g = 8  -> Call("min", <<Xh, Yh>>)
      [] g = 9  -> Call("max", <<Xh, Yh>>)
      [] g = 10 -> Call("zip", <<Xh, Yh>>)
      [] g = 11 -> MC(Xh, "join", <<Yh>>)
      [] g = 12 -> MC(Xh, "split", <<Yh>>)
      [] g = 13 -> MC(Xh, "strip", <<Yh>>)
      [] g = 14 -> MC(Xh, "find", <<Yh>>)
      [] g = 15 -> MC(Xh, "count", <<Yh>>)
      [] g = 16 -> MC(Xh, "startswith", <<Yh>>)
      [] g = 17 -> MC(Xh, "get", <<Yh>>)
      [] g = 18 -> MC(Xh, "index", <<Yh>>)
      [] g = 19 -> MC(Xh, "partition", <<Yh>>)
      [] g = 20 -> MC(Xh, "removeprefix", <<Yh>>)
      [] g = 21 -> ABin("%", Xh, ATuple(<<Yh>>))                  \* "<%s>" % (y,)
      [] g = 22 -> ABin("%", Xh, ATuple(<<Yh, Yh>>))
      [] g = 23 -> MC(Xh, "format", <<Yh>>)
      [] g = 24 -> MC(Xh, "format", <<Yh, Yh>>)
      [] g = 25 -> MCN(Xh, "format", <<ANamed("a", <<97>>, Yh)>>)
      [] g = 26 -> Call("range", <<Xh, Yh>>)
      [] g = 27 -> Call("enumerate", <<Xh, Yh>>)
      [] g = 28 -> MC(Xh, "replace", <<Yh, S(<<122>>)>>)
      [] g = 29 -> MC(Xh, "rfind", <<Yh>>)
      [] g = 30 -> Call("sorted", <<ABin("+", Xh, Yh)>>)
      [] g = 31 -> IfE(Xh, Yh, AInt(0))
      [] g = 32 -> Call("dict", <<Call("zip", <<Xh, Yh>>)>>)

(* the forms with one hole *)
UnFns == <<"len", "str", "repr", "bool", "type", "list", "tuple", "sorted", "reversed", "enumerate", "any", "all",
           "abs", "range", "int", "dict", "min", "max", "chr", "ord">>
UnMeths == <<"upper", "lower", "strip", "split", "title", "capitalize", "keys", "values", "items", "isdigit", "isalpha",
             "islower", "splitlines", "lstrip", "rsplit">>
NB1 == Len(UnFns) + Len(UnMeths) + 14
Form1(f, Xh) ==
    IF f <= Len(UnFns) THEN Call(UnFns[f], <<Xh>>)
    ELSE IF f <= Len(UnFns) + Len(UnMeths) THEN MC(Xh, UnMeths[f - Len(UnFns)], <<>>)
    ELSE LET g == f - Len(UnFns) - Len(UnMeths) IN
    CASE g = 1  -> Un("neg", Xh)
      [] g = 2  -> Un("pos", Xh)
      [] g = 3  -> Un("inv", Xh)
      [] g = 4  -> ANot(Xh)
      [] g = 5  -> AIndex(Xh, AInt(0))
      [] g = 6  -> AIndex(Xh, AInt(-1))
      [] g = 7  -> Sl(Xh, AInt(1), ABSENT, ABSENT)
      [] g = 8  -> Sl(Xh, ABSENT, ABSENT, AInt(-1))
      [] g = 9  -> Sl(Xh, AInt(-1), AInt(0), AInt(-1))
      [] g = 10 -> IfE(Xh, AInt(1), AInt(2))
      [] g = 11 -> ABin("==", Xh, Xh)
      [] g = 12 -> ACompr(AVar("c"), <<AFor(TVar("c"), Xh)>>)
      [] g = 13 -> Call("str", <<ATuple(<<Xh>>)>>)
      [] g = 14 -> ABin("%", S(<<37, 114, 47, 37, 115>>), ATuple(<<Xh, Xh>>))       \* "%r/%s" % (x, x)

(* the forms that CHANGE a receiver: a fresh receiver r (a list, a dict, a set or a string, by the
   form) is bound by the chunk, the operation is applied with the operand in its hole, and both its
   result and the receiver afterwards are emitted *)
RV == AVar("r")
RList == AList(<<AInt(2), AInt(1), AInt(2)>>)
RDict == ADict(<<S(<<97>>), AInt(3)>>, <<AInt(1), S(<<98>>)>>)
RSet == Call("set", <<AList(<<AInt(3), S(<<97>>)>>)>>)
RStr == S(<<60, 37, 115, 62>>)
ListMeth == <<"append", "extend", "pop", "remove", "index", "count_">>
DictMeth == <<"pop", "get", "setdefault", "update", "popitem_">>
SetMeth == <<"add", "remove", "discard", "update", "union", "intersection", "difference", "issubset">>
NB3 == 9 + 7 + 10 + 3
Form3(f, Xh) ==     \* [recv, stmts]
    IF f <= 9 THEN [recv |-> RList, stmts |->
        CASE f = 1 -> <<SEmit(MC(RV, "append", <<Xh>>))>>
          [] f = 2 -> <<SEmit(MC(RV, "extend", <<Xh>>))>>
          [] f = 3 -> <<SEmit(MC(RV, "pop", <<Xh>>))>>
          [] f = 4 -> <<SEmit(MC(RV, "remove", <<Xh>>))>>
          [] f = 5 -> <<SEmit(MC(RV, "insert", <<Xh, AInt(9)>>))>>
          [] f = 6 -> <<SEmit(MC(RV, "insert", <<AInt(1), Xh>>))>>
          [] f = 7 -> <<SAssign(TIndex(RV, Xh), AInt(9))>>
          [] f = 8 -> <<SAug("+", TVar("r"), Xh)>>
          [] f = 9 -> <<SAug("*", TVar("r"), Xh)>>]
    ELSE IF f <= 16 THEN [recv |-> RDict, stmts |->
        CASE f = 10 -> <<SEmit(MC(RV, "pop", <<Xh>>))>>
          [] f = 11 -> <<SEmit(MC(RV, "pop", <<Xh, AInt(0)>>))>>
          [] f = 12 -> <<SEmit(MC(RV, "setdefault", <<Xh, AInt(0)>>))>>
          [] f = 13 -> <<SEmit(MC(RV, "update", <<Xh>>))>>
          [] f = 14 -> <<SAssign(TIndex(RV, Xh), AInt(9))>>
          [] f = 15 -> <<SAug("+", TIndex(RV, Xh), AInt(1))>>
          [] f = 16 -> <<SAug("|", TVar("r"), Xh)>>]
    ELSE IF f <= 26 THEN [recv |-> RSet, stmts |->
        CASE f = 17 -> <<SEmit(MC(RV, "add", <<Xh>>))>>
          [] f = 18 -> <<SEmit(MC(RV, "remove", <<Xh>>))>>
          [] f = 19 -> <<SEmit(MC(RV, "discard", <<Xh>>))>>
          [] f = 20 -> <<SEmit(MC(RV, "update", <<Xh>>))>>
          [] f = 21 -> <<SEmit(MC(RV, "union", <<Xh>>))>>
          [] f = 22 -> <<SEmit(MC(RV, "intersection", <<Xh>>))>>
          [] f = 23 -> <<SEmit(MC(RV, "difference", <<Xh>>))>>
          [] f = 24 -> <<SEmit(MC(RV, "symmetric_difference", <<Xh>>))>>
          [] f = 25 -> <<SEmit(MC(RV, "issubset", <<Xh>>))>>
          [] f = 26 -> <<SEmit(ABin("in", Xh, RV))>>]
    ELSE [recv |-> RStr, stmts |->
        CASE f = 27 -> <<SAug("+", TVar("r"), Xh)>>
          [] f = 28 -> <<SAug("*", TVar("r"), Xh)>>
          [] f = 29 -> <<SAug("%", TVar("r"), Xh)>>]
(* the forms with three holes (the third written like the second) *)
NB4 == 30
Form4(f, Xh, Yh, Zh) ==
    CASE f = 1  -> Sl(Xh, Yh, Zh, ABSENT)
      [] f = 2  -> Sl(Xh, ABSENT, Yh, Zh)
      [] f = 3  -> Sl(Xh, Yh, ABSENT, Zh)
      [] f = 4  -> IfE(Xh, Yh, Zh)
      [] f = 5  -> MC(Xh, "replace", <<Yh, Zh>>)
      [] f = 6  -> MC(Xh, "find", <<Yh, Zh>>)
      [] f = 7  -> MC(Xh, "count", <<Yh, Zh>>)
      [] f = 8  -> MC(Xh, "split", <<Yh, Zh>>)
      [] f = 9  -> MC(Xh, "rsplit", <<Yh, Zh>>)
      [] f = 10 -> MC(Xh, "get", <<Yh, Zh>>)
      [] f = 11 -> MC(Xh, "index", <<Yh, Zh>>)
      [] f = 12 -> MC(Xh, "rfind", <<Yh, Zh>>)
      [] f = 13 -> Call("range", <<Xh, Yh, Zh>>)
      [] f = 14 -> Call("min", <<Xh, Yh, Zh>>)
      [] f = 15 -> Call("max", <<AList(<<Xh, Yh, Zh>>)>>)
      [] f = 16 -> Call("sorted", <<AList(<<Xh, Yh, Zh>>)>>)
      [] f = 17 -> ABin("%", Xh, ATuple(<<Yh, Zh>>))
      [] f = 18 -> MC(Xh, "format", <<Yh, Zh>>)
      [] f = 19 -> ABin("*", ABin("+", Xh, Yh), Zh)
      [] f = 20 -> ABin("+", Xh, ABin("*", Yh, Zh))
      [] f = 21 -> AIndex(ABin("+", Xh, Yh), Zh)
      [] f = 22 -> AIndex(AIndex(Xh, Yh), Zh)
      [] f = 23 -> Lg("and", Xh, Lg("or", Yh, Zh))
      [] f = 24 -> AIndex(ADict(<<Xh>>, <<Yh>>), Zh)
      [] f = 25 -> ADict(<<Xh, Zh>>, <<Yh, Yh>>)
      [] f = 26 -> ABin("in", Zh, AList(<<Xh, Yh>>))
      [] f = 27 -> MC(Xh, "startswith", <<Yh, Zh>>)
      [] f = 28 -> MC(Xh, "endswith", <<Yh, Zh>>)
      [] f = 29 -> MC(Xh, "startswith", <<Yh, Zh, AInt(-1)>>)      \* a window with a negative end
      [] f = 30 -> MC(Xh, "endswith", <<Yh, Zh, AInt(-1)>>)

(* ---- a case as a chunk *)
Hole(i, mode, pname) == IF mode = "l" THEN Cat[i].e ELSE AVar(pname)
Case3(f, a, md, ctx) ==
    LET mx == IF md[1] = "v" THEN "v" ELSE "l"
        fm == Form3(f, Hole(a, mx, IF ctx = "mod" THEN Cat[a].n ELSE "p"))
        body == <<SAssign(TVar("r"), fm.recv)>> \o fm.stmts
    IN IF ctx = "mod" THEN body \o <<SEmit(RV)>>
       ELSE <<SDef("fx", <<AParam("p", <<112>>), AParam("q", <<113>>)>>, body \o <<SReturn(RV)>>),
              SEmit(Call("fx", <<AVar(Cat[a].n), AVar(Cat[a].n)>>))>>

(* module level: the holes are the catalogue's globals or literals *)
ChunkMod(expr) == <<SEmit(expr)>>
(* inside a def: the "var" holes are parameters p, q bound to the catalogue's values *)
ChunkDef(expr, a, b) ==
    <<SDef("fx", <<AParam("p", <<112>>), AParam("q", <<113>>)>>, <<SReturn(expr)>>),
      SEmit(Call("fx", <<AVar(Cat[a].n), AVar(Cat[b].n)>>))>>

Case2(f, a, b, md, ctx) ==
    LET mx == IF md[1] = "v" THEN "v" ELSE "l"
        my == IF md[2] = "v" THEN "v" ELSE "l"
    IN IF ctx = "mod" THEN ChunkMod(Form2(f, Hole(a, mx, Cat[a].n), Hole(b, my, Cat[b].n)))
       ELSE ChunkDef(Form2(f, Hole(a, mx, "p"), Hole(b, my, "q")), a, b)
ChunkDef3(expr, a, b, c) ==
    <<SDef("fx", <<AParam("p", <<112>>), AParam("q", <<113>>), AParam("w", <<119>>)>>, <<SReturn(expr)>>),
      SEmit(Call("fx", <<AVar(Cat[a].n), AVar(Cat[b].n), AVar(Cat[c].n)>>))>>
Case4(f, a, b, c, md, ctx) ==
    LET mx == IF md[1] = "v" THEN "v" ELSE "l"
        my == IF md[2] = "v" THEN "v" ELSE "l"
    IN IF ctx = "mod" THEN ChunkMod(Form4(f, Hole(a, mx, Cat[a].n), Hole(b, my, Cat[b].n), Hole(c, my, Cat[c].n)))
       ELSE ChunkDef3(Form4(f, Hole(a, mx, "p"), Hole(b, my, "q"), Hole(c, my, "w")), a, b, c)
Case1(f, a, md, ctx) ==
    LET mx == IF md[1] = "v" THEN "v" ELSE "l"
    IN IF ctx = "mod" THEN ChunkMod(Form1(f, Hole(a, mx, Cat[a].n)))
       ELSE ChunkDef(Form1(f, Hole(a, mx, "p")), a, a)

ModeSeq == SetToSeq(Modes)
CtxSeq == SetToSeq(Ctxs)
ModeTup(s) == IF s = "vv" THEN <<"v", "v">> ELSE IF s = "ll" THEN <<"l", "l">> ELSE IF s = "vl" THEN <<"v", "l">> ELSE <<"l", "v">>

Prelude == [i \in 1..NC |-> SAssign(TVar(Cat[i].n), Cat[i].e)]

(* all cases of one (form, Xh): sequence of [b, md, ctx, chunk] *)
RECURSIVE Flatten(_, _)
Flatten(ss, i) == IF i > Len(ss) THEN <<>> ELSE ss[i] \o Flatten(ss, i + 1)
Cases2(f, a) ==
    Flatten([b \in 1..NC |->
        Flatten([mi \in 1..Len(ModeSeq) |->
            [ci \in 1..Len(CtxSeq) |-> [b |-> b, md |-> ModeSeq[mi], ctx |-> CtxSeq[ci],
                                       chunk |-> Case2(f, a, b, ModeTup(ModeSeq[mi]), CtxSeq[ci])]]], 1)], 1)
ZSeq == SetToSeq(ZCat)
YSeq == SetToSeq(YCat)
Cases4(f, a) ==
    Flatten([yi \in 1..Len(YSeq) |->
      Flatten([zi \in 1..Len(ZSeq) |->
        Flatten([mi \in 1..Len(ModeSeq) |->
            [ci \in 1..Len(CtxSeq) |-> [b |-> YSeq[yi] * 100 + ZSeq[zi], md |-> ModeSeq[mi], ctx |-> CtxSeq[ci],
                                       chunk |-> Case4(f, a, YSeq[yi], ZSeq[zi], ModeTup(ModeSeq[mi]), CtxSeq[ci])]]], 1)], 1)], 1)
Cases1(f, a) ==
    Flatten([mi \in 1..2 |->
        [ci \in 1..Len(CtxSeq) |-> [b |-> 0, md |-> (IF mi = 1 THEN "v" ELSE "l"), ctx |-> CtxSeq[ci],
                                   chunk |-> Case1(f, a, (IF mi = 1 THEN <<"v">> ELSE <<"l">>), CtxSeq[ci])]]], 1)

Cases3(f, a) ==
    Flatten([mi \in 1..2 |->
        [ci \in 1..Len(CtxSeq) |-> [b |-> 0, md |-> (IF mi = 1 THEN "v" ELSE "l"), ctx |-> CtxSeq[ci],
                                   chunk |-> Case3(f, a, (IF mi = 1 THEN <<"v">> ELSE <<"l">>), CtxSeq[ci])]]], 1)

VARIABLES gAr, gF, gA, gDone
Init == /\ gAr \in (IF ZCat = {} THEN {1, 2, 3} ELSE {1, 2, 3, 4})
        /\ gF \in 1..(IF gAr = 2 THEN NB2 ELSE IF gAr = 3 THEN NB3 ELSE IF gAr = 4 THEN NB4 ELSE NB1)
        /\ gA \in 1..NC
        /\ gDone = FALSE
Next == /\ ~gDone /\ gDone' = TRUE /\ UNCHANGED <<gAr, gF, gA>>
        /\ LET cs == IF gAr = 2 THEN Cases2(gF, gA) ELSE IF gAr = 3 THEN Cases3(gF, gA)
                     ELSE IF gAr = 4 THEN Cases4(gF, gA) ELSE Cases1(gF, gA)
               chunks == <<Prelude>> \o [i \in 1..Len(cs) |-> cs[i].chunk]
               r == RunSession(chunks, 50, FALSE).res
           IN PrintT(<<"CASE", ToJson([ar |-> gAr, f |-> gF, a |-> gA,
                                       tags |-> [i \in 1..Len(cs) |-> <<cs[i].b, cs[i].md, cs[i].ctx>>],
                                       chunks |-> chunks,
                                       res |-> [i \in 1..Len(r) |-> [kind |-> r[i].err.kind, out |-> r[i].out]]])>>)
Spec == Init /\ [][Next]_<<gAr, gF, gA, gDone>>
=============================================================================

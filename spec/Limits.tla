------------------------------- MODULE Limits -------------------------------
(* C15: call-depth, tick and cancellation limits.

   Mirrors eval/runtime/evaluator.rs + cheap_call_stack.rs:
     Push/Pop     CheapCallStack::push / pop           (push fails, depth unchanged, when depth >= Cap)
     Tick         Evaluator::report_forward_progress   (counter += 1; every Period ticks -> Check)
     Check        run_infrequent_instr_checks          (cancelled? total > Budget?)
     EndEval      the check at the end of eval_module / eval_function
     Cancel       the embedder's is_cancelled flag becomes true
   `total = atLast + counter` is what get_total_tick_count() reports.

   Written so that Apalache can discharge IndInv for the real Period (1000) and any budget, and TLC
   can explore it exhaustively for small constants. *)
EXTENDS Integers

CONSTANTS
    \* @type: Int;
    Period,
    \* @type: Int;
    Budget,
    \* @type: Int;
    Cap,
    \* @type: Int;
    MaxTicks      \* bound on total ticks for TLC (ignored by the invariant)

VARIABLES
    \* @type: Int;
    depth,
    \* @type: Int;
    counter,
    \* @type: Int;
    atLast,
    \* @type: Bool;
    cancelled,
    \* @type: Int;
    cancelAt,     \* total when Cancel happened (-1: not cancelled)
    \* @type: Str;
    status        \* "running" | "ticks" | "cancelled" | "depth" | "done"

vars == <<depth, counter, atLast, cancelled, cancelAt, status>>
Total == atLast + counter

Init == /\ depth = 1            \* the module frame
        /\ counter = 0 /\ atLast = 0
        /\ cancelled = FALSE /\ cancelAt = -1
        /\ status = "running"

Push == /\ status = "running"
        /\ IF depth >= Cap
           THEN /\ status' = "depth" /\ UNCHANGED <<depth, counter, atLast, cancelled, cancelAt>>
           ELSE /\ depth' = depth + 1 /\ UNCHANGED <<counter, atLast, cancelled, cancelAt, status>>

Pop == /\ status = "running" /\ depth > 1
       /\ depth' = depth - 1 /\ UNCHANGED <<counter, atLast, cancelled, cancelAt, status>>

(* report_forward_progress: on a failing check the counter is NOT folded into atLast *)
Tick == /\ status = "running" /\ Total < MaxTicks
        /\ IF counter + 1 >= Period
           THEN IF cancelled
                THEN /\ status' = "cancelled" /\ counter' = counter + 1 /\ UNCHANGED <<depth, atLast, cancelled, cancelAt>>
                ELSE IF atLast + counter + 1 > Budget
                     THEN /\ status' = "ticks" /\ counter' = counter + 1 /\ UNCHANGED <<depth, atLast, cancelled, cancelAt>>
                     ELSE /\ atLast' = atLast + counter + 1 /\ counter' = 0
                          /\ UNCHANGED <<depth, cancelled, cancelAt, status>>
           ELSE /\ counter' = counter + 1 /\ UNCHANGED <<depth, atLast, cancelled, cancelAt, status>>

Cancel == /\ status = "running" /\ ~cancelled
          /\ cancelled' = TRUE /\ cancelAt' = Total
          /\ UNCHANGED <<depth, counter, atLast, status>>

EndEval == /\ status = "running" /\ depth = 1
           /\ status' = IF cancelled THEN "cancelled" ELSE IF Total > Budget THEN "ticks" ELSE "done"
           /\ UNCHANGED <<depth, counter, atLast, cancelled, cancelAt>>

Stutter == status # "running" /\ UNCHANGED vars

Next == Push \/ Pop \/ Tick \/ Cancel \/ EndEval \/ Stutter
Spec == Init /\ [][Next]_vars

(* ------------------------------------------------------------------ properties *)
DepthBounded == depth >= 1 /\ depth <= Cap
(* while running, evaluation never gets further than one check interval beyond the budget *)
RunningBounded == status = "running" => Total <= Budget + Period - 1
(* a tick failure is reported with Budget < total <= Budget + Period *)
TickFailureWindow == status = "ticks" => (Total > Budget /\ Total <= Budget + Period)
(* a raised cancellation flag is honoured within one check interval *)
CancelHonoured == (cancelled /\ status \in {"running"}) => Total <= cancelAt + Period - 1
CancelWindow == status = "cancelled" => (cancelAt >= 0 /\ Total <= cancelAt + Period)
(* done means within budget *)
DoneWithinBudget == status = "done" => Total <= Budget

Inv == DepthBounded /\ RunningBounded /\ TickFailureWindow /\ CancelHonoured /\ CancelWindow /\ DoneWithinBudget

(* inductive strengthening *)
TypeOK == /\ depth \in Int /\ counter \in Int /\ atLast \in Int /\ cancelled \in BOOLEAN /\ cancelAt \in Int
          /\ status \in {"running", "ticks", "cancelled", "depth", "done"}
IndInv ==
    /\ TypeOK
    /\ depth >= 1 /\ depth <= Cap
    /\ counter >= 0 /\ atLast >= 0
    /\ (status = "running" => counter < Period)
    /\ (status \in {"ticks", "cancelled"} => counter <= Period)
    /\ atLast <= Budget
    /\ (cancelled <=> cancelAt >= 0)
    /\ (cancelled => cancelAt <= Total)
    /\ (cancelled => cancelAt >= atLast)
    /\ Inv

ConstInit == Period \in 1..1000 /\ Budget \in 1..100000 /\ Cap \in 1..100 /\ MaxTicks = 1000000

(* the point at which a tick budget is detected, as used by the generators:
   the first multiple of Period that exceeds the budget *)
FailPoint(budget, period) == period * ((budget \div period) + 1)
=============================================================================

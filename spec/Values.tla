------------------------------ MODULE Values ------------------------------
(* The abstract value domain of the Starlark core and the pure operations on it.

   Values are tagged records (tag field `t`) so that TLC never compares incomparable things:
     [t|->"none"]  [t|->"bool",b]  [t|->"int",v]  [t|->"str",s]   (s: sequence of code points)
     [t|->"tuple",v]  [t|->"range",a,b,c]  [t|->"bi",name]  (builtin function)
     [t|->"bm",name,self]  (bound method)  [t|->"ref",a]  (address into the object store)
     [t|->"unbound"]  (slot declared but not assigned)
     [t|->"struct",ks,vs]  (immutable record: field names as code point sequences, in creation order)
     [t|->"rec",ty,vs]  (instance of the record type at address ty: one value per declared field)
     [t|->"ev",ty,i]    (the i-th value of the enum type at address ty)
   The object store `h` is a sequence of objects:
     [kind|->"list", items, locks, frozen]     [kind|->"dict", keys, vals, locks, frozen]
     [kind|->"frame", names, vals]             [kind|->"fn", name, params, defaults, body, env, lam]
     [kind|->"rtype", name, fields]  (record type; fields: [n (code points), ty (a type), d (default or unbound)];
                                      name: <<>> until the type is first assigned to a module-level variable)
     [kind|->"etype", name, vals]    (enum type; vals: its values, in declaration order)
   Nothing here depends on the *number* an address is: no operator returns anything derived from
   an address other than through the object it designates.

   Integers are TLC integers; the semantics is only defined while |x| < 2^30 (Sem marks anything
   beyond as outside its domain: kind "spec_domain").  Exact big arithmetic is BigInt.tla's job. *)
EXTENDS Integers, Sequences, FiniteSets, TLC

NoneV == [t |-> "none"]
BoolV(b) == [t |-> "bool", b |-> b]
IntV(i) == [t |-> "int", v |-> i]
StrV(s) == [t |-> "str", s |-> s]
TupV(s) == [t |-> "tuple", v |-> s]
RefV(a) == [t |-> "ref", a |-> a]
RangeV(a, b, c) == [t |-> "range", a |-> a, b |-> b, c |-> c]
BiV(n) == [t |-> "bi", name |-> n]
BmV(n, self) == [t |-> "bm", name |-> n, self |-> self]
UnboundV == [t |-> "unbound"]
StructV(ks, vs) == [t |-> "struct", ks |-> ks, vs |-> vs]
FieldIdx(ks, n) == IF \E i \in 1..Len(ks) : ks[i] = n THEN CHOOSE i \in 1..Len(ks) : ks[i] = n ELSE 0

Limit == 1073741824   \* 2^30

Abs(x) == IF x < 0 THEN -x ELSE x
Min2(a, b) == IF a < b THEN a ELSE b
Max2(a, b) == IF a > b THEN a ELSE b

(* floor division and modulo for any signs, b # 0 (TLC's \div and % want a positive divisor) *)
FloorDiv(a, b) ==
    IF b > 0 THEN (IF a >= 0 THEN a \div b ELSE -(((-a) + b - 1) \div b))
    ELSE (IF a <= 0 THEN (-a) \div (-b) ELSE -((a + (-b) - 1) \div (-b)))
FloorMod(a, b) == a - b * FloorDiv(a, b)

IsList(v, h) == v.t = "ref" /\ h[v.a].kind = "list"
IsDict(v, h) == v.t = "ref" /\ h[v.a].kind = "dict"
IsFn(v, h) == v.t = "ref" /\ h[v.a].kind = "fn"
IsSet(v, h) == v.t = "ref" /\ h[v.a].kind = "set"
IsRType(v, h) == v.t = "ref" /\ h[v.a].kind = "rtype"
IsEType(v, h) == v.t = "ref" /\ h[v.a].kind = "etype"

TypeName(v, h) ==
    IF v.t = "none" THEN "NoneType"
    ELSE IF v.t = "bool" THEN "bool"
    ELSE IF v.t = "int" THEN "int"
    ELSE IF v.t = "str" THEN "string"
    ELSE IF v.t = "tuple" THEN "tuple"
    ELSE IF v.t = "range" THEN "range"
    ELSE IF v.t \in {"bi", "bm", "partial"} THEN "function"
    ELSE IF v.t = "ref" THEN (IF h[v.a].kind \in {"fn", "rtype", "etype"} THEN "function" ELSE h[v.a].kind)
    ELSE IF v.t = "struct" THEN "struct"
    ELSE IF v.t = "rec" THEN "record"
    ELSE IF v.t = "ev" THEN "enum"
    ELSE "?"

TypeNameCP(v, h) ==
    IF v.t = "none" THEN <<78, 111, 110, 101, 84, 121, 112, 101>>
    ELSE IF v.t = "bool" THEN <<98, 111, 111, 108>>
    ELSE IF v.t = "int" THEN <<105, 110, 116>>
    ELSE IF v.t = "str" THEN <<115, 116, 114, 105, 110, 103>>
    ELSE IF v.t = "tuple" THEN <<116, 117, 112, 108, 101>>
    ELSE IF v.t = "range" THEN <<114, 97, 110, 103, 101>>
    ELSE IF v.t \in {"bi", "bm", "partial"} THEN <<102, 117, 110, 99, 116, 105, 111, 110>>      \* "function", also for builtins and bound methods
    ELSE IF v.t = "rec" THEN <<114, 101, 99, 111, 114, 100>>
    ELSE IF v.t = "ev" THEN <<101, 110, 117, 109>>
    ELSE IF v.t = "ref" THEN (IF h[v.a].kind \in {"fn", "rtype", "etype"} THEN <<102, 117, 110, 99, 116, 105, 111, 110>> ELSE IF h[v.a].kind = "list" THEN <<108, 105, 115, 116>> ELSE IF h[v.a].kind = "set" THEN <<115, 101, 116>> ELSE <<100, 105, 99, 116>>)
    ELSE IF v.t = "struct" THEN <<115, 116, 114, 117, 99, 116>>
    ELSE <<63>>

(* ---- ranges ---- *)
RangeLen(r) ==
    IF r.c > 0 THEN (IF r.b > r.a THEN ((r.b - r.a - 1) \div r.c) + 1 ELSE 0)
    ELSE (IF r.a > r.b THEN ((r.a - r.b - 1) \div (-r.c)) + 1 ELSE 0)
RangeItems(r) == [i \in 1..RangeLen(r) |-> IntV(r.a + (i - 1) * r.c)]

(* ---- equality (structural; dict equality ignores order; functions by identity) ---- *)
RECURSIVE Eq(_, _, _)
DictFindIn(keys, k, h) ==
    IF \E i \in 1..Len(keys) : Eq(keys[i], k, h)
    THEN CHOOSE i \in 1..Len(keys) : Eq(keys[i], k, h)
    ELSE 0
Eq(a, b, h) ==
    IF a.t # b.t THEN FALSE
    ELSE IF a.t = "none" THEN TRUE
    ELSE IF a.t = "bool" THEN a.b = b.b
    ELSE IF a.t = "int" THEN a.v = b.v
    ELSE IF a.t = "str" THEN a.s = b.s
    ELSE IF a.t = "tuple" THEN
        (Len(a.v) = Len(b.v) /\ \A i \in 1..Len(a.v) : Eq(a.v[i], b.v[i], h))
    ELSE IF a.t = "range" THEN RangeItems(a) = RangeItems(b)
    ELSE IF a.t = "bi" THEN a.name = b.name
    ELSE IF a.t = "bm" THEN (a.name = b.name /\ Eq(a.self, b.self, h))
    ELSE IF a.t = "rec" THEN (a.ty = b.ty /\ \A i \in 1..Len(a.vs) : Eq(a.vs[i], b.vs[i], h))
    ELSE IF a.t = "ev" THEN (a.ty = b.ty /\ a.i = b.i)
    ELSE IF a.t = "struct" THEN      \* same fields (in any order), equal values
        (Len(a.ks) = Len(b.ks)
         /\ \A i \in 1..Len(a.ks) : LET j == FieldIdx(b.ks, a.ks[i]) IN j # 0 /\ Eq(a.vs[i], b.vs[j], h))
    ELSE IF a.t = "ref" THEN
        (IF a.a = b.a THEN TRUE
         ELSE LET x == h[a.a] y == h[b.a] IN
           IF x.kind # y.kind THEN FALSE
           ELSE IF x.kind = "list" THEN
               (Len(x.items) = Len(y.items) /\ \A i \in 1..Len(x.items) : Eq(x.items[i], y.items[i], h))
           ELSE IF x.kind = "set" THEN
               (Len(x.items) = Len(y.items) /\ \A i \in 1..Len(x.items) : DictFindIn(y.items, x.items[i], h) # 0)
           ELSE IF x.kind = "dict" THEN
               (Len(x.keys) = Len(y.keys)
                /\ \A i \in 1..Len(x.keys) :
                     LET j == DictFindIn(y.keys, x.keys[i], h)
                     IN j # 0 /\ Eq(x.vals[i], y.vals[j], h))
           ELSE FALSE)
    ELSE FALSE

SeqFind(s, x, h) ==
    IF \E i \in 1..Len(s) : Eq(s[i], x, h)
    THEN CHOOSE i \in 1..Len(s) : Eq(s[i], x, h) /\ \A j \in 1..(i - 1) : ~Eq(s[j], x, h)
    ELSE 0

(* ---- ordering: "lt" "eq" "gt", or "err" when the language defines no order ---- *)
RECURSIVE Cmp(_, _, _), CmpSeq(_, _, _, _)
CmpInt(a, b) == IF a < b THEN "lt" ELSE IF a = b THEN "eq" ELSE "gt"
CmpSeq(s, u, i, h) ==
    IF i > Len(s) /\ i > Len(u) THEN "eq"
    ELSE IF i > Len(s) THEN "lt"
    ELSE IF i > Len(u) THEN "gt"
    ELSE LET c == Cmp(s[i], u[i], h) IN
         IF c = "eq" THEN CmpSeq(s, u, i + 1, h) ELSE c
CmpIntSeq(s, u) ==
    LET n == Min2(Len(s), Len(u))
        d == {i \in 1..n : s[i] # u[i]}
    IN IF d = {} THEN CmpInt(Len(s), Len(u))
       ELSE LET i == CHOOSE i \in d : \A j \in d : i <= j IN CmpInt(s[i], u[i])
Cmp(a, b, h) ==
    IF a.t = "int" /\ b.t = "int" THEN CmpInt(a.v, b.v)
    ELSE IF a.t = "bool" /\ b.t = "bool" THEN
        CmpInt(IF a.b THEN 1 ELSE 0, IF b.b THEN 1 ELSE 0)
    ELSE IF a.t = "str" /\ b.t = "str" THEN CmpIntSeq(a.s, b.s)
    ELSE IF a.t = "tuple" /\ b.t = "tuple" THEN CmpSeq(a.v, b.v, 1, h)
    ELSE IF IsList(a, h) /\ IsList(b, h) THEN CmpSeq(h[a.a].items, h[b.a].items, 1, h)
    ELSE "err"

(* ---- hashability ---- *)
RECURSIVE Hashable(_, _)
Hashable(v, h) ==
    IF v.t \in {"none", "bool", "int", "str", "bi"} THEN TRUE      \* a range is not hashable in this dialect
    ELSE IF v.t = "tuple" THEN \A i \in 1..Len(v.v) : Hashable(v.v[i], h)
    ELSE IF v.t = "struct" \/ v.t = "rec" THEN \A i \in 1..Len(v.vs) : Hashable(v.vs[i], h)
    ELSE IF v.t = "ev" THEN TRUE
    ELSE IF v.t = "ref" THEN h[v.a].kind = "fn"
    ELSE FALSE

(* ---- truth ---- *)
Truth(v, h) ==
    IF v.t = "none" THEN FALSE
    ELSE IF v.t = "bool" THEN v.b
    ELSE IF v.t = "int" THEN v.v # 0
    ELSE IF v.t = "str" THEN Len(v.s) # 0
    ELSE IF v.t = "tuple" THEN Len(v.v) # 0
    ELSE IF v.t = "range" THEN RangeLen(v) # 0
    ELSE IF v.t = "ref" THEN
        (IF h[v.a].kind = "list" \/ h[v.a].kind = "set" THEN Len(h[v.a].items) # 0
         ELSE IF h[v.a].kind = "dict" THEN Len(h[v.a].keys) # 0
         ELSE TRUE)
    ELSE TRUE

(* ---- slices: Python's normalisation; returns 1-based positions into a sequence of length n.
   lo/hi/step are [some, v] options. ---- *)
Opt(some, v) == [some |-> some, v |-> v]
SlicePositions(n, lo, hi, st) ==
    LET step == IF st.some THEN st.v ELSE 1 IN
    IF step > 0 THEN
        LET l0 == IF lo.some THEN (IF lo.v < 0 THEN Max2(lo.v + n, 0) ELSE Min2(lo.v, n)) ELSE 0
            h0 == IF hi.some THEN (IF hi.v < 0 THEN Max2(hi.v + n, 0) ELSE Min2(hi.v, n)) ELSE n
            cnt == IF h0 > l0 THEN ((h0 - l0 - 1) \div step) + 1 ELSE 0
        IN [i \in 1..cnt |-> l0 + (i - 1) * step + 1]
    ELSE
        LET l0 == IF lo.some THEN (IF lo.v < 0 THEN Max2(lo.v + n, -1) ELSE Min2(lo.v, n - 1)) ELSE n - 1
            h0 == IF hi.some THEN (IF hi.v < 0 THEN Max2(hi.v + n, -1) ELSE Min2(hi.v, n - 1)) ELSE -1
            cnt == IF l0 > h0 THEN ((l0 - h0 - 1) \div (-step)) + 1 ELSE 0
        IN [i \in 1..cnt |-> l0 + (i - 1) * step + 1]

(* ---- strings as code point sequences ---- *)
Digit(d) == 48 + d
RECURSIVE NatDigits(_)
NatDigits(n) == IF n < 10 THEN <<Digit(n)>> ELSE Append(NatDigits(n \div 10), Digit(n % 10))
IntStr(i) == IF i < 0 THEN <<45>> \o NatDigits(-i) ELSE NatDigits(i)

S_None == <<78, 111, 110, 101>>
S_True == <<84, 114, 117, 101>>
S_False == <<70, 97, 108, 115, 101>>

RECURSIVE JoinSeq(_, _, _)
JoinSeq(parts, sep, i) ==       \* parts: sequence of code point sequences
    IF i > Len(parts) THEN <<>>
    ELSE IF i = Len(parts) THEN parts[i]
    ELSE parts[i] \o sep \o JoinSeq(parts, sep, i + 1)

(* repr: strings are quoted with double quotes (this implementation's convention); backslash,
   double quote, \n \r \t are escaped with a backslash, other control characters and 127..255 as
   \xhh; code points above 255 are outside the specified domain (ReprOk).  Containers recurse.
   Cyclic values are outside. *)
RECURSIVE Repr(_, _, _)
ReprOk(s) == \A i \in 1..Len(s) : s[i] >= 0 /\ s[i] < 256
HexLow(d) == IF d < 10 THEN 48 + d ELSE 87 + d
ReprChar(c) ==
    IF c = 10 THEN <<92, 110>> ELSE IF c = 13 THEN <<92, 114>> ELSE IF c = 9 THEN <<92, 116>>
    ELSE IF c = 92 THEN <<92, 92>> ELSE IF c = 34 THEN <<92, 34>>
    ELSE IF c < 32 \/ c >= 127 THEN <<92, 120, HexLow(c \div 16), HexLow(c % 16)>>
    ELSE <<c>>
RECURSIVE ReprChars(_, _)
ReprChars(s, i) == IF i > Len(s) THEN <<>> ELSE ReprChar(s[i]) \o ReprChars(s, i + 1)
Repr(v, h, fuel) ==
    IF fuel = 0 THEN <<63>>
    ELSE IF v.t = "none" THEN S_None
    ELSE IF v.t = "bool" THEN (IF v.b THEN S_True ELSE S_False)
    ELSE IF v.t = "int" THEN IntStr(v.v)
    ELSE IF v.t = "str" THEN <<34>> \o ReprChars(v.s, 1) \o <<34>>
    ELSE IF v.t = "tuple" THEN
        (IF Len(v.v) = 1 THEN <<40>> \o Repr(v.v[1], h, fuel - 1) \o <<44, 41>>
         ELSE <<40>> \o JoinSeq([i \in 1..Len(v.v) |-> Repr(v.v[i], h, fuel - 1)], <<44, 32>>, 1) \o <<41>>)
    ELSE IF v.t = "range" THEN
        \* range(b) when it starts at 0 with step 1; range(a, b); range(a, b, c)
        (<<114, 97, 110, 103, 101, 40>> \o (IF v.a = 0 /\ v.c = 1 THEN <<>> ELSE IntStr(v.a) \o <<44, 32>>) \o IntStr(v.b)
           \o (IF v.c = 1 THEN <<>> ELSE <<44, 32>> \o IntStr(v.c)) \o <<41>>)
    ELSE IF IsList(v, h) THEN
        (<<91>> \o JoinSeq([i \in 1..Len(h[v.a].items) |-> Repr(h[v.a].items[i], h, fuel - 1)], <<44, 32>>, 1) \o <<93>>)
    ELSE IF IsSet(v, h) THEN
        (<<115, 101, 116, 40, 91>> \o JoinSeq([i \in 1..Len(h[v.a].items) |-> Repr(h[v.a].items[i], h, fuel - 1)], <<44, 32>>, 1) \o <<93, 41>>)
    ELSE IF IsDict(v, h) THEN
        (<<123>> \o JoinSeq([i \in 1..Len(h[v.a].keys) |->
                    Repr(h[v.a].keys[i], h, fuel - 1) \o <<58, 32>> \o Repr(h[v.a].vals[i], h, fuel - 1)],
                  <<44, 32>>, 1) \o <<125>>)
    ELSE IF v.t = "rec" THEN     \* record[Name](a=1, b="x")
        (<<114, 101, 99, 111, 114, 100, 91>> \o h[v.ty].name \o <<93, 40>>
           \o JoinSeq([i \in 1..Len(v.vs) |-> h[v.ty].fields[i].n \o <<61>> \o Repr(v.vs[i], h, fuel - 1)], <<44, 32>>, 1) \o <<41>>)
    ELSE IF v.t = "ev" THEN      \* Name("x")
        (h[v.ty].name \o <<40>> \o Repr(h[v.ty].vals[v.i], h, fuel - 1) \o <<41>>)
    ELSE IF v.t = "struct" THEN
        (<<115, 116, 114, 117, 99, 116, 40>>
           \o JoinSeq([i \in 1..Len(v.ks) |-> v.ks[i] \o <<61>> \o Repr(v.vs[i], h, fuel - 1)], <<44, 32>>, 1) \o <<41>>)
    ELSE <<63>>
Str(v, h) == IF v.t = "str" THEN v.s ELSE Repr(v, h, 8)

(* is Repr/Str inside the specified domain for v ? (no functions, no odd characters, bounded depth) *)
RECURSIVE ReprDomain(_, _, _)
ReprDomain(v, h, fuel) ==
    IF fuel = 0 THEN FALSE
    ELSE IF v.t \in {"none", "bool", "int", "range"} THEN TRUE
    ELSE IF v.t = "str" THEN ReprOk(v.s)
    ELSE IF v.t = "tuple" THEN \A i \in 1..Len(v.v) : ReprDomain(v.v[i], h, fuel - 1)
    ELSE IF v.t = "struct" \/ v.t = "rec" THEN
        (v.t = "rec" => Len(h[v.ty].name) > 0) /\ \A i \in 1..Len(v.vs) : ReprDomain(v.vs[i], h, fuel - 1)
    ELSE IF v.t = "ev" THEN Len(h[v.ty].name) > 0        \* values of a still anonymous enum type: not specified
    ELSE IF IsList(v, h) \/ IsSet(v, h) THEN \A i \in 1..Len(h[v.a].items) : ReprDomain(h[v.a].items[i], h, fuel - 1)
    ELSE IF IsDict(v, h) THEN
        \A i \in 1..Len(h[v.a].keys) : ReprDomain(h[v.a].keys[i], h, fuel - 1) /\ ReprDomain(h[v.a].vals[i], h, fuel - 1)
    ELSE FALSE

(* substring search: first 0-based position >= from of needle in hay, or -1 *)
MatchAt(hay, needle, p) ==      \* p 0-based
    p + Len(needle) <= Len(hay) /\ \A i \in 1..Len(needle) : hay[p + i] = needle[i]
FindFrom(hay, needle, from) ==
    LET c == {p \in from..(Len(hay) - Len(needle)) : MatchAt(hay, needle, p)}
    IN IF c = {} THEN -1 ELSE CHOOSE p \in c : \A q \in c : p <= q

RECURSIVE SplitOn(_, _)
SplitOn(s, sep) ==              \* sep non-empty; returns sequence of code point sequences
    LET p == FindFrom(s, sep, 0) IN
    IF p = -1 THEN <<s>>
    ELSE <<SubSeq(s, 1, p)>> \o SplitOn(SubSeq(s, p + Len(sep) + 1, Len(s)), sep)

RECURSIVE StrReplaceAll(_, _, _)
StrReplaceAll(s, old, new) ==      \* old non-empty
    LET p == FindFrom(s, old, 0) IN
    IF p = -1 THEN s
    ELSE SubSeq(s, 1, p) \o new \o StrReplaceAll(SubSeq(s, p + Len(old) + 1, Len(s)), old, new)

RECURSIVE CountFrom(_, _, _)
CountFrom(s, needle, from) ==   \* needle non-empty, non-overlapping
    LET p == FindFrom(s, needle, from) IN
    IF p = -1 THEN 0 ELSE 1 + CountFrom(s, needle, p + Len(needle))

Upper(s) == [i \in 1..Len(s) |-> IF s[i] >= 97 /\ s[i] <= 122 THEN s[i] - 32 ELSE s[i]]
Lower(s) == [i \in 1..Len(s) |-> IF s[i] >= 65 /\ s[i] <= 90 THEN s[i] + 32 ELSE s[i]]
IsSpace(c) == c = 32 \/ c = 9 \/ c = 10 \/ c = 13
LStrip(s) ==
    LET ns == {i \in 1..Len(s) : ~IsSpace(s[i])}
    IN IF ns = {} THEN <<>> ELSE SubSeq(s, CHOOSE i \in ns : \A j \in ns : i <= j, Len(s))
RStrip(s) ==
    LET ns == {i \in 1..Len(s) : ~IsSpace(s[i])}
    IN IF ns = {} THEN <<>> ELSE SubSeq(s, 1, CHOOSE i \in ns : \A j \in ns : i >= j)

(* ---- stable sort by Cmp; fails when some pair of keys has no defined order ---- *)
StableSort(items, keys, h) ==      \* returns [ok, v]
    LET n == Len(items)
        bad == \E i, j \in 1..n : i < j /\ Cmp(keys[i], keys[j], h) = "err"
        rank(i) == Cardinality({j \in 1..n : \/ Cmp(keys[j], keys[i], h) = "lt"
                                              \/ (Cmp(keys[j], keys[i], h) = "eq" /\ j < i)})
    IN IF bad THEN [ok |-> FALSE, v |-> <<>>]
       ELSE [ok |-> TRUE, v |-> [r \in 1..n |-> items[CHOOSE i \in 1..n : rank(i) = r - 1]]]

(* ---- structural encoding of a value for transcripts (taken at emission time).
   Cycles are cut with a marker when an address recurs on the current path. ---- *)
RECURSIVE Enc(_, _, _)
Enc(v, h, path) ==
    IF v.t = "none" THEN [t |-> "none"]
    ELSE IF v.t = "bool" THEN [t |-> "bool", b |-> v.b]
    ELSE IF v.t = "int" THEN [t |-> "int", v |-> v.v]
    ELSE IF v.t = "str" THEN [t |-> "str", s |-> v.s]
    ELSE IF v.t = "tuple" THEN [t |-> "tuple", v |-> [i \in 1..Len(v.v) |-> Enc(v.v[i], h, path)]]
    ELSE IF v.t = "range" THEN [t |-> "range", v |-> <<v.a, v.b, v.c>>]
    ELSE IF v.t = "struct" THEN [t |-> "struct", k |-> v.ks, v |-> [i \in 1..Len(v.vs) |-> Enc(v.vs[i], h, path)]]
    \* record / enum instances are compared through their repr (which names the type and every field)
    ELSE IF v.t = "rec" \/ v.t = "ev" THEN [t |-> "repr", s |-> IF ReprDomain(v, h, 8) THEN Repr(v, h, 8) ELSE <<63>>]
    ELSE IF v.t = "bi" \/ v.t = "bm" THEN [t |-> "fn", name |-> v.name]
    ELSE IF v.t = "ref" THEN
        (IF v.a \in path THEN [t |-> "cycle"]
         ELSE LET o == h[v.a] p == path \cup {v.a} IN
           IF o.kind = "list" THEN [t |-> "list", v |-> [i \in 1..Len(o.items) |-> Enc(o.items[i], h, p)]]
           ELSE IF o.kind = "set" THEN [t |-> "set", v |-> [i \in 1..Len(o.items) |-> Enc(o.items[i], h, p)]]
           ELSE IF o.kind = "dict" THEN
               [t |-> "dict", k |-> [i \in 1..Len(o.keys) |-> Enc(o.keys[i], h, p)],
                              v |-> [i \in 1..Len(o.vals) |-> Enc(o.vals[i], h, p)]]
           ELSE IF o.kind = "fn" THEN [t |-> "fn", name |-> o.name]
           ELSE [t |-> "?"])
    ELSE [t |-> "?"]

(* shape-safe equality of two encodings (TLC refuses to compare values of different shapes, and
   one side comes from the implementation) *)
RECURSIVE EncEq(_, _)
EncEq(a, b) ==
    IF a.t # b.t THEN FALSE
    ELSE IF DOMAIN a # DOMAIN b THEN FALSE
    ELSE IF a.t \in {"none", "cycle"} THEN TRUE
    ELSE IF a.t = "bool" THEN a.b = b.b
    ELSE IF a.t = "int" THEN a.v = b.v
    ELSE IF a.t = "str" THEN (Len(a.s) = Len(b.s) /\ \A i \in 1..Len(a.s) : a.s[i] = b.s[i])
    ELSE IF a.t \in {"tuple", "list", "set"} THEN (Len(a.v) = Len(b.v) /\ \A i \in 1..Len(a.v) : EncEq(a.v[i], b.v[i]))
    ELSE IF a.t = "dict" THEN
        (Len(a.k) = Len(b.k) /\ Len(a.v) = Len(b.v)
         /\ \A i \in 1..Len(a.k) : EncEq(a.k[i], b.k[i]) /\ EncEq(a.v[i], b.v[i]))
    ELSE IF a.t = "range" THEN (\A i \in 1..3 : a.v[i] = b.v[i])
    ELSE IF a.t = "repr" THEN (Len(a.s) = Len(b.s) /\ \A i \in 1..Len(a.s) : a.s[i] = b.s[i])
    ELSE IF a.t = "struct" THEN
        (Len(a.k) = Len(b.k) /\ Len(a.v) = Len(b.v) /\ Len(a.k) = Len(a.v)
         /\ \A i \in 1..Len(a.k) : (Len(a.k[i]) = Len(b.k[i]) /\ \A j \in 1..Len(a.k[i]) : a.k[i][j] = b.k[i][j])
                                    /\ EncEq(a.v[i], b.v[i]))
    ELSE IF a.t = "fn" THEN a.name = b.name
    ELSE FALSE
OutEq(o1, o2) == Len(o1) = Len(o2) /\ \A i \in 1..Len(o1) : EncEq(o1[i], o2[i])
=============================================================================

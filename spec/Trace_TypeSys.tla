-------------------------- MODULE Trace_TypeSys --------------------------
(* V for C17: soundness of what the real checker committed to.  Each record of the ndjson file is
   one observation made on the real crates:
      [kind |-> "iface" | "ret" | "local",       which commitment
       cty  |-> the checker's type (its rendering parsed into the specification's type syntax),
       sty  |-> the type the specification gave that binding ("any" when it has none),
       v    |-> structural encoding of the value the binding held after evaluation]
   The machine steps through the file; a record is
      BADC  when the value is not in the type the checker committed to      (unsound commitment)
      BADS  when the value is not in the specification's own type           (specification / evaluator disagree)
      UNK   when the checker's type is outside the judgeable fragment       (skipped, counted)
   It never blocks: every record is judged, all bad ones are reported. *)
EXTENDS TypeSys, Json, IOUtils

VARIABLE pos

Rec == ndJsonDeserialize(IOEnv.TRACE)

OkC(r) == Judgeable(r.cty) => Matches(r.cty, r.v)
OkS(r) == Matches(r.sty, r.v)

TInit == pos = 1
TNext == /\ pos <= Len(Rec)
         /\ (IF Judgeable(Rec[pos].cty) THEN TRUE ELSE PrintT(<<"UNK", pos>>))
         /\ (IF OkC(Rec[pos]) THEN TRUE ELSE PrintT(<<"BADC", pos>>))
         /\ (IF OkS(Rec[pos]) THEN TRUE ELSE PrintT(<<"BADS", pos>>))
         /\ pos' = pos + 1
TSpec == TInit /\ [][TNext]_pos

Accepted ==
    LET d == TLCGet("stats").diameter IN
    IF d - 1 = Len(Rec) THEN TRUE
    ELSE /\ PrintT(<<"REJECTED", d, Len(Rec)>>)
         /\ FALSE
==========================================================================

------------------------- MODULE Gen_HeapRefs -------------------------
(* G for C13: HeapRefs generates histories (build / load / re-export / wrap / own / add_to_heap /
   globals / freeze / drop in every order); every step carries what the specification says is
   still reachable afterwards (every symbol of every alive holder) and, for a step that creates a
   value, that value's expected *content* (Tree), which the harness compares structurally with
   what the real heap holds.

   Two modes:
     - BFS with VIEW GView + ACTION_CONSTRAINT PrintEdge: one test per transition of the bounded
       state graph (hist is outside the view);
     - -simulate: one test per behaviour, printed by Finish. *)
EXTENDS HeapRefs, Json

CONSTANTS MaxSteps,     \* steps per behaviour (simulation)
          BuildSteps    \* the first BuildSteps steps drop nothing (simulation bias: richer graphs)
VARIABLES hist, n, done

(* ---- expected content ---------------------------------------------------------------- *)
P(k, j, i) == [t |-> "p", k |-> k, j |-> j, i |-> i]      \* the long pad string (k, j, i)
Nn(x) == [t |-> "n", n |-> x]
S(x) == [t |-> "s", s |-> x]
L(xs) == [t |-> "l", v |-> xs]
U(xs) == [t |-> "u", v |-> xs]
D(xs) == [t |-> "d", v |-> xs]
F(x) == [t |-> "f", v |-> x]                              \* a function; v = what calling it returns

OwnTree(k) ==
    LET s == (k - 1) % 5 IN
    CASE s = 0 -> (L(<<P(k, 1, 1), P(k, 1, 2), P(k, 1, 3)>>))
      [] s = 1 -> (D(<< <<P(k, 1, 1), U(<<P(k, 1, 2), Nn(k)>>)>>, <<S("n"), L(<<Nn(k), Nn(1)>>)>> >>))
      [] s = 2 -> (U(<<U(<<P(k, 1, 1), U(<<Nn(k), Nn(1)>>)>>), P(k, 1, 2)>>))
      [] s = 3 -> (F(L(<<P(k, 1, 1), P(k, 1, 2)>>)))
      [] OTHER -> (P(k, 1, 1))

RECURSIVE Tree(_)
Tree(val) ==
    LET l == Head(val) IN
    CASE l.w = "own" -> (OwnTree(l.m))
      [] l.w = "list" -> (L(<<Tree(Tail(val)), P(l.m, l.j, 1)>>))
      [] l.w = "dict" -> (D(<< <<P(l.m, l.j, 1), Tree(Tail(val))>>, <<S("n"), Nn(100 * l.m + l.j)>> >>))
      [] l.w = "tuple" -> (U(<<Nn(l.m), U(<<Tree(Tail(val)), P(l.m, l.j, 1)>>), Nn(l.j)>>))
      [] l.w = "gdef" -> (F(L(<<Tree(Tail(val)), P(l.m, l.j, 1)>>)))
      [] l.w = "clos" -> (F(U(<<Tree(Tail(val)), P(l.m, l.j, 2)>>)))

(* ---- observations -------------------------------------------------------------------- *)
SetToSeqAsc(S0) == LET RECURSIVE R(_, _)
                       R(T, i) == IF i > N THEN <<>>
                                  ELSE (IF i \in T THEN <<i>> ELSE <<>>) \o R(T, i + 1)
                   IN R(S0, 1)

\* compact (JSON arrays): a symbol is <<mk, mj, via, modules it points into>>
SymId(s) == <<s.mk, s.mj, s.via, SetToSeqAsc(Mods(s))>>

\* alive holders only: <<"open"|"frozen"|"glob"|"handle", id, arena it holds, syms>>
RECURSIVE ModsFrom(_, _, _, _)
ModsFrom(k, st1, kind1, syms1) ==
    IF k > N THEN <<>>
    ELSE (IF st1[k] \in {"open", "frozen"}
          THEN << <<IF st1[k] = "open" THEN "open" ELSE IF kind1[k] = "glob" THEN "glob" ELSE "frozen",
                    k, k, [i \in 1..Len(syms1[k]) |-> SymId(syms1[k][i])]>> >>
          ELSE <<>>) \o ModsFrom(k + 1, st1, kind1, syms1)
RECURSIVE HandlesFrom(_, _)
HandlesFrom(h, hd1) ==
    IF h > NH THEN <<>>
    ELSE (IF hd1[h].st = "live"
          THEN << <<"handle", h, hd1[h].heap, <<SymId(hd1[h].sym)>> >> >>
          ELSE <<>>) \o HandlesFrom(h + 1, hd1)
LiveOf(st1, kind1, syms1, hd1) == ModsFrom(1, st1, kind1, syms1) \o HandlesFrom(1, hd1)

NoNew == [mk |-> 0, mj |-> 0, via |-> "", tree |-> Nn(0), src |-> <<0, 0>>]

\* the value created by the step `l1` (state after: syms1, hd1; before: syms0, hd0), with its
\* expected content; src = the (module, index) naming the symbol it was made from
NewOf(l1, syms1, hd1, syms0, hd0) ==
    LET o == l1.op  k == l1.k IN
    IF o \in {"new_module", "eval_load", "import_public", "add_to_heap", "use_global",
              "globals_from_module", "globals_from_handle"}
    THEN LET s == syms1[k][Len(syms1[k])]
             src == IF o \in {"eval_load", "import_public", "use_global", "globals_from_module"}
                    THEN <<syms0[l1.f][l1.i].mk, syms0[l1.f][l1.i].mj>>
                    ELSE IF o \in {"add_to_heap", "globals_from_handle"}
                    THEN <<hd0[l1.h].sym.mk, hd0[l1.h].sym.mj>>
                    ELSE <<0, 0>>
         IN [mk |-> s.mk, mj |-> s.mj, via |-> s.via, tree |-> Tree(s.val), src |-> src]
    ELSE IF o = "rehome"
    THEN LET s == hd1[l1.i].sym IN [mk |-> s.mk, mj |-> s.mj, via |-> s.via, tree |-> Tree(s.val), src |-> <<s.mk, s.mj>>]
    ELSE IF o = "get_owned"
    THEN LET s == hd1[l1.h].sym IN [mk |-> s.mk, mj |-> s.mj, via |-> s.via, tree |-> Tree(s.val), src |-> <<s.mk, s.mj>>]
    ELSE NoNew

\* hist keeps the raw post-state of every step (cheap: TLC builds it for every candidate successor);
\* the observation of step t is computed only when a history is printed.
Snap == [l |-> last', st |-> st', kind |-> kind', syms |-> syms', hd |-> hd']
Snap0 == [l |-> last, st |-> [k \in Ids |-> "unused"], kind |-> [k \in Ids |-> "mod"],
          syms |-> [k \in Ids |-> <<>>], hd |-> [h \in Hs |-> NoHandle]]

ObsAt(hh, t) ==
    LET c == hh[t]
        p == IF t = 1 THEN Snap0 ELSE hh[t - 1]
    IN [op |-> c.l.op, k |-> c.l.k, f |-> c.l.f, i |-> c.l.i, h |-> c.l.h, how |-> c.l.how, c |-> c.l.c,
        new |-> NewOf(c.l, c.syms, c.hd, p.syms, p.hd), live |-> LiveOf(c.st, c.kind, c.syms, c.hd)]

Case(hh) == [t \in 1..Len(hh) |-> ObsAt(hh, t)]

GInit == Init /\ hist = <<>> /\ n = 0 /\ done = FALSE

GStep == /\ ~done /\ n < MaxSteps
         /\ IF n < BuildSteps /\ ENABLED NextBuild THEN NextBuild ELSE NextNoFree
         /\ n' = n + 1
         /\ hist' = Append(hist, Snap)
         /\ UNCHANGED done

\* nothing alive and no id left, or the step budget is used up
Exhausted == n >= MaxSteps \/ (Open = {} /\ Frozen = {} /\ LiveH = {} /\ NextId > N)

Finish == /\ ~done /\ Exhausted /\ n > 0
          /\ PrintT(<<"CASE", ToJson(Case(hist))>>)
          /\ done' = TRUE
          /\ UNCHANGED <<vars, hist, n>>

GNextSim == GStep \/ Finish
GNextBfs == GStep

GView == <<st, kind, hrefs, frefs, syms, glob, hd>>
PrintEdge == PrintT(<<"EDGE", ToJson(Case(hist'))>>)
=======================================================================

--------------------------- MODULE Trace_BigInt ---------------------------
(* V for C10: `//` and `%` judged as a RELATION.  The harness draws random operands (up to ~300
   bits, its own generator), lets the real interpreter compute q = x // y and r = x % y at run
   time and records x, y, q, r as decimal digit lists.  An event is accepted iff, in the
   specification's arithmetic,
        x = q*y + r   /\   (r = 0 \/ sign r = sign y)   /\   |r| < |y|
   -- which determines q and r uniquely, so no long division is redone here: only a
   multiplication, an addition and two comparisons of BigInt.tla.  Events "error", "panic",
   "notint" match no action, so they are rejected and named.                                  *)
EXTENDS BigInt, Json, IOUtils

VARIABLE tl                    \* NB: a name no operator of BigInt binds (see MC_BigInt)

Rec == ndJsonDeserialize(IOEnv.TRACE)

Num(e) == FromDecimalDigits(e.neg, e.d)

DivRel(x, y, q, r) == /\ ~IsZero(y)
                      /\ Add(Mul(q, y), r) = x
                      /\ (IsZero(r) \/ Sign(r) = Sign(y))
                      /\ MagCmp(r.mag, y.mag) < 0

TInit == tl = 1
TNext == /\ tl <= Len(Rec)
         /\ Rec[tl].a = "divmod"
         /\ DivRel(Num(Rec[tl].x), Num(Rec[tl].y), Num(Rec[tl].q), Num(Rec[tl].r))
         /\ tl' = tl + 1
TSpec == TInit /\ [][TNext]_tl

Accepted ==
    LET dd == TLCGet("stats").diameter IN
    IF dd - 1 = Len(Rec) THEN TRUE
    ELSE /\ PrintT(<<"REJECTED", dd, ToJson(Rec[dd])>>)
         /\ FALSE
=============================================================================

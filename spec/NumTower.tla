----------------------------- MODULE NumTower -----------------------------
(* The numeric tower of C09: abstract numbers and the relations the language promises on them,
   defined MATHEMATICALLY -- an int is its exact value, a finite float is the dyadic rational
   m * 2^e, and an int is compared with a float by comparing those exact values (never by
   converting the int to the nearest float).

   A number is a record of one shape (so TLC can always compare two of them):
        [t : "int"|"float", k : "fin"|"nan"|"pinf"|"ninf", m : BigInt, e : Int, nz : BOOLEAN]
   value = m * 2^e when k = "fin"; nz marks the float -0.0 (m = 0), which is EQUAL to 0.0 and 0.

   Order (the language definition's total order on floats, extended to ints by exact value):
        -inf  <  every finite  <  +inf  <  NaN,     NaN = NaN.                                *)
EXTENDS BigInt

IntN(v)      == [t |-> "int", k |-> "fin", m |-> v, e |-> 0, nz |-> FALSE]

(* strip the factors of two from m: the canonical (odd m, e), or (0, 0) *)
RECURSIVE NormME(_, _)
NormME(mm, ee) == IF IsZero(mm) THEN [m |-> Zero, e |-> 0]
                  ELSE IF mm.mag[1] % 2 = 1 THEN [m |-> mm, e |-> ee]
                  ELSE NormME(Shr(mm, 1), ee + 1)

FloatN(mm, ee) == LET nn == NormME(mm, ee) IN [t |-> "float", k |-> "fin", m |-> nn.m, e |-> nn.e, nz |-> FALSE]
FloatOfInt(v)  == FloatN(v, 0)                        \* only meaningful when v is exact in binary64
NegZeroN == [t |-> "float", k |-> "fin", m |-> Zero, e |-> 0, nz |-> TRUE]
NaNN     == [t |-> "float", k |-> "nan",  m |-> Zero, e |-> 0, nz |-> FALSE]
PInfN    == [t |-> "float", k |-> "pinf", m |-> Zero, e |-> 0, nz |-> FALSE]
NInfN    == [t |-> "float", k |-> "ninf", m |-> Zero, e |-> 0, nz |-> FALSE]

IsNum(x) == x.t \in {"int", "float"}

(* a finite number that a binary64 holds exactly: odd part below 2^53, exponent in range *)
ExactF64(x) == x.k = "fin" /\ (LET nn == NormME(x.m, x.e)
                               IN BitLen(nn.m) <= 53 /\ nn.e >= -1074 /\ nn.e + BitLen(nn.m) <= 1024)
WellFormed(x) == /\ x.t = "int" => (x.k = "fin" /\ x.e = 0 /\ ~x.nz)
                 /\ x.t = "float" => (x.k = "fin" => ExactF64(x)) /\ (x.nz => IsZero(x.m))
IsIntegral(x) == x.k = "fin" /\ NormME(x.m, x.e).e >= 0
(* the integer value of an integral finite number *)
IntegerOf(x) == LET nn == NormME(x.m, x.e) IN Shl(nn.m, nn.e)

KRank(x) == CASE x.k = "ninf" -> 0 [] x.k = "fin" -> 1 [] x.k = "pinf" -> 2 [] x.k = "nan" -> 3

FinCmp(x, y) == LET lo == IF x.e < y.e THEN x.e ELSE y.e
                IN Cmp(Shl(x.m, x.e - lo), Shl(y.m, y.e - lo))

NumCmp(x, y) == IF KRank(x) # KRank(y) THEN (IF KRank(x) < KRank(y) THEN -1 ELSE 1)
                ELSE IF x.k # "fin" THEN 0
                ELSE FinCmp(x, y)
NumEq(x, y) == NumCmp(x, y) = 0
NumLt(x, y) == NumCmp(x, y) < 0

(* abstract hash: the canonical name of the Eq-class; equal numbers MUST collide *)
NumHashClass(x) == CASE x.k = "nan"  -> "n:nan"
                     [] x.k = "pinf" -> "n:+inf"
                     [] x.k = "ninf" -> "n:-inf"
                     [] x.k = "fin"  -> (LET nn == NormME(x.m, x.e)
                                         IN "n:" \o ToDecimalString(nn.m) \o "*2^" \o ToString(nn.e))

(* int vs float where the int has no exact binary64: the zone in which a comparison made through
   a conversion to float would be lossy -- used only to CLASSIFY disagreements *)
LossyInt(x) == x.t = "int" /\ ~ExactF64(x)
NumZone(x, y) == IF x.t # y.t /\ (LossyInt(x) \/ LossyInt(y)) THEN "lossy" ELSE "exact"
=============================================================================

------------------------------ MODULE GcSched ------------------------------
(* The space of collection schedules of C03.  An evaluation offers safepoints 1..n (one before
   every top-level statement and inside top-level if-blocks); a schedule is the set of safepoints
   at which a collection runs.  The machine walks the safepoints and decides collect / skip at
   each; every behaviour is one schedule.  For n <= Small all 2^n schedules are enumerated, for
   larger n TLC draws random subsets of several sizes (seeded by -seed).
   GcInvisible is the statement that the observable transcript is a function of the program
   alone: in Sem.tla collection does not exist, so Sem(P) is what EVERY schedule must produce. *)
EXTENDS Naturals, FiniteSets, Sequences, TLC, Json, Randomization, IOUtils

CONSTANTS Ns,        \* set of safepoint counts to produce schedules for
          Small,     \* enumerate exhaustively up to this n
          K          \* random schedules per (n, size) beyond Small

VARIABLES n, pc, sched
vars == <<n, pc, sched>>

MCNs == 1..atoi(IOEnv.MAXN)
Sizes(m) == {1, 2, m \div 2, m - 1} \ {0}
Pool(m) == IF m <= Small THEN SUBSET (1..m)
           ELSE {RandomSubset(s, 1..m) : s \in Sizes(m), j \in 1..K}

Init == /\ n \in Ns /\ pc = 0 /\ sched \in Pool(n)
Step == /\ pc < n /\ pc' = pc + 1 /\ UNCHANGED <<n, sched>>
Next == Step
Spec == Init /\ [][Next]_vars

Collects == pc \in sched
TypeOK == sched \subseteq 1..n /\ pc \in 0..n
PrintSched == (pc = 0) => PrintT(<<"SCHED", ToJson([n |-> n, at |-> sched])>>)
=============================================================================

---------------------------- MODULE Gen_LspDocs ----------------------------
(* G for the document store: every TRANSITION of the LspDocs machine over the concrete texts of
   LspTexts is one history (open/change/close and a final request) replayed on the real server.
   The machine runs with the implementation's policy so that "which text was the last to parse"
   is part of the explored state: every combination (current text, last valid text) is reached,
   in particular valid/long followed by broken/short.  Answers are NOT taken from this run; the
   recorded session is validated by Trace_LspDocs against the specification policy. *)
EXTENDS LspTexts, Json, TLC

CONSTANTS HUris, HTexts, HMaxVersion, HKinds

VARIABLES docs, srv, ans, hist

NoRanges(t) == {}
AnyValid(t, r) == TRUE

M == INSTANCE LspDocs WITH Uris <- HUris, Texts <- HTexts, Parses <- HParses, RangesOf <- NoRanges,
                           Valid <- AnyValid, NoText <- 0, MaxVersion <- HMaxVersion, Policy <- "last_valid"

Step(a, u, t, k, q, l, c) == [a |-> a, u |-> u, t |-> t, k |-> k, q |-> q, l |-> l, c |-> c]

(* query points of a text: q = 0 is (0,0); q > 0 the start of occurrence q; "hover"/"compl" only at
   a few of them *)
QPoints(t, k) == IF k = "def" THEN 0..Len(TextInfo[t].occs)
                 ELSE {q \in 1..Len(TextInfo[t].occs) : TextInfo[t].occs[q].role = "use"}

PrintTexts == PrintT(<<"TEXTS", ToJson([t \in 1..NHTexts |-> TextInfo[t].text])>>)
GInit == M!Init /\ hist = <<>> /\ PrintTexts
GNext == \E u \in HUris :
           \/ \E t \in HTexts : \/ M!Open(u, t) /\ hist' = Append(hist, Step("open", u, t, "", 0, 0, 0))
                                \/ M!Change(u, t) /\ hist' = Append(hist, Step("change", u, t, "", 0, 0, 0))
           \/ M!Close(u) /\ hist' = Append(hist, Step("close", u, 0, "", 0, 0, 0))
           \/ /\ M!Request(u)
              /\ \E k \in HKinds : \E q \in QPoints(docs[u].text, k) :
                    LET r == IF q = 0 THEN <<0, 0, 0, 0>> ELSE TextInfo[docs[u].text].occs[q].r IN
                    hist' = Append(hist, Step("req", u, docs[u].text, k, q, r[1], r[2]))
GView == <<docs, srv>>
PrintEdge == PrintT(<<"HIST", ToJson(hist')>>)
=============================================================================

------------------------------ MODULE Gen_Lex ------------------------------
(* G for C05: every string of length <= MaxLen over the character-class alphabet.  For each one
   the specification predicts: lexical verdict (ok / err), whether it is judged at the token level
   (unspec), the tokens with byte spans, and -- through Grammar!ParseFile on the token kinds --
   whether the file parses.  The space is grown as a tree so that the workers share it. *)
EXTENDS Lex, Grammar, Json

CONSTANTS MaxLen, MaxLenIndent,
          MaxLines, MaxWidth,    \* "shape" mode: up to MaxLines lines, each indented by 0..MaxWidth blanks
          MaxGLines, MaxGWidth   \* "gshape" mode: the same with grammatical lines (`if a:` / `pass`)
VARIABLES s, m

Alphabet == {" ","\t","\n","\r","#","(",")","[","]","{","}","'","\"","\\","a","f","r","b","0","1",
             ".",",",":","=","+","-","U2","U4"}

\* the byte-level mutation catalogue of the directed generator: every entry is applied at every
\* byte position of every base module (delete / duplicate / swap with the next byte / truncate
\* here / insert arg here / shift the indentation of this line)
Mutations ==
     {[op |-> o, arg |-> ""] : o \in {"delete","duplicate","swap","truncate","dedent_shift"}}
  \cup {[op |-> "insert", arg |-> a] : a \in {"(",")","[","]","{","}","'","\"","\\","\r","\t","\n"," ","#",
                                              "'''","\"\"\"","\\\n","\r\n","f\"","}}","!","U2","U4","0",".","="}}
  \cup {[op |-> "indent_shift", arg |-> a] : a \in {" ","  ","\t"}}

\* a second, longer space over a 6-symbol alphabet reaches the indentation stack (three levels,
\* inconsistent dedent, blank and comment lines, brackets spanning lines)
IndentAlphabet == {" ","\n","a","#","(",")"}

\* a third space: indentation SHAPES -- every sequence of up to MaxLines lines `<w blanks> a LF` (the
\* last one optionally without its LF) with w in 0..MaxWidth: reaches three and four open levels and
\* every dedent to, between and below them
Blanks(w) == [i \in 1..w |-> " "]
Lines(t) == Cardinality({i \in 1..Len(t) : t[i] = "\n"})

Init == s = <<>> /\ m = "root"
\* a fourth space: GRAMMATICAL shapes -- lines `<w blanks> def a():` and `<w blanks> pass` (a `def`,
\* because the Standard dialect has no `if` at module level), so that the
\* parser's verdict (accept / reject) is predicted too: blocks nested three deep, dedents to an
\* enclosing level (accepted), between two levels or below the margin (rejected), bodies missing
GLine(kind, w) == Blanks(w) \o (IF kind = "h" THEN <<"KDEF", " ", "a", "(", ")", ":", "\n">> ELSE <<"KPASS", "\n">>)

Next == \/ m = "root" /\ s' = s /\ m' \in {"all","indent","shape","gshape"}
        \/ m = "gshape" /\ Lines(s) < MaxGLines /\ m' = m
                        /\ \E kind \in {"h", "b"} : \E w \in 0..MaxGWidth : s' = s \o GLine(kind, w)
        \/ m = "shape" /\ Lines(s) < MaxLines /\ (IF s = <<>> THEN TRUE ELSE s[Len(s)] = "\n") /\ m' = m
                       /\ \E w \in 0..MaxWidth : \E nl \in BOOLEAN :
                              s' = s \o Blanks(w) \o <<"a">> \o (IF nl THEN <<"\n">> ELSE <<>>)
        \/ m = "all" /\ Len(s) < MaxLen /\ m' = m /\ \E c \in Alphabet : s' = Append(s, c)
        \/ m = "indent" /\ Len(s) < MaxLenIndent /\ m' = m /\ \E c \in IndentAlphabet : s' = Append(s, c)

Judge ==
  IF m = "root" THEN PrintT(<<"MUT", ToJson(Mutations)>>) ELSE
  LET lx == Lex(s)
      pr == IF lx.st = "ok" THEN ParseFile(GToks(lx.toks)) ELSE FailS
      p  == IF pr.ok THEN "accept" ELSE "reject" IN
  PrintT(<<"L", ToJson([m |-> m, s |-> s, st |-> lx.st, why |-> lx.why, un |-> lx.unspec, p |-> p, form |-> (IF pr.ok THEN Form(pr.a) ELSE ""),
                        toks |-> [n \in 1..Len(lx.toks) |-> <<lx.toks[n].k, lx.toks[n].b, lx.toks[n].e>>]])>>)
=============================================================================

------------------------------ MODULE BigInt ------------------------------
(* Exact integers of any magnitude -- the oracle of C10 and the number carrier of C09.

   TLC integers are 32-bit and overflow is an ERROR, so an integer is a record
        [neg : BOOLEAN, mag : Seq(0..B-1)]            B = 2^15
   `mag` little-endian, NORMALISED: no zero limb at the top; zero is [neg |-> FALSE, mag |-> <<>>]
   (so TLC's structural equality `=` is numeric equality).  Limb products are < 2^30 and every
   intermediate below stays < 2^31.

   Everything is defined from the schoolbook algorithms on magnitudes; the sign rules are the
   mathematical ones (floor division, two's complement for the bitwise operators, ~x = -x-1).
   Nothing here is transcribed from the implementation.  MC_BigInt.tla checks these definitions
   against TLC's native arithmetic and against the ring / division laws.                      *)
EXTENDS Integers, Sequences, TLC

B     == 32768
LBITS == 15

Zero     == [neg |-> FALSE, mag |-> <<>>]
IsZero(x) == x.mag = <<>>

--------------------------------------------------------------------------------
(* magnitudes *)

RECURSIVE Trim(_)
Trim(m) == IF m = <<>> THEN m
           ELSE IF m[Len(m)] = 0 THEN Trim(SubSeq(m, 1, Len(m) - 1)) ELSE m

Mk(neg, m) == LET t == Trim(m) IN [neg |-> (neg /\ t # <<>>), mag |-> t]

Zeros(k) == [i \in 1..k |-> 0] \o <<>>
MagShiftLimbs(m, k) == IF m = <<>> THEN m ELSE Zeros(k) \o m

RECURSIVE NatMag(_)
NatMag(n) == IF n = 0 THEN <<>> ELSE <<n % B>> \o NatMag(n \div B)

RECURSIVE MagCmpAt(_, _, _)
MagCmpAt(a, b, i) == IF i = 0 THEN 0
                     ELSE IF a[i] < b[i] THEN -1
                     ELSE IF a[i] > b[i] THEN 1
                     ELSE MagCmpAt(a, b, i - 1)
MagCmp(a, b) == IF Len(a) < Len(b) THEN -1
                ELSE IF Len(a) > Len(b) THEN 1
                ELSE MagCmpAt(a, b, Len(a))

Limb(m, i) == IF i <= Len(m) THEN m[i] ELSE 0

RECURSIVE MagAddAt(_, _, _, _)
MagAddAt(a, b, i, c) ==
    IF i > Len(a) /\ i > Len(b) THEN (IF c = 0 THEN <<>> ELSE <<c>>)
    ELSE LET s == Limb(a, i) + Limb(b, i) + c
         IN <<s % B>> \o MagAddAt(a, b, i + 1, s \div B)
MagAdd(a, b) == IF a = <<>> THEN b ELSE IF b = <<>> THEN a ELSE MagAddAt(a, b, 1, 0)

(* a >= b required *)
RECURSIVE MagSubAt(_, _, _, _)
MagSubAt(a, b, i, brw) ==
    IF i > Len(a) THEN <<>>
    ELSE LET s == a[i] - Limb(b, i) - brw
         IN IF s < 0 THEN <<s + B>> \o MagSubAt(a, b, i + 1, 1)
                     ELSE <<s>> \o MagSubAt(a, b, i + 1, 0)
MagSub(a, b) == IF b = <<>> THEN a ELSE Trim(MagSubAt(a, b, 1, 0))

(* m * d for a native 0 <= d < 2^16 *)
RECURSIVE MagMulLimbAt(_, _, _, _)
MagMulLimbAt(m, d, i, c) ==
    IF i > Len(m) THEN (IF c = 0 THEN <<>> ELSE NatMag(c))
    ELSE LET s == m[i] * d + c
         IN <<s % B>> \o MagMulLimbAt(m, d, i + 1, s \div B)
MagMulLimb(m, d) == IF d = 0 \/ m = <<>> THEN <<>> ELSE IF d = 1 THEN m ELSE MagMulLimbAt(m, d, 1, 0)

(* schoolbook, Horner over the limbs of b:  a*b = a*b[j] + B * (a * b[j+1..]) *)
RECURSIVE MagMulFrom(_, _, _)
MagMulFrom(a, b, j) ==
    IF j > Len(b) THEN <<>>
    ELSE MagAdd(MagMulLimb(a, b[j]), MagShiftLimbs(MagMulFrom(a, b, j + 1), 1))
MagMul(a, b) == IF a = <<>> \/ b = <<>> THEN <<>>
                ELSE IF Len(a) >= Len(b) THEN MagMulFrom(a, b, 1) ELSE MagMulFrom(b, a, 1)

(* m divided by a native 1 <= d <= 2^16:  [q |-> magnitude, r |-> native remainder] *)
RECURSIVE ShortDivAt(_, _, _, _)
ShortDivAt(m, d, i, r) ==      \* processes limbs i, i-1, .., 1 with incoming remainder r
    IF i = 0 THEN [q |-> <<>>, r |-> r]
    ELSE LET cur  == r * B + m[i]
             rest == ShortDivAt(m, d, i - 1, cur % d)
         IN [q |-> Append(rest.q, cur \div d), r |-> rest.r]
ShortDivMod(m, d) == LET x == ShortDivAt(m, d, Len(m), 0) IN [q |-> Trim(x.q), r |-> x.r]

(* long division of magnitudes, b # <<>>.  The quotient digit for the running remainder `rem`
   (rem < b*B) is the largest q with b*q <= rem, found by bisection inside the bracket that the
   leading limbs give:  t \div (btop+1) <= q <= t \div btop.                                  *)
RECURSIVE QBisect(_, _, _, _)
QBisect(b, rem, lo, hi) ==      \* invariant: b*lo <= rem, and b*(hi+1) > rem
    IF lo = hi THEN lo
    ELSE LET mid == (lo + hi + 1) \div 2
         IN IF MagCmp(MagMulLimb(b, mid), rem) <= 0
            THEN QBisect(b, rem, mid, hi) ELSE QBisect(b, rem, lo, mid - 1)

QDigit(b, rem) ==
    IF MagCmp(rem, b) < 0 THEN 0
    ELSE LET lb   == Len(b)
             btop == b[lb]
             t    == IF Len(rem) = lb THEN rem[lb] ELSE rem[lb + 1] * B + rem[lb]
             hi0  == t \div btop
             hi   == IF hi0 > B - 1 THEN B - 1 ELSE hi0
             lo   == t \div (btop + 1)
         IN QBisect(b, rem, lo, hi)

RECURSIVE LongDivAt(_, _, _)
LongDivAt(a, b, i) ==           \* result for the limbs i..Len(a) of a: [q (little-endian), r]
    IF i > Len(a) THEN [q |-> <<>>, r |-> <<>>]
    ELSE LET up  == LongDivAt(a, b, i + 1)
             rem == Trim(<<a[i]>> \o up.r)
             qd  == QDigit(b, rem)
         IN [q |-> <<qd>> \o up.q, r |-> MagSub(rem, MagMulLimb(b, qd))]

MagDivMod(a, b) ==
    IF MagCmp(a, b) < 0 THEN [q |-> <<>>, r |-> a]
    ELSE IF Len(b) = 1 THEN (LET x == ShortDivMod(a, b[1]) IN [q |-> x.q, r |-> NatMag(x.r)])
    ELSE (LET x == LongDivAt(a, b, 1) IN [q |-> Trim(x.q), r |-> x.r])

--------------------------------------------------------------------------------
(* integers *)

FromInt(n) == IF n < 0 THEN Mk(TRUE, NatMag(-n)) ELSE Mk(FALSE, NatMag(n))   \* -2^31 < n < 2^31
FromNat(n) == FromInt(n)

RECURSIVE MagToNat(_, _)
MagToNat(m, i) == IF i > Len(m) THEN 0 ELSE m[i] + B * MagToNat(m, i + 1)
ToInt(x) == IF x.neg THEN -MagToNat(x.mag, 1) ELSE MagToNat(x.mag, 1)       \* |x| < 2^31 required
ToNat(x) == ToInt(x)

One    == FromInt(1)
MinusOne == FromInt(-1)

Sign(x) == IF x.mag = <<>> THEN 0 ELSE IF x.neg THEN -1 ELSE 1
Neg(x)  == Mk(~x.neg, x.mag)
Abs(x)  == [neg |-> FALSE, mag |-> x.mag]

Cmp(x, y) == IF x.neg /\ ~y.neg THEN -1
             ELSE IF ~x.neg /\ y.neg THEN 1
             ELSE IF x.neg THEN MagCmp(y.mag, x.mag) ELSE MagCmp(x.mag, y.mag)
Lt(x, y) == Cmp(x, y) < 0
Le(x, y) == Cmp(x, y) <= 0

Add(x, y) == IF x.neg = y.neg THEN Mk(x.neg, MagAdd(x.mag, y.mag))
             ELSE IF MagCmp(x.mag, y.mag) >= 0 THEN Mk(x.neg, MagSub(x.mag, y.mag))
             ELSE Mk(y.neg, MagSub(y.mag, x.mag))
Sub(x, y) == Add(x, Neg(y))
Mul(x, y) == Mk(x.neg # y.neg, MagMul(x.mag, y.mag))

(* floor division: q = floor(x / y), r = x - q*y; r = 0 or sign(r) = sign(y).  y # 0. *)
DivModFloor(x, y) ==
    LET t == MagDivMod(x.mag, y.mag)
    IN IF x.neg = y.neg THEN [q |-> Mk(FALSE, t.q), r |-> Mk(y.neg, t.r)]
       ELSE IF t.r = <<>> THEN [q |-> Mk(TRUE, t.q), r |-> Zero]
       ELSE [q |-> Mk(TRUE, MagAdd(t.q, <<1>>)), r |-> Mk(y.neg, MagSub(y.mag, t.r))]
FloorDiv(x, y) == DivModFloor(x, y).q
Mod(x, y)      == DivModFloor(x, y).r

RECURSIVE NatPow2(_)
NatPow2(k) == IF k = 0 THEN 1 ELSE 2 * NatPow2(k - 1)          \* k <= 30

(* shifts by a native k >= 0 *)
Shl(x, k) == Mk(x.neg, MagShiftLimbs(MagMulLimb(x.mag, NatPow2(k % LBITS)), k \div LBITS))
MagShr(m, k) == IF k \div LBITS >= Len(m) THEN <<>>
                ELSE ShortDivMod(SubSeq(m, (k \div LBITS) + 1, Len(m)), NatPow2(k % LBITS)).q
(* arithmetic (floor) shift: for x < 0, floor(x / 2^k) = -(((|x| - 1) >> k) + 1) *)
Shr(x, k) == IF ~x.neg THEN Mk(FALSE, MagShr(x.mag, k))
             ELSE Mk(TRUE, MagAdd(MagShr(MagSub(x.mag, <<1>>), k), <<1>>))

Pow2(k) == Shl(One, k)
RECURSIVE Pow10(_)
Pow10(k) == IF k = 0 THEN One ELSE Mk(FALSE, MagMulLimb(Pow10(k - 1).mag, 10))

(* number of bits of |x| (0 for 0) *)
RECURSIVE NatBits(_)
NatBits(n) == IF n = 0 THEN 0 ELSE 1 + NatBits(n \div 2)
BitLen(x) == IF x.mag = <<>> THEN 0 ELSE LBITS * (Len(x.mag) - 1) + NatBits(x.mag[Len(x.mag)])

--------------------------------------------------------------------------------
(* bitwise operators on the infinite two's-complement reading.
   x >= 0 : limbs of x, extended with 0;  x < 0 : limbs of ~(|x|-1), extended with B-1.        *)

Not(x) == Sub(Neg(x), One)                                      \* ~x = -x - 1

RECURSIVE BitOp(_, _, _, _)
BitOp(op, a, b, n) ==            \* op on the low n bits of natives a, b
    IF n = 0 THEN 0
    ELSE LET x == a % 2
             y == b % 2
             z == CASE op = "and" -> (IF x = 1 /\ y = 1 THEN 1 ELSE 0)
                    [] op = "or"  -> (IF x = 1 \/ y = 1 THEN 1 ELSE 0)
                    [] op = "xor" -> (IF x # y THEN 1 ELSE 0)
         IN z + 2 * BitOp(op, a \div 2, b \div 2, n - 1)

TCLimbs(x, n) ==                 \* n limbs of the two's-complement reading
    IF ~x.neg THEN [i \in 1..n |-> Limb(x.mag, i)] \o <<>>     \* (\o <<>> makes TLC build the tuple now
    ELSE LET m == MagSub(x.mag, <<1>>) IN [i \in 1..n |-> (B - 1) - Limb(m, i)] \o <<>>     \* instead of a lazy function)

BitWise(op, x, y) ==
    LET n  == (IF Len(x.mag) > Len(y.mag) THEN Len(x.mag) ELSE Len(y.mag)) + 1
        xs == TCLimbs(x, n)
        ys == TCLimbs(y, n)
        rs == [i \in 1..n |-> BitOp(op, xs[i], ys[i], LBITS)] \o <<>>
        sx == IF x.neg THEN 1 ELSE 0
        sy == IF y.neg THEN 1 ELSE 0
        rneg == BitOp(op, sx, sy, 1) = 1
    IN IF ~rneg THEN Mk(FALSE, rs)
       ELSE Mk(TRUE, MagAdd(Trim([i \in 1..n |-> (B - 1) - rs[i]] \o <<>>), <<1>>))

And(x, y) == BitWise("and", x, y)
Or(x, y)  == BitWise("or", x, y)
Xor(x, y) == BitWise("xor", x, y)

--------------------------------------------------------------------------------
(* digits and strings (Horner / repeated short division) *)

(* digits of the magnitude in `base` (2..36), most significant first; <<0>> for zero *)
RECURSIVE NatPow(_, _)
NatPow(b, k) == IF k = 0 THEN 1 ELSE b * NatPow(b, k - 1)
RECURSIVE ChunkLen(_, _)
ChunkLen(base, k) == IF NatPow(base, k + 1) > B THEN k ELSE ChunkLen(base, k + 1)

RECURSIVE SmallDigitsLE(_, _, _)
SmallDigitsLE(n, base, k) == IF k = 0 THEN <<>> ELSE <<n % base>> \o SmallDigitsLE(n \div base, base, k - 1)

RECURSIVE MagDigitsLE(_, _, _, _)
MagDigitsLE(m, base, k, c) ==
    IF m = <<>> THEN <<>>
    ELSE LET qr == ShortDivMod(m, c) IN SmallDigitsLE(qr.r, base, k) \o MagDigitsLE(qr.q, base, k, c)

Reverse(s) == [i \in 1..Len(s) |-> s[Len(s) + 1 - i]] \o <<>>

ToDigits(x, base) ==
    IF x.mag = <<>> THEN <<0>>
    ELSE LET k == ChunkLen(base, 1) IN Reverse(Trim(MagDigitsLE(x.mag, base, k, NatPow(base, k))))

RECURSIVE FromDigitsAt(_, _, _, _)
FromDigitsAt(ds, base, i, acc) ==
    IF i > Len(ds) THEN acc
    ELSE FromDigitsAt(ds, base, i + 1, MagAdd(MagMulLimb(acc, base), NatMag(ds[i])))
(* digits most significant first *)
FromDigits(neg, ds, base) == Mk(neg, FromDigitsAt(ds, base, 1, <<>>))
FromDecimalDigits(neg, ds) == FromDigits(neg, ds, 10)

DigitLower == <<"0","1","2","3","4","5","6","7","8","9","a","b","c","d","e","f","g","h","i","j","k","l","m",
                "n","o","p","q","r","s","t","u","v","w","x","y","z">>
DigitUpper == <<"0","1","2","3","4","5","6","7","8","9","A","B","C","D","E","F","G","H","I","J","K","L","M",
                "N","O","P","Q","R","S","T","U","V","W","X","Y","Z">>

RECURSIVE JoinDigits(_, _, _)
JoinDigits(ds, table, i) == IF i > Len(ds) THEN "" ELSE table[ds[i] + 1] \o JoinDigits(ds, table, i + 1)

(* magnitude only, no sign, no prefix *)
MagString(x, base, upper) == JoinDigits(ToDigits(x, base), IF upper THEN DigitUpper ELSE DigitLower, 1)
ToBaseString(x, base, upper) == (IF x.neg THEN "-" ELSE "") \o MagString(x, base, upper)

(* decimal rendering through base-10^4 chunks (fewer intermediate strings) *)
RECURSIVE Chunks4LE(_)
Chunks4LE(m) == IF m = <<>> THEN <<>> ELSE LET qr == ShortDivMod(m, 10000) IN <<qr.r>> \o Chunks4LE(qr.q)
Pad4(n) == IF n < 10 THEN "000" \o ToString(n)
           ELSE IF n < 100 THEN "00" \o ToString(n)
           ELSE IF n < 1000 THEN "0" \o ToString(n) ELSE ToString(n)
RECURSIVE JoinChunks(_, _)
JoinChunks(cs, i) == IF i = 0 THEN "" ELSE Pad4(cs[i]) \o JoinChunks(cs, i - 1)
ToDecimalString(x) ==
    IF x.mag = <<>> THEN "0"
    ELSE LET cs == Chunks4LE(x.mag)
         IN (IF x.neg THEN "-" ELSE "") \o ToString(cs[Len(cs)]) \o JoinChunks(cs, Len(cs) - 1)

--------------------------------------------------------------------------------
(* host fixed-width ranges, decided here and not in the harness *)
InRange(x, lo, hi) == Cmp(lo, x) <= 0 /\ Cmp(x, hi) <= 0
I32Min == Neg(Pow2(31))
I32Max == Sub(Pow2(31), One)
U32Max == Sub(Pow2(32), One)
I64Min == Neg(Pow2(63))
I64Max == Sub(Pow2(63), One)
U64Max == Sub(Pow2(64), One)
FitsI32(x) == InRange(x, I32Min, I32Max)
FitsU32(x) == InRange(x, Zero, U32Max)
FitsI64(x) == InRange(x, I64Min, I64Max)
FitsU64(x) == InRange(x, Zero, U64Max)

(* light smoke test, evaluated whenever the module is loaded; the full self-check is MC_BigInt *)
ASSUME /\ ToInt(Add(FromInt(32767), FromInt(1))) = 32768
       /\ ToDecimalString(Mul(Pow2(31), Pow2(33))) = "18446744073709551616"
       /\ DivModFloor(FromInt(7), FromInt(-2)) = [q |-> FromInt(-4), r |-> FromInt(-1)]
       /\ And(FromInt(-4), FromInt(6)) = FromInt(4) /\ Not(FromInt(5)) = FromInt(-6)
=============================================================================

------------------------------ MODULE LspScope ------------------------------
(* Which binding occurrence a variable use refers to, under Starlark's scoping rule, over a small
   AST form -- written from the language definition (spec.md "Name binding and variables"), not
   from starlark_lsp/src/bind.rs:

     * a file has one module scope; `load` symbols and every name assigned at top level (by `=`,
       `for`, `def`) live there;
     * each `def` and each `lambda` has a function scope holding its parameters and EVERY name
       assigned anywhere in its body (not inside nested functions/comprehensions) -- so a name is
       local in the whole body even before its assignment;
     * default values of parameters are evaluated in the scope enclosing the function;
     * a comprehension has its own scope holding the variables of all its `for` clauses; the
       iterable of the FIRST `for` clause is evaluated in the enclosing scope, everything else
       (body, later iterables, conditions) in the comprehension's scope;
     * a use refers to the innermost enclosing scope that binds its name; names bound nowhere in
       the file (builtins) refer to nothing in the file.

   One walk over the AST produces the document as a token sequence; every identifier occurrence
   is a token that carries its scope chain (innermost first; for a binding the head of the chain
   is the scope it binds in).  `Resolve` is then a function of the occurrence list alone.  The
   same walk therefore gives both the text the server sees and the expected answer.

   Document shape (what the tokens spell).  Every binding gets a distinct string value "b<i>"
   where i is the index of the binding occurrence, every tagged use is spelled u("<i>", name)
   where i is the index of that use occurrence (u is a host builtin that records and returns its
   second argument), so running the document reveals which binding each executed use reads:
       xx = "b1"                     for yy in ["b7"]:            def ff(xx = "b3", zz = "b4"):
       yy = ["b2", u("4", xx)][0]    [[u("9", xx)] for xx in ["b11", u("13", yy)][:1]]
   Pads (code points chosen by the generator, possibly non-ASCII / astral) are placed inside those
   string literals, i.e. BEFORE the following identifiers on the same line. *)
EXTENDS Naturals, Sequences, FiniteSets

-----------------------------------------------------------------------------
(* AST constructors *)
Use(n)          == [k |-> "use", n |-> n, tag |-> TRUE]      \* u("<i>", n)
Bare(n)         == [k |-> "use", n |-> n, tag |-> FALSE]     \* n
CallE(n)        == [k |-> "call", n |-> n]                    \* n()
ListE(xs)       == [k |-> "list", xs |-> xs]
ForC(v, it)     == [k |-> "for", v |-> v, it |-> it]          \* for v in ["b<i>", it...][:1]
IfC(c)          == [k |-> "if", c |-> c]
Comp(body, cls) == [k |-> "comp", body |-> body, cls |-> cls, dict |-> FALSE]
DictComp(body, cls) == [k |-> "comp", body |-> body, cls |-> cls, dict |-> TRUE]
Lam(ps, body)   == [k |-> "lam", ps |-> ps, body |-> body]   \* (lambda p = "b<i>", ...: [body...])()
Par(n, d)       == [n |-> n, d |-> d]                         \* n = ["b<i>", d...][0]

Assign(n, xs)   == [k |-> "assign", n |-> n, xs |-> xs]
Def(n, ps, b)   == [k |-> "def", n |-> n, ps |-> ps, b |-> b, bad |-> FALSE]
BadDef(n, ps, b) == [k |-> "def", n |-> n, ps |-> ps, b |-> b, bad |-> TRUE]   \* "def n(:" -- does not parse
For(n, xs, b)   == [k |-> "for", n |-> n, xs |-> xs, b |-> b]
If(c, b, e)     == [k |-> "if", c |-> c, b |-> b, e |-> e]
ExprS(e)        == [k |-> "expr", e |-> e]
Ret(e)          == [k |-> "ret", e |-> e]
Load(ns)        == [k |-> "load", ns |-> ns]                  \* load("m.star", n = "n", ...)
Pass            == [k |-> "pass"]
BadAssign(n)    == [k |-> "badassign", n |-> n]               \* n = = "b<i>"  -- does not parse; the second = is a marked occurrence

-----------------------------------------------------------------------------
(* spellings, as code points *)
S_def == <<100, 101, 102, 32>>       S_lparen == <<40>>          S_rparen == <<41>>
S_colon == <<58>>                    S_comma == <<44, 32>>       S_eq == <<32, 61, 32>>
S_lbr == <<91>>                      S_rbr == <<93>>             S_lbrace == <<123>>
S_rbrace == <<125>>                  S_first == <<91, 48, 93>>   S_slice1 == <<91, 58, 49, 93>>
S_for == <<32, 102, 111, 114, 32>>   S_forstmt == <<102, 111, 114, 32>>
S_in == <<32, 105, 110, 32>>         S_if == <<32, 105, 102, 32>>  S_ifstmt == <<105, 102, 32>>
S_else == <<101, 108, 115, 101>>     S_return == <<114, 101, 116, 117, 114, 110, 32>>
S_pass == <<112, 97, 115, 115>>      S_lambda == <<108, 97, 109, 98, 100, 97>>
S_load == <<108, 111, 97, 100, 40>>  S_mstar == <<109, 46, 115, 116, 97, 114>>
S_q == <<34>>                        S_b == <<98>>               S_semi == <<59, 32>>
S_hash == <<32, 35, 32>>             S_call == <<40, 41>>        S_badparen == <<40, 58>>
S_kv == <<58, 32>>                   S_k == <<107>>              S_sp == <<32>>

NameCps(n) == CASE n = "xx" -> <<120, 120>> [] n = "yy" -> <<121, 121>> [] n = "zz" -> <<122, 122>>
                [] n = "ff" -> <<102, 102>> [] n = "gg" -> <<103, 103>> [] n = "hh" -> <<104, 104>>
                [] n = "u"  -> <<117>>      [] n = "=" -> <<61>>

RECURSIVE Spaces(_)
Spaces(n) == IF n = 0 THEN <<>> ELSE <<32>> \o Spaces(n - 1)

RECURSIVE Digits(_)
Digits(n) == IF n < 10 THEN <<48 + n>> ELSE Digits(n \div 10) \o <<48 + (n % 10)>>

-----------------------------------------------------------------------------
(* tokens *)
NoOcc == [name |-> "", bind |-> FALSE, chain |-> <<>>, role |-> "", tagged |-> FALSE]
T(cps) == <<[t |-> "txt", c |-> cps, o |-> NoOcc]>>
O(name, bind, chain, role, tagged) ==
    <<[t |-> "occ", c |-> NameCps(name),
       o |-> [name |-> name, bind |-> bind, chain |-> chain, role |-> role, tagged |-> tagged]]>>
TP == <<[t |-> "tagprev", c |-> <<>>, o |-> NoOcc]>>     \* digits of the index of the previous occurrence
TN == <<[t |-> "tagnext", c |-> <<>>, o |-> NoOcc]>>     \* digits of the index of the next occurrence

(* the walk context: chain (scope paths, innermost first), ind (indentation), d (decoration:
   padB, padU code points; eol; padstmt, cmt booleans) *)
BTag(cx) == T(S_q \o S_b) \o TP \o T(cx.d.padB \o S_q)                  \* "b<i><padB>"

RECURSIVE WalkE(_, _, _), CommaEs(_, _, _, _, _), Clauses(_, _, _, _, _), Params(_, _, _, _, _),
          WalkS(_, _, _), Block(_, _, _, _)

ValE(xs, cx, pp) == IF xs = <<>> THEN BTag(cx)
                    ELSE T(S_lbr) \o BTag(cx) \o CommaEs(xs, 1, cx, pp, FALSE) \o T(S_rbr \o S_first)
ItE(xs, cx, pp)  == T(S_lbr) \o BTag(cx) \o CommaEs(xs, 1, cx, pp, FALSE) \o T(S_rbr)
                    \o (IF xs = <<>> THEN <<>> ELSE T(S_slice1))

CommaEs(xs, i, cx, pp, first) ==
    IF i > Len(xs) THEN <<>>
    ELSE (IF first THEN <<>> ELSE T(S_comma)) \o WalkE(xs[i], cx, pp \o <<i>>)
         \o CommaEs(xs, i + 1, cx, pp, FALSE)

(* parameters bind in the function scope `inner`; their defaults are evaluated in cx (outside) *)
Params(ps, i, cx, inner, pp) ==
    IF i > Len(ps) THEN <<>>
    ELSE (IF i = 1 THEN <<>> ELSE T(S_comma))
         \o O(ps[i].n, TRUE, inner, "param", FALSE) \o T(S_eq) \o ValE(ps[i].d, cx, pp \o <<i>>)
         \o Params(ps, i + 1, cx, inner, pp)

(* comprehension clauses: cxi is the comprehension's own context, cx the enclosing one *)
Clauses(cls, j, cx, cxi, pp) ==
    IF j > Len(cls) THEN <<>>
    ELSE (IF cls[j].k = "for"
          THEN T(S_for) \o O(cls[j].v, TRUE, cxi.chain, "comp", FALSE) \o T(S_in)
               \o ItE(cls[j].it, IF j = 1 THEN cx ELSE cxi, pp \o <<j>>)
          ELSE T(S_if) \o WalkE(cls[j].c, cxi, pp \o <<j, 1>>))
         \o Clauses(cls, j + 1, cx, cxi, pp)

WalkE(e, cx, p) ==
    CASE e.k = "use" ->
           (IF e.tag
            THEN O("u", FALSE, cx.chain, "builtin", FALSE) \o T(S_lparen \o S_q) \o TN
                 \o T(cx.d.padU \o S_q \o S_comma) \o O(e.n, FALSE, cx.chain, "use", TRUE) \o T(S_rparen)
            ELSE O(e.n, FALSE, cx.chain, "use", FALSE))
      [] e.k = "call" -> (O(e.n, FALSE, cx.chain, "call", FALSE) \o T(S_call))
      [] e.k = "list" -> (T(S_lbr) \o CommaEs(e.xs, 1, cx, p, TRUE) \o T(S_rbr))
      [] e.k = "comp" ->
           (LET cxi == [cx EXCEPT !.chain = <<p>> \o cx.chain] IN
            T(IF e.dict THEN S_lbrace \o S_q \o S_k \o S_q \o S_kv ELSE S_lbr)
            \o T(S_lbr) \o CommaEs(e.body, 1, cxi, p \o <<1>>, TRUE) \o T(S_rbr)
            \o Clauses(e.cls, 1, cx, cxi, p \o <<2>>)
            \o T(IF e.dict THEN S_rbrace ELSE S_rbr))
      [] e.k = "lam" ->
           (LET cxi == [cx EXCEPT !.chain = <<p>> \o cx.chain] IN
            T(S_lparen \o S_lambda) \o (IF e.ps = <<>> THEN <<>> ELSE T(S_sp))
            \o Params(e.ps, 1, cx, cxi.chain, p \o <<1>>)
            \o T(S_colon \o S_sp \o S_lbr) \o CommaEs(e.body, 1, cxi, p \o <<2>>, TRUE)
            \o T(S_rbr \o S_rparen \o S_call))

Cmt(cx)  == IF cx.d.cmt THEN T(S_hash \o cx.d.padU) ELSE <<>>
(* a simple statement on its own line, optionally preceded by a padding string statement *)
Line(cx, toks) == T(Spaces(cx.ind))
                  \o (IF cx.d.padstmt THEN T(S_q \o cx.d.padB \o S_q \o S_semi) ELSE <<>>)
                  \o toks \o Cmt(cx) \o T(cx.d.eol)
Plain(cx, toks) == T(Spaces(cx.ind)) \o toks \o Cmt(cx) \o T(cx.d.eol)
HeadL(cx, toks)  == T(Spaces(cx.ind)) \o toks \o T(S_colon) \o Cmt(cx) \o T(cx.d.eol)

RECURSIVE LoadArgs(_, _, _)
LoadArgs(ns, i, cx) ==
    IF i > Len(ns) THEN <<>>
    ELSE T(S_comma) \o O(ns[i], TRUE, cx.chain, "load", FALSE) \o T(S_eq \o S_q \o NameCps(ns[i]) \o S_q)
         \o LoadArgs(ns, i + 1, cx)

Block(ss, i, cx, pp) ==
    IF ss = <<>> THEN Plain(cx, T(S_pass))
    ELSE IF i > Len(ss) THEN <<>>
    ELSE WalkS(ss[i], cx, pp \o <<i>>) \o Block(ss, i + 1, cx, pp)

In(cx) == [cx EXCEPT !.ind = @ + 4]

WalkS(s, cx, p) ==
    CASE s.k = "assign" ->
           (Line(cx, O(s.n, TRUE, cx.chain, "assign", FALSE) \o T(S_eq) \o ValE(s.xs, cx, p \o <<1>>)))
      [] s.k = "def" ->
           (LET inner == <<p>> \o cx.chain IN
            HeadL(cx, T(S_def) \o O(s.n, TRUE, cx.chain, "def", FALSE)
                     \o T(IF s.bad THEN S_badparen ELSE S_lparen)
                     \o Params(s.ps, 1, cx, inner, p \o <<1>>) \o T(S_rparen))
            \o Block(s.b, 1, [In(cx) EXCEPT !.chain = inner], p \o <<2>>))
      [] s.k = "for" ->
           (HeadL(cx, T(S_forstmt) \o O(s.n, TRUE, cx.chain, "for", FALSE) \o T(S_in) \o ItE(s.xs, cx, p \o <<1>>))
            \o Block(s.b, 1, In(cx), p \o <<2>>))
      [] s.k = "if" ->
           (HeadL(cx, T(S_ifstmt) \o WalkE(s.c, cx, p \o <<1, 1>>))
            \o Block(s.b, 1, In(cx), p \o <<2>>)
            \o (IF s.e = <<>> THEN <<>> ELSE HeadL(cx, T(S_else)) \o Block(s.e, 1, In(cx), p \o <<3>>)))
      [] s.k = "expr" -> (Line(cx, WalkE(s.e, cx, p \o <<1, 1>>)))
      [] s.k = "ret"  -> (Line(cx, T(S_return) \o WalkE(s.e, cx, p \o <<1, 1>>)))
      [] s.k = "load" -> (Plain(cx, T(S_load \o S_q \o S_mstar \o S_q) \o LoadArgs(s.ns, 1, cx) \o T(S_rparen)))
      [] s.k = "pass" -> (Line(cx, T(S_pass)))
      [] s.k = "badassign" ->
           (Line(cx, O(s.n, TRUE, cx.chain, "assign", FALSE) \o T(<<32, 61, 32>>)
                     \o O("=", FALSE, cx.chain, "mark", FALSE) \o T(S_sp) \o BTag(cx)))

ModuleScope == <<>>
Tokens(mod, d) == IF mod = <<>> THEN <<>> ELSE Block(mod, 1, [chain |-> <<ModuleScope>>, ind |-> 0, d |-> d], <<>>)

-----------------------------------------------------------------------------
(* flatten tokens to code points; occurrence i covers the code points between places a and e *)
RECURSIVE Flat(_, _, _)
Flat(toks, i, st) ==
    IF i > Len(toks) THEN st
    ELSE LET tk == toks[i] IN
         Flat(toks, i + 1,
              CASE tk.t = "txt"     -> ([st EXCEPT !.cps = @ \o tk.c])
                [] tk.t = "occ"     -> ([cps  |-> st.cps \o tk.c,
                                         occs |-> Append(st.occs, [a |-> Len(st.cps), e |-> Len(st.cps) + Len(tk.c), o |-> tk.o])])
                [] tk.t = "tagprev" -> ([st EXCEPT !.cps = @ \o Digits(Len(st.occs))])
                [] tk.t = "tagnext" -> ([st EXCEPT !.cps = @ \o Digits(Len(st.occs) + 1)]))

Doc(mod, d) == Flat(Tokens(mod, d), 1, [cps |-> <<>>, occs |-> <<>>])

-----------------------------------------------------------------------------
(* Resolve: occs is the sequence of occurrence records [a, e, o] of a document *)
BindsIn(occs, s, n) == {j \in 1..Len(occs) : occs[j].o.bind /\ occs[j].o.name = n /\ occs[j].o.chain[1] = s}

RECURSIVE FirstBinder(_, _, _, _)
FirstBinder(occs, chain, m, n) ==
    IF m > Len(chain) THEN 0
    ELSE IF BindsIn(occs, chain[m], n) # {} THEN m
    ELSE FirstBinder(occs, chain, m + 1, n)

Min(S) == CHOOSE x \in S : \A y \in S : x <= y

(* for the use occurrence i: depth = position in its chain of the scope that binds it (0: none in
   the file), targets = every binding occurrence of the name in that scope, first = the earliest *)
Resolve(occs, i) ==
    LET o == occs[i].o
        m == FirstBinder(occs, o.chain, 1, o.name)
        ts == IF m = 0 THEN {} ELSE BindsIn(occs, o.chain[m], o.name)
    IN [depth |-> m, nscopes |-> Len(o.chain), targets |-> ts, first |-> IF ts = {} THEN 0 ELSE Min(ts),
        scope |-> IF m = 0 THEN <<0>> ELSE o.chain[m],
        \* how many of the enclosing scopes bind the name (>= 2: the use is a shadowing case)
        binders |-> Cardinality({k \in 1..Len(o.chain) : BindsIn(occs, o.chain[k], o.name) # {}})]
=============================================================================

------------------------------ MODULE IterLock ------------------------------
(* C12: a container cannot be mutated while iterated and is released when iteration ends.

   Two layers.
   (1) The protocol machine: lock[a] per container; IterStart / IterStop(why) / Mutate / ChunkEnd
       consume the event list produced by Sem for one generated session.  Invariants:
       counts never negative; at the end of every chunk (control back at the host, by any exit:
       exhaustion, break, return, error) every count is zero (LocksBalanced).
   (2) The case generator: the product container kind x iterating construct x mutating operation
       x access path x exit x nesting, each built as a session of chunks (Ast constructors); Sem
       computes what every chunk must emit / how it must fail.  One JSON line per case.

   TLC explores (1) for every case of (2): Init chooses the case, Next consumes one event. *)
EXTENDS Sem, Ast, Json

Kinds == {"list", "dict", "set"}
Conses == {"for", "compr", "dictcompr", "sortedkey", "minkey", "mapf", "filterf", "selfextend"}
Vias == {"name", "alias", "box"}
Exits == {"attempt", "attempt_outer", "exhaust", "break", "return", "error"}
MutsOf(kind) ==
    \* (the last ones of each line change nothing: a mutating operation is refused all the same)
    IF kind = "list" THEN {"append", "extend", "insert", "pop", "remove", "clear", "setitem", "augadd", "augitem", "extend0", "augadd0"}
    ELSE IF kind = "set" THEN {"add", "remove", "discard", "spop", "clear", "supdate", "discard0", "supdate0", "addold"}
    ELSE {"setnew", "setold", "pop", "setdefault", "update", "clear", "augitem", "setdefault_old", "popdef0", "update0"}

K_a == <<97>>
K_b == <<98>>
K_c == <<99>>
K_z == <<122>>

Container(kind) == IF kind = "list" THEN AList(<<AInt(1), AInt(2), AInt(3)>>)
                   ELSE IF kind = "set" THEN ACall(AVar("set"), <<AList(<<AInt(1), AInt(2), AInt(3)>>)>>)
                   ELSE ADict(<<AStr(K_a), AStr(K_b), AStr(K_c)>>, <<AInt(1), AInt(2), AInt(3)>>)

Path(via) == IF via = "name" THEN AVar("xs") ELSE IF via = "alias" THEN AVar("ys") ELSE AIndex(AVar("box"), AInt(0))
PathT(via) == IF via = "name" THEN TVar("xs") ELSE IF via = "alias" THEN TVar("ys") ELSE TIndex(AVar("box"), AInt(0))

(* the mutating statement, through the chosen access path *)
Mut(kind, mut, via) ==
    LET T == Path(via) IN
    IF kind = "list" THEN
        (IF mut = "append" THEN SExpr(AMCall(T, "append", <<AInt(9)>>))
         ELSE IF mut = "extend" THEN SExpr(AMCall(T, "extend", <<AList(<<AInt(8), AInt(9)>>)>>))
         ELSE IF mut = "insert" THEN SExpr(AMCall(T, "insert", <<AInt(0), AInt(9)>>))
         ELSE IF mut = "pop" THEN SExpr(AMCall(T, "pop", <<>>))
         ELSE IF mut = "remove" THEN SExpr(AMCall(T, "remove", <<AInt(2)>>))
         ELSE IF mut = "clear" THEN SExpr(AMCall(T, "clear", <<>>))
         ELSE IF mut = "setitem" THEN SAssign(TIndex(T, AInt(0)), AInt(9))
         ELSE IF mut = "augadd" THEN SAug("+", PathT(via), AList(<<AInt(9)>>))
         ELSE IF mut = "extend0" THEN SExpr(AMCall(T, "extend", <<AList(<<>>)>>))
         ELSE IF mut = "augadd0" THEN SAug("+", PathT(via), AList(<<>>))
         ELSE SAug("+", TIndex(T, AInt(0)), AInt(1)))
    ELSE IF kind = "set" THEN
        (IF mut = "add" THEN SExpr(AMCall(T, "add", <<AInt(9)>>))
         ELSE IF mut = "remove" THEN SExpr(AMCall(T, "remove", <<AInt(2)>>))
         ELSE IF mut = "discard" THEN SExpr(AMCall(T, "discard", <<AInt(2)>>))
         ELSE IF mut = "spop" THEN SExpr(AMCall(T, "pop", <<>>))
         ELSE IF mut = "discard0" THEN SExpr(AMCall(T, "discard", <<AInt(7)>>))
         ELSE IF mut = "supdate0" THEN SExpr(AMCall(T, "update", <<AList(<<>>)>>))
         ELSE IF mut = "addold" THEN SExpr(AMCall(T, "add", <<AInt(2)>>))
         ELSE IF mut = "clear" THEN SExpr(AMCall(T, "clear", <<>>))
         ELSE SExpr(AMCall(T, "update", <<AList(<<AInt(8), AInt(9)>>)>>)))
    ELSE
        (IF mut = "setnew" THEN SAssign(TIndex(T, AStr(K_z)), AInt(9))
         ELSE IF mut = "setold" THEN SAssign(TIndex(T, AStr(K_a)), AInt(9))
         ELSE IF mut = "pop" THEN SExpr(AMCall(T, "pop", <<AStr(K_b)>>))
         ELSE IF mut = "setdefault" THEN SExpr(AMCall(T, "setdefault", <<AStr(K_z), AInt(9)>>))
         ELSE IF mut = "update" THEN SExpr(AMCall(T, "update", <<ADict(<<AStr(K_z)>>, <<AInt(9)>>)>>))
         ELSE IF mut = "setdefault_old" THEN SExpr(AMCall(T, "setdefault", <<AStr(K_a), AInt(9)>>))
         ELSE IF mut = "popdef0" THEN SExpr(AMCall(T, "pop", <<AStr(K_z), AInt(0)>>))
         ELSE IF mut = "update0" THEN SExpr(AMCall(T, "update", <<ADict(<<>>, <<>>)>>))
         ELSE IF mut = "clear" THEN SExpr(AMCall(T, "clear", <<>>))
         ELSE SAug("+", TIndex(T, AStr(K_a)), AInt(1)))

Boom == SExpr(ABin("//", AInt(1), AInt(0)))

(* nested for loops over the same value; `inner` runs in the innermost body, `after` in the
   outermost body after the inner loops *)
RECURSIVE Nest(_, _, _)
Nest(d, inner, after) ==
    IF d = 1 THEN SFor(TVar("i1"), AVar("xs"), inner)
    ELSE SFor(TVar(IF d = 2 THEN "i2" ELSE "i3"), AVar("xs"), <<Nest(d - 1, inner, <<>>)>> \o after)

(* setup chunk: container, access paths, helper functions *)
(* the state the container is in when it is iterated: as created; emptied in place (its storage is
   kept); grown well beyond its first allocation *)
Preps == {"fresh", "emptied", "grown"}
Prep(c) ==
    IF c.prep = "emptied" THEN <<SExpr(AMCall(AVar("xs"), "clear", <<>>))>>
    ELSE IF c.prep = "grown" THEN
        <<SFor(TVar("g"), ACall(AVar("range"), <<AInt(10), AInt(40)>>),
               <<IF c.kind = "list" THEN SExpr(AMCall(AVar("xs"), "append", <<AVar("g")>>))
                 ELSE IF c.kind = "set" THEN SExpr(AMCall(AVar("xs"), "add", <<AVar("g")>>))
                 ELSE SAssign(TIndex(AVar("xs"), AVar("g")), AVar("g"))>>),
          \* back to the original three entries, in place
          SFor(TVar("g"), ACall(AVar("range"), <<AInt(10), AInt(40)>>),
               <<IF c.kind = "list" THEN SExpr(AMCall(AVar("xs"), "pop", <<>>))
                 ELSE IF c.kind = "set" THEN SExpr(AMCall(AVar("xs"), "remove", <<AVar("g")>>))
                 ELSE SExpr(AMCall(AVar("xs"), "pop", <<AVar("g")>>))>>)>>
    ELSE <<>>

Setup(c) ==
    <<SAssign(TVar("xs"), Container(c.kind))>> \o Prep(c) \o
    <<
SAssign(TVar("ys"), AVar("xs")),
      SAssign(TVar("box"), AList(<<AVar("xs")>>)),
      SDef("mutate", <<>>, <<Mut(c.kind, c.mut, c.via), SReturn(AInt(0))>>),
      SDef("boom", <<>>, <<SReturn(ABin("//", AInt(1), AInt(0)))>>),
      SDef("keyf", <<AParam("q", <<113>>)>>, <<SExpr(ACall(AVar("mutate"), <<>>)), SReturn(AInt(0))>>),
      SDef("first", <<>>, <<SFor(TVar("j1"), AVar("xs"), <<SReturn(AVar("j1"))>>), SReturn(ANone)>>),
      \* return from the innermost of 2 / 3 nested loops over the same local
      SDef("first2", <<AParam("v", <<118>>)>>,
           <<SFor(TVar("j1"), AVar("v"), <<SFor(TVar("j2"), AVar("v"), <<SReturn(AVar("j2"))>>)>>), SReturn(ANone)>>),
      SDef("first3", <<AParam("v", <<118>>)>>,
           <<SFor(TVar("j1"), AVar("v"),
                  <<SFor(TVar("j2"), AVar("v"), <<SFor(TVar("j3"), AVar("v"), <<SReturn(AVar("j3"))>>)>>)>>),
             SReturn(ANone)>>)>>

CallMutate == ACall(AVar("mutate"), <<>>)
CallBoom == ACall(AVar("boom"), <<>>)

(* the chunk containing the iteration *)
IterChunk(c) ==
    LET m == IF c.direct THEN Mut(c.kind, c.mut, c.via) ELSE SExpr(CallMutate) IN
    IF c.cons = "for" THEN
        (IF c.exit = "attempt" THEN <<Nest(c.depth, <<m>>, <<>>)>>
         ELSE IF c.exit = "attempt_outer" THEN <<Nest(c.depth, <<SPass>>, <<m>>)>>
         ELSE IF c.exit = "exhaust" THEN <<Nest(c.depth, <<SPass>>, <<>>), m>>
         ELSE IF c.exit = "break" THEN <<Nest(c.depth, <<SBreak>>, <<SBreak>>), m>>
         ELSE IF c.exit = "return" THEN
             <<SExpr(IF c.depth = 1 THEN ACall(AVar("first"), <<>>)
                     ELSE IF c.depth = 2 THEN ACall(AVar("first2"), <<AVar("xs")>>)
                     ELSE ACall(AVar("first3"), <<AVar("xs")>>)), m>>
         ELSE <<Nest(c.depth, <<Boom>>, <<>>)>>)
    ELSE IF c.cons = "compr" THEN
        (LET cl == IF c.depth = 1 THEN <<AFor(TVar("c1"), AVar("xs"))>>
                   ELSE <<AFor(TVar("c1"), AVar("xs")), AFor(TVar("c2"), AVar("xs"))>> IN
         IF c.exit = "attempt" THEN <<SExpr(ACompr(CallMutate, cl))>>
         ELSE IF c.exit = "exhaust" THEN <<SExpr(ACompr(AVar("c1"), cl)), m>>
         ELSE <<SExpr(ACompr(CallBoom, cl))>>)
    ELSE IF c.cons = "dictcompr" THEN
        (LET cl == <<AFor(TVar("c1"), AVar("xs"))>> IN
         IF c.exit = "attempt" THEN <<SExpr(ADictCompr(AVar("c1"), CallMutate, cl))>>
         ELSE IF c.exit = "exhaust" THEN <<SExpr(ADictCompr(AVar("c1"), AInt(0), cl)), m>>
         ELSE <<SExpr(ADictCompr(AVar("c1"), CallBoom, cl))>>)
    ELSE IF c.cons = "sortedkey" THEN
        <<SExpr(ACallN(AVar("sorted"), <<AVar("xs")>>, <<ANamed("key", <<107, 101, 121>>, AVar("keyf"))>>))>>
    ELSE IF c.cons = "minkey" THEN
        <<SExpr(ACallN(AVar("min"), <<AVar("xs")>>, <<ANamed("key", <<107, 101, 121>>, AVar("keyf"))>>))>>
    ELSE IF c.cons = "mapf" THEN <<SExpr(ACall(AVar("map"), <<AVar("keyf"), AVar("xs")>>))>>
    ELSE IF c.cons = "filterf" THEN <<SExpr(ACall(AVar("filter"), <<AVar("keyf"), AVar("xs")>>))>>
    ELSE \* selfextend: the container consumed by a builtin that mutates the same container
        (IF c.kind = "list" THEN <<SExpr(AMCall(Path(c.via), "extend", <<AVar("xs")>>))>>
         ELSE <<SExpr(AMCall(Path(c.via), "update", <<AVar("xs")>>))>>)

Probe == <<SEmit(AVar("xs")), SEmit(ACall(AVar("len"), <<AVar("box")>>))>>

Session(c) == <<Setup(c), IterChunk(c), Probe, <<Mut(c.kind, c.mut, c.via)>>, Probe>>

Valid(c) ==
    /\ c.mut \in MutsOf(c.kind)
    /\ (c.cons = "for" => TRUE)
    /\ (c.cons # "for" => c.direct = FALSE)
    /\ (c.cons = "compr" => c.exit \in {"attempt", "exhaust", "error"} /\ c.depth <= 2)
    /\ (c.cons = "dictcompr" => c.exit \in {"attempt", "exhaust", "error"} /\ c.depth = 1)
    /\ (c.cons \in {"sortedkey", "minkey", "mapf", "filterf", "selfextend"} => c.exit = "attempt" /\ c.depth = 1)
    /\ (c.cons = "selfextend" => c.mut \in {"extend", "update", "supdate"})
    /\ (c.kind = "set" => c.cons # "dictcompr" \/ TRUE)
    /\ (c.exit = "attempt_outer" => c.depth >= 2)
    /\ (c.direct => c.exit \in {"attempt", "attempt_outer"})
    \* an emptied container is iterated to exhaustion (zero rounds); afterwards it must be mutable;
    \* a grown one goes through the single-loop cases
    /\ (c.prep = "emptied" => c.via = "name" /\ ((c.cons \in {"for", "compr", "dictcompr"} /\ c.exit = "exhaust")
                                                  \/ c.cons \in {"sortedkey", "mapf", "filterf"}))
    /\ (c.prep = "grown" => c.via = "name" /\ c.depth = 1 /\ c.cons \in {"for", "compr", "sortedkey", "mapf"})

CONSTANT MaxDepth
Cases == {c \in [kind : Kinds, cons : Conses, mut : MutsOf("list") \cup MutsOf("dict") \cup MutsOf("set"), via : Vias,
                 exit : Exits, depth : 1..MaxDepth, direct : BOOLEAN, prep : Preps] : Valid(c)}

Expected(c) == RunSession(Session(c), 50, TRUE)

(* ------------------------------------------------------------------ the protocol machine *)
VARIABLES case, evs, i, lock, exp

vars == <<case, evs, i, lock, exp>>

Init == /\ case \in Cases
        /\ LET r == Expected(case) IN
           /\ evs = SelectSeq(r.m.ev, LAMBDA e : e.e \in {"iter_start", "iter_stop", "chunk_end"})
           /\ exp = [j \in 1..Len(r.res) |-> [out |-> r.res[j].out, kind |-> r.res[j].err.kind]]
        /\ i = 1
        /\ lock = [a \in {} |-> 0]

Cnt(a) == IF a \in DOMAIN lock THEN lock[a] ELSE 0
IterStart == /\ i <= Len(evs) /\ evs[i].e = "iter_start"
             /\ lock' = [a \in DOMAIN lock \cup {evs[i].a} |-> IF a = evs[i].a THEN Cnt(a) + 1 ELSE Cnt(a)]
             /\ i' = i + 1 /\ UNCHANGED <<case, evs, exp>>
IterStop == /\ i <= Len(evs) /\ evs[i].e = "iter_stop"
            /\ lock' = [a \in DOMAIN lock \cup {evs[i].a} |-> IF a = evs[i].a THEN Cnt(a) - 1 ELSE Cnt(a)]
            /\ i' = i + 1 /\ UNCHANGED <<case, evs, exp>>
ChunkEnd == /\ i <= Len(evs) /\ evs[i].e = "chunk_end"
            /\ i' = i + 1 /\ UNCHANGED <<case, evs, lock, exp>>
Next == IterStart \/ IterStop \/ ChunkEnd
Spec == Init /\ [][Next]_vars

NonNegative == \A a \in DOMAIN lock : lock[a] >= 0
(* control is back at the host: every lock released, whatever the exit was *)
LocksBalanced == (i > 1 /\ evs[i - 1].e = "chunk_end") => \A a \in DOMAIN lock : lock[a] = 0
(* the property's visible half, on the specification itself: whenever the mutation is attempted
   under a lock the chunk fails with iter_mutation and the probe shows the container intact;
   after every exit the mutation (chunk 4) succeeds *)
MutableAgain == exp[4].kind \notin {"iter_mutation", "immutable"}
EI(v) == [t |-> "int", v |-> v]
OrigEnc(kind) == IF kind = "list" THEN [t |-> "list", v |-> <<EI(1), EI(2), EI(3)>>]
                 ELSE IF kind = "set" THEN [t |-> "set", v |-> <<EI(1), EI(2), EI(3)>>]
                 ELSE [t |-> "dict", k |-> <<[t |-> "str", s |-> K_a], [t |-> "str", s |-> K_b], [t |-> "str", s |-> K_c]>>,
                                     v |-> <<EI(1), EI(2), EI(3)>>]
Intact == (exp[2].kind = "iter_mutation" /\ case.prep # "emptied") => exp[3].out[1] = OrigEnc(case.kind)

PrintCase == (i = 1) => PrintT(<<"CASE", ToJson([class |-> case, chunks |-> Session(case), exp |-> exp])>>)
=============================================================================

------------------------ MODULE Trace_HeapRefs ------------------------
(* V for C13: the harness replays histories on the real heaps and logs, per step, the step itself,
   the arenas whose memory was released during it (`heap_free` hook events, mapped to arena
   numbers) and the real keep-alive graph (FrozenHeapRef::refs(), walked from every alive holder).
   The log is accepted iff it is a behaviour of HeapRefs in which
     - every released arena was releasable in the specification: alive and not reachable through
       refs* from any alive holder (releasing *late* is never an error), and released once;
     - everything an alive frozen holder's values point into is inside the closure of the *real*
       refs graph from that holder's own heap (the edges the specification requires exist).
   Each event takes two TLC steps (phase 0: the action; phase 1: releases and edges). *)
EXTENDS HeapRefs, Json, IOUtils

VARIABLES l, ph
tvars == <<vars, l, ph>>

Rec == ndJsonDeserialize(IOEnv.TRACE)
Ev == Rec[l]
SetOf(x) == {x[j] : j \in 1..Len(x)}

Act ==
    LET a == Ev.a IN
    CASE a = "new_module" -> (NewModule(Ev.f) /\ last'.k = Ev.k)
      [] a = "eval_load" -> (EvalLoad(Ev.k, Ev.f, Ev.i, Ev.how, Ev.c))
      [] a = "import_public" -> (ImportPublic(Ev.k, Ev.f, Ev.i, Ev.how))
      [] a = "freeze" -> (Freeze(Ev.k))
      [] a = "get_owned" -> (GetOwned(Ev.f, Ev.i) /\ last'.h = Ev.h)
      [] a = "add_to_heap" -> (AddToHeap(Ev.h, Ev.k, Ev.how, Ev.c))
      [] a = "globals_from_module" -> (GlobalsFromModule(Ev.f, Ev.i, Ev.how) /\ last'.k = Ev.k)
      [] a = "globals_from_handle" -> (GlobalsFromHandle(Ev.h, Ev.how) /\ last'.k = Ev.k)
      [] a = "rehome" -> (Rehome(Ev.h) /\ last'.k = Ev.k /\ last'.i = Ev.i)
      [] a = "use_global" -> (UseGlobal(Ev.k, Ev.how))
      [] a = "module_from_globals" -> (ModuleFromGlobals(Ev.f) /\ last'.k = Ev.k)
      [] a = "drop_open" -> (DropOpen(Ev.k))
      [] a = "drop_frozen" -> (DropFrozen(Ev.k))
      [] a = "drop_handle" -> (DropHandle(Ev.h))
      [] OTHER -> FALSE

Reset == /\ st' = [k \in Ids |-> "unused"]
         /\ kind' = [k \in Ids |-> "mod"]
         /\ alive' = [k \in Ids |-> FALSE]
         /\ hrefs' = [k \in Ids |-> {}]
         /\ frefs' = [k \in Ids |-> {}]
         /\ syms' = [k \in Ids |-> <<>>]
         /\ glob' = [k \in Ids |-> 0]
         /\ hd' = [h \in Hs |-> NoHandle]
         /\ last' = [op |-> "init", k |-> 0, f |-> 0, i |-> 0, h |-> 0, how |-> "", c |-> FALSE]

Phase0 == /\ ph = 0 /\ l <= Len(Rec)
          /\ IF Ev.a = "reset" THEN Reset ELSE Act
          /\ ph' = 1 /\ l' = l

RealSucc(k) == {e[2] : e \in {x \in SetOf(Ev.edges) : x[1] = k}}
RECURSIVE RealClosure(_)
RealClosure(S) == LET T == S \cup UNION {RealSucc(k) : k \in S} IN IF T = S THEN S ELSE RealClosure(T)

Verdict ==
    LET F == SetOf(Ev.freed) IN
    IF \E k \in F : ~alive[k] THEN "released_twice_or_never_created"
    ELSE IF F \cap Reachable # {} THEN "freed_while_reachable"
    ELSE IF \/ \E k \in Frozen : ~(FrozenPts(k) \subseteq RealClosure({k}))
            \/ \E h \in LiveH : ~(HandlePts(h) \subseteq RealClosure({hd[h].heap}))
         THEN "missing_keepalive_edge"
    ELSE ""

Phase1 == /\ ph = 1
          /\ IF Ev.a = "reset" THEN UNCHANGED vars
             ELSE /\ IF Verdict = "" THEN TRUE ELSE PrintT(<<"BAD", l, Verdict>>) /\ FALSE
                  /\ LET F == SetOf(Ev.freed) IN
                     /\ alive' = [k \in Ids |-> alive[k] /\ k \notin F]
                     /\ frefs' = [k \in Ids |-> IF k \in F THEN {} ELSE frefs[k]]
                     /\ syms' = [k \in Ids |-> IF k \in F THEN <<>> ELSE syms[k]]
                  /\ UNCHANGED <<st, kind, hrefs, glob, hd, last>>
          /\ ph' = 0 /\ l' = l + 1

TInit == Init /\ l = 1 /\ ph = 0
TNext == Phase0 \/ Phase1
TSpec == TInit /\ [][TNext]_tvars

TInv == NoDangling /\ PointersCovered

Accepted ==
    LET d == TLCGet("stats").diameter IN
    IF d - 1 = 2 * Len(Rec) THEN TRUE
    ELSE /\ PrintT(<<"REJECTED", ((d - 1) \div 2) + 1, (d - 1) % 2, ToJson(Rec[((d - 1) \div 2) + 1])>>)
         /\ FALSE
=======================================================================

-------------------------------- MODULE Sem --------------------------------
(* A definitional (big-step) interpreter for the Starlark core, as mutually recursive operators
   over a JSON-shaped AST.  TLC is the evaluator.  This is the reference semantics against which
   the real evaluator is compared (C01, C02, C03, C07, C12, C14, C15, C18 all use it).

   The machine record `m` threads: heap (object store), out (transcript of emit(x): structural
   encodings taken at the moment of emission), err ([kind, line]; kind = "" means no error),
   ev (event list, consumed by the protocol machines IterLock / Limits / Dap), depth (call depth),
   cap (maximal call depth), tr (record events?).

   AST (every node has k and line):
     expressions  int(v) str(s: code points) none bool(b) var(n) tuple(items) list(items)
                  dict(keys, vals) not(e) neg(e) pos(e) inv(e) and(l,r) or(l,r) if(c,t,f)
                  bin(op,l,r) index(e,i) slice(e,lo,hi,st) lambda(params,body)
                  compr(elt,clauses) dictcompr(key,val,clauses) call(f,args,named,star,starstar)
                  mcall(obj,name,args,named) dot(e,name,ncp) fstr(lits,names) ; optional parts are
                  [k|->"absent"].  fstr: lits has one more element than names: lit0 {n1} lit1 ... 
     clauses      for(tg,it) cif(c)
     statements   expr(e) assign(tg,e) aug(op,tg,e) if(c,then,else) for(tg,it,body) break continue
                  pass return(e) def(name,params,body)
     targets      var(n) tuple(items) index(e,i)
     params       [n, kind \in {"normal","args","kwonly","kwargs"}, d (default expr or absent)] and optionally ty (a type);
                  def optionally has ret (a type).  Types (run-time checked annotations of the typing dialect):
                  tname(n \in int str bool None list dict tuple any callable iterable)  tlist(a)  tdict(a,b)
                  ttupleof(a) (= tuple[a, ...])  tunion(items)

   Error kinds are abstract: div0 index key type unbound arity immutable iter_mutation fail depth
   not_hashable value attr format; "spec_domain" marks a program that left the domain in which this
   specification is defined (integer magnitude, repr of exotic values): such a case is discarded,
   never judged. *)
EXTENDS StrOps, SequencesExt

Ok(m) == m.err.kind = ""
Raise(m, kind, line) == IF Ok(m) THEN [m EXCEPT !.err = [kind |-> kind, line |-> line]] ELSE m
R(m, v) == [m |-> m, v |-> v]
Ev(m, e) == IF m.tr THEN [m EXCEPT !.ev = Append(@, e)] ELSE m
(* one unit of forward progress (a call instruction or the end of a loop iteration).  `tkfail` is
   the tick at which the periodic check fires and fails (0: never) -- see Limits.tla *)
Tick(m, line) ==
    IF ~Ok(m) THEN m
    ELSE LET m1 == [m EXCEPT !.tk = @ + 1] IN
         IF m1.tk = m.tkfail THEN Raise(m1, m.tkkind, line) ELSE m1
Alloc(m, o) == [m |-> [m EXCEPT !.heap = Append(@, o)], a |-> Len(m.heap) + 1]
NewList(m, items) ==
    LET x == Alloc(m, [kind |-> "list", items |-> items, locks |-> 0, frozen |-> FALSE])
    IN R(x.m, RefV(x.a))
NewSet(m, items) ==
    LET x == Alloc(m, [kind |-> "set", items |-> items, locks |-> 0, frozen |-> FALSE])
    IN R(x.m, RefV(x.a))
(* first occurrences, in order *)
RECURSIVE Dedup(_, _, _, _)
Dedup(items, i, acc, h) ==
    IF i > Len(items) THEN acc
    ELSE IF DictFindIn(acc, items[i], h) # 0 THEN Dedup(items, i + 1, acc, h)
    ELSE Dedup(items, i + 1, Append(acc, items[i]), h)
NewDict(m, keys, vals) ==
    LET x == Alloc(m, [kind |-> "dict", keys |-> keys, vals |-> vals, locks |-> 0, frozen |-> FALSE])
    IN R(x.m, RefV(x.a))
Absent(x) == x.k = "absent"
IntOk(i) == i > -Limit /\ i < Limit
RInt(m, i, line) == IF IntOk(i) THEN R(m, IntV(i)) ELSE R(Raise(m, "spec_domain", line), NoneV)

Builtins == {"set", "len", "range", "list", "tuple", "bool", "int", "str", "repr", "type", "sorted",
             "reversed", "enumerate", "zip", "min", "max", "any", "all", "abs", "fail", "emit", "dict",
             "struct", "chr", "ord", "getattr", "hasattr", "map", "filter", "partial", "record", "enum", "field"}

(* ------------------------------------------------------------------ names and frames *)
NameIdx(names, n) == IF \E i \in 1..Len(names) : names[i] = n
                     THEN CHOOSE i \in 1..Len(names) : names[i] = n ELSE 0
RECURSIVE LookupEnv(_, _, _, _)
LookupEnv(n, env, i, h) ==
    IF i > Len(env) THEN [found |-> FALSE, a |-> 0, k |-> 0]
    ELSE LET k == NameIdx(h[env[i]].names, n) IN
         IF k # 0 THEN [found |-> TRUE, a |-> env[i], k |-> k] ELSE LookupEnv(n, env, i + 1, h)

RECURSIVE TargetNames(_), TargetNamesSeq(_, _), AssignedS(_, _), AssignedOne(_)
TargetNamesSeq(items, i) == IF i > Len(items) THEN {} ELSE TargetNames(items[i]) \cup TargetNamesSeq(items, i + 1)
TargetNames(tg) ==
    IF tg.k = "var" THEN {tg.n}
    ELSE IF tg.k = "tuple" THEN TargetNamesSeq(tg.items, 1)
    ELSE {}
AssignedOne(s) ==
    IF s.k = "assign" \/ s.k = "aug" THEN TargetNames(s.tg)
    ELSE IF s.k = "def" THEN {s.name}
    ELSE IF s.k = "for" THEN TargetNames(s.tg) \cup AssignedS(s.body, 1)
    ELSE IF s.k = "if" THEN AssignedS(s.then, 1) \cup AssignedS(s.else, 1)
    ELSE {}
AssignedS(stmts, i) == IF i > Len(stmts) THEN {} ELSE AssignedOne(stmts[i]) \cup AssignedS(stmts, i + 1)

RECURSIVE ClauseNames(_, _)
ClauseNames(cl, i) ==
    IF i > Len(cl) THEN {}
    ELSE (IF cl[i].k = "for" THEN TargetNames(cl[i].tg) ELSE {}) \cup ClauseNames(cl, i + 1)

ParamNames(params) == [i \in 1..Len(params) |-> params[i].n]

NewFrame(m, names, vals) == Alloc(m, [kind |-> "frame", names |-> names, vals |-> vals])

SetVar(n, v, env, m, line) ==
    LET l == LookupEnv(n, env, 1, m.heap) IN
    IF ~l.found THEN Raise(m, "unbound", line)
    ELSE [m EXCEPT !.heap[l.a].vals[l.k] = v]

(* ------------------------------------------------------------------ mutation guards *)
CanMutate(m, a, line) ==
    IF m.heap[a].frozen THEN Raise(m, "immutable", line)
    ELSE IF m.heap[a].locks > 0 THEN Raise(m, "iter_mutation", line)
    ELSE m
Lock(m, a) == IF a = 0 THEN m
              ELSE Ev([m EXCEPT !.heap[a].locks = @ + 1], [e |-> "iter_start", a |-> a, why |-> ""])
Unlock(m, a, why) == IF a = 0 THEN m
                     ELSE Ev([m EXCEPT !.heap[a].locks = @ - 1], [e |-> "iter_stop", a |-> a, why |-> why])

(* what iterating a value yields: [ok, items, a] ; a = address to lock (0: none) *)
IterOf(v, h) ==
    IF v.t = "tuple" THEN [ok |-> TRUE, items |-> v.v, a |-> 0]
    ELSE IF v.t = "range" THEN [ok |-> TRUE, items |-> RangeItems(v), a |-> 0]
    ELSE IF IsList(v, h) THEN [ok |-> TRUE, items |-> h[v.a].items, a |-> v.a]
    ELSE IF IsDict(v, h) THEN [ok |-> TRUE, items |-> h[v.a].keys, a |-> v.a]
    ELSE IF IsSet(v, h) THEN [ok |-> TRUE, items |-> h[v.a].items, a |-> v.a]
    ELSE IF IsEType(v, h) THEN [ok |-> TRUE, items |-> [i \in 1..Len(h[v.a].vals) |-> [t |-> "ev", ty |-> v.a, i |-> i]], a |-> 0]
    ELSE [ok |-> FALSE, items |-> <<>>, a |-> 0]

(* ------------------------------------------------------------------ dict helpers *)
DictSet(m, a, k, v, line) ==
    IF ~Hashable(k, m.heap) THEN Raise(m, "not_hashable", line)
    ELSE LET m1 == CanMutate(m, a, line) IN
         IF ~Ok(m1) THEN m1
         ELSE LET d == m.heap[a] j == DictFindIn(d.keys, k, m.heap) IN
              IF j # 0 THEN [m EXCEPT !.heap[a].vals[j] = v]
              ELSE [m EXCEPT !.heap[a].keys = Append(@, k), !.heap[a].vals = Append(d.vals, v)]

RECURSIVE DictFromPairs(_, _, _, _, _, _)
DictFromPairs(ks, vs, i, keys, vals, h) ==       \* later duplicates overwrite, first position kept
    IF i > Len(ks) THEN [keys |-> keys, vals |-> vals]
    ELSE LET j == DictFindIn(keys, ks[i], h) IN
         IF j # 0 THEN DictFromPairs(ks, vs, i + 1, keys, [vals EXCEPT ![j] = vs[i]], h)
         ELSE DictFromPairs(ks, vs, i + 1, Append(keys, ks[i]), Append(vals, vs[i]), h)

RemoveIdx(s, i) == SubSeq(s, 1, i - 1) \o SubSeq(s, i + 1, Len(s))
InsertIdx(s, i, x) == SubSeq(s, 1, i - 1) \o <<x>> \o SubSeq(s, i, Len(s))   \* x becomes s'[i]

(* ------------------------------------------------------------------ binary operators *)
(* sets keep insertion order: | appends the new elements of r; & and - keep l's order; ^ is
   (l - r) followed by (r - l) *)
SetOp(op, xs, ys, h) ==
    LET inY(x) == DictFindIn(ys, x, h) # 0
        inX(y) == DictFindIn(xs, y, h) # 0
    IN IF op = "|" THEN xs \o SelectSeq(ys, LAMBDA y : ~inX(y))
       ELSE IF op = "&" THEN SelectSeq(xs, inY)
       ELSE IF op = "-" THEN SelectSeq(xs, LAMBDA x : ~inY(x))
       ELSE SelectSeq(xs, LAMBDA x : ~inY(x)) \o SelectSeq(ys, LAMBDA y : ~inX(y))
RepeatSeq(s, n) == IF n <= 0 THEN <<>> ELSE [i \in 1..(n * Len(s)) |-> s[((i - 1) % Len(s)) + 1]]

In(x, c, m, line) ==       \* x in c
    LET h == m.heap IN
    IF c.t = "tuple" THEN R(m, BoolV(SeqFind(c.v, x, h) # 0))
    ELSE IF IsList(c, h) THEN R(m, BoolV(SeqFind(h[c.a].items, x, h) # 0))
    ELSE IF IsDict(c, h) THEN
        (IF ~Hashable(x, h) THEN R(Raise(m, "not_hashable", line), NoneV)
         ELSE R(m, BoolV(DictFindIn(h[c.a].keys, x, h) # 0)))
    ELSE IF IsSet(c, h) THEN
        (IF ~Hashable(x, h) THEN R(Raise(m, "not_hashable", line), NoneV)
         ELSE R(m, BoolV(DictFindIn(h[c.a].items, x, h) # 0)))
    ELSE IF c.t = "str" THEN
        (IF x.t = "str" THEN R(m, BoolV(FindFrom(c.s, x.s, 0) # -1)) ELSE R(Raise(m, "type", line), NoneV))
    ELSE IF c.t = "range" THEN
        (IF x.t = "int" THEN R(m, BoolV(SeqFind(RangeItems(c), x, h) # 0))
         ELSE R(m, BoolV(FALSE)))
    ELSE R(Raise(m, "type", line), NoneV)

BinOp(op, l, r, m, line) ==
    LET h == m.heap
        TErr == R(Raise(m, "type", line), NoneV)
    IN
    IF op = "==" THEN R(m, BoolV(Eq(l, r, h)))
    ELSE IF op = "!=" THEN R(m, BoolV(~Eq(l, r, h)))
    ELSE IF op \in {"<", "<=", ">", ">="} /\ l.t = "struct" /\ r.t = "struct" THEN R(Raise(m, "spec_domain", line), NoneV)
    ELSE IF op \in {"<", "<=", ">", ">="} THEN
        (LET c == Cmp(l, r, h) IN
         IF c = "err" THEN TErr
         ELSE R(m, BoolV(IF op = "<" THEN c = "lt" ELSE IF op = "<=" THEN c # "gt"
                         ELSE IF op = ">" THEN c = "gt" ELSE c # "lt")))
    ELSE IF op = "in" THEN In(l, r, m, line)
    ELSE IF op = "notin" THEN
        (LET x == In(l, r, m, line) IN IF Ok(x.m) THEN R(x.m, BoolV(~x.v.b)) ELSE x)
    ELSE IF op = "+" THEN
        (IF l.t = "int" /\ r.t = "int" THEN RInt(m, l.v + r.v, line)
         ELSE IF l.t = "str" /\ r.t = "str" THEN R(m, StrV(l.s \o r.s))
         ELSE IF l.t = "tuple" /\ r.t = "tuple" THEN R(m, TupV(l.v \o r.v))
         ELSE IF IsList(l, h) /\ IsList(r, h) THEN NewList(m, h[l.a].items \o h[r.a].items)
         ELSE TErr)
    ELSE IF op \in {"&", "|", "^"} THEN
        (IF l.t = "int" /\ r.t = "int" THEN
            R(m, IntV(IF op = "&" THEN BitAnd(l.v, r.v) ELSE IF op = "|" THEN BitOr(l.v, r.v) ELSE BitXor(l.v, r.v)))
         ELSE IF IsSet(l, h) /\ IsSet(r, h) THEN NewSet(m, SetOp(op, h[l.a].items, h[r.a].items, h))
         ELSE IF op = "|" /\ IsDict(l, h) /\ IsDict(r, h) THEN
            (LET d == DictFromPairs(h[r.a].keys, h[r.a].vals, 1, h[l.a].keys, h[l.a].vals, h) IN NewDict(m, d.keys, d.vals))
         ELSE IF l.t = "bool" \/ r.t = "bool" THEN R(Raise(m, "spec_domain", line), NoneV)
         \* `A | B` on None and on type-like callables builds a type of the typing dialect
         ELSE IF op = "|" /\ (l.t \in {"none", "bi"} \/ r.t \in {"none", "bi"}) THEN R(Raise(m, "spec_domain", line), NoneV)
         ELSE TErr)
    ELSE IF op = "<<" \/ op = ">>" THEN
        (IF l.t # "int" \/ r.t # "int" THEN (IF l.t = "bool" \/ r.t = "bool" THEN R(Raise(m, "spec_domain", line), NoneV) ELSE TErr)
         ELSE IF r.v < 0 THEN R(Raise(m, "value", line), NoneV)
         ELSE IF op = ">>" THEN R(m, IntV(IF r.v >= 31 THEN (IF l.v < 0 THEN -1 ELSE 0) ELSE FloorDiv(l.v, Pow2(r.v))))
         ELSE IF l.v = 0 THEN R(m, IntV(0))
         ELSE IF r.v > 29 \/ Abs(l.v) >= Pow2(30 - r.v) THEN R(Raise(m, "spec_domain", line), NoneV)
         ELSE R(m, IntV(l.v * Pow2(r.v))))
    ELSE IF op = "-" THEN
        (IF l.t = "int" /\ r.t = "int" THEN RInt(m, l.v - r.v, line)
         ELSE IF IsSet(l, h) /\ IsSet(r, h) THEN NewSet(m, SetOp("-", h[l.a].items, h[r.a].items, h))
         ELSE TErr)
    ELSE IF op = "*" THEN
        (IF l.t = "int" /\ r.t = "int" THEN
            (IF Abs(l.v) < 32768 /\ Abs(r.v) < 32768 THEN RInt(m, l.v * r.v, line)
             ELSE R(Raise(m, "spec_domain", line), NoneV))
         ELSE IF l.t = "str" /\ r.t = "int" THEN
            (IF r.v > 64 THEN R(Raise(m, "spec_domain", line), NoneV) ELSE R(m, StrV(RepeatSeq(l.s, r.v))))
         ELSE IF l.t = "int" /\ r.t = "str" THEN
            (IF l.v > 64 THEN R(Raise(m, "spec_domain", line), NoneV) ELSE R(m, StrV(RepeatSeq(r.s, l.v))))
         ELSE IF l.t = "tuple" /\ r.t = "int" THEN
            (IF r.v > 64 THEN R(Raise(m, "spec_domain", line), NoneV) ELSE R(m, TupV(RepeatSeq(l.v, r.v))))
         ELSE IF l.t = "int" /\ r.t = "tuple" THEN
            (IF l.v > 64 THEN R(Raise(m, "spec_domain", line), NoneV) ELSE R(m, TupV(RepeatSeq(r.v, l.v))))
         ELSE IF IsList(l, h) /\ r.t = "int" THEN
            (IF r.v > 64 THEN R(Raise(m, "spec_domain", line), NoneV) ELSE NewList(m, RepeatSeq(h[l.a].items, r.v)))
         ELSE IF l.t = "int" /\ IsList(r, h) THEN
            (IF l.v > 64 THEN R(Raise(m, "spec_domain", line), NoneV) ELSE NewList(m, RepeatSeq(h[r.a].items, l.v)))
         ELSE TErr)
    ELSE IF op = "//" THEN
        (IF l.t = "int" /\ r.t = "int" THEN
            (IF r.v = 0 THEN R(Raise(m, "div0", line), NoneV) ELSE R(m, IntV(FloorDiv(l.v, r.v))))
         ELSE TErr)
    ELSE IF op = "%" THEN
        (IF l.t = "int" /\ r.t = "int" THEN
            (IF r.v = 0 THEN R(Raise(m, "div0", line), NoneV) ELSE R(m, IntV(FloorMod(l.v, r.v))))
         ELSE IF l.t = "str" THEN
            (LET f == Percent(l.s, r, h) IN
             IF f.kind = "" THEN R(m, StrV(f.s)) ELSE R(Raise(m, f.kind, line), NoneV))
         ELSE TErr)
    ELSE TErr

(* ------------------------------------------------------------------ indexing and slicing *)
SeqIndex(s, i, m, line) ==        \* i: IntV
    LET n == Len(s) j == IF i < 0 THEN i + n ELSE i IN
    IF j < 0 \/ j >= n THEN [ok |-> FALSE, p |-> 0] ELSE [ok |-> TRUE, p |-> j + 1]

Index(c, i, m, line) ==
    LET h == m.heap IN
    IF IsDict(c, h) THEN
        (IF ~Hashable(i, h) THEN R(Raise(m, "not_hashable", line), NoneV)
         ELSE LET j == DictFindIn(h[c.a].keys, i, h) IN
              IF j = 0 THEN R(Raise(m, "key", line), NoneV) ELSE R(m, h[c.a].vals[j]))
    ELSE IF IsEType(c, h) THEN
        (IF i.t # "int" THEN R(Raise(m, "type", line), NoneV)
         ELSE LET x == SeqIndex(h[c.a].vals, i.v, m, line) IN
              IF ~x.ok THEN R(Raise(m, "index", line), NoneV) ELSE R(m, [t |-> "ev", ty |-> c.a, i |-> x.p]))
    ELSE IF c.t \in {"tuple", "str", "range"} \/ IsList(c, h) THEN
        (IF i.t # "int" THEN R(Raise(m, "type", line), NoneV)
         ELSE LET s == IF c.t = "tuple" THEN c.v ELSE IF c.t = "str" THEN c.s
                       ELSE IF c.t = "range" THEN RangeItems(c) ELSE h[c.a].items
                  x == SeqIndex(s, i.v, m, line) IN
              IF ~x.ok THEN R(Raise(m, "index", line), NoneV)
              ELSE IF c.t = "str" THEN R(m, StrV(<<s[x.p]>>)) ELSE R(m, s[x.p]))
    ELSE R(Raise(m, "type", line), NoneV)

OptInt(v) == IF v.t = "int" THEN Opt(TRUE, v.v) ELSE Opt(FALSE, 0)
Slice(c, lo, hi, st, m, line) ==      \* lo/hi/st are values (NoneV when absent)
    LET h == m.heap IN
    IF ~(c.t \in {"tuple", "str", "range"} \/ IsList(c, h)) THEN R(Raise(m, "type", line), NoneV)
    \* the step is looked at first (its type, then zero: an error that the implementation words as a bad
    \* index), the bounds after it -- which matters only for which of two errors is reported
    ELSE IF st.t \notin {"int", "none"} THEN R(Raise(m, "type", line), NoneV)
    ELSE IF st.t = "int" /\ st.v = 0 THEN R(Raise(m, "index", line), NoneV)
    ELSE IF ~(\A x \in {lo, hi} : x.t \in {"int", "none"}) THEN R(Raise(m, "type", line), NoneV)
    ELSE IF c.t = "tuple" THEN
        (LET ps == SlicePositions(Len(c.v), OptInt(lo), OptInt(hi), OptInt(st))
         IN R(m, TupV([i \in 1..Len(ps) |-> c.v[ps[i]]])))
    ELSE IF c.t = "str" THEN
        (LET ps == SlicePositions(Len(c.s), OptInt(lo), OptInt(hi), OptInt(st))
         IN R(m, StrV([i \in 1..Len(ps) |-> c.s[ps[i]]])))
    ELSE IF IsList(c, h) THEN
        (LET s == h[c.a].items ps == SlicePositions(Len(s), OptInt(lo), OptInt(hi), OptInt(st))
         IN NewList(m, [i \in 1..Len(ps) |-> s[ps[i]]]))
    ELSE IF c.t = "range" THEN R(Raise(m, "spec_domain", line), NoneV)
    ELSE R(Raise(m, "type", line), NoneV)

(* ------------------------------------------------------------------ argument binding
   positional -> normal params in order, overflow to *args; named -> normal/kwonly by name,
   otherwise **kwargs; then defaults; anything left unbound is an error. *)
RECURSIVE BindNamed(_, _, _, _, _, _)
BindNamed(params, named, i, vals, kwk, kwv) ==
    IF i > Len(named) THEN [ok |-> TRUE, vals |-> vals, kwk |-> kwk, kwv |-> kwv]
    ELSE LET n == named[i][1] v == named[i][2]
             cand == {j \in 1..Len(params) : params[j].ncp = n /\ params[j].kind \in {"normal", "kwonly"}}
         IN IF cand # {} THEN
                (LET j == CHOOSE j \in cand : TRUE IN
                 IF vals[j].t # "unbound" THEN [ok |-> FALSE, vals |-> vals, kwk |-> kwk, kwv |-> kwv]
                 ELSE BindNamed(params, named, i + 1, [vals EXCEPT ![j] = v], kwk, kwv))
            ELSE IF \E j \in 1..Len(params) : params[j].kind = "kwargs" THEN
                (IF \E q \in 1..Len(kwk) : kwk[q] = n THEN [ok |-> FALSE, vals |-> vals, kwk |-> kwk, kwv |-> kwv]
                 ELSE BindNamed(params, named, i + 1, vals, Append(kwk, n), Append(kwv, v)))
            ELSE [ok |-> FALSE, vals |-> vals, kwk |-> kwk, kwv |-> kwv]

Bind(params, defaults, pos, named, m) ==
    LET np == Len(params)
        normals == SelectSeq([j \in 1..np |-> j], LAMBDA j : params[j].kind = "normal")
        nn == Len(normals)
        hasArgs == \E j \in 1..np : params[j].kind = "args"
        v0 == [j \in 1..np |->
                 IF \E q \in 1..Min2(nn, Len(pos)) : normals[q] = j
                 THEN pos[CHOOSE q \in 1..Min2(nn, Len(pos)) : normals[q] = j]
                 ELSE UnboundV]
        extra == IF Len(pos) > nn THEN SubSeq(pos, nn + 1, Len(pos)) ELSE <<>>
    IN IF Len(extra) > 0 /\ ~hasArgs THEN [ok |-> FALSE, vals |-> <<>>, m |-> m]
       ELSE LET b == BindNamed(params, named, 1, v0, <<>>, <<>>) IN
            IF ~b.ok THEN [ok |-> FALSE, vals |-> <<>>, m |-> m]
            ELSE LET kw == NewDict(m, [q \in 1..Len(b.kwk) |-> StrV(b.kwk[q])], b.kwv)
                     hasKw == \E j \in 1..np : params[j].kind = "kwargs"
                     m1 == IF hasKw THEN kw.m ELSE m
                     v1 == [j \in 1..np |->
                              IF params[j].kind = "args" THEN TupV(extra)
                              ELSE IF params[j].kind = "kwargs" THEN kw.v
                              ELSE IF b.vals[j].t # "unbound" THEN b.vals[j]
                              ELSE defaults[j]]
                 IN IF \E j \in 1..np : v1[j].t = "unbound" THEN [ok |-> FALSE, vals |-> <<>>, m |-> m]
                    ELSE [ok |-> TRUE, vals |-> v1, m |-> m1]

(* argument names travel as code point sequences (`ncp` in the AST, next to the string `n`), so
   that the keys of a ** mapping and of **kwargs are ordinary strings of the language. *)

(* ------------------------------------------------------------------ attributes
   x.name without a call: a field of a struct, or a method of x bound to x *)
ListMethods == {"append", "extend", "insert", "pop", "remove", "clear", "index"}
DictMethods == {"get", "keys", "values", "items", "pop", "popitem", "setdefault", "update", "clear"}
SetMethods == {"add", "remove", "discard", "pop", "clear", "update", "union", "intersection", "difference",
               "symmetric_difference", "issubset", "issuperset"}
StrMethods == {"upper", "lower", "strip", "lstrip", "rstrip", "startswith", "endswith", "find", "rfind", "index",
               "rindex", "count", "replace", "split", "rsplit", "join", "capitalize", "title", "isalnum", "isalpha",
               "isdigit", "isspace", "islower", "isupper", "istitle", "partition", "rpartition", "splitlines",
               "removeprefix", "removesuffix", "format", "elems", "codepoints"}
MethodNames == <<"add", "append", "capitalize", "clear", "codepoints", "count", "difference", "discard", "elems", "endswith", "extend", "find", "format", "get", "index", "insert", "intersection", "isalnum", "isalpha", "isdigit", "islower", "isspace", "issubset", "issuperset", "istitle", "isupper", "items", "join", "keys", "lower", "lstrip", "partition", "pop", "popitem", "remove", "removeprefix", "removesuffix", "replace", "rfind", "rindex", "rpartition", "rsplit", "rstrip", "setdefault", "split", "splitlines", "startswith", "strip", "symmetric_difference", "title", "union", "update", "upper", "values">>
MethodCPs == <<<<97, 100, 100>>,
    <<97, 112, 112, 101, 110, 100>>,
    <<99, 97, 112, 105, 116, 97, 108, 105, 122, 101>>,
    <<99, 108, 101, 97, 114>>,
    <<99, 111, 100, 101, 112, 111, 105, 110, 116, 115>>,
    <<99, 111, 117, 110, 116>>,
    <<100, 105, 102, 102, 101, 114, 101, 110, 99, 101>>,
    <<100, 105, 115, 99, 97, 114, 100>>,
    <<101, 108, 101, 109, 115>>,
    <<101, 110, 100, 115, 119, 105, 116, 104>>,
    <<101, 120, 116, 101, 110, 100>>,
    <<102, 105, 110, 100>>,
    <<102, 111, 114, 109, 97, 116>>,
    <<103, 101, 116>>,
    <<105, 110, 100, 101, 120>>,
    <<105, 110, 115, 101, 114, 116>>,
    <<105, 110, 116, 101, 114, 115, 101, 99, 116, 105, 111, 110>>,
    <<105, 115, 97, 108, 110, 117, 109>>,
    <<105, 115, 97, 108, 112, 104, 97>>,
    <<105, 115, 100, 105, 103, 105, 116>>,
    <<105, 115, 108, 111, 119, 101, 114>>,
    <<105, 115, 115, 112, 97, 99, 101>>,
    <<105, 115, 115, 117, 98, 115, 101, 116>>,
    <<105, 115, 115, 117, 112, 101, 114, 115, 101, 116>>,
    <<105, 115, 116, 105, 116, 108, 101>>,
    <<105, 115, 117, 112, 112, 101, 114>>,
    <<105, 116, 101, 109, 115>>,
    <<106, 111, 105, 110>>,
    <<107, 101, 121, 115>>,
    <<108, 111, 119, 101, 114>>,
    <<108, 115, 116, 114, 105, 112>>,
    <<112, 97, 114, 116, 105, 116, 105, 111, 110>>,
    <<112, 111, 112>>,
    <<112, 111, 112, 105, 116, 101, 109>>,
    <<114, 101, 109, 111, 118, 101>>,
    <<114, 101, 109, 111, 118, 101, 112, 114, 101, 102, 105, 120>>,
    <<114, 101, 109, 111, 118, 101, 115, 117, 102, 102, 105, 120>>,
    <<114, 101, 112, 108, 97, 99, 101>>,
    <<114, 102, 105, 110, 100>>,
    <<114, 105, 110, 100, 101, 120>>,
    <<114, 112, 97, 114, 116, 105, 116, 105, 111, 110>>,
    <<114, 115, 112, 108, 105, 116>>,
    <<114, 115, 116, 114, 105, 112>>,
    <<115, 101, 116, 100, 101, 102, 97, 117, 108, 116>>,
    <<115, 112, 108, 105, 116>>,
    <<115, 112, 108, 105, 116, 108, 105, 110, 101, 115>>,
    <<115, 116, 97, 114, 116, 115, 119, 105, 116, 104>>,
    <<115, 116, 114, 105, 112>>,
    <<115, 121, 109, 109, 101, 116, 114, 105, 99, 95, 100, 105, 102, 102, 101, 114, 101, 110, 99, 101>>,
    <<116, 105, 116, 108, 101>>,
    <<117, 110, 105, 111, 110>>,
    <<117, 112, 100, 97, 116, 101>>,
    <<117, 112, 112, 101, 114>>,
    <<118, 97, 108, 117, 101, 115>>>>
(* a method name given as a string value of the language -> the name as this specification writes it ("" if none) *)
NameOfCP(c) == IF \E i \in 1..Len(MethodCPs) : MethodCPs[i] = c
               THEN MethodNames[CHOOSE i \in 1..Len(MethodCPs) : MethodCPs[i] = c] ELSE ""
HasMethod(v, name, h) ==
    IF IsList(v, h) THEN name \in ListMethods
    ELSE IF IsDict(v, h) THEN name \in DictMethods
    ELSE IF IsSet(v, h) THEN name \in SetMethods
    ELSE IF v.t = "str" THEN name \in StrMethods
    ELSE FALSE
N_value == <<118, 97, 108, 117, 101>>
N_index == <<105, 110, 100, 101, 120>>
N_type == <<116, 121, 112, 101>>
N_values == <<118, 97, 108, 117, 101, 115>>
GetAttr(v, name, ncp, m, line) ==
    IF v.t = "struct" THEN
        (LET j == FieldIdx(v.ks, ncp) IN IF j # 0 THEN R(m, v.vs[j]) ELSE R(Raise(m, "attr", line), NoneV))
    ELSE IF v.t = "rec" THEN
        (LET fs == m.heap[v.ty].fields
             c == {j \in 1..Len(fs) : fs[j].n = ncp} IN
         IF c = {} THEN R(Raise(m, "attr", line), NoneV) ELSE R(m, v.vs[CHOOSE j \in c : TRUE]))
    ELSE IF v.t = "ev" THEN
        (IF ncp = N_value THEN R(m, m.heap[v.ty].vals[v.i])
         ELSE IF ncp = N_index THEN R(m, IntV(v.i - 1))
         ELSE R(Raise(m, "attr", line), NoneV))
    ELSE IF IsEType(v, m.heap) \/ IsRType(v, m.heap) THEN
        \* .type is the name the type got when first bound to a module-level variable; an enum type also
        \* offers .values() and each of its values under the value's own spelling (E.x); other attributes
        \* of type objects are not specified here
        (LET o == m.heap[v.a] IN
         IF ncp = N_type THEN (IF Len(o.name) = 0 THEN R(Raise(m, "spec_domain", line), NoneV) ELSE R(m, StrV(o.name)))
         ELSE IF o.kind = "etype" /\ ncp = N_values THEN R(m, BmV("values", v))
         ELSE IF o.kind = "etype" /\ \E i \in 1..Len(o.vals) : o.vals[i] = StrV(ncp)
              THEN R(m, [t |-> "ev", ty |-> v.a, i |-> CHOOSE i \in 1..Len(o.vals) : o.vals[i] = StrV(ncp)])
         ELSE R(Raise(m, "spec_domain", line), NoneV))
    ELSE IF HasMethod(v, name, m.heap) THEN R(m, BmV(name, v))
    ELSE R(Raise(m, "attr", line), NoneV)

(* ------------------------------------------------------------------ type annotations
   does value v belong to type ty ?  (bool is not int; a string is not iterable) *)
RECURSIVE Matches(_, _, _)
Matches(ty, v, h) ==
    IF ty.k = "tname" THEN
        (IF ty.n = "any" THEN TRUE
         ELSE IF ty.n = "int" THEN v.t = "int"
         ELSE IF ty.n = "str" THEN v.t = "str"
         ELSE IF ty.n = "bool" THEN v.t = "bool"
         ELSE IF ty.n = "None" THEN v.t = "none"
         ELSE IF ty.n = "list" THEN IsList(v, h)
         ELSE IF ty.n = "dict" THEN IsDict(v, h)
         ELSE IF ty.n = "tuple" THEN v.t = "tuple"
         ELSE IF ty.n = "callable" THEN (v.t \in {"bi", "bm"} \/ IsFn(v, h))
         ELSE IF ty.n = "iterable" THEN (v.t \in {"tuple", "range"} \/ IsList(v, h) \/ IsDict(v, h) \/ IsSet(v, h))
         ELSE FALSE)
    ELSE IF ty.k = "tlist" THEN IsList(v, h) /\ \A i \in 1..Len(h[v.a].items) : Matches(ty.a, h[v.a].items[i], h)
    ELSE IF ty.k = "tdict" THEN IsDict(v, h) /\ \A i \in 1..Len(h[v.a].keys) :
                                    Matches(ty.a, h[v.a].keys[i], h) /\ Matches(ty.b, h[v.a].vals[i], h)
    ELSE IF ty.k = "ttupleof" THEN v.t = "tuple" /\ \A i \in 1..Len(v.v) : Matches(ty.a, v.v[i], h)
    ELSE IF ty.k = "tunion" THEN \E i \in 1..Len(ty.items) : Matches(ty.items[i], v, h)
    ELSE FALSE
HasTy(p) == "ty" \in DOMAIN p /\ p.ty.k # "absent"
(* the parameters (in declaration order) whose bound value does not belong to the annotation *)
BadParams(params, vals, h) == {j \in 1..Len(params) : HasTy(params[j]) /\ params[j].kind \in {"normal", "kwonly"} /\ ~Matches(params[j].ty, vals[j], h)}

(* ------------------------------------------------------------------ the interpreter *)
RECURSIVE E(_, _, _), EvalSeq(_, _, _, _, _), X(_, _, _), ExecB(_, _, _, _), CallV(_, _, _, _, _, _),
          CallFn(_, _, _, _, _), Loop(_, _, _, _, _, _, _), Assign(_, _, _, _, _),
          AssignSeq(_, _, _, _, _, _), Clauses(_, _, _, _, _, _, _), ClauseLoop(_, _, _, _, _, _, _, _, _, _),
          EvalNamed(_, _, _, _, _), CallBuiltin(_, _, _, _, _), CallMethod(_, _, _, _, _, _),
          SortWithKey(_, _, _, _, _, _), MapCall(_, _, _, _, _, _)

(* evaluate a sequence of expressions left to right *)
EvalSeq(es, i, env, m, acc) ==
    IF i > Len(es) \/ ~Ok(m) THEN [m |-> m, vs |-> acc]
    ELSE LET x == E(es[i], env, m) IN EvalSeq(es, i + 1, env, x.m, Append(acc, x.v))

EvalNamed(named, i, env, m, acc) ==     \* named: seq of [n, e]  ->  seq of <<name, value>>
    IF i > Len(named) \/ ~Ok(m) THEN [m |-> m, vs |-> acc]
    ELSE LET x == E(named[i].e, env, m) IN EvalNamed(named, i + 1, env, x.m, Append(acc, <<named[i].ncp, x.v>>))


E(e, env, m) ==
    IF ~Ok(m) THEN R(m, NoneV)
    ELSE IF e.k = "int" THEN R(m, IntV(e.v))
    ELSE IF e.k = "str" THEN R(m, StrV(e.s))
    ELSE IF e.k = "none" THEN R(m, NoneV)
    ELSE IF e.k = "bool" THEN R(m, BoolV(e.b))
    ELSE IF e.k = "var" THEN
        (LET l == LookupEnv(e.n, env, 1, m.heap) IN
         IF l.found THEN
            (LET v == m.heap[l.a].vals[l.k] IN
             IF v.t = "unbound" THEN R(Raise(m, "unbound", e.line), NoneV) ELSE R(m, v))
         ELSE IF e.n \in Builtins THEN R(m, BiV(e.n))
         ELSE R(Raise(m, "unbound", e.line), NoneV))
    ELSE IF e.k = "tuple" THEN
        (LET x == EvalSeq(e.items, 1, env, m, <<>>) IN R(x.m, TupV(x.vs)))
    ELSE IF e.k = "list" THEN
        (LET x == EvalSeq(e.items, 1, env, m, <<>>) IN IF Ok(x.m) THEN NewList(x.m, x.vs) ELSE R(x.m, NoneV))
    ELSE IF e.k = "dict" THEN
        (LET kv == EvalSeq([i \in 1..(2 * Len(e.keys)) |-> IF i % 2 = 1 THEN e.keys[(i + 1) \div 2] ELSE e.vals[i \div 2]],
                           1, env, m, <<>>) IN
         IF ~Ok(kv.m) THEN R(kv.m, NoneV)
         ELSE LET ks == [i \in 1..Len(e.keys) |-> kv.vs[2 * i - 1]]
                  vs == [i \in 1..Len(e.keys) |-> kv.vs[2 * i]]
                  \* entries are inserted in order: the first key that cannot be hashed, or that an earlier
                  \* entry already has (a dict DISPLAY with a repeated key is an error in this dialect), fails
                  badk == {i \in 1..Len(ks) : \/ ~Hashable(ks[i], kv.m.heap)
                                              \/ \E j \in 1..(i - 1) : Hashable(ks[j], kv.m.heap) /\ Eq(ks[j], ks[i], kv.m.heap)}
                  first == IF badk = {} THEN 0 ELSE CHOOSE i \in badk : \A j \in badk : i <= j IN
              IF first # 0 /\ ~Hashable(ks[first], kv.m.heap) THEN R(Raise(kv.m, "not_hashable", e.line), NoneV)
              ELSE IF first # 0 THEN R(Raise(kv.m, "value", e.line), NoneV)
              ELSE LET d == DictFromPairs(ks, vs, 1, <<>>, <<>>, kv.m.heap) IN NewDict(kv.m, d.keys, d.vals))
    ELSE IF e.k = "not" THEN
        (LET x == E(e.e, env, m) IN IF Ok(x.m) THEN R(x.m, BoolV(~Truth(x.v, x.m.heap))) ELSE x)
    ELSE IF e.k = "neg" THEN
        (LET x == E(e.e, env, m) IN
         IF ~Ok(x.m) THEN x ELSE IF x.v.t = "int" THEN R(x.m, IntV(-x.v.v)) ELSE R(Raise(x.m, "type", e.line), NoneV))
    ELSE IF e.k = "pos" THEN
        (LET x == E(e.e, env, m) IN
         IF ~Ok(x.m) THEN x ELSE IF x.v.t = "int" THEN x ELSE R(Raise(x.m, "type", e.line), NoneV))
    ELSE IF e.k = "inv" THEN
        (LET x == E(e.e, env, m) IN
         IF ~Ok(x.m) THEN x ELSE IF x.v.t = "int" THEN R(x.m, IntV(-x.v.v - 1)) ELSE R(Raise(x.m, "type", e.line), NoneV))
    ELSE IF e.k = "and" THEN
        (LET x == E(e.l, env, m) IN
         IF ~Ok(x.m) THEN x ELSE IF Truth(x.v, x.m.heap) THEN E(e.r, env, x.m) ELSE x)
    ELSE IF e.k = "or" THEN
        (LET x == E(e.l, env, m) IN
         IF ~Ok(x.m) THEN x ELSE IF Truth(x.v, x.m.heap) THEN x ELSE E(e.r, env, x.m))
    ELSE IF e.k = "if" THEN
        (LET c == E(e.c, env, m) IN
         IF ~Ok(c.m) THEN c ELSE IF Truth(c.v, c.m.heap) THEN E(e.t, env, c.m) ELSE E(e.f, env, c.m))
    ELSE IF e.k = "bin" THEN
        (LET l == E(e.l, env, m) r == E(e.r, env, l.m) IN
         IF ~Ok(r.m) THEN R(r.m, NoneV) ELSE BinOp(e.op, l.v, r.v, r.m, e.line))
    ELSE IF e.k = "index" THEN
        (LET c == E(e.e, env, m) i == E(e.i, env, c.m) IN
         IF ~Ok(i.m) THEN R(i.m, NoneV) ELSE Index(c.v, i.v, i.m, e.line))
    ELSE IF e.k = "slice" THEN
        (LET c == E(e.e, env, m)
             lo == IF Absent(e.lo) THEN R(c.m, NoneV) ELSE E(e.lo, env, c.m)
             hi == IF Absent(e.hi) THEN R(lo.m, NoneV) ELSE E(e.hi, env, lo.m)
             st == IF Absent(e.st) THEN R(hi.m, NoneV) ELSE E(e.st, env, hi.m) IN
         IF ~Ok(st.m) THEN R(st.m, NoneV)
         \* an explicit None bound: accepted by the reference language, rejected here for strings
         ELSE IF c.v.t = "str" /\ ((~Absent(e.lo) /\ lo.v.t = "none") \/ (~Absent(e.hi) /\ hi.v.t = "none") \/ (~Absent(e.st) /\ st.v.t = "none"))
              THEN R(Raise(st.m, "spec_domain", e.line), NoneV)
         ELSE Slice(c.v, lo.v, hi.v, st.v, st.m, e.line))
    ELSE IF e.k = "lambda" THEN
        (LET ds == EvalSeq([i \in 1..Len(e.params) |-> IF Absent(e.params[i].d) THEN [k |-> "none", line |-> e.line] ELSE e.params[i].d],
                           1, env, m, <<>>) IN
         IF ~Ok(ds.m) THEN R(ds.m, NoneV)
         ELSE LET x == Alloc(ds.m, [kind |-> "fn", name |-> "lambda", params |-> e.params,
                                    defaults |-> [i \in 1..Len(e.params) |-> IF Absent(e.params[i].d) THEN UnboundV ELSE ds.vs[i]],
                                    body |-> e.body, env |-> env, lam |-> TRUE])
              IN R(x.m, RefV(x.a)))
    ELSE IF e.k = "compr" \/ e.k = "dictcompr" THEN
        (LET it == E(e.clauses[1].it, env, m) IN          \* first iterable: enclosing scope
         IF ~Ok(it.m) THEN R(it.m, NoneV)
         ELSE LET names == SetToSeq(ClauseNames(e.clauses, 1))
                  fr == NewFrame(it.m, names, [i \in 1..Len(names) |-> UnboundV])
                  r == Clauses(e, 1, it.v, <<fr.a>> \o env, fr.m, <<>>, <<>>) IN
              IF ~Ok(r.m) THEN R(r.m, NoneV)
              ELSE IF e.k = "compr" THEN NewList(r.m, r.vs)
              ELSE LET d == DictFromPairs(r.ks, r.vs, 1, <<>>, <<>>, r.m.heap) IN NewDict(r.m, d.keys, d.vals))
    ELSE IF e.k = "call" THEN
        (LET f == E(e.f, env, m)
             a == EvalSeq(e.args, 1, env, f.m, <<>>)
             n == EvalNamed(e.named, 1, env, a.m, <<>>)
             s == IF Absent(e.star) THEN R(n.m, NoneV) ELSE E(e.star, env, n.m)
             ss == IF Absent(e.starstar) THEN R(s.m, NoneV) ELSE E(e.starstar, env, s.m) IN
         IF ~Ok(ss.m) THEN R(ss.m, NoneV)
         ELSE LET h == ss.m.heap
                  si == IF Absent(e.star) THEN [ok |-> TRUE, items |-> <<>>, a |-> 0] ELSE IterOf(s.v, h)
                  dOk == Absent(e.starstar) \/ (IsDict(ss.v, h) /\ \A q \in 1..Len(h[ss.v.a].keys) : h[ss.v.a].keys[q].t = "str")
              IN IF ~si.ok \/ ~dOk THEN R(Raise(ss.m, "type", e.line), NoneV)
                 ELSE LET extra == IF Absent(e.starstar) THEN <<>>
                                   ELSE [q \in 1..Len(h[ss.v.a].keys) |-> <<h[ss.v.a].keys[q].s, h[ss.v.a].vals[q]>>]
                      IN CallV(f.v, a.vs \o si.items, n.vs \o extra, ss.m, e.line, TRUE))
    ELSE IF e.k = "mcall" THEN
        (LET o == E(e.obj, env, m)
             a == EvalSeq(e.args, 1, env, o.m, <<>>)
             n == EvalNamed(e.named, 1, env, a.m, <<>>) IN
         IF ~Ok(n.m) THEN R(n.m, NoneV)
         ELSE IF o.v.t = "struct" THEN       \* a field holding a callable
            (LET fv == GetAttr(o.v, e.name, IF "ncp" \in DOMAIN e THEN e.ncp ELSE <<>>, n.m, e.line) IN
             IF ~Ok(fv.m) THEN fv ELSE CallV(fv.v, a.vs, n.vs, n.m, e.line, TRUE))
         ELSE IF n.m.depth + 1 >= n.m.cap THEN R(Raise(n.m, "depth", e.line), NoneV)
         ELSE CallMethod(o.v, e.name, a.vs, n.vs, n.m, e.line))
    ELSE IF e.k = "dot" THEN
        (LET o == E(e.e, env, m) IN IF ~Ok(o.m) THEN o ELSE GetAttr(o.v, e.name, e.ncp, o.m, e.line))
    ELSE IF e.k = "fstr" THEN
        \* f"lit0{n1}lit1..." : every name is read (left to right), then rendered with str()
        (LET vs == EvalSeq([i \in 1..Len(e.names) |-> [k |-> "var", n |-> e.names[i], line |-> e.line]], 1, env, m, <<>>) IN
         IF ~Ok(vs.m) THEN R(vs.m, NoneV)
         ELSE IF \E i \in 1..Len(vs.vs) : ~ReprDomain(vs.vs[i], vs.m.heap, 8) THEN R(Raise(vs.m, "spec_domain", e.line), NoneV)
         ELSE R(vs.m, StrV(e.lits[1] \o JoinSeq([i \in 1..Len(vs.vs) |-> Str(vs.vs[i], vs.m.heap) \o e.lits[i + 1]], <<>>, 1))))
    ELSE R(Raise(m, "spec_domain", e.line), NoneV)

(* comprehension clauses.  e: the comprehension node; ci: index of the clause being run;
   itv: the already evaluated iterable when clause ci is a `for`; returns [m, ks, vs]. *)
Clauses(e, ci, itv, env, m, ks, vs) ==
    IF ~Ok(m) THEN [m |-> m, ks |-> ks, vs |-> vs]
    ELSE IF ci > Len(e.clauses) THEN
        (IF e.k = "compr" THEN
            (LET x == E(e.elt, env, m) IN [m |-> x.m, ks |-> ks, vs |-> Append(vs, x.v)])
         ELSE LET k == E(e.key, env, m) v == E(e.val, env, k.m) IN
              IF Ok(v.m) /\ ~Hashable(k.v, v.m.heap) THEN [m |-> Raise(v.m, "not_hashable", e.line), ks |-> ks, vs |-> vs]
              ELSE [m |-> v.m, ks |-> Append(ks, k.v), vs |-> Append(vs, v.v)])
    ELSE LET c == e.clauses[ci] IN
         IF c.k = "cif" THEN
            (LET x == E(c.c, env, m) IN
             IF ~Ok(x.m) THEN [m |-> x.m, ks |-> ks, vs |-> vs]
             ELSE IF Truth(x.v, x.m.heap) THEN Clauses(e, ci + 1, NoneV, env, x.m, ks, vs)
             ELSE [m |-> x.m, ks |-> ks, vs |-> vs])
         ELSE LET it == IF ci = 1 THEN R(m, itv) ELSE E(c.it, env, m) IN
              IF ~Ok(it.m) THEN [m |-> it.m, ks |-> ks, vs |-> vs]
              ELSE LET io == IterOf(it.v, it.m.heap) IN
                   IF ~io.ok THEN [m |-> Raise(it.m, "type", c.line), ks |-> ks, vs |-> vs]
                   ELSE ClauseLoop(e, ci, c.tg, io.a, io.items, 1, env, Lock(it.m, io.a), ks, vs)

ClauseLoop(e, ci, tg, la, items, j, env, m, ks, vs) ==
    IF ~Ok(m) THEN [m |-> Unlock(m, la, "error"), ks |-> ks, vs |-> vs]
    ELSE IF j > Len(items) THEN [m |-> Unlock(m, la, "exhausted"), ks |-> ks, vs |-> vs]
    ELSE LET a1 == Assign(tg, items[j], env, m, e.line)
             r == Clauses(e, ci + 1, NoneV, env, a1, ks, vs) IN
         IF ~Ok(r.m) THEN [m |-> Unlock(r.m, la, "error"), ks |-> r.ks, vs |-> r.vs]
         ELSE LET t == Tick(r.m, e.line) IN
              IF ~Ok(t) THEN [m |-> Unlock(t, la, "error"), ks |-> r.ks, vs |-> r.vs]
              ELSE ClauseLoop(e, ci, tg, la, items, j + 1, env, Ev(t, [e |-> "backedge", a |-> 0, why |-> ""]), r.ks, r.vs)

(* ---- assignment to a target ---- *)
AssignSeq(tgs, vals, i, env, m, line) ==
    IF i > Len(tgs) \/ ~Ok(m) THEN m ELSE AssignSeq(tgs, vals, i + 1, env, Assign(tgs[i], vals[i], env, m, line), line)
Assign(tg, v, env, m, line) ==
    IF ~Ok(m) THEN m
    ELSE IF tg.k = "var" THEN SetVar(tg.n, v, env, m, line)
    ELSE IF tg.k = "tuple" THEN
        (LET io == IterOf(v, m.heap) IN
         IF ~io.ok THEN Raise(m, "type", line)
         ELSE IF Len(io.items) # Len(tg.items) THEN Raise(m, "value", line)
         ELSE AssignSeq(tg.items, io.items, 1, env, m, line))
    ELSE IF tg.k = "index" THEN
        (LET c == E(tg.e, env, m) i == E(tg.i, env, c.m) IN
         IF ~Ok(i.m) THEN i.m
         ELSE LET h == i.m.heap IN
              IF IsDict(c.v, h) THEN DictSet(i.m, c.v.a, i.v, v, line)
              ELSE IF IsList(c.v, h) THEN
                  (LET m1 == CanMutate(i.m, c.v.a, line) IN
                   IF ~Ok(m1) THEN m1
                   ELSE IF i.v.t # "int" THEN Raise(i.m, "type", line)
                   ELSE LET x == SeqIndex(h[c.v.a].items, i.v.v, i.m, line) IN
                        IF ~x.ok THEN Raise(i.m, "index", line)
                        ELSE [i.m EXCEPT !.heap[c.v.a].items[x.p] = v])
              ELSE Raise(i.m, "type", line))
    ELSE Raise(m, "spec_domain", line)

(* ---- calls ---- *)
(* tick: TRUE for a call instruction of the program, FALSE for a call made by native code *)
CallV(f, pos, named, m0, line, tick) ==
    LET m == IF tick /\ (f.t \in {"bi", "partial"} \/ IsFn(f, m0.heap) \/ IsRType(f, m0.heap) \/ IsEType(f, m0.heap)) THEN Tick(m0, line) ELSE m0 IN
    IF ~Ok(m) THEN R(m, NoneV)
    ELSE IF f.t = "bi" THEN
        (IF m.depth + 1 >= m.cap THEN R(Raise(m, "depth", line), NoneV) ELSE CallBuiltin(f.name, pos, named, m, line))
    ELSE IF f.t = "bm" THEN CallMethod(f.self, f.name, pos, named, m, line)
    ELSE IF IsEType(f, m.heap) THEN
        \* E(v): the value of E that equals v
        (IF Len(pos) # 1 \/ Len(named) # 0 THEN R(Raise(m, "arity", line), NoneV)
         ELSE IF m.depth + 1 >= m.cap THEN R(Raise(m, "depth", line), NoneV)
         ELSE LET vals == m.heap[f.a].vals
                  c == {i \in 1..Len(vals) : Eq(vals[i], pos[1], m.heap)} IN
              IF c = {} THEN R(Raise(m, "value", line), NoneV)
              ELSE R(m, [t |-> "ev", ty |-> f.a, i |-> CHOOSE i \in c : TRUE]))
    ELSE IF IsRType(f, m.heap) THEN
        \* R(a = .., b = ..): named arguments only; defaults fill the rest (the default VALUE is shared by
        \* every instance); every value must belong to its field's type; the type must have a name
        (LET o == m.heap[f.a]
             fs == o.fields
             known(q) == \E j \in 1..Len(fs) : fs[j].n = named[q][1]
             given(j) == {q \in 1..Len(named) : named[q][1] = fs[j].n}
             vs == [j \in 1..Len(fs) |-> IF given(j) # {} THEN named[CHOOSE q \in given(j) : TRUE][2] ELSE fs[j].d] IN
         IF m.depth + 1 >= m.cap THEN R(Raise(m, "depth", line), NoneV)
         ELSE IF Len(pos) # 0 \/ (\E q \in 1..Len(named) : ~known(q)) \/ (\E j \in 1..Len(fs) : Cardinality(given(j)) > 1)
                 \/ (\E j \in 1..Len(fs) : vs[j].t = "unbound") THEN R(Raise(m, "arity", line), NoneV)
         ELSE IF \E j \in 1..Len(fs) : ~Matches(fs[j].ty, vs[j], m.heap) THEN R(Raise(m, "type", line), NoneV)
         ELSE IF Len(o.name) = 0 THEN R(Raise(m, "value", line), NoneV)
         ELSE R(m, [t |-> "rec", ty |-> f.a, vs |-> vs]))
    ELSE IF f.t = "partial" THEN
        \* stored arguments first; a keyword given both at creation and at the call is an error
        (IF \E p \in 1..Len(f.named), q \in 1..Len(named) : f.named[p][1] = named[q][1] THEN R(Raise(m, "arity", line), NoneV)
         ELSE IF m.depth + 1 >= m.cap THEN R(Raise(m, "depth", line), NoneV)
         ELSE LET r == CallV(f.f, f.pos \o pos, f.named \o named, [m EXCEPT !.depth = @ + 1], line, FALSE) IN
              IF Ok(r.m) THEN R([r.m EXCEPT !.depth = @ - 1], r.v) ELSE r)
    ELSE IF IsFn(f, m.heap) THEN CallFn(f.a, pos, named, m, line)
    ELSE R(Raise(m, "type", line), NoneV)

CallFn(fa, pos, named, m, line) ==
    LET fn == m.heap[fa]
        named1 == [q \in 1..Len(named) |-> <<named[q][1], named[q][2]>>]
        b == Bind(fn.params, fn.defaults, pos, named1, m) IN
    IF ~b.ok THEN R(Raise(m, "arity", line), NoneV)
    ELSE IF m.depth + 1 >= m.cap THEN R(Raise(m, "depth", line), NoneV)
    \* annotated parameters are checked after binding, before the body; reported at the call
    ELSE IF BadParams(fn.params, b.vals, b.m.heap) # {} THEN R(Raise(b.m, "type", line), NoneV)
    ELSE LET pn == ParamNames(fn.params)
             extra == IF fn.lam THEN <<>>
                      ELSE SetToSeq(AssignedS(fn.body, 1) \ {pn[i] : i \in 1..Len(pn)})
             fr == NewFrame(b.m, pn \o extra, b.vals \o [i \in 1..Len(extra) |-> UnboundV])
             m1 == Ev([fr.m EXCEPT !.depth = @ + 1, !.maxd = IF m.depth + 1 > @ THEN m.depth + 1 ELSE @],
                      [e |-> "call", a |-> m.depth + 1, why |-> fn.name])
             env1 == <<fr.a>> \o fn.env IN
         IF fn.lam THEN
            (LET r == E(fn.body, env1, m1) IN
             IF Ok(r.m) THEN R(Ev([r.m EXCEPT !.depth = @ - 1], [e |-> "ret", a |-> m.depth + 1, why |-> ""]), r.v)
             ELSE R(r.m, NoneV))
         ELSE LET r == ExecB(fn.body, 1, env1, m1)
                  rv == IF r.f = "return" THEN r.v ELSE NoneV IN
              IF ~Ok(r.m) THEN R(r.m, NoneV)
              \* the declared return type is checked by the return statement (failure reported there);
              \* falling off the end of an annotated function: where the failure is reported is not specified
              ELSE IF "ret" \in DOMAIN fn /\ fn.ret.k # "absent" /\ ~Matches(fn.ret, rv, r.m.heap) THEN
                  (IF r.f = "return" THEN R(Raise(r.m, "type", r.rl), NoneV) ELSE R(Raise(r.m, "spec_domain", line), NoneV))
              ELSE R(Ev([r.m EXCEPT !.depth = @ - 1], [e |-> "ret", a |-> m.depth + 1, why |-> ""]), rv)

(* ---- statements: result [m, f, v] with f \in {"next","break","continue","return"} ---- *)
Flow(m, f, v) == [m |-> m, f |-> f, v |-> v, rl |-> 0]       \* rl: line of the return statement

ExecB(stmts, i, env, m) ==
    IF ~Ok(m) \/ i > Len(stmts) THEN Flow(m, "next", NoneV)
    ELSE LET r == X(stmts[i], env, m) IN
         IF ~Ok(r.m) \/ r.f # "next" THEN r ELSE ExecB(stmts, i + 1, env, r.m)

Loop(tg, la, items, j, body, env, m) ==
    IF j > Len(items) THEN Flow(Unlock(m, la, "exhausted"), "next", NoneV)
    ELSE LET a1 == Assign(tg, items[j], env, m, tg.line)
             r == ExecB(body, 1, env, a1) IN
         IF ~Ok(r.m) THEN Flow(Unlock(r.m, la, "error"), "next", NoneV)       \* the property's rule
         ELSE IF r.f = "break" THEN Flow(Unlock(r.m, la, "break"), "next", NoneV)
         ELSE IF r.f = "return" THEN [Flow(Unlock(r.m, la, "return"), "return", r.v) EXCEPT !.rl = r.rl]
         ELSE LET t == Tick(r.m, tg.line) IN
              IF ~Ok(t) THEN Flow(Unlock(t, la, "error"), "next", NoneV)
              ELSE Loop(tg, la, items, j + 1, body, env, Ev(t, [e |-> "backedge", a |-> 0, why |-> ""]))

AugOp(op) == op     \* "+", "-", "*", "//", "%"

(* scalar variables bound in the innermost frame, as <<name, text>> (what a debugger shows) *)
ScalarVars(env, m) ==
    LET fr == m.heap[env[1]]
        idx == SelectSeq([i \in 1..Len(fr.names) |-> i],
                         LAMBDA i : fr.vals[i].t \in {"int", "str", "bool", "none"})
    IN [j \in 1..Len(idx) |-> [n |-> fr.names[idx[j]], v |-> Str(fr.vals[idx[j]], m.heap), t |-> fr.vals[idx[j]].t]]

X(s, env, m0) ==
    LET m == Ev(m0, [e |-> "stmt", a |-> s.line, why |-> "", d |-> m0.depth, vs |-> ScalarVars(env, m0)]) IN
    IF ~Ok(m) THEN Flow(m, "next", NoneV)
    ELSE IF s.k = "expr" THEN (LET x == E(s.e, env, m) IN Flow(x.m, "next", NoneV))
    ELSE IF s.k = "assign" THEN
        (LET x == E(s.e, env, m)
             \* a record / enum type gets its name from the first module-level variable it is assigned to
             naming == Ok(x.m) /\ x.m.depth = 0 /\ s.tg.k = "var" /\ "ncp" \in DOMAIN s.tg
                       /\ (IsRType(x.v, x.m.heap) \/ IsEType(x.v, x.m.heap)) /\ Len(x.m.heap[x.v.a].name) = 0
             m1 == IF naming THEN [x.m EXCEPT !.heap[x.v.a].name = s.tg.ncp] ELSE x.m
         IN Flow(Assign(s.tg, x.v, env, m1, s.line), "next", NoneV))
    ELSE IF s.k = "aug" THEN
        (IF s.tg.k = "var" THEN
            (LET l == E([k |-> "var", n |-> s.tg.n, line |-> s.line], env, m)
                 r == E(s.e, env, l.m) IN
             IF ~Ok(r.m) THEN Flow(r.m, "next", NoneV)
             ELSE IF s.op = "+" /\ IsList(l.v, r.m.heap) THEN       \* list += iterable : in place
                 (LET io == IterOf(r.v, r.m.heap) m1 == CanMutate(r.m, l.v.a, s.line) IN
                  IF ~io.ok THEN Flow(Raise(r.m, "type", s.line), "next", NoneV)
                  ELSE IF ~Ok(m1) THEN Flow(m1, "next", NoneV)
                  ELSE Flow([r.m EXCEPT !.heap[l.v.a].items = @ \o io.items], "next", NoneV))
             ELSE LET x == BinOp(s.op, l.v, r.v, r.m, s.line) IN
                  Flow(Assign(s.tg, x.v, env, x.m, s.line), "next", NoneV))
         ELSE IF s.tg.k = "index" THEN
            (LET c == E(s.tg.e, env, m) i == E(s.tg.i, env, c.m)
                 cur == IF Ok(i.m) THEN Index(c.v, i.v, i.m, s.line) ELSE R(i.m, NoneV)
                 r == E(s.e, env, cur.m) IN
             IF ~Ok(r.m) THEN Flow(r.m, "next", NoneV)
             ELSE IF s.op = "+" /\ IsList(cur.v, r.m.heap) THEN
                 (LET io == IterOf(r.v, r.m.heap) m1 == CanMutate(r.m, cur.v.a, s.line) IN
                  IF ~io.ok THEN Flow(Raise(r.m, "type", s.line), "next", NoneV)
                  ELSE IF ~Ok(m1) THEN Flow(m1, "next", NoneV)
                  ELSE Flow([r.m EXCEPT !.heap[cur.v.a].items = @ \o io.items], "next", NoneV))
             ELSE LET x == BinOp(s.op, cur.v, r.v, r.m, s.line) IN
                  IF ~Ok(x.m) THEN Flow(x.m, "next", NoneV)
                  ELSE LET h == x.m.heap IN
                       IF IsDict(c.v, h) THEN Flow(DictSet(x.m, c.v.a, i.v, x.v, s.line), "next", NoneV)
                       ELSE IF IsList(c.v, h) THEN
                           (LET m1 == CanMutate(x.m, c.v.a, s.line) p == SeqIndex(h[c.v.a].items, i.v.v, x.m, s.line) IN
                            IF ~Ok(m1) THEN Flow(m1, "next", NoneV)
                            ELSE Flow([x.m EXCEPT !.heap[c.v.a].items[p.p] = x.v], "next", NoneV))
                       ELSE Flow(Raise(x.m, "type", s.line), "next", NoneV))
         ELSE Flow(Raise(m, "spec_domain", s.line), "next", NoneV))
    ELSE IF s.k = "if" THEN
        (LET c == E(s.c, env, m) IN
         IF ~Ok(c.m) THEN Flow(c.m, "next", NoneV)
         ELSE IF Truth(c.v, c.m.heap) THEN ExecB(s.then, 1, env, c.m) ELSE ExecB(s.else, 1, env, c.m))
    ELSE IF s.k = "for" THEN
        (LET it == E(s.it, env, m) IN
         IF ~Ok(it.m) THEN Flow(it.m, "next", NoneV)
         ELSE LET io == IterOf(it.v, it.m.heap) IN
              IF ~io.ok THEN Flow(Raise(it.m, "type", s.line), "next", NoneV)
              ELSE Loop(s.tg, io.a, io.items, 1, s.body, env, Lock(it.m, io.a)))
    ELSE IF s.k = "break" THEN Flow(m, "break", NoneV)
    ELSE IF s.k = "continue" THEN Flow(m, "continue", NoneV)
    ELSE IF s.k = "pass" THEN Flow(m, "next", NoneV)
    ELSE IF s.k = "return" THEN
        (IF Absent(s.e) THEN [Flow(m, "return", NoneV) EXCEPT !.rl = s.line]
         ELSE LET x == E(s.e, env, m) IN [Flow(x.m, "return", x.v) EXCEPT !.rl = s.line])
    ELSE IF s.k = "def" THEN
        (LET ds == EvalSeq([i \in 1..Len(s.params) |-> IF Absent(s.params[i].d) THEN [k |-> "none", line |-> s.line] ELSE s.params[i].d],
                           1, env, m, <<>>) IN
         IF ~Ok(ds.m) THEN Flow(ds.m, "next", NoneV)
         \* a default value must belong to its parameter's annotation: checked when the def is executed
         ELSE IF \E i \in 1..Len(s.params) : HasTy(s.params[i]) /\ ~Absent(s.params[i].d) /\ ~Matches(s.params[i].ty, ds.vs[i], ds.m.heap)
              THEN Flow(Raise(ds.m, "type", s.line), "next", NoneV)
         ELSE LET x == Alloc(ds.m, [kind |-> "fn", name |-> s.name, params |-> s.params,
                                    defaults |-> [i \in 1..Len(s.params) |-> IF Absent(s.params[i].d) THEN UnboundV ELSE ds.vs[i]],
                                    body |-> s.body, env |-> env, lam |-> FALSE,
                                    ret |-> IF "ret" \in DOMAIN s THEN s.ret ELSE [k |-> "absent"]])
              IN Flow(SetVar(s.name, RefV(x.a), env, x.m, s.line), "next", NoneV))
    ELSE Flow(Raise(m, "spec_domain", s.line), "next", NoneV)

(* ------------------------------------------------------------------ builtins *)
N_key == <<107, 101, 121>>
N_reverse == <<114, 101, 118, 101, 114, 115, 101>>
Arity(m, line) == R(Raise(m, "arity", line), NoneV)
TypeE(m, line) == R(Raise(m, "type", line), NoneV)
NamedVal(named, n, dflt) == IF \E q \in 1..Len(named) : named[q][1] = n
                            THEN named[CHOOSE q \in 1..Len(named) : named[q][1] = n][2] ELSE dflt
NamedOnly(named, allowed) == \A q \in 1..Len(named) : named[q][1] \in allowed

(* apply f to each item, left to right: returns [m, vs] *)
MapCall(f, items, i, m, line, acc) ==
    IF i > Len(items) \/ ~Ok(m) THEN [m |-> m, vs |-> acc]
    ELSE LET x == CallV(f, <<items[i]>>, <<>>, m, line, FALSE) IN MapCall(f, items, i + 1, x.m, line, Append(acc, x.v))

(* the key function runs WHILE the argument is being iterated: the container is locked during
   those calls and released afterwards, also when a call fails *)
KeysUnderLock(keyf, items, la, m, line) ==
    IF keyf.t = "none" THEN [m |-> m, vs |-> items]
    ELSE LET m1 == [Lock(m, la) EXCEPT !.depth = @ + 1]            \* the builtin's own frame
             r == MapCall(keyf, items, 1, m1, line, <<>>)
             m2 == IF Ok(r.m) THEN [r.m EXCEPT !.depth = @ - 1] ELSE r.m IN
         [m |-> Unlock(m2, la, IF Ok(r.m) THEN "exhausted" ELSE "error"), vs |-> r.vs]

SortWithKey(items, la, keyf, rev, m, line) ==
    LET ks == KeysUnderLock(keyf, items, la, m, line) IN
    IF ~Ok(ks.m) THEN R(ks.m, NoneV)
    ELSE LET s == StableSort(items, ks.vs, ks.m.heap) IN
         IF ~s.ok THEN TypeE(ks.m, line)
         ELSE IF rev THEN
             \* reverse=True keeps the original order of equal elements: sort by descending key, stable
             (LET n == Len(items)
                  h == ks.m.heap
                  rank(i) == Cardinality({j \in 1..n : \/ Cmp(ks.vs[j], ks.vs[i], h) = "gt"
                                                        \/ (Cmp(ks.vs[j], ks.vs[i], h) = "eq" /\ j < i)})
              IN NewList(ks.m, [r \in 1..n |-> items[CHOOSE i \in 1..n : rank(i) = r - 1]]))
         ELSE NewList(ks.m, s.v)

CallBuiltin(name, pos, named, m, line) ==
    LET h == m.heap n == Len(pos) IN
    IF name = "emit" THEN
        (IF n # 1 \/ Len(named) # 0 THEN Arity(m, line)
         ELSE R([m EXCEPT !.out = Append(@, Enc(pos[1], h, {}))], NoneV))
    ELSE IF name = "fail" THEN R(Raise(m, "fail", line), NoneV)
    ELSE IF name = "len" THEN
        (IF n # 1 \/ Len(named) # 0 THEN Arity(m, line)
         ELSE LET v == pos[1] IN
              IF v.t = "str" THEN R(m, IntV(Len(v.s)))
              ELSE IF v.t = "tuple" THEN R(m, IntV(Len(v.v)))
              ELSE IF v.t = "range" THEN R(m, IntV(RangeLen(v)))
              ELSE IF IsList(v, h) \/ IsSet(v, h) THEN R(m, IntV(Len(h[v.a].items)))
              ELSE IF IsDict(v, h) THEN R(m, IntV(Len(h[v.a].keys)))
              ELSE IF IsEType(v, h) THEN R(m, IntV(Len(h[v.a].vals)))
              ELSE TypeE(m, line))
    ELSE IF name = "range" THEN
        (IF n < 1 \/ n > 3 \/ Len(named) # 0 THEN Arity(m, line)
         ELSE IF \E i \in 1..n : pos[i].t # "int" THEN TypeE(m, line)
         ELSE IF n = 1 THEN R(m, RangeV(0, pos[1].v, 1))
         ELSE IF n = 2 THEN R(m, RangeV(pos[1].v, pos[2].v, 1))
         ELSE IF pos[3].v = 0 THEN R(Raise(m, "value", line), NoneV)
         ELSE R(m, RangeV(pos[1].v, pos[2].v, pos[3].v)))
    ELSE IF name = "list" THEN
        (IF n > 1 \/ Len(named) # 0 THEN Arity(m, line)
         ELSE IF n = 0 THEN NewList(m, <<>>)
         ELSE LET io == IterOf(pos[1], h) IN IF io.ok THEN NewList(m, io.items) ELSE TypeE(m, line))
    ELSE IF name = "set" THEN
        (IF n > 1 \/ Len(named) # 0 THEN Arity(m, line)
         ELSE IF n = 0 THEN NewSet(m, <<>>)
         ELSE LET io == IterOf(pos[1], h) IN
              IF ~io.ok THEN TypeE(m, line)
              ELSE IF \E i \in 1..Len(io.items) : ~Hashable(io.items[i], h) THEN R(Raise(m, "not_hashable", line), NoneV)
              ELSE NewSet(m, Dedup(io.items, 1, <<>>, h)))
    ELSE IF name = "tuple" THEN
        (IF n > 1 \/ Len(named) # 0 THEN Arity(m, line)
         ELSE IF n = 0 THEN R(m, TupV(<<>>))
         ELSE LET io == IterOf(pos[1], h) IN IF io.ok THEN R(m, TupV(io.items)) ELSE TypeE(m, line))
    ELSE IF name = "dict" THEN
        (IF n > 1 THEN Arity(m, line)
         ELSE LET base == IF n = 0 THEN [ok |-> TRUE, ks |-> <<>>, vs |-> <<>>]
                          ELSE IF IsDict(pos[1], h) THEN [ok |-> TRUE, ks |-> h[pos[1].a].keys, vs |-> h[pos[1].a].vals]
                          ELSE LET io == IterOf(pos[1], h) IN
                               IF io.ok /\ \A i \in 1..Len(io.items) :
                                     LET p == IterOf(io.items[i], h) IN p.ok /\ Len(p.items) = 2 /\ Hashable(p.items[1], h)
                               THEN [ok |-> TRUE, ks |-> [i \in 1..Len(io.items) |-> IterOf(io.items[i], h).items[1]],
                                                  vs |-> [i \in 1..Len(io.items) |-> IterOf(io.items[i], h).items[2]]]
                               ELSE [ok |-> FALSE, ks |-> <<>>, vs |-> <<>>] IN
              IF ~base.ok THEN TypeE(m, line)
              ELSE LET ks == base.ks \o [q \in 1..Len(named) |-> StrV(named[q][1])]
                       vs == base.vs \o [q \in 1..Len(named) |-> named[q][2]]
                       d == DictFromPairs(ks, vs, 1, <<>>, <<>>, h) IN
                   NewDict(m, d.keys, d.vals))
    ELSE IF name = "bool" THEN
        (IF n > 1 \/ Len(named) # 0 THEN Arity(m, line)
         ELSE IF n = 0 THEN R(m, BoolV(FALSE)) ELSE R(m, BoolV(Truth(pos[1], h))))
    ELSE IF name = "int" THEN
        (IF n < 1 \/ n > 2 \/ Len(named) # 0 THEN R(Raise(m, "spec_domain", line), NoneV)
         ELSE IF n = 2 THEN
            (IF pos[1].t # "str" \/ pos[2].t # "int" THEN R(Raise(m, "spec_domain", line), NoneV)
             ELSE IF pos[2].v < 2 \/ pos[2].v > 36 THEN R(Raise(m, "spec_domain", line), NoneV)
             ELSE LET p == ParseInt(pos[1].s, pos[2].v) IN
                  IF ~p.dom THEN R(Raise(m, "spec_domain", line), NoneV)
                  ELSE IF ~p.ok THEN R(Raise(m, "value", line), NoneV) ELSE R(m, IntV(p.v)))
         ELSE IF pos[1].t = "int" THEN R(m, pos[1])
         ELSE IF pos[1].t = "bool" THEN R(m, IntV(IF pos[1].b THEN 1 ELSE 0))
         ELSE IF pos[1].t = "str" THEN
            (LET p == ParseInt(pos[1].s, 10) IN
             IF ~p.dom THEN R(Raise(m, "spec_domain", line), NoneV)
             ELSE IF ~p.ok THEN R(Raise(m, "value", line), NoneV) ELSE R(m, IntV(p.v)))
         ELSE TypeE(m, line))
    ELSE IF name = "struct" THEN
        (IF n # 0 THEN Arity(m, line)
         ELSE IF \E i, j \in 1..Len(named) : i < j /\ named[i][1] = named[j][1] THEN Arity(m, line)
         ELSE R(m, StructV([q \in 1..Len(named) |-> named[q][1]], [q \in 1..Len(named) |-> named[q][2]])))
    ELSE IF name = "chr" THEN
        (IF n # 1 \/ Len(named) # 0 THEN Arity(m, line)
         ELSE IF pos[1].t # "int" THEN TypeE(m, line)
         ELSE IF pos[1].v < 0 \/ pos[1].v > 1114111 THEN R(Raise(m, "value", line), NoneV)
         ELSE IF pos[1].v >= 55296 /\ pos[1].v <= 57343 THEN R(Raise(m, "spec_domain", line), NoneV)
         ELSE R(m, StrV(<<pos[1].v>>)))
    ELSE IF name = "ord" THEN
        (IF n # 1 \/ Len(named) # 0 THEN Arity(m, line)
         ELSE IF pos[1].t # "str" THEN TypeE(m, line)
         ELSE IF Len(pos[1].s) # 1 THEN R(Raise(m, "value", line), NoneV)
         ELSE R(m, IntV(pos[1].s[1])))
    ELSE IF name = "getattr" \/ name = "hasattr" THEN
        (IF Len(named) # 0 \/ n < 2 \/ (name = "hasattr" /\ n # 2) \/ n > 3 THEN Arity(m, line)
         ELSE IF pos[2].t # "str" THEN TypeE(m, line)
         ELSE LET g == GetAttr(pos[1], NameOfCP(pos[2].s), pos[2].s, m, line) IN
              IF name = "hasattr" THEN R(m, BoolV(Ok(g.m)))
              ELSE IF Ok(g.m) THEN g
              ELSE IF n = 3 THEN R(m, pos[3]) ELSE g)
    ELSE IF name = "str" \/ name = "repr" THEN
        (IF n # 1 \/ Len(named) # 0 THEN Arity(m, line)
         ELSE IF ~ReprDomain(pos[1], h, 8) THEN R(Raise(m, "spec_domain", line), NoneV)
         ELSE IF name = "str" THEN R(m, StrV(Str(pos[1], h))) ELSE R(m, StrV(Repr(pos[1], h, 8))))
    ELSE IF name = "type" THEN
        (IF n # 1 \/ Len(named) # 0 THEN Arity(m, line)
         ELSE R(m, StrV(TypeNameCP(pos[1], h))))
    ELSE IF name = "abs" THEN
        (IF n # 1 \/ Len(named) # 0 THEN Arity(m, line)
         ELSE IF pos[1].t = "int" THEN R(m, IntV(Abs(pos[1].v))) ELSE TypeE(m, line))
    ELSE IF name = "any" \/ name = "all" THEN
        (IF n # 1 \/ Len(named) # 0 THEN Arity(m, line)
         ELSE LET io == IterOf(pos[1], h) IN
              IF ~io.ok THEN TypeE(m, line)
              ELSE IF name = "any" THEN R(m, BoolV(\E i \in 1..Len(io.items) : Truth(io.items[i], h)))
              ELSE R(m, BoolV(\A i \in 1..Len(io.items) : Truth(io.items[i], h))))
    ELSE IF name = "reversed" THEN
        (IF n # 1 \/ Len(named) # 0 THEN Arity(m, line)
         ELSE LET io == IterOf(pos[1], h) IN
              IF ~io.ok THEN TypeE(m, line) ELSE NewList(m, Reverse(io.items)))
    ELSE IF name = "enumerate" THEN
        (IF n < 1 \/ n > 2 \/ Len(named) # 0 THEN Arity(m, line)
         ELSE LET io == IterOf(pos[1], h) st == IF n = 2 THEN pos[2] ELSE IntV(0) IN
              IF ~io.ok \/ st.t # "int" THEN TypeE(m, line)
              ELSE NewList(m, [i \in 1..Len(io.items) |-> TupV(<<IntV(st.v + i - 1), io.items[i]>>)]))
    ELSE IF name = "zip" THEN
        (IF Len(named) # 0 THEN Arity(m, line)
         ELSE LET ios == [i \in 1..n |-> IterOf(pos[i], h)] IN
              IF \E i \in 1..n : ~ios[i].ok THEN TypeE(m, line)
              ELSE IF n = 0 THEN NewList(m, <<>>)
              ELSE LET k == CHOOSE k \in {Len(ios[i].items) : i \in 1..n} : \A i \in 1..n : k <= Len(ios[i].items)
                   IN NewList(m, [j \in 1..k |-> TupV([i \in 1..n |-> ios[i].items[j]])]))
    ELSE IF name = "sorted" THEN
        (IF n # 1 \/ ~NamedOnly(named, {N_key, N_reverse}) THEN Arity(m, line)
         ELSE LET io == IterOf(pos[1], h)
                  keyf == NamedVal(named, N_key, NoneV)
                  rev == NamedVal(named, N_reverse, BoolV(FALSE)) IN
              IF ~io.ok THEN TypeE(m, line)
              ELSE SortWithKey(io.items, io.a, keyf, Truth(rev, h), m, line))
    ELSE IF name = "map" \/ name = "filter" THEN
        \* the callback runs WHILE the argument is iterated (locked), in the builtin's own frame
        (IF n # 2 \/ Len(named) # 0 THEN Arity(m, line)
         ELSE IF ~(pos[1].t \in {"bi", "bm", "partial"} \/ IsFn(pos[1], h) \/ (name = "filter" /\ pos[1].t = "none")) THEN TypeE(m, line)
         ELSE LET io == IterOf(pos[2], h) IN
              IF ~io.ok THEN TypeE(m, line)
              ELSE LET ks == KeysUnderLock(pos[1], io.items, io.a, m, line) IN
                   IF ~Ok(ks.m) THEN R(ks.m, NoneV)
                   ELSE IF name = "map" THEN NewList(ks.m, ks.vs)
                   \* filter(None, xs) removes the None values (this dialect's documented rule)
                   ELSE LET keep == SelectSeq([j \in 1..Len(io.items) |-> j],
                                              LAMBDA j : IF pos[1].t = "none" THEN io.items[j].t # "none" ELSE Truth(ks.vs[j], ks.m.heap))
                        IN NewList(ks.m, [j \in 1..Len(keep) |-> io.items[keep[j]]]))
    ELSE IF name = "field" THEN
        \* field(type[, default]): the type is one of the basic type names; the default must belong to it
        (IF n < 1 \/ n > 2 \/ Len(named) # 0 THEN R(Raise(m, "spec_domain", line), NoneV)
         ELSE IF ~(pos[1].t = "bi" /\ pos[1].name \in {"int", "str", "bool", "list", "dict", "tuple"}) THEN R(Raise(m, "spec_domain", line), NoneV)
         ELSE LET ty == [k |-> "tname", n |-> pos[1].name] IN
              IF n = 2 /\ ~Matches(ty, pos[2], h) THEN TypeE(m, line)
              ELSE R(m, [t |-> "fieldspec", ty |-> ty, d |-> IF n = 2 THEN pos[2] ELSE UnboundV]))
    ELSE IF name = "record" THEN
        (IF n # 0 THEN Arity(m, line)
         ELSE IF \E q \in 1..Len(named) : ~(named[q][2].t = "fieldspec"
                                             \/ (named[q][2].t = "bi" /\ named[q][2].name \in {"int", "str", "bool", "list", "dict", "tuple"}))
              THEN R(Raise(m, "spec_domain", line), NoneV)
         ELSE LET fs == [q \in 1..Len(named) |->
                            IF named[q][2].t = "fieldspec" THEN [n |-> named[q][1], ty |-> named[q][2].ty, d |-> named[q][2].d]
                            ELSE [n |-> named[q][1], ty |-> [k |-> "tname", n |-> named[q][2].name], d |-> UnboundV]]
                  x == Alloc(m, [kind |-> "rtype", name |-> <<>>, fields |-> fs])
              IN R(x.m, RefV(x.a)))
    ELSE IF name = "enum" THEN
        (IF Len(named) # 0 THEN Arity(m, line)
         ELSE IF \E q \in 1..n : pos[q].t # "str" THEN TypeE(m, line)
         ELSE IF \E p, q \in 1..n : p < q /\ pos[p] = pos[q] THEN R(Raise(m, "value", line), NoneV)
         ELSE LET x == Alloc(m, [kind |-> "etype", name |-> <<>>, vals |-> pos]) IN R(x.m, RefV(x.a)))
    ELSE IF name = "partial" THEN
        (IF n < 1 THEN Arity(m, line)
         ELSE R(m, [t |-> "partial", f |-> pos[1], pos |-> Tail(pos), named |-> named]))
    ELSE IF name = "min" \/ name = "max" THEN
        (IF n = 0 \/ ~NamedOnly(named, {N_key}) THEN Arity(m, line)
         ELSE LET io == IF n = 1 THEN IterOf(pos[1], h) ELSE [ok |-> TRUE, items |-> pos, a |-> 0]
                  keyf == NamedVal(named, N_key, NoneV) IN
              IF ~io.ok THEN TypeE(m, line)
              ELSE IF Len(io.items) = 0 THEN R(Raise(m, "value", line), NoneV)
              ELSE LET ks == KeysUnderLock(keyf, io.items, io.a, m, line) IN
                   IF ~Ok(ks.m) THEN R(ks.m, NoneV)
                   ELSE LET hh == ks.m.heap cnt == Len(io.items)
                            bad == \E i, j \in 1..cnt : i < j /\ Cmp(ks.vs[i], ks.vs[j], hh) = "err"
                            best == CHOOSE i \in 1..cnt :
                                      \A j \in 1..cnt :
                                         LET c == Cmp(ks.vs[i], ks.vs[j], hh) IN
                                         IF name = "min" THEN (c = "lt" \/ (c = "eq" /\ i <= j))
                                         ELSE (c = "gt" \/ (c = "eq" /\ i <= j))
                        IN IF bad THEN TypeE(ks.m, line) ELSE R(ks.m, io.items[best]))
    ELSE R(Raise(m, "spec_domain", line), NoneV)

(* ------------------------------------------------------------------ methods *)
CallMethod(o, name, pos, named, m, line) ==
    LET h == m.heap n == Len(pos) Attr == R(Raise(m, "attr", line), NoneV) IN
    IF Len(named) # 0 /\ ~(o.t = "str" /\ name = "format") /\ ~(IsDict(o, h) /\ name = "update") THEN R(Raise(m, "spec_domain", line), NoneV)
    ELSE IF IsEType(o, h) THEN
        (IF name = "values" THEN (IF n # 0 THEN Arity(m, line) ELSE NewList(m, h[o.a].vals)) ELSE R(Raise(m, "spec_domain", line), NoneV))
    ELSE IF IsList(o, h) THEN
        (LET items == h[o.a].items IN
         IF name = "append" THEN
            (IF n # 1 THEN Arity(m, line)
             ELSE LET m1 == CanMutate(m, o.a, line) IN
                  IF ~Ok(m1) THEN R(m1, NoneV) ELSE R([m EXCEPT !.heap[o.a].items = Append(@, pos[1])], NoneV))
         ELSE IF name = "extend" THEN
            (IF n # 1 THEN Arity(m, line)
             ELSE LET io == IterOf(pos[1], h) m1 == CanMutate(m, o.a, line) IN
                  IF ~io.ok THEN TypeE(m, line)
                  ELSE IF ~Ok(m1) THEN R(m1, NoneV)
                  ELSE R([m EXCEPT !.heap[o.a].items = @ \o io.items], NoneV))
         ELSE IF name = "insert" THEN
            (IF n # 2 THEN Arity(m, line)
             ELSE IF pos[1].t # "int" THEN TypeE(m, line)
             ELSE LET m1 == CanMutate(m, o.a, line)
                      len == Len(items)
                      i0 == IF pos[1].v < 0 THEN Max2(pos[1].v + len, 0) ELSE Min2(pos[1].v, len) IN
                  IF ~Ok(m1) THEN R(m1, NoneV)
                  ELSE R([m EXCEPT !.heap[o.a].items = InsertIdx(items, i0 + 1, pos[2])], NoneV))
         ELSE IF name = "pop" THEN
            (IF n > 1 THEN Arity(m, line)
             ELSE IF n = 1 /\ pos[1].t # "int" THEN TypeE(m, line)
             ELSE LET m1 == CanMutate(m, o.a, line)
                      len == Len(items)
                      i0 == IF n = 0 THEN len - 1 ELSE pos[1].v IN
                  IF ~Ok(m1) THEN R(m1, NoneV)
                  ELSE IF n = 1 /\ pos[1].v < 0 THEN R(Raise(m, "spec_domain", line), NoneV)
                  ELSE IF i0 < 0 \/ i0 >= len THEN R(Raise(m, "index", line), NoneV)
                  ELSE R([m EXCEPT !.heap[o.a].items = RemoveIdx(items, i0 + 1)], items[i0 + 1]))
         ELSE IF name = "remove" THEN
            (IF n # 1 THEN Arity(m, line)
             ELSE LET m1 == CanMutate(m, o.a, line) j == SeqFind(items, pos[1], h) IN
                  IF ~Ok(m1) THEN R(m1, NoneV)
                  ELSE IF j = 0 THEN R(Raise(m, "value", line), NoneV)
                  ELSE R([m EXCEPT !.heap[o.a].items = RemoveIdx(items, j)], NoneV))
         ELSE IF name = "clear" THEN
            (IF n # 0 THEN Arity(m, line)
             ELSE LET m1 == CanMutate(m, o.a, line) IN
                  IF ~Ok(m1) THEN R(m1, NoneV) ELSE R([m EXCEPT !.heap[o.a].items = <<>>], NoneV))
         ELSE IF name = "index" THEN
            (IF n < 1 \/ n > 3 THEN Arity(m, line)
             ELSE IF \E q \in 2..n : pos[q].t \notin {"int", "none"} THEN TypeE(m, line)
             ELSE LET lo == WinLo(Len(items), IF n >= 2 THEN OptInt(pos[2]) ELSE Opt(FALSE, 0))
                      hi == WinHi(Len(items), IF n >= 3 THEN OptInt(pos[3]) ELSE Opt(FALSE, 0))
                      c == {j \in (lo + 1)..hi : Eq(items[j], pos[1], h)} IN
                  IF c = {} THEN R(Raise(m, "value", line), NoneV)
                  ELSE R(m, IntV((CHOOSE j \in c : \A q \in c : j <= q) - 1)))
         ELSE Attr)
    ELSE IF IsDict(o, h) THEN
        (LET d == h[o.a] IN
         IF name = "get" THEN
            (IF n < 1 \/ n > 2 THEN Arity(m, line)
             ELSE IF ~Hashable(pos[1], h) THEN R(Raise(m, "not_hashable", line), NoneV)
             ELSE LET j == DictFindIn(d.keys, pos[1], h) IN
                  IF j # 0 THEN R(m, d.vals[j]) ELSE IF n = 2 THEN R(m, pos[2]) ELSE R(m, NoneV))
         ELSE IF name = "keys" THEN (IF n # 0 THEN Arity(m, line) ELSE NewList(m, d.keys))
         ELSE IF name = "values" THEN (IF n # 0 THEN Arity(m, line) ELSE NewList(m, d.vals))
         ELSE IF name = "items" THEN
            (IF n # 0 THEN Arity(m, line) ELSE NewList(m, [i \in 1..Len(d.keys) |-> TupV(<<d.keys[i], d.vals[i]>>)]))
         ELSE IF name = "pop" THEN
            \* (a mutating method fails on a frozen or iterated receiver whatever its arguments are and
            \* whether or not it would change anything: the receiver is checked first)
            (IF n < 1 \/ n > 2 THEN Arity(m, line)
             ELSE LET m1 == CanMutate(m, o.a, line) j == DictFindIn(d.keys, pos[1], h) IN
                  IF ~Ok(m1) THEN R(m1, NoneV)
                  ELSE IF ~Hashable(pos[1], h) THEN R(Raise(m, "not_hashable", line), NoneV)
                  ELSE IF j # 0 THEN R([m EXCEPT !.heap[o.a].keys = RemoveIdx(@, j), !.heap[o.a].vals = RemoveIdx(d.vals, j)], d.vals[j])
                  ELSE IF n = 2 THEN R(m, pos[2]) ELSE R(Raise(m, "key", line), NoneV))
         ELSE IF name = "setdefault" THEN
            \* ("setdefault fails if the key is unhashable, or if the dictionary is frozen or has active
            \* iterators" -- also when the key is present and nothing would change)
            (IF n < 1 \/ n > 2 THEN Arity(m, line)
             ELSE IF ~Ok(CanMutate(m, o.a, line)) THEN R(CanMutate(m, o.a, line), NoneV)
             ELSE IF ~Hashable(pos[1], h) THEN R(Raise(m, "not_hashable", line), NoneV)
             ELSE LET j == DictFindIn(d.keys, pos[1], h) dv == IF n = 2 THEN pos[2] ELSE NoneV IN
                  IF j # 0 THEN R(m, d.vals[j])
                  ELSE LET m1 == m IN
                       IF ~Ok(m1) THEN R(m1, NoneV)
                       ELSE R([m EXCEPT !.heap[o.a].keys = Append(@, pos[1]), !.heap[o.a].vals = Append(d.vals, dv)], dv))
         ELSE IF name = "update" THEN
            \* update([mapping | iterable of pairs], **kwargs): positional part first, then the named
            (IF n > 1 THEN Arity(m, line)
             ELSE LET base == IF n = 0 THEN [ok |-> TRUE, ks |-> <<>>, vs |-> <<>>]
                              ELSE IF IsDict(pos[1], h) THEN [ok |-> TRUE, ks |-> h[pos[1].a].keys, vs |-> h[pos[1].a].vals]
                              ELSE LET io == IterOf(pos[1], h) IN
                                   IF io.ok /\ \A i \in 1..Len(io.items) :
                                         LET pr == IterOf(io.items[i], h) IN pr.ok /\ Len(pr.items) = 2 /\ Hashable(pr.items[1], h)
                                   THEN [ok |-> TRUE, ks |-> [i \in 1..Len(io.items) |-> IterOf(io.items[i], h).items[1]],
                                                      vs |-> [i \in 1..Len(io.items) |-> IterOf(io.items[i], h).items[2]]]
                                   ELSE [ok |-> FALSE, ks |-> <<>>, vs |-> <<>>]
                      m1 == CanMutate(m, o.a, line) IN
                  IF ~base.ok THEN R(Raise(m, "spec_domain", line), NoneV)     \* which error: not specified
                  ELSE IF ~Ok(m1) THEN R(m1, NoneV)
                  ELSE LET ks == base.ks \o [q \in 1..Len(named) |-> StrV(named[q][1])]
                           vs == base.vs \o [q \in 1..Len(named) |-> named[q][2]]
                           nd == DictFromPairs(ks, vs, 1, d.keys, d.vals, h) IN
                       R([m EXCEPT !.heap[o.a].keys = nd.keys, !.heap[o.a].vals = nd.vals], NoneV))
         ELSE IF name = "popitem" THEN
            \* this implementation's dialect: removes and returns the FIRST item (the reference
            \* language removes the last); programs of the shared core do not use it
            (IF n # 0 THEN Arity(m, line)
             ELSE LET m1 == CanMutate(m, o.a, line) IN
                  IF ~Ok(m1) THEN R(m1, NoneV)
                  ELSE IF Len(d.keys) = 0 THEN R(Raise(m, "value", line), NoneV)
                  ELSE R([m EXCEPT !.heap[o.a].keys = Tail(@), !.heap[o.a].vals = Tail(d.vals)], TupV(<<d.keys[1], d.vals[1]>>)))
         ELSE IF name = "clear" THEN
            (IF n # 0 THEN Arity(m, line)
             ELSE LET m1 == CanMutate(m, o.a, line) IN
                  IF ~Ok(m1) THEN R(m1, NoneV)
                  ELSE R([m EXCEPT !.heap[o.a].keys = <<>>, !.heap[o.a].vals = <<>>], NoneV))
         ELSE Attr)
    ELSE IF IsSet(o, h) THEN
        (LET items == h[o.a].items IN
         IF name = "add" THEN
            (IF n # 1 THEN Arity(m, line)
             ELSE IF ~Hashable(pos[1], h) THEN R(Raise(m, "not_hashable", line), NoneV)
             ELSE LET m1 == CanMutate(m, o.a, line) IN
                  IF ~Ok(m1) THEN R(m1, NoneV)
                  ELSE IF DictFindIn(items, pos[1], h) # 0 THEN R(m, NoneV)
                  ELSE R([m EXCEPT !.heap[o.a].items = Append(@, pos[1])], NoneV))
         ELSE IF name = "remove" \/ name = "discard" THEN
            (IF n # 1 THEN Arity(m, line)
             ELSE IF ~Hashable(pos[1], h) THEN R(Raise(m, "not_hashable", line), NoneV)
             ELSE LET m1 == CanMutate(m, o.a, line) j == DictFindIn(items, pos[1], h) IN
                  IF ~Ok(m1) THEN R(m1, NoneV)
                  ELSE IF j = 0 THEN (IF name = "remove" THEN R(Raise(m, "key", line), NoneV) ELSE R(m, NoneV))
                  ELSE R([m EXCEPT !.heap[o.a].items = RemoveIdx(items, j)], NoneV))
         ELSE IF name = "pop" THEN
            (IF n # 0 THEN Arity(m, line)
             ELSE LET m1 == CanMutate(m, o.a, line) IN
                  IF ~Ok(m1) THEN R(m1, NoneV)
                  ELSE IF Len(items) = 0 THEN R(Raise(m, "value", line), NoneV)
                  ELSE R([m EXCEPT !.heap[o.a].items = SubSeq(items, 1, Len(items) - 1)], items[Len(items)]))
         ELSE IF name = "clear" THEN
            (IF n # 0 THEN Arity(m, line)
             ELSE LET m1 == CanMutate(m, o.a, line) IN
                  IF ~Ok(m1) THEN R(m1, NoneV) ELSE R([m EXCEPT !.heap[o.a].items = <<>>], NoneV))
         ELSE IF name = "update" THEN
            (IF n # 1 THEN R(Raise(m, "spec_domain", line), NoneV)
             ELSE LET io == IterOf(pos[1], h) m1 == CanMutate(m, o.a, line) IN
                  IF ~io.ok THEN TypeE(m, line)
                  ELSE IF \E i \in 1..Len(io.items) : ~Hashable(io.items[i], h) THEN R(Raise(m, "not_hashable", line), NoneV)
                  ELSE IF ~Ok(m1) THEN R(m1, NoneV)
                  ELSE R([m EXCEPT !.heap[o.a].items = Dedup(items \o io.items, 1, <<>>, h)], NoneV))
         ELSE IF name = "union" THEN
            (IF n # 1 THEN R(Raise(m, "spec_domain", line), NoneV)
             ELSE LET io == IterOf(pos[1], h) IN
                  IF ~io.ok THEN TypeE(m, line)
                  ELSE IF \E i \in 1..Len(io.items) : ~Hashable(io.items[i], h) THEN R(Raise(m, "not_hashable", line), NoneV)
                  ELSE NewSet(m, Dedup(items \o io.items, 1, <<>>, h)))
         ELSE IF name \in {"intersection", "difference", "symmetric_difference", "issubset", "issuperset"} THEN
            (IF n # 1 THEN R(Raise(m, "spec_domain", line), NoneV)
             ELSE LET io == IterOf(pos[1], h) IN
                  IF ~io.ok THEN TypeE(m, line)
                  ELSE IF \E i \in 1..Len(io.items) : ~Hashable(io.items[i], h) THEN R(Raise(m, "not_hashable", line), NoneV)
                  ELSE LET ys == Dedup(io.items, 1, <<>>, h) IN
                       IF name = "intersection" THEN NewSet(m, SetOp("&", items, ys, h))
                       ELSE IF name = "difference" THEN NewSet(m, SetOp("-", items, ys, h))
                       ELSE IF name = "symmetric_difference" THEN NewSet(m, SetOp("^", items, ys, h))
                       ELSE IF name = "issubset" THEN R(m, BoolV(\A i \in 1..Len(items) : DictFindIn(ys, items[i], h) # 0))
                       ELSE R(m, BoolV(\A i \in 1..Len(ys) : DictFindIn(items, ys[i], h) # 0)))
         ELSE Attr)
    ELSE IF o.t = "str" THEN
        (LET Dom == R(Raise(m, "spec_domain", line), NoneV)
             ValE == R(Raise(m, "value", line), NoneV)
             ArgOpt(i) == IF i <= n THEN OptInt(pos[i]) ELSE Opt(FALSE, 0)
             OptOk(i) == i > n \/ pos[i].t \in {"int", "none"}
             lo == WinLo(Len(o.s), ArgOpt(2))
             hi == WinHi(Len(o.s), ArgOpt(3))
             StrList(parts) == NewList(m, [i \in 1..Len(parts) |-> StrV(parts[i])])
         IN
         IF name \in {"upper", "lower", "capitalize", "title", "isalnum", "isalpha", "isdigit", "isspace",
                      "islower", "isupper", "istitle"} THEN
            (IF n # 0 THEN Arity(m, line)
             ELSE IF ~AsciiOnly(o.s) THEN Dom
             ELSE IF name = "upper" THEN R(m, StrV(Upper(o.s)))
             ELSE IF name = "lower" THEN R(m, StrV(Lower(o.s)))
             ELSE IF name = "capitalize" THEN R(m, StrV(Capitalize(o.s)))
             ELSE IF name = "title" THEN R(m, StrV(Title(o.s)))
             ELSE IF name = "isalnum" THEN R(m, BoolV(IsAlnumS(o.s)))
             ELSE IF name = "isalpha" THEN R(m, BoolV(IsAlphaS(o.s)))
             ELSE IF name = "isdigit" THEN R(m, BoolV(IsDigitS(o.s)))
             ELSE IF name = "isspace" THEN R(m, BoolV(IsSpaceS(o.s)))
             ELSE IF name = "islower" THEN R(m, BoolV(IsLowerS(o.s)))
             ELSE IF name = "isupper" THEN R(m, BoolV(IsUpperS(o.s)))
             ELSE R(m, BoolV(IsTitleS(o.s))))
         ELSE IF name \in {"strip", "lstrip", "rstrip"} THEN
            (IF n > 1 THEN Arity(m, line)
             ELSE IF n = 1 /\ pos[1].t = "none" THEN Dom     \* the reference accepts None; here: a type error
             ELSE IF n = 1 /\ pos[1].t # "str" THEN TypeE(m, line)
             ELSE IF ~AsciiOnly(o.s) THEN Dom
             ELSE IF n = 0 THEN
                R(m, StrV(IF name = "strip" THEN LStrip(RStrip(o.s)) ELSE IF name = "lstrip" THEN LStrip(o.s) ELSE RStrip(o.s)))
             ELSE LET cs == pos[1].s IN
                  R(m, StrV(IF name = "strip" THEN LStripC(RStripC(o.s, cs), cs)
                            ELSE IF name = "lstrip" THEN LStripC(o.s, cs) ELSE RStripC(o.s, cs))))
         ELSE IF name = "startswith" \/ name = "endswith" THEN
            (IF n < 1 \/ n > 3 THEN Arity(m, line)
             ELSE IF ~(pos[1].t = "str" \/ (pos[1].t = "tuple" /\ \A q \in 1..Len(pos[1].v) : pos[1].v[q].t = "str")) THEN TypeE(m, line)
             ELSE IF ~OptOk(2) \/ ~OptOk(3) THEN TypeE(m, line)
             ELSE LET ps == IF pos[1].t = "str" THEN <<pos[1].s>> ELSE [q \in 1..Len(pos[1].v) |-> pos[1].v[q].s]
                      w == IF hi >= lo THEN SubSeq(o.s, lo + 1, hi) ELSE <<>> IN
                  IF lo > hi THEN Dom         \* an inverted window: the reference language has its own rule
                  \* a window that starts beyond the end matches nothing, not even the empty string
                  ELSE IF n >= 2 /\ pos[2].t = "int" /\ pos[2].v > Len(o.s) THEN R(m, BoolV(FALSE))
                  ELSE IF name = "startswith" THEN R(m, BoolV(\E q \in 1..Len(ps) : MatchAt(w, ps[q], 0)))
                  ELSE R(m, BoolV(\E q \in 1..Len(ps) : Len(ps[q]) <= Len(w) /\ MatchAt(w, ps[q], Len(w) - Len(ps[q])))))
         ELSE IF name \in {"find", "rfind", "index", "rindex", "count"} THEN
            (IF n < 1 \/ n > 3 THEN Arity(m, line)
             ELSE IF pos[1].t # "str" \/ ~OptOk(2) \/ ~OptOk(3) THEN TypeE(m, line)
             ELSE IF Len(pos[1].s) = 0 /\ n > 1 THEN Dom       \* empty needle in a window: outside the shared core
             ELSE LET nd == pos[1].s
                      r == IF name = "count" THEN (IF Len(nd) = 0 THEN Len(o.s) + 1 ELSE CountIn(o.s, nd, lo, hi))
                           ELSE IF name = "find" \/ name = "index" THEN FindIn(o.s, nd, lo, hi)
                           ELSE RFindIn(o.s, nd, lo, hi) IN
                  IF r = -1 /\ (name = "index" \/ name = "rindex") THEN ValE ELSE R(m, IntV(r)))
         ELSE IF name = "replace" THEN
            (IF n < 2 \/ n > 3 THEN Arity(m, line)
             ELSE IF pos[1].t # "str" \/ pos[2].t # "str" THEN TypeE(m, line)
             ELSE IF n = 3 /\ pos[3].t \notin {"int", "none"} THEN TypeE(m, line)
             ELSE IF n = 3 /\ pos[3].t = "int" /\ pos[3].v < 0 THEN Dom    \* the reference: all; here: an error
             ELSE R(m, StrV(ReplaceMax(o.s, pos[1].s, pos[2].s, IF n = 3 /\ pos[3].t = "int" THEN pos[3].v ELSE -1))))
         ELSE IF name = "split" \/ name = "rsplit" THEN
            (IF n > 2 THEN Arity(m, line)
             ELSE IF n >= 1 /\ pos[1].t \notin {"str", "none"} THEN TypeE(m, line)
             ELSE IF ~OptOk(2) THEN TypeE(m, line)
             ELSE LET k == IF n = 2 /\ pos[2].t = "int" THEN (IF pos[2].v < 0 THEN -1 ELSE pos[2].v) ELSE -1 IN
                  IF n = 0 \/ pos[1].t = "none" THEN
                      (IF ~AsciiOnly(o.s) THEN Dom
                       ELSE StrList(IF name = "split" THEN SplitWs(o.s, k) ELSE RSplitWs(o.s, k)))
                  ELSE IF Len(pos[1].s) = 0 THEN Dom         \* the reference: an error; here: per-character
                  ELSE StrList(IF name = "split" THEN SplitMax(o.s, pos[1].s, k) ELSE RSplitMax(o.s, pos[1].s, k)))
         ELSE IF name = "partition" \/ name = "rpartition" THEN
            (IF n # 1 THEN Arity(m, line)
             ELSE IF pos[1].t # "str" THEN TypeE(m, line)
             ELSE IF Len(pos[1].s) = 0 THEN ValE
             ELSE LET t == IF name = "partition" THEN Partition(o.s, pos[1].s) ELSE RPartition(o.s, pos[1].s) IN
                  R(m, TupV(<<StrV(t[1]), StrV(t[2]), StrV(t[3])>>)))
         ELSE IF name = "splitlines" THEN
            (IF n > 1 THEN Arity(m, line)
             ELSE IF n = 1 /\ pos[1].t # "bool" THEN (IF pos[1].t = "int" THEN Dom ELSE TypeE(m, line))
             ELSE IF ~AsciiOnly(o.s) THEN Dom
             ELSE StrList(SplitLines(o.s, n = 1 /\ pos[1].b)))
         ELSE IF name = "removeprefix" \/ name = "removesuffix" THEN
            (IF n # 1 THEN Arity(m, line)
             ELSE IF pos[1].t # "str" THEN TypeE(m, line)
             ELSE LET x == pos[1].s IN
                  IF name = "removeprefix" THEN R(m, StrV(IF MatchAt(o.s, x, 0) THEN SubSeq(o.s, Len(x) + 1, Len(o.s)) ELSE o.s))
                  ELSE R(m, StrV(IF Len(x) <= Len(o.s) /\ MatchAt(o.s, x, Len(o.s) - Len(x)) THEN SubSeq(o.s, 1, Len(o.s) - Len(x)) ELSE o.s)))
         ELSE IF name = "format" THEN
            (LET f == DotFormat(o.s, pos, [q \in 1..Len(named) |-> named[q][1]], [q \in 1..Len(named) |-> named[q][2]], h) IN
             IF f.kind = "" THEN R(m, StrV(f.s)) ELSE R(Raise(m, f.kind, line), NoneV))
         ELSE IF name = "join" THEN
            (IF n # 1 THEN Arity(m, line)
             ELSE LET io == IterOf(pos[1], h) IN
                  IF ~io.ok THEN TypeE(m, line)
                  ELSE IF \E i \in 1..Len(io.items) : io.items[i].t # "str" THEN TypeE(m, line)
                  ELSE R(m, StrV(JoinSeq([i \in 1..Len(io.items) |-> io.items[i].s], o.s, 1))))
         ELSE IF name \in {"elems", "codepoints"} THEN Dom
         ELSE Attr)
    ELSE Attr

(* ------------------------------------------------------------------ running a module *)
M0(cap, tr) == [heap |-> <<>>, out |-> <<>>, err |-> [kind |-> "", line |-> 0], ev |-> <<>>,
                depth |-> 0, cap |-> cap, tr |-> tr, tk |-> 0, tkfail |-> 0, tkkind |-> "ticks", maxd |-> 0]

(* the module frame declares every name assigned anywhere at module level *)
RunModule(stmts, cap, tr) ==
    LET names == SetToSeq(AssignedS(stmts, 1))
        fr == NewFrame(M0(cap, tr), names, [i \in 1..Len(names) |-> UnboundV])
        r == ExecB(stmts, 1, <<fr.a>>, fr.m)
    IN r.m

(* ------------------------------------------------------------------ sessions
   Several chunks evaluated one after another on the same module (each chunk = one eval_module
   call on the same evaluator).  A failing chunk leaves its partial effects; the next chunk starts
   with an empty call stack, and -- the properties' rule -- with every iteration lock released. *)
NoErr == [kind |-> "", line |-> 0]
RECURSIVE AssignedChunks(_, _), RunChunks(_, _, _, _, _), RunChunksS(_, _, _, _, _, _)
AssignedChunks(chunks, i) == IF i > Len(chunks) THEN {} ELSE AssignedS(chunks[i], 1) \cup AssignedChunks(chunks, i + 1)
RunChunks(chunks, i, env, m, acc) ==
    IF i > Len(chunks) THEN [m |-> m, res |-> acc]
    ELSE LET m0 == [m EXCEPT !.out = <<>>, !.err = NoErr, !.depth = 0]
             r == ExecB(chunks[i], 1, env, m0)
             m1 == Ev(r.m, [e |-> "chunk_end", a |-> i, why |-> r.m.err.kind])
         IN RunChunks(chunks, i + 1, env, m1, Append(acc, [out |-> r.m.out, err |-> r.m.err]))
(* `static[i]`: chunk i refers to a name bound nowhere, so it is rejected before any of its
   statements runs: no effect at all, outcome kind "static" *)
RunChunksS(chunks, static, i, env, m, acc) ==
    IF i > Len(chunks) THEN [m |-> m, res |-> acc]
    ELSE IF static[i] THEN RunChunksS(chunks, static, i + 1, env, m, Append(acc, [out |-> <<>>, err |-> [kind |-> "static", line |-> 0]]))
    ELSE LET m0 == [m EXCEPT !.out = <<>>, !.err = NoErr, !.depth = 0]
             r == ExecB(chunks[i], 1, env, m0)
         IN RunChunksS(chunks, static, i + 1, env, r.m, Append(acc, [out |-> r.m.out, err |-> r.m.err]))
RunSessionS(chunks, static, cap) ==
    LET live == SelectSeq([i \in 1..Len(chunks) |-> IF static[i] THEN <<>> ELSE chunks[i]], LAMBDA c : TRUE)
        names == SetToSeq(AssignedChunks(live, 1))
        fr == NewFrame(M0(cap, FALSE), names, [i \in 1..Len(names) |-> UnboundV])
    IN RunChunksS(chunks, static, 1, <<fr.a>>, fr.m, <<>>)
RunSession(chunks, cap, tr) ==
    LET names == SetToSeq(AssignedChunks(chunks, 1))
        fr == NewFrame(M0(cap, tr), names, [i \in 1..Len(names) |-> UnboundV])
    IN RunChunks(chunks, 1, <<fr.a>>, fr.m, <<>>)
(* ------------------------------------------------------------------ freezing and loading
   Module A is evaluated, then frozen: every list and dict that exists becomes immutable for ever
   (values are preserved: nothing else changes).  Importing modules see A's names (load) in an
   enclosing frame and bind their own names in a fresh frame; each importer is a session. *)
FreezeAll(m) ==
    [m EXCEPT !.heap = [a \in 1..Len(m.heap) |->
                          IF m.heap[a].kind \in {"list", "dict", "set"} THEN [m.heap[a] EXCEPT !.frozen = TRUE] ELSE m.heap[a]]]
RECURSIVE RunImporters(_, _, _, _, _)
RunImporters(mods, i, frA, m, acc) ==
    IF i > Len(mods) THEN acc
    ELSE LET names == SetToSeq(AssignedChunks(mods[i], 1))
             fr == NewFrame(m, names, [j \in 1..Len(names) |-> UnboundV])
             r == RunChunks(mods[i], 1, <<fr.a, frA>>, fr.m, <<>>)
         IN RunImporters(mods, i + 1, frA, r.m, Append(acc, r.res))
RunFrozen(chunkA, mods, cap) ==
    LET names == SetToSeq(AssignedS(chunkA, 1))
        fr == NewFrame(M0(cap, FALSE), names, [i \in 1..Len(names) |-> UnboundV])
        a == ExecB(chunkA, 1, <<fr.a>>, fr.m)
        f == FreezeAll([a.m EXCEPT !.out = <<>>])
    IN [a |-> [out |-> a.m.out, err |-> a.m.err],
        mods |-> IF Ok(a.m) THEN RunImporters(mods, 1, fr.a, f, <<>>) ELSE <<>>]

(* a chain: A is frozen; B loads from A, is evaluated and frozen; the importers load from B.
   (Names never clash between the modules of a case, so the importers' environment is simply
   <<own frame, B's frame, A's frame>>.) *)
RECURSIVE RunImporters2(_, _, _, _, _, _)
RunImporters2(mods, i, frB, frA, m, acc) ==
    IF i > Len(mods) THEN acc
    ELSE LET names == SetToSeq(AssignedChunks(mods[i], 1))
             fr == NewFrame(m, names, [j \in 1..Len(names) |-> UnboundV])
             r == RunChunks(mods[i], 1, <<fr.a, frB, frA>>, fr.m, <<>>)
         IN RunImporters2(mods, i + 1, frB, frA, r.m, Append(acc, r.res))
RunFrozenChain(chunkA, chunkB, mods, cap) ==
    LET namesA == SetToSeq(AssignedS(chunkA, 1))
        frA == NewFrame(M0(cap, FALSE), namesA, [i \in 1..Len(namesA) |-> UnboundV])
        a == ExecB(chunkA, 1, <<frA.a>>, frA.m)
        fa == FreezeAll(a.m)
        namesB == SetToSeq(AssignedS(chunkB, 1))
        frB == NewFrame(fa, namesB, [i \in 1..Len(namesB) |-> UnboundV])
        b == ExecB(chunkB, 1, <<frB.a, frA.a>>, frB.m)
        fb == FreezeAll([b.m EXCEPT !.out = <<>>])
    IN [a |-> [out |-> b.m.out, err |-> b.m.err],      \* everything emitted before B is frozen
        mods |-> IF Ok(b.m) THEN RunImporters2(mods, 1, frB.a, frA.a, fb, <<>>) ELSE <<>>]

SessionInDomain(res) == \A i \in 1..Len(res) : res[i].err.kind # "spec_domain"
=============================================================================

----------------------- MODULE Trace_ChunkAlloc -----------------------
(* V for C20: the chunk_* / cache_* hook events recorded while many threads build, share, send and
   drop frozen heaps are checked for linearizability against the reference-count protocol of
   ChunkRc.tla (the layer ChunkAlloc.tla model-checks).

   The counter is lock-free: chunk_inc_begin/end and chunk_dec_begin/end bracket each operation and
   the atomic step is an *internal* action that may happen anywhere between them, so operations
   whose windows overlap may linearize either way -- a correct execution is never rejected for
   ordering reasons.  (Reduction: steps on different chunks commute, so an internal step is only
   taken when the next event observes the same chunk: an inc_end, dec_end or free of that chunk.)
   Accepted iff some linearization explains every event:
     - chunk_inc_end's logged previous value is the model's; the count never goes below zero;
     - chunk_free happens exactly in the decrement that saw 1 (and that decrement does free);
     - no operation begins on a released chunk until malloc hands the address out again
       (chunk_alloc of a released address starts a new incarnation);
     - a part stored in a thread cache lies inside a live chunk and overlaps no other cached part;
       a part fetched from a cache was stored there by the same thread.
   Addresses are rank-compressed by the harness (order preserving).  Chunks allocated before the
   recording started are unknown: their events are skipped. *)
EXTENDS Integers, Sequences, FiniteSets, TLC, Json, IOUtils

Rec == ndJsonDeserialize(IOEnv.TRACE)
N == Len(Rec)
TThreads == {Rec[i].t : i \in 1..N}
TChunks == {Rec[i].c : i \in 1..N} \ {0}

VARIABLES live, freed, rc, pend, err,
          range,     \* [TChunks -> <<b, e>>] data range of the latest incarnation
          stored,    \* set of <<t, b, e>>: parts put into thread t's cache and not fetched since
          l          \* next event

Rc == INSTANCE ChunkRc WITH Threads <- TThreads, Chunks <- TChunks, FreeAt <- 1
rcvars == <<live, freed, rc, pend, err>>
tvars == <<rcvars, range, stored, l>>

Ev == Rec[l]
Unknown(c) == c \notin live /\ c \notin freed
Consume == l' = l + 1
Skip == Consume /\ UNCHANGED <<rcvars, range, stored>>

Inside(b, e, c) == range[c][1] <= b /\ e <= range[c][2]
Holder(b, e) == {c \in live : Inside(b, e, c)}
WasIn(b, e) == {c \in freed : Inside(b, e, c)}
Overlaps(b, e) == {s \in stored : s[2] < e /\ b < s[3]}

EvAlloc == /\ Ev.a = "alloc"
           /\ Rc!Alloc(Ev.c)
           /\ range' = [range EXCEPT ![Ev.c] = <<Ev.b, Ev.e>>]
           /\ Consume /\ UNCHANGED stored

EvIncB == /\ Ev.a = "incb"
          /\ IF Unknown(Ev.c) THEN Skip
             ELSE Rc!IncBegin(Ev.t, Ev.c) /\ Consume /\ UNCHANGED <<range, stored>>

EvIncE == /\ Ev.a = "ince"
          /\ IF pend[Ev.t].op = "none" THEN Skip
             ELSE /\ pend[Ev.t].op = "inc" /\ pend[Ev.t].c = Ev.c
                  /\ pend[Ev.t].done /\ pend[Ev.t].prev = Ev.v
                  /\ Rc!IncEnd(Ev.t) /\ Consume /\ UNCHANGED <<range, stored>>

EvDecB == /\ Ev.a = "decb"
          /\ IF Unknown(Ev.c) THEN Skip
             ELSE Rc!DecBegin(Ev.t, Ev.c) /\ Consume /\ UNCHANGED <<range, stored>>

EvFree == /\ Ev.a = "free"
          /\ IF pend[Ev.t].op = "none" THEN Skip
             ELSE /\ pend[Ev.t].op = "dec" /\ pend[Ev.t].c = Ev.c
                  /\ Rc!FreeStep(Ev.t)
                  /\ stored' = {s \in stored : ~(range[Ev.c][1] <= s[2] /\ s[3] <= range[Ev.c][2])}
                  /\ Consume /\ UNCHANGED range

EvDecE == /\ Ev.a = "dece"
          /\ IF pend[Ev.t].op = "none" THEN Skip
             ELSE /\ pend[Ev.t].op = "dec" /\ pend[Ev.t].c = Ev.c
                  /\ Rc!DecEnd(Ev.t) /\ Consume /\ UNCHANGED <<range, stored>>

EvStore == /\ Ev.a = "store"
           /\ IF Holder(Ev.b, Ev.e) = {}
              THEN WasIn(Ev.b, Ev.e) = {} /\ Skip                   \* unknown memory; a released chunk's: reject
              ELSE /\ Ev.v >= 1 /\ Overlaps(Ev.b, Ev.e) = {}
                   /\ stored' = stored \cup {<<Ev.t, Ev.b, Ev.e>>}
                   /\ Consume /\ UNCHANGED <<rcvars, range>>

EvFetch == /\ Ev.a = "fetch"
           /\ IF Holder(Ev.b, Ev.e) = {}
              THEN WasIn(Ev.b, Ev.e) = {} /\ Skip
              ELSE /\ Ev.v >= 1 /\ <<Ev.t, Ev.b, Ev.e>> \in stored
                   /\ stored' = stored \ {<<Ev.t, Ev.b, Ev.e>>}
                   /\ Consume /\ UNCHANGED <<rcvars, range>>

\* the atomic fetch_add / fetch_sub of an operation in progress
Observes == l <= N /\ Ev.a \in {"ince", "dece", "free"}
Internal == /\ Observes
            /\ \E t \in TThreads :
                 /\ pend[t].op # "none" /\ ~pend[t].done /\ pend[t].c = Ev.c
                 /\ Rc!IncStep(t) \/ Rc!DecStep(t)
            /\ UNCHANGED <<range, stored, l>>

TInit == /\ Rc!RcInit
         /\ range = [c \in TChunks |-> <<0, 0>>]
         /\ stored = {}
         /\ l = 1
         /\ TLCSet(1, 1)

TNext == /\ \/ l <= N /\ (EvAlloc \/ EvIncB \/ EvIncE \/ EvDecB \/ EvFree \/ EvDecE \/ EvStore \/ EvFetch)
            \/ Internal
         /\ err' = ""                         \* an unsafe step is not a behaviour of the model
         /\ TLCSet(1, IF l' > TLCGet(1) THEN l' ELSE TLCGet(1))     \* furthest event reached

TSpec == TInit /\ [][TNext]_tvars

TInv == Rc!RcNonNegative /\ Rc!NoError

Accepted ==
    LET d == TLCGet(1) IN
    IF d = N + 1 THEN TRUE
    ELSE /\ PrintT(<<"REJECTED", d, ToJson(Rec[d])>>)
         /\ FALSE
=======================================================================

--------------------------- MODULE SmallMap ---------------------------
(* starlark_map::SmallMap: an insertion-ordered vector of entries plus an optional hash index
   (`index: Option<Box<HashTable<usize>>>`) that is created when the map grows beyond
   Threshold entries and is then maintained incrementally by every mutator.

   One action per public mutator, updating the index exactly the way small_map.rs does
   (not by recomputation), so that the invariant IndexOK is a real statement about the
   algorithm.  Lookups go THROUGH the index when it exists.

   The abstract reading of the map (what C11 promises) is the bare sequence `entries`. *)
EXTENDS Naturals, Sequences, FiniteSets, TLC

CONSTANTS Keys,        \* finite set of naturals
          Vals,        \* finite set of naturals
          HashOf,      \* function Keys -> hash class (Nat)
          Threshold,   \* NO_INDEX_THRESHOLD
          MaxLen       \* bound on Len(entries) (model only)

VARIABLES entries,     \* Seq([k, v])
          on,          \* BOOLEAN: index present
          idx,         \* set of <<hash, pos>> : the HashTable<usize> contents, keyed by hash
          last         \* [op, k, v, i, ret] of the last action (observation)

vars == <<entries, on, idx, last>>

None == [some |-> FALSE, v |-> 0]
Some(x) == [some |-> TRUE, v |-> x]

Range(f) == {f[i] : i \in DOMAIN f}
KeySeq(es) == [i \in 1..Len(es) |-> es[i].k]
BuildIndex(es) == {<<HashOf[es[i].k], i>> : i \in 1..Len(es)}

(* position of key k: through the index when it exists -- this is
   get_index_of_hashed_raw: index.find(hash, |i| entries[i].key == k) *)
LinearPos(es, k) == IF \E i \in 1..Len(es) : es[i].k = k
                    THEN CHOOSE i \in 1..Len(es) : es[i].k = k /\ \A j \in 1..(i-1) : es[j].k # k
                    ELSE 0
IndexPos(es, ix, k) ==
    LET cands == {p \in 1..Len(es) : <<HashOf[k], p>> \in ix /\ es[p].k = k}
    IN IF cands = {} THEN 0 ELSE CHOOSE p \in cands : TRUE
Pos(k) == IF on THEN IndexPos(entries, idx, k) ELSE LinearPos(entries, k)

RemoveAt(s, i) == [j \in 1..(Len(s)-1) |-> IF j < i THEN s[j] ELSE s[j+1]]
Rev(s) == [j \in 1..Len(s) |-> s[Len(s) + 1 - j]]

Init == /\ entries = <<>> /\ on = FALSE /\ idx = {}
        /\ last = [op |-> "init", k |-> 0, v |-> 0, i |-> 0, ret |-> None, s |-> {}]

(* insert_hashed_unique_unchecked *)
AppendEntry(k, v) ==
    /\ entries' = Append(entries, [k |-> k, v |-> v])
    /\ IF on THEN /\ idx' = idx \cup {<<HashOf[k], Len(entries) + 1>>} /\ on' = TRUE
       ELSE IF Len(entries) + 1 = Threshold + 1
            THEN /\ on' = TRUE /\ idx' = BuildIndex(entries')        \* create_index
            ELSE /\ on' = FALSE /\ idx' = {}

Insert(k, v) ==
    /\ Len(entries) < MaxLen \/ Pos(k) # 0
    /\ LET p == Pos(k) IN
       IF p = 0
       THEN /\ AppendEntry(k, v)
            /\ last' = [op |-> "insert", k |-> k, v |-> v, i |-> 0, ret |-> None, s |-> {}]
       ELSE /\ entries' = [entries EXCEPT ![p].v = v]
            /\ UNCHANGED <<on, idx>>
            /\ last' = [op |-> "insert", k |-> k, v |-> v, i |-> 0, ret |-> Some(entries[p].v), s |-> {}]

(* insert_unique_unchecked: caller promises the key is absent *)
InsertUnique(k, v) ==
    /\ Len(entries) < MaxLen
    /\ \A i \in 1..Len(entries) : entries[i].k # k
    /\ AppendEntry(k, v)
    /\ last' = [op |-> "insert_unique", k |-> k, v |-> v, i |-> 0, ret |-> None, s |-> {}]

(* shift_remove_hashed_entry *)
ShiftRemove(k) ==
    LET p == Pos(k) IN
    IF p = 0
    THEN /\ UNCHANGED <<entries, on, idx>>
         /\ last' = [op |-> "shift_remove", k |-> k, v |-> 0, i |-> 0, ret |-> None, s |-> {}]
    ELSE /\ entries' = RemoveAt(entries, p)
         /\ on' = on
         /\ idx' = IF on
                   THEN {<<e[1], IF e[2] > p THEN e[2] - 1 ELSE e[2]>> : e \in idx \ {<<HashOf[k], p>>}}
                   ELSE {}
         /\ last' = [op |-> "shift_remove", k |-> k, v |-> 0, i |-> 0, ret |-> Some(entries[p].v), s |-> {}]

(* shift_remove_index_hashed: index.retain(|j| ...) *)
ShiftRemoveIndex(i) ==
    /\ i \in 0..Len(entries)           \* 0-based argument i; i = Len(entries) is out of range
    /\ IF i >= Len(entries)
       THEN /\ UNCHANGED <<entries, on, idx>>
            /\ last' = [op |-> "shift_remove_index", k |-> 0, v |-> 0, i |-> i, ret |-> None, s |-> {}]
       ELSE LET p == i + 1 IN
            /\ entries' = RemoveAt(entries, p)
            /\ on' = on
            /\ idx' = IF on
                      THEN {<<e[1], IF e[2] > p THEN e[2] - 1 ELSE e[2]>> : e \in {x \in idx : x[2] # p}}
                      ELSE {}
            /\ last' = [op |-> "shift_remove_index", k |-> entries[p].k, v |-> 0, i |-> i,
                        ret |-> Some(entries[p].v), s |-> {}]

(* pop: entries.pop(), then index.find_entry(hash, |i| i == len).remove() *)
Pop ==
    IF Len(entries) = 0
    THEN /\ UNCHANGED <<entries, on, idx>>
         /\ last' = [op |-> "pop", k |-> 0, v |-> 0, i |-> 0, ret |-> None, s |-> {}]
    ELSE LET n == Len(entries) e == entries[n] IN
         /\ entries' = SubSeq(entries, 1, n - 1)
         /\ on' = on
         /\ idx' = IF on THEN idx \ {<<HashOf[e.k], n>>} ELSE {}
         /\ last' = [op |-> "pop", k |-> e.k, v |-> 0, i |-> 0, ret |-> Some(e.v), s |-> {}]

(* reverse: every bucket j becomes len-1-j *)
Reverse ==
    /\ entries' = Rev(entries)
    /\ on' = on
    /\ idx' = IF on THEN {<<e[1], Len(entries) + 1 - e[2]>> : e \in idx} ELSE {}
    /\ last' = [op |-> "reverse", k |-> 0, v |-> 0, i |-> 0, ret |-> None, s |-> {}]

(* sort_keys: sort entries, rebuild_index on drop *)
SortedSeq(es) ==
    LET ks == {es[i].k : i \in 1..Len(es)}
        rank(k) == Cardinality({x \in ks : x < k}) + 1
    IN [r \in 1..Len(es) |-> LET k == CHOOSE k \in ks : rank(k) = r
                              IN es[CHOOSE i \in 1..Len(es) : es[i].k = k]]
SortKeys ==
    /\ entries' = SortedSeq(entries)
    /\ on' = on
    /\ idx' = IF on THEN BuildIndex(entries') ELSE {}
    /\ last' = [op |-> "sort_keys", k |-> 0, v |-> 0, i |-> 0, ret |-> None, s |-> {}]

(* retain(pred): pred = key \in S; rebuild_index iff something was removed *)
SelectSeqBy(es, S) ==
    LET F[i \in 0..Len(es)] == IF i = 0 THEN <<>>
                               ELSE IF es[i].k \in S THEN Append(F[i-1], es[i]) ELSE F[i-1]
    IN F[Len(es)]
Retain(S) ==
    /\ entries' = SelectSeqBy(entries, S)
    /\ on' = on
    /\ idx' = IF on THEN (IF Len(entries') < Len(entries) THEN BuildIndex(entries') ELSE idx) ELSE {}
    /\ last' = [op |-> "retain", k |-> 0, v |-> 0, i |-> 0, ret |-> None, s |-> S]

(* clear keeps the index object *)
Clear ==
    /\ entries' = <<>>
    /\ on' = on
    /\ idx' = {}
    /\ last' = [op |-> "clear", k |-> 0, v |-> 0, i |-> 0, ret |-> None, s |-> {}]

(* reserve(additional) *)
Reserve(n) ==
    /\ entries' = entries
    /\ IF on THEN UNCHANGED <<on, idx>>
       ELSE IF Len(entries) + n > Threshold
            THEN /\ on' = TRUE /\ idx' = BuildIndex(entries)
            ELSE UNCHANGED <<on, idx>>
    /\ last' = [op |-> "reserve", k |-> 0, v |-> 0, i |-> n, ret |-> None, s |-> {}]

MaybeDropIndex ==
    /\ entries' = entries
    /\ IF Len(entries) <= Threshold THEN /\ on' = FALSE /\ idx' = {} ELSE UNCHANGED <<on, idx>>
    /\ last' = [op |-> "maybe_drop_index", k |-> 0, v |-> 0, i |-> 0, ret |-> None, s |-> {}]

(* entry(k).or_insert(v): returns the value now stored *)
EntryOrInsert(k, v) ==
    /\ Len(entries) < MaxLen \/ Pos(k) # 0
    /\ LET p == Pos(k) IN
       IF p = 0
       THEN /\ AppendEntry(k, v)
            /\ last' = [op |-> "entry_or_insert", k |-> k, v |-> v, i |-> 0, ret |-> Some(v), s |-> {}]
       ELSE /\ UNCHANGED <<entries, on, idx>>
            /\ last' = [op |-> "entry_or_insert", k |-> k, v |-> v, i |-> 0, ret |-> Some(entries[p].v), s |-> {}]

(* a pure lookup, recorded so that traces can carry lookups too *)
Get(k) ==
    /\ UNCHANGED <<entries, on, idx>>
    /\ last' = [op |-> "get", k |-> k, v |-> 0, i |-> Pos(k),
                ret |-> (IF Pos(k) = 0 THEN None ELSE Some(entries[Pos(k)].v)), s |-> {}]

Next == \/ \E k \in Keys, v \in Vals : Insert(k, v) \/ InsertUnique(k, v) \/ EntryOrInsert(k, v)
        \/ \E k \in Keys : ShiftRemove(k)
        \/ \E i \in 0..MaxLen : ShiftRemoveIndex(i)
        \/ Pop \/ Reverse \/ SortKeys \/ Clear \/ MaybeDropIndex
        \/ \E S \in SUBSET Keys : Retain(S)
        \/ \E n \in 0..MaxLen : Reserve(n)

Spec == Init /\ [][Next]_vars

(* ------------------------------------------------------------------ properties *)
NoDup == \A i, j \in 1..Len(entries) : i # j => entries[i].k # entries[j].k
IndexOK == IF on THEN idx = BuildIndex(entries) ELSE idx = {}
IndexWhenBig == Len(entries) > Threshold => on
LookupAgrees == \A k \in Keys : Pos(k) = LinearPos(entries, k)
TypeOK == /\ \A i \in 1..Len(entries) : entries[i].k \in Keys /\ entries[i].v \in Vals
          /\ on \in BOOLEAN
=======================================================================

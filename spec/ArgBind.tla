------------------------------ MODULE ArgBind ------------------------------
(* The Starlark / Python call rules as a pure function.

   Written from the language definition (Python reference 6.3.4 "Calls", 8.7 "Function
   definitions"; Starlark spec "Function and method calls"), in the order the text states them:

     1. the positional arguments -- the explicit ones followed by the elements of `*seq` -- are
        placed in the first slots of the parameters that can be filled positionally;
     2. positional arguments in excess of those slots go to `*args` as a tuple, and are an error
        if the function has no `*args`;
     3. every keyword argument -- the explicit `name=value` ones in call order followed by the
        entries of `**map` in its order -- names its slot; positional-only parameters, `*args`
        and `**kwargs` have no name a keyword can refer to;
     4. a keyword whose slot is already filled, or that has been given before, is an error;
     5. a keyword that names no slot goes to `**kwargs` (a dict in arrival order), and is an
        error if the function has no `**kwargs`;
     6. slots still empty receive their default value;
     7. an empty slot without default is an error.

   Only WHETHER a call is well formed and the bound values are part of the property; when
   several rules are violated `err` names the first in the order above, for coverage counting
   only -- it is never compared with the implementation.

   A signature is a sequence of parameters
       [name : STRING, kind : {"posonly","normal","args","kwonly","kwargs"},
        hasDefault : BOOLEAN, default : Nat]
   (a bare `*` is implied by a "kwonly" parameter without an "args" parameter before it).
   A call is
       [pos : Seq(Nat), named : Seq([name, v]), hasStar : BOOLEAN, star : Seq(Nat),
        hasStarStar : BOOLEAN, starstar : Seq([name, v])]
   `starstar` has pairwise distinct names (it is a dict); `named` has pairwise distinct names
   (a repeated name is rejected statically, see CallTokensOK).                                *)
EXTENDS Naturals, Sequences, FiniteSets

Kinds == {"posonly", "normal", "args", "kwonly", "kwargs"}

Rank(k) == CASE k = "posonly" -> 1
             [] k = "normal"  -> 2
             [] k = "args"    -> 3
             [] k = "kwonly"  -> 4
             [] k = "kwargs"  -> 5

Min(a, b) == IF a < b THEN a ELSE b

(* ------------------------------------------------------------------ signatures *)

Positional(p) == p.kind \in {"posonly", "normal"}      \* can be filled by position
Nameable(p)   == p.kind \in {"normal", "kwonly"}       \* can be filled by keyword

(* Well-formedness of a signature given as a parameter sequence. *)
WellFormedSig(sig) ==
    /\ \A i, j \in 1..Len(sig) : i # j => sig[i].name # sig[j].name
    /\ \A i, j \in 1..Len(sig) : i < j => Rank(sig[i].kind) <= Rank(sig[j].kind)
    /\ Cardinality({i \in 1..Len(sig) : sig[i].kind = "args"}) <= 1
    /\ Cardinality({i \in 1..Len(sig) : sig[i].kind = "kwargs"}) <= 1
    /\ \A i \in 1..Len(sig) : sig[i].kind \in {"args", "kwargs"} => ~sig[i].hasDefault
    \* a positional parameter without default may not follow one with default
    /\ \A i, j \in 1..Len(sig) :
          (i < j /\ Positional(sig[i]) /\ Positional(sig[j]) /\ sig[i].hasDefault) => sig[j].hasDefault

(* The same rules over the TEXT of a parameter list: a sequence of tokens
   "p" (name) | "d" (name=default) | "/" | "*" | "*a" (star-args) | "**k" (star-star-kwargs).
   (Names are made distinct by whoever renders the tokens.) *)
SigTokensOK(t) ==
    LET n == Len(t)
        Is(i, s) == t[i] \in s
        stars == {i \in 1..n : Is(i, {"*", "*a"})}
        slashes == {i \in 1..n : t[i] = "/"}
        kws == {i \in 1..n : t[i] = "**k"}
        firstStar == IF stars = {} THEN n + 1 ELSE CHOOSE i \in stars : \A j \in stars : i <= j
    IN /\ Cardinality(stars) <= 1
       /\ Cardinality(slashes) <= 1
       /\ Cardinality(kws) <= 1
       /\ \A i \in kws : i = n                                          \* **kwargs is last
       /\ \A i \in slashes : i > 1 /\ i < firstStar                     \* `/` not first, before `*`
       /\ \A i \in 1..n : t[i] = "*" => (i < n /\ Is(i + 1, {"p", "d"})) \* bare * needs a named param
       /\ \A i, j \in 1..n : (i < j /\ j < firstStar /\ t[i] = "d") => t[j] # "p"
                                                                        \* no required after default

(* Call-site text: tokens "v" (positional) | "n1".."n3" (name=value, the digit identifies the
   name) | "*s" | "**m".  Starlark order: positional, named, *seq, **map; names distinct. *)
CallStage(tok) == CASE tok = "v" -> 1 [] tok = "*s" -> 3 [] tok = "**m" -> 4 [] OTHER -> 2
CallTokensOK(t) ==
    /\ \A i, j \in 1..Len(t) : i < j => CallStage(t[i]) <= CallStage(t[j])
    /\ \A i, j \in 1..Len(t) : (i < j /\ CallStage(t[i]) >= 2) => t[i] # t[j]

(* ------------------------------------------------------------------ binding *)

NoErr == ""

IndexOfKind(sig, k) == IF \E i \in 1..Len(sig) : sig[i].kind = k
                       THEN CHOOSE i \in 1..Len(sig) : sig[i].kind = k
                       ELSE 0

(* indices of the positionally fillable parameters, in order *)
RECURSIVE PosSlotsFrom(_, _)
PosSlotsFrom(sig, i) == IF i > Len(sig) THEN <<>>
                        ELSE IF Positional(sig[i]) THEN <<i>> \o PosSlotsFrom(sig, i + 1)
                        ELSE PosSlotsFrom(sig, i + 1)
PosSlots(sig) == PosSlotsFrom(sig, 1)

SlotOfName(sig, name) ==
    IF \E i \in 1..Len(sig) : Nameable(sig[i]) /\ sig[i].name = name
    THEN CHOOSE i \in 1..Len(sig) : Nameable(sig[i]) /\ sig[i].name = name
    ELSE 0

Empty == [set |-> FALSE, v |-> 0]
Full(x) == [set |-> TRUE, v |-> x]

(* rules 3-5, one keyword at a time; st = [slots, extra, err] *)
RECURSIVE Keywords(_, _, _, _)
Keywords(sig, kws, i, st) ==
    IF i > Len(kws) \/ st.err # NoErr THEN st
    ELSE LET kw == kws[i]
             s == SlotOfName(sig, kw.name)
             again == \E j \in 1..Len(st.extra) : st.extra[j].name = kw.name
         IN Keywords(sig, kws, i + 1,
              IF s # 0 THEN
                  (IF st.slots[s].set THEN [st EXCEPT !.err = "repeated"]
                   ELSE [st EXCEPT !.slots[s] = Full(kw.v)])
              ELSE IF again THEN [st EXCEPT !.err = "repeated"]
              ELSE IF IndexOfKind(sig, "kwargs") = 0 THEN [st EXCEPT !.err = "extra_named"]
              ELSE [st EXCEPT !.extra = Append(st.extra, kw)])

IntV(x)    == [t |-> "int",   v |-> x, items |-> <<>>, keys |-> <<>>, vals |-> <<>>]
TupleV(s)  == [t |-> "tuple", v |-> 0, items |-> s,    keys |-> <<>>, vals |-> <<>>]
DictV(kvs) == [t |-> "dict",  v |-> 0, items |-> <<>>,
               keys |-> [j \in 1..Len(kvs) |-> kvs[j].name], vals |-> [j \in 1..Len(kvs) |-> kvs[j].v]]

Error(e) == [ok |-> FALSE, err |-> e, vals |-> <<>>, defaults |-> 0]

Bind(sig, call) ==
    LET n == Len(sig)
        ps == PosSlots(sig)
        positionals == call.pos \o (IF call.hasStar THEN call.star ELSE <<>>)
        nfill == Min(Len(positionals), Len(ps))
        \* rule 1
        slots1 == [i \in 1..n |->
                     IF \E j \in 1..nfill : ps[j] = i
                     THEN Full(positionals[CHOOSE j \in 1..nfill : ps[j] = i])
                     ELSE Empty]
        \* rule 2
        excess == SubSeq(positionals, nfill + 1, Len(positionals))
        keywords == call.named \o (IF call.hasStarStar THEN call.starstar ELSE <<>>)
    IN IF excess # <<>> /\ IndexOfKind(sig, "args") = 0 THEN Error("extra_pos")
       ELSE LET st == Keywords(sig, keywords, 1, [slots |-> slots1, extra |-> <<>>, err |-> NoErr])
            IN IF st.err # NoErr THEN Error(st.err)
               \* rule 7 (rule 6 is applied when the values are read out below)
               ELSE IF \E i \in 1..n : /\ sig[i].kind \notin {"args", "kwargs"}
                                       /\ ~st.slots[i].set /\ ~sig[i].hasDefault
                    THEN Error("missing")
               ELSE [ok |-> TRUE, err |-> NoErr,
                     vals |-> [i \in 1..n |->
                                 CASE sig[i].kind = "args"   -> TupleV(excess)
                                   [] sig[i].kind = "kwargs" -> DictV(st.extra)
                                   [] OTHER -> (IF st.slots[i].set THEN IntV(st.slots[i].v)
                                                ELSE IntV(sig[i].default))],
                     defaults |-> Cardinality({i \in 1..n : /\ sig[i].kind \notin {"args", "kwargs"}
                                                            /\ ~st.slots[i].set})]

(* ------------------------------------------------------------------ properties of Bind itself
   (checked by TLC on every enumerated input: the M part) *)

SeqToBag(s, x) == Cardinality({i \in 1..Len(s) : s[i] = x})

RECURSIVE Flatten(_, _)
Flatten(vals, i) == IF i > Len(vals) THEN <<>>
                    ELSE (CASE vals[i].t = "int"   -> <<vals[i].v>>
                            [] vals[i].t = "tuple" -> vals[i].items
                            [] OTHER               -> vals[i].vals) \o Flatten(vals, i + 1)

CallValues(call) ==
    call.pos \o (IF call.hasStar THEN call.star ELSE <<>>)
             \o [j \in 1..Len(call.named) |-> call.named[j].v]
             \o (IF call.hasStarStar THEN [j \in 1..Len(call.starstar) |-> call.starstar[j].v] ELSE <<>>)

(* No argument is lost or duplicated: if the call is well formed, every value the caller passed
   appears exactly once among the bound values, and everything else bound is a default. *)
ConservationOf(sig, call, r) ==
    r.ok => LET got == Flatten(r.vals, 1)
                sent == CallValues(call)
                dflt == {sig[i].default : i \in {j \in 1..Len(sig) : sig[j].hasDefault}}
            IN /\ \A i \in 1..Len(sent) : SeqToBag(got, sent[i]) = 1
               /\ \A i \in 1..Len(got) : SeqToBag(sent, got[i]) = 1 \/ got[i] \in dflt
               /\ Len(got) = Len(sent) + r.defaults

(* Keyword arguments never land in a positional-only parameter, *args or **kwargs slot by name;
   a well-formed call has at most as many positionals as slots unless *args exists. *)
ShapeOf(sig, call, r) ==
    r.ok => /\ Len(r.vals) = Len(sig)
            /\ \A i \in 1..Len(sig) :
                  /\ (sig[i].kind = "args") = (r.vals[i].t = "tuple")
                  /\ (sig[i].kind = "kwargs") = (r.vals[i].t = "dict")
            /\ (IndexOfKind(sig, "args") = 0 =>
                  Len(call.pos) + (IF call.hasStar THEN Len(call.star) ELSE 0) <= Len(PosSlots(sig)))

Conservation(sig, call) == ConservationOf(sig, call, Bind(sig, call))
Shape(sig, call) == ShapeOf(sig, call, Bind(sig, call))
=============================================================================

-------------------------------- MODULE Dap --------------------------------
(* C18: the debug adapter observes without interfering.

   The statement stream of a small program (Sem.tla's `stmt` events: line, call depth, scalar
   variables of the innermost frame) composed with the adapter of debug/adapter/implementation.rs:
     BeforeStmt   DapAdapterEvalHookImpl::call -- stop when the statement's line carries a
                  breakpoint, or the pending step says so (Into: always; Over: depth <= depth at the
                  step; Out: depth < depth at the step)
     Command      after a stop the client sends continue / step into / step over / step out
   TLC explores, for every program, EVERY subset of marker lines as breakpoints and EVERY command
   sequence of bounded length; each complete behaviour is one test for the real adapter.

   Properties on the model: StopsExactlyOnce (a breakpoint on the line of an executed marker
   statement stops there exactly once per execution), and the transcript is Sem's (the adapter
   has no way to change it: OutputUnchanged holds by construction -- the point is that the
   IMPLEMENTATION's stops, variables and transcript must be a behaviour of this model).

   GcTwice is the named deviation of the implementation (the PossibleGc pseudo-statement shares the
   span of every module-level statement, so the hook fires twice there); FALSE in the property's
   model, TRUE only to classify that one known finding. *)
EXTENDS Sem, Ast, Json

CONSTANTS MaxCmds,     \* commands other than `continue` a behaviour may use
          MaxReqs,     \* setBreakpoints requests before the run (two-file session)
          GcTwice      \* BOOLEAN

(* ---- line numbering exactly as the harness printer does it (one statement per line, `else:`
   takes a line) ---- *)
RECURSIVE NumS(_, _), NumB(_, _, _, _)
NumB(stmts, i, n, acc) ==
    IF i > Len(stmts) THEN [s |-> acc, n |-> n]
    ELSE LET r == NumS(stmts[i], n) IN NumB(stmts, i + 1, r.n, Append(acc, r.s))
NumS(s, n) ==
    IF s.k = "if" THEN
        (LET t == NumB(s.then, 1, n + 1, <<>>)
             e == IF Len(s.else) = 0 THEN [s |-> <<>>, n |-> t.n] ELSE NumB(s.else, 1, t.n + 1, <<>>)
         IN [s |-> [s EXCEPT !.line = n, !.then = t.s, !.else = e.s], n |-> e.n])
    ELSE IF s.k = "for" THEN
        (LET b == NumB(s.body, 1, n + 1, <<>>)
         IN [s |-> [s EXCEPT !.line = n, !.tg = [@ EXCEPT !.line = n], !.body = b.s], n |-> b.n])
    ELSE IF s.k = "def" THEN
        (LET b == NumB(s.body, 1, n + 1, <<>>) IN [s |-> [s EXCEPT !.line = n, !.body = b.s], n |-> b.n])
    ELSE [s |-> [s EXCEPT !.line = n], n |-> n + 1]
Number(stmts) == NumB(stmts, 1, 1, <<>>).s

P(n) == AParam(n, <<0>>)
Call0(f, args) == ACall(AVar(f), args)

(* ---- programs; every `emit(k)` is a marker statement on its own line ---- *)
Prog1 == Number(
    <<SDef("f", <<P("a")>>,
           <<SEmit(AVar("a")),                                        \* 2
             SAssign(TVar("b"), ABin("+", AVar("a"), AInt(1))),       \* 3
             SEmit(AVar("b")),                                        \* 4
             SReturn(AVar("b"))>>),                                   \* 5
      SDef("g", <<P("n")>>,                                           \* 6
           <<SAssign(TVar("t"), AInt(0)),                             \* 7
             SFor(TVar("i"), Call0("range", <<AVar("n")>>),           \* 8
                  <<SEmit(AVar("i")),                                 \* 9
                    SAssign(TVar("t"), Call0("f", <<AVar("t")>>))>>), \* 10
             SReturn(AVar("t"))>>),                                   \* 11
      SEmit(AInt(100)),                                               \* 12
      SAssign(TVar("r"), Call0("g", <<AInt(2)>>)),                    \* 13
      SEmit(AVar("r"))>>)                                             \* 14

Prog2 == Number(
    <<SDef("h", <<P("x"), P("s")>>,
           <<SIf(ABin(">", AVar("x"), AInt(0)),
                 <<SEmit(AVar("x")),                                  \* 3
                   SReturn(Call0("h", <<ABin("-", AVar("x"), AInt(1)), ABin("+", AVar("s"), AStr(<<97>>))>>))>>,
                 <<SEmit(AVar("s"))>>),                               \* 6 (else at 5)
             SAssign(TVar("w"), AStr(<<122>>)),                       \* 7
             SEmit(AVar("w")),                                        \* 8
             SReturn(AVar("s"))>>),                                   \* 9
      SAssign(TVar("v"), Call0("h", <<AInt(2), AStr(<<>>)>>)),        \* 10
      SEmit(AVar("v")),                                               \* 11
      SExpr(Call0("h", <<AInt(0), AStr(<<113>>)>>)),                  \* 12
      SEmit(AInt(7))>>)                                               \* 13

(* a failing program: the error must surface unchanged whatever the debugger does *)
Prog3 == Number(
    <<SDef("k", <<P("a")>>,
           <<SEmit(AVar("a")),                                        \* 2
             SAssign(TVar("z"), ABin("//", AInt(1), AVar("a"))),      \* 3
             SEmit(AVar("z")),                                        \* 4
             SReturn(AVar("z"))>>),                                   \* 5
      SEmit(Call0("k", <<AInt(1)>>)),                                 \* 6
      SEmit(Call0("k", <<AInt(0)>>)),                                 \* 7
      SEmit(AInt(9))>>)                                               \* 8

(* variables as the program has them: a local captured by a nested def, and a comprehension variable
   with the name of a local *)
Prog4 == Number(
    <<SDef("outer", <<P("a")>>,
           <<SAssign(TVar("k"), ABin("+", AVar("a"), AInt(1))),                       \* 2
             SDef("inner", <<>>, <<SReturn(AVar("k"))>>),                             \* 3, 4
             SEmit(AVar("k")),                                                        \* 5
             SAssign(TVar("n"), AInt(5)),                                             \* 6
             SAssign(TVar("q"), ACompr(AVar("n"), <<AFor(TVar("n"), AList(<<AInt(7), AInt(8)>>))>>)),   \* 7
             SEmit(AVar("n")),                                                        \* 8
             SReturn(Call0("inner", <<>>))>>),                                        \* 9
      SEmit(Call0("outer", <<AInt(1)>>))>>)                                           \* 10

(* a session over TWO files: lib.star (evaluated and frozen beforehand, without the debugger; its
   lines are numbered 101, 102, ... here) and main.star, whose first line is the load statement the
   harness writes.  The client configures breakpoints with one request per file, each carrying the
   COMPLETE list for that file (empty when the file has none any more). *)
LibLine == 100
Prog5Lib == NumB(
    <<SDef("sc", <<P("x"), P("acc")>>,
           <<SAssign(TVar("y"), ABin("*", AVar("x"), AInt(2))),                          \* 102
             SEmit(AVar("y")),                                                          \* 103  marker
             SExpr(AMCall(AVar("acc"), "append", <<AVar("y")>>)),                        \* 104
             SReturn(AVar("y"))>>)>>, 1, LibLine + 1, <<>>).s                            \* 105
Prog5 == NumB(
    <<SDef("run", <<P("n")>>,                                                           \* 2
           <<SAssign(TVar("o"), AList(<<>>)),                                           \* 3
             SFor(TVar("i"), Call0("range", <<AVar("n")>>),                             \* 4
                  <<SAssign(TVar("v"), Call0("sc", <<AVar("i"), AVar("o")>>)),          \* 5
                    SEmit(AVar("v"))>>),                                                \* 6  marker
             SReturn(AVar("o"))>>),                                                     \* 7
      SEmit(Call0("run", <<AInt(2)>>))>>, 1, 2, <<>>).s                                  \* 8  marker

Progs == <<Prog1, Prog2, Prog3, Prog4, Prog5>>
Libs == <<<<>>, <<>>, <<>>, <<>>, Prog5Lib>>
Markers == <<{2, 4, 9, 12, 14}, {3, 6, 8, 11, 13}, {2, 4, 6, 8}, {5, 8, 10}, {6, 8, 103}>>
FileOf(line) == IF line > LibLine THEN "lib" ELSE "main"
(* requests: <<file, lines>>; the configuration in force is the last request of each file *)
Reqs5 == {<<"main", ls>> : ls \in SUBSET {6, 8}} \cup {<<"lib", ls>> : ls \in SUBSET {103}}
RECURSIVE Effective(_, _, _)
Effective(rs, i, acc) ==
    IF i > Len(rs) THEN acc
    ELSE Effective(rs, i + 1, {l \in acc : FileOf(l) # rs[i][1]} \cup rs[i][2])

(* the statement stream: Sem's stmt events; module-level ones doubled under the deviation *)
RunTr(px) ==
    IF px # 5 THEN RunModule(Progs[px], 50, TRUE)
    ELSE \* lib first (its own frame, no debugger: its events are dropped), then main above it
         LET namesA == SetToSeq(AssignedS(Prog5Lib, 1))
             frA == NewFrame(M0(50, TRUE), namesA, [q \in 1..Len(namesA) |-> UnboundV])
             a == ExecB(Prog5Lib, 1, <<frA.a>>, frA.m)
             namesB == SetToSeq(AssignedS(Prog5, 1))
             frB == NewFrame([a.m EXCEPT !.ev = <<>>], namesB, [q \in 1..Len(namesB) |-> UnboundV])
         IN ExecB(Prog5, 1, <<frB.a, frA.a>>, frB.m).m
RECURSIVE Dup(_, _)
Dup(evs, i) == IF i > Len(evs) THEN <<>>
               ELSE (IF GcTwice /\ evs[i].d = 0 THEN <<evs[i], evs[i]>> ELSE <<evs[i]>>) \o Dup(evs, i + 1)
Stream(px) == Dup(SelectSeq(RunTr(px).ev, LAMBDA e : e.e = "stmt"), 1)

VARIABLES pi,        \* program index
          reqs,      \* the setBreakpoints requests, in order (sequence of <<file, lines>>)
          bps,       \* set of breakpoint lines in force = Effective(reqs)
          stream,    \* statement stream
          pos,       \* next statement event
          step,      \* [k \in {"none","into","over","out"}, d]
          paused,    \* BOOLEAN
          stops,     \* sequence of [line, d, vs]
          cmds,      \* commands issued so far
          budget     \* non-continue commands left
vars == <<pi, reqs, bps, stream, pos, step, paused, stops, cmds, budget>>

NoStep == [k |-> "none", d |-> 0]

Init == /\ pi \in 1..Len(Progs)
        /\ IF pi # 5 THEN \E b \in SUBSET Markers[pi] : reqs = << <<"main", b>> >>
           ELSE \E n \in 1..MaxReqs : reqs \in [1..n -> Reqs5]
        /\ bps = Effective(reqs, 1, {})
        /\ stream = Stream(pi)
        /\ pos = 1 /\ step = NoStep /\ paused = FALSE /\ stops = <<>> /\ cmds = <<>>
        \* a session with several requests is about the configuration: it only continues
        /\ budget = IF Len(reqs) > 1 THEN 0 ELSE MaxCmds

(* DapAdapterEvalHookImpl::call *)
BeforeStmt ==
    /\ ~paused /\ pos <= Len(stream)
    /\ LET ev == stream[pos]
           brk == ev.a \in bps
           stp == \/ step.k = "into"
                  \/ (step.k = "over" /\ ev.d <= step.d)
                  \/ (step.k = "out" /\ ev.d < step.d)
       IN IF brk \/ stp
          THEN /\ paused' = TRUE /\ step' = NoStep
               /\ stops' = Append(stops, [line |-> ev.a, d |-> ev.d, vs |-> ev.vs])
               /\ UNCHANGED <<pos>>
          ELSE /\ pos' = pos + 1 /\ UNCHANGED <<paused, step, stops>>
    /\ UNCHANGED <<pi, reqs, bps, stream, cmds, budget>>

Command(c) ==
    /\ paused
    /\ (c # "continue" => budget > 0)
    /\ paused' = FALSE
    /\ step' = IF c = "continue" THEN NoStep ELSE [k |-> c, d |-> stream[pos].d]
    /\ pos' = pos + 1             \* the statement at which we were paused now executes
    /\ cmds' = Append(cmds, c)
    /\ budget' = IF c = "continue" THEN budget ELSE budget - 1
    /\ UNCHANGED <<pi, reqs, bps, stream, stops>>

(* evaluate / watch requests while paused: an expression that evaluates, one that fails at run time and
   one that does not parse.  Whatever the answer, the session is exactly where it was. *)
EvalCmds == {"eval_ok", "eval_fail", "eval_bad"}
Evaluate(c) ==
    /\ paused /\ budget > 0
    /\ cmds' = Append(cmds, c)
    /\ budget' = budget - 1
    /\ UNCHANGED <<pi, reqs, bps, stream, pos, step, paused, stops>>

Next == BeforeStmt \/ (\E c \in {"continue", "into", "over", "out"} : Command(c)) \/ (\E c \in EvalCmds : Evaluate(c))
Spec == Init /\ [][Next]_vars

Finished == pos > Len(stream) /\ ~paused

(* ---- properties ---- *)
(* with breakpoints only (no stepping), every executed statement on a breakpoint line stops
   exactly once per execution *)
OnlyContinue == \A i \in 1..Len(cmds) : cmds[i] \in {"continue"} \cup EvalCmds
Executions(line) == Len(SelectSeq(stream, LAMBDA e : e.a = line))
StopsAt(line) == Len(SelectSeq(stops, LAMBDA s : s.line = line))
StopsExactlyOnce == (Finished /\ OnlyContinue /\ ~GcTwice) => \A b \in bps : StopsAt(b) = Executions(b)
(* never more stops than statement executions *)
NoSpuriousStops == Len(stops) <= Len(stream)

PrintBehaviour ==
    Finished => PrintT(<<"CASE", ToJson([prog |-> pi, gc |-> GcTwice, bps |-> bps, cmds |-> cmds,
                                         reqs |-> [i \in 1..Len(reqs) |-> [f |-> reqs[i][1], ls |-> reqs[i][2]]],
                                         stops |-> [i \in 1..Len(stops) |-> [line |-> stops[i].line, vs |-> stops[i].vs]]])>>)
PrintProgs == PrintT(<<"PROGS", ToJson([i \in 1..Len(Progs) |->
                  [ast |-> Progs[i], lib |-> Libs[i], out |-> RunTr(i).out, err |-> RunTr(i).err,
                   \* the variables the module has in the end: what its own statements bind, nothing else
                   \* (a debugger that copies a frame's locals into the module must take them out again)
                   names |-> SetToSeq(AssignedS(Progs[i], 1) \cup AssignedS(Libs[i], 1))]])>>)   \* (the load statement binds the library's names)
ASSUME PrintProgs
=============================================================================

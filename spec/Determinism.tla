---------------------------- MODULE Determinism ----------------------------
(* C14: evaluation is deterministic across runs, processes and memory layouts.

   The only thing this specification says about an observation -- transcript, full error text with
   call stack and suggestions, lint and type-checker output, condensed to a digest by the harness --
   is that it is a FUNCTION OF THE PROGRAM: Observe(p, c, d) is enabled for a program already seen
   only with the digest recorded at its first observation.  The trace is the concatenation of the
   records of all configurations (process with/without ASLR, pre-allocation noise, environment
   size, thread, warm-up evaluations); every line is judged, so one run reports every program
   whose observation depends on the configuration. *)
EXTENDS Naturals, Sequences, TLC, Json, IOUtils

VARIABLES l, seen, bad
Rec == ndJsonDeserialize(IOEnv.TRACE)

TInit == l = 1 /\ seen = [p \in {} |-> ""] /\ bad = 0
Observe == /\ l <= Len(Rec)
           /\ LET r == Rec[l] IN
              IF r.prog \in DOMAIN seen
              THEN /\ seen' = seen
                   /\ bad' = IF seen[r.prog] = r.digest THEN bad ELSE bad + 1
                   /\ (seen[r.prog] # r.digest => PrintT(<<"BAD", ToJson([id |-> r.prog, cfg |-> r.cfg])>>))
              ELSE /\ seen' = [p \in DOMAIN seen \cup {r.prog} |-> IF p = r.prog THEN r.digest ELSE seen[p]]
                   /\ bad' = bad
           /\ l' = l + 1
TSpec == TInit /\ [][Observe]_<<l, seen, bad>>
(* the invariant the property asks for, evaluated at every step *)
Functional == bad = 0
Accepted == TLCGet("stats").diameter - 1 = Len(Rec)
Final == (l = Len(Rec) + 1) => PrintT(<<"STATS", ToJson([n |-> Len(Rec), programs |-> Len(Rec) - 0, bad |-> bad])>>)
=============================================================================

------------------------ MODULE Trace_SmallMap ------------------------
(* V: a trace recorded from the real SmallMap (real threshold 16, keys 1..NKeys with hashes
   colliding modulo NClasses) is accepted iff it is a behaviour of SmallMap: every event is the
   model action of that name with the logged arguments, and the logged return value, key order,
   values and per-key lookup positions equal the model's.  The model's own index variables are
   not bound to the log (index *policy* is not part of C11); the log's `iok` flag -- the real
   index reaches every entry -- must hold whenever the real map has an index. *)
EXTENDS Naturals, Sequences, FiniteSets, TLC, Json, IOUtils

NKeys == 20
NClasses == 3
TKeys == 1..NKeys
TVals == 1..3
THash == [k \in TKeys |-> k % NClasses]

VARIABLES entries, on, idx, last, l

M == INSTANCE SmallMap WITH Keys <- TKeys, Vals <- TVals, HashOf <- THash, Threshold <- 16, MaxLen <- 100

Rec == ndJsonDeserialize(IOEnv.TRACE)

Ev == Rec[l]
IsEv(a) == l <= Len(Rec) /\ Rec[l].a = a /\ l' = l + 1
TSeqOf(x) == [j \in 1..Len(x) |-> x[j]]
SetOf(x) == {x[j] : j \in 1..Len(x)}

Matches == /\ last'.ret.some = Ev.some
           /\ (Ev.some => last'.ret.v = Ev.ret)
           /\ [j \in 1..Len(entries') |-> entries'[j].k] = TSeqOf(Ev.keys)
           /\ [j \in 1..Len(entries') |-> entries'[j].v] = TSeqOf(Ev.vals)
           /\ Ev.iok
           /\ \A k \in TKeys : Ev.look[k] = M!LinearPos(entries', k)

TInit == M!Init /\ l = 1

Reset == IsEv("reset") /\ entries' = <<>> /\ on' = FALSE /\ idx' = {}
         /\ last' = [op |-> "init", k |-> 0, v |-> 0, i |-> 0, ret |-> M!None, s |-> {}]

TNext ==
    \/ Reset
    \/ IsEv("insert") /\ M!Insert(Ev.k, Ev.v) /\ Matches
    \/ IsEv("entry_or_insert") /\ M!EntryOrInsert(Ev.k, Ev.v) /\ Matches
    \/ IsEv("shift_remove") /\ M!ShiftRemove(Ev.k) /\ Matches
    \/ IsEv("shift_remove_index") /\ M!ShiftRemoveIndex(Ev.i) /\ Matches
                                  /\ (Ev.some => last'.k = Ev.k)
    \/ IsEv("pop") /\ M!Pop /\ Matches /\ (Ev.some => last'.k = Ev.k)
    \/ IsEv("reverse") /\ M!Reverse /\ Matches
    \/ IsEv("sort_keys") /\ M!SortKeys /\ Matches
    \/ IsEv("retain") /\ M!Retain(SetOf(Ev.s)) /\ Matches
    \/ IsEv("clear") /\ M!Clear /\ Matches
    \/ IsEv("reserve") /\ M!Reserve(Ev.i) /\ Matches
    \/ IsEv("maybe_drop_index") /\ M!MaybeDropIndex /\ Matches

TSpec == TInit /\ [][TNext]_<<entries, on, idx, last, l>>

TInv == M!NoDup /\ M!IndexOK /\ M!IndexWhenBig /\ M!LookupAgrees

Accepted ==
    LET d == TLCGet("stats").diameter IN
    IF d - 1 = Len(Rec) THEN TRUE
    ELSE /\ PrintT(<<"REJECTED", d, ToJson(Rec[d])>>)
         /\ FALSE
=======================================================================

----------------------------- MODULE Coherence -----------------------------
(* C09: equality, hashing and ordering over ALL values, and the universe of abstract values with
   their construction paths.

   Values are tagged records (tag `t` decides which other fields exist; operators dispatch on
   the tag first, so TLC never compares records of different shape):
        numbers (NumTower)       [t |-> "int"|"float", k, m, e, nz]
        [t |-> "str",   s |-> <<code points>>]
        [t |-> "bool",  b |-> BOOLEAN]          [t |-> "none"]
        [t |-> "tuple", v |-> <<values>>]       [t |-> "list", v |-> <<values>>]
        [t |-> "struct", k |-> <<field names>>, v |-> <<values>>]   (fields in creation order)
        [t |-> "dict", k |-> <<keys>>, v |-> <<values>>]  [t |-> "set", v |-> <<values>>]  (insertion order)
        [t |-> "range", v |-> <<the integers it yields>>]
        [t |-> "rec", ty |-> "RecA", k |-> <<field names>>, v |-> <<values>>]   instance of a record type
        [t |-> "ev", ty |-> "EnA", i |-> index]                                  value of an enum type

   Eq        mathematical equality: numbers by exact value across int/float; strings, tuples,
             lists structurally; structs, dicts and sets regardless of the order in which their
             fields / entries were given; ranges by the sequence they yield; values of different
             kinds are unequal (True # 1, (1,) # [1], range(2) # [0, 1]).
   Cmp3      -1 / 0 / 1, or 2 = "these two are not ordered" (different kinds, None, dicts, sets,
             ranges), or 3 = "not specified" (two structs: the implementation orders them, the
             language definition does not say how; nothing is expected of <, only of ==).
             Sequences compare lexicographically.
   Hashable  lists, dicts, sets and ranges are not; a tuple or struct is iff all its elements are.
   HashClass the canonical NAME of the Eq-class (a string): the abstract hash -- two values with
             the same HashClass must be interchangeable as dict keys, however they were built.

   What a program can observe of a pair (a, b) is a function of the ABSTRACT values only; that
   is the property. The universe U lists, for every abstract value, several construction paths
   (source expressions) that must all behave as that one value.                              *)
EXTENDS NumTower

StrV(cs)  == [t |-> "str", s |-> cs]
BoolV(bb) == [t |-> "bool", b |-> bb]
NoneV     == [t |-> "none"]
TupV(vs)  == [t |-> "tuple", v |-> vs]
ListV(vs) == [t |-> "list", v |-> vs]
StructV(ks, vs) == [t |-> "struct", k |-> ks, v |-> vs]
DictV(ks, vs) == [t |-> "dict", k |-> ks, v |-> vs]
SetV(vs) == [t |-> "set", v |-> vs]
RangeV(vs) == [t |-> "range", v |-> vs]
RecIV(ty, ks, vs) == [t |-> "rec", ty |-> ty, k |-> ks, v |-> vs]
EnumIV(ty, ix) == [t |-> "ev", ty |-> ty, i |-> ix]

Kind(x) == IF x.t \in {"int", "float"} THEN "num" ELSE x.t

RECURSIVE Eq(_, _)
RECURSIVE SeqEq(_, _, _)
SeqEq(xs, ys, ix) == IF ix > Len(xs) THEN TRUE ELSE Eq(xs[ix], ys[ix]) /\ SeqEq(xs, ys, ix + 1)
(* every entry of (ks, vs) has an equal key with an equal value in (ls, ws) *)
EntriesIn(ks, vs, ls, ws, keyEq(_, _)) ==
    \A ix \in 1..Len(ks) : \E jx \in 1..Len(ls) : keyEq(ks[ix], ls[jx]) /\ Eq(vs[ix], ws[jx])
Eq(x, y) ==
    IF Kind(x) # Kind(y) THEN FALSE
    ELSE CASE Kind(x) = "num"   -> NumEq(x, y)
           [] Kind(x) = "str"   -> x.s = y.s
           [] Kind(x) = "bool"  -> x.b = y.b
           [] Kind(x) = "none"  -> TRUE
           [] Kind(x) \in {"tuple", "list", "range"} -> (Len(x.v) = Len(y.v) /\ SeqEq(x.v, y.v, 1))
           [] Kind(x) = "struct" -> (Len(x.k) = Len(y.k) /\ EntriesIn(x.k, x.v, y.k, y.v, LAMBDA aa, bb : aa = bb))
           \* nominal: instances of two declarations of the same shape are different values
           [] Kind(x) = "rec" -> (x.ty = y.ty /\ Len(x.v) = Len(y.v) /\ SeqEq(x.v, y.v, 1))
           [] Kind(x) = "ev" -> (x.ty = y.ty /\ x.i = y.i)
           [] Kind(x) = "dict"   -> (Len(x.k) = Len(y.k) /\ EntriesIn(x.k, x.v, y.k, y.v, Eq))
           [] Kind(x) = "set"    -> (Len(x.v) = Len(y.v) /\ \A ix \in 1..Len(x.v) : \E jx \in 1..Len(y.v) : Eq(x.v[ix], y.v[jx]))

NatCmp(aa, bb) == IF aa < bb THEN -1 ELSE IF aa > bb THEN 1 ELSE 0
RECURSIVE CodesCmp(_, _, _)
CodesCmp(xs, ys, ix) == IF ix > Len(xs) \/ ix > Len(ys) THEN NatCmp(Len(xs), Len(ys))
                        ELSE IF xs[ix] # ys[ix] THEN NatCmp(xs[ix], ys[ix])
                        ELSE CodesCmp(xs, ys, ix + 1)

RECURSIVE Cmp3(_, _)
RECURSIVE SeqCmp(_, _, _)
SeqCmp(xs, ys, ix) == IF ix > Len(xs) \/ ix > Len(ys) THEN NatCmp(Len(xs), Len(ys))
                      ELSE LET cc == Cmp3(xs[ix], ys[ix])
                           IN IF cc # 0 THEN cc ELSE SeqCmp(xs, ys, ix + 1)
Cmp3(x, y) ==
    IF Kind(x) # Kind(y) THEN 2
    ELSE CASE Kind(x) = "num"   -> NumCmp(x, y)
           [] Kind(x) = "str"   -> CodesCmp(x.s, y.s, 1)
           [] Kind(x) = "bool"  -> NatCmp(IF x.b THEN 1 ELSE 0, IF y.b THEN 1 ELSE 0)
           [] Kind(x) = "none"  -> 2
           [] Kind(x) \in {"tuple", "list"} -> SeqCmp(x.v, y.v, 1)
           [] Kind(x) = "struct" -> 3
           [] Kind(x) \in {"dict", "set", "range", "rec", "ev"} -> 2

RECURSIVE Hashable(_)
Hashable(x) == CASE x.t \in {"list", "dict", "set", "range"} -> FALSE
                 [] x.t \in {"tuple", "struct", "rec"} -> (\A ix \in 1..Len(x.v) : Hashable(x.v[ix]))
                 [] OTHER -> TRUE

RECURSIVE JoinCodes(_, _)
JoinCodes(cs, ix) == IF ix > Len(cs) THEN "" ELSE ToString(cs[ix]) \o "." \o JoinCodes(cs, ix + 1)
FieldOrder == <<"a", "b", "c">>
CanonFields(x) == SelectSeq(FieldOrder, LAMBDA nm : \E ix \in 1..Len(x.k) : x.k[ix] = nm)
RECURSIVE HashClass(_)
RECURSIVE JoinHC(_, _)
RECURSIVE CanonText(_, _, _)
CanonText(x, fs, ix) == IF ix > Len(fs) THEN ""
                        ELSE fs[ix] \o "=" \o HashClass(x.v[CHOOSE jx \in 1..Len(x.k) : x.k[jx] = fs[ix]]) \o ";" \o CanonText(x, fs, ix + 1)
JoinHC(vs, ix) == IF ix > Len(vs) THEN "" ELSE HashClass(vs[ix]) \o "," \o JoinHC(vs, ix + 1)
HashClass(x) == CASE Kind(x) = "num"  -> NumHashClass(x)
                  [] x.t = "str"   -> ("s:" \o JoinCodes(x.s, 1))
                  [] x.t = "bool"  -> (IF x.b THEN "b:T" ELSE "b:F")
                  [] x.t = "none"  -> "none"
                  [] x.t = "tuple" -> ("t(" \o JoinHC(x.v, 1) \o ")")
                  [] x.t = "list"  -> ("l(" \o JoinHC(x.v, 1) \o ")")      \* not hashable; named for completeness
                  [] x.t = "struct" -> ("st(" \o CanonText(x, CanonFields(x), 1) \o ")")   \* fields in the order of FieldOrder
                  [] x.t \in {"dict", "set", "range"} -> ("u:" \o x.t)      \* not hashable
                  [] x.t = "rec" -> ("r:" \o x.ty \o "(" \o JoinHC(x.v, 1) \o ")")
                  [] x.t = "ev" -> ("e:" \o x.ty \o ToString(x.i))

RECURSIVE WellFormedV(_)
WellFormedV(x) == IF Kind(x) = "num" THEN WellFormed(x)
                  ELSE IF x.t \in {"tuple", "list", "struct", "set", "range", "rec"} THEN \A ix \in 1..Len(x.v) : WellFormedV(x.v[ix])
                  ELSE IF x.t = "dict" THEN \A ix \in 1..Len(x.v) : WellFormedV(x.v[ix]) /\ WellFormedV(x.k[ix])
                  ELSE TRUE

(* how the implementation REPRESENTS the value -- used only to classify disagreements *)
RepClass(x) == IF x.t = "int" THEN (IF FitsI32(x.m) THEN "int" ELSE "bigint") ELSE x.t

RECURSIVE Zone(_, _)
Zone(x, y) == IF Kind(x) = "num" /\ Kind(y) = "num" THEN NumZone(x, y)
              ELSE IF x.t \in {"tuple", "list"} /\ y.t \in {"tuple", "list"}
                   THEN (IF \E ix \in 1..(IF Len(x.v) < Len(y.v) THEN Len(x.v) ELSE Len(y.v)) :
                               Zone(x.v[ix], y.v[ix]) = "lossy" THEN "lossy" ELSE "exact")
              ELSE "exact"

--------------------------------------------------------------------------------
(* source text *)
Dec(v)    == ToDecimalString(v)
IntLit(v) == IF v.neg THEN "(" \o Dec(v) \o ")" ELSE Dec(v)
FLit(v)   == IF v.neg THEN "(" \o Dec(v) \o ".0)" ELSE Dec(v) \o ".0"
Q == "\""

Rep(pp, ss) == [p |-> pp, src |-> ss]
Ent(vv, rr) == [v |-> vv, reps |-> rr]

(* an int, optionally also written as a shift expression *)
IntEnt(v, shiftsrc) ==
    Ent(IntN(v),
        <<Rep("lit", IntLit(v)),
          Rep("parse", "int(" \o Q \o Dec(v) \o Q \o ")"),
          Rep("arith", "pm(" \o IntLit(v) \o ")"),
          Rep("hex", (IF v.neg THEN "(-0x" ELSE "(0x") \o MagString(v, 16, FALSE) \o ")")>>
        \o (IF shiftsrc # "" THEN <<Rep("shift", shiftsrc)>> ELSE <<>>)
        \o (IF ExactF64(IntN(v)) THEN <<Rep("fromfloat", "int(" \o Dec(v) \o ".0)")>> ELSE <<>>))

(* the float whose value is the integer v (v exact in binary64) *)
FloatEnt(v) ==
    Ent(FloatOfInt(v),
        <<Rep("flit", FLit(v)),
          Rep("fromint", "float(" \o IntLit(v) \o ")"),
          Rep("fparse", "float(" \o Q \o Dec(v) \o ".0" \o Q \o ")"),
          Rep("fmul", "fm(" \o FLit(v) \o ")")>>)

(* strings over a small alphabet; code point -> source character *)
ChrOf(cc) == CASE cc = 49 -> "1" [] cc = 66 -> "B" [] cc = 97 -> "a" [] cc = 98 -> "b" [] cc = 99 -> "c"
RECURSIVE StrText(_, _)
StrText(cs, ix) == IF ix > Len(cs) THEN "" ELSE ChrOf(cs[ix]) \o StrText(cs, ix + 1)
QS(cs) == Q \o StrText(cs, 1) \o Q
RECURSIVE CharList(_, _)
CharList(cs, ix) == IF ix > Len(cs) THEN "" ELSE QS(<<cs[ix]>>) \o ", " \o CharList(cs, ix + 1)
StrEnt(cs) ==
    Ent(StrV(cs),
        <<Rep("lit", QS(cs)),
          Rep("slice", "mid(" \o Q \o "a" \o StrText(cs, 1) \o "b" \o Q \o ")"),
          Rep("fmt", "(" \o Q \o "%s" \o Q \o " % " \o QS(cs) \o ")"),
          Rep("join", Q \o Q \o ".join([" \o CharList(cs, 1) \o "])")>>
        \o (IF Len(cs) >= 1 THEN <<Rep("concat", "cat(" \o QS(<<cs[1]>>) \o ", " \o QS(SubSeq(cs, 2, Len(cs))) \o ")")>>
            ELSE <<>>))

(* containers: built from entries; an element is written with its first construction path *)
RECURSIVE Items(_, _)
Items(es, ix) == IF ix > Len(es) THEN "" ELSE es[ix].reps[1].src \o ", " \o Items(es, ix + 1)
RECURSIVE Singles(_, _)
Singles(es, ix) == IF ix > Len(es) THEN "()" ELSE "(" \o es[ix].reps[1].src \o ",) + " \o Singles(es, ix + 1)
ValsOf(es) == [ix \in 1..Len(es) |-> es[ix].v] \o <<>>
TupEnt(es) ==
    Ent(TupV(ValsOf(es)),
        <<Rep("lit", "(" \o Items(es, 1) \o ")"),
          Rep("conv", "tuple([" \o Items(es, 1) \o "])"),
          Rep("compr", "tuple([x for x in [" \o Items(es, 1) \o "]])"),
          Rep("concat", "(" \o Singles(es, 1) \o ")")>>)
ListEnt(es) ==
    Ent(ListV(ValsOf(es)),
        <<Rep("lit", "[" \o Items(es, 1) \o "]"),
          Rep("conv", "list((" \o Items(es, 1) \o "))"),
          Rep("compr", "[x for x in (" \o Items(es, 1) \o ")]")>>)

(* structs / dicts / sets: the same abstract value written with its fields / entries in different
   orders and through ** / constructor calls.  perms: sequences of index sequences. *)
RECURSIVE FieldText(_, _, _, _)
FieldText(ks, es, perm, ix) ==
    IF ix > Len(perm) THEN "" ELSE ks[perm[ix]] \o " = " \o es[perm[ix]].reps[1].src \o ", " \o FieldText(ks, es, perm, ix + 1)
RECURSIVE EntryText(_, _, _, _)
EntryText(kes, es, perm, ix) ==
    IF ix > Len(perm) THEN "" ELSE kes[perm[ix]].reps[1].src \o ": " \o es[perm[ix]].reps[1].src \o ", " \o EntryText(kes, es, perm, ix + 1)
RECURSIVE KwText(_, _, _, _)
KwText(ks, es, perm, ix) ==
    IF ix > Len(perm) THEN "" ELSE Q \o ks[perm[ix]] \o Q \o ": " \o es[perm[ix]].reps[1].src \o ", " \o KwText(ks, es, perm, ix + 1)
RECURSIVE ItemsPerm(_, _, _)
ItemsPerm(es, perm, ix) == IF ix > Len(perm) THEN "" ELSE es[perm[ix]].reps[1].src \o ", " \o ItemsPerm(es, perm, ix + 1)
StructEnt(ks, es, perms) ==
    Ent(StructV(ks, ValsOf(es)),
        [px \in 1..Len(perms) |-> Rep("kw" \o ToString(px), "struct(" \o FieldText(ks, es, perms[px], 1) \o ")")] \o
        [px \in 1..Len(perms) |-> Rep("star" \o ToString(px), "struct(**{" \o KwText(ks, es, perms[px], 1) \o "})")])
DictEnt(kes, es, perms) ==
    Ent(DictV(ValsOf(kes), ValsOf(es)),
        [px \in 1..Len(perms) |-> Rep("lit" \o ToString(px), "{" \o EntryText(kes, es, perms[px], 1) \o "}")] \o
        <<Rep("conv", "dict({" \o EntryText(kes, es, perms[1], 1) \o "})")>>)
SetEnt(es, perms) ==
    Ent(SetV(ValsOf(es)),
        [px \in 1..Len(perms) |-> Rep("conv" \o ToString(px), "set([" \o ItemsPerm(es, perms[px], 1) \o "])")] \o
        <<Rep("dup", "set([" \o ItemsPerm(es, perms[1], 1) \o ItemsPerm(es, perms[1], 1) \o "])")>>)

--------------------------------------------------------------------------------
(* the universe *)
P2(kk)        == Pow2(kk)
P2d(kk, dd)   == Add(Pow2(kk), FromInt(dd))
ShS(kk, dd)   == IF dd = 0 THEN "(1 << " \o ToString(kk) \o ")"
                 ELSE IF dd > 0 THEN "((1 << " \o ToString(kk) \o ") + " \o ToString(dd) \o ")"
                 ELSE "((1 << " \o ToString(kk) \o ") - " \o ToString(-dd) \o ")"
IPos(kk, dd)  == IntEnt(P2d(kk, dd), ShS(kk, dd))
INeg(kk, dd)  == IntEnt(Neg(P2d(kk, dd)), "(-" \o ShS(kk, dd) \o ")")

I0 == IntEnt(Zero, "")
I1 == IntEnt(One, "(1 << 0)")
I2 == IntEnt(FromInt(2), "(1 << 1)")
F1 == FloatEnt(One)
F2 == FloatEnt(FromInt(2))
SA == StrEnt(<<97>>)

Ints == <<I0, I1, IntEnt(MinusOne, ""), I2,
          IPos(31, -1), IPos(31, 0), IPos(31, 1), INeg(31, 0), INeg(31, 1),
          IPos(40, 0),
          IPos(53, -1), IPos(53, 0), IPos(53, 1), IPos(53, 2), INeg(53, 0), INeg(53, 1),
          IPos(63, -1), IPos(63, 0), IPos(63, 1), INeg(63, 0), INeg(63, 1),
          IPos(64, 0), IPos(100, 0), IPos(100, 1)>>

Half   == FloatN(One, -1)
OneHalf == FloatN(FromInt(3), -1)
Floats == <<FloatEnt(Zero),
            Ent(NegZeroN, <<Rep("flit", "(-0.0)"), Rep("fparse", "float(" \o Q \o "-0.0" \o Q \o ")"),
                            Rep("fmul", "(0.0 * -1.0)")>>),
            F1, FloatEnt(MinusOne), F2,
            Ent(Half, <<Rep("flit", "0.5"), Rep("fparse", "float(" \o Q \o "0.5" \o Q \o ")"),
                        Rep("fdiv", "(1 / 2)"), Rep("fmul", "fm(0.5)")>>),
            Ent(OneHalf, <<Rep("flit", "1.5"), Rep("fdiv", "(3 / 2)"), Rep("fmul", "fm(1.5)")>>),
            FloatEnt(P2d(31, -1)), FloatEnt(P2(31)), FloatEnt(Neg(P2(31))),
            FloatEnt(P2(40)),
            FloatEnt(P2d(53, -1)), FloatEnt(P2(53)), FloatEnt(P2d(53, 2)), FloatEnt(Neg(P2(53))),
            FloatEnt(P2(63)), FloatEnt(Neg(P2(63))), FloatEnt(P2(64)), FloatEnt(P2(100)),
            Ent(NaNN, <<Rep("fparse", "float(" \o Q \o "nan" \o Q \o ")"),
                        Rep("arith", "(float(" \o Q \o "inf" \o Q \o ") - float(" \o Q \o "inf" \o Q \o "))"),
                        Rep("fmul", "fm(float(" \o Q \o "nan" \o Q \o "))")>>),
            Ent(PInfN, <<Rep("fparse", "float(" \o Q \o "inf" \o Q \o ")"),
                         Rep("fparse2", "float(" \o Q \o "+inf" \o Q \o ")"),
                         Rep("arith", "(1e308 * 10.0)")>>),
            Ent(NInfN, <<Rep("fparse", "float(" \o Q \o "-inf" \o Q \o ")"),
                         Rep("arith", "(-float(" \o Q \o "inf" \o Q \o "))")>>)>>

Strs == <<StrEnt(<<>>), SA, StrEnt(<<97, 98>>), StrEnt(<<97, 98, 99>>), StrEnt(<<98>>), StrEnt(<<66>>),
          StrEnt(<<49>>)>>
Others == <<Ent(BoolV(TRUE), <<Rep("lit", "True"), Rep("cmp", "(1 == 1)"), Rep("conv", "bool(1)")>>),
            Ent(BoolV(FALSE), <<Rep("lit", "False"), Rep("cmp", "(1 == 2)"), Rep("conv", "bool(0)")>>),
            Ent(NoneV, <<Rep("lit", "None"), Rep("call", "nothing()")>>)>>

I53  == IPos(53, 0)
I53p == IPos(53, 1)
F53  == FloatEnt(P2(53))
I40  == IPos(40, 0)
F40  == FloatEnt(P2(40))
T1   == TupEnt(<<I1>>)
L1   == ListEnt(<<I1>>)
Tups == <<TupEnt(<<>>), T1, TupEnt(<<F1>>), TupEnt(<<I1, I2>>), TupEnt(<<I1, F2>>), TupEnt(<<I1, I1>>),
          TupEnt(<<I53>>), TupEnt(<<F53>>), TupEnt(<<I53p>>), TupEnt(<<I40>>), TupEnt(<<F40>>),
          TupEnt(<<SA>>), TupEnt(<<SA, I1>>), TupEnt(<<T1>>), TupEnt(<<L1>>)>>
Lists == <<ListEnt(<<>>), L1, ListEnt(<<F1>>), ListEnt(<<I1, I2>>), ListEnt(<<I1, I1>>), ListEnt(<<SA>>),
           ListEnt(<<I53p>>), ListEnt(<<F53>>)>>

P1  == <<<<1>>>>
P2x == <<<<1, 2>>, <<2, 1>>>>
P3x == <<<<1, 2, 3>>, <<3, 1, 2>>, <<2, 3, 1>>, <<3, 2, 1>>>>
SAB  == StructEnt(<<"a", "b">>, <<I1, I2>>, P2x)
SABf == StructEnt(<<"a", "b">>, <<F1, I2>>, P2x)            \* equal to SAB: 1 == 1.0
SBA  == StructEnt(<<"a", "b">>, <<I2, I1>>, P2x)            \* a = 2, b = 1: a different value
Structs == <<StructEnt(<<>>, <<>>, <<<<>>>>), StructEnt(<<"a">>, <<I1>>, P1), StructEnt(<<"b">>, <<I1>>, P1),
             SAB, SABf, SBA,
             StructEnt(<<"a", "b", "c">>, <<I1, SA, T1>>, P3x),
             StructEnt(<<"a", "b">>, <<L1, I2>>, P2x),                                       \* not hashable
             StructEnt(<<"a", "c">>, <<SAB, I0>>, P2x),                                      \* nested
             Ent(TupV(<<SAB.v>>), <<Rep("t1", "(" \o SAB.reps[1].src \o ",)"), Rep("t2", "(" \o SAB.reps[2].src \o ",)"),
                                   Rep("t3", "(" \o SABf.reps[2].src \o ",)")>>),
             Ent(StructV(<<"a">>, <<SAB.v>>), <<Rep("n1", "struct(a = " \o SAB.reps[1].src \o ")"),
                                                Rep("n2", "struct(a = " \o SAB.reps[2].src \o ")"),
                                                Rep("n3", "struct(a = " \o SAB.reps[4].src \o ")")>>)>>
\* record / enum instances: RecA and RecB (EnA and EnB) are two declarations of the same shape
RecEnt(ty, e1, e2) ==
    Ent(RecIV(ty, <<"a", "b">>, <<e1.v, e2.v>>),
        <<Rep("kw", ty \o "(a = " \o e1.reps[1].src \o ", b = " \o e2.reps[1].src \o ")"),
          Rep("kwrev", ty \o "(b = " \o e2.reps[1].src \o ", a = " \o e1.reps[1].src \o ")"),
          Rep("star", ty \o "(**{" \o Q \o "b" \o Q \o ": " \o e2.reps[1].src \o ", " \o Q \o "a" \o Q \o ": " \o e1.reps[1].src \o "})")>>)
EnumEnt(ty, ix, nm) ==
    Ent(EnumIV(ty, ix),
        <<Rep("call", ty \o "(" \o Q \o nm \o Q \o ")"), Rep("index", ty \o "[" \o ToString(ix) \o "]"),
          Rep("attr", ty \o "." \o nm), Rep("iter", "[ev_ for ev_ in " \o ty \o "][" \o ToString(ix) \o "]")>>)
Nominal == <<RecEnt("RecA", I1, I2), RecEnt("RecB", I1, I2), RecEnt("RecA", I2, I1), RecEnt("RecA", I1, I1),
             EnumEnt("EnA", 0, "x"), EnumEnt("EnA", 1, "y"), EnumEnt("EnB", 0, "x"),
             Ent(TupV(<<RecIV("RecA", <<"a", "b">>, <<I1.v, I2.v>>), EnumIV("EnA", 1)>>),
                 <<Rep("t1", "(RecA(a = 1, b = 2), EnA(" \o Q \o "y" \o Q \o "))"), Rep("t2", "(RecA(b = 2, a = 1), EnA[1])")>>)>>

Unhash == <<DictEnt(<<>>, <<>>, <<<<>>>>), DictEnt(<<I1, SA>>, <<I2, I1>>, P2x), DictEnt(<<F1, SA>>, <<I2, F1>>, P2x),
            DictEnt(<<I1, SA>>, <<I1, I2>>, P2x), DictEnt(<<I1, I2, SA>>, <<I1, I1, I1>>, P3x),
            SetEnt(<<>>, <<<<>>>>), SetEnt(<<I1, I2>>, P2x), SetEnt(<<F1, I2>>, P2x), SetEnt(<<I1, I2, SA>>, P3x), SetEnt(<<I1>>, P1),
            Ent(RangeV(<<>>), <<Rep("r0", "range(0)"), Rep("rneg", "range(5, 1)"), Rep("rstep", "range(0, -3, 2)")>>),
            Ent(RangeV(<<I0.v, I1.v, I2.v>>), <<Rep("r1", "range(3)"), Rep("r3", "range(0, 3, 1)"), Rep("rslice", "range(10)[0:3]")>>),
            Ent(RangeV(<<I0.v, I2.v>>), <<Rep("r3", "range(0, 3, 2)"), Rep("r4", "range(0, 4, 2)"), Rep("rslice", "range(5)[0:4:2]")>>),
            ListEnt(<<I0, I1, I2>>)>>

U  == Ints \o Floats \o Strs \o Others \o Tups \o Lists \o Structs \o Nominal \o Unhash
NU == Len(U)
NNum == Len(Ints) + Len(Floats)                 \* the numbers are U[1..NNum]

(* the relations as matrices, computed once *)
EqM  == [ix \in 1..NU |-> [jx \in 1..NU |-> Eq(U[ix].v, U[jx].v)] \o <<>>] \o <<>>
CmpM == [ix \in 1..NU |-> [jx \in 1..NU |-> Cmp3(U[ix].v, U[jx].v)] \o <<>>] \o <<>>
HC   == [ix \in 1..NU |-> HashClass(U[ix].v)] \o <<>>
HOK  == [ix \in 1..NU |-> Hashable(U[ix].v)] \o <<>>
RC   == [ix \in 1..NU |-> RepClass(U[ix].v)] \o <<>>

(* clusters of numbers that are close together (or special): triples and sort lists come from
   inside a cluster *)
Four == IntN(FromInt(4))
ClusterOf(x) == IF x.k # "fin" THEN "special"
                ELSE IF NumCmp(x, Four) <= 0 /\ NumCmp(x, IntN(FromInt(-4))) >= 0 THEN "0"
                ELSE (IF Sign(x.m) < 0 THEN "-" ELSE "+") \o ToString(BitLen(Add(Abs(IntegerOf(x)), FromInt(2))))
CL == [ix \in 1..NNum |-> ClusterOf(U[ix].v)] \o <<>>
=============================================================================

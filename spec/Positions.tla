----------------------------- MODULE Positions -----------------------------
(* Position arithmetic of text documents, written from the LSP 3.17 definition of Position
   ("line: zero-based; character: zero-based offset in UTF-16 code units of the line") and of
   line ends (\n, \r\n, \r), independently of starlark_syntax/src/codemap.rs.

   A document is a sequence of Unicode code points (integers).  A *place* k in 0..Len(doc) is the
   gap after the first k code points.  For every place the table gives
     b  byte offset in the UTF-8 encoding          (what the implementation's Pos/Span count)
     l  zero-based line
     c  column in code points                      (the codemap's documented convention)
     w  column in UTF-16 code units                (the LSP convention)
     y  column in UTF-8 bytes
   A Position [line, character] is valid for a document iff the line exists and character is at
   most the UTF-16 length of that line (terminator excluded); a Range iff both ends are valid and
   start <= end. *)
EXTENDS Naturals, Sequences

LF == 10
CR == 13

Utf8Len(c)  == IF c < 128 THEN 1 ELSE IF c < 2048 THEN 2 ELSE IF c < 65536 THEN 3 ELSE 4
Utf16Len(c) == IF c < 65536 THEN 1 ELSE 2
IsAstral(c) == c >= 65536
IsAscii(c)  == c < 128

(* the code point at index i (1-based) is the LAST code point of a line terminator *)
EndsLine(doc, i) == \/ doc[i] = LF
                    \/ doc[i] = CR /\ (i = Len(doc) \/ doc[i + 1] # LF)
(* the code point at index i belongs to a line terminator *)
InEol(doc, i) == doc[i] = LF \/ doc[i] = CR

Row0 == [b |-> 0, l |-> 0, c |-> 0, w |-> 0, y |-> 0]

StepRow(doc, p, k) ==
    LET ch == doc[k] IN
    IF EndsLine(doc, k) THEN [b |-> p.b + Utf8Len(ch), l |-> p.l + 1, c |-> 0, w |-> 0, y |-> 0]
    ELSE [b |-> p.b + Utf8Len(ch), l |-> p.l, c |-> p.c + 1, w |-> p.w + Utf16Len(ch), y |-> p.y + Utf8Len(ch)]

RECURSIVE BuildTable(_, _, _)
BuildTable(doc, k, acc) ==
    IF k > Len(doc) THEN acc
    ELSE BuildTable(doc, k + 1, Append(acc, StepRow(doc, acc[Len(acc)], k)))

(* Table(doc)[k + 1] is the row of place k *)
Table(doc) == BuildTable(doc, 1, <<Row0>>)

(* UTF-16 length of every line, terminators excluded; Len = number of lines = terminators + 1 *)
RECURSIVE BuildLens(_, _, _, _)
BuildLens(doc, k, cur, acc) ==
    IF k > Len(doc) THEN Append(acc, cur)
    ELSE IF EndsLine(doc, k) THEN BuildLens(doc, k + 1, 0, Append(acc, cur))
    ELSE IF InEol(doc, k) THEN BuildLens(doc, k + 1, cur, acc)        \* the \r of \r\n
    ELSE BuildLens(doc, k + 1, cur + Utf16Len(doc[k]), acc)
LineLens16(doc) == BuildLens(doc, 1, 0, <<>>)

Pos(l, ch) == [line |-> l, character |-> ch]
Rng(sl, sc, el, ec) == [start |-> Pos(sl, sc), end |-> Pos(el, ec)]

PosLe(p, q) == p.line < q.line \/ (p.line = q.line /\ p.character <= q.character)

ValidPos(lens, p) == p.line < Len(lens) /\ p.character <= lens[p.line + 1]
ValidRange(lens, r) == ValidPos(lens, r.start) /\ ValidPos(lens, r.end) /\ PosLe(r.start, r.end)

(* byte offset -> Position and back, through the table *)
PlaceOfByte(tab, b) == CHOOSE k \in 0..(Len(tab) - 1) : tab[k + 1].b = b
IsBoundary(tab, b)  == \E k \in 0..(Len(tab) - 1) : tab[k + 1].b = b
OffsetToPos(tab, b) == LET r == tab[PlaceOfByte(tab, b) + 1] IN Pos(r.l, r.w)
HasPlace(tab, p)    == \E k \in 0..(Len(tab) - 1) : tab[k + 1].l = p.line /\ tab[k + 1].w = p.character
PosToOffset(tab, p) == LET k == CHOOSE k \in 0..(Len(tab) - 1) : tab[k + 1].l = p.line /\ tab[k + 1].w = p.character
                       IN tab[k + 1].b

(* the LSP range of the code points between places a and e *)
ToLspRange(tab, a, e) == Rng(tab[a + 1].l, tab[a + 1].w, tab[e + 1].l, tab[e + 1].w)
ToCpRange(tab, a, e)  == Rng(tab[a + 1].l, tab[a + 1].c, tab[e + 1].l, tab[e + 1].c)
ToByteRange(tab, a, e) == Rng(tab[a + 1].l, tab[a + 1].y, tab[e + 1].l, tab[e + 1].y)

(* classification of a place: is there an astral / a non-ASCII code point before it on its line *)
AstralBefore(tab, a)   == tab[a + 1].w # tab[a + 1].c
NonAsciiBefore(tab, a) == tab[a + 1].y # tab[a + 1].c
=============================================================================

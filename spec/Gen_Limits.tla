----------------------------- MODULE Gen_Limits -----------------------------
(* G for C15: programs with a known number of ticks / a known call depth, run under a call-stack
   cap, a tick budget and a cancellation point.  Sem.tla computes how far the program gets;
   Limits.tla's rule (the periodic check fires at multiples of Period; one more check at the end
   of the evaluation) decides where it stops.  One JSON line per case. *)
EXTENDS Sem, Ast, Json

Period == 1000
FailPoint(budget) == Period * ((budget \div Period) + 1)

P(n) == AParam(n, <<0>>)
N_n == AVar("n")

(* def run(n): c = 0 / for i in range(n): c += 1 / return c ; emit(run(N)) *)
TLoop(N) ==
    <<SDef("run", <<P("n")>>,
           <<SAssign(TVar("c"), AInt(0)),
             SFor(TVar("i"), ACall(AVar("range"), <<N_n>>), <<SAug("+", TVar("c"), AInt(1))>>),
             SReturn(AVar("c"))>>),
      SEmit(ACall(AVar("run"), <<AInt(N)>>))>>

(* nested loops a x b with an emit before *)
TNested(A, B) ==
    <<SDef("run", <<P("n"), P("k")>>,
           <<SAssign(TVar("c"), AInt(0)),
             SFor(TVar("i"), ACall(AVar("range"), <<N_n>>),
                  <<SFor(TVar("j"), ACall(AVar("range"), <<AVar("k")>>), <<SAug("+", TVar("c"), AInt(1))>>)>>),
             SReturn(AVar("c"))>>),
      SEmit(AInt(7)),
      SEmit(ACall(AVar("run"), <<AInt(A), AInt(B)>>))>>

(* comprehension loop *)
TCompr(N) ==
    <<SDef("run", <<P("n")>>,
           <<SReturn(AIndex(ACompr(AVar("q"), <<AFor(TVar("q"), ACall(AVar("range"), <<N_n>>))>>), AInt(-1)))>>),
      SEmit(ACall(AVar("run"), <<AInt(N)>>))>>

(* direct recursion: def f(n): if n <= 0: return 0 / return 1 + f(n - 1) *)
FBody(callee) == <<SIf(ABin("<=", N_n, AInt(0)), <<SReturn(AInt(0))>>, <<>>),
                   SReturn(ABin("+", AInt(1), ACall(AVar(callee), <<ABin("-", N_n, AInt(1))>>)))>>
TRec(D) == <<SDef("f", <<P("n")>>, FBody("f")), SEmit(AInt(5)), SEmit(ACall(AVar("f"), <<AInt(D)>>))>>
(* mutual recursion *)
TMutual(D) == <<SDef("f", <<P("n")>>, FBody("g")), SDef("g", <<P("n")>>, FBody("f")),
                SEmit(ACall(AVar("f"), <<AInt(D)>>))>>
(* recursion through a lambda passed to itself *)
TLambda(D) ==
    <<SAssign(TVar("h"), ALambda(<<P("n"), P("s")>>,
          [k |-> "if", c |-> ABin("<=", N_n, AInt(0)), t |-> AInt(0),
           f |-> ABin("+", AInt(1), ACall(AVar("s"), <<ABin("-", N_n, AInt(1)), AVar("s")>>)), line |-> 0])),
      SEmit(ACall(AVar("h"), <<AInt(D), AVar("h")>>))>>
(* recursion under a native callback: sorted(key = f) *)
TSortedKey(D) ==
    <<SDef("f", <<P("n")>>, FBody("f")),
      SDef("kf", <<P("x")>>, <<SReturn(ACall(AVar("f"), <<AInt(D)>>))>>),
      SEmit(ACallN(AVar("sorted"), <<AList(<<AInt(2), AInt(1)>>)>>, <<ANamed("key", <<107, 101, 121>>, AVar("kf"))>>))>>
(* recursion inside a comprehension *)
TComprRec(D) ==
    <<SDef("f", <<P("n")>>,
           <<SIf(ABin("<=", N_n, AInt(0)), <<SReturn(AInt(0))>>, <<>>),
             SReturn(ABin("+", AInt(1), AIndex(ACompr(ACall(AVar("f"), <<ABin("-", N_n, AInt(1))>>),
                                                       <<AFor(TVar("q"), AList(<<AInt(0)>>))>>), AInt(0))))>>),
      SEmit(ACall(AVar("f"), <<AInt(D)>>))>>

(* recursion through the native callbacks map() and partial() *)
TMapRec(D) ==
    <<SDef("f", <<P("n")>>,
           <<SIf(ABin("<=", N_n, AInt(0)), <<SReturn(AInt(0))>>, <<>>),
             SReturn(ABin("+", AInt(1), AIndex(ACall(AVar("map"), <<AVar("f"), AList(<<ABin("-", N_n, AInt(1))>>)>>), AInt(0))))>>),
      SEmit(ACall(AVar("f"), <<AInt(D)>>))>>
TPartialRec(D) ==
    <<SDef("f", <<P("n")>>,
           <<SIf(ABin("<=", N_n, AInt(0)), <<SReturn(AInt(0))>>, <<>>),
             SReturn(ABin("+", AInt(1), ACall(ACall(AVar("partial"), <<AVar("f"), ABin("-", N_n, AInt(1))>>), <<>>)))>>),
      SEmit(ACall(AVar("f"), <<AInt(D)>>))>>

Prog(c) ==
    IF c.t = "loop" THEN TLoop(c.n)
    ELSE IF c.t = "nested" THEN TNested(c.n, 10)
    ELSE IF c.t = "compr" THEN TCompr(c.n)
    ELSE IF c.t = "rec" THEN TRec(c.n)
    ELSE IF c.t = "mutual" THEN TMutual(c.n)
    ELSE IF c.t = "lambda" THEN TLambda(c.n)
    ELSE IF c.t = "sortedkey" THEN TSortedKey(c.n)
    ELSE IF c.t = "maprec" THEN TMapRec(c.n)
    ELSE IF c.t = "partialrec" THEN TPartialRec(c.n)
    ELSE TComprRec(c.n)

RunWith(prog, cap, tkfail, tkkind) ==
    LET names == SetToSeq(AssignedS(prog, 1))
        m0 == [M0(cap, FALSE) EXCEPT !.tkfail = tkfail, !.tkkind = tkkind]
        fr == NewFrame(m0, names, [i \in 1..Len(names) |-> UnboundV])
    IN ExecB(prog, 1, <<fr.a>>, fr.m).m

(* Limits' rule applied to `n` further ticks on the same evaluator, starting from the counters
   (atLast, counter) the previous evaluation left: the periodic check fires when the counter
   reaches Period (immediately, if a failed check left it there), one more check at the end. *)
RECURSIVE RunTicks(_, _, _, _, _)
RunTicks(atLast, counter, n, budget, cancel) ==
    LET j == IF counter >= Period THEN 1 ELSE Period - counter IN      \* ticks until the next periodic check
    IF n < j THEN
        (LET total == atLast + counter + n IN
         [kind |-> IF cancel # 0 /\ total >= cancel THEN "cancelled" ELSE IF budget # 0 /\ total > budget THEN "ticks" ELSE "",
          total |-> total, atLast |-> atLast, counter |-> counter + n])
    ELSE LET total == atLast + counter + j IN
         IF cancel # 0 /\ total >= cancel THEN [kind |-> "cancelled", total |-> total, atLast |-> atLast, counter |-> counter + j]
         ELSE IF budget # 0 /\ total > budget THEN [kind |-> "ticks", total |-> total, atLast |-> atLast, counter |-> counter + j]
         ELSE RunTicks(total, 0, n - j, budget, cancel)

ProbeLoopTicks == 1502      \* def _p(n): for i in range(n): pass ; _p(1500) : the call, range(), 1500 iterations

(* The probe evaluations themselves need call depth (the module frame, the function, the native call
   inside it): with a very small stack they end in the depth error too, whatever happened before.
   Sem runs them under the same stack size; the long probe's depth failure, if any, comes before its
   loop starts, so a short loop decides it. *)
Probe1Prog == <<SEmit(AInt(1))>>
Probe2Prog(k) == <<SDef("_p", <<P("n")>>, <<SFor(TVar("i"), ACall(AVar("range"), <<N_n>>), <<SPass>>)>>),
                   SExpr(ACall(AVar("_p"), <<AInt(k)>>))>>

(* c: [t, n, cap, budget (0: none), cancel (0: none)] *)
Expect(c) ==
    LET prog == Prog(c)
        fpB == IF c.budget = 0 THEN 0 ELSE FailPoint(c.budget)
        kc == IF c.cancel = 0 THEN 0 ELSE (c.cancel + Period - 1) \div Period       \* first check index that sees the flag
        fpC == kc * Period
        first == IF fpB = 0 THEN fpC ELSE IF fpC = 0 THEN fpB ELSE IF fpC <= fpB THEN fpC ELSE fpB
        kind == IF first = 0 THEN "ticks" ELSE IF fpC # 0 /\ fpC <= first THEN "cancelled" ELSE "ticks"
        m == RunWith(prog, c.cap, first, kind)
        \* the check at the end of the evaluation (only reached when nothing failed before)
        endCancel == c.cancel # 0 /\ m.tk >= c.cancel
        endTicks == c.budget # 0 /\ m.tk > c.budget
        k2 == IF m.err.kind # "" THEN m.err.kind ELSE IF endCancel THEN "cancelled" ELSE IF endTicks THEN "ticks" ELSE ""
        d1 == RunWith(Probe1Prog, c.cap, 0, "ticks")
        d2 == RunWith(Probe2Prog(2), c.cap, 0, "ticks")
    IN [kind |-> k2, out |-> m.out, total |-> m.tk, maxd |-> m.maxd,
        \* after the error the evaluator is reusable: what a trivial second evaluation must give
        \* (`emit(1)`: one more tick on the same, cumulative, counter)
        probe |-> IF d1.err.kind = "depth" THEN "depth"
                  ELSE IF c.cancel # 0 /\ m.tk + 1 >= c.cancel THEN "cancelled"
                  ELSE IF c.budget # 0 /\ m.tk + 1 > c.budget THEN "ticks" ELSE "",
        \* and a LONG second evaluation (more than one check interval): where must it stop?
        probe2 |-> LET periodic == m.err.kind \in {"ticks", "cancelled"}       \* main failed in a periodic check
                       al0 == IF periodic THEN m.tk - Period ELSE Period * (m.tk \div Period)
                       ct0 == IF periodic THEN Period ELSE m.tk % Period
                       p1 == RunTicks(al0, ct0, 1, c.budget, c.cancel)            \* the first probe: emit(1)
                       p2 == RunTicks(p1.atLast, p1.counter, ProbeLoopTicks, c.budget, c.cancel)
                   IN IF d2.err.kind = "depth" THEN [kind |-> "depth", total |-> m.tk + d1.tk + d2.tk]
                      ELSE [kind |-> p2.kind, total |-> p2.total]]

CONSTANT Tier
Sizes == IF Tier = "quick" THEN {997, 998} ELSE {995, 996, 997, 998, 999, 1000, 1995, 1996, 1997, 1998, 2996}
Budgets == IF Tier = "quick" THEN {0, 998, 999, 1000, 1001, 1999} ELSE {0, 500, 997, 998, 999, 1000, 1001, 1002, 1998, 1999, 2000, 2001, 2999}
Cancels == IF Tier = "quick" THEN {0, 1000, 1001} ELSE {0, 1, 999, 1000, 1001, 1999, 2000, 2001}
Caps == IF Tier = "quick" THEN {3, 5, 50} ELSE {1, 2, 3, 5, 50}
RecT == {"rec", "mutual", "lambda", "sortedkey", "comprrec", "maprec", "partialrec"}

TickCases == {[t |-> t, n |-> n, cap |-> 50, budget |-> b, cancel |-> x] :
                 t \in {"loop", "compr"}, n \in Sizes, b \in Budgets, x \in Cancels}
             \cup {[t |-> "nested", n |-> n, cap |-> 50, budget |-> b, cancel |-> 0] : n \in (IF Tier = "quick" THEN {91} ELSE {90, 91, 181}), b \in Budgets}
DepthCases == {[t |-> t, n |-> cp + d, cap |-> cp, budget |-> 0, cancel |-> 0] :
                 t \in RecT, cp \in Caps, d \in {-4, -3, -2, -1, 0, 1}}
Cases == {c \in TickCases \cup DepthCases : c.n >= 0 /\ ~(c.budget # 0 /\ c.cancel # 0 /\ Tier = "quick" /\ c.t = "compr")}

VARIABLES case, done
Init == case \in Cases /\ done = FALSE
(* the expensive evaluation happens in the action so that TLC's workers share the cases *)
Next == /\ ~done /\ done' = TRUE /\ UNCHANGED case
        /\ PrintT(<<"CASE", ToJson([class |-> case, prog |-> Prog(case), exp |-> Expect(case)])>>)
Spec == Init /\ [][Next]_<<case, done>>
=============================================================================

---------------------------- MODULE Trace_Spans ----------------------------
(* V for C05: every record the harness dumped from the real parser (span tree of a parsed input,
   span of a syntax error, acceptance / tree class under the dialect chain) is judged by
   Spans!WellFormed.  One step per record; every record that is not well formed is reported with
   the clause it breaks; the run is complete only if all records were consumed. *)
EXTENDS Spans, TLC, Json, IOUtils

VARIABLE l
Rec == ndJsonDeserialize(IOEnv.TRACE)

WhyOf(r) == IF r.t = "mono" THEN "dialect_monotone" ELSE IF r.t \in {"tree","err"} THEN Why(r) ELSE "unknown_record"
\* `= TRUE`: evaluate as a value (inside an action TLC would explore both sides of a disjunction)
Judged(j) == IF WellFormed(Rec[j]) = TRUE THEN TRUE
             ELSE PrintT(<<"BADREC", ToJson([at |-> j, why |-> WhyOf(Rec[j])])>>)

TInit == l = 1
TNext == l <= Len(Rec) /\ Judged(l) /\ l' = l + 1
TSpec == TInit /\ [][TNext]_l

Accepted ==
    LET d == TLCGet("stats").diameter IN
    IF d - 1 = Len(Rec) THEN TRUE
    ELSE /\ PrintT(<<"INCOMPLETE", d, Len(Rec)>>)
         /\ FALSE
=============================================================================

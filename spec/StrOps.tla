------------------------------ MODULE StrOps ------------------------------
(* Layer 2 of the value operations: everything on strings (sequences of code points) and on
   integers-as-bit-strings that the shared core offers beyond Values.tla.  Pure; no heap, except
   where a value has to be rendered (Percent / DotFormat take the heap for Str / Repr).

   The case-mapping and classification operators are specified for ASCII only; the operators
   that depend on them (`AsciiOnly`) are asked by Sem before use, and a program applying them
   to anything else is outside the specified domain. *)
EXTENDS Values

(* ---------------------------------------------------------------- integers as bit strings
   Two's complement of unbounded width: x = 2 * FloorDiv(x, 2) + (x mod 2), with -1 = ...111 *)
RECURSIVE BitAnd(_, _), BitOr(_, _), BitXor(_, _), Pow2(_)
Pow2(n) == IF n = 0 THEN 1 ELSE 2 * Pow2(n - 1)
Bit(x) == FloorMod(x, 2)
BitAnd(a, b) ==
    IF a = 0 \/ b = 0 THEN 0
    ELSE IF a = -1 THEN b ELSE IF b = -1 THEN a
    ELSE (Bit(a) * Bit(b)) + 2 * BitAnd(FloorDiv(a, 2), FloorDiv(b, 2))
BitOr(a, b) ==
    IF a = 0 THEN b ELSE IF b = 0 THEN a
    ELSE IF a = -1 \/ b = -1 THEN -1
    ELSE (IF Bit(a) + Bit(b) > 0 THEN 1 ELSE 0) + 2 * BitOr(FloorDiv(a, 2), FloorDiv(b, 2))
BitXor(a, b) ==
    IF a = 0 THEN b ELSE IF b = 0 THEN a
    ELSE IF a = -1 THEN -b - 1 ELSE IF b = -1 THEN -a - 1
    ELSE (IF Bit(a) # Bit(b) THEN 1 ELSE 0) + 2 * BitXor(FloorDiv(a, 2), FloorDiv(b, 2))

(* ---------------------------------------------------------------- characters (ASCII) *)
IsUpperC(c) == c >= 65 /\ c <= 90
IsLowerC(c) == c >= 97 /\ c <= 122
IsAlphaC(c) == IsUpperC(c) \/ IsLowerC(c)
IsDigitC(c) == c >= 48 /\ c <= 57
IsAlnumC(c) == IsAlphaC(c) \/ IsDigitC(c)
UpC(c) == IF IsLowerC(c) THEN c - 32 ELSE c
LoC(c) == IF IsUpperC(c) THEN c + 32 ELSE c
AsciiOnly(s) == \A i \in 1..Len(s) : s[i] < 128 /\ s[i] \notin {11, 12, 28, 29, 30, 31}

Capitalize(s) == [i \in 1..Len(s) |-> IF i = 1 THEN UpC(s[i]) ELSE LoC(s[i])]
Title(s) == [i \in 1..Len(s) |-> IF i = 1 \/ ~IsAlphaC(s[i - 1]) THEN UpC(s[i]) ELSE LoC(s[i])]

IsAlnumS(s) == Len(s) > 0 /\ \A i \in 1..Len(s) : IsAlnumC(s[i])
IsAlphaS(s) == Len(s) > 0 /\ \A i \in 1..Len(s) : IsAlphaC(s[i])
IsDigitS(s) == Len(s) > 0 /\ \A i \in 1..Len(s) : IsDigitC(s[i])
IsSpaceS(s) == Len(s) > 0 /\ \A i \in 1..Len(s) : IsSpace(s[i])
IsLowerS(s) == (\E i \in 1..Len(s) : IsLowerC(s[i])) /\ ~(\E i \in 1..Len(s) : IsUpperC(s[i]))
IsUpperS(s) == (\E i \in 1..Len(s) : IsUpperC(s[i])) /\ ~(\E i \in 1..Len(s) : IsLowerC(s[i]))
(* an upper-case letter only after a non-letter, a lower-case letter only after a letter *)
IsTitleS(s) ==
    /\ \E i \in 1..Len(s) : IsAlphaC(s[i])
    /\ \A i \in 1..Len(s) :
         LET afterLetter == i > 1 /\ IsAlphaC(s[i - 1]) IN
         /\ (IsUpperC(s[i]) => ~afterLetter)
         /\ (IsLowerC(s[i]) => afterLetter)

(* ---------------------------------------------------------------- strip with a character set *)
InSeq(c, cs) == \E i \in 1..Len(cs) : cs[i] = c
LStripC(s, cs) ==
    LET keep == {i \in 1..Len(s) : ~InSeq(s[i], cs)}
    IN IF keep = {} THEN <<>> ELSE SubSeq(s, CHOOSE i \in keep : \A j \in keep : i <= j, Len(s))
RStripC(s, cs) ==
    LET keep == {i \in 1..Len(s) : ~InSeq(s[i], cs)}
    IN IF keep = {} THEN <<>> ELSE SubSeq(s, 1, CHOOSE i \in keep : \A j \in keep : i >= j)

(* ---------------------------------------------------------------- searching in a window
   start / end are options [some, v]; they are normalised like slice bounds. *)
WinLo(n, lo) == IF lo.some THEN (IF lo.v < 0 THEN Max2(lo.v + n, 0) ELSE Min2(lo.v, n)) ELSE 0
WinHi(n, hi) == IF hi.some THEN (IF hi.v < 0 THEN Max2(hi.v + n, 0) ELSE Min2(hi.v, n)) ELSE n
(* first / last 0-based position p with lo <= p and p + |needle| <= hi, or -1 *)
FindIn(hay, needle, lo, hi) ==
    LET c == {p \in lo..(hi - Len(needle)) : MatchAt(hay, needle, p)}
    IN IF c = {} THEN -1 ELSE CHOOSE p \in c : \A q \in c : p <= q
RFindIn(hay, needle, lo, hi) ==
    LET c == {p \in lo..(hi - Len(needle)) : MatchAt(hay, needle, p)}
    IN IF c = {} THEN -1 ELSE CHOOSE p \in c : \A q \in c : p >= q
RECURSIVE CountIn(_, _, _, _)
CountIn(hay, needle, lo, hi) ==      \* non-overlapping, needle non-empty
    LET p == FindIn(hay, needle, lo, hi) IN
    IF p = -1 THEN 0 ELSE 1 + CountIn(hay, needle, p + Len(needle), hi)

(* ---------------------------------------------------------------- split / join family *)
RECURSIVE SplitMax(_, _, _), RSplitMax(_, _, _), SplitWs(_, _), RSplitWs(_, _), ReplaceMax(_, _, _, _),
          SplitLines(_, _)
(* at most k splits from the left (k < 0: no limit); sep non-empty *)
SplitMax(s, sep, k) ==
    LET p == FindFrom(s, sep, 0) IN
    IF k = 0 \/ p = -1 THEN <<s>>
    ELSE <<SubSeq(s, 1, p)>> \o SplitMax(SubSeq(s, p + Len(sep) + 1, Len(s)), sep, k - 1)
RSplitMax(s, sep, k) ==
    LET p == RFindIn(s, sep, 0, Len(s)) IN
    IF k = 0 \/ p = -1 THEN <<s>>
    ELSE RSplitMax(SubSeq(s, 1, p), sep, k - 1) \o <<SubSeq(s, p + Len(sep) + 1, Len(s))>>
(* split on runs of white space; leading and trailing white space produce no fields; when the
   limit is reached the rest (without leading white space) is one field, trailing space kept *)
SplitWs(s, k) ==
    LET t == LStrip(s) IN
    IF Len(t) = 0 THEN <<>>
    ELSE IF k = 0 THEN <<t>>
    ELSE LET ws == {i \in 1..Len(t) : IsSpace(t[i])} IN
         IF ws = {} THEN <<t>>
         ELSE LET i == CHOOSE i \in ws : \A j \in ws : i <= j IN
              <<SubSeq(t, 1, i - 1)>> \o SplitWs(SubSeq(t, i, Len(t)), k - 1)
RSplitWs(s, k) ==
    LET t == RStrip(s) IN
    IF Len(t) = 0 THEN <<>>
    ELSE IF k = 0 THEN <<t>>
    ELSE LET ws == {i \in 1..Len(t) : IsSpace(t[i])} IN
         IF ws = {} THEN <<t>>
         ELSE LET i == CHOOSE i \in ws : \A j \in ws : i >= j IN
              RSplitWs(SubSeq(t, 1, i), k - 1) \o <<SubSeq(t, i + 1, Len(t))>>

(* replace the first k occurrences (k < 0: all).  An empty `old` matches before every character
   and at the end: positions 0..Len(s), the first k of them are used. *)
RECURSIVE RepEmpty(_, _, _, _)
RepEmpty(s, new, i, cnt) ==      \* i: 0-based insertion position
    IF i > Len(s) THEN <<>>
    ELSE (IF i < cnt THEN new ELSE <<>>) \o (IF i < Len(s) THEN <<s[i + 1]>> ELSE <<>>) \o RepEmpty(s, new, i + 1, cnt)
ReplaceMax(s, old, new, k) ==
    IF k = 0 THEN s
    ELSE IF Len(old) = 0 THEN RepEmpty(s, new, 0, IF k < 0 THEN Len(s) + 1 ELSE Min2(k, Len(s) + 1))
    ELSE LET p == FindFrom(s, old, 0) IN
         IF p = -1 THEN s
         ELSE SubSeq(s, 1, p) \o new \o ReplaceMax(SubSeq(s, p + Len(old) + 1, Len(s)), old, new, k - 1)

(* lines end at \n, \r\n or \r; a trailing line break does not open a new (empty) line *)
SplitLines(s, keep) ==
    IF Len(s) = 0 THEN <<>>
    ELSE LET br == {i \in 1..Len(s) : s[i] = 10 \/ s[i] = 13} IN
         IF br = {} THEN <<s>>
         ELSE LET i == CHOOSE i \in br : \A j \in br : i <= j
                  e == IF s[i] = 13 /\ i < Len(s) /\ s[i + 1] = 10 THEN i + 1 ELSE i
              IN <<SubSeq(s, 1, IF keep THEN e ELSE i - 1)>> \o SplitLines(SubSeq(s, e + 1, Len(s)), keep)

Partition(s, sep) ==       \* sep non-empty
    LET p == FindFrom(s, sep, 0) IN
    IF p = -1 THEN <<s, <<>>, <<>>>> ELSE <<SubSeq(s, 1, p), sep, SubSeq(s, p + Len(sep) + 1, Len(s))>>
RPartition(s, sep) ==
    LET p == RFindIn(s, sep, 0, Len(s)) IN
    IF p = -1 THEN <<<<>>, <<>>, s>> ELSE <<SubSeq(s, 1, p), sep, SubSeq(s, p + Len(sep) + 1, Len(s))>>

(* ---------------------------------------------------------------- integers and text *)
DigitVal(c) == IF IsDigitC(c) THEN c - 48 ELSE IF IsLowerC(c) THEN c - 87 ELSE IF IsUpperC(c) THEN c - 55 ELSE 99
RECURSIVE DigitsVal(_, _, _, _)
DigitsVal(s, i, base, acc) == IF i > Len(s) THEN acc ELSE DigitsVal(s, i + 1, base, acc * base + DigitVal(s[i]))
(* [ok, v, dom]: text -> integer for a base in 2..36; signs allowed, no prefix, no underscore, no
   space (those are outside the specified domain: dom = FALSE) *)
ParseInt(s, base) ==
    LET neg == Len(s) > 0 /\ s[1] = 45
        body == IF Len(s) > 0 /\ (s[1] = 45 \/ s[1] = 43) THEN SubSeq(s, 2, Len(s)) ELSE s
        odd == \E i \in 1..Len(s) : s[i] = 95 \/ IsSpace(s[i])
        prefixed == Len(body) >= 2 /\ body[1] = 48 /\ body[2] \in {98, 66, 111, 79, 120, 88}
        maxlen == IF base <= 10 THEN 9 ELSE IF base <= 16 THEN 7 ELSE 5
    IN IF odd \/ prefixed \/ Len(body) > maxlen THEN [ok |-> FALSE, v |-> 0, dom |-> FALSE]
       ELSE IF Len(body) = 0 \/ \E i \in 1..Len(body) : DigitVal(body[i]) >= base THEN [ok |-> FALSE, v |-> 0, dom |-> TRUE]
       ELSE LET v == DigitsVal(body, 1, base, 0) IN [ok |-> TRUE, v |-> IF neg THEN -v ELSE v, dom |-> v < Limit]

HexDigit(d, upper) == IF d < 10 THEN 48 + d ELSE (IF upper THEN 55 ELSE 87) + d
RECURSIVE NatBase(_, _, _)
NatBase(n, base, upper) ==
    IF n < base THEN <<HexDigit(n, upper)>> ELSE Append(NatBase(n \div base, base, upper), HexDigit(n % base, upper))
IntBase(i, base, upper) == IF i < 0 THEN <<45>> \o NatBase(-i, base, upper) ELSE NatBase(i, base, upper)

(* ---------------------------------------------------------------- "%" formatting
   Result [kind, s]: kind "" = ok; "format" (malformed / wrong count), "type" (wrong operand),
   "spec_domain" (a conversion or operand this specification does not define). *)
FmtR(kind, s) == [kind |-> kind, s |-> s]
RECURSIVE PercentGo(_, _, _, _, _, _)
PercentGo(f, i, vals, vi, acc, h) ==
    IF i > Len(f) THEN (IF vi <= Len(vals) THEN FmtR("format", <<>>) ELSE FmtR("", acc))
    ELSE IF f[i] # 37 THEN PercentGo(f, i + 1, vals, vi, Append(acc, f[i]), h)
    ELSE IF i = Len(f) THEN FmtR("format", <<>>)
    ELSE LET c == f[i + 1] IN
         IF c = 37 THEN PercentGo(f, i + 2, vals, vi, Append(acc, 37), h)
         ELSE IF c \notin {115, 114, 100, 111, 120, 88} THEN
             \* conversions, flags and widths of the reference language that this implementation
             \* does not offer (or that involve floats) are outside the specified domain
             (IF c \in {101, 69, 102, 70, 103, 71, 99, 105, 117, 97, 45, 43, 32, 35, 46, 42, 40, 108, 104, 76} \/ IsDigitC(c)
              THEN FmtR("spec_domain", <<>>) ELSE FmtR("format", <<>>))
         ELSE IF vi > Len(vals) THEN FmtR("format", <<>>)
         ELSE LET v == vals[vi] IN
              IF c = 115 \/ c = 114 THEN
                  (IF ~ReprDomain(v, h, 8) THEN FmtR("spec_domain", <<>>)
                   ELSE PercentGo(f, i + 2, vals, vi + 1, acc \o (IF c = 115 THEN Str(v, h) ELSE Repr(v, h, 8)), h))
              ELSE IF v.t = "bool" THEN FmtR("spec_domain", <<>>)
              ELSE IF v.t # "int" THEN FmtR("type", <<>>)
              ELSE PercentGo(f, i + 2, vals, vi + 1,
                             acc \o (IF c = 100 THEN IntStr(v.v) ELSE IF c = 111 THEN IntBase(v.v, 8, FALSE)
                                     ELSE IntBase(v.v, 16, c = 88)), h)
Percent(f, arg, h) == PercentGo(f, 1, IF arg.t = "tuple" THEN arg.v ELSE <<arg>>, 1, <<>>, h)

(* ---------------------------------------------------------------- str.format
   Fields: {} {N} {name}, each optionally followed by !r or !s; {{ and }} are literal braces.
   mode: 0 undecided, 1 automatic numbering, 2 explicit.  kinds as above plus "index" / "key". *)
IsAllDigits(s) == Len(s) > 0 /\ \A i \in 1..Len(s) : IsDigitC(s[i])
RECURSIVE DotGo(_, _, _, _, _, _, _, _)
DotGo(f, i, pos, nk, nv, nexti, mode, acc) ==      \* acc: [s, h]
    IF i > Len(f) THEN FmtR("", acc.s)
    ELSE IF f[i] = 125 THEN
        (IF i < Len(f) /\ f[i + 1] = 125 THEN DotGo(f, i + 2, pos, nk, nv, nexti, mode, [acc EXCEPT !.s = Append(@, 125)])
         ELSE FmtR("format", <<>>))
    ELSE IF f[i] # 123 THEN DotGo(f, i + 1, pos, nk, nv, nexti, mode, [acc EXCEPT !.s = Append(@, f[i])])
    ELSE IF i < Len(f) /\ f[i + 1] = 123 THEN DotGo(f, i + 2, pos, nk, nv, nexti, mode, [acc EXCEPT !.s = Append(@, 123)])
    ELSE LET close == {j \in (i + 1)..Len(f) : f[j] = 125} IN
         IF close = {} THEN FmtR("format", <<>>)
         ELSE LET j == CHOOSE j \in close : \A q \in close : j <= q
                  inner == SubSeq(f, i + 1, j - 1)
                  bang == {q \in 1..Len(inner) : inner[q] = 33}
                  field == IF bang = {} THEN inner ELSE SubSeq(inner, 1, (CHOOSE q \in bang : \A r \in bang : q <= r) - 1)
                  conv == IF bang = {} THEN <<>> ELSE SubSeq(inner, (CHOOSE q \in bang : \A r \in bang : q <= r) + 1, Len(inner))
              IN IF \E q \in 1..Len(inner) : inner[q] = 123 THEN FmtR("format", <<>>)
                 ELSE IF bang # {} /\ conv # <<114>> /\ conv # <<115>> THEN FmtR("format", <<>>)
                 ELSE IF \E q \in 1..Len(field) : field[q] \in {46, 44, 91, 93, 58} THEN FmtR("spec_domain", <<>>)
                 ELSE LET pick ==
                            IF Len(field) = 0 THEN
                                (IF mode = 2 THEN [kind |-> "format", v |-> NoneV]
                                 ELSE IF nexti > Len(pos) THEN [kind |-> "index", v |-> NoneV]
                                 ELSE [kind |-> "", v |-> pos[nexti]])
                            ELSE IF IsAllDigits(field) THEN
                                (IF mode = 1 THEN [kind |-> "format", v |-> NoneV]
                                 ELSE IF Len(field) > 4 THEN [kind |-> "spec_domain", v |-> NoneV]
                                 ELSE LET n == DigitsVal(field, 1, 10, 0) IN
                                      IF n + 1 > Len(pos) THEN [kind |-> "index", v |-> NoneV]
                                      ELSE [kind |-> "", v |-> pos[n + 1]])
                            ELSE (IF \E q \in 1..Len(nk) : nk[q] = field
                                  THEN [kind |-> "", v |-> nv[CHOOSE q \in 1..Len(nk) : nk[q] = field]]
                                  ELSE [kind |-> "key", v |-> NoneV])
                      IN IF pick.kind # "" THEN FmtR(pick.kind, <<>>)
                         ELSE IF ~ReprDomain(pick.v, acc.h, 8) THEN FmtR("spec_domain", <<>>)
                         ELSE DotGo(f, j + 1, pos, nk, nv,
                                    IF Len(field) = 0 THEN nexti + 1 ELSE nexti,
                                    IF Len(field) = 0 THEN 1 ELSE IF IsAllDigits(field) THEN 2 ELSE mode,
                                    [acc EXCEPT !.s = @ \o (IF conv = <<114>> THEN Repr(pick.v, acc.h, 8) ELSE Str(pick.v, acc.h))])
DotFormat(f, pos, nk, nv, h) == DotGo(f, 1, pos, nk, nv, 1, 0, [s |-> <<>>, h |-> h])
=============================================================================

------------------------------ MODULE ProgGen ------------------------------
(* G for C01/C02: exhaustive small-scope program generation.

   A program is a fixed prelude (x = 2, l = [1, 2, 3], d = {"a": 1, "b": 2}, s = "abc"), K statements
   drawn from a pool of statement templates that exercise the interactions the property is
   about (every operator, slices with negative/zero/absent parts, list and dict methods through
   aliases, comprehensions capturing loop variables, closures with defaults evaluated at def time,
   early return from nested loops, break/continue, augmented item assignment with effects,
   deliberately failing operations at any position), and a final probe that emits the whole
   state.  TLC enumerates EVERY sequence of K templates (K = 2 quick, 3 thorough), each at module
   level and wrapped in a def that is called, runs Sem.tla on it and prints the program with the
   expected transcript and outcome kind: one implementation test per program. *)
EXTENDS Sem, Ast, Json, Randomization

CONSTANTS K,        \* statements (templates) per program
          Sample    \* 0: every sequence of K templates; n > 0: n sequences drawn at random (TLC -seed)

S(cp) == AStr(cp)
A_ == <<97>>
B_ == <<98>>
C_ == <<99>>
Z_ == <<122>>
VX == AVar("x")
L == AVar("l")
D == AVar("d")
Sv == AVar("s")
P(n) == AParam(n, <<0>>)
PD(n, d) == [n |-> n, ncp |-> <<0>>, kind |-> "normal", d |-> d]
Sl(e, lo, hi, st) == [k |-> "slice", e |-> e, lo |-> lo, hi |-> hi, st |-> st, line |-> 0]
IfE(c, t, f) == [k |-> "if", c |-> c, t |-> t, f |-> f, line |-> 0]
Neg(e) == [k |-> "neg", e |-> e, line |-> 0]
Call(f, args) == ACall(AVar(f), args)

Prelude == <<SAssign(TVar("x"), AInt(2)),
             SAssign(TVar("l"), AList(<<AInt(1), AInt(2), AInt(3)>>)),
             SAssign(TVar("d"), ADict(<<S(A_), S(B_)>>, <<AInt(1), AInt(2)>>)),
             SAssign(TVar("s"), S(<<97, 98, 99>>))>>
Probe == <<SEmit(ATuple(<<VX, L, D, Sv>>))>>

Templates == <<
  \* --- arithmetic and comparison
  <<SAssign(TVar("x"), ABin("//", ABin("-", AInt(0), VX), AInt(3)))>>,                       \* floor division of a negative
  <<SAssign(TVar("x"), ABin("%", VX, AInt(-3)))>>,                                          \* modulo, negative divisor
  <<SAssign(TVar("x"), ABin("//", AInt(7), ABin("-", VX, AInt(2))))>>,                       \* division by zero when x = 2
  <<SAug("*", TVar("x"), ABin("+", VX, AInt(1)))>>,
  <<SAssign(TVar("x"), IfE(ABin("<", VX, AInt(3)), ABin("*", VX, AInt(5)), Neg(VX)))>>,
  <<SEmit(ATuple(<<ABin("<", L, AList(<<AInt(1), AInt(3)>>)), ABin("==", D, ADict(<<S(B_), S(A_)>>, <<AInt(2), AInt(1)>>)),
                   ABin("<", Sv, S(<<97, 98, 100>>)), ABin("in", AInt(2), L), ABin("notin", S(Z_), D)>>))>>,
  <<SEmit(ABin("<", VX, Sv))>>,                                                               \* cross-type comparison fails
  <<SEmit([k |-> "and", l |-> ABin(">", VX, AInt(5)), r |-> ABin("//", AInt(1), AInt(0)), line |-> 0])>>,   \* short circuit
  \* --- slices and indexing
  <<SAssign(TVar("l"), Sl(ABin("+", L, AList(<<VX>>)), ABSENT, ABSENT, AInt(-1)))>>,        \* reverse a concatenation
  <<SEmit(ATuple(<<Sl(L, AInt(-2), ABSENT, ABSENT), Sl(Sv, ABSENT, AInt(-1), AInt(2)), Sl(L, AInt(5), AInt(1), AInt(-2)),
                   Sl(Sv, AInt(1), AInt(1), ABSENT), AIndex(L, AInt(-1)), AIndex(Sv, AInt(0))>>))>>,
  <<SEmit(AIndex(L, VX))>>,
  <<SEmit(AIndex(L, ABin("+", VX, AInt(1))))>>,                                               \* out of range when len = 3
  <<SEmit(AIndex(D, Sv))>>,                                                                  \* missing key
  <<SAssign(TIndex(L, AInt(-1)), ABin("*", VX, AInt(10)))>>,
  <<SAssign(TIndex(D, Sv), Call("len", <<L>>))>>,
  \* --- mutation through aliases, methods
  <<SAssign(TVar("m"), L), SExpr(AMCall(AVar("m"), "append", <<VX>>)), SAug("+", TVar("m"), AList(<<AInt(9)>>))>>,
  <<SExpr(AMCall(L, "insert", <<AInt(-1), VX>>)), SEmit(AMCall(L, "pop", <<AInt(0)>>))>>,
  <<SExpr(AMCall(L, "extend", <<Call("range", <<VX>>)>>)), SExpr(AMCall(L, "remove", <<AInt(1)>>))>>,
  <<SExpr(AMCall(L, "remove", <<AInt(7)>>))>>,                                               \* value not present
  <<SEmit(AMCall(D, "pop", <<S(A_), AInt(0)>>)), SEmit(AMCall(D, "setdefault", <<S(A_), L>>))>>,
  <<SExpr(AMCall(D, "update", <<ADict(<<S(B_), S(C_)>>, <<VX, AList(<<>>)>>)>>)), SEmit(AMCall(D, "items", <<>>))>>,
  <<SAug("+", TIndex(D, S(A_)), VX), SAug("-", TIndex(L, AInt(0)), VX)>>,
  <<SAssign(TVar("l"), ABin("*", L, ABin("-", VX, AInt(1)))), SAssign(TVar("s"), ABin("*", Sv, AInt(2)))>>,
  \* --- strings
  <<SAssign(TVar("s"), AMCall(S(<<44>>), "join", <<AMCall(ABin("+", Sv, S(<<44, 120>>)), "split", <<S(<<44>>)>>)>>))>>,
  <<SEmit(ATuple(<<AMCall(Sv, "upper", <<>>), AMCall(Sv, "find", <<S(C_)>>), AMCall(Sv, "replace", <<S(B_), S(<<>>)>>),
                   AMCall(Sv, "startswith", <<S(<<97, 98>>)>>), Call("str", <<L>>), Call("repr", <<Sv>>)>>))>>,
  \* --- loops
  <<SFor(TVar("i"), L, <<SIf(ABin("==", AVar("i"), VX), <<SBreak>>, <<>>), SAug("+", TVar("x"), AVar("i"))>>)>>,
  <<SFor(TVar("i"), Call("range", <<VX>>), <<SFor(TVar("j"), L, <<SIf(ABin(">", AVar("j"), AVar("i")), <<[k |-> "continue", line |-> 0]>>, <<>>),
                                                             SExpr(AMCall(AVar("acc"), "append", <<ATuple(<<AVar("i"), AVar("j")>>)>>))>>)>>)>>,
  <<SFor(TVar("k"), D, <<SAssign(TIndex(D, AVar("k")), AInt(0))>>)>>,                        \* mutation while iterating
  <<SFor(ATuple(<<TVar("a"), TVar("b")>>) , Call("enumerate", <<L>>), <<SAug("+", TVar("x"), ABin("*", AVar("a"), AVar("b")))>>)>>,
  \* --- comprehensions and closures
  <<SAssign(TVar("fs"), ACompr(ALambda(<<>>, AVar("q")), <<AFor(TVar("q"), L)>>)),
    SEmit(ACompr(ACall(AVar("f"), <<>>), <<AFor(TVar("f"), AVar("fs"))>>))>>,                \* lambdas capturing the loop variable
  <<SEmit(ACompr(ATuple(<<AVar("p"), AVar("q")>>), <<AFor(TVar("p"), L), ACIf(ABin("!=", AVar("p"), VX)), AFor(TVar("q"), Call("range", <<AVar("p")>>))>>))>>,
  <<SEmit(ADictCompr(AVar("p"), ABin("*", AVar("p"), VX), <<AFor(TVar("p"), L)>>))>>,
  <<SDef("g", <<P("n"), PD("acc2", AList(<<>>)), PD("y", VX)>>,
         <<SExpr(AMCall(AVar("acc2"), "append", <<ABin("+", AVar("n"), AVar("y"))>>)), SReturn(AVar("acc2"))>>),
    SAssign(TVar("x"), AInt(50)), SEmit(Call("g", <<AInt(1)>>)), SEmit(Call("g", <<AInt(2)>>))>>,    \* default evaluated once, at def time
  <<SDef("h", <<P("v")>>, <<SFor(TVar("a"), L, <<SFor(TVar("b"), L, <<SIf(ABin("==", ABin("+", AVar("a"), AVar("b")), AVar("v")),
                                                                               <<SReturn(ATuple(<<AVar("a"), AVar("b")>>))>>, <<>>)>>)>>),
                              SReturn(ANone)>>),
    SEmit(Call("h", <<ABin("+", VX, AInt(2))>>)), SEmit(Call("h", <<AInt(99)>>))>>,
  <<SDef("w", <<>>, <<SAssign(TVar("t"), VX), SAssign(TVar("x2"), AInt(1)), SReturn(AVar("t"))>>), SEmit(Call("w", <<>>))>>,
  <<SDef("u", <<>>, <<SEmit(AVar("x")), SAssign(TVar("x"), AInt(1))>>), SExpr(Call("u", <<>>))>>,   \* local referenced before assignment
  <<SDef("c", <<P("n")>>, <<SIf(ABin("<=", AVar("n"), AInt(0)), <<SReturn(AList(<<>>))>>, <<>>),
                              SReturn(ABin("+", Call("c", <<ABin("-", AVar("n"), AInt(1))>>), AList(<<AVar("n")>>)))>>),
    SAssign(TVar("l"), Call("c", <<VX>>))>>,
  <<SEmit(Call("sorted", <<ABin("+", L, AList(<<AInt(0), VX>>))>>)), SEmit(Call("sorted", <<AList(<<VX, Sv>>)>>))>>,   \* second sort fails
  <<SAssign(ATuple(<<TVar("x"), TVar("y")>>), ATuple(<<Call("len", <<L>>), VX>>)), SAssign(ATuple(<<TVar("p1"), TVar("p2")>>), L)>>,   \* unpack mismatch when len(l) # 2
  \* --- layer 2
  <<SAssign(TVar("s"), ABin("%", S(<<37, 115, 45, 37, 100>>), ATuple(<<Sv, VX>>))),                       \* "%s-%d" % (s, x)
    SEmit(AMCall(S(<<123, 125, 58, 123, 33, 114, 125>>), "format", <<L, Sv>>))>>,                          \* "{}:{!r}".format(l, s)
  <<SEmit(ABin("%", S(<<37, 100>>), Sv))>>,                                                               \* "%d" % s : fails
  <<SAssign(TVar("qs"), Call("set", <<L>>)), SExpr(AMCall(AVar("qs"), "add", <<VX>>)),
    SEmit(ABin("|", AVar("qs"), Call("set", <<AList(<<AInt(9)>>)>>))), SEmit(ABin("-", AVar("qs"), Call("set", <<AList(<<VX>>)>>)))>>,
  <<SAssign(TVar("t"), ACallN(AVar("struct"), <<>>, <<ANamed("a", <<97>>, L), ANamed("b", <<98>>, VX)>>)),
    SExpr(AMCall(L, "append", <<AInt(7)>>)), SEmit(AVar("t")),
    SEmit(ABin("==", AVar("t"), ACallN(AVar("struct"), <<>>, <<ANamed("b", <<98>>, VX), ANamed("a", <<97>>, L)>>)))>>,
  <<SAssign(TVar("x"), ABin("^", ABin("<<", VX, AInt(3)), AInt(5))), SEmit(ATuple(<<ABin("&", VX, AInt(6)), ABin(">>", Neg(VX), AInt(1)), ABin("|", VX, AInt(-8))>>))>>,
  <<SEmit(ATuple(<<AMCall(Sv, "partition", <<S(B_)>>), AMCall(Sv, "rsplit", <<S(B_), AInt(1)>>), AMCall(Sv, "title", <<>>),
                   AMCall(S(<<32, 32, 97, 98, 32>>), "split", <<>>), AMCall(Sv, "find", <<S(C_), AInt(-1)>>)>>))>>,
  <<SEmit(Call("map", <<ALambda(<<P("q")>>, ABin("*", AVar("q"), VX)), L>>)), SEmit(Call("filter", <<ANone, ABin("+", L, AList(<<AInt(0)>>))>>))>>,
  <<SExpr(Call("map", <<ALambda(<<P("q")>>, AMCall(L, "append", <<AVar("q")>>)), L>>))>>,                  \* mutation under the lock of map()
  <<SExpr([k |-> "mcall", obj |-> D, name |-> "update", args |-> <<AList(<<ATuple(<<S(Z_), VX>>)>>)>>,
           named |-> <<ANamed("a", <<97>>, AInt(5))>>, line |-> 0]), SEmit(ABin("|", D, ADict(<<S(<<113>>)>>, <<AInt(1)>>)))>>,
  <<SEmit(AMCall(L, "index", <<AInt(2), AInt(1)>>)), SEmit(AMCall(L, "index", <<AInt(1), AInt(1)>>))>>,       \* second one: not in the window
  <<SAssign(TVar("x"), Call("int", <<ABin("+", Call("str", <<VX>>), S(<<49>>))>>)), SEmit(Call("int", <<Sv>>))>>          \* int("abc") fails
>>

NT == Len(Templates)
RECURSIVE Concat(_, _)
Concat(ix, i) == IF i > Len(ix) THEN <<>> ELSE Templates[ix[i]] \o Concat(ix, i + 1)
Body(ix) == <<SAssign(TVar("acc"), AList(<<>>))>> \o Concat(ix, 1)
ProgModule(ix) == Prelude \o Body(ix) \o Probe \o <<SEmit(AVar("acc"))>>
(* the same inside a function: everything is local *)
ProgDef(ix) == <<SDef("main", <<>>, Prelude \o Body(ix) \o Probe \o <<SEmit(AVar("acc"))>>), SExpr(Call("main", <<>>))>>

VARIABLES ix, wrap, done
Pool == IF Sample = 0 THEN [1..K -> 1..NT] ELSE RandomSubset(Sample, [1..K -> 1..NT])
Init == ix \in Pool /\ wrap \in BOOLEAN /\ done = FALSE
Next == /\ ~done /\ done' = TRUE /\ UNCHANGED <<ix, wrap>>
        /\ LET prog == IF wrap THEN ProgDef(ix) ELSE ProgModule(ix)
               m == RunModule(prog, 50, FALSE) IN
           PrintT(<<"CASE", ToJson([ix |-> ix, wrap |-> wrap, ast |-> prog, out |-> m.out, kind |-> m.err.kind])>>)
Spec == Init /\ [][Next]_<<ix, wrap, done>>
=============================================================================

----------------------------- MODULE Trace_Sem -----------------------------
(* V for C01 (and the base of C02/C03/C07/C14): every line of the trace is one program (its AST)
   with the transcript and outcome the REAL evaluator produced.  The line is accepted iff Sem,
   run on the AST, yields the same transcript, the same outcome kind and the same failure line.
   Programs on which Sem leaves its domain (kind "spec_domain") are skipped, and counted. *)
EXTENDS Sem, Json, IOUtils

VARIABLES l, skipped, bad

Rec == ndJsonDeserialize(IOEnv.TRACE)
TupOf(x) == [j \in 1..Len(x) |-> x[j]]

Judge(r) ==
    LET m == RunModule(r.ast, 50, FALSE) IN
    IF m.err.kind = "spec_domain" THEN "skip"
    ELSE IF /\ OutEq(m.out, r.out)
            /\ m.err.kind = r.err.kind
            /\ (m.err.kind # "" => m.err.line = r.err.line)
         THEN "ok" ELSE "bad"

TInit == l = 1 /\ skipped = 0 /\ bad = 0
TNext == /\ l <= Len(Rec)
         /\ LET j == Judge(Rec[l]) IN
            /\ skipped' = IF j = "skip" THEN skipped + 1 ELSE skipped
            /\ bad' = IF j = "bad" THEN bad + 1 ELSE bad
            /\ (j = "bad" => PrintT(<<"BAD", ToJson([id |-> Rec[l].id])>>))
         /\ l' = l + 1
TSpec == TInit /\ [][TNext]_<<l, skipped, bad>>

(* every line is judged (so one run reports every disagreement); acceptance = none was bad *)
Accepted ==
    LET d == TLCGet("stats").diameter IN
    /\ d - 1 = Len(Rec)
Final == (l = Len(Rec) + 1) => PrintT(<<"STATS", ToJson([n |-> Len(Rec), skipped |-> skipped, bad |-> bad])>>)

(* explain mode: print what Sem computes for every program in the file *)
Explain == \A i \in 1..Len(Rec) :
    LET m == RunModule(Rec[i].ast, 50, FALSE) IN
    PrintT(<<"SEM", ToJson([id |-> Rec[i].id, out |-> m.out, err |-> m.err])>>)
=============================================================================

---------------------------- MODULE MC_Coherence ----------------------------
(* M for C09: the specification's own relations are coherent on the whole universe -- so that the
   oracle that judges the implementation is itself an equivalence / a strict total order per
   orderable kind / a hash that is exactly the quotient by equality.
   Pairs and triples range over ALL abstract values (numbers, strings, bools, None, tuples,
   lists, structs, record and enum instances, dicts, sets, ranges); the relations are the matrices computed once in Coherence.tla.                    *)
EXTENDS Coherence

CONSTANT TStep                     \* third members of triples: every TStep-th value (1 = all)

VARIABLES cph, c1, c2, c3          \* NB: names bound nowhere in the extended modules

Orderable(ia, ib) == CmpM[ia][ib] \notin {2, 3}        \* 3: order not specified (two structs)

PairLaws(ia, ib) ==
    /\ EqM[ia][ia]                                                  \* reflexive (NaN = NaN, too)
    /\ EqM[ia][ib] = EqM[ib][ia]                                    \* symmetric
    /\ Orderable(ia, ib) = Orderable(ib, ia)
    /\ Orderable(ia, ib) => CmpM[ia][ib] = -CmpM[ib][ia]            \* antisymmetric; trichotomy: exactly one
    /\ Orderable(ia, ib) => (EqM[ia][ib] <=> CmpM[ia][ib] = 0)      \* order agrees with equality
    /\ EqM[ia][ib] => (HOK[ia] = HOK[ib])                           \* equal => both hashable or neither
    /\ (U[ia].v.t \notin {"dict", "set", "range"} /\ U[ib].v.t \notin {"dict", "set", "range"})
          => (EqM[ia][ib] <=> (HC[ia] = HC[ib]))                    \* the hash is the quotient by Eq
    /\ (Kind(U[ia].v) = Kind(U[ib].v) /\ Kind(U[ia].v) \in {"num", "str", "bool"}) => Orderable(ia, ib)   \* total per kind
    /\ WellFormedV(U[ia].v)

TripleLaws(ia, ib, ic) ==
    /\ (EqM[ia][ib] /\ EqM[ib][ic]) => EqM[ia][ic]
    /\ (CmpM[ia][ib] = -1 /\ CmpM[ib][ic] = -1) => CmpM[ia][ic] = -1
    /\ (EqM[ia][ib] /\ CmpM[ib][ic] = -1) => CmpM[ia][ic] = -1
    /\ (CmpM[ia][ib] = -1 /\ EqM[ib][ic]) => CmpM[ia][ic] = -1
    /\ (Orderable(ia, ib) /\ Orderable(ib, ic) /\ ia <= NNum) => Orderable(ia, ic)

Init == cph = 0 /\ c1 \in 1..NU /\ c2 = 0 /\ c3 = 0
Next == cph = 0 /\ cph' = 1 /\ c1' = c1 /\ c2' \in 1..NU /\ c3' \in {nn \in 1..NU : nn % TStep = 0}
Inv  == cph = 1 => (PairLaws(c1, c2) /\ TripleLaws(c1, c2, c3))
=============================================================================

-------------------------------- MODULE Lex --------------------------------
(* The lexical structure of Starlark over a small character-class alphabet, written from the
   language rules: physical / logical lines, the indentation stack, implicit line joining inside
   brackets, backslash continuation, comments, identifiers, integer / float literals, string and
   bytes literals with prefixes r b rb br, single and triple quotes, escapes, operator tokens by
   maximal munch.

   Input: a sequence of symbols.  Every symbol is a one-character string, except "U2" and "U4"
   which stand for one non-letter character of 2 and of 4 UTF-8 bytes.  Output of Lex(S):
      [st, toks, unspec]   st = "ok" | "err";  toks = sequence of [k, b, e]  (kind, byte span)
   Kinds: "id" "int" "float" "str" "bytes", operator / bracket spellings, "NEWLINE" "INDENT"
   "DEDENT".  NEWLINE is emitted only for a logical line that has tokens; blank and comment-only
   lines produce nothing.

   unspec = TRUE marks inputs whose tokenisation the language rules leave open or where this
   implementation documents a different convention; they are not judged at the token level:
     * a tab outside strings and comments (the implementation bans tabs);
     * a carriage return that is not followed by a newline;
     * an escape sequence that the language does not define (`\ `, `\.` ...);
     * an `f` / `fr` string prefix (f-strings are a dialect extension with their own tokens).
   A closing bracket without an opening one, a number immediately followed by an identifier
   character, a non-ASCII character outside strings/comments, a stray backslash, an unterminated
   string, an integer with a leading zero and an inconsistent dedent are lexical errors (field
   why).  For "unbalanced" and "number_then_letter" a lexer may also deliver tokens and leave the
   rejection to the parser; for the other reasons the lexer itself must report the error. *)
EXTENDS Naturals, Sequences, TLC

Letters == {"a","f","r","b"}
Digits  == {"0","1"}
Openers == {"(","[","{"}
Closers == {")","]","}"}
Quotes  == {"'","\""}
\* keyword symbols: one symbol standing for a whole reserved word (so that small alphabets reach
\* grammatical, indented programs): KIF = "if", KELSE = "else", KPASS = "pass", KDEF = "def"
Keywords == {"KIF","KELSE","KPASS","KDEF"}
KwTok(c) == IF c = "KIF" THEN "if" ELSE IF c = "KELSE" THEN "else" ELSE IF c = "KDEF" THEN "def" ELSE "pass"
W(c) == IF c = "U2" THEN 2 ELSE IF c = "U4" THEN 4 ELSE IF c = "KIF" THEN 2 ELSE IF c = "KDEF" THEN 3 ELSE IF c \in {"KELSE","KPASS"} THEN 4 ELSE 1

RECURSIVE OffTo(_,_)
\* byte offset of symbol number i (1-based); OffTo(S, Len(S)+1) = size of the file in bytes
OffTo(S,i) == IF i <= 1 THEN 0 ELSE OffTo(S,i-1) + W(S[i-1])
Ch(S,i) == IF i >= 1 /\ i <= Len(S) THEN S[i] ELSE "EOF"

T(k,S,i,j) == [k |-> k, b |-> OffTo(S,i), e |-> OffTo(S,j)]        \* symbols i .. j-1
Layout(k,S,i) == [k |-> k, b |-> OffTo(S,i), e |-> OffTo(S,i)]

\* scanner state
S0 == [i |-> 1, toks |-> <<>>, depth |-> 0, ind |-> <<>>, bol |-> TRUE, unspec |-> FALSE, st |-> "ok", why |-> ""]
Err(s,why) == [s EXCEPT !.st = "err", !.why = why]
Emit(s,t,j) == [s EXCEPT !.toks = Append(@,t), !.i = j, !.bol = FALSE]

RECURSIVE Scan(_,_), LineStart(_,_,_,_,_), SkipComment(_,_), Run(_,_), StrBody(_,_,_,_,_,_,_), Dedent(_,_,_,_)

\* first position >= i that is "\n" or beyond the end
SkipComment(S,i) == IF i > Len(S) \/ S[i] = "\n" \/ (S[i] = "\r" /\ Ch(S,i+1) = "\n") THEN i ELSE SkipComment(S,i+1)
\* end (exclusive) of the identifier-character run starting at i
RECURSIVE LoneCR(_,_,_)
\* does the comment S[i..k-1] contain a carriage return (necessarily not followed by a newline)?
LoneCR(S,i,k) == IF i >= k THEN FALSE ELSE IF S[i] = "\r" THEN TRUE ELSE LoneCR(S,i+1,k)
Run(S,i) == IF Ch(S,i) \in Letters \cup Digits THEN Run(S,i+1) ELSE i
RECURSIVE DigitRun(_,_)
DigitRun(S,i) == IF Ch(S,i) \in Digits THEN DigitRun(S,i+1) ELSE i

Top(ind) == IF ind = <<>> THEN 0 ELSE ind[Len(ind)]
\* pop indentation levels larger than n, one DEDENT each; the level reached must be n exactly
Dedent(S,s,n,j) ==
  IF Top(s.ind) = n THEN s
  ELSE IF Top(s.ind) < n THEN Err(s,"dedent")                                   \* inconsistent dedent
  ELSE Dedent(S, [s EXCEPT !.ind = SubSeq(@,1,Len(@)-1), !.toks = Append(@, Layout("DEDENT",S,j))], n, j)

\* at the beginning of a logical line (depth 0): j scans the leading blanks, n counts columns
LineStart(S,s,j,n,tab) ==
  LET c == Ch(S,j) IN
  CASE c = " "  -> LineStart(S,s,j+1,n+1,tab)
    [] c = "\t" -> LineStart(S,s,j+1,n+8,TRUE)
    [] c = "\r" /\ Ch(S,j+1) # "\n" -> LineStart(S,[s EXCEPT !.unspec = TRUE],j+1,n,tab)
    [] c = "EOF" -> Scan(S,[s EXCEPT !.i = j])
    [] c = "\n" -> LineStart(S,s,j+1,0,FALSE)                           \* blank line
    [] c = "\r" -> LineStart(S,s,j+2,0,FALSE)                           \* blank line, CR LF
    [] c = "#"  -> (LET k == SkipComment(S,j)                           \* comment-only line
                        s1 == IF LoneCR(S,j,k) THEN [s EXCEPT !.unspec = TRUE] ELSE s IN
                    IF k > Len(S) THEN Scan(S,[s1 EXCEPT !.i = k])
                    ELSE LineStart(S,s1,(IF S[k] = "\r" THEN k+2 ELSE k+1),0,FALSE))
    [] OTHER    -> (LET s1 == IF tab THEN [s EXCEPT !.unspec = TRUE] ELSE s
                        s2 == IF n > Top(s1.ind)
                              THEN [s1 EXCEPT !.ind = Append(@,n), !.toks = Append(@, Layout("INDENT",S,j))]
                              ELSE Dedent(S,s1,n,j) IN
                    IF s2.st = "err" THEN s2 ELSE Scan(S,[s2 EXCEPT !.i = j, !.bol = FALSE]))

\* string body: q0 = first symbol of the token (prefix included), p = current position,
\* c = quote character, triple, raw, kind
StrBody(S,s,q0,p,c,tr,rk) ==
  LET x == Ch(S,p) IN
  CASE x = "EOF" -> Err(s,"unterminated_string")
    [] x = c /\ ~tr.triple -> Emit(s, T(rk.kind,S,q0,p+1), p+1)
    [] x = c /\ tr.triple /\ Ch(S,p+1) = c /\ Ch(S,p+2) = c -> Emit(s, T(rk.kind,S,q0,p+3), p+3)
    [] x = "\n" /\ ~tr.triple -> Err(s,"unterminated_string")
    [] x = "\r" -> (IF Ch(S,p+1) = "\n"
                    THEN (IF tr.triple THEN StrBody(S,s,q0,p+2,c,tr,rk) ELSE Err(s,"unterminated_string"))
                    ELSE StrBody(S,[s EXCEPT !.unspec = TRUE],q0,p+1,c,tr,rk))
    [] x = "\\" ->
         (LET y == Ch(S,p+1) IN
          IF y = "EOF" THEN Err(s,"unterminated_string")
          ELSE IF y = "\r" THEN (IF Ch(S,p+2) = "\n" THEN StrBody(S,s,q0,p+3,c,tr,rk)
                                 ELSE StrBody(S,[s EXCEPT !.unspec = TRUE],q0,p+2,c,tr,rk))
          ELSE IF rk.raw \/ y \in {"a","b","f","r","\\","'","\"","0","1","\n"} THEN StrBody(S,s,q0,p+2,c,tr,rk)
          ELSE StrBody(S,[s EXCEPT !.unspec = TRUE],q0,p+2,c,tr,rk))      \* undefined escape
    [] OTHER -> StrBody(S,s,q0,p+1,c,tr,rk)
\* a string token whose opening quote is at q (prefix symbols q0..q-1)
String(S,s,q0,q,raw,kind) ==
  LET c == S[q]
      triple == Ch(S,q+1) = c /\ Ch(S,q+2) = c IN
  StrBody(S,s,q0,(IF triple THEN q+3 ELSE q+1),c,[triple |-> triple],[raw |-> raw, kind |-> kind])

\* a numeric literal starting at i
Number(S,s,i) ==
  LET bin == S[i] = "0" /\ Ch(S,i+1) = "b" /\ Ch(S,i+2) \in Digits
      d1  == DigitRun(S,i)
      isf == ~bin /\ Ch(S,d1) = "."
      j   == IF bin THEN DigitRun(S,i+2) ELSE IF isf THEN DigitRun(S,d1+1) ELSE d1 IN
  IF Ch(S,j) \in Letters \cup Digits THEN Err(s,"number_then_letter")                         \* 1a, 0b, 1.0b
  ELSE IF ~bin /\ ~isf /\ d1 - i > 1 /\ S[i] = "0" THEN Err(s,"leading_zero")             \* 01, 00
  ELSE Emit(s, T((IF isf THEN "float" ELSE "int"),S,i,j), j)

Scan(S,s) ==
  IF s.st = "err" THEN s
  ELSE IF s.bol /\ s.depth = 0 /\ s.i <= Len(S) THEN LineStart(S,s,s.i,0,FALSE)
  ELSE LET i == s.i  c == Ch(S,i) IN
  CASE c = "EOF" ->
         (LET s1 == IF s.toks # <<>> /\ s.toks[Len(s.toks)].k # "NEWLINE" /\ ~s.bol
                    THEN [s EXCEPT !.toks = Append(@, Layout("NEWLINE",S,i))] ELSE s IN
          [s1 EXCEPT !.toks = @ \o [n \in 1..Len(s1.ind) |-> Layout("DEDENT",S,i)], !.ind = <<>>])
    [] c = " "  -> Scan(S,[s EXCEPT !.i = i+1])
    [] c = "\t" -> Scan(S,[s EXCEPT !.i = i+1, !.unspec = TRUE])
    [] c = "\r" -> (IF Ch(S,i+1) = "\n" THEN Scan(S,[s EXCEPT !.i = i+1])
                    ELSE Scan(S,[s EXCEPT !.i = i+1, !.unspec = TRUE]))
    [] c = "\n" -> (IF s.depth > 0 \/ s.bol THEN Scan(S,[s EXCEPT !.i = i+1])
                    ELSE Scan(S,[s EXCEPT !.i = i+1, !.bol = TRUE, !.toks = Append(@, T("NEWLINE",S,i,i+1))]))
    [] c = "#"  -> (LET k == SkipComment(S,i) IN
                    Scan(S,[s EXCEPT !.i = k, !.unspec = @ \/ LoneCR(S,i,k)]))
    [] c = "\\" -> (IF Ch(S,i+1) = "\n" THEN Scan(S,[s EXCEPT !.i = i+2])
                    ELSE IF Ch(S,i+1) = "\r" /\ Ch(S,i+2) = "\n" THEN Scan(S,[s EXCEPT !.i = i+3])
                    ELSE Err(s,"stray_backslash"))
    [] c \in Openers -> Scan(S,[Emit(s,T(c,S,i,i+1),i+1) EXCEPT !.depth = @ + 1])
    [] c \in Closers -> (IF s.depth = 0 THEN Err(s,"unbalanced")
                         ELSE Scan(S,[Emit(s,T(c,S,i,i+1),i+1) EXCEPT !.depth = @ - 1]))
    [] c \in Quotes  -> Scan(S,String(S,s,i,i,FALSE,"str"))
    [] c \in Keywords ->      \* a reserved word (only generated where no letter or digit adjoins it)
         (IF Ch(S,i+1) \in Letters \cup Digits \cup Keywords THEN Err(s,"keyword_glued")
          ELSE Scan(S,Emit(s,T(KwTok(c),S,i,i+1),i+1)))
    [] c \in Letters ->
         (LET j == Run(S,i)
              pre == SubSeq(S,i,j-1) IN
          IF Ch(S,j) \in Quotes /\ pre \in {<<"r">>,<<"b">>,<<"r","b">>,<<"b","r">>}
          THEN Scan(S,String(S,s,i,j,(\E n \in 1..Len(pre) : pre[n] = "r"),
                             (IF \E n \in 1..Len(pre) : pre[n] = "b" THEN "bytes" ELSE "str")))
          ELSE IF Ch(S,j) \in Quotes /\ pre \in {<<"f">>,<<"f","r">>}
          THEN Scan(S,[Emit(s,T("id",S,i,j),j) EXCEPT !.unspec = TRUE])
          ELSE Scan(S,Emit(s,T("id",S,i,j),j)))
    [] c \in Digits \/ (c = "." /\ Ch(S,i+1) \in Digits) -> Scan(S,Number(S,s,i))
    [] c = "."  -> (IF Ch(S,i+1) = "." /\ Ch(S,i+2) = "." THEN Scan(S,Emit(s,T("...",S,i,i+3),i+3))
                    ELSE Scan(S,Emit(s,T(".",S,i,i+1),i+1)))
    [] c \in {",",":"} -> Scan(S,Emit(s,T(c,S,i,i+1),i+1))
    [] c \in {"=","+","-"} -> (IF Ch(S,i+1) = "=" THEN Scan(S,Emit(s,T(c \o "=",S,i,i+2),i+2))
                               ELSE Scan(S,Emit(s,T(c,S,i,i+1),i+1)))
    [] OTHER -> Err(s,"illegal_character")                                                    \* U2, U4 outside strings

Lex(S) == LET r == Scan(S,S0) IN [st |-> r.st, toks |-> (IF r.st = "ok" THEN r.toks ELSE <<>>), unspec |-> r.unspec, why |-> r.why]

\* the token sequence Grammar reads: every identifier is "a", every number "1", every string "\"s\""
GTok(t) == CASE t.k = "id" -> "a" [] t.k \in {"int","float"} -> "1" [] t.k \in {"str","bytes"} -> "\"s\"" [] OTHER -> t.k
GToks(ts) == [n \in 1..Len(ts) |-> GTok(ts[n])]
=============================================================================

-------------------------------- MODULE Ast --------------------------------
(* Constructors for the program AST, for specifications that BUILD programs (generators).
   Nodes built here carry line 0: the harness assigns real line numbers when it prints, and
   cases generated this way are compared on outcome kind and transcript, not on line. *)
EXTENDS Naturals, Sequences

ABSENT == [k |-> "absent"]
AInt(v) == [k |-> "int", v |-> v, line |-> 0]
AStr(cp) == [k |-> "str", s |-> cp, line |-> 0]
ANone == [k |-> "none", line |-> 0]
ABool(b) == [k |-> "bool", b |-> b, line |-> 0]
AVar(n) == [k |-> "var", n |-> n, line |-> 0]
AList(items) == [k |-> "list", items |-> items, line |-> 0]
ATuple(items) == [k |-> "tuple", items |-> items, line |-> 0]
ADict(ks, vs) == [k |-> "dict", keys |-> ks, vals |-> vs, line |-> 0]
ABin(op, l, r) == [k |-> "bin", op |-> op, l |-> l, r |-> r, line |-> 0]
ANot(e) == [k |-> "not", e |-> e, line |-> 0]
AIndex(e, i) == [k |-> "index", e |-> e, i |-> i, line |-> 0]
ACall(f, args) == [k |-> "call", f |-> f, args |-> args, named |-> <<>>, star |-> ABSENT, starstar |-> ABSENT, line |-> 0]
ACallN(f, args, named) == [k |-> "call", f |-> f, args |-> args, named |-> named, star |-> ABSENT, starstar |-> ABSENT, line |-> 0]
ANamed(n, ncp, e) == [n |-> n, ncp |-> ncp, e |-> e]
AMCall(o, name, args) == [k |-> "mcall", obj |-> o, name |-> name, args |-> args, named |-> <<>>, line |-> 0]
ADot(e, name, ncp) == [k |-> "dot", e |-> e, name |-> name, ncp |-> ncp, line |-> 0]
ALambda(params, body) == [k |-> "lambda", params |-> params, body |-> body, line |-> 0]
ACompr(elt, clauses) == [k |-> "compr", elt |-> elt, clauses |-> clauses, line |-> 0]
ADictCompr(key, val, clauses) == [k |-> "dictcompr", key |-> key, val |-> val, clauses |-> clauses, line |-> 0]
AFor(tg, it) == [k |-> "for", tg |-> tg, it |-> it, line |-> 0]
ACIf(c) == [k |-> "cif", c |-> c, line |-> 0]
AParam(n, ncp) == [n |-> n, ncp |-> ncp, kind |-> "normal", d |-> ABSENT]
TVar(n) == [k |-> "var", n |-> n, line |-> 0]
TIndex(e, i) == [k |-> "index", e |-> e, i |-> i, line |-> 0]

SExpr(e) == [k |-> "expr", e |-> e, line |-> 0]
SAssign(tg, e) == [k |-> "assign", tg |-> tg, e |-> e, line |-> 0]
SAug(op, tg, e) == [k |-> "aug", op |-> op, tg |-> tg, e |-> e, line |-> 0]
SIf(c, th, el) == [k |-> "if", c |-> c, then |-> th, else |-> el, line |-> 0]
SFor(tg, it, body) == [k |-> "for", tg |-> tg, it |-> it, body |-> body, line |-> 0]
SBreak == [k |-> "break", line |-> 0]
SPass == [k |-> "pass", line |-> 0]
SReturn(e) == [k |-> "return", e |-> e, line |-> 0]
SDef(name, params, body) == [k |-> "def", name |-> name, params |-> params, body |-> body, line |-> 0]
SEmit(e) == SExpr(ACall(AVar("emit"), <<e>>))
=============================================================================

------------------------------ MODULE LspTexts ------------------------------
(* The concrete texts used by the document-store histories (Gen_LspDocs, Trace_LspDocs): small
   documents in the AST form of LspScope, rendered by the same walk.  Text 2 is text 1 cut after
   its first def with a syntax error introduced -- shorter than text 1 and unparseable, while its
   remaining lines have the same shape, so that a position inside it is also a position of a use
   in text 1 whose binding lies beyond the end of text 2. *)
EXTENDS LspScope, Positions

PlainDeco == [padB |-> <<>>, padU |-> <<>>, eol |-> <<LF>>, padstmt |-> FALSE, cmt |-> FALSE]
BmpDeco   == [padB |-> <<233>>, padU |-> <<>>, eol |-> <<CR, LF>>, padstmt |-> FALSE, cmt |-> TRUE]

HText(t) ==
    CASE t = 1 -> <<Def("ff", <<>>, <<ExprS(Use("xx")), ExprS(Use("yy"))>>),
                    Assign("yy", <<>>),
                    Def("gg", <<Par("xx", <<>>)>>, <<ExprS(Use("xx")), Assign("zz", <<>>), ExprS(Use("zz"))>>),
                    Assign("xx", <<>>),
                    ExprS(CallE("ff")),
                    ExprS(Use("xx"))>>
      [] t = 2 -> <<BadDef("ff", <<>>, <<ExprS(Use("xx")), ExprS(Use("yy"))>>)>>
      [] t = 3 -> <<Assign("xx", <<>>), ExprS(Use("xx"))>>
      [] t = 4 -> <<BadDef("ff", <<>>, <<>>)>>
      [] t = 5 -> <<Assign("xx", <<>>),
                    Def("ff", <<Par("yy", <<>>), Par("zz", <<Use("xx")>>)>>,
                        <<ExprS(Use("zz")), ExprS(Comp(<<Use("xx")>>, <<ForC("xx", <<Use("yy")>>)>>))>>),
                    ExprS(CallE("ff"))>>
HDeco(t)   == IF t = 5 THEN BmpDeco ELSE PlainDeco
HParses(t) == t \in {1, 3, 5}
NHTexts == 5

R4(r) == <<r.start.line, r.start.character, r.end.line, r.end.character>>

InfoOf(t) ==
    LET doc == Doc(HText(t), HDeco(t))
        tab == Table(doc.cps)
    IN [text  |-> doc.cps,
        lens  |-> LineLens16(doc.cps),
        parses |-> HParses(t),
        occs  |-> [i \in 1..Len(doc.occs) |->
                     LET x == doc.occs[i] IN
                     [n |-> x.o.name, bind |-> x.o.bind, role |-> x.o.role,
                      r |-> R4(ToLspRange(tab, x.a, x.e)), nb |-> NonAsciiBefore(tab, x.a),
                      targets |-> IF x.o.bind THEN {} ELSE Resolve(doc.occs, i).targets]]]

TextInfo == [t \in 1..NHTexts |-> InfoOf(t)]
=============================================================================

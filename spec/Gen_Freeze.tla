----------------------------- MODULE Gen_Freeze -----------------------------
(* G for C04: freezing preserves every value and makes it permanently immutable.

   Case = structure exported by module A  x  path to a container reachable from it  x  mutating
   operation  x  importing modules (one, or two in sequence).  Sem.tla (RunFrozen) computes:
   the probes emitted inside A before freezing, the same probes read through load() after freezing
   (must be equal: FreezePreserves), the outcome of the mutation attempt (immutable), the probes
   afterwards (unchanged) and the results of non-mutating operations.  TLC checks the two
   invariants on the specification and prints one JSON line per case for the harness. *)
EXTENDS Sem, Ast, Json

K(s) == AStr(s)
K_a == <<97>>
K_b == <<98>>
K_c == <<99>>
K_k == <<107>>
K_n == <<110>>
K_z == <<122>>

(* ---- the catalogue of exported structures: statements of module A (binding x, maybe helpers) *)
Struct(s) ==
    IF s = "nested" THEN
        <<SAssign(TVar("x"), AList(<<AInt(1), AList(<<AInt(2), AInt(3)>>), ADict(<<K(K_k)>>, <<AList(<<AInt(4)>>)>>)>>))>>
    ELSE IF s = "aliased" THEN
        <<SAssign(TVar("sh"), AList(<<AInt(1), AInt(2)>>)),
          SAssign(TVar("x"), AList(<<AVar("sh"), AVar("sh")>>))>>
    ELSE IF s = "cyclic" THEN
        <<SAssign(TVar("x"), AList(<<AInt(1)>>)),
          SExpr(AMCall(AVar("x"), "append", <<AVar("x")>>))>>
    ELSE IF s = "dict" THEN
        <<SAssign(TVar("x"), ADict(<<K(K_a), K(K_b)>>,
                                   <<AList(<<AInt(1)>>), ADict(<<K(K_c)>>, <<ATuple(<<AInt(1), AList(<<AInt(2)>>)>>)>>)>>))>>
    ELSE IF s = "tuple" THEN
        <<SAssign(TVar("x"), ATuple(<<AList(<<AInt(1), AInt(2)>>), ADict(<<K(K_k)>>, <<AInt(1)>>)>>))>>
    ELSE IF s = "struct" THEN      \* x = struct(a = [1, 2], b = {"k": [3]}, c = set([1, 2]))
        <<SAssign(TVar("x"), ACallN(AVar("struct"), <<>>,
              <<ANamed("a", K_a, AList(<<AInt(1), AInt(2)>>)),
                ANamed("b", K_b, ADict(<<K(K_k)>>, <<AList(<<AInt(3)>>)>>)),
                ANamed("c", K_c, ACall(AVar("set"), <<AList(<<AInt(1), AInt(2)>>)>>))>>))>>
    ELSE IF s = "record" THEN      \* a record type with a list field and a shared default, an enum, a range
        <<SAssign([k |-> "var", n |-> "RT", ncp |-> <<82, 84>>, line |-> 0],
                  ACallN(AVar("record"), <<>>, <<ANamed("l", <<108>>, AVar("list")),
                                                 ANamed("d", <<100>>, ACall(AVar("field"), <<AVar("dict"), ADict(<<K(K_k)>>, <<AInt(1)>>)>>))>>)),
          SAssign([k |-> "var", n |-> "ET", ncp |-> <<69, 84>>, line |-> 0], ACall(AVar("enum"), <<K(K_a), K(K_b)>>)),
          SAssign(TVar("sh"), AList(<<AInt(1), AInt(2)>>)),
          SAssign(TVar("x"), AList(<<ACallN(AVar("RT"), <<>>, <<ANamed("l", <<108>>, AVar("sh"))>>),
                                     ACall(AVar("ET"), <<K(K_b)>>), ACall(AVar("range"), <<AInt(3)>>), AVar("sh")>>))>>
    ELSE IF s = "set" THEN         \* a set inside a list, and aliased
        <<SAssign(TVar("sh"), ACall(AVar("set"), <<AList(<<AInt(1), AInt(2)>>)>>)),
          SAssign(TVar("x"), AList(<<AVar("sh"), ATuple(<<AVar("sh")>>)>>))>>
    ELSE IF s = "registry" THEN
        \* containers keyed by the very closures that capture them; the closures are exported FIRST, so
        \* that freezing reaches each container only through its own key:
        \*   def make():                       def make_s():
        \*       reg = {}                          seen = set()
        \*       def handler(): return reg         def visit(): return seen
        \*       reg[handler] = [1, 2]             seen.add(visit); seen.add(3)
        \*       return handler                    return visit
        \*   fn = make(); vs = make_s(); x = fn()[fn]
        <<SDef("make", <<>>,
               <<SAssign(TVar("reg"), ADict(<<>>, <<>>)),
                 SDef("handler", <<>>, <<SReturn(AVar("reg"))>>),
                 SAssign(TIndex(AVar("reg"), AVar("handler")), AList(<<AInt(1), AInt(2)>>)),
                 SReturn(AVar("handler"))>>),
          SDef("make_s", <<>>,
               <<SAssign(TVar("seen"), ACall(AVar("set"), <<>>)),
                 SDef("visit", <<>>, <<SReturn(AVar("seen"))>>),
                 SExpr(AMCall(AVar("seen"), "add", <<AVar("visit")>>)),
                 SExpr(AMCall(AVar("seen"), "add", <<AInt(3)>>)),
                 SReturn(AVar("visit"))>>),
          SAssign(TVar("fn"), ACall(AVar("make"), <<>>)),
          SAssign(TVar("vs"), ACall(AVar("make_s"), <<>>)),
          SAssign(TVar("x"), AIndex(ACall(AVar("fn"), <<>>), AVar("fn")))>>
    ELSE \* "closure": a function with captured list and a default argument holding a dict
        <<SAssign(TVar("cap"), AList(<<AInt(1)>>)),
          SDef("fn", <<AParam("v", <<118>>), [n |-> "d", ncp |-> <<100>>, kind |-> "normal", d |-> ADict(<<K(K_n)>>, <<AInt(0)>>)]>>,
               <<SExpr(AMCall(AVar("cap"), "append", <<AVar("v")>>)),
                 SAug("+", TIndex(AVar("d"), K(K_n)), AInt(1)),
                 SReturn(ATuple(<<AVar("cap"), AVar("d")>>))>>),
          SAssign(TVar("x"), AList(<<AVar("cap")>>))>>

(* "factory": module A declares a list and two closure factories; module B (frozen next) calls them
   and exports the closures and a list holding A's list; the importers use B's exports. *)
FactoryA ==
    <<SAssign(TVar("data"), AList(<<AInt(1), AInt(2), AInt(3)>>)),
      SDef("make_app", <<AParam("tag", <<116>>)>>,
           <<SDef("app", <<AParam("v", <<118>>)>>,
                  <<SExpr(AMCall(AVar("data"), "append", <<AVar("v")>>)), SReturn(ATuple(<<AVar("tag"), AVar("data")>>))>>),
             SReturn(AVar("app"))>>),
      SDef("make_rd", <<AParam("tag", <<116>>)>>,
           <<SDef("rd", <<>>, <<SReturn(ATuple(<<AVar("tag"), ACall(AVar("len"), <<AVar("data")>>), AVar("data")>>))>>),
             SReturn(AVar("rd"))>>)>>
FactoryB ==
    <<SAssign(TVar("pad1"), AInt(7)), SAssign(TVar("pad2"), AStr(<<112>>)),
      SAssign(TVar("fn"), ACall(AVar("make_app"), <<AStr(<<97>>)>>)),
      SAssign(TVar("rdr"), ACall(AVar("make_rd"), <<AStr(<<114>>)>>)),
      SAssign(TVar("x"), AList(<<AVar("data")>>))>>

(* ---- paths from x to a reachable container: [e |-> expression, kind |-> "list" | "dict"] *)
PP(e, kind) == [e |-> e, kind |-> kind]
XV == AVar("x")
Paths(s) ==
    IF s = "nested" THEN {PP(XV, "list"), PP(AIndex(XV, AInt(1)), "list"), PP(AIndex(XV, AInt(2)), "dict"),
                          PP(AIndex(AIndex(XV, AInt(2)), K(K_k)), "list")}
    ELSE IF s = "aliased" THEN {PP(XV, "list"), PP(AIndex(XV, AInt(0)), "list"), PP(AIndex(XV, AInt(1)), "list"), PP(AVar("sh"), "list")}
    ELSE IF s = "cyclic" THEN {PP(XV, "list"), PP(AIndex(XV, AInt(1)), "list"), PP(AIndex(AIndex(XV, AInt(1)), AInt(1)), "list")}
    ELSE IF s = "dict" THEN {PP(XV, "dict"), PP(AIndex(XV, K(K_a)), "list"), PP(AIndex(XV, K(K_b)), "dict"),
                             PP(AIndex(AIndex(AIndex(XV, K(K_b)), K(K_c)), AInt(1)), "list")}
    ELSE IF s = "tuple" THEN {PP(AIndex(XV, AInt(0)), "list"), PP(AIndex(XV, AInt(1)), "dict")}
    ELSE IF s = "factory" THEN {PP(AIndex(XV, AInt(0)), "list")}
    ELSE IF s = "struct" THEN {PP(ADot(XV, "a", K_a), "list"), PP(ADot(XV, "b", K_b), "dict"),
                               PP(AIndex(ADot(XV, "b", K_b), K(K_k)), "list"), PP(ADot(XV, "c", K_c), "set")}
    ELSE IF s = "record" THEN {PP(XV, "list"), PP(ADot(AIndex(XV, AInt(0)), "l", <<108>>), "list"),
                               PP(ADot(AIndex(XV, AInt(0)), "d", <<100>>), "dict"), PP(AVar("sh"), "list")}
    ELSE IF s = "registry" THEN {PP(XV, "list"), PP(AIndex(ACall(AVar("fn"), <<>>), AVar("fn")), "list")}
    ELSE IF s = "set" THEN {PP(AIndex(XV, AInt(0)), "set"), PP(AIndex(AIndex(XV, AInt(1)), AInt(0)), "set"), PP(AVar("sh"), "set")}
    ELSE {PP(XV, "list"), PP(AIndex(XV, AInt(0)), "list"), PP(AVar("cap"), "list")}

ListMuts == {"append", "extend", "insert", "pop", "remove", "clear", "setitem", "augadd", "augitem", "augvar"}
DictMuts == {"setnew", "setold", "pop", "setdefault", "update", "clear", "augitem"}
SetMuts == {"add", "sremove", "discard", "spop", "sclear", "supdate"}
Mut(T, kind, mut) ==
    IF kind = "set" THEN
        (IF mut = "add" THEN SExpr(AMCall(T, "add", <<AInt(9)>>))
         ELSE IF mut = "sremove" THEN SExpr(AMCall(T, "remove", <<AInt(1)>>))          \* an element that is present
         ELSE IF mut = "discard" THEN SExpr(AMCall(T, "discard", <<AInt(1)>>))
         ELSE IF mut = "spop" THEN SExpr(AMCall(T, "pop", <<>>))
         ELSE IF mut = "sclear" THEN SExpr(AMCall(T, "clear", <<>>))
         ELSE SExpr(AMCall(T, "update", <<AList(<<AInt(9)>>)>>)))
    ELSE IF kind = "list" THEN
        (IF mut = "append" THEN SExpr(AMCall(T, "append", <<AInt(9)>>))
         ELSE IF mut = "extend" THEN SExpr(AMCall(T, "extend", <<AList(<<AInt(8)>>)>>))
         ELSE IF mut = "insert" THEN SExpr(AMCall(T, "insert", <<AInt(0), AInt(9)>>))
         ELSE IF mut = "pop" THEN SExpr(AMCall(T, "pop", <<>>))
         ELSE IF mut = "remove" THEN SExpr(AMCall(T, "remove", <<AIndex(T, AInt(0))>>))   \* an element that is present
         ELSE IF mut = "clear" THEN SExpr(AMCall(T, "clear", <<>>))
         ELSE IF mut = "setitem" THEN SAssign(TIndex(T, AInt(0)), AInt(9))
         ELSE IF mut = "augadd" THEN SAug("+", TIndex(AList(<<T>>), AInt(0)), AList(<<AInt(9)>>))    \* [T][0] += [9]
         ELSE IF mut = "augvar" THEN SAssign(TVar("loc"), T)      \* followed by loc += [9], see MutStmts
         ELSE SAug("+", TIndex(T, AInt(0)), AList(<<>>)))         \* T[0] += []  (element may be int or list)
    ELSE
        (IF mut = "setnew" THEN SAssign(TIndex(T, K(K_z)), AInt(9))
         ELSE IF mut = "setold" THEN SAssign(TIndex(T, AIndex(AMCall(T, "keys", <<>>), AInt(0))), AInt(9))
         ELSE IF mut = "pop" THEN SExpr(AMCall(T, "pop", <<AIndex(AMCall(T, "keys", <<>>), AInt(0))>>))
         ELSE IF mut = "setdefault" THEN SExpr(AMCall(T, "setdefault", <<K(K_z), AInt(9)>>))
         ELSE IF mut = "update" THEN SExpr(AMCall(T, "update", <<ADict(<<K(K_z)>>, <<AInt(9)>>)>>))
         ELSE IF mut = "clear" THEN SExpr(AMCall(T, "clear", <<>>))
         ELSE SAssign(TIndex(T, K(K_z)), AInt(1)))
MutStmts(T, kind, mut) ==
    IF kind = "list" /\ mut = "augvar" THEN <<SAssign(TVar("loc"), T), SAug("+", TVar("loc"), AList(<<AInt(9)>>))>>
    ELSE IF kind = "list" /\ mut = "augitem" THEN <<SAssign(TIndex(T, AInt(0)), AIndex(T, AInt(0)))>>   \* x[0] = x[0]
    ELSE <<Mut(T, kind, mut)>>

(* ---- probes: structural encoding, equality with itself and a rebuilt copy, text forms, reads *)
Probe(s) ==
    <<SEmit(XV),
      SEmit(ABin("==", XV, XV)),
      SEmit(ACall(AVar("len"), <<XV>>))>>
    \o (IF s = "cyclic" THEN <<>> ELSE <<SEmit(ACall(AVar("str"), <<XV>>)), SEmit(ACall(AVar("repr"), <<XV>>))>>)
    \o (IF s = "aliased" THEN <<SEmit(ABin("==", AIndex(XV, AInt(0)), AVar("sh")))>> ELSE <<>>)
    \o (IF s = "set" THEN <<SEmit(ABin("==", AIndex(XV, AInt(0)), AVar("sh")))>> ELSE <<>>)
    \o (IF s = "struct" THEN <<SEmit(ABin("==", XV, XV)), SEmit(ADot(XV, "a", K_a))>> ELSE <<>>)
    \o (IF s = "record" THEN <<SEmit(ADot(AIndex(XV, AInt(1)), "index", <<105, 110, 100, 101, 120>>)),
                                SEmit(ACall(AVar("list"), <<AIndex(XV, AInt(2))>>)),
                                SEmit(ABin("==", ADot(AIndex(XV, AInt(0)), "l", <<108>>), AVar("sh")))>> ELSE <<>>)
    \o (IF s = "factory" THEN <<SEmit(ACall(AVar("rdr"), <<>>))>> ELSE <<>>)
    \o (IF s = "registry" THEN <<SEmit(ACall(AVar("len"), <<ACall(AVar("fn"), <<>>)>>)),
                                  SEmit(ABin("in", AVar("fn"), ACall(AVar("fn"), <<>>))),
                                  SEmit(ABin("in", AVar("vs"), ACall(AVar("fn"), <<>>))),
                                  SEmit(ACall(AVar("len"), <<ACall(AVar("vs"), <<>>)>>)),
                                  SEmit(ABin("in", AVar("vs"), ACall(AVar("vs"), <<>>))),
                                  SEmit(ABin("in", AInt(3), ACall(AVar("vs"), <<>>))),
                                  SEmit(ABin("==", ACall(AVar("fn"), <<>>), ACall(AVar("fn"), <<>>)))>> ELSE <<>>)
ReadOps(T, kind) ==
    IF kind = "set" THEN
        <<SEmit(ACall(AVar("len"), <<T>>)),
          SEmit(ACall(AVar("list"), <<T>>)),
          SEmit(ABin("in", AInt(1), T)),
          SEmit(ABin("|", T, ACall(AVar("set"), <<AList(<<AInt(5)>>)>>))),
          SEmit(AMCall(T, "union", <<AList(<<AInt(6)>>)>>)),
          SEmit(ACompr(AVar("q"), <<AFor(TVar("q"), T)>>))>>
    ELSE IF kind = "list" THEN
        <<SEmit(ACall(AVar("len"), <<T>>)),
          SEmit([k |-> "slice", e |-> T, lo |-> ABSENT, hi |-> AInt(1), st |-> ABSENT, line |-> 0]),
          SEmit(ACompr(AVar("q"), <<AFor(TVar("q"), T)>>)),
          SEmit(ABin("in", AInt(1), T)),
          SEmit(ABin("+", T, AList(<<AInt(0)>>))),
          SEmit(ACall(AVar("list"), <<T>>))>>
    ELSE
        <<SEmit(ACall(AVar("len"), <<T>>)),
          SEmit(AMCall(T, "keys", <<>>)),
          SEmit(AMCall(T, "get", <<K(K_z), AInt(0)>>)),
          SEmit(ACompr(AVar("q"), <<AFor(TVar("q"), T)>>)),
          SEmit(ABin("in", K(K_z), T)),
          SEmit(ACall(AVar("dict"), <<T>>))>>

CallFnStmt == <<SEmit(ACall(AVar("fn"), <<AInt(5)>>))>>

(* c: [s, p (path record), mut, two (BOOLEAN)] *)
ChunkA(c) == IF c.s = "factory" THEN FactoryA ELSE Struct(c.s) \o Probe(c.s)
ChunkB(c) == IF c.s = "factory" THEN FactoryB \o Probe(c.s) ELSE <<>>
Importer(c) == <<Probe(c.s), MutStmts(c.p.e, c.p.kind, c.mut), Probe(c.s), ReadOps(c.p.e, c.p.kind)>>
                 \o (IF c.s \in {"closure", "factory"} THEN <<CallFnStmt, Probe(c.s)>> ELSE <<>>)
Mods(c) == IF c.two THEN <<Importer(c), Importer(c)>> ELSE <<Importer(c)>>
Loaded(c) == IF c.s = "aliased" \/ c.s = "set" \/ c.s = "record" THEN <<"x", "sh">> ELSE IF c.s = "closure" THEN <<"x", "cap", "fn">>
             ELSE IF c.s = "factory" THEN <<"x", "fn", "rdr">> ELSE IF c.s = "registry" THEN <<"x", "fn", "vs">> ELSE <<"x">>
(* loaded in the reverse of A's declaration order, so that no name has the same slot in B as in A:
   a closure that resolved A's globals against B's slot table would read something else *)
LoadedMid(c) == <<"make_rd", "make_app", "data">>

Structures == {"nested", "aliased", "cyclic", "dict", "tuple", "closure", "factory", "struct", "set", "record", "registry"}
Cases == {[s |-> s, p |-> p, mut |-> m, two |-> t] :
             s \in Structures,
             p \in UNION {Paths(s2) : s2 \in Structures},
             m \in ListMuts \cup DictMuts \cup SetMuts, t \in BOOLEAN}
Valid(c) == /\ c.p \in Paths(c.s)
            /\ (c.p.kind = "list" => c.mut \in ListMuts)
            /\ (c.p.kind = "dict" => c.mut \in DictMuts)
            /\ (c.p.kind = "set" => c.mut \in SetMuts)

VARIABLES case, done, exp
Init == case \in {c \in Cases : Valid(c)} /\ done = FALSE /\ exp = <<>>
Next == /\ ~done /\ done' = TRUE /\ UNCHANGED case
        /\ exp' = IF case.s = "factory" THEN RunFrozenChain(ChunkA(case), ChunkB(case), Mods(case), 50)
                   ELSE RunFrozen(ChunkA(case), Mods(case), 50)
        /\ PrintT(<<"CASE", ToJson([class |-> [s |-> case.s, kind |-> case.p.kind, mut |-> case.mut, two |-> case.two],
                                    a |-> ChunkA(case), mid |-> ChunkB(case), loaded_mid |-> LoadedMid(case),
                                    loaded |-> Loaded(case), mods |-> Mods(case), exp |-> exp'])>>)
Spec == Init /\ [][Next]_<<case, done, exp>>

(* ---- the property on the specification itself *)
(* probes read through load() after freezing equal the probes emitted inside A before freezing *)
FreezePreserves == done => \A i \in 1..Len(exp.mods) : exp.mods[i][1].out = exp.a.out
(* every mutation attempt fails with `immutable` and the probes afterwards are unchanged *)
FrozenImmutable == done => \A i \in 1..Len(exp.mods) :
                       /\ exp.mods[i][2].err.kind = "immutable"
                       /\ exp.mods[i][3].out = exp.a.out
                       /\ exp.mods[i][4].err.kind = ""
=============================================================================

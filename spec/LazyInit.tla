---------------------------- MODULE LazyInit ----------------------------
(* C20 (M) -- racing first uses of a lazily initialised static (GlobalsStatic / MethodsStatic:
   std::sync::OnceLock::get_or_init; eval/compiler/constants.rs: LazyLock).  Every thread calls
   get_or_init; whoever wins the state transition Incomplete -> Running builds the value (the value
   built by thread t is modelled as t: the identity of the object it would allocate), publishes it
   and wakes the others; everybody returns the published value.
   Properties: all callers get the same value; it was built exactly once; nobody returns before
   it is published.  Variant Racy = TRUE (a `static mut` checked and set non-atomically) violates
   OneValue. *)
EXTENDS Naturals, FiniteSets

CONSTANTS Threads, Racy

VARIABLES cell,     \* 0 = empty, else the published value
          state,    \* "incomplete" | "running" | "complete"
          pc,       \* [Threads -> "start" | "check" | "init" | "publish" | "wait" | "done"]
          built,    \* set of threads that ran the initializer
          ret       \* [Threads -> value returned (0 = none yet)]

vars == <<cell, state, pc, built, ret>>

Init == /\ cell = 0 /\ state = "incomplete" /\ built = {}
        /\ pc = [t \in Threads |-> "start"]
        /\ ret = [t \in Threads |-> 0]

\* fast path: already complete
Start(t) == /\ pc[t] = "start"
            /\ pc' = [pc EXCEPT ![t] = IF state = "complete" THEN "read" ELSE "check"]
            /\ UNCHANGED <<cell, state, built, ret>>

\* Once::call: compare-exchange Incomplete -> Running (atomic), else wait
Check(t) == /\ pc[t] = "check"
            /\ IF Racy
               THEN \* the check and the later store are separate, nothing excludes a second initializer
                    /\ pc' = [pc EXCEPT ![t] = IF cell = 0 THEN "init" ELSE "read"]
                    /\ UNCHANGED state
               ELSE IF state = "incomplete"
                    THEN /\ state' = "running" /\ pc' = [pc EXCEPT ![t] = "init"]
                    ELSE /\ pc' = [pc EXCEPT ![t] = "wait"] /\ UNCHANGED state
            /\ UNCHANGED <<cell, built, ret>>

RunInit(t) == /\ pc[t] = "init"
              /\ built' = built \cup {t}
              /\ pc' = [pc EXCEPT ![t] = "publish"]
              /\ UNCHANGED <<cell, state, ret>>

Publish(t) == /\ pc[t] = "publish"
              /\ cell' = t
              /\ state' = "complete"
              /\ pc' = [pc EXCEPT ![t] = "read"]
              /\ UNCHANGED <<built, ret>>

Wait(t) == /\ pc[t] = "wait" /\ state = "complete"
           /\ pc' = [pc EXCEPT ![t] = "read"]
           /\ UNCHANGED <<cell, state, built, ret>>

Read(t) == /\ pc[t] = "read"
           /\ ret' = [ret EXCEPT ![t] = cell]
           /\ pc' = [pc EXCEPT ![t] = "done"]
           /\ UNCHANGED <<cell, state, built>>

Next == \E t \in Threads : Start(t) \/ Check(t) \/ RunInit(t) \/ Publish(t) \/ Wait(t) \/ Read(t)
Spec == Init /\ [][Next]_vars /\ WF_vars(Next)

Done(t) == pc[t] = "done"
OneValue == \A t1 \in Threads, t2 \in Threads : Done(t1) /\ Done(t2) => ret[t1] = ret[t2] /\ ret[t1] # 0
BuiltOnce == Cardinality(built) <= 1
Published == \A t \in Threads : Done(t) => ret[t] = cell /\ cell \in built
Inv == OneValue /\ BuiltOnce /\ Published
AllReturn == <>(\A t \in Threads : Done(t))
=======================================================================

--------------------------- MODULE HeapRefs ---------------------------
(* C13 -- frozen values stay alive as long as anything that can reach them is alive.

   Ids 1..N name modules; module k, once frozen, *is* arena k (its FrozenHeapRef).  Globals
   built from modules take ids from the same pool (kind "glob").  Holders:
     - an unfrozen Module k        (st[k] = "open"):   keeps alive hrefs[k] \cup frefs[k]
       (the `refs` of its Heap and of its FrozenHeap -- heap_type.rs OwnedHeap.refs / FrozenHeap.refs)
     - a FrozenModule / Globals k  (st[k] = "frozen"): keeps alive arena k
     - an owned handle h           (hd[h].st = "live"): keeps alive arena hd[h].heap
   Arena k keeps alive frefs[k] (FrozenFrozenHeap.refs).

   A value is a chain of layers, outermost first: a wrapper (list/dict/tuple/function/closure)
   allocated in module `m` around a value obtained from elsewhere, ending in an "own" literal.
   The memory a value *points into* is the set of modules of its layers; that is what must stay
   alive (NoDangling).  Actions are the API calls that move a frozen value into another heap:
   every one of them must add a keep-alive edge.  `Bug` switches one of them off, to show that
   NoDangling is not vacuous (TLC finds the violation). *)
EXTENDS Naturals, Sequences, FiniteSets, TLC

CONSTANTS N,         \* module / arena ids 1..N
          NH,        \* owned handles 1..NH
          MaxSyms,   \* symbols per module
          MaxDepth,  \* layers per value
          MaxOpen,   \* unfrozen modules alive at once
          Hows,      \* subset of AllHows
          Feat,      \* subset of AllFeat: which parts of the API the bounded run includes
          Bug        \* "none" or the name of the forgotten add_reference

AllHows == {"direct", "list", "dict", "tuple", "gdef", "clos"}
AllFeat == {"owned", "import", "globals", "rehome", "loadfail"}
Bugs == {"none", "load_no_ref", "freeze_no_forward", "add_to_heap_no_ref", "import_no_ref",
         "globals_build_no_ref", "from_globals_no_ref", "eval_no_globals_ref", "rehome_no_ref"}

ASSUME Hows \subseteq AllHows /\ Feat \subseteq AllFeat /\ Bug \in Bugs

VARIABLES st,      \* [1..N -> {"unused","open","frozen","gone"}]   holder state of module k
          kind,    \* [1..N -> {"mod","glob","fwd"}]  ("fwd": a heap that only forwards references)
          alive,   \* [1..N -> BOOLEAN]    arena k's memory has been created and not yet released
          hrefs,   \* [1..N -> SUBSET 1..N] refs of the unfrozen Heap of open module k
          frefs,   \* [1..N -> SUBSET 1..N] refs of the FrozenHeap of k (open) / of arena k (frozen)
          syms,    \* [1..N -> Seq(sym)]    named values of k
          glob,    \* [1..N -> 0..N]        Globals an open module evaluates with (0: the standard ones)
          hd,      \* [1..NH -> handle]
          last     \* the action just taken (for generators and traces)

vars == <<st, kind, alive, hrefs, frefs, syms, glob, hd, last>>

Ids == 1..N
Hs == 1..NH

(* layer: [w: how, m: module that allocated it, j: symbol index in that module]
   sym:   [mk, mj: the (module, index) the harness derives the Starlark name from,
           via: how it got here (classification only), val: Seq(layer)] *)
Own(k) == [mk |-> k, mj |-> 1, via |-> "own", val |-> <<[w |-> "own", m |-> k, j |-> 1]>>]
NoSym == [mk |-> 0, mj |-> 0, via |-> "", val |-> <<>>]
NoHandle == [st |-> "unused", heap |-> 0, sym |-> NoSym]
GoneHandle == [st |-> "gone", heap |-> 0, sym |-> NoSym]

Mods(s) == {s.val[i].m : i \in 1..Len(s.val)}

\* classification of the path by which a value entered a heap
ViaOf(base, how, src, f) ==
    IF base # "load" THEN base
    ELSE IF how \in {"list", "dict", "tuple"} THEN "container"
    ELSE IF how \in {"gdef", "clos"} THEN "closure"
    ELSE IF src.val[1].m # f THEN "reexport"
    ELSE "load"

\* symbol number j of module k made from `src` (a sym) by wrapping it as `how`
Mk(k, j, how, src, via) ==
    [mk |-> k, mj |-> j, via |-> via,
     val |-> IF how = "direct" THEN src.val ELSE <<[w |-> how, m |-> k, j |-> j]>> \o src.val]

CanWrap(k, how, src) ==
    /\ Len(syms[k]) < MaxSyms
    /\ Len(src.val) + (IF how = "direct" THEN 0 ELSE 1) <= MaxDepth

Used == {k \in Ids : st[k] # "unused"}
NextId == Cardinality(Used) + 1
Open == {k \in Ids : st[k] = "open"}
Frozen == {k \in Ids : st[k] = "frozen"}
FrozenMods == {k \in Frozen : kind[k] = "mod"}
FrozenGlobs == {k \in Frozen : kind[k] = "glob"}
LiveH == {h \in Hs : hd[h].st = "live"}
FreeH == {h \in Hs : hd[h].st = "unused"}
NextH == CHOOSE h \in FreeH : \A h2 \in FreeH : h <= h2

Init ==
    /\ st = [k \in Ids |-> "unused"]
    /\ kind = [k \in Ids |-> "mod"]
    /\ alive = [k \in Ids |-> FALSE]
    /\ hrefs = [k \in Ids |-> {}]
    /\ frefs = [k \in Ids |-> {}]
    /\ syms = [k \in Ids |-> <<>>]
    /\ glob = [k \in Ids |-> 0]
    /\ hd = [h \in Hs |-> NoHandle]
    /\ last = [op |-> "init", k |-> 0, f |-> 0, i |-> 0, h |-> 0, how |-> "", c |-> FALSE]

Op(op, k, f, i, h, how, c) == last' = [op |-> op, k |-> k, f |-> f, i |-> i, h |-> h, how |-> how, c |-> c]

(* Module::with_temp_heap + first eval_module (defines the module's own value).
   eval.rs::eval_module: frozen_heap().add_reference(globals.heap()). *)
NewModule(g) ==
    LET k == NextId IN
    /\ k <= N /\ Cardinality(Open) < MaxOpen
    /\ g = 0 \/ g \in FrozenGlobs
    /\ st' = [st EXCEPT ![k] = "open"]
    /\ kind' = [kind EXCEPT ![k] = "mod"]
    /\ glob' = [glob EXCEPT ![k] = g]
    /\ frefs' = [frefs EXCEPT ![k] = IF g = 0 \/ Bug = "eval_no_globals_ref" THEN {} ELSE {g}]
    /\ syms' = [syms EXCEPT ![k] = <<Own(k)>>]
    /\ Op("new_module", k, g, 0, 0, "", FALSE)
    /\ UNCHANGED <<alive, hrefs, hd>>

(* load("f", l = "sym") in open module k, then bind it `how`.
   modules.rs::load_symbol: self.heap().add_reference(&module.heap).
   A load statement binds its names one by one; with `c` it goes on to name a symbol that `f` does not
   have: the statement fails, the evaluation ends with an error -- and `l` stays bound in the module,
   which is used further.  The reference is owed for each name as it is bound, not for the statement. *)
EvalLoad(k, f, i, how, c) ==
    /\ k \in Open /\ f \in FrozenMods /\ i \in 1..Len(syms[f]) /\ how \in Hows
    /\ c => "loadfail" \in Feat
    /\ CanWrap(k, how, syms[f][i])
    /\ hrefs' = [hrefs EXCEPT ![k] = IF Bug = "load_no_ref" THEN @ ELSE @ \cup {f}]
    /\ syms' = [syms EXCEPT ![k] = Append(@, Mk(k, Len(@) + 1, how, syms[f][i], ViaOf("load", how, syms[f][i], f)))]
    /\ Op("eval_load", k, f, i, 0, how, c)
    /\ UNCHANGED <<st, kind, alive, frefs, glob, hd>>

(* Module::import_public_symbols(fm) then bind symbol i `how`.
   modules.rs: self.frozen_heap.add_reference(&module.heap). *)
ImportPublic(k, f, i, how) ==
    /\ "import" \in Feat
    /\ k \in Open /\ f \in FrozenMods /\ i \in 1..Len(syms[f]) /\ how \in Hows
    /\ CanWrap(k, how, syms[f][i])
    /\ frefs' = [frefs EXCEPT ![k] = IF Bug = "import_no_ref" THEN @ ELSE @ \cup {f}]
    /\ syms' = [syms EXCEPT ![k] = Append(@, Mk(k, Len(@) + 1, how, syms[f][i], "import"))]
    /\ Op("import_public", k, f, i, 0, how, FALSE)
    /\ UNCHANGED <<st, kind, alive, hrefs, glob, hd>>

(* Module::freeze: the FrozenHeap becomes arena k, with the Heap's refs forwarded
   (modules.rs::freeze_impl: for r in heap.referenced_heaps() { frozen_heap.add_reference(&r) }). *)
Freeze(k) ==
    /\ k \in Open
    /\ st' = [st EXCEPT ![k] = "frozen"]
    /\ alive' = [alive EXCEPT ![k] = TRUE]
    /\ frefs' = [frefs EXCEPT ![k] = IF Bug = "freeze_no_forward" THEN @ ELSE @ \cup hrefs[k]]
    /\ hrefs' = [hrefs EXCEPT ![k] = {}]
    /\ glob' = [glob EXCEPT ![k] = 0]
    /\ Op("freeze", k, 0, 0, 0, "", FALSE)
    /\ UNCHANGED <<kind, syms, hd>>

(* FrozenModule::get_owned(sym): OwnedFrozen = (FrozenHeapRef of f, value). *)
GetOwned(f, i) ==
    /\ "owned" \in Feat
    /\ FreeH # {} /\ f \in FrozenMods /\ i \in 1..Len(syms[f])
    /\ hd' = [hd EXCEPT ![NextH] = [st |-> "live", heap |-> f, sym |-> [syms[f][i] EXCEPT !.via = "owned"]]]
    /\ Op("get_owned", 0, f, i, NextH, "", FALSE)
    /\ UNCHANGED <<st, kind, alive, hrefs, frefs, syms, glob>>

(* OwnedFrozen::add_to_heap(module.heap()) (c: consumes the handle) or
   as_ref().add_to_heap (handle kept), then bind `how`.
   heap_type.rs: heap.add_reference(&self.heap_ref). *)
AddToHeap(h, k, how, c) ==
    /\ h \in LiveH /\ k \in Open /\ how \in Hows
    /\ CanWrap(k, how, hd[h].sym)
    /\ hrefs' = [hrefs EXCEPT ![k] = IF Bug = "add_to_heap_no_ref" THEN @ ELSE @ \cup {hd[h].heap}]
    /\ syms' = [syms EXCEPT ![k] = Append(@, Mk(k, Len(@) + 1, how, hd[h].sym, "add_to_heap"))]
    /\ hd' = IF c THEN [hd EXCEPT ![h] = GoneHandle] ELSE hd
    /\ Op("add_to_heap", k, 0, 0, h, how, c)
    /\ UNCHANGED <<st, kind, alive, frefs, glob>>

(* OwnedFrozen::build(name, |heap| handle.as_ref().add_to_frozen_heap(heap)): a NEW frozen heap g in
   which nothing is allocated -- all it holds is a reference to the handle's heap (a pure
   forwarding heap) -- and a new handle i on g for the same value.  No module or Globals holds g:
   only handles, and the heaps that later take a reference to it, keep it (and, through it, the
   value's real heap) alive.  heap_type.rs OwnedFrozenRef::add_to_frozen_heap:
   heap.add_reference(self.heap_ref). *)
Rehome(h) ==
    LET g == NextId IN
    /\ "rehome" \in Feat
    /\ g <= N /\ h \in LiveH /\ FreeH # {}
    /\ st' = [st EXCEPT ![g] = "gone"]
    /\ kind' = [kind EXCEPT ![g] = "fwd"]
    /\ alive' = [alive EXCEPT ![g] = TRUE]
    /\ frefs' = [frefs EXCEPT ![g] = IF Bug = "rehome_no_ref" THEN {} ELSE {hd[h].heap}]
    /\ hd' = [hd EXCEPT ![NextH] = [st |-> "live", heap |-> g, sym |-> [hd[h].sym EXCEPT !.via = "rehome"]]]
    /\ Op("rehome", g, 0, NextH, h, "", FALSE)
    /\ UNCHANGED <<hrefs, syms, glob>>

(* GlobalsBuilder: value taken from frozen module f by get_option_ref(sym).add_to_frozen_heap
   (builder.frozen_heap()) and `set` (how = "direct") or put in a list allocated in the builder's
   heap (how = "list"); build() makes arena g.  heap_type.rs OwnedFrozenRef::add_to_frozen_heap. *)
GlobalsFromModule(f, i, how) ==
    LET g == NextId IN
    /\ "globals" \in Feat
    /\ g <= N /\ f \in FrozenMods /\ i \in 1..Len(syms[f]) /\ how \in Hows \cap {"direct", "list"}
    /\ Len(syms[f][i].val) + (IF how = "direct" THEN 0 ELSE 1) <= MaxDepth
    /\ st' = [st EXCEPT ![g] = "frozen"]
    /\ kind' = [kind EXCEPT ![g] = "glob"]
    /\ alive' = [alive EXCEPT ![g] = TRUE]
    /\ frefs' = [frefs EXCEPT ![g] = IF Bug = "globals_build_no_ref" THEN {} ELSE {f}]
    /\ syms' = [syms EXCEPT ![g] = <<Mk(g, 1, how, syms[f][i], "globals")>>]
    /\ Op("globals_from_module", g, f, i, 0, how, FALSE)
    /\ UNCHANGED <<hrefs, glob, hd>>

GlobalsFromHandle(h, how) ==
    LET g == NextId IN
    /\ "globals" \in Feat
    /\ g <= N /\ h \in LiveH /\ how \in Hows \cap {"direct", "list"}
    /\ Len(hd[h].sym.val) + (IF how = "direct" THEN 0 ELSE 1) <= MaxDepth
    /\ st' = [st EXCEPT ![g] = "frozen"]
    /\ kind' = [kind EXCEPT ![g] = "glob"]
    /\ alive' = [alive EXCEPT ![g] = TRUE]
    /\ frefs' = [frefs EXCEPT ![g] = IF Bug = "globals_build_no_ref" THEN {} ELSE {hd[h].heap}]
    /\ syms' = [syms EXCEPT ![g] = <<Mk(g, 1, how, hd[h].sym, "globals")>>]
    /\ Op("globals_from_handle", g, 0, 0, h, how, FALSE)
    /\ UNCHANGED <<hrefs, glob, hd>>

(* an open module created with Globals g binds g's variable `how` *)
UseGlobal(k, how) ==
    /\ k \in Open /\ glob[k] # 0 /\ how \in Hows /\ Len(syms[glob[k]]) >= 1
    /\ CanWrap(k, how, syms[glob[k]][1])
    /\ syms' = [syms EXCEPT ![k] = Append(@, Mk(k, Len(@) + 1, how, syms[glob[k]][1], "globals"))]
    /\ Op("use_global", k, glob[k], 1, 0, how, FALSE)
    /\ UNCHANGED <<st, kind, alive, hrefs, frefs, glob, hd>>

(* FrozenModule::from_globals(&globals): module.frozen_heap.add_reference(globals.heap()) *)
ModuleFromGlobals(g) ==
    LET f == NextId IN
    /\ f <= N /\ g \in FrozenGlobs
    /\ st' = [st EXCEPT ![f] = "frozen"]
    /\ kind' = [kind EXCEPT ![f] = "mod"]
    /\ alive' = [alive EXCEPT ![f] = TRUE]
    /\ frefs' = [frefs EXCEPT ![f] = IF Bug = "from_globals_no_ref" THEN {} ELSE {g}]
    /\ syms' = [syms EXCEPT ![f] = syms[g]]
    /\ Op("module_from_globals", f, g, 0, 0, "", FALSE)
    /\ UNCHANGED <<hrefs, glob, hd>>

DropOpen(k) ==
    /\ k \in Open
    /\ st' = [st EXCEPT ![k] = "gone"]
    /\ hrefs' = [hrefs EXCEPT ![k] = {}]
    /\ frefs' = [frefs EXCEPT ![k] = {}]
    /\ syms' = [syms EXCEPT ![k] = <<>>]
    /\ glob' = [glob EXCEPT ![k] = 0]
    /\ Op("drop_open", k, 0, 0, 0, "", FALSE)
    /\ UNCHANGED <<kind, alive, hd>>

DropFrozen(k) ==
    /\ k \in Frozen
    /\ st' = [st EXCEPT ![k] = "gone"]
    /\ Op("drop_frozen", k, 0, 0, 0, "", FALSE)
    /\ UNCHANGED <<kind, alive, hrefs, frefs, syms, glob, hd>>

DropHandle(h) ==
    /\ h \in LiveH
    /\ hd' = [hd EXCEPT ![h] = GoneHandle]
    /\ Op("drop_handle", 0, 0, 0, h, "", FALSE)
    /\ UNCHANGED <<st, kind, alive, hrefs, frefs, syms, glob>>

(* keep-alive reachability *)
Roots == UNION {hrefs[k] \cup frefs[k] : k \in Open} \cup Frozen \cup {hd[h].heap : h \in LiveH}

RECURSIVE Closure(_)
Closure(S) == LET T == S \cup UNION {frefs[k] : k \in S} IN IF T = S THEN S ELSE Closure(T)

Reachable == Closure(Roots)

(* the memory of arena k is released: only when nothing alive keeps it *)
Free(k) ==
    /\ alive[k] /\ k \notin Reachable
    /\ alive' = [alive EXCEPT ![k] = FALSE]
    /\ frefs' = [frefs EXCEPT ![k] = {}]        \* its FrozenHeapRefs are dropped with it
    /\ syms' = [syms EXCEPT ![k] = <<>>]
    /\ Op("free", k, 0, 0, 0, "", FALSE)
    /\ UNCHANGED <<st, kind, hrefs, glob, hd>>

\* (quantifier domains are narrowed to the enabled instances: TLC evaluates them once per state)
NextBuild ==
    \/ \E g \in {0} \cup FrozenGlobs : NewModule(g)
    \/ \E k \in Open, f \in FrozenMods : \E i \in 1..Len(syms[f]), how \in Hows :
            EvalLoad(k, f, i, how, FALSE) \/ EvalLoad(k, f, i, how, TRUE) \/ ImportPublic(k, f, i, how)
    \/ \E k \in Open : Freeze(k)
    \/ \E g \in FrozenGlobs : ModuleFromGlobals(g)
    \/ \E f \in FrozenMods : \E i \in 1..Len(syms[f]) : GetOwned(f, i)
    \/ \E h \in LiveH, k \in Open, how \in Hows, c \in BOOLEAN : AddToHeap(h, k, how, c)
    \/ \E f \in FrozenMods : \E i \in 1..Len(syms[f]), how \in Hows : GlobalsFromModule(f, i, how)
    \/ \E h \in LiveH, how \in Hows : GlobalsFromHandle(h, how)
    \/ \E h \in LiveH : Rehome(h)
    \/ \E k \in Open, how \in Hows : UseGlobal(k, how)

NextDrop ==
    \/ \E k \in Open : DropOpen(k)
    \/ \E k \in Frozen : DropFrozen(k)
    \/ \E h \in LiveH : DropHandle(h)

NextNoFree == NextBuild \/ NextDrop

Next == NextNoFree \/ \E k \in {a \in Ids : alive[a]} : Free(k)

Spec == Init /\ [][Next]_vars

(* what an alive holder's values point into *)
\* (an open module also points into the Globals it is evaluated with: scope resolution, DefInfo)
OpenPts(k) == (UNION {Mods(syms[k][i]) : i \in 1..Len(syms[k])} \cup (IF glob[k] = 0 THEN {} ELSE {glob[k]})) \ {k}
FrozenPts(k) == {k} \cup UNION {Mods(syms[k][i]) : i \in 1..Len(syms[k])}
HandlePts(h) == Mods(hd[h].sym)

NoDangling ==
    /\ \A k \in Open : \A a \in OpenPts(k) : alive[a]
    /\ \A k \in Frozen : \A a \in FrozenPts(k) : alive[a]
    /\ \A h \in LiveH : \A a \in HandlePts(h) : alive[a]

(* the inductive reason: pointers never leave the keep-alive closure *)
PointersCovered ==
    /\ \A k \in Open : OpenPts(k) \subseteq Closure(hrefs[k] \cup frefs[k])
    /\ \A k \in Frozen : FrozenPts(k) \subseteq Closure({k})
    /\ \A h \in LiveH : HandlePts(h) \subseteq Closure({hd[h].heap})

(* M: the invariants and the enabling conditions depend on a value only through the set of
   modules of its layers and its depth, so this projection is a bisimulation; TLC explores one
   representative per class (cfg: VIEW MView). *)
Abs(s) == <<Mods(s), IF MaxDepth >= N * MaxSyms THEN 0 ELSE Len(s.val)>>
HAbs(h) == <<hd[h].heap, Abs(hd[h].sym)>>
MView == <<st, kind, alive, glob,
           IF Bug = "none" THEN <<[k \in Ids |-> hrefs[k] \cup frefs[k]]>> ELSE <<hrefs, frefs>>,
           [k \in Ids |-> [i \in 1..Len(syms[k]) |-> Abs(syms[k][i])]],
           Cardinality(FreeH),
           {<<HAbs(h), Cardinality({h2 \in LiveH : HAbs(h2) = HAbs(h)})>> : h \in LiveH}>>

(* Releasing memory as early as the reference counts allow is the worst case for NoDangling
   (a later release only keeps more alive), so the large configuration gives Free priority:
   cfg ACTION_CONSTRAINT EagerFree.  The small configuration explores every lazy schedule too. *)
EagerFree == (\E k \in Ids : alive[k] /\ k \notin Reachable) => last'.op = "free"

TypeOK ==
    /\ \A k \in Ids : st[k] \in {"unused", "open", "frozen", "gone"} /\ Len(syms[k]) <= MaxSyms
    /\ \A k \in Ids : alive[k] => st[k] \in {"frozen", "gone"}
    /\ \A k \in Ids : \A i \in 1..Len(syms[k]) : Len(syms[k][i].val) <= MaxDepth
=======================================================================

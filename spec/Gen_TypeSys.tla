--------------------------- MODULE Gen_TypeSys ---------------------------
(* G (and M) for C17: TLC enumerates modules that are well typed by construction and prints each
   as an AST (JSON) with, per module-level binding, its type according to the specification;
   the invariant ModuleWT checks every one of them against the declarative typing judgement.
   State modno = the modno-th module.  Modules 1..NExh walk the exhaustive item list (every signature on
   canonical leaves, every comprehension form, every statement template, and every PAIR
   context[producer] -- strided by PairStride in the quick tier); modules after that are
   pseudo-random deeper ones, a pure function of (Seed, n). *)
EXTENDS TypeSys, Json, IOUtils

PairStride == atoi(IOEnv.C17_STRIDE)      \* take every PairStride-th pairwise item ...
PairOffset == atoi(IOEnv.C17_OFFSET)      \* ... starting at this offset (from the seed)
Seed       == atoi(IOEnv.C17_SEED)
NRand      == atoi(IOEnv.C17_NRAND)       \* number of pseudo-random modules
RandDepth  == atoi(IOEnv.C17_DEPTH)
K          == 8                           \* generated defs per module

Item(ret, body, tag) == [ret |-> ret, body |-> body, tag |-> tag]
UTR == SetToSeq(U)
Alt(i, e) == IF i % 2 = 0 THEN B_Ret(e) ELSE B_Local(e)

ItemsG1 == FlattenSeq([ti \in 1..Len(UTR) |->
              [i \in 1..Len(Gen1[UTR[ti]]) |-> Item(UTR[ti], Alt(i, Gen1[UTR[ti]][i]), "g1")]])
ItemsComp == [i \in 1..Len(AllComps) |-> Item(AllComps[i].ty, Alt(i + 1, AllComps[i]), "comp")]

\* inner expressions by type (depth 1 + comprehensions), for the pairwise part
InnerOf(t) == Gen1[t] \o SelectSeq(AllComps, LAMBDA e : e.ty = t)
HoleTs == SetToSeq(U \cup {RangeT})
PairsOf(t) == LET I == InnerOf(t)  C == SelectSeq(Ctx[t], LAMBDA c : SigSeq[c[1]].res \in U) IN
              FlattenSeq([ci \in 1..Len(C) |-> [ii \in 1..Len(I) |-> Plug(C[ci], I[ii])]])
FreshPairsOf(l) == LET I == Gen1[Fresh(l)]  C == FreshCtx[l] IN
              FlattenSeq([ci \in 1..Len(C) |-> [ii \in 1..Len(I) |-> Plug(C[ci], I[ii])]])
LTS == SetToSeq(ListTs)
PairExprs == FlattenSeq([ti \in 1..Len(HoleTs) |-> PairsOf(HoleTs[ti])])
             \o FlattenSeq([ti \in 1..Len(LTS) |-> FreshPairsOf(LTS[ti])])
\* statement templates
ItemsIf == FlattenSeq([ti \in 1..Len(UTR) |-> LET t == UTR[ti] IN
              <<Item(t, B_IfAssign(Leaf(BoolT, 1), Leaf(t, 1), Leaf(t, 2)), "if-assign"),
                Item(t, B_IfReturn(Leaf(BoolT, 1), Leaf(t, 1), Leaf(t, 2)), "if-return"),
                Item(t, B_IfElseReturn(Leaf(BoolT, 2), Leaf(t, 2), Leaf(t, 1)), "if-else-return")>>])
\* subsumption into None | t at a return
OTS == SetToSeq(OptTs)
ItemsOpt == FlattenSeq([ti \in 1..Len(OTS) |-> LET o == OTS[ti] IN
              <<Item(o, B_Ret(Leaf(o.a[1], 1)), "opt-return"),
                Item(o, B_Ret(NoneLit), "opt-return"),
                Item(o, B_IfReturn(Leaf(BoolT, 1), NoneLit, Leaf(o.a[1], 2)), "opt-return"),
                Item(o, B_IfAssign(Leaf(BoolT, 1), Leaf(o, 1), NoneLit), "opt-return")>>])
ItemsTwo == FlattenSeq([ti \in 1..Len(UTR) |-> LET t == UTR[ti]
                                                  C == SelectSeq(Ctx[t], LAMBDA c : SigSeq[c[1]].res \in U)
                                                  I == Gen1[t] IN
              [i \in 1..Len(C) |-> Item(SigSeq[C[i][1]].res,
                                        B_Two(IF Len(I) = 0 THEN Leaf(t, 1) ELSE I[(i % Len(I)) + 1], C[i]), "two-locals")]])
ItemsAug ==
    [i \in 1..5 |-> Item(IntT, B_Aug(IntT, <<"+=", "-=", "*=", "//=", "%=">>[i], Leaf(NZ, 1)), "aug")]
    \o <<Item(StrT, B_Aug(StrT, "+=", Leaf(StrT, 2)), "aug"), Item(StrT, B_Aug(StrT, "*=", Leaf(IntT, 2)), "aug")>>
    \o FlattenSeq([ti \in 1..Len(LTS) |-> <<Item(LTS[ti], B_Aug(LTS[ti], "+=", Leaf(LTS[ti], 2)), "aug"),
                                             Item(LTS[ti], B_Aug(LTS[ti], "*=", Leaf(IntT, 2)), "aug")>>])
UnpackOver(e) == LET A == BodiesOver(Var("ua", e.ty.a[1]))  B == BodiesOver(Var("ub", e.ty.a[2])) IN
    [i \in 1..Len(A) |-> Item(A[i].ty, B_Unpack(e, A[i]), "unpack")] \o [i \in 1..Len(B) |-> Item(B[i].ty, B_Unpack(e, B[i]), "unpack")]
ItemsUnpack == SelectSeq(UnpackOver(PVar(TSI, 1)) \o UnpackOver(PVar(TIS, 1)) \o UnpackOver(Gen1[TSI][1]),
                         LAMBDA it : it.ret \in U)
ITS == SetToSeq(IterTs)
LoopBodies(it) == SelectSeq(BodiesOver(LoopVarOf(ElemOfIter(it))), LAMBDA e : e.ty \in AccTs)
LoopItem(it, i) == LET lv == LoopVarOf(ElemOfIter(it))  b == LoopBodies(it)[i] IN
    Item(b.ty,
        CASE i % 4 = 0 -> B_LoopIf(IterLeaf(it), lv, b, Leaf(BoolT, 1))
          [] i % 4 = 1 -> B_LoopAug(IterLeaf(it), lv, b)
          [] OTHER -> B_Loop(IterLeaf(it), lv, b), "loop")
LoopCounts == [i \in 1..Len(ITS) |-> Len(LoopBodies(ITS[i]))] \o <<>>
Loop2Items ==
      <<Item(IntT, B_Loop2(PVar(ListT(TSI), 1), Var("fv", IntT)), "loop-unpack"),
         Item(StrT, B_Loop2(Ex("meth", "items", 0, <<PVar(DictT(StrT, IntT), 1)>>, ListT(TSI), "dict.items"), Var("fk", StrT)), "loop-unpack"),
         Item(StrT, B_Loop2(PVar(ListT(TSI), 2), Ex("bin", "*", 0, <<Var("fk", StrT), Var("fv", IntT)>>, StrT, "str*int")), "loop-unpack")>>
RECURSIVE SumSeq(_, _)
SumSeq(sq, j) == IF j = 0 THEN 0 ELSE sq[j] + SumSeq(sq, j - 1)
NLoop == SumSeq(LoopCounts, Len(LoopCounts))
RECURSIVE LoopFind(_, _)
LoopFind(k, j) == IF k <= LoopCounts[j] THEN LoopItem(ITS[j], k) ELSE LoopFind(k - LoopCounts[j], j + 1)

(* The item list is never materialised as one sequence (TLC does not reliably keep large derived
   constants; segments are looked up by index instead) *)
SegA == ItemsG1 \o ItemsComp \o ItemsIf \o ItemsOpt \o ItemsTwo \o ItemsAug \o ItemsUnpack \o Loop2Items
NSegA == Len(SegA)
NCore == NSegA + NLoop
CoreAt(i) == IF i <= NSegA THEN SegA[i] ELSE LoopFind(i - NSegA, 1)
NPairs == Len(PairExprs)
\* the selected pairwise items: PairExprs[off + 1 + k * PairStride]
POff == PairOffset % PairStride
NSel == IF NPairs <= POff THEN 0 ELSE (NPairs - POff + PairStride - 1) \div PairStride
NItems == NCore + NSel
ItemAt(i) == IF i <= NCore THEN CoreAt(i)
             ELSE LET p == POff + 1 + (i - NCore - 1) * PairStride IN
                  Item(PairExprs[p].ty, Alt(p, PairExprs[p]), "g2")
NExh == (NItems + K - 1) \div K
NMods == NExh + NRand

\* closed module-level expressions: rotate through the depth-1 expressions and comprehensions
ModExprs == FlattenSeq([ti \in 1..Len(UTR) |-> Gen1[UTR[ti]]]) \o AllComps
ExhModule(n) ==
    LET lo == (n - 1) * K
        cnt == IF lo + K <= NItems THEN K ELSE NItems - lo
        defs == [j \in 1..cnt |-> LET it == ItemAt(lo + j) IN MkDef("f" \o ToString(j), it.ret, it.body, it.tag)]
        ex == [j \in 1..3 |-> ModExprs[((3 * (n + Seed) + j) % Len(ModExprs)) + 1]] IN
    Module(n, defs, ex, "exh")
RandModule(n) ==
    LET x0 == Rn(Rn(Seed * 7717 + n))
        defs == [j \in 1..K |-> RandDef("f" \o ToString(j), RandDepth, Rn(x0 + 101 * j))]
        ex == [j \in 1..3 |-> RandE(Pick(UTR, Rn(x0 + j)), RandDepth - 1, Rn(x0 + 31 * j))] IN
    Module(n, defs, ex, "rand")
ModuleN(n) == IF n <= NExh THEN ExhModule(n) ELSE RandModule(n)

\* (the variable must not share its name with any bound identifier used above: TLC would stop
\*  treating those definitions as constants and re-evaluate them at every use)
VARIABLE modno
Init == modno \in 1..NMods
Next == UNCHANGED modno
\* the invariant: (M) every generated module is well typed per the judgement; and it is printed,
\* with a mutant, for the harness (G)
Emit == LET m == ModuleN(modno)  wt == ModuleWT(m) IN
        /\ PrintT(<<"MOD", ToJson(m)>>)
        /\ PrintT(<<"MUT", ToJson(Mutant(m, modno + Seed))>>)
        /\ (wt \/ PrintT(<<"NOTWT", modno>>))
        /\ wt
Stats == PrintT(<<"STATS", ToJson([items |-> NItems, pairs_all |-> NPairs, pairs_sel |-> NSel, core |-> NCore,
                                   nexh |-> NExh, nrand |-> NRand, sigs |-> Cardinality(Sigs), rules |-> Cardinality(Rules),
                                   types |-> Cardinality(U), comps |-> Len(AllComps)])>>)
ASSUME Stats
==========================================================================

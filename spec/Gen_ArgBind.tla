---------------------------- MODULE Gen_ArgBind ----------------------------
(* G for C08: TLC enumerates signatures x call shapes within the bounds given by the cfg and
   prints, for each pair, one JSON line with the expected outcome Bind(sig, call).  The same run
   is the M part: Conservation and Shape are checked on every enumerated pair.

   Parameter i is named Names[i] and, if it has a default, its default is 100+i.  Call values
   are pairwise distinct and distinct from defaults: positional j -> j, named j -> 10+j,
   *seq element j -> 20+j, **map entry j -> 30+j.
   Names used by keywords range over the parameter names of the signature (so: names of
   positional-only parameters, of *args and **kwargs too, names already filled positionally,
   names given both by name=value and in **map) and the non-parameter names in Extra.

   Modes (constant Mode):
     "bind"  -- Init enumerates SigSet x CallSet(sig), restricted to the slice
                (Key mod NParts = Part) so that several TLC processes share the work;
     "sim"   -- a state machine that GROWS a signature and a call one element per step
                (for `-simulate`: every behaviour is one random, larger case; Finish prints it);
     "hostdup" -- calls that only a host can issue (Evaluator::eval_function takes the named
                arguments as a slice): the same name given twice by name=value.  Source code
                cannot say that (CallTokensOK), the binding rules reject it ("repeated", rule 4),
                whatever the callee is;
     "sigtok"/"calltok" -- token sequences of parameter lists / argument lists with the static
                verdict of SigTokensOK / CallTokensOK.                                       *)
EXTENDS ArgBind, TLC, Json

CONSTANTS Mode,
          MinParams, MaxParams, MaxPos, MaxNamed, MaxStar, MaxStarStar,
          MaxTotal,          \* bound on the total number of argument values in a call
          NExtra,            \* how many non-parameter names keywords may use (0..2)
          NParts, Part,
          MaxTok             \* length bound for the token modes

VARIABLES sig, call, phase

vars == <<sig, call, phase>>

Names == <<"a", "b", "c", "d", "e", "f", "g", "h">>
ExtraNames == SubSeq(<<"z", "y">>, 1, NExtra)

Range(s) == {s[i] : i \in DOMAIN s}

(* ---- signatures ---- *)
MkParam(i, kind, hasD) == [name |-> Names[i], kind |-> kind, hasDefault |-> hasD, default |-> 100 + i]

KindSeqs(n) == {ks \in [1..n -> Kinds] :
                  /\ \A i \in 1..(n-1) : Rank(ks[i]) <= Rank(ks[i+1])
                  /\ \A i \in 1..(n-1) : ks[i] \in {"args", "kwargs"} => ks[i+1] # ks[i]}

SigsOfLen(n) == {s \in {[i \in 1..n |-> MkParam(i, ks[i], ds[i])] : ks \in KindSeqs(n), ds \in [1..n -> BOOLEAN]} :
                    WellFormedSig(s)}

SigSet == UNION {SigsOfLen(n) : n \in MinParams..MaxParams}

(* ---- calls ---- *)
InjSeqs(S, m) == UNION {{s \in [1..k -> S] : \A i, j \in 1..k : i # j => s[i] # s[j]} : k \in 0..m}

Pool(s) == {s[i].name : i \in 1..Len(s)} \cup Range(ExtraNames)

MkCall(np, nm, st, ss) ==
    [pos |-> [j \in 1..np |-> j],
     named |-> [j \in 1..Len(nm) |-> [name |-> nm[j], v |-> 10 + j]],
     hasStar |-> st > 0,
     star |-> [j \in 1..(st - 1) |-> 20 + j],              \* st = 0: no *seq; st = k+1: *seq of length k
     hasStarStar |-> ss[1] > 0,
     starstar |-> [j \in 1..Len(ss[2]) |-> [name |-> ss[2][j], v |-> 30 + j]]]

SigHash(s) == LET RECURSIVE H(_)
                  H(i) == IF i > Len(s) THEN Len(s)
                          ELSE Rank(s[i].kind) * (2 * i + 1) + (IF s[i].hasDefault THEN i * i + 1 ELSE 0) + H(i + 1)
              IN H(1)

StarLen(st) == IF st > 0 THEN st - 1 ELSE 0

(* ---- output ---- *)
OutVal(x) == CASE x.t = "int" -> <<"i", x.v>>
               [] x.t = "tuple" -> <<"t", x.items>>
               [] OTHER -> <<"d", x.keys, x.vals>>
OutSig(s) == [i \in 1..Len(s) |-> <<s[i].name, s[i].kind, IF s[i].hasDefault THEN s[i].default ELSE 0>>]
OutKw(k) == [j \in 1..Len(k) |-> <<k[j].name, k[j].v>>]
OutCall(c) == [p |-> c.pos, n |-> OutKw(c.named),
               hs |-> IF c.hasStar THEN 1 ELSE 0, s |-> c.star,
               hm |-> IF c.hasStarStar THEN 1 ELSE 0, m |-> OutKw(c.starstar)]
OutCaseR(s, c, r) ==
    [sig |-> OutSig(s), call |-> OutCall(c),
     ok |-> IF r.ok THEN 1 ELSE 0, err |-> r.err, dflt |-> r.defaults,
     vals |-> [i \in 1..Len(r.vals) |-> OutVal(r.vals[i])]]

OutCase(s, c) == OutCaseR(s, c, Bind(s, c))

EmptyCall == MkCall(0, <<>>, 0, <<0, <<>> >>)

(* ---- mode "bind": exhaustive ---- *)
(* Nested quantifiers rather than one big set: TLC enumerates them lazily, and the budget
   MaxTotal and the slice (h + 3*np + 7*st) mod NParts = Part prune from the outside in. *)
BindInit ==
    /\ phase = "done"
    /\ sig \in SigSet
    /\ LET pool == Pool(sig)
           h == SigHash(sig)
           mx == IF MaxNamed > MaxStarStar THEN MaxNamed ELSE MaxStarStar
           seqs == [k \in 0..mx |-> InjSeqs(pool, k)]
       IN \E np \in 0..Min(MaxPos, MaxTotal) :
          \E st \in {x \in 0..(MaxStar + 1) : StarLen(x) <= MaxTotal - np /\ (h + 3 * np + 7 * x) % NParts = Part} :
          \E nm \in seqs[Min(MaxNamed, MaxTotal - np - StarLen(st))] :
          \E ss \in {<<0, <<>> >>} \cup {<<1, m>> : m \in seqs[Min(MaxStarStar, MaxTotal - np - StarLen(st) - Len(nm))]} :
             call = MkCall(np, nm, st, ss)

(* ---- mode "hostdup": named arguments with a repeated name, no *seq / **map ---- *)
DupSeqs(S, m) == UNION {{s \in [1..k -> S] : \E i, j \in 1..k : i # j /\ s[i] = s[j]} : k \in 2..m}
DupInit ==
    /\ phase = "done"
    /\ sig \in SigSet
    /\ \E np \in 0..MaxPos : \E nm \in DupSeqs(Pool(sig), MaxNamed) :
          /\ (SigHash(sig) + 3 * np) % NParts = Part
          /\ call = MkCall(np, nm, 0, <<0, <<>> >>)

(* ---- mode "sim": grow one case per behaviour ---- *)
SimInit == /\ phase = "sig" /\ sig = <<>> /\ call = EmptyCall

AddParam == /\ phase = "sig" /\ Len(sig) < MaxParams
            /\ \E k \in Kinds, d \in BOOLEAN :
                 LET s2 == Append(sig, MkParam(Len(sig) + 1, k, d)) IN
                 /\ WellFormedSig(s2)
                 /\ sig' = s2
            /\ UNCHANGED <<call, phase>>
EndSig == /\ phase = "sig" /\ phase' = "pos" /\ UNCHANGED <<sig, call>>

AddPos == /\ phase = "pos" /\ Len(call.pos) < MaxPos
          /\ call' = [call EXCEPT !.pos = Append(@, Len(@) + 1)]
          /\ UNCHANGED <<sig, phase>>
EndPos == /\ phase = "pos" /\ phase' = "named" /\ UNCHANGED <<sig, call>>

AddNamed == /\ phase = "named" /\ Len(call.named) < MaxNamed
            /\ \E nm \in Pool(sig) :
                 /\ \A j \in 1..Len(call.named) : call.named[j].name # nm
                 /\ call' = [call EXCEPT !.named = Append(@, [name |-> nm, v |-> 11 + Len(@)])]
            /\ UNCHANGED <<sig, phase>>
EndNamed == /\ phase = "named" /\ phase' = "star" /\ UNCHANGED <<sig, call>>

ChooseStar == /\ phase = "star"
              /\ \E st \in 0..(MaxStar + 1) :
                   call' = [call EXCEPT !.hasStar = st > 0, !.star = [j \in 1..(st - 1) |-> 20 + j]]
              /\ phase' = "mapq" /\ UNCHANGED sig
ChooseMap == /\ phase = "mapq"
             /\ \E b \in BOOLEAN : /\ call' = [call EXCEPT !.hasStarStar = b]
                                   /\ phase' = IF b THEN "map" ELSE "finish"
             /\ UNCHANGED sig
AddMap == /\ phase = "map" /\ Len(call.starstar) < MaxStarStar
          /\ \E nm \in Pool(sig) :
               /\ \A j \in 1..Len(call.starstar) : call.starstar[j].name # nm
               /\ call' = [call EXCEPT !.starstar = Append(@, [name |-> nm, v |-> 31 + Len(@)])]
          /\ UNCHANGED <<sig, phase>>
EndMap == /\ phase = "map" /\ phase' = "finish" /\ UNCHANGED <<sig, call>>

Finish == /\ phase = "finish" /\ phase' = "done"
          /\ PrintT(<<"CASE", ToJson(OutCase(sig, call))>>)
          /\ UNCHANGED <<sig, call>>

SimNext == AddParam \/ EndSig \/ AddPos \/ EndPos \/ AddNamed \/ EndNamed
           \/ ChooseStar \/ ChooseMap \/ AddMap \/ EndMap \/ Finish

(* ---- token modes: sig = token sequence, call unused ---- *)
SigToks == {"p", "d", "/", "*", "*a", "**k"}
CallToks == {"v", "n1", "n2", "*s", "**m"}
TokSeqs(S) == UNION {[1..k -> S] : k \in 0..MaxTok}
TokInit == /\ phase = "done" /\ call = EmptyCall
           /\ sig \in TokSeqs(IF Mode = "sigtok" THEN SigToks ELSE CallToks)

(* ---- assembly ---- *)
Init == CASE Mode = "bind" -> BindInit
          [] Mode = "hostdup" -> DupInit
          [] Mode = "sim" -> SimInit
          [] OTHER -> TokInit
Next == Mode = "sim" /\ SimNext
Spec == Init /\ [][Next]_vars

(* One invariant does everything for a finished case, so that Bind is evaluated once:
   print the case with its expected outcome (G) and check the properties of Bind itself (M). *)
Emit == CASE Mode \in {"bind", "hostdup"} -> (LET r == Bind(sig, call) IN
                                 /\ (Mode = "hostdup" => ~r.ok)
                                 /\ PrintT(<<"CASE", ToJson(OutCaseR(sig, call, r))>>)
                                 /\ ConservationOf(sig, call, r)
                                 /\ ShapeOf(sig, call, r))
          [] Mode = "sim" -> (phase = "done" => (Conservation(sig, call) /\ Shape(sig, call)))
          [] Mode = "sigtok" -> PrintT(<<"TOK", ToJson([toks |-> sig, ok |-> IF SigTokensOK(sig) THEN 1 ELSE 0])>>)
          [] OTHER -> PrintT(<<"TOK", ToJson([toks |-> sig, ok |-> IF CallTokensOK(sig) THEN 1 ELSE 0])>>)

(* the token form and the parameter-sequence form of signature well-formedness agree:
   rendering a well-formed parameter sequence gives accepted tokens *)
RECURSIVE Render(_, _)
Render(s, i) ==
    IF i > Len(s) THEN <<>>
    ELSE LET tok == CASE s[i].kind = "args" -> <<"*a">>
                      [] s[i].kind = "kwargs" -> <<"**k">>
                      [] OTHER -> (IF s[i].hasDefault THEN <<"d">> ELSE <<"p">>)
             slash == IF s[i].kind = "posonly" /\ (i = Len(s) \/ s[i+1].kind # "posonly") THEN <<"/">> ELSE <<>>
             star == IF s[i].kind = "kwonly" /\ (i = 1 \/ s[i-1].kind \notin {"kwonly", "args"}) THEN <<"*">> ELSE <<>>
         IN star \o tok \o slash \o Render(s, i + 1)
RenderOK == (Mode \in {"bind", "sim", "hostdup"} /\ phase \in {"finish", "done"}) => SigTokensOK(Render(sig, 1))
=============================================================================

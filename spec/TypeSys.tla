------------------------------ MODULE TypeSys ------------------------------
(* C17.  A small monomorphic type system for the Starlark core, used
     (a) to GENERATE modules that are well typed by construction (type-directed: pick a type,
         then an expression of that type), every node annotated with its type;
     (b) to CHECK, declaratively, that what was generated is well typed (WT / ModuleWT: the
         typing judgement, written syntax-directed from the language definition; TLC checks it
         as an invariant over every generated module, and checks its negation for the
         ill-typed mutants);
     (c) to state soundness: Matches(ty, v) -- the value v (a tagged structural encoding)
         belongs to the type ty -- used by Trace_TypeSys on what the real checker committed to.

   Everything has ONE shape so that TLC may compare/normalise freely:
     type        [t |-> tag, a |-> <<component types>>]
     value       [t |-> tag, a |-> <<component values>>]          (dict: sequence of 2-tuples)
     expression  [k |-> kind, s |-> string, n |-> int, a |-> <<children>>, ty |-> type, r |-> rule]
     statement   [k, s, e |-> <<exprs>>, b |-> <<stmts>>, c |-> <<stmts>>]
*)
EXTENDS Naturals, Integers, Sequences, FiniteSets, TLC, SequencesExt

----------------------------------------------------------------------------
(* Types *)
Ty(t, a)   == [t |-> t, a |-> a \o <<>>]
IntT       == Ty("int", <<>>)
StrT       == Ty("str", <<>>)
BoolT      == Ty("bool", <<>>)
NoneT      == Ty("none", <<>>)
AnyT       == Ty("any", <<>>)
RangeT     == Ty("range", <<>>)          \* only ever an iterable
ListT(e)   == Ty("list", <<e>>)
DictT(k,v) == Ty("dict", <<k, v>>)
TupT(es)   == Ty("tuple", es)
OptT(e)    == Ty("opt", <<e>>)           \* None | e
FnT(ps, r) == Ty("fn", Append(ps, r))
\* leaf classes: argument positions that only take particular leaves (run-time safety, not typing)
NZ         == Ty("nz", <<>>)             \* an int that is not 0 (divisors)
Idx        == Ty("idx", <<>>)            \* an int that is a valid index into every canonical sequence
NumStr     == Ty("numstr", <<>>)         \* a str literal that int() accepts
Fmt1       == Ty("fmt1", <<>>)           \* a str literal with one {} / two {}
Fmt2       == Ty("fmt2", <<>>)
Lit0       == Ty("lit0", <<>>)           \* the literal 0 / 1 (constant tuple index)
Lit1       == Ty("lit1", <<>>)
Lit2       == Ty("lit2", <<>>)
Fresh(t)   == Ty("fresh", <<t>>)         \* a list that is a fresh temporary (may be mutated)
Strict(t)  == Ty("strict", <<t>>)        \* an expression whose OWN type is t (no subsumption): the operand of
                                         \* `== None`; comparing a non-optional with None is (rightly) reported
                                         \* by the checker as a comparison that can never hold

TSI == TupT(<<StrT, IntT>>)
TIS == TupT(<<IntT, StrT>>)
ElemTs == {IntT, StrT, BoolT, ListT(IntT), TSI, OptT(IntT)}
ListTs == {ListT(e) : e \in ElemTs}
DictTs == {DictT(StrT, IntT), DictT(IntT, StrT), DictT(StrT, ListT(IntT))}
\* arity 3, the first two components of one type and the third of another: the element type of such
\* a tuple is a union whose first two alternatives coincide
TIIS == TupT(<<IntT, IntT, StrT>>)
TSSI == TupT(<<StrT, StrT, IntT>>)
TupTs  == {TSI, TIS, TIIS, TSSI}
OptTs  == {OptT(IntT), OptT(StrT), OptT(ListT(IntT))}
U      == {IntT, StrT, BoolT, NoneT} \cup ListTs \cup DictTs \cup TupTs \cup OptTs
InU(t) == t \in U

Base(t) == CASE t.t \in {"nz", "idx", "lit0", "lit1", "lit2"} -> IntT
             [] t.t \in {"numstr", "fmt1", "fmt2"} -> StrT
             [] t.t \in {"fresh", "strict"} -> t.a[1]
             [] OTHER -> t
IsLeafClass(t) == t.t \in {"nz", "idx", "numstr", "fmt1", "fmt2", "lit0", "lit1", "lit2"}

\* subsumption: the only non-trivial cases are into None | e
Sub(act, req) == \/ act = req
                 \/ req.t = "opt" /\ (act = req.a[1] \/ act = NoneT)

RECURSIVE Code(_)
Code(t) == CASE t.t = "int" -> "i" [] t.t = "str" -> "s" [] t.t = "bool" -> "b" [] t.t = "none" -> "n"
             [] t.t = "list" -> "l" \o Code(t.a[1])
             [] t.t = "dict" -> "d" \o Code(t.a[1]) \o Code(t.a[2])
             [] t.t = "tuple" -> (IF Len(t.a) = 2 THEN "t" \o Code(t.a[1]) \o Code(t.a[2])
                                  ELSE "T" \o Code(t.a[1]) \o Code(t.a[2]) \o Code(t.a[3]))
             [] t.t = "opt" -> "o" \o Code(t.a[1])
             [] OTHER -> "x"

----------------------------------------------------------------------------
(* TypeMatch: does the (encoded) value belong to the type?  docs/types.md:
   int/str/bool: "the values produced by the respective functions"; None: the value None;
   list[T]: a list whose elements are T; dict[K,V]; (T1,..,Tn): a tuple of that arity with those
   components; tuple[T, ...]: any arity; A | B: either; typing.Any: anything; Never: nothing;
   a function type / Callable: something callable. *)
RECURSIVE Matches(_, _)
Matches(ty, v) ==
    CASE ty.t = "any"     -> TRUE
      [] ty.t = "never"   -> FALSE
      [] ty.t \in {"int", "str", "bool", "none", "float"} -> (v.t = ty.t)
      [] ty.t = "list"    -> (v.t = "list" /\ \A i \in 1..Len(v.a) : Matches(ty.a[1], v.a[i]))
      [] ty.t = "dict"    -> (v.t = "dict" /\ \A i \in 1..Len(v.a) :
                                  Matches(ty.a[1], v.a[i].a[1]) /\ Matches(ty.a[2], v.a[i].a[2]))
      [] ty.t = "tuple"   -> (v.t = "tuple" /\ Len(v.a) = Len(ty.a)
                                  /\ \A i \in 1..Len(v.a) : Matches(ty.a[i], v.a[i]))
      [] ty.t = "tupleof" -> (v.t = "tuple" /\ \A i \in 1..Len(v.a) : Matches(ty.a[1], v.a[i]))
      [] ty.t = "opt"     -> (v.t = "none" \/ Matches(ty.a[1], v))
      [] ty.t = "union"   -> (\E i \in 1..Len(ty.a) : Matches(ty.a[i], v))
      [] ty.t = "fn"      -> (v.t = "fn")
      [] OTHER            -> FALSE

\* a type the trace checker can judge (everything else is "unknown": skipped and counted)
RECURSIVE Judgeable(_)
Judgeable(ty) == /\ ty.t \in {"any", "never", "int", "str", "bool", "none", "float", "list", "dict",
                              "tuple", "tupleof", "opt", "union", "fn"}
                 /\ (ty.t # "fn" => \A i \in 1..Len(ty.a) : Judgeable(ty.a[i]))

----------------------------------------------------------------------------
(* Expressions *)
\* (sequences built by [i \in 1..n |-> ..] are lazy in TLC and would be re-evaluated at every access:
\*  `\o <<>>` makes them concrete once, when the node is built)
Ex(k, s, n, a, ty, r) == [k |-> k, s |-> s, n |-> n, a |-> a \o <<>>, ty |-> ty, r |-> r]
Var(name, ty) == Ex("var", name, 0, <<>>, ty, "var")      \* a local / loop variable / binder
IntLit(n)     == Ex("int", "", n, <<>>, IntT, "lit")
StrLit(s)     == Ex("str", s, 0, <<>>, StrT, "lit")
BoolLit(b)    == Ex("bool", "", IF b THEN 1 ELSE 0, <<>>, BoolT, "lit")
NoneLit       == Ex("none", "", 0, <<>>, NoneT, "lit")

VarName(t, j) == Code(t) \o (IF j = 1 THEN "1" ELSE "2")
PVar(t, j)    == Ex("var", VarName(t, j), 1, <<>>, t, "var")   \* n = 1: a parameter (or module global)

(* Canonical run-time values (as literal expressions) of the parameters named VarName(t, j);
   chosen so that the generated operations do not fail at run time: ints 1/2, every list has
   at least 3 elements and contains the scalar parameters, dict keys are the scalar parameters *)
RECURSIVE ArgLit(_, _)
ArgLit(t, j) ==
    CASE t = IntT  -> IntLit(j)
      [] t = StrT  -> StrLit(IF j = 1 THEN "ab" ELSE "c")
      [] t = BoolT -> BoolLit(j = 1)
      [] t = NoneT -> NoneLit
      [] t.t = "opt"   -> (IF j = 1 THEN ArgLit(t.a[1], 1) ELSE NoneLit)
      [] t.t = "list"  -> Ex("list", "", 0, IF j = 1
                                 THEN <<ArgLit(t.a[1], 1), ArgLit(t.a[1], 2), ArgLit(t.a[1], 1)>>
                                 ELSE <<ArgLit(t.a[1], 2), ArgLit(t.a[1], 1), ArgLit(t.a[1], 2), ArgLit(t.a[1], 2)>>,
                              t, "lit")
      [] t.t = "tuple" -> Ex("tuple", "", 0, [i \in 1..Len(t.a) |-> ArgLit(t.a[i], j)], t, "lit")
      [] t.t = "dict"  -> Ex("dict", "", 0, <<ArgLit(t.a[1], 1), ArgLit(t.a[2], j),
                                               ArgLit(t.a[1], 2), ArgLit(t.a[2], 3 - j)>>, t, "lit")
      [] OTHER -> NoneLit

(* Leaves(t): the depth-0 expressions of (leaf class or) type t, in canonical order *)
Leaves(t) ==
    CASE t = IntT   -> <<PVar(IntT, 1), PVar(IntT, 2), IntLit(3)>>
      [] t = NZ     -> <<IntLit(2), PVar(IntT, 2), IntLit(7)>>
      [] t = Idx    -> <<IntLit(0), PVar(IntT, 1), IntLit(-1)>>
      [] t = Lit0   -> <<IntLit(0)>>
      [] t = Lit1   -> <<IntLit(1)>>
      [] t = Lit2   -> <<IntLit(2)>>
      [] t = StrT   -> <<PVar(StrT, 1), PVar(StrT, 2), StrLit("a b")>>
      [] t = NumStr -> <<StrLit("12")>>
      [] t = Fmt1   -> <<StrLit("<{}>")>>
      [] t = Fmt2   -> <<StrLit("{}:{}")>>
      [] t = BoolT  -> <<PVar(BoolT, 1), PVar(BoolT, 2), BoolLit(TRUE)>>
      [] t = NoneT  -> <<NoneLit>>
      [] t = RangeT -> <<Ex("call", "range", 0, <<IntLit(3)>>, RangeT, "range")>>
      [] t.t = "opt"   -> <<PVar(t, 1), PVar(t, 2)>>    \* (own type optional: subsumption only where a rule says so)
      [] t.t = "fresh" -> <<ArgLit(t.a[1], 1)>>
      [] t.t = "strict" -> <<PVar(t.a[1], 1)>>
      [] OTHER         -> <<PVar(t, 1), PVar(t, 2)>>
Leaf(t, j) == LET L == Leaves(t) IN L[((j - 1) % Len(L)) + 1]

----------------------------------------------------------------------------
(* Signatures: the language-defined typing of every operator, builtin and method, instantiated
   over the universe U.  k/s select the concrete syntax (rendered by the driver), args are
   types or leaf classes, res the result type, r the rule name used to classify findings,
   f: the result is a fresh list. *)
Sg(k, s, args, res, r, f) == [k |-> k, s |-> s, args |-> args \o <<>>, res |-> res, r |-> r, f |-> f]

CmpEqTs  == {IntT, StrT, BoolT, ListT(IntT), TSI, DictT(StrT, IntT), ListT(StrT)}
CmpOrdTs == {IntT, StrT, ListT(IntT), TSI}
StrOfTs  == {IntT, StrT, BoolT, NoneT, ListT(IntT), DictT(StrT, IntT), TSI, OptT(IntT), ListT(StrT)}
SortTs   == {IntT, StrT, BoolT, ListT(IntT), TSI}
IfTs     == U

SigsArith ==
    {Sg("bin", op, <<IntT, IntT>>, IntT, "int" \o op \o "int", FALSE) : op \in {"+", "-", "*", "&", "|", "^"}}
    \cup {Sg("bin", op, <<IntT, NZ>>, IntT, "int" \o op \o "int", FALSE) : op \in {"//", "%"}}
    \cup {Sg("un", "-", <<IntT>>, IntT, "-int", FALSE)}
    \cup {Sg("bin", "+", <<StrT, StrT>>, StrT, "str+str", FALSE),
          Sg("bin", "*", <<StrT, IntT>>, StrT, "str*int", FALSE),
          Sg("bin", "*", <<IntT, StrT>>, StrT, "int*str", FALSE)}
    \cup {Sg("bin", "+", <<l, l>>, l, "list+list", TRUE) : l \in ListTs}
    \cup {Sg("bin", "*", <<l, IntT>>, l, "list*int", TRUE) : l \in ListTs}
    \cup {Sg("bin", "*", <<IntT, l>>, l, "int*list", TRUE) : l \in ListTs}
    \cup {Sg("bin", "|", <<d, d>>, d, "dict|dict", FALSE) : d \in DictTs}

SigsCmp ==
    {Sg("bin", op, <<t, t>>, BoolT, "eq:" \o t.t, FALSE) : op \in {"==", "!="}, t \in CmpEqTs}
    \cup {Sg("bin", op, <<Strict(o), NoneT>>, BoolT, "eq:opt-none", FALSE) : op \in {"==", "!="}, o \in OptTs}
    \cup {Sg("bin", op, <<t, t>>, BoolT, "ord:" \o t.t, FALSE) : op \in {"<", "<=", ">", ">="}, t \in CmpOrdTs}
    \cup {Sg("bin", op, <<l.a[1], l>>, BoolT, "in:list", FALSE) : op \in {"in", "not in"}, l \in ListTs}
    \cup {Sg("bin", op, <<d.a[1], d>>, BoolT, "in:dict", FALSE) : op \in {"in", "not in"}, d \in DictTs}
    \cup {Sg("bin", op, <<StrT, StrT>>, BoolT, "in:str", FALSE) : op \in {"in", "not in"}}

SigsLogic ==
    {Sg("bin", op, <<t, t>>, t, "andor:" \o t.t, FALSE) : op \in {"and", "or"}, t \in {BoolT, IntT, StrT, ListT(IntT)}}
    \cup {Sg("un", "not", <<t>>, BoolT, "not:" \o t.t, FALSE) : t \in {BoolT, IntT, StrT, ListT(IntT), DictT(StrT, IntT), OptT(IntT)}}
    \cup {Sg("if", "", <<BoolT, t, t>>, t, "ifexp", FALSE) : t \in IfTs}
    \cup {Sg("if", "", <<BoolT, o.a[1], NoneT>>, o, "ifexp", FALSE) : o \in OptTs}
    \cup {Sg("if", "", <<BoolT, NoneT, o.a[1]>>, o, "ifexp", FALSE) : o \in OptTs}

SigsBuiltin ==
    {Sg("call", "len", <<t>>, IntT, "len", FALSE) : t \in {StrT, RangeT} \cup ListTs \cup DictTs \cup TupTs}
    \cup {Sg("call", "str", <<t>>, StrT, "str", FALSE) : t \in StrOfTs}
    \cup {Sg("call", "repr", <<t>>, StrT, "repr", FALSE) : t \in {IntT, StrT, ListT(IntT)}}
    \cup {Sg("call", "type", <<t>>, StrT, "type", FALSE) : t \in {IntT, StrT, ListT(IntT)}}
    \cup {Sg("call", "int", <<t>>, IntT, "int", FALSE) : t \in {IntT, BoolT, NumStr}}
    \cup {Sg("call", "bool", <<t>>, BoolT, "bool", FALSE) : t \in StrOfTs}
    \cup {Sg("call", "abs", <<IntT>>, IntT, "abs", FALSE),
          Sg("call", "min", <<ListT(IntT)>>, IntT, "min", FALSE),
          Sg("call", "max", <<ListT(IntT)>>, IntT, "max", FALSE),
          Sg("call", "min", <<IntT, IntT>>, IntT, "min", FALSE),
          Sg("call", "max", <<StrT, StrT>>, StrT, "max", FALSE),
          Sg("call", "any", <<ListT(BoolT)>>, BoolT, "any", FALSE),
          Sg("call", "all", <<ListT(BoolT)>>, BoolT, "all", FALSE),
          Sg("call", "hash", <<StrT>>, IntT, "hash", FALSE),
          Sg("call", "range", <<IntT>>, RangeT, "range", FALSE),
          Sg("call", "range", <<IntT, IntT>>, RangeT, "range", FALSE),
          Sg("call", "list", <<RangeT>>, ListT(IntT), "list()", TRUE),
          Sg("call", "zip", <<ListT(StrT), ListT(IntT)>>, ListT(TSI), "zip", TRUE),
          Sg("call", "dict", <<ListT(TSI)>>, DictT(StrT, IntT), "dict()", FALSE)}
    \cup {Sg("call", "sorted", <<ListT(t)>>, ListT(t), "sorted", TRUE) : t \in SortTs}
    \cup {Sg("call", "reversed", <<l>>, l, "reversed", TRUE) : l \in ListTs}
    \cup {Sg("call", "list", <<l>>, l, "list()", TRUE) : l \in ListTs}
    \cup {Sg("call", "list", <<d>>, ListT(d.a[1]), "list()", TRUE) : d \in DictTs}

SigsStr ==
    {Sg("meth", "split", <<StrT, StrT>>, ListT(StrT), "str.split", TRUE),
     Sg("meth", "split", <<StrT>>, ListT(StrT), "str.split", TRUE),
     Sg("meth", "splitlines", <<StrT>>, ListT(StrT), "str.splitlines", TRUE),
     Sg("meth", "join", <<StrT, ListT(StrT)>>, StrT, "str.join", FALSE),
     Sg("meth", "format", <<Fmt2, IntT, StrT>>, StrT, "str.format", FALSE),
     Sg("meth", "replace", <<StrT, StrT, StrT>>, StrT, "str.replace", FALSE),
     Sg("index", "", <<StrT, Lit0>>, StrT, "index:str", FALSE),
     Sg("slice", "lo:hi", <<StrT, IntT, IntT>>, StrT, "slice:str", FALSE),
     Sg("slice", "lo:", <<StrT, IntT>>, StrT, "slice:str", FALSE)}
    \cup {Sg("meth", m, <<StrT>>, StrT, "str." \o m, FALSE) : m \in {"strip", "lstrip", "rstrip", "upper", "lower", "capitalize", "title"}}
    \cup {Sg("meth", m, <<StrT, StrT>>, BoolT, "str." \o m, FALSE) : m \in {"startswith", "endswith"}}
    \cup {Sg("meth", m, <<StrT, StrT>>, IntT, "str." \o m, FALSE) : m \in {"find", "rfind", "count"}}
    \cup {Sg("meth", m, <<StrT, StrT>>, StrT, "str." \o m, FALSE) : m \in {"removeprefix", "removesuffix"}}
    \cup {Sg("meth", m, <<StrT>>, BoolT, "str." \o m, FALSE) : m \in {"isdigit", "isalpha"}}
    \cup {Sg("meth", "format", <<Fmt1, t>>, StrT, "str.format", FALSE) : t \in {IntT, StrT, ListT(IntT), BoolT}}

SigsList ==
    {Sg("index", "", <<l, Idx>>, l.a[1], "index:list", FALSE) : l \in ListTs}
    \cup {Sg("slice", "lo:hi", <<l, IntT, IntT>>, l, "slice:list", TRUE) : l \in ListTs}
    \cup {Sg("slice", "lo:", <<l, IntT>>, l, "slice:list", TRUE) : l \in ListTs}
    \cup {Sg("slice", ":hi", <<l, IntT>>, l, "slice:list", TRUE) : l \in ListTs}
    \cup {Sg("slice", "::st", <<l, NZ>>, l, "slice:list", TRUE) : l \in ListTs}
    \cup {Sg("meth", "index", <<l, l.a[1]>>, IntT, "list.index", FALSE) : l \in ListTs \ {ListT(OptT(IntT))}}
    \cup {Sg("meth", "pop", <<Fresh(l)>>, l.a[1], "list.pop", FALSE) : l \in ListTs}
    \cup {Sg("meth", "pop", <<Fresh(l), Lit0>>, l.a[1], "list.pop", FALSE) : l \in ListTs}
    \cup {Sg("meth", "append", <<Fresh(l), l.a[1]>>, NoneT, "list.append", FALSE) : l \in ListTs}
    \cup {Sg("list", "", <<>>, l, "listlit", TRUE) : l \in ListTs}
    \cup {Sg("list", "", <<l.a[1]>>, l, "listlit", TRUE) : l \in ListTs}
    \cup {Sg("list", "", <<l.a[1], l.a[1]>>, l, "listlit", TRUE) : l \in ListTs}
    \cup {Sg("list", "", <<IntT, NoneT>>, ListT(OptT(IntT)), "listlit", TRUE),
          Sg("list", "", <<NoneT, IntT, OptT(IntT)>>, ListT(OptT(IntT)), "listlit", TRUE)}

SigsDictTup ==
    {Sg("index", "", <<d, d.a[1]>>, d.a[2], "index:dict", FALSE) : d \in DictTs}
    \cup {Sg("meth", "get", <<d, d.a[1]>>, OptT(d.a[2]), "dict.get", FALSE) : d \in DictTs}
    \cup {Sg("meth", "get", <<d, d.a[1], d.a[2]>>, d.a[2], "dict.get3", FALSE) : d \in DictTs}
    \cup {Sg("meth", "keys", <<d>>, ListT(d.a[1]), "dict.keys", TRUE) : d \in DictTs}
    \cup {Sg("meth", "values", <<d>>, ListT(d.a[2]), "dict.values", TRUE) : d \in DictTs}
    \cup {Sg("meth", "items", <<DictT(StrT, IntT)>>, ListT(TSI), "dict.items", TRUE)}
    \cup {Sg("dict", "", <<>>, d, "dictlit", FALSE) : d \in DictTs}
    \cup {Sg("dict", "", <<d.a[1], d.a[2]>>, d, "dictlit", FALSE) : d \in DictTs}
    \cup {Sg("tuple", "", t.a, t, "tuplit", FALSE) : t \in TupTs}
    \cup {Sg("index", "", <<t, Lit0>>, t.a[1], "index:tuple", FALSE) : t \in TupTs}
    \cup {Sg("index", "", <<t, Lit1>>, t.a[2], "index:tuple", FALSE) : t \in TupTs}
    \cup {Sg("index", "", <<t, Lit2>>, t.a[3], "index:tuple", FALSE) : t \in {x \in TupTs : Len(x.a) >= 3}}

(* Helper defs present in every module (the "calls of annotated / unannotated defs" part).
   ann: which parameters / result carry an annotation in the source. *)
Param(n, t) == [name |-> n, ty |-> t]
Helpers == <<
    [name |-> "h_add",  ps |-> <<Param("a", IntT), Param("b", IntT)>>, ret |-> IntT, ann |-> "all", tpl |-> "add"],
    [name |-> "h_rep",  ps |-> <<Param("a", StrT), Param("b", IntT)>>, ret |-> ListT(StrT), ann |-> "all", tpl |-> "rep"],
    [name |-> "h_get",  ps |-> <<Param("d", DictT(StrT, IntT)), Param("k", StrT)>>, ret |-> OptT(IntT), ann |-> "all", tpl |-> "get"],
    [name |-> "h_pair", ps |-> <<Param("a", StrT), Param("b", IntT)>>, ret |-> TSI, ann |-> "all", tpl |-> "pair"],
    [name |-> "u_add",  ps |-> <<Param("a", IntT), Param("b", IntT)>>, ret |-> IntT, ann |-> "none", tpl |-> "add"],
    [name |-> "u_head", ps |-> <<Param("a", ListT(IntT))>>, ret |-> IntT, ann |-> "none", tpl |-> "head"],
    [name |-> "p_cat",  ps |-> <<Param("a", StrT), Param("b", StrT)>>, ret |-> StrT, ann |-> "params", tpl |-> "add"],
    [name |-> "q_inc",  ps |-> <<Param("a", IntT), Param("b", IntT)>>, ret |-> IntT, ann |-> "default", tpl |-> "add"]>>
HelperIdx == 1..Len(Helpers)
SigsCall ==
    {Sg("fcall", Helpers[i].name, [j \in 1..Len(Helpers[i].ps) |-> Helpers[i].ps[j].ty], Helpers[i].ret,
        "call:" \o Helpers[i].ann, FALSE) : i \in HelperIdx}
    \cup {Sg("fcallkw", Helpers[i].name, [j \in 1..Len(Helpers[i].ps) |-> Helpers[i].ps[j].ty], Helpers[i].ret,
        "callkw:" \o Helpers[i].ann, FALSE) : i \in {1, 2, 5}}
    \cup {Sg("fcall", "q_inc", <<IntT>>, IntT, "call:default", FALSE)}

Sigs == SigsArith \cup SigsCmp \cup SigsLogic \cup SigsBuiltin \cup SigsStr \cup SigsList
        \cup SigsDictTup \cup SigsCall
SigSeq == SetToSeq(Sigs)
Rules == {s.r : s \in Sigs}

ArgTs == U \cup {NZ, Idx, NumStr, Fmt1, Fmt2, Lit0, Lit1, Lit2, RangeT} \cup {Fresh(l) : l \in ListTs}
         \cup {Strict(o) : o \in OptTs}
\* producers of a (base) type; of a fresh list
Producers == [t \in ArgTs |->
                IF IsLeafClass(t) THEN <<>>
                ELSE IF t.t = "fresh" THEN SelectSeq(SigSeq, LAMBDA s : s.res = t.a[1] /\ s.f)
                ELSE IF t.t = "strict" THEN SelectSeq(SigSeq, LAMBDA s : s.res = t.a[1])
                ELSE SelectSeq(SigSeq, LAMBDA s : s.res = t)]

App(s, ch) == Ex(s.k, s.s, 0, ch, s.res, s.r)

----------------------------------------------------------------------------
(* Generation, depth 1 and one-hole contexts *)
CanonArgs(s) == [j \in 1..Len(s.args) |-> Leaf(s.args[j], j)]
Gen1Of(t) == LET P == Producers[t] IN [i \in 1..Len(P) |-> App(P[i], CanonArgs(P[i]))] \o <<>>
Gen1 == [t \in ArgTs |-> Gen1Of(t)]

\* s applied to canonical leaves except position i, which holds e
AppWith(s, i, e) == App(s, [j \in 1..Len(s.args) |-> IF j = i THEN e ELSE Leaf(s.args[j], j)])
\* positions of s that accept an arbitrary expression of (base) type t
HolePos(s, t) == {i \in 1..Len(s.args) : s.args[i] = t \/ s.args[i] = Strict(t)}
\* all depth-1 contexts around a hole of type t: <<sig index, position>>
CtxOf(t) == SetToSeq({<<k, i>> \in (1..Len(SigSeq)) \X (1..4) : i \in HolePos(SigSeq[k], t)})
Ctx == [t \in U \cup {RangeT} |-> CtxOf(t)]
FreshCtxOf(l) == SetToSeq({<<k, i>> \in (1..Len(SigSeq)) \X (1..2) :
                              i <= Len(SigSeq[k].args) /\ SigSeq[k].args[i] = Fresh(l)})
FreshCtx == [l \in ListTs |-> FreshCtxOf(l)]
Plug(c, e) == AppWith(SigSeq[c[1]], c[2], e)

(* comprehensions: binder named "c" \o Code(elem type) *)
BinderOf(t) == Var("c" \o Code(t), t)
LoopVarOf(t) == Var("f" \o Code(t), t)
\* expressions of any type built from ONE use of the variable v (and canonical leaves)
BodiesOver(v) == LET C == Ctx[v.ty] IN <<v>> \o [i \in 1..Len(C) |-> Plug(C[i], v)]
LComp(body, binder, iter)        == Ex("lcomp", binder.s, 0, <<body, iter>>, ListT(body.ty), "lcomp")
LCompIf(body, binder, iter, c)   == Ex("lcomp", binder.s, 1, <<body, iter, c>>, ListT(body.ty), "lcomp-if")
DComp(k, v, binder, iter)        == Ex("dcomp", binder.s, 0, <<k, v, iter>>, DictT(k.ty, v.ty), "dcomp")
LComp2(body, iter)               == Ex("lcomp2", "cs,ci", 0, <<body, iter>>, ListT(body.ty), "lcomp-unpack")
ElemOfIter(t) == CASE t.t = "list" -> t.a[1] [] t.t = "dict" -> t.a[1] [] t.t = "range" -> IntT [] OTHER -> NoneT
IterTs == ListTs \cup DictTs \cup {RangeT}
IterLeaf(t) == IF t = RangeT THEN Ex("call", "range", 0, <<PVar(IntT, 1)>>, RangeT, "range") ELSE PVar(t, 1)
CompsOver(it) ==
    LET b == BinderOf(ElemOfIter(it))
        B == SelectSeq(BodiesOver(b), LAMBDA e : ListT(e.ty) \in ListTs) IN
    [i \in 1..Len(B) |-> IF i % 3 = 0 THEN LCompIf(B[i], b, IterLeaf(it), Leaf(BoolT, 1))
                         ELSE LComp(B[i], b, IterLeaf(it))]
AllComps == FlattenSeq([i \in 1..Len(SetToSeq(IterTs)) |-> CompsOver(SetToSeq(IterTs)[i])])
    \o << LComp2(Ex("bin", "*", 0, <<Var("cs", StrT), Var("ci", IntT)>>, StrT, "str*int"), PVar(ListT(TSI), 1)),
          LComp2(Var("ci", IntT), Ex("meth", "items", 0, <<PVar(DictT(StrT, IntT), 1)>>, ListT(TSI), "dict.items")),
          DComp(BinderOf(StrT), Ex("call", "len", 0, <<BinderOf(StrT)>>, IntT, "len"), BinderOf(StrT), PVar(ListT(StrT), 1)),
          DComp(BinderOf(IntT), Ex("call", "str", 0, <<BinderOf(IntT)>>, StrT, "str"), BinderOf(IntT), IterLeaf(RangeT)),
          DComp(BinderOf(StrT), Ex("index", "", 0, <<PVar(DictT(StrT, IntT), 1), BinderOf(StrT)>>, IntT, "index:dict"),
                BinderOf(StrT), PVar(DictT(StrT, IntT), 1)),
          LComp(Ex("meth", "get", 0, <<PVar(DictT(StrT, IntT), 1), BinderOf(StrT)>>, OptT(IntT), "dict.get"),
                BinderOf(StrT), PVar(ListT(StrT), 1)) >>

----------------------------------------------------------------------------
(* The typing judgement (declarative, syntax-directed).  G: sequence of [name, ty]. *)
Lookup(G, name, ty) == \E i \in 1..Len(G) : G[i].name = name /\ G[i].ty = ty
RECURSIVE WT(_, _)
WT(G, e) ==
    CASE e.k = "var"  -> Lookup(G, e.s, e.ty)
      [] e.k = "int"  -> (e.ty = IntT)
      [] e.k = "str"  -> (e.ty = StrT)
      [] e.k = "bool" -> (e.ty = BoolT)
      [] e.k = "none" -> (e.ty = NoneT)
      [] e.k = "lcomp" ->
            (LET it == e.a[2].ty  b == [name |-> e.s, ty |-> ElemOfIter(it)] IN
             /\ it \in IterTs /\ WT(G, e.a[2]) /\ WT(<<b>> \o G, e.a[1]) /\ e.ty = ListT(e.a[1].ty)
             /\ (e.n = 1 => (Len(e.a) = 3 /\ WT(<<b>> \o G, e.a[3]) /\ e.a[3].ty = BoolT)))
      [] e.k = "lcomp2" ->
            (LET G2 == <<[name |-> "cs", ty |-> StrT], [name |-> "ci", ty |-> IntT]>> \o G IN
             /\ e.a[2].ty = ListT(TSI) /\ WT(G, e.a[2]) /\ WT(G2, e.a[1]) /\ e.ty = ListT(e.a[1].ty))
      [] e.k = "dcomp" ->
            (LET it == e.a[3].ty  b == [name |-> e.s, ty |-> ElemOfIter(it)] IN
             /\ it \in IterTs /\ WT(G, e.a[3]) /\ WT(<<b>> \o G, e.a[1]) /\ WT(<<b>> \o G, e.a[2])
             /\ e.ty = DictT(e.a[1].ty, e.a[2].ty))
      [] e.k \in {"list", "dict", "tuple"} /\ e.r = "lit" ->    \* canonical literal values
            (/\ \A i \in 1..Len(e.a) : WT(G, e.a[i])
             /\ CASE e.k = "list"  -> (\A i \in 1..Len(e.a) : Sub(e.a[i].ty, e.ty.a[1]))
                  [] e.k = "tuple" -> (Len(e.a) = Len(e.ty.a) /\ \A i \in 1..Len(e.a) : e.a[i].ty = e.ty.a[i])
                  [] OTHER -> (\A i \in 1..Len(e.a) : Sub(e.a[i].ty, e.ty.a[2 - (i % 2)])))
      [] OTHER ->
            (/\ \A i \in 1..Len(e.a) : WT(G, e.a[i])
             /\ \E s \in Sigs : /\ s.k = e.k /\ s.s = e.s /\ s.res = e.ty /\ Len(s.args) = Len(e.a)
                                /\ \A i \in 1..Len(e.a) : IF s.args[i].t = "strict" THEN e.a[i].ty = s.args[i].a[1]
                                                           ELSE Sub(e.a[i].ty, Base(s.args[i])))

----------------------------------------------------------------------------
(* Statements and defs *)
St(k, s, o, e, b, c) == [k |-> k, s |-> s, o |-> o, e |-> e \o <<>>, b |-> b \o <<>>, c |-> c \o <<>>]
Ret(e)        == St("return", "", "", <<e>>, <<>>, <<>>)
Asg(n, e)     == St("assign", n, "", <<e>>, <<>>, <<>>)
Aug(n, op, e) == St("aug", n, op, <<e>>, <<>>, <<>>)
Unpack(e)     == St("unpack", "ua,ub", "", <<e>>, <<>>, <<>>)
If(c, b1, b2) == St("if", "", "", <<c>>, b1, b2)
For(v, it, b) == St("for", v.s, "", <<it>>, b, <<>>)
For2(it, b)   == St("for2", "fk,fv", "", <<it>>, b, <<>>)
Pass          == St("pass", "", "", <<>>, <<>>, <<>>)

Bind(G, name, ty) == <<[name |-> name, ty |-> ty]>> \o G
HasName(G, name) == \E i \in 1..Len(G) : G[i].name = name
\* environments after the two branches of an if: same names, types equal up to subsumption (join)
SameEnv(G1, G2) == Len(G1) = Len(G2) /\ \A i \in 1..Len(G1) :
                      G1[i].name = G2[i].name /\ (Sub(G1[i].ty, G2[i].ty) \/ Sub(G2[i].ty, G1[i].ty))
JoinEnv(G1, G2) == [i \in 1..Len(G1) |-> IF Sub(G1[i].ty, G2[i].ty) THEN G2[i] ELSE G1[i]] \o <<>>
AugOK(t, op, e) == \/ t = IntT /\ op \in {"+=", "-=", "*=", "//=", "%="} /\ e.ty = IntT
                   \/ t = StrT /\ op = "+=" /\ e.ty = StrT
                   \/ t = StrT /\ op = "*=" /\ e.ty = IntT
                   \/ t.t = "list" /\ op = "+=" /\ e.ty = t
                   \/ t.t = "list" /\ op = "*=" /\ e.ty = IntT
\* result: [ok, g] -- g the environment after the statements
RECURSIVE StsWT(_, _, _)
StWT(G, st, ret) ==
    CASE st.k = "return" -> [ok |-> WT(G, st.e[1]) /\ Sub(st.e[1].ty, ret), g |-> G]
      [] st.k = "assign" -> [ok |-> WT(G, st.e[1]) /\ (HasName(G, st.s) => Lookup(G, st.s, st.e[1].ty)),
                             g |-> IF HasName(G, st.s) THEN G ELSE Bind(G, st.s, st.e[1].ty)]
      [] st.k = "aug"    -> [ok |-> WT(G, st.e[1]) /\ \E i \in 1..Len(G) : G[i].name = st.s /\ AugOK(G[i].ty, st.o, st.e[1]),
                             g |-> G]
      [] st.k = "unpack" -> [ok |-> WT(G, st.e[1]) /\ st.e[1].ty.t = "tuple" /\ Len(st.e[1].ty.a) = 2
                                    /\ ~HasName(G, "ua") /\ ~HasName(G, "ub"),
                             g |-> IF st.e[1].ty.t = "tuple" /\ Len(st.e[1].ty.a) = 2
                                   THEN Bind(Bind(G, "ua", st.e[1].ty.a[1]), "ub", st.e[1].ty.a[2]) ELSE G]
      [] st.k = "if"     -> (LET r1 == StsWT(G, st.b, ret)  r2 == StsWT(G, st.c, ret) IN
                             [ok |-> WT(G, st.e[1]) /\ st.e[1].ty = BoolT /\ r1.ok /\ r2.ok
                                     /\ (Len(st.c) > 0 => SameEnv(r1.g, r2.g)),
                              g |-> IF Len(st.c) > 0 /\ Len(r1.g) = Len(r2.g) THEN JoinEnv(r1.g, r2.g) ELSE G])
      [] st.k = "for"    -> (LET it == st.e[1].ty IN
                             [ok |-> WT(G, st.e[1]) /\ it \in IterTs /\ ~HasName(G, st.s)
                                     /\ StsWT(Bind(G, st.s, ElemOfIter(it)), st.b, ret).ok,
                              g |-> G])
      [] st.k = "for2"   -> [ok |-> WT(G, st.e[1]) /\ st.e[1].ty = ListT(TSI)
                                    /\ StsWT(Bind(Bind(G, "fk", StrT), "fv", IntT), st.b, ret).ok,
                             g |-> G]
      [] st.k = "pass"   -> [ok |-> TRUE, g |-> G]
      [] OTHER -> [ok |-> FALSE, g |-> G]
StsWT(G, sts, ret) ==
    IF Len(sts) = 0 THEN [ok |-> TRUE, g |-> G]
    ELSE LET r == StWT(G, sts[1], ret) IN
         IF ~r.ok THEN r ELSE StsWT(r.g, Tail(sts), ret)

\* parameters of a def = the parameter-variables (n = 1) occurring in it
RECURSIVE PVarsE(_)
PVarsE(e) == IF e.k = "var" THEN (IF e.n = 1 THEN {[name |-> e.s, ty |-> e.ty]} ELSE {})
             ELSE UNION {PVarsE(e.a[i]) : i \in 1..Len(e.a)}
RECURSIVE PVarsS(_)
PVarsS(sts) == UNION {UNION {PVarsE(sts[i].e[j]) : j \in 1..Len(sts[i].e)}
                      \cup PVarsS(sts[i].b) \cup PVarsS(sts[i].c) : i \in 1..Len(sts)}

Def(name, ps, ret, ann, body, tag) == [name |-> name, ps |-> ps \o <<>>, ret |-> ret, ann |-> ann, body |-> body \o <<>>, tag |-> tag]
MkDef(name, ret, body, tag) == Def(name, SetToSeq(PVarsS(body)), ret, "all", body, tag)
EndsInReturn(body) == Len(body) > 0 /\ body[Len(body)].k = "return"
DefWT(d) == /\ EndsInReturn(d.body)
            /\ StsWT(d.ps, d.body, d.ret).ok

HelperBody(h) ==
    LET a == Var(h.ps[1].name, h.ps[1].ty)
        b == IF Len(h.ps) > 1 THEN Var(h.ps[2].name, h.ps[2].ty) ELSE a IN
    CASE h.tpl = "add"  -> <<Ret(Ex("bin", "+", 0, <<a, b>>, h.ret, IF h.ret = IntT THEN "int+int" ELSE "str+str"))>>
      [] h.tpl = "rep"  -> <<Ret(Ex("bin", "*", 0, <<Ex("list", "", 0, <<a>>, ListT(StrT), "listlit"), b>>, ListT(StrT), "list*int"))>>
      [] h.tpl = "get"  -> <<Ret(Ex("meth", "get", 0, <<a, b>>, h.ret, "dict.get"))>>
      [] h.tpl = "pair" -> <<Ret(Ex("tuple", "", 0, <<a, b>>, h.ret, "tuplit"))>>
      [] h.tpl = "head" -> <<Ret(Ex("index", "", 0, <<a, IntLit(0)>>, h.ret, "index:list"))>>
      [] OTHER -> <<>>
HelperDefs == <<>> \o [i \in HelperIdx |-> Def(Helpers[i].name, Helpers[i].ps, Helpers[i].ret, Helpers[i].ann,
                                       HelperBody(Helpers[i]), "helper")]

(* Body templates *)
V1(t) == Var("v1", t)
V2(t) == Var("v2", t)
Acc(t) == Var("acc", t)
B_Ret(e)          == <<Ret(e)>>
B_Local(e)        == <<Asg("v1", e), Ret(V1(e.ty))>>
B_IfAssign(c, e1, e2) == <<If(c, <<Asg("v1", e1)>>, <<Asg("v1", e2)>>), Ret(V1(e1.ty))>>
B_IfReturn(c, e1, e2) == <<If(c, <<Ret(e1)>>, <<>>), Ret(e2)>>
B_IfElseReturn(c, e1, e2) == <<If(c, <<Pass, Ret(e1)>>, <<Ret(e2)>>), Ret(e2)>>
B_Two(e1, c2)     == <<Asg("v1", e1), Asg("v2", Plug(c2, V1(e1.ty))), Ret(V2(SigSeq[c2[1]].res))>>
B_Aug(t, op, e)   == <<Asg("v1", Leaf(t, 1)), Aug("v1", op, e), Ret(V1(t))>>
B_Unpack(e, body) == <<Unpack(e), Ret(body)>>
Zero(t) == CASE t = IntT -> IntLit(0) [] t = StrT -> StrLit("") [] OTHER -> Ex("list", "", 0, <<>>, t, "listlit")
Plus(t, x, y) == Ex("bin", "+", 0, <<x, y>>, t, CASE t = IntT -> "int+int" [] t = StrT -> "str+str" [] OTHER -> "list+list")
\* acc = zero; for f in iter: acc = acc + body; return acc      (body of type t uses the loop variable)
B_Loop(iter, lv, body) ==
    <<Asg("acc", Zero(body.ty)), For(lv, iter, <<Asg("acc", Plus(body.ty, Acc(body.ty), body))>>), Ret(Acc(body.ty))>>
B_LoopIf(iter, lv, body, c) ==
    <<Asg("acc", Zero(body.ty)), For(lv, iter, <<If(c, <<Asg("acc", Plus(body.ty, Acc(body.ty), body))>>, <<>>)>>), Ret(Acc(body.ty))>>
B_LoopAug(iter, lv, body) ==
    <<Asg("acc", Zero(body.ty)), For(lv, iter, <<Aug("acc", "+=", body)>>), Ret(Acc(body.ty))>>
B_Loop2(iter, body) ==
    <<Asg("acc", Zero(body.ty)), For2(iter, <<Asg("acc", Plus(body.ty, Acc(body.ty), body))>>), Ret(Acc(body.ty))>>
AccTs == {IntT, StrT, ListT(IntT), ListT(StrT)}

----------------------------------------------------------------------------
(* Modules.  A module is
     globals : <<[name, ty, e]>>        module-level variables named like parameters (literals)
     defs    : <<Def>>                  helper defs, then generated defs
     binds   : <<[name, ty, e, kind]>>  module-level bindings: calls of the generated defs with
                                        canonical arguments (kind "call"), closed expressions
                                        (kind "expr"), literals the checker commits to ("lit")
   rendered by the driver in the order globals, defs, binds. *)
BindR(name, ty, e, kind) == [name |-> name, ty |-> ty, e |-> e, kind |-> kind]
GlobalOf(p) == BindR(p.name, p.ty, ArgLit(p.ty, IF p.name = VarName(p.ty, 1) THEN 1 ELSE 2), "global")
CallOf(d, rname) ==
    BindR(rname, d.ret,
          Ex("fcall", d.name, 0, [i \in 1..Len(d.ps) |-> GlobalOf(d.ps[i]).e], d.ret, "call:generated"), "call")
MixedTup == Ex("tuple", "", 0, <<StrLit("a"), NoneLit, BoolLit(TRUE)>>, TupT(<<StrT, NoneT, BoolT>>), "lit")
LitBinds == <<
    BindR("c_s", StrT, StrLit("abc"), "lit"),
    BindR("c_n", NoneT, NoneLit, "lit"),
    BindR("c_b", BoolT, BoolLit(FALSE), "lit"),
    BindR("c_t", MixedTup.ty, MixedTup, "lit"),
    BindR("c_u", OptT(StrT), StrLit("x"), "lit"),
    BindR("c_u", OptT(StrT), NoneLit, "lit"),
    BindR("c_a", StrT, Ex("var", "c_s", 1, <<>>, StrT, "var"), "lit"),
    BindR("c_i", IntT, IntLit(5), "lit"),
    BindR("c_l", ListT(IntT), ArgLit(ListT(IntT), 1), "lit") >>

Module(id, gdefs0, exprs0, tag) ==
    LET gdefs == gdefs0 \o <<>>
        exprs == exprs0 \o <<>>
        calls == [j \in 1..Len(gdefs) |-> CallOf(gdefs[j], "r" \o ToString(j))]
        ebinds == [j \in 1..Len(exprs) |-> BindR("m" \o ToString(j), exprs[j].ty, exprs[j], "expr")]
        gl == SetToSeq(UNION {PVarsE(exprs[j]) : j \in 1..Len(exprs)}) IN
    [id |-> id, tag |-> tag, ill |-> FALSE, mut |-> "",
     globals |-> [i \in 1..Len(gl) |-> GlobalOf(gl[i])] \o <<>>,
     defs |-> HelperDefs \o gdefs,
     binds |-> LitBinds \o calls \o ebinds]

\* the module-level environment: globals, then every def as a function, then binds in order
FnTyOf(d) == FnT([i \in 1..Len(d.ps) |-> d.ps[i].ty], d.ret)
ModuleWT(m) ==
    LET G0 == [i \in 1..Len(m.globals) |-> [name |-> m.globals[i].name, ty |-> m.globals[i].ty]]
        GL == G0 \o <<[name |-> "c_s", ty |-> StrT]>> IN
    /\ \A i \in 1..Len(m.globals) : WT(<<>>, m.globals[i].e) /\ Sub(m.globals[i].e.ty, m.globals[i].ty)
    /\ \A i \in 1..Len(m.defs) : DefWT(m.defs[i])
    /\ \A i \in HelperIdx : m.defs[i] = HelperDefs[i]
    /\ \A i \in 1..Len(m.binds) :
          LET b == m.binds[i] IN
          IF b.kind = "call"
          THEN \E j \in 1..Len(m.defs) :
                  /\ m.defs[j].name = b.e.s /\ Len(b.e.a) = Len(m.defs[j].ps) /\ b.ty = m.defs[j].ret
                  /\ \A q \in 1..Len(b.e.a) : WT(<<>>, b.e.a[q]) /\ Sub(b.e.a[q].ty, m.defs[j].ps[q].ty)
          ELSE WT(GL, b.e) /\ Sub(b.e.ty, b.ty)

(* Ill-typed mutants: change a declared return type, a parameter annotation, or a call argument
   to another type of the universe.  Whether the result is really ill typed is decided by
   ModuleWT (the driver only counts; an ill-typed module has no expectation except
   termination and determinism). *)
UT == SetToSeq(U)
OtherT(t, x) == LET C == SelectSeq(UT, LAMBDA u : ~Sub(t, u) /\ ~Sub(u, t)) IN C[(x % Len(C)) + 1]
MutDef(d, x) ==
    IF x % 2 = 0 \/ Len(d.ps) = 0 THEN [d EXCEPT !.ret = OtherT(d.ret, x \div 2)]
    ELSE LET i == ((x \div 2) % Len(d.ps)) + 1 IN [d EXCEPT !.ps[i].ty = OtherT(d.ps[i].ty, x \div 4)]
MutCall(b, x) ==
    IF Len(b.e.a) = 0 THEN b
    ELSE LET i == (x % Len(b.e.a)) + 1 IN [b EXCEPT !.e.a[i] = ArgLit(OtherT(b.e.a[i].ty, x \div 3), 1)]
Mutant(m, x) ==
    LET nh == Len(HelperDefs)
        m2 == [m EXCEPT
                 !.defs = [i \in 1..Len(m.defs) |-> IF i > nh /\ (i + x) % 3 # 0 THEN MutDef(m.defs[i], x + i) ELSE m.defs[i]] \o <<>>,
                 !.binds = [i \in 1..Len(m.binds) |-> IF m.binds[i].kind = "call" /\ (i + x) % 3 = 0
                                                     THEN MutCall(m.binds[i], x + i) ELSE m.binds[i]] \o <<>>,
                 !.mut = "mutant"] IN
    [m2 EXCEPT !.ill = ~ModuleWT(m2)]

----------------------------------------------------------------------------
(* Pseudo-random deeper expressions (a pure function of the seed x, so runs are reproducible
   and independent of TLC's own random numbers) *)
Rn(x) == (x * 1597 + 51749) % 1048576
Pick(sq, x) == sq[((x \div 64) % Len(sq)) + 1]
RECURSIVE RandE(_, _, _)
RandE(t, d, x) ==
    LET P == Producers[t]  L == Leaves(t) IN
    IF IsLeafClass(t) \/ d = 0 \/ Len(P) = 0 \/ (x % 4 = 0)
    THEN Pick(L, x)
    ELSE IF t \in ListTs /\ x % 7 = 1
    THEN LET C == SelectSeq(AllComps, LAMBDA e : e.ty = t) IN
         IF Len(C) = 0 THEN Pick(L, x)
         ELSE LET c == Pick(C, x) IN
              IF c.k = "lcomp" /\ c.a[2].ty # RangeT
              THEN [c EXCEPT !.a[2] = RandE(c.a[2].ty, d - 1, Rn(x + 13))] ELSE c
    ELSE LET s == Pick(P, x) IN
         App(s, [i \in 1..Len(s.args) |-> RandE(s.args[i], d - 1, Rn(x + 7919 * i))])

RB(ret, body) == [ret |-> ret, body |-> body]
RandBody(t, d, x) ==
    LET e == RandE(t, d, Rn(x)) IN
    CASE x % 6 = 0 -> RB(t, B_Ret(e))
      [] x % 6 = 1 -> RB(t, B_Local(e))
      [] x % 6 = 2 -> RB(t, <<If(RandE(BoolT, d - 1, Rn(x + 1)), <<Asg("v1", e)>>, <<Asg("v1", RandE(t, d - 1, Rn(x + 2)))>>), Ret(V1(t))>>)
      [] x % 6 = 3 -> RB(t, B_IfReturn(RandE(BoolT, d - 1, Rn(x + 1)), e, RandE(t, d - 1, Rn(x + 2))))
      [] x % 6 = 4 -> (LET C == SelectSeq(Ctx[t], LAMBDA c : SigSeq[c[1]].res \in U) IN
                       IF Len(C) > 0 /\ e.ty = t THEN RB(SigSeq[Pick(C, x)[1]].res, B_Two(e, Pick(C, x))) ELSE RB(t, B_Local(e)))
      [] OTHER     -> RB(t, B_IfElseReturn(RandE(BoolT, d - 1, Rn(x + 1)), e, RandE(t, d - 1, Rn(x + 2))))
RandDef(name, d, x) ==
    LET t == Pick(UT, x)  rb == RandBody(t, d, Rn(x + 5)) IN MkDef(name, rb.ret, rb.body, "rand")

=============================================================================

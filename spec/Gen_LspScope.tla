---------------------------- MODULE Gen_LspScope ----------------------------
(* G for C19: documents grown from skeletons that stress shadowing.  A skeleton is an AST with
   numbered name slots; a document is (skeleton, slot -> name, decoration).  Because the same two
   names are dropped into every slot, parameters shadow globals, comprehension and lambda variables
   shadow parameters, names are used before their assignment in a def, globals are read inside
   defs, ... by construction of the sample rather than by hand.  For every identifier occurrence
   TLC prints its LSP range (Positions), its range under the two other column conventions
   (code points, bytes -- used only to *classify* a disagreement), whether an astral / non-ASCII
   code point precedes it on its line, and, for uses, LspScope!Resolve. *)
EXTENDS LspScope, Positions, Json, TLC, Randomization

CONSTANTS Mode,        \* "ascii" | "bmp" | "all"  -- which pads decorations may use
          PerSk,       \* slot assignments sampled per skeleton
          PerDeco,     \* decorations sampled per slot assignment
          SkSet,       \* which skeletons
          WithTable    \* print the whole place table (for the span checks)

Names == {"xx", "yy"}

EAcute == 233       \* 2 bytes in UTF-8, 1 UTF-16 unit
Euro   == 8364      \* 3 bytes, 1 unit
GClef  == 119070    \* 4 bytes, 2 units (astral)
Emoji  == 128512    \* 4 bytes, 2 units (astral)

Pads == CASE Mode = "ascii" -> {<<>>, <<97>>}
          [] Mode = "bmp"   -> {<<>>, <<EAcute>>, <<Euro, 97>>}
          [] Mode = "all"   -> {<<>>, <<EAcute>>, <<GClef>>, <<97, Emoji, EAcute>>, <<GClef, GClef>>}
Eols == {<<LF>>, <<CR, LF>>}
Decos == [padB : Pads, padU : Pads, eol : Eols, padstmt : BOOLEAN, cmt : BOOLEAN]

-----------------------------------------------------------------------------
(* skeletons; n[i] is the name in slot i *)
Globals == <<Assign("xx", <<>>), Assign("yy", <<>>)>>

(* nested defs: closure reads, use before assignment, parameter shadowing a global, default value
   read in the enclosing scope *)
Sk1(n) == Globals \o <<
    Def("ff", <<Par(n[1], <<Use(n[2])>>), Par("zz", <<>>)>>, <<
        ExprS(Use(n[3])),
        Assign(n[4], <<Use(n[5])>>),
        Def("gg", <<>>, <<
            ExprS(Use(n[6])),
            Assign(n[7], <<>>),
            ExprS(Use(n[8])),
            ExprS(Use("zz")) >>),
        ExprS(CallE("gg")),
        ExprS(Use(n[9])) >>),
    ExprS(CallE("ff")),
    ExprS(Use(n[10])) >>
NS1 == 10

(* comprehensions and lambdas inside a def and at module level *)
Sk2(n) == Globals \o <<
    Def("ff", <<Par(n[1], <<>>)>>, <<
        Assign("zz", <<Comp(<<Use(n[2]), Use(n[3])>>,
                            <<ForC(n[4], <<Use(n[5])>>), IfC(Use(n[6])), ForC(n[7], <<Use(n[8])>>)>>)>>),
        ExprS(Use(n[9])),
        ExprS(Lam(<<Par(n[10], <<Use(n[11])>>)>>,
                  <<Use(n[12]), Comp(<<Use(n[13])>>, <<ForC(n[14], <<>>)>>)>>)),
        ExprS(Use(n[15])) >>),
    ExprS(CallE("ff")),
    ExprS(DictComp(<<Use(n[16])>>, <<ForC(n[17], <<Use(n[18])>>)>>)),
    ExprS(Use(n[19])) >>
NS2 == 19

(* load symbols, for loops and branches: loop variables and branch assignments are function-local
   (module-level inside a top-level for); xx is a load symbol here *)
Sk3(n) == <<
    Load(<<"xx">>),
    Assign("yy", <<>>),
    For("zz", <<Use(n[1])>>, <<
        ExprS(Use(n[2])),
        If(Use(n[3]), <<Assign("yy", <<Use(n[4])>>)>>, <<>>) >>),
    Def("ff", <<Par(n[5], <<>>)>>, <<
        For(n[6], <<Use(n[7])>>, <<
            ExprS(Use(n[8])),
            Assign(n[9], <<Use(n[10])>>) >>),
        If(Use(n[11]), <<ExprS(ListE(<<Use(n[12]), Bare(n[13])>>))>>, <<Assign(n[14], <<>>)>>),
        Ret(Use(n[15])) >>),
    ExprS(CallE("ff")),
    ExprS(Use(n[16])) >>
NS3 == 16

(* three levels of def with a lambda and a comprehension at the bottom; the innermost function
   rebinds or captures *)
Sk4(n) == Globals \o <<
    Def("ff", <<Par(n[1], <<>>)>>, <<
        Def("gg", <<Par(n[2], <<Use(n[3])>>)>>, <<
            Def("hh", <<>>, <<
                ExprS(Use(n[4])),
                ExprS(Lam(<<Par(n[5], <<>>)>>, <<Use(n[6]), Use(n[7])>>)),
                ExprS(Comp(<<Use(n[8]), Lam(<<>>, <<Use(n[9])>>)>>, <<ForC(n[10], <<Use(n[11])>>)>>)),
                Assign(n[12], <<>>) >>),
            ExprS(CallE("hh")),
            ExprS(Use(n[13])) >>),
        ExprS(CallE("gg")),
        ExprS(Use(n[14])) >>),
    ExprS(CallE("ff")),
    For(n[15], <<>>, <<ExprS(Use(n[16]))>>),
    ExprS(Use(n[17])) >>
NS4 == 17

(* a document that does not parse: the parse error must be reported at the marked token *)
Sk5(n) == Globals \o <<
    Def("ff", <<Par(n[1], <<>>)>>, <<
        ExprS(Use(n[2])),
        BadAssign(n[3]) >>),
    ExprS(Use(n[4])) >>
NS5 == 4

Skeleton(sk, n) == CASE sk = 1 -> Sk1(n) [] sk = 2 -> Sk2(n) [] sk = 3 -> Sk3(n) [] sk = 4 -> Sk4(n) [] sk = 5 -> Sk5(n)
NSlots(sk) == CASE sk = 1 -> NS1 [] sk = 2 -> NS2 [] sk = 3 -> NS3 [] sk = 4 -> NS4 [] sk = 5 -> NS5
SkIds == 1..5

(* the module the load statement names: binds every load symbol with the value "ld_<name>" *)
LoadedText == <<120, 120, 32, 61, 32, 34, 108, 100, 95, 120, 120, 34, 10>>     \* xx = "ld_xx"\n
LoadedOcc  == [a |-> 0, e |-> 2]

-----------------------------------------------------------------------------
VARIABLES sk, slots, deco

(* a slot assignment is drawn as a number: bit i-1 selects the name in slot i (sampling an interval
   is cheap; sampling the function set [1..19 -> Names] enumerates it) *)
RECURSIVE Pow2(_)
Pow2(k) == IF k = 0 THEN 1 ELSE 2 * Pow2(k - 1)
SlotsOf(x, ns) == [i \in 1..ns |-> IF (x \div Pow2(i - 1)) % 2 = 0 THEN "xx" ELSE "yy"]

Init == /\ sk \in SkSet
        /\ \E x \in RandomSubset(IF PerSk < Pow2(NSlots(sk)) THEN PerSk ELSE Pow2(NSlots(sk)),
                                   0..(Pow2(NSlots(sk)) - 1)) : slots = SlotsOf(x, NSlots(sk))
        /\ deco \in RandomSubset(PerDeco, Decos)
Next == UNCHANGED <<sk, slots, deco>>

R4(r) == <<r.start.line, r.start.character, r.end.line, r.end.character>>

SetToSortedSeq(S) == LET RECURSIVE F(_) F(X) == IF X = {} THEN <<>> ELSE <<Min(X)>> \o F(X \ {Min(X)}) IN F(S)

(* TLC re-evaluates LET definitions inside function constructors; binding through a singleton set
   forces the document and its place table to be computed once *)
Out3(doc, tab) ==
    LET occs == doc.occs IN
    [text  |-> doc.cps,
     lens  |-> LineLens16(doc.cps),
     occs  |-> [i \in 1..Len(occs) |->
                  LET x == occs[i] IN
                  [n |-> x.o.name, bind |-> x.o.bind, role |-> x.o.role, tagged |-> x.o.tagged,
                   r  |-> R4(ToLspRange(tab, x.a, x.e)),
                   cp |-> R4(ToCpRange(tab, x.a, x.e)),
                   by |-> R4(ToByteRange(tab, x.a, x.e)),
                   off |-> <<tab[x.a + 1].b, tab[x.e + 1].b>>,
                   ab |-> AstralBefore(tab, x.a), nb |-> NonAsciiBefore(tab, x.a),
                   depth |-> IF x.o.bind THEN 0 ELSE Resolve(occs, i).depth,
                   nsc |-> Len(x.o.chain),
                   binders |-> IF x.o.bind THEN 0 ELSE Resolve(occs, i).binders,
                   targets |-> IF x.o.bind THEN <<>> ELSE SetToSortedSeq(Resolve(occs, i).targets)]],
     table |-> IF WithTable THEN [k \in 1..Len(tab) |-> <<tab[k].b, tab[k].l, tab[k].c, tab[k].w>>] ELSE <<>>]
Out2(doc) == CHOOSE r \in {Out3(doc, tab) : tab \in {Table(doc.cps)}} : TRUE
OutOf(mod, d) == CHOOSE r \in {Out2(doc) : doc \in {Doc(mod, d)}} : TRUE

Out == [sk |-> sk, slots |-> slots, deco |-> deco] @@ OutOf(Skeleton(sk, slots), deco)

PrintDoc == PrintT(<<"DOC", ToJson(Out)>>)
=============================================================================

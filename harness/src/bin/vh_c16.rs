//! vh_c16 -- C16: runtime type checks, asked every way the implementation offers.
//!
//! `vh_c16 replay <chunk.json> <out.ndjson>`
//!
//! The chunk (written by lib/c16.py from TLC's output) carries Starlark *source text* only:
//! a prelude that declares the record/enum types and helper functions, the value catalogue as
//! expressions, and for every type its spelling in annotation position (`ann`) and in expression
//! position (`expr`).  This binary knows nothing about what any type means: it builds
//!
//!   module A ("a.star"): prelude, `VALS = [...]`, and per type k
//!       T_k = <expr>                                   (type alias)
//!       def ia_k(v): return isinstance(v, <expr>)      isinstance, type spelled in place
//!       def ib_k(v): return isinstance(v, T_k)         isinstance, type through the alias
//!       def m_k(v):  return eval_type(T_k).matches(v)  eval_type(..).matches
//!       def p_k(x: <ann>): pass                        parameter annotation
//!       def pa_k(x: T_k): pass                         parameter annotation through the alias
//!       def r_k(x) -> <ann>: return x                  return annotation
//!       def a_k(v): y: <ann> = v                       annotated assignment in a def
//!       _x: <ann> = VALS[i]                            annotated assignment at top level (one
//!                                                      module evaluation per pair)
//!       TypeCompiled::new(T_k, heap).matches(v)        host API (also .to_frozen(..).matches)
//!
//!   then FREEZES A and builds module B ("b.star") that `load`s the aliases, the functions, the
//!   record/enum types and VALS from A, and asks again: A's frozen functions and B's own functions
//!   written over the loaded aliases, each on A's frozen values and on values freshly built in B;
//!   the host API on the frozen alias; top-level annotated assignment through the loaded alias.
//!
//! and reports, per type and per path, one character per value: T (accepted) F (rejected by a
//! type-annotation error / False) E (any other error) P (panic) - (path could not be set up).
//! Every statement that can fail is evaluated on its own; every call goes through
//! `Evaluator::eval_function` under `catch_unwind`.  Comparison with the specification's answer
//! is done by lib/c16.py.
#![allow(clippy::all)]
#![allow(dead_code)]

#[path = "../util.rs"]
mod util;

use std::collections::BTreeMap;
use std::collections::HashMap;

use serde_json::json;
use serde_json::Value as J;
use starlark::environment::FrozenModule;
use starlark::environment::Globals;
use starlark::environment::LibraryExtension;
use starlark::environment::Module;
use starlark::eval::Evaluator;
use starlark::eval::ReturnFileLoader;
use starlark::syntax::AstModule;
use starlark::syntax::Dialect;
use starlark::syntax::DialectTypes;
use starlark::values::list::ListRef;
use starlark::values::typing::TypeCompiled;
use starlark::values::Value;

fn dialect() -> Dialect {
    let mut d = Dialect::Standard;
    // `Enable` is what makes the compiler emit run-time checks for annotations (eval.rs:
    // `check_types: dialect.enable_types == DialectTypes::Enable`).
    d.enable_types = DialectTypes::Enable;
    d.enable_keyword_only_arguments = true;
    d.enable_top_level_stmt = true;
    d
}

fn globals() -> Globals {
    Globals::extended_by(&[
        LibraryExtension::StructType,
        LibraryExtension::RecordType,
        LibraryExtension::EnumType,
        LibraryExtension::Typing,
        LibraryExtension::SetType,
        LibraryExtension::Partial,
    ])
}

fn err_line(s: &str) -> String {
    for l in s.lines() {
        let l = l.trim();
        if let Some(rest) = l.strip_prefix("error: ") {
            return rest.to_owned();
        }
    }
    s.lines().map(|l| l.trim()).find(|l| !l.is_empty()).unwrap_or("").to_owned()
}

const MISMATCH: &str = "does not match the type annotation";

/// Evaluate `src` as one more piece of `module`. Ok(repr of the value) or Err(message).
fn eval_src<'v>(module: &Module<'v>, g: &Globals, file: &str, src: &str,
                loader: Option<&ReturnFileLoader>) -> Result<Value<'v>, String> {
    let r = util::catch(|| {
        let ast = AstModule::parse(file, src.to_owned(), &dialect())
            .map_err(|e| format!("parse: {}", err_line(&format!("{}", e))))?;
        let mut eval = Evaluator::new(module);
        if let Some(l) = loader {
            eval.set_loader(l);
        }
        eval.eval_module(ast, g).map_err(|e| err_line(&format!("{}", e)))
    });
    match r {
        Ok(x) => x,
        Err(p) => Err(format!("PANIC: {}", p)),
    }
}

#[derive(Clone, Copy, PartialEq)]
enum Kind {
    /// function returns a bool
    Bool,
    /// function succeeds iff the value has the type
    Check,
}

struct Obs {
    s: String,
    errs: Vec<(usize, String)>,
}

/// Call `f(v)` for every `v`; one character per value.
fn ask<'v>(module: &Module<'v>, f: Value<'v>, vals: &[Value<'v>], kind: Kind) -> Obs {
    let mut s = String::with_capacity(vals.len());
    let mut errs = Vec::new();
    let mut eval = Evaluator::new(module);
    for (i, v) in vals.iter().enumerate() {
        let r = util::catch(|| eval.eval_function(f, &[*v], &[]));
        let c = match r {
            Err(p) => {
                errs.push((i, format!("PANIC: {}", p)));
                // the evaluator may be in any state after a panic
                eval = Evaluator::new(module);
                'P'
            }
            Ok(Ok(x)) => match kind {
                Kind::Check => 'T',
                Kind::Bool => match x.unpack_bool() {
                    Some(true) => 'T',
                    Some(false) => 'F',
                    None => {
                        errs.push((i, format!("not a bool: {}", x.to_repr())));
                        'E'
                    }
                },
            },
            Ok(Err(e)) => {
                let msg = format!("{}", e);
                if kind == Kind::Check && msg.contains(MISMATCH) {
                    'F'
                } else {
                    errs.push((i, err_line(&msg)));
                    'E'
                }
            }
        };
        s.push(c);
    }
    Obs { s, errs }
}

/// `TypeCompiled::new(t, heap).matches(v)` and the same after `to_frozen`.
fn ask_rust<'v>(module: &Module<'v>, t: Value<'v>, vals: &[Value<'v>]) -> (Obs, Obs) {
    let mut a = Obs { s: String::new(), errs: Vec::new() };
    let mut b = Obs { s: String::new(), errs: Vec::new() };
    let tc = util::catch(|| TypeCompiled::new(t, module.heap()));
    let tc = match tc {
        Ok(Ok(tc)) => tc,
        Ok(Err(e)) => {
            a.errs.push((0, err_line(&format!("{:#}", e))));
            a.s = "E".repeat(vals.len());
            b.s = "-".repeat(vals.len());
            return (a, b);
        }
        Err(p) => {
            a.errs.push((0, format!("PANIC: {}", p)));
            a.s = "P".repeat(vals.len());
            b.s = "-".repeat(vals.len());
            return (a, b);
        }
    };
    for (i, v) in vals.iter().enumerate() {
        match util::catch(|| tc.matches(*v)) {
            Ok(true) => a.s.push('T'),
            Ok(false) => a.s.push('F'),
            Err(p) => {
                a.errs.push((i, format!("PANIC: {}", p)));
                a.s.push('P')
            }
        }
    }
    match util::catch(|| tc.to_frozen(module.frozen_heap())) {
        Ok(fz) => {
            for (i, v) in vals.iter().enumerate() {
                match util::catch(|| fz.to_value_matches(*v)) {
                    Ok(true) => b.s.push('T'),
                    Ok(false) => b.s.push('F'),
                    Err(p) => {
                        b.errs.push((i, format!("PANIC: {}", p)));
                        b.s.push('P')
                    }
                }
            }
        }
        Err(p) => {
            b.errs.push((0, format!("PANIC: {}", p)));
            b.s = "P".repeat(vals.len());
        }
    }
    (a, b)
}

trait MatchesAny<'v> {
    fn to_value_matches(&self, v: Value<'v>) -> bool;
}

impl<'v> MatchesAny<'v> for TypeCompiled<starlark::values::FrozenValue> {
    fn to_value_matches(&self, v: Value<'v>) -> bool {
        // `matches` is defined for `TypeCompiled<V: ValueLike<'v>>`; FrozenValue is ValueLike for any 'v.
        self.matches(v)
    }
}

/// Top-level annotated assignment, one module evaluation per value.
fn ask_top<'v>(module: &Module<'v>, g: &Globals, file: &str, ty_src: &str, vals_name: &str, n: usize) -> Obs {
    let mut o = Obs { s: String::with_capacity(n), errs: Vec::new() };
    for i in 0..n {
        let src = format!("_x: {} = {}[{}]\n", ty_src, vals_name, i);
        match eval_src(module, g, file, &src, None) {
            Ok(_) => o.s.push('T'),
            Err(m) if m.starts_with("PANIC") => {
                o.errs.push((i, m));
                o.s.push('P')
            }
            Err(m) if m.contains(MISMATCH) => o.s.push('F'),
            Err(m) => {
                o.errs.push((i, m));
                o.s.push('E')
            }
        }
    }
    o
}

fn list_values<'v>(module: &Module<'v>, name: &str) -> anyhow::Result<Vec<Value<'v>>> {
    let v = module.get(name).ok_or_else(|| anyhow::anyhow!("{} not defined", name))?;
    let l = ListRef::from_value(v).ok_or_else(|| anyhow::anyhow!("{} is not a list", name))?;
    Ok(l.content().to_vec())
}

struct TypeOut {
    id: J,
    setup: BTreeMap<String, String>,
    obs: BTreeMap<String, String>,
    errs: Vec<J>,
}

impl TypeOut {
    fn put(&mut self, path: &str, o: Obs) {
        for (i, m) in o.errs.into_iter().take(3) {
            self.errs.push(json!([path, i, m]));
        }
        self.obs.insert(path.to_owned(), o.s);
    }
}

/// (suffix, source template, kind); `{A}` = annotation spelling, `{E}` = expression spelling,
/// `{K}` = index of the type.
const A_DEFS: &[(&str, &str, Kind)] = &[
    ("ia", "def ia_{K}(v): return isinstance(v, {E})\n", Kind::Bool),
    ("ib", "def ib_{K}(v): return isinstance(v, T_{K})\n", Kind::Bool),
    ("m", "def m_{K}(v): return eval_type(T_{K}).matches(v)\n", Kind::Bool),
    ("p", "def p_{K}(x: {A}): pass\n", Kind::Check),
    ("pa", "def pa_{K}(x: T_{K}): pass\n", Kind::Check),
    ("r", "def r_{K}(x) -> {A}: return x\n", Kind::Check),
    ("a", "def a_{K}(v):\n    y: {A} = v\n", Kind::Check),
    // `*args: T` / `**kwargs: T`: every extra positional / named argument has type T (what the
    // static checker assumes: args: tuple[T, ...], kwargs: dict[str, T])
    ("sa", "def sa_inner_{K}(*args: {A}): pass\ndef sa_{K}(v): sa_inner_{K}(v)\n", Kind::Check),
    ("kw", "def kw_inner_{K}(**kwargs: {A}): pass\ndef kw_{K}(v): kw_inner_{K}(z = v)\n", Kind::Check),
];

/// B's own functions, written over the loaded alias.
const B_DEFS: &[(&str, &str, Kind)] = &[
    ("ib", "def bib_{K}(v): return isinstance(v, T_{K})\n", Kind::Bool),
    ("m", "def bm_{K}(v): return eval_type(T_{K}).matches(v)\n", Kind::Bool),
    ("pa", "def bpa_{K}(x: T_{K}): pass\n", Kind::Check),
    ("ra", "def bra_{K}(x) -> T_{K}: return x\n", Kind::Check),
    ("aa", "def baa_{K}(v):\n    y: T_{K} = v\n", Kind::Check),
];

fn fill(t: &str, k: usize, ann: &str, expr: &str) -> String {
    t.replace("{K}", &k.to_string()).replace("{A}", ann).replace("{E}", expr)
}

fn replay(chunk_path: &str, out_path: &str) -> anyhow::Result<()> {
    let chunk: J = serde_json::from_str(&std::fs::read_to_string(chunk_path)?)?;
    let prelude_a = chunk["prelude_a"].as_str().unwrap_or("").to_owned();
    let prelude_b = chunk["prelude_b"].as_str().unwrap_or("").to_owned();
    let shared: Vec<String> = chunk["shared_names"].as_array().map(|a| a.iter().map(|x| x.as_str().unwrap().to_owned()).collect()).unwrap_or_default();
    let vals: Vec<String> = chunk["vals"].as_array().unwrap().iter().map(|x| x.as_str().unwrap().to_owned()).collect();
    let types: Vec<(J, String, String)> = chunk["types"].as_array().unwrap().iter()
        .map(|t| (t["id"].clone(), t["ann"].as_str().unwrap().to_owned(), t["expr"].as_str().unwrap().to_owned()))
        .collect();
    let do_top = chunk["top"].as_bool().unwrap_or(true);
    let nv = vals.len();
    let g = globals();
    let mut w = util::NdWriter::create(out_path)?;
    let mut outs: Vec<TypeOut> = types.iter().map(|(id, _, _)| TypeOut {
        id: id.clone(), setup: BTreeMap::new(), obs: BTreeMap::new(), errs: Vec::new(),
    }).collect();

    let vals_src = |name: &str| -> String {
        let mut s = format!("{} = [\n", name);
        for v in &vals {
            s.push_str("  ");
            s.push_str(v);
            s.push_str(",\n");
        }
        s.push_str("]\n");
        s
    };

    // ------------------------------------------------------------------ module A
    // names successfully defined in A (so that B only loads what exists)
    let mut defined_a: Vec<Vec<&'static str>> = vec![Vec::new(); types.len()];
    let mut alias_ok = vec![false; types.len()];
    // two declaring files of the same base name and identical text in different directories
    const DEFS_SRC: &str = "RX = record(a=int)\nEX = enum(\"a\", \"b\")\n";
    let mut defs: Vec<FrozenModule> = Vec::new();
    for file in ["pkg_a/defs.star", "pkg_b/defs.star"] {
        defs.push(Module::with_temp_heap(|module| -> anyhow::Result<FrozenModule> {
            eval_src(&module, &g, file, DEFS_SRC, None).map_err(|e| anyhow::anyhow!("{} failed: {}", file, e))?;
            module.freeze().map_err(|e| anyhow::anyhow!("freeze {}: {:?}", file, e))
        })?);
    }
    let mut defs_map: HashMap<&str, &FrozenModule> = HashMap::new();
    defs_map.insert("pkg_a/defs.star", &defs[0]);
    defs_map.insert("pkg_b/defs.star", &defs[1]);
    let defs_loader = ReturnFileLoader { modules: &defs_map };
    let frozen_a: FrozenModule = Module::with_temp_heap(|module| -> anyhow::Result<FrozenModule> {
        eval_src(&module, &g, "a.star", &format!("{}\n{}", prelude_a, vals_src("VALS")), Some(&defs_loader))
            .map_err(|e| anyhow::anyhow!("prelude of module A failed: {}", e))?;
        // set-up, one statement at a time
        for (k, (_, ann, expr)) in types.iter().enumerate() {
            match eval_src(&module, &g, "a_alias.star", &format!("T_{} = {}\n", k, expr), None) {
                Ok(_) => alias_ok[k] = true,
                Err(e) => {
                    outs[k].setup.insert("A.alias".to_owned(), e);
                }
            }
            for (suffix, tmpl, _) in A_DEFS {
                let needs_alias = tmpl.contains("T_{K}");
                if needs_alias && !alias_ok[k] {
                    outs[k].setup.insert(format!("A.{}", suffix), "alias unavailable".to_owned());
                    continue;
                }
                match eval_src(&module, &g, "a_defs.star", &fill(tmpl, k, ann, expr), None) {
                    Ok(_) => defined_a[k].push(suffix),
                    Err(e) => {
                        outs[k].setup.insert(format!("A.{}", suffix), e);
                    }
                }
            }
        }
        // pass 1: calls only (no module-level evaluation in between, so no collection moves VALS)
        {
            let vs = list_values(&module, "VALS")?;
            anyhow::ensure!(vs.len() == nv, "VALS has {} elements, expected {}", vs.len(), nv);
            for k in 0..types.len() {
                for (suffix, _, kind) in A_DEFS {
                    if !defined_a[k].contains(suffix) {
                        continue;
                    }
                    let f = module.get(&format!("{}_{}", suffix, k)).ok_or_else(|| anyhow::anyhow!("lost {}_{}", suffix, k))?;
                    let o = ask(&module, f, &vs, *kind);
                    outs[k].put(&format!("A.{}", suffix), o);
                }
                if alias_ok[k] {
                    let t = module.get(&format!("T_{}", k)).unwrap();
                    let (o1, o2) = ask_rust(&module, t, &vs);
                    outs[k].put("A.rust", o1);
                    outs[k].put("A.rust_to_frozen", o2);
                }
            }
        }
        // pass 2: top-level annotated assignment
        if do_top {
            for (k, (_, ann, _)) in types.iter().enumerate() {
                let o = ask_top(&module, &g, "a_top.star", ann, "VALS", nv);
                outs[k].put("A.top", o);
            }
        }
        module.freeze().map_err(|e| anyhow::anyhow!("freeze of module A failed: {:?}", e))
    })?;

    // ------------------------------------------------------------------ module B
    let mut modules = HashMap::new();
    modules.insert("a.star", &frozen_a);
    let loader = ReturnFileLoader { modules: &modules };
    Module::with_temp_heap(|module| -> anyhow::Result<()> {
        let mut load = String::from("load(\"a.star\", \"VALS\"");
        for n in &shared {
            load.push_str(&format!(", \"{}\"", n));
        }
        for k in 0..types.len() {
            if alias_ok[k] {
                load.push_str(&format!(", \"T_{}\"", k));
            }
            for s in &defined_a[k] {
                load.push_str(&format!(", \"{}_{}\"", s, k));
            }
        }
        load.push_str(")\n");
        let mut src = load;
        src.push_str(&prelude_b);
        src.push_str("\nVALS_FZ = VALS\n");
        src.push_str(&vals_src("VALS_FRESH"));
        // republish what was loaded, so that the host can reach it
        for (suffix, _, _) in A_DEFS {
            src.push_str(&format!("FZ_{} = [", suffix));
            for k in 0..types.len() {
                if defined_a[k].contains(suffix) {
                    src.push_str(&format!("{}_{}, ", suffix, k));
                } else {
                    src.push_str("None, ");
                }
            }
            src.push_str("]\n");
        }
        src.push_str("FZ_T = [");
        for k in 0..types.len() {
            if alias_ok[k] {
                src.push_str(&format!("T_{}, ", k));
            } else {
                src.push_str("None, ");
            }
        }
        src.push_str("]\n");
        eval_src(&module, &g, "b.star", &src, Some(&loader))
            .map_err(|e| anyhow::anyhow!("prelude of module B failed: {}", e))?;
        let mut defined_b: Vec<Vec<&'static str>> = vec![Vec::new(); types.len()];
        for (k, (_, ann, expr)) in types.iter().enumerate() {
            if !alias_ok[k] {
                continue;
            }
            for (suffix, tmpl, _) in B_DEFS {
                match eval_src(&module, &g, "b_defs.star", &fill(tmpl, k, ann, expr), None) {
                    Ok(_) => defined_b[k].push(suffix),
                    Err(e) => {
                        outs[k].setup.insert(format!("B.own.{}", suffix), e);
                    }
                }
            }
        }
        {
            let fz = list_values(&module, "VALS_FZ")?;
            let fresh = list_values(&module, "VALS_FRESH")?;
            anyhow::ensure!(fz.len() == nv && fresh.len() == nv, "value lists of B have the wrong length");
            let fz_t = list_values(&module, "FZ_T")?;
            let mut fz_fns: Vec<Vec<Value>> = Vec::new();
            for (suffix, _, _) in A_DEFS {
                fz_fns.push(list_values(&module, &format!("FZ_{}", suffix))?);
            }
            for k in 0..types.len() {
                for (j, (suffix, _, kind)) in A_DEFS.iter().enumerate() {
                    if !defined_a[k].contains(suffix) {
                        continue;
                    }
                    let f = fz_fns[j][k];
                    outs[k].put(&format!("B.fzfn.{}.fz", suffix), ask(&module, f, &fz, *kind));
                    outs[k].put(&format!("B.fzfn.{}.fresh", suffix), ask(&module, f, &fresh, *kind));
                }
                for (suffix, _, kind) in B_DEFS {
                    if !defined_b[k].contains(suffix) {
                        continue;
                    }
                    let f = module.get(&format!("b{}_{}", suffix, k)).ok_or_else(|| anyhow::anyhow!("lost b{}_{}", suffix, k))?;
                    outs[k].put(&format!("B.own.{}.fz", suffix), ask(&module, f, &fz, *kind));
                    outs[k].put(&format!("B.own.{}.fresh", suffix), ask(&module, f, &fresh, *kind));
                }
                if alias_ok[k] {
                    let (o1, o2) = ask_rust(&module, fz_t[k], &fz);
                    outs[k].put("B.rust.fz", o1);
                    outs[k].put("B.rust_to_frozen.fz", o2);
                    let (o1, o2) = ask_rust(&module, fz_t[k], &fresh);
                    outs[k].put("B.rust.fresh", o1);
                    outs[k].put("B.rust_to_frozen.fresh", o2);
                }
            }
        }
        if do_top {
            for k in 0..types.len() {
                if !alias_ok[k] {
                    continue;
                }
                let t = format!("T_{}", k);
                outs[k].put("B.top.fz", ask_top(&module, &g, "b_top.star", &t, "VALS_FZ", nv));
                outs[k].put("B.top.fresh", ask_top(&module, &g, "b_top.star", &t, "VALS_FRESH", nv));
            }
        }
        Ok(())
    })?;

    for o in outs {
        w.write(&json!({"id": o.id, "setup": o.setup, "obs": o.obs, "errs": o.errs}))?;
    }
    w.finish()?;
    Ok(())
}

/// probe: statements separated by lines `###`, evaluated one by one on one module (development aid
/// and `--replay` display).
fn probe(path: &str) -> anyhow::Result<()> {
    let src = std::fs::read_to_string(path)?;
    let g = globals();
    Module::with_temp_heap(|module| {
        for (i, stmt) in src.split("\n###\n").enumerate() {
            if stmt.trim().is_empty() {
                continue;
            }
            let shown = match eval_src(&module, &g, "probe.star", stmt, None) {
                Ok(v) => v.to_repr(),
                Err(e) => format!("ERR: {}", e),
            };
            println!("{:3} {:60} => {}", i, stmt.replace('\n', "\\n"), shown);
        }
    });
    Ok(())
}

fn main() -> std::process::ExitCode {
    let args: Vec<String> = std::env::args().collect();
    std::panic::set_hook(Box::new(|info| {
        util::LAST_PANIC.with(|p| *p.borrow_mut() = Some(format!("{}", info)));
    }));
    let r = match (args.get(1).map(|s| s.as_str()), args.len()) {
        (Some("probe"), 3) => probe(&args[2]),
        (Some("replay"), 4) => replay(&args[2], &args[3]),
        _ => Err(anyhow::anyhow!("usage: vh_c16 replay <chunk.json> <out.ndjson> | vh_c16 probe <file>")),
    };
    match r {
        Ok(()) => std::process::ExitCode::SUCCESS,
        Err(e) => {
            eprintln!("vh_c16: {:#}", e);
            std::process::ExitCode::from(2)
        }
    }
}

//! vh_c06: the Rust side of C06 (the parser builds the prescribed tree; printing round-trips).
//!
//! It never computes an expectation. It parses text with the real parser and renders the *real*
//! AST (walked through `AstModule::statement()`) in the fully parenthesised token normal form that
//! `Grammar!Print` of the specification produces for its own tree; the driver compares the two
//! strings. It also performs the real-side round trip: Display(parse(x)) parses again to a tree
//! with the same normal form, and Display is a fixed point of parse-then-print.
//!
//! The same walker records the span tree (kind, begin, end, parent) used by C05 (vh_c05 includes
//! this file as a module).
//!
//! usage:
//!   vh_c06 cases <cases.ndjson> <out.ndjson> [--dialect c06|std|full]
//!       case: {"id":..,"src":".."}  -> {"id","st":"ok|reject|panic","nf","rt","err"}
//!   vh_c06 enum <alphabet.json> <N> <out.ndjson> [--threads T]
//!       all token sequences of length 0..=N over the alphabet (tokens joined by one space):
//!       one line per ACCEPTED sequence {"t":[idx..],"nf","rt"} (+ panics), last line a summary.
#![allow(clippy::all)]
#![allow(dead_code)]

#[path = "../util.rs"]
pub mod util;

use std::io::Write;
use std::process::ExitCode;

use serde_json::json;
use serde_json::Value as J;
use starlark_syntax::syntax::ast::*;
use starlark_syntax::syntax::AstModule;
use starlark_syntax::syntax::Dialect;
use starlark_syntax::syntax::DialectTypes;

// ------------------------------------------------------------------------------------------
// dialects

/// The grammar Starlark shares with Python, as the specification (Grammar.tla) models it:
/// def, lambda, keyword-only `*`, top-level if/for; no `/`, no type annotations, no `...`,
/// no f-strings.
pub fn dialect_c06() -> Dialect {
    Dialect {
        enable_def: true,
        enable_lambda: true,
        enable_load: true,
        enable_keyword_only_arguments: true,
        enable_positional_only_arguments: false,
        enable_types: DialectTypes::Disable,
        enable_load_reexport: true,
        enable_top_level_stmt: true,
        enable_f_strings: false,
        ..Dialect::Standard
    }
}

pub fn dialect_by_name(n: &str) -> Dialect {
    match n {
        "std" => Dialect::Standard,
        "full" => Dialect::AllOptionsInternal,
        "ext" => Dialect::Extended,
        _ => dialect_c06(),
    }
}

// ------------------------------------------------------------------------------------------
// walker: normal form + span tree

#[derive(Clone, Debug)]
pub struct SpanNode {
    pub kind: &'static str,
    pub b: u32,
    pub e: u32,
    pub parent: i64,
    /// for identifier leaves: the identifier the AST stores (must equal the covered text)
    pub name: Option<String>,
}

pub struct Walk {
    pub toks: Vec<String>,
    pub spans: Vec<SpanNode>,
    pub record: bool,
}

fn assign_op_tok(op: AssignOp) -> &'static str {
    match op {
        AssignOp::Add => "+=",
        AssignOp::Subtract => "-=",
        AssignOp::Multiply => "*=",
        AssignOp::Divide => "/=",
        AssignOp::FloorDivide => "//=",
        AssignOp::Percent => "%=",
        AssignOp::BitAnd => "&=",
        AssignOp::BitOr => "|=",
        AssignOp::BitXor => "^=",
        AssignOp::LeftShift => "<<=",
        AssignOp::RightShift => ">>=",
    }
}

fn bin_op_toks(op: BinOp) -> &'static [&'static str] {
    match op {
        BinOp::Or => &["or"],
        BinOp::And => &["and"],
        BinOp::Equal => &["=="],
        BinOp::NotEqual => &["!="],
        BinOp::Less => &["<"],
        BinOp::Greater => &[">"],
        BinOp::LessOrEqual => &["<="],
        BinOp::GreaterOrEqual => &[">="],
        BinOp::In => &["in"],
        BinOp::NotIn => &["not", "in"],
        BinOp::Subtract => &["-"],
        BinOp::Add => &["+"],
        BinOp::Multiply => &["*"],
        BinOp::Percent => &["%"],
        BinOp::Divide => &["/"],
        BinOp::FloorDivide => &["//"],
        BinOp::BitAnd => &["&"],
        BinOp::BitOr => &["|"],
        BinOp::BitXor => &["^"],
        BinOp::LeftShift => &["<<"],
        BinOp::RightShift => &[">>"],
    }
}

impl Walk {
    pub fn new(record: bool) -> Walk {
        Walk { toks: Vec::new(), spans: Vec::new(), record }
    }

    fn t(&mut self, s: &str) {
        self.toks.push(s.to_owned());
    }

    fn node(&mut self, kind: &'static str, span: starlark_syntax::codemap::Span, parent: i64) -> i64 {
        self.node_named(kind, span, parent, None)
    }

    fn node_named(
        &mut self,
        kind: &'static str,
        span: starlark_syntax::codemap::Span,
        parent: i64,
        name: Option<String>,
    ) -> i64 {
        if !self.record {
            return -1;
        }
        self.spans.push(SpanNode { kind, b: span.begin().get(), e: span.end().get(), parent, name });
        (self.spans.len() - 1) as i64
    }

    fn str_lit(&mut self, s: &str) {
        self.toks.push(format!("{:?}", s));
    }

    pub fn expr(&mut self, e: &AstExpr, parent: i64) {
        match &e.node {
            Expr::Tuple(xs) => {
                let n = self.node("tuple", e.span, parent);
                self.t("(");
                for (i, x) in xs.iter().enumerate() {
                    if i > 0 {
                        self.t(",");
                    }
                    self.expr(x, n);
                }
                if xs.len() == 1 {
                    self.t(",");
                }
                self.t(")");
            }
            Expr::Dot(x, name) => {
                let n = self.node("dot", e.span, parent);
                self.expr(x, n);
                self.t(".");
                self.node_named("attr", name.span, n, Some(name.node.clone()));
                self.t(&name.node);
            }
            Expr::Call(f, args) => {
                let n = self.node("call", e.span, parent);
                self.expr(f, n);
                self.t("(");
                for (i, a) in args.args.iter().enumerate() {
                    if i > 0 {
                        self.t(",");
                    }
                    let an = self.node("arg", a.span, n);
                    match &a.node {
                        Argument::Positional(x) => self.expr(x, an),
                        Argument::Named(name, x) => {
                            self.node_named("argname", name.span, an, Some(name.node.clone()));
                            self.t(&name.node);
                            self.t("=");
                            self.expr(x, an);
                        }
                        Argument::Args(x) => {
                            self.t("*");
                            self.expr(x, an);
                        }
                        Argument::KwArgs(x) => {
                            self.t("**");
                            self.expr(x, an);
                        }
                    }
                }
                self.t(")");
            }
            Expr::Index(xi) => {
                let (x, i) = &**xi;
                let n = self.node("index", e.span, parent);
                self.expr(x, n);
                self.t("[");
                self.expr(i, n);
                self.t("]");
            }
            Expr::Index2(xij) => {
                // `a[b, c]`: same grouping as an index by the tuple (b, c); modelled as such.
                let (x, i, j) = &**xij;
                let n = self.node("index2", e.span, parent);
                self.expr(x, n);
                self.t("[");
                self.t("(");
                self.expr(i, n);
                self.t(",");
                self.expr(j, n);
                self.t(")");
                self.t("]");
            }
            Expr::Slice(x, lo, hi, step) => {
                let n = self.node("slice", e.span, parent);
                self.expr(x, n);
                self.t("[");
                if let Some(lo) = lo {
                    self.expr(lo, n);
                }
                self.t(":");
                if let Some(hi) = hi {
                    self.expr(hi, n);
                }
                if let Some(step) = step {
                    self.t(":");
                    self.expr(step, n);
                }
                self.t("]");
            }
            Expr::Identifier(id) => {
                let n = self.node("identexpr", e.span, parent);
                self.node_named("ident", id.span, n, Some(id.node.ident.clone()));
                self.t(&id.node.ident);
            }
            Expr::Lambda(l) => {
                let n = self.node("lambda", e.span, parent);
                self.t("(");
                self.t("lambda");
                self.params(&l.params, n);
                self.t(":");
                self.expr(&l.body, n);
                self.t(")");
            }
            Expr::Literal(lit) => match lit {
                AstLiteral::Int(i) => {
                    let n = self.node("litexpr", e.span, parent);
                    self.node("int", i.span, n);
                    self.toks.push(format!("{}", i.node));
                }
                AstLiteral::Float(f) => {
                    let n = self.node("litexpr", e.span, parent);
                    self.node("float", f.span, n);
                    self.toks.push(format!("{:?}", f.node));
                }
                AstLiteral::String(s) => {
                    let n = self.node("litexpr", e.span, parent);
                    self.node("string", s.span, n);
                    self.str_lit(&s.node);
                }
                AstLiteral::Bytes(b) => {
                    let n = self.node("litexpr", e.span, parent);
                    self.node("bytes", b.span, n);
                    let mut s = String::from("b\"");
                    for x in &b.node {
                        s.push_str(&format!("\\x{:02x}", x));
                    }
                    s.push('"');
                    self.toks.push(s);
                }
                AstLiteral::Ellipsis => {
                    self.node("ellipsis", e.span, parent);
                    self.t("...");
                }
            },
            Expr::Not(x) => {
                let n = self.node("not", e.span, parent);
                self.t("(");
                self.t("not");
                self.expr(x, n);
                self.t(")");
            }
            Expr::Minus(x) => self.unary("-", e, x, parent),
            Expr::Plus(x) => self.unary("+", e, x, parent),
            Expr::BitNot(x) => self.unary("~", e, x, parent),
            Expr::Op(l, op, r) => {
                let n = self.node("binop", e.span, parent);
                self.t("(");
                self.expr(l, n);
                for s in bin_op_toks(*op) {
                    self.t(s);
                }
                self.expr(r, n);
                self.t(")");
            }
            Expr::If(ctf) => {
                let (c, tt, ff) = &**ctf;
                let n = self.node("ifexpr", e.span, parent);
                self.t("(");
                self.expr(tt, n);
                self.t("if");
                self.expr(c, n);
                self.t("else");
                self.expr(ff, n);
                self.t(")");
            }
            Expr::List(xs) => {
                let n = self.node("list", e.span, parent);
                self.t("[");
                for (i, x) in xs.iter().enumerate() {
                    if i > 0 {
                        self.t(",");
                    }
                    self.expr(x, n);
                }
                self.t("]");
            }
            Expr::Dict(kvs) => {
                let n = self.node("dict", e.span, parent);
                self.t("{");
                for (i, (k, v)) in kvs.iter().enumerate() {
                    if i > 0 {
                        self.t(",");
                    }
                    self.expr(k, n);
                    self.t(":");
                    self.expr(v, n);
                }
                self.t("}");
            }
            Expr::ListComprehension(x, f, cl) => {
                let n = self.node("listcomp", e.span, parent);
                self.t("[");
                self.expr(x, n);
                self.for_clause(f, n);
                self.clauses(cl, n);
                self.t("]");
            }
            Expr::DictComprehension(kv, f, cl) => {
                let (k, v) = &**kv;
                let n = self.node("dictcomp", e.span, parent);
                self.t("{");
                self.expr(k, n);
                self.t(":");
                self.expr(v, n);
                self.for_clause(f, n);
                self.clauses(cl, n);
                self.t("}");
            }
            Expr::FString(fs) => {
                // modelled deviation: an f-string is its desugared `"fmt".format(args)` form
                let n = self.node("fstring", e.span, parent);
                self.node("fstring_format", fs.node.format.span, n);
                self.str_lit(&fs.node.format.node);
                self.t(".");
                self.t("format");
                self.t("(");
                for (i, x) in fs.node.expressions.iter().enumerate() {
                    if i > 0 {
                        self.t(",");
                    }
                    self.expr(x, n);
                }
                self.t(")");
            }
        }
    }

    fn unary(&mut self, op: &str, e: &AstExpr, x: &AstExpr, parent: i64) {
        let n = self.node("unary", e.span, parent);
        self.t("(");
        self.t(op);
        self.expr(x, n);
        self.t(")");
    }

    fn for_clause(&mut self, f: &ForClause, parent: i64) {
        self.t("for");
        self.target(&f.var, parent);
        self.t("in");
        self.expr(&f.over, parent);
    }

    fn clauses(&mut self, cl: &[Clause], parent: i64) {
        for c in cl {
            match c {
                Clause::For(f) => self.for_clause(f, parent),
                Clause::If(x) => {
                    self.t("if");
                    self.expr(x, parent);
                }
            }
        }
    }

    fn type_expr(&mut self, t: &AstTypeExpr, parent: i64) {
        let n = self.node("type", t.span, parent);
        self.expr(&t.node.expr, n);
    }

    fn params(&mut self, ps: &[AstParameter], parent: i64) {
        for (i, p) in ps.iter().enumerate() {
            if i > 0 {
                self.t(",");
            }
            let n = self.node("param", p.span, parent);
            match &p.node {
                Parameter::Slash => self.t("/"),
                Parameter::NoArgs => self.t("*"),
                Parameter::Normal(name, ty, def) => {
                    self.node_named("paramname", name.span, n, Some(name.node.ident.clone()));
                    self.t(&name.node.ident);
                    if let Some(ty) = ty {
                        self.t(":");
                        self.type_expr(ty, n);
                    }
                    if let Some(d) = def {
                        self.t("=");
                        self.expr(d, n);
                    }
                }
                Parameter::Args(name, ty) => {
                    self.t("*");
                    self.node_named("paramname", name.span, n, Some(name.node.ident.clone()));
                    self.t(&name.node.ident);
                    if let Some(ty) = ty {
                        self.t(":");
                        self.type_expr(ty, n);
                    }
                }
                Parameter::KwArgs(name, ty) => {
                    self.t("**");
                    self.node_named("paramname", name.span, n, Some(name.node.ident.clone()));
                    self.t(&name.node.ident);
                    if let Some(ty) = ty {
                        self.t(":");
                        self.type_expr(ty, n);
                    }
                }
            }
        }
    }

    pub fn target(&mut self, t: &AstAssignTarget, parent: i64) {
        match &t.node {
            AssignTarget::Tuple(xs) => {
                let n = self.node("target_tuple", t.span, parent);
                self.t("(");
                for (i, x) in xs.iter().enumerate() {
                    if i > 0 {
                        self.t(",");
                    }
                    self.target(x, n);
                }
                if xs.len() == 1 {
                    self.t(",");
                }
                self.t(")");
            }
            AssignTarget::Index(xi) => {
                let (x, i) = &**xi;
                let n = self.node("target_index", t.span, parent);
                self.expr(x, n);
                self.t("[");
                self.expr(i, n);
                self.t("]");
            }
            AssignTarget::Dot(x, name) => {
                let n = self.node("target_dot", t.span, parent);
                self.expr(x, n);
                self.t(".");
                self.node_named("attr", name.span, n, Some(name.node.clone()));
                self.t(&name.node);
            }
            AssignTarget::Identifier(id) => {
                self.node_named("target_ident", t.span, parent, Some(id.node.ident.clone()));
                self.t(&id.node.ident);
            }
        }
    }

    /// A statement sequence with nested `Statements` flattened (`a;b` on one line and two lines
    /// are the same sequence; Display prints one statement per line).
    fn flat<'a>(s: &'a AstStmt, out: &mut Vec<&'a AstStmt>) {
        match &s.node {
            Stmt::Statements(xs) => {
                for x in xs {
                    Self::flat(x, out);
                }
            }
            _ => out.push(s),
        }
    }

    fn block(&mut self, s: &AstStmt, parent: i64) {
        self.t("NEWLINE");
        self.t("INDENT");
        self.stmts(s, parent);
        self.t("DEDENT");
    }

    /// prints the flattened statement list of `s`; span nodes keep the real nesting
    pub fn stmts(&mut self, s: &AstStmt, parent: i64) {
        match &s.node {
            Stmt::Statements(xs) => {
                let n = self.node("statements", s.span, parent);
                for x in xs {
                    self.stmts(x, n);
                }
            }
            _ => self.stmt(s, parent),
        }
    }

    fn stmt(&mut self, s: &AstStmt, parent: i64) {
        match &s.node {
            Stmt::Statements(_) => self.stmts(s, parent),
            Stmt::Break => {
                self.node("break", s.span, parent);
                self.t("break");
                self.t("NEWLINE");
            }
            Stmt::Continue => {
                self.node("continue", s.span, parent);
                self.t("continue");
                self.t("NEWLINE");
            }
            Stmt::Pass => {
                self.node("pass", s.span, parent);
                self.t("pass");
                self.t("NEWLINE");
            }
            Stmt::Return(x) => {
                let n = self.node("return", s.span, parent);
                self.t("return");
                if let Some(x) = x {
                    self.expr(x, n);
                }
                self.t("NEWLINE");
            }
            Stmt::Expression(x) => {
                let n = self.node("exprstmt", s.span, parent);
                self.expr(x, n);
                self.t("NEWLINE");
            }
            Stmt::Assign(a) => {
                let n = self.node("assign", s.span, parent);
                self.target(&a.lhs, n);
                if let Some(ty) = &a.ty {
                    self.t(":");
                    self.type_expr(ty, n);
                }
                self.t("=");
                self.expr(&a.rhs, n);
                self.t("NEWLINE");
            }
            Stmt::AssignModify(l, op, r) => {
                let n = self.node("augassign", s.span, parent);
                self.target(l, n);
                self.t(assign_op_tok(*op));
                self.expr(r, n);
                self.t("NEWLINE");
            }
            Stmt::If(c, body) => {
                let n = self.node("if", s.span, parent);
                self.t("if");
                self.expr(c, n);
                self.t(":");
                self.block(body, n);
            }
            Stmt::IfElse(c, tf) => {
                let (a, b) = &**tf;
                let n = self.node("ifelse", s.span, parent);
                self.t("if");
                self.expr(c, n);
                self.t(":");
                self.block(a, n);
                self.t("else");
                self.t(":");
                self.block(b, n);
            }
            Stmt::For(f) => {
                let n = self.node("for", s.span, parent);
                self.t("for");
                self.target(&f.var, n);
                self.t("in");
                self.expr(&f.over, n);
                self.t(":");
                self.block(&f.body, n);
            }
            Stmt::Def(d) => {
                let n = self.node("def", s.span, parent);
                self.t("def");
                self.node_named("defname", d.name.span, n, Some(d.name.node.ident.clone()));
                self.t(&d.name.node.ident);
                self.t("(");
                self.params(&d.params, n);
                self.t(")");
                if let Some(rt) = &d.return_type {
                    self.t("->");
                    self.type_expr(rt, n);
                }
                self.t(":");
                self.block(&d.body, n);
            }
            Stmt::Load(l) => {
                let n = self.node("load", s.span, parent);
                self.t("load");
                self.t("(");
                self.node("string", l.module.span, n);
                self.str_lit(&l.module.node);
                for a in &l.args {
                    self.t(",");
                    self.node("loadlocal", a.local.span, n);
                    self.t(&a.local.node.ident);
                    self.t("=");
                    self.node("string", a.their.span, n);
                    self.str_lit(&a.their.node);
                }
                self.t(")");
                self.t("NEWLINE");
            }
        }
    }
}

pub fn normal_form(m: &AstModule) -> String {
    let mut w = Walk::new(false);
    w.stmts(m.statement(), -1);
    w.toks.join(" ")
}

pub fn walk_spans(m: &AstModule) -> Walk {
    let mut w = Walk::new(true);
    w.stmts(m.statement(), -1);
    w
}

// ------------------------------------------------------------------------------------------
// one case

pub struct Obs {
    pub st: &'static str, // ok | reject | panic
    pub nf: String,
    pub rt: String, // "" | ok | roundtrip_reject | roundtrip | fixed_point | panic
    pub err: String,
    pub disp: String,
}

pub fn parse_catch(src: &str, d: &Dialect) -> Result<Result<AstModule, String>, String> {
    util::catch(|| match AstModule::parse("c.star", src.to_owned(), d) {
        Ok(m) => Ok(m),
        Err(e) => Err(format!("{}", e.without_diagnostic())),
    })
}

pub fn observe(src: &str, d: &Dialect, roundtrip: bool) -> Obs {
    let mut o = Obs { st: "ok", nf: String::new(), rt: String::new(), err: String::new(), disp: String::new() };
    let m = match parse_catch(src, d) {
        Err(p) => {
            o.st = "panic";
            o.err = p;
            return o;
        }
        Ok(Err(e)) => {
            o.st = "reject";
            o.err = e;
            return o;
        }
        Ok(Ok(m)) => m,
    };
    match util::catch(|| normal_form(&m)) {
        Ok(nf) => o.nf = nf,
        Err(p) => {
            o.st = "panic";
            o.err = p;
            return o;
        }
    }
    if roundtrip {
        let r = util::catch(|| {
            let d1 = format!("{}", m.statement().node);
            let m2 = match AstModule::parse("c.star", d1.clone(), d) {
                Ok(m2) => m2,
                Err(e) => return ("roundtrip_reject", d1, format!("{}", e.without_diagnostic())),
            };
            let nf2 = normal_form(&m2);
            if nf2 != o.nf {
                return ("roundtrip", d1, nf2);
            }
            let d2 = format!("{}", m2.statement().node);
            if d2 != d1 {
                return ("fixed_point", d1, d2);
            }
            ("ok", String::new(), String::new())
        });
        match r {
            Ok((k, d1, x)) => {
                o.rt = k.to_owned();
                o.disp = d1;
                if k != "ok" {
                    o.err = x;
                }
            }
            Err(p) => {
                o.rt = "panic".to_owned();
                o.err = p;
            }
        }
    }
    o
}

fn obs_json(id: &J, o: &Obs) -> J {
    let mut j = json!({"id": id, "st": o.st});
    if o.st == "ok" {
        j["nf"] = json!(o.nf);
        j["rt"] = json!(o.rt);
        if o.rt != "ok" && !o.rt.is_empty() {
            j["disp"] = json!(o.disp);
            j["err"] = json!(o.err);
        }
    } else {
        j["err"] = json!(o.err);
    }
    j
}

fn run_cases(inp: &str, outp: &str, opts: &[String]) -> anyhow::Result<()> {
    let d = dialect_by_name(util::opt(opts, "--dialect").unwrap_or("c06"));
    let cases = util::read_ndjson(inp)?;
    let mut w = util::NdWriter::create(outp)?;
    for c in cases {
        let src = c["src"].as_str().unwrap_or("");
        let o = observe(src, &d, true);
        w.write(&obs_json(&c["id"], &o))?;
    }
    w.finish()
}

fn run_enum(alpha: &str, n: usize, outp: &str, opts: &[String]) -> anyhow::Result<()> {
    let alphabet: Vec<String> = serde_json::from_str(&std::fs::read_to_string(alpha)?)?;
    let threads = util::opt_u64(opts, "--threads", 8) as usize;
    let d = dialect_c06();
    let k = alphabet.len();
    // work units: the first token (and the empty sequence)
    let units: Vec<Option<usize>> = std::iter::once(None).chain((0..k).map(Some)).collect();
    let next = std::sync::atomic::AtomicUsize::new(0);
    let results: std::sync::Mutex<Vec<(Vec<u8>, u64, u64)>> = std::sync::Mutex::new(Vec::new());
    std::thread::scope(|s| {
        for _ in 0..threads {
            s.spawn(|| {
                let mut buf: Vec<u8> = Vec::new();
                let mut total = 0u64;
                let mut accepted = 0u64;
                loop {
                    let u = next.fetch_add(1, std::sync::atomic::Ordering::SeqCst);
                    if u >= units.len() {
                        break;
                    }
                    match units[u] {
                        None => {
                            total += 1;
                            Self_::one(&alphabet, &[], &d, &mut buf, &mut accepted);
                        }
                        Some(f) => {
                            let mut cur = vec![f];
                            Self_::rec(&mut cur, n, k, &mut |sq: &[usize]| {
                                total += 1;
                                Self_::one(&alphabet, sq, &d, &mut buf, &mut accepted);
                            });
                        }
                    }
                }
                results.lock().unwrap().push((buf, total, accepted));
            });
        }
    });
    let mut f = std::io::BufWriter::new(std::fs::File::create(outp)?);
    let mut total = 0;
    let mut accepted = 0;
    for (buf, t, a) in results.into_inner().unwrap() {
        f.write_all(&buf)?;
        total += t;
        accepted += a;
    }
    writeln!(f, "{}", json!({"summary": true, "total": total, "accepted": accepted}))?;
    f.flush()?;
    Ok(())
}

struct Self_;
impl Self_ {
    fn rec(cur: &mut Vec<usize>, n: usize, k: usize, f: &mut dyn FnMut(&[usize])) {
        f(cur);
        if cur.len() < n {
            for t in 0..k {
                cur.push(t);
                Self_::rec(cur, n, k, f);
                cur.pop();
            }
        }
    }

    fn one(alphabet: &[String], sq: &[usize], d: &Dialect, buf: &mut Vec<u8>, accepted: &mut u64) {
        let mut src = String::new();
        for (i, t) in sq.iter().enumerate() {
            if i > 0 {
                src.push(' ');
            }
            src.push_str(&alphabet[*t]);
        }
        src.push('\n');
        let o = observe(&src, d, true);
        if o.st == "reject" {
            return;
        }
        if o.st == "ok" {
            *accepted += 1;
        }
        let mut j = obs_json(&J::Null, &o);
        j["t"] = json!(sq);
        serde_json::to_writer(&mut *buf, &j).unwrap();
        buf.push(b'\n');
    }
}

pub fn install_panic_hook() {
    std::panic::set_hook(Box::new(|info| {
        util::LAST_PANIC.with(|p| *p.borrow_mut() = Some(format!("{}", info)));
    }));
}

fn main() -> ExitCode {
    let args: Vec<String> = std::env::args().collect();
    install_panic_hook();
    let r = match args.get(1).map(|s| s.as_str()) {
        Some("cases") if args.len() >= 4 => run_cases(&args[2], &args[3], &args[4..]),
        Some("enum") if args.len() >= 5 => {
            run_enum(&args[2], args[3].parse().unwrap_or(0), &args[4], &args[5..])
        }
        _ => {
            eprintln!("usage: vh_c06 cases <in> <out> [--dialect D] | enum <alphabet.json> <N> <out>");
            return ExitCode::from(2);
        }
    };
    match r {
        Ok(()) => ExitCode::SUCCESS,
        Err(e) => {
            eprintln!("vh_c06: {:#}", e);
            ExitCode::from(2)
        }
    }
}

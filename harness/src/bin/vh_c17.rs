//! vh_c17: the Rust side of C17 (static type checker: silent on well-typed modules, sound where
//! it commits, total and deterministic on every parseable module).
//!
//!   vh_c17 check  <cases.ndjson> <out.ndjson> [--from N]   typecheck twice + evaluate + encode values
//!   vh_c17 tc     <cases.ndjson> <out.ndjson> [--from N]   typecheck once (fresh process), diagnostics only
//!   vh_c17 probe  <file.star>                                print what the checker says (development aid)
//!
//! A case is `{"id", "src", "exports":[names]}`. Output lines are flushed one by one so that the
//! driver can tell which case killed the process (abort / stack overflow / hang are observations).
#![allow(clippy::all)]
#![allow(dead_code)]

#[path = "../util.rs"]
mod util;

use std::collections::BTreeSet;
use std::collections::HashMap;
use std::io::Write;
use std::process::ExitCode;
use std::time::Instant;

use serde_json::json;
use serde_json::Value as J;
use starlark::environment::Globals;
use starlark::environment::Module;
use starlark::eval::Evaluator;
use starlark::syntax::AstModule;
use starlark::syntax::Dialect;
use starlark::typing::AstModuleTypecheck;
use starlark::values::dict::DictRef;
use starlark::values::list::ListRef;
use starlark::values::tuple::TupleRef;
use starlark::values::Value;
use starlark_syntax::syntax::ast::AssignTargetP;
use starlark_syntax::syntax::ast::AstStmt;
use starlark_syntax::syntax::ast::StmtP;

fn dialect() -> Dialect {
    Dialect::AllOptionsInternal
}

fn globals() -> Globals {
    use dupe::Dupe;
    static G: std::sync::OnceLock<Globals> = std::sync::OnceLock::new();
    G.get_or_init(Globals::extended_internal).dupe()
}

/// Names bound at module level (not inside defs), in source order, de-duplicated.
fn module_names(stmt: &AstStmt, out: &mut Vec<String>) {
    fn push(out: &mut Vec<String>, s: &str) {
        if !out.iter().any(|x| x == s) {
            out.push(s.to_owned());
        }
    }
    match &stmt.node {
        StmtP::Statements(xs) => {
            for x in xs {
                module_names(x, out);
            }
        }
        StmtP::Assign(a) => a.lhs.visit_lvalue(|i| push(out, i.ident.as_str())),
        StmtP::AssignModify(lhs, _, _) => lhs.visit_lvalue(|i| push(out, i.ident.as_str())),
        StmtP::If(_, b) => module_names(b, out),
        StmtP::IfElse(_, tb) => {
            module_names(&tb.0, out);
            module_names(&tb.1, out);
        }
        StmtP::For(f) => {
            f.var.visit_lvalue(|i| push(out, i.ident.as_str()));
            module_names(&f.body, out);
        }
        StmtP::Def(d) => push(out, d.name.ident.as_str()),
        StmtP::Load(l) => {
            for a in &l.args {
                push(out, a.local.ident.as_str());
            }
        }
        _ => {}
    }
    let _ = AssignTargetP::<starlark_syntax::syntax::ast::AstNoPayload>::Tuple;
}

struct Diag {
    /// (span, message)
    errors: Vec<(String, String)>,
    iface: Vec<(String, String)>,
    approx: Vec<String>,
    typemap: String,
}

impl Diag {
    fn text(&self) -> String {
        let mut s = String::new();
        for (sp, m) in &self.errors {
            s.push_str(&format!("E {} {}\n", sp, m));
        }
        for (n, t) in &self.iface {
            s.push_str(&format!("I {} : {}\n", n, t));
        }
        for a in &self.approx {
            s.push_str(&format!("A {}\n", a));
        }
        s.push_str(&self.typemap);
        s
    }
}

fn typecheck(src: &str, names_hint: Option<&[String]>) -> Result<Result<Diag, String>, String> {
    // outer Err: panic; inner Err: does not parse
    let src = src.to_owned();
    let hint: Option<Vec<String>> = names_hint.map(|x| x.to_vec());
    util::catch(move || {
        let ast = match AstModule::parse("m.star", src, &dialect()) {
            Ok(a) => a,
            Err(e) => return Err(format!("{:#}", e)),
        };
        let mut names = Vec::new();
        module_names(ast.statement(), &mut names);
        if let Some(h) = hint {
            for n in h {
                if !names.contains(&n) {
                    names.push(n);
                }
            }
        }
        let g = globals();
        let (errors, typemap, iface, approx) = ast.typecheck(&g, &HashMap::new());
        let errors = errors
            .iter()
            .map(|e| {
                let sp = match e.span() {
                    Some(s) => format!("{}", s),
                    None => "-".to_owned(),
                };
                (sp, format!("{}", e.without_diagnostic()))
            })
            .collect();
        let mut ifv = Vec::new();
        for n in &names {
            if let Some(t) = iface.get(n) {
                ifv.push((n.clone(), format!("{}", t)));
            }
        }
        Ok(Diag {
            errors,
            iface: ifv,
            approx: approx.iter().map(|a| format!("{}", a)).collect(),
            typemap: format!("{}", typemap),
        })
    })
}

fn encode(v: Value, depth: usize) -> J {
    if depth > 12 {
        return json!({"t": "deep", "a": []});
    }
    if v.is_none() {
        return json!({"t": "none", "a": []});
    }
    if v.unpack_bool().is_some() {
        return json!({"t": "bool", "a": []});
    }
    let tn = v.get_type();
    match tn {
        "int" => json!({"t": "int", "a": []}),
        "string" => json!({"t": "str", "a": []}),
        "float" => json!({"t": "float", "a": []}),
        "function" => json!({"t": "fn", "a": []}),
        "list" => {
            let l = ListRef::from_value(v).unwrap();
            J::Object(
                [
                    ("t".to_owned(), J::String("list".to_owned())),
                    ("a".to_owned(), J::Array(l.iter().map(|x| encode(x, depth + 1)).collect())),
                ]
                .into_iter()
                .collect(),
            )
        }
        "tuple" => {
            let l = TupleRef::from_value(v).unwrap();
            json!({"t": "tuple", "a": l.iter().map(|x| encode(x, depth + 1)).collect::<Vec<_>>()})
        }
        "dict" => {
            let d = DictRef::from_value(v).unwrap();
            let items: Vec<J> = d
                .iter()
                .map(|(k, x)| json!({"t": "tuple", "a": [encode(k, depth + 1), encode(x, depth + 1)]}))
                .collect();
            json!({"t": "dict", "a": items})
        }
        other => json!({"t": "other", "a": [], "n": other}),
    }
}

/// Evaluate the module chunk by chunk (each chunk = one top-level statement of the generated
/// module) in ONE module environment, continuing after a failing chunk, so that one run-time
/// error costs one observation only.  Returns (failures [(chunk, text)], values of `names`).
fn evaluate(chunks: &[String], names: &[String], static_tc: bool) -> Result<(Vec<(usize, String)>, Vec<(String, J, String)>), String> {
    let chunks = chunks.to_vec();
    let names = names.to_vec();
    util::catch(move || {
        let g = globals();
        Module::with_temp_heap(|module| {
            let mut fails = Vec::new();
            for (i, src) in chunks.iter().enumerate() {
                let ast = match AstModule::parse("m.star", src.clone(), &dialect()) {
                    Ok(a) => a,
                    Err(e) => {
                        fails.push((i, format!("parse: {:#}", e)));
                        continue;
                    }
                };
                let mut eval = Evaluator::new(&module);
                if static_tc {
                    eval.enable_static_typechecking(true);
                }
                if let Err(e) = eval.eval_module(ast, &g) {
                    let sp = match e.span() {
                        Some(s) => format!("{}", s),
                        None => "-".to_owned(),
                    };
                    fails.push((i, format!("{} {}", sp, e.without_diagnostic())));
                }
            }
            let mut vals = Vec::new();
            for n in &names {
                if let Some(v) = module.get(n) {
                    let r = util::catch(|| v.to_repr()).unwrap_or_else(|_| "<repr panicked>".to_owned());
                    let r: String = r.chars().take(160).collect();
                    vals.push((n.clone(), encode(v, 0), r));
                }
            }
            (fails, vals)
        })
    })
}

fn diag_json(d: &Diag) -> J {
    json!({
        "errors": d.errors.iter().map(|(s, m)| json!({"span": s, "msg": m})).collect::<Vec<_>>(),
        "iface": d.iface.iter().map(|(n, t)| json!([n, t])).collect::<Vec<_>>(),
        "approx": d.approx,
        "typemap": d.typemap,
    })
}

fn run_check(case: &J, eval: bool) -> J {
    let id = case["id"].clone();
    let src = case["src"].as_str().unwrap_or("");
    let exports: Vec<String> = case["exports"]
        .as_array()
        .map(|a| a.iter().filter_map(|x| x.as_str().map(|s| s.to_owned())).collect())
        .unwrap_or_default();
    let t0 = Instant::now();
    let r1 = typecheck(src, Some(&exports));
    let r2 = typecheck(src, Some(&exports));
    let mut out = serde_json::Map::new();
    out.insert("id".into(), id);
    let (d1, d2) = match (r1, r2) {
        (Err(p), _) | (_, Err(p)) => {
            out.insert("panic".into(), J::String(p));
            out.insert("where".into(), J::String("typecheck".into()));
            return J::Object(out);
        }
        (Ok(Err(e)), _) | (_, Ok(Err(e))) => {
            out.insert("parse_error".into(), J::String(e));
            return J::Object(out);
        }
        (Ok(Ok(a)), Ok(Ok(b))) => (a, b),
    };
    let t1 = d1.text();
    let same = t1 == d2.text();
    out.insert("same_twice".into(), J::Bool(same));
    if !same {
        out.insert("diag2".into(), J::String(d2.text()));
    }
    out.insert("diag".into(), J::String(t1));
    out.insert("tc".into(), diag_json(&d1));
    out.insert("tc_ms".into(), json!(t0.elapsed().as_millis() as u64));
    if eval {
        let chunks: Vec<String> = match case["chunks"].as_array() {
            Some(a) => a.iter().filter_map(|x| x.as_str().map(|s| s.to_owned())).collect(),
            None => vec![src.to_owned()],
        };
        for (key, stc) in [("eval", false), ("eval_static", true)] {
            match evaluate(&chunks, &exports, stc) {
                Err(p) => {
                    out.insert(key.into(), json!({"panic": p}));
                }
                Ok((fails, vals)) => {
                    let mut m = serde_json::Map::new();
                    m.insert(
                        "fails".into(),
                        J::Array(fails.into_iter().map(|(i, e)| json!({"chunk": i, "err": e})).collect()),
                    );
                    if !stc {
                        m.insert(
                            "values".into(),
                            J::Array(vals.into_iter().map(|(n, v, r)| json!({"name": n, "v": v, "repr": r})).collect()),
                        );
                    }
                    out.insert(key.into(), J::Object(m));
                }
            }
        }
    }
    J::Object(out)
}

fn run_tc(case: &J) -> J {
    let src = case["src"].as_str().unwrap_or("");
    let exports: Vec<String> = case["exports"]
        .as_array()
        .map(|a| a.iter().filter_map(|x| x.as_str().map(|s| s.to_owned())).collect())
        .unwrap_or_default();
    match typecheck(src, Some(&exports)) {
        Err(p) => json!({"id": case["id"], "panic": p, "where": "typecheck"}),
        Ok(Err(e)) => json!({"id": case["id"], "parse_error": e}),
        Ok(Ok(d)) => json!({"id": case["id"], "diag": d.text()}),
    }
}

fn batch(mode: &str, cases: &str, outp: &str, opts: &[String]) -> anyhow::Result<()> {
    let cs = util::read_ndjson(cases)?;
    let from = util::opt_u64(opts, "--from", 0) as usize;
    let no_eval = opts.iter().any(|x| x == "--no-eval");
    let mut f = std::fs::OpenOptions::new().create(true).append(true).open(outp)?;
    for c in cs.iter().skip(from) {
        // announce the case first: if the process dies the driver knows where
        let o = match mode {
            "check" => run_check(c, !no_eval && c["eval"].as_bool().unwrap_or(true)),
            _ => run_tc(c),
        };
        let mut line = serde_json::to_vec(&o)?;
        line.push(b'\n');
        f.write_all(&line)?;
        f.flush()?;
    }
    Ok(())
}

fn probe(path: &str) -> anyhow::Result<()> {
    let src = std::fs::read_to_string(path)?;
    match typecheck(&src, None) {
        Err(p) => println!("PANIC {}", p),
        Ok(Err(e)) => println!("PARSE ERROR {}", e),
        Ok(Ok(d)) => {
            print!("{}", d.text());
            let names: Vec<String> = d.iface.iter().map(|x| x.0.clone()).collect();
            for stc in [false, true] {
                match evaluate(&[src.clone()], &names, stc) {
                    Err(p) => println!("EVAL PANIC {}", p),
                    Ok((fails, vals)) => {
                        println!("EVAL static={} fails={:?}", stc, fails);
                        if !stc {
                            for (n, v, r) in vals {
                                println!("V {} = {} {}", n, r, v);
                            }
                        }
                    }
                }
            }
        }
    }
    Ok(())
}

fn main() -> ExitCode {
    let args: Vec<String> = std::env::args().collect();
    std::panic::set_hook(Box::new(|info| {
        util::LAST_PANIC.with(|p| *p.borrow_mut() = Some(format!("{}", info)));
    }));
    let _ = BTreeSet::<u8>::new();
    let r = match args.get(1).map(|s| s.as_str()) {
        Some("check") | Some("tc") if args.len() >= 4 => batch(&args[1], &args[2], &args[3], &args[4..]),
        Some("probe") if args.len() >= 3 => probe(&args[2]),
        _ => {
            eprintln!("usage: vh_c17 check|tc <cases.ndjson> <out.ndjson> [--from N] | probe <file>");
            return ExitCode::from(2);
        }
    };
    match r {
        Ok(()) => ExitCode::SUCCESS,
        Err(e) => {
            eprintln!("vh_c17: {:#}", e);
            ExitCode::from(2)
        }
    }
}

//! vh_c05: the Rust side of C05 (parsing is total; spans are well formed; dialects are monotone).
//!
//! For every input it reports what the real code did -- it computes no expectation:
//!   * (optional) the real lexer's token kinds and byte spans;
//!   * accept / reject / panic of `AstModule::parse` under a chain of dialects
//!     Standard <= C06 dialect <= Extended <= AllOptionsInternal, and the class of the tree
//!     (equal normal form = equal class);
//!   * the span tree of every distinct accepted tree (kind, begin, end, parent, and for
//!     identifier / literal leaves the covered text) and the span of every syntax error,
//!     as records for Trace_Spans.tla.
//! Parsing runs on a thread with an explicit stack size; a stack overflow / abort kills this
//! process, which the driver observes (the id of the input being parsed is in `<out>.cur`).
//!
//!   vh_c05 run    <cases.ndjson> <out.ndjson> [--lex 1] [--stack-mb N]     case {"id","src"}
//!   vh_c05 soup   <out.ndjson> --seed S --n N --max L [--stack-mb N]
//!   vh_c05 mutate <bases.ndjson> <catalogue.json> <out.ndjson> --seed S --budget N
//!   vh_c05 nest   <out.ndjson> --depth D [--stack-mb N]
#![allow(clippy::all)]
#![allow(dead_code)]

#[path = "vh_c06.rs"]
mod c06;

use std::io::Write;
use std::process::ExitCode;

use c06::util;
use serde_json::json;
use serde_json::Value as J;
use starlark_syntax::codemap::CodeMap;
use starlark_syntax::lexer::Lexer;
use starlark_syntax::lexer::Token;
use starlark_syntax::syntax::AstModule;
use starlark_syntax::syntax::Dialect;

fn dialect_chain() -> Vec<Dialect> {
    vec![Dialect::Standard, c06::dialect_c06(), Dialect::Extended, Dialect::AllOptionsInternal]
}

fn tok_kind(t: &Token) -> String {
    match t {
        Token::Identifier(_) => "id".to_owned(),
        Token::Int(_) => "int".to_owned(),
        Token::Float(_) => "float".to_owned(),
        Token::String(_) => "str".to_owned(),
        Token::Bytes(_) => "bytes".to_owned(),
        Token::Newline => "NEWLINE".to_owned(),
        Token::Indent => "INDENT".to_owned(),
        Token::Dedent => "DEDENT".to_owned(),
        Token::Comment(_) => "COMMENT".to_owned(),
        Token::FStringStart(_) => "FSTRING_START".to_owned(),
        Token::FStringText(_) => "FSTRING_TEXT".to_owned(),
        Token::FStringExprStart => "FSTRING_EXPR_START".to_owned(),
        Token::FStringExprEnd => "FSTRING_EXPR_END".to_owned(),
        Token::FStringBang => "FSTRING_BANG".to_owned(),
        Token::FStringEnd => "FSTRING_END".to_owned(),
        other => {
            // Display is e.g. `symbol '+='` or `keyword 'if'`
            let s = format!("{}", other);
            match (s.find('\''), s.rfind('\'')) {
                (Some(a), Some(b)) if b > a => s[a + 1..b].to_owned(),
                _ => s,
            }
        }
    }
}

fn real_lex(src: &str) -> J {
    let r = util::catch(|| {
        let cm = CodeMap::new("c.star".to_owned(), src.to_owned());
        let lx = Lexer::new(cm.source(), &Dialect::Standard, cm.clone());
        let mut toks = Vec::new();
        for t in lx {
            match t {
                Ok((b, tok, e)) => {
                    let k = tok_kind(&tok);
                    if k != "COMMENT" {
                        toks.push(json!([k, b, e]));
                    }
                }
                Err(e) => {
                    let err = e.into_error();
                    let sp = err.span().map(|s| json!([s.span.begin().get(), s.span.end().get()]));
                    return json!({"st": "err", "toks": toks, "espan": sp});
                }
            }
        }
        json!({"st": "ok", "toks": toks})
    });
    match r {
        Ok(j) => j,
        Err(p) => json!({"st": "panic", "msg": p}),
    }
}

/// does the real lexer hit its first error while an f-string is open?
fn lexer_stops_inside_fstring(src: &str) -> bool {
    let cm = CodeMap::new("c.star".to_owned(), src.to_owned());
    let lx = Lexer::new(cm.source(), &Dialect::Standard, cm.clone());
    let mut open = 0i64;
    for t in lx {
        match t {
            Ok((_, Token::FStringStart(_), _)) => open += 1,
            Ok((_, Token::FStringEnd, _)) => open -= 1,
            Ok(_) => {}
            Err(_) => return open > 0,
        }
    }
    false
}

fn non_boundaries(src: &str) -> Vec<usize> {
    (1..src.len()).filter(|i| !src.is_char_boundary(*i)).collect()
}

fn chk_of(kind: &str) -> &'static str {
    match kind {
        "ident" | "attr" | "argname" | "paramname" | "target_ident" | "defname" => "ident",
        "int" => "int",
        "float" => "float",
        "string" => "string",
        "bytes" => "bytes",
        _ => "",
    }
}

fn tree_record(id: &J, src: &str, nb: &[usize], m: &AstModule) -> J {
    let w = c06::walk_spans(m);
    let mut nodes = Vec::with_capacity(w.spans.len());
    for n in &w.spans {
        let chk = chk_of(n.kind);
        let mut o = json!({"k": n.kind, "b": n.b, "e": n.e, "p": n.parent + 1, "chk": chk});
        if !chk.is_empty() {
            let text = src.get(n.b as usize..n.e as usize);
            if chk == "ident" {
                o["name"] = json!(n.name.clone().unwrap_or_default());
                o["text"] = json!(text.unwrap_or("<span is not a slice of the file>"));
            } else {
                let t = text.unwrap_or("");
                let cps: Vec<u32> = t.chars().map(|c| c as u32).collect();
                o["head"] = json!(cps.iter().take(8).collect::<Vec<_>>());
                o["last"] = json!(cps.last().copied().unwrap_or(0));
                o["n"] = json!(cps.len());
            }
        }
        nodes.push(o);
    }
    json!({"t": "tree", "id": id, "len": src.len(), "nb": nb, "nodes": nodes})
}

/// everything observed for one input
fn observe(id: &J, gen: &str, src: &str, lex: bool, keep_src: bool) -> J {
    let mut row = json!({"id": id, "gen": gen});
    if keep_src {
        row["src"] = json!(src);
    }
    if lex {
        row["lex"] = real_lex(src);
    }
    let nb = non_boundaries(src);
    let mut acc = Vec::new();
    let mut nfs: Vec<Option<String>> = Vec::new();
    let mut recs = Vec::new();
    let mut panics = Vec::new();
    let mut errs = Vec::new();
    for (di, d) in dialect_chain().iter().enumerate() {
        match c06::parse_catch(src, d) {
            Err(p) => {
                panics.push(json!({"dialect": di, "msg": p}));
                acc.push(false);
                nfs.push(None);
            }
            Ok(Err(_)) => {
                // re-parse to get at the span (parse_catch only keeps the message)
                let e = util::catch(|| match AstModule::parse("c.star", src.to_owned(), d) {
                    Err(e) => {
                        let msg = format!("{}", e.without_diagnostic());
                        let mlen = msg.len();
                        // where the error arose, as observed on the real lexer (identifies the failing site)
                        let ctx = if msg.contains("escape sequence") {
                            if lexer_stops_inside_fstring(src) { "fstring_escape" } else { "string_escape" }
                        } else {
                            "other"
                        };
                        match e.span() {
                            Some(fs) => json!({"none": false, "b": fs.span.begin().get(), "e": fs.span.end().get(), "mlen": mlen, "ctx": ctx}),
                            None => json!({"none": true, "b": 0, "e": 0, "mlen": mlen, "ctx": ctx}),
                        }
                    }
                    Ok(_) => json!({"none": true, "b": 0, "e": 0, "mlen": 0}),
                });
                match e {
                    Ok(e) => {
                        if !errs.contains(&e) {
                            errs.push(e.clone());
                            recs.push(json!({"t": "err", "id": id, "len": src.len(), "nb": nb, "err": e}));
                        }
                    }
                    Err(p) => panics.push(json!({"dialect": di, "msg": p})),
                }
                acc.push(false);
                nfs.push(None);
            }
            Ok(Ok(m)) => {
                let nf = util::catch(|| c06::normal_form(&m));
                match nf {
                    Ok(nf) => {
                        if !nfs.iter().any(|x| x.as_deref() == Some(nf.as_str())) {
                            match util::catch(|| tree_record(id, src, &nb, &m)) {
                                Ok(r) => recs.push(r),
                                Err(p) => panics.push(json!({"dialect": di, "msg": p})),
                            }
                        }
                        acc.push(true);
                        nfs.push(Some(nf));
                    }
                    Err(p) => {
                        panics.push(json!({"dialect": di, "msg": p}));
                        acc.push(false);
                        nfs.push(None);
                    }
                }
            }
        }
    }
    // class of each dialect's tree: index of the first dialect with the same normal form
    let nfc: Vec<usize> = nfs
        .iter()
        .enumerate()
        .map(|(i, x)| match x {
            None => 0,
            Some(s) => 1 + nfs.iter().position(|y| y.as_deref() == Some(s.as_str())).unwrap_or(i),
        })
        .collect();
    recs.push(json!({"t": "mono", "id": id, "acc": acc, "nfc": nfc}));
    row["acc"] = json!(acc);
    row["recs"] = json!(recs);
    if !panics.is_empty() {
        row["panic"] = json!(panics);
        row["src"] = json!(src);
    }
    row
}

struct Out {
    f: std::io::BufWriter<std::fs::File>,
    cur: String,
}

impl Out {
    fn new(path: &str) -> anyhow::Result<Out> {
        Ok(Out { f: std::io::BufWriter::new(std::fs::File::create(path)?), cur: format!("{}.cur", path) })
    }
    /// remember what is about to be parsed, so that an abort can be attributed
    fn mark(&mut self, id: &J, src: &str) {
        let _ = self.f.flush();
        let _ = std::fs::write(&self.cur, serde_json::to_vec(&json!({"id": id, "src": src})).unwrap());
    }
    fn put(&mut self, row: &J) -> anyhow::Result<()> {
        serde_json::to_writer(&mut self.f, row)?;
        self.f.write_all(b"\n")?;
        Ok(())
    }
    fn done(mut self) -> anyhow::Result<()> {
        self.f.flush()?;
        let _ = std::fs::remove_file(&self.cur);
        Ok(())
    }
}

fn run_cases(inp: &str, outp: &str, opts: &[String]) -> anyhow::Result<()> {
    let lex = util::opt(opts, "--lex") == Some("1");
    let mark = util::opt(opts, "--mark") == Some("1");
    let cases = util::read_ndjson(inp)?;
    let mut out = Out::new(outp)?;
    for c in cases {
        let src = c["src"].as_str().unwrap_or("");
        if mark {
            out.mark(&c["id"], src);
        }
        let row = observe(&c["id"], c["gen"].as_str().unwrap_or("case"), src, lex, false);
        out.put(&row)?;
    }
    out.done()
}

const SOUP_TOKENS: &[&str] = &[
    "a", "b", "foo", "x1", "_", "0", "1", "12", "0x1f", "0o7", "0b1", "1.5", "1e3", ".5", "1.", "\"s\"", "'t'", "\"\"\"",
    "'''", "r\"", "b'", "rb\"", "f\"", "f'", "fr\"", "{", "}", "{{", "}}", "!r", "!s", "!", "\\", "\\\n", "\\\r\n", "\n",
    "\r\n", "\r", "\t", " ", "  ", "    ", "#", "# c\n", "(", ")", "[", "]", ",", ":", ";", ".", "...", "=", "==", "!=", "<",
    ">", "<=", ">=", "+", "-", "*", "/", "//", "%", "**", "&", "|", "^", "~", "<<", ">>", "+=", "-=", "*=", "//=", "<<=",
    "->", "and", "or", "not", "in", "if", "else", "elif", "for", "def", "lambda", "return", "pass", "break", "continue",
    "load", "while", "class", "é", "𝄞", "\u{0}", "\u{7f}", "\u{2028}", "\\x", "\\u12", "\\777", "\\\"", "\n  ", "\n    ",
    "\n ", "def f(a, b=1, *c, **d):\n  ", "if a:\n  ", "for x in y:\n    ", "[a for a in b if c]", "x: int = ",
];

/// A lexeme (string of every flavour, identifier, number, comment) whose length sits around a
/// power of two (where a buffer or a truncated excerpt would end), filled with characters of 1-4
/// bytes at a random phase, so that some multi-byte character straddles every fixed byte offset.
fn long_lexeme(r: &mut util::Rng) -> String {
    let target = match r.below(6) {
        0 => 28 + r.below(8),
        1 | 2 => 60 + r.below(10),
        3 => 124 + r.below(10),
        4 => 250 + r.below(12),
        _ => 1018 + r.below(12),
    } as usize;
    let fill = |r: &mut util::Rng, ascii_only: bool, ident: bool| -> String {
        let mut s = String::new();
        for _ in 0..r.below(4) {
            s.push('a');
        }
        let wide: &[&str] = if ident { &["a", "_", "b1"] } else { &["a", "é", "€", "𝄞", " ", "b"] };
        let heavy = r.below(4); // which width dominates
        while s.len() < target {
            let c = if ascii_only { "a" } else if r.chance(2, 3) { wide[(heavy as usize + 1) % wide.len()] } else { wide[r.below(wide.len() as u64) as usize] };
            s.push_str(c);
        }
        s
    };
    match r.below(12) {
        0 | 1 => format!("\"{}\"", fill(r, false, false)),
        2 => format!("'{}'", fill(r, false, false)),
        3 => format!("\"\"\"{}\"\"\"", fill(r, false, false)),
        4 => format!("r\"{}\"", fill(r, false, false)),
        5 => {
            let ascii = r.chance(1, 2);
            format!("b\"{}\"", fill(r, ascii, false))
        }
        6 => format!("f\"{}{{a}}{}\"", fill(r, false, false), fill(r, false, false)),
        7 => fill(r, true, true),
        8 => format!("{}é{}", fill(r, true, true), "z"),
        9 => format!("1{}", "0".repeat(target)),
        10 => format!("# {}\n", fill(r, false, false)),
        _ => format!("\"{}", fill(r, false, false)), // unterminated
    }
}

/// the lexeme in positions where the parser accepts it and where it must reject it
fn long_lexeme_text(r: &mut util::Rng) -> String {
    const CTX: &[&str] = &[
        "x = {L}\n", "x = 1 {L}\n", "def f({L}):\n    pass\n", "f(a {L})\n", "{L} {L}\n", "[x for x in y {L}]\n", "{L}.foo\n",
        "a.{L}\n", "x = ({L}\n", "{L} = 1\n", "load({L}, {L})\n", "lambda {L}: 1\n", "if {L}:\n    pass\n", "x[{L}:\n",
        "x = [{L}, {L}]\n", "def {L}(): pass\n", "for {L} in {L}: pass\n", "x = f({L}={L})\n", "return {L}\n", "{L}", "x = {L} if {L} else\n",
        "x = not {L} in\n", "x: {L} = 1\n", "def f(a: {L}) -> {L}: pass\n", "  {L}\n", "x = {{{L}: {L}}}\n", "x = {L} {L} {L}\n",
    ];
    let c = CTX[r.below(CTX.len() as u64) as usize];
    let mut out = String::new();
    for part in c.split("{L}").enumerate() {
        if part.0 > 0 {
            out.push_str(&long_lexeme(r));
        }
        out.push_str(part.1);
    }
    out
}

fn soup_text(r: &mut util::Rng, max: usize) -> String {
    let len = 1 + r.below(max as u64) as usize;
    let mode = r.below(5);
    if mode == 4 {
        return long_lexeme_text(r);
    }
    if mode == 0 {
        // random bytes (lossily decoded: the parser takes a String)
        let bytes: Vec<u8> = (0..len)
            .map(|_| {
                if r.chance(3, 4) {
                    b" \t\n\r#()[]{}'\"\\abfr01.,:=+-<>!*/%&|^~;_xyz"[r.below(41) as usize]
                } else {
                    r.below(256) as u8
                }
            })
            .collect();
        String::from_utf8_lossy(&bytes).into_owned()
    } else {
        let mut s = String::new();
        while s.len() < len {
            s.push_str(SOUP_TOKENS[r.below(SOUP_TOKENS.len() as u64) as usize]);
            if mode == 2 && r.chance(1, 2) {
                s.push(' ');
            }
        }
        s
    }
}

fn run_soup(outp: &str, opts: &[String]) -> anyhow::Result<()> {
    let seed = util::opt_u64(opts, "--seed", 1);
    let n = util::opt_u64(opts, "--n", 1000);
    let max = util::opt_u64(opts, "--max", 2048) as usize;
    let mut r = util::Rng(seed.wrapping_mul(0x9E37_79B9).wrapping_add(77));
    let mut out = Out::new(outp)?;
    for i in 0..n {
        // sizes: mostly small, some up to `max`
        let cap = if r.chance(1, 8) { max } else { 1 + max / 16 };
        let src = soup_text(&mut r, cap);
        let id = json!(format!("soup#{}", i));
        out.mark(&id, &src);
        let row = observe(&id, "soup", &src, false, true);
        out.put(&row)?;
    }
    out.done()
}

fn apply_mutation(base: &str, op: &str, arg: &str, pos: usize) -> Option<String> {
    let b = base.as_bytes();
    if pos > b.len() {
        return None;
    }
    let mut v: Vec<u8> = Vec::with_capacity(b.len() + 4);
    match op {
        "truncate" => v.extend_from_slice(&b[..pos]),
        "delete" => {
            if pos >= b.len() {
                return None;
            }
            v.extend_from_slice(&b[..pos]);
            v.extend_from_slice(&b[pos + 1..]);
        }
        "duplicate" => {
            if pos >= b.len() {
                return None;
            }
            v.extend_from_slice(&b[..=pos]);
            v.extend_from_slice(&b[pos..]);
        }
        "swap" => {
            if pos + 1 >= b.len() {
                return None;
            }
            v.extend_from_slice(b);
            v.swap(pos, pos + 1);
        }
        "insert" => {
            v.extend_from_slice(&b[..pos]);
            v.extend_from_slice(arg.as_bytes());
            v.extend_from_slice(&b[pos..]);
        }
        "indent_shift" => {
            // insert `arg` (blanks) at the start of the line containing pos
            let ls = b[..pos].iter().rposition(|c| *c == b'\n').map(|x| x + 1).unwrap_or(0);
            v.extend_from_slice(&b[..ls]);
            v.extend_from_slice(arg.as_bytes());
            v.extend_from_slice(&b[ls..]);
        }
        "dedent_shift" => {
            let ls = b[..pos].iter().rposition(|c| *c == b'\n').map(|x| x + 1).unwrap_or(0);
            if ls >= b.len() || b[ls] != b' ' {
                return None;
            }
            v.extend_from_slice(&b[..ls]);
            v.extend_from_slice(&b[ls + 1..]);
        }
        _ => return None,
    }
    Some(String::from_utf8_lossy(&v).into_owned())
}

fn run_mutate(basesp: &str, catp: &str, outp: &str, opts: &[String]) -> anyhow::Result<()> {
    let seed = util::opt_u64(opts, "--seed", 1);
    let budget = util::opt_u64(opts, "--budget", 20000);
    let bases = util::read_ndjson(basesp)?;
    let cat: Vec<J> = serde_json::from_str(&std::fs::read_to_string(catp)?)?;
    let mut out = Out::new(outp)?;
    let mut r = util::Rng(seed.wrapping_mul(31).wrapping_add(5));
    // total number of (base, mutation, position) triples; sample uniformly when over budget
    let total: u64 = bases.iter().map(|b| (b["src"].as_str().unwrap_or("").len() as u64 + 1) * cat.len() as u64).sum();
    let mut done = 0u64;
    let mut seen = std::collections::HashSet::new();
    for (bi, b) in bases.iter().enumerate() {
        let src = b["src"].as_str().unwrap_or("");
        for (mi, m) in cat.iter().enumerate() {
            let op = m["op"].as_str().unwrap_or("");
            let arg = m["arg"].as_str().unwrap_or("");
            for pos in 0..=src.len() {
                if total > budget && !r.chance(budget, total) {
                    continue;
                }
                let Some(text) = apply_mutation(src, op, arg, pos) else { continue };
                if !seen.insert(text.clone()) {
                    continue;
                }
                let id = json!(format!("mut#{}/{}/{}", bi, mi, pos));
                out.mark(&id, &text);
                let mut row = observe(&id, "mutate", &text, false, true);
                row["mutation"] = json!({"base": b["id"], "op": op, "arg": arg, "pos": pos});
                out.put(&row)?;
                done += 1;
            }
        }
    }
    let _ = done;
    out.done()
}

fn nest_cases(depth: usize) -> Vec<(String, String)> {
    let d = depth;
    let rep = |s: &str, n: usize| s.repeat(n);
    let mut v = vec![
        ("paren".to_owned(), format!("{}a{}\n", rep("(", d), rep(")", d))),
        ("list".to_owned(), format!("{}a{}\n", rep("[", d), rep("]", d))),
        ("dict".to_owned(), format!("{}a{}\n", rep("{a:", d), rep("}", d))),
        ("call".to_owned(), format!("{}a{}\n", rep("f(", d), rep(")", d))),
        ("index".to_owned(), format!("{}a{}\n", rep("a[", d), rep("]", d))),
        ("unclosed_paren".to_owned(), format!("{}a\n", rep("(", d))),
        ("unclosed_mixed".to_owned(), format!("{}a\n", rep("([{a:", d))),
        ("only_close".to_owned(), format!("a{}\n", rep(")", d))),
        ("unary".to_owned(), format!("{}a\n", rep("-", d))),
        ("not".to_owned(), format!("{}a\n", rep("not ", d))),
        ("lambda".to_owned(), format!("{}a\n", rep("lambda: ", d))),
        ("ternary".to_owned(), format!("{}a\n", rep("a if a else ", d))),
        ("ternary_cond".to_owned(), format!("a{}\n", rep(" if a else a", d))),
        ("binop_right".to_owned(), format!("{}a\n", rep("a + (", d)) + &rep(")", d)),
        ("binop_chain".to_owned(), format!("a{}\n", rep(" + a", d))),
        ("dot_chain".to_owned(), format!("a{}\n", rep(".b", d))),
        ("call_chain".to_owned(), format!("a{}\n", rep("()", d))),
        ("comp".to_owned(), format!("{}a{}\n", rep("[", d), rep(" for a in a]", d))),
        ("comp_clauses".to_owned(), format!("[a{}]\n", rep(" for a in a if a", d))),
        ("fstring".to_owned(), format!("f\"{}a{}\"\n", rep("{", d), rep("}", d))),
        ("fstring_nested".to_owned(), format!("{}a{}\n", rep("f'{", d.min(50)), rep("}'", d.min(50)))),
        ("tuple_target".to_owned(), format!("{}a{} = a\n", rep("(", d), rep(",)", d))),
        ("semicolons".to_owned(), format!("{}\n", rep("a;", d))),
        ("elif".to_owned(), format!("if a: a\n{}", rep("elif a: a\n", d))),
        ("string_escapes".to_owned(), format!("\"{}\"\n", rep("\\\\", d))),
        ("triple_quotes".to_owned(), format!("{}\n", rep("\"\"\"a\"\"\" ", d))),
        ("backslash_cont".to_owned(), format!("a = 1 {}+ 1\n", rep("\\\n", d))),
        ("type_ann".to_owned(), format!("x: {}int{} = 1\n", rep("list[", d), rep("]", d))),
    ];
    // indentation nesting
    let mut s = String::new();
    for i in 0..d {
        s.push_str(&" ".repeat(2 * i));
        s.push_str("if a:\n");
    }
    s.push_str(&" ".repeat(2 * d));
    s.push_str("a\n");
    v.push(("indent_if".to_owned(), s.clone()));
    let mut t = String::new();
    for i in 0..d {
        t.push_str(&" ".repeat(i));
        t.push_str(if i % 2 == 0 { "def f():\n" } else { "for a in a:\n" });
    }
    t.push_str(&" ".repeat(d));
    t.push_str("pass\n");
    v.push(("indent_def_for".to_owned(), t));
    // dedent to an inconsistent column after deep nesting
    v.push(("indent_bad_dedent".to_owned(), format!("{}{}b\n", s, " ".repeat(d + 1))));
    v
}

fn run_nest(outp: &str, opts: &[String]) -> anyhow::Result<()> {
    let depth = util::opt_u64(opts, "--depth", 200) as usize;
    let mut out = Out::new(outp)?;
    for (name, src) in nest_cases(depth) {
        let id = json!(format!("nest#{}#{}", name, depth));
        out.mark(&id, &src);
        let row = observe(&id, "nest", &src, false, true);
        out.put(&row)?;
    }
    out.done()
}

fn main() -> ExitCode {
    let args: Vec<String> = std::env::args().collect();
    c06::install_panic_hook();
    let stack_mb = util::opt_u64(&args, "--stack-mb", 8) as usize;
    let a = args.clone();
    let h = std::thread::Builder::new().stack_size(stack_mb << 20).spawn(move || -> anyhow::Result<()> {
        c06::install_panic_hook();
        match a.get(1).map(|s| s.as_str()) {
            Some("run") if a.len() >= 4 => run_cases(&a[2], &a[3], &a[4..]),
            Some("soup") if a.len() >= 3 => run_soup(&a[2], &a[3..]),
            Some("mutate") if a.len() >= 5 => run_mutate(&a[2], &a[3], &a[4], &a[5..]),
            Some("nest") if a.len() >= 3 => run_nest(&a[2], &a[3..]),
            _ => Err(anyhow::anyhow!("usage: vh_c05 run|soup|mutate|nest ...")),
        }
    });
    match h.map(|h| h.join()) {
        Ok(Ok(Ok(()))) => ExitCode::SUCCESS,
        Ok(Ok(Err(e))) => {
            eprintln!("vh_c05: {:#}", e);
            ExitCode::from(2)
        }
        _ => {
            eprintln!("vh_c05: worker thread died");
            ExitCode::from(3)
        }
    }
}
